(* Word/WRefineBounds.v — the BOUNDS side (C11) of the kernel theorems: on valid headers (windows at any
   row / word offset included) and arguments in the documented domain, every modelled kernel returns
   [Ok]: no checked access leaves the allocation ([Err OOB]), no data-dependent shift count reaches 64
   ([Err UB]), no [m4ri_die].  Also: the bit-range kernels touch the second word only when the span
   crosses into it.  Corollaries of WRefine*.v.  No axioms. *)
From Coq Require Import List NArith Arith Lia Bool ZifyBool ZifyNat ZifyN ZArith.
From M4 Require Import Base.Bits Lin.Mat Lin.Ops Lin.OpsProofs Word.WMat Word.WOps Word.WMatLemmas
  Word.WRefineLemmas Word.WRefine Word.WRefine2 Word.WRefine3 Word.WRefine4 Word.WRefine5 Word.WRefine6
  Word.WRefine7 Word.WRefine8 Word.WRefine9 Word.WRefine10 Word.WRefine11 Word.WRefine12 Word.WRefine13.
Import ListNotations.
Local Open Scope nat_scope.
Ltac Zify.zify_post_hook ::= Z.div_mod_to_equations.

Ltac safe L := let m := fresh "m" in let E := fresh "E" in destruct L as (m & E & _); eauto.

(* ------------------------------------------------------------------------------------------ *)
(** * the second word is touched only when the span crosses into it: when it does not, the ONE word
      [row_addr h x + y / 64] inside the allocation is enough (no validity of anything else needed) *)
Theorem w_read_bits_one_word h x y n mem : row_addr h x + y / 64 < length mem -> 1 <= n ->
  y mod 64 + n <= 64 -> exists v, w_read_bits h x y n mem = Ok v.
Proof.
  intros Hp Hn Hs. unfold w_read_bits. destruct (Nat.ltb_spec 64 n); [lia|].
  destruct (Nat.leb_spec (y mod 64 + n) 64); [|lia].
  rewrite rd_ok by assumption. cbn [bind]. rewrite shl64_ok by lia. cbn [bind]. rewrite shr64_ok by lia. eauto.
Qed.

Theorem w_xor_bits_one_word h x y n values mem : row_addr h x + y / 64 < length mem ->
  y mod 64 + n <= 64 -> exists m', w_xor_bits h x y n values mem = Ok m'.
Proof.
  intros Hp Hs. unfold w_xor_bits. rewrite rd_ok by assumption. cbn [bind]. rewrite wr_ok by assumption.
  cbn [bind]. destruct (Nat.ltb_spec (64 - y mod 64) n); [lia|]. eauto.
Qed.

Theorem w_clear_bits_one_word h x y n mem : row_addr h x + y / 64 < length mem -> 1 <= n ->
  y mod 64 + n <= 64 -> exists m', w_clear_bits h x y n mem = Ok m'.
Proof.
  intros Hp Hn Hs. unfold w_clear_bits. rewrite shr64_ok by lia. cbn [bind].
  rewrite rd_ok by assumption. cbn [bind]. rewrite wr_ok by assumption.
  cbn [bind]. destruct (Nat.ltb_spec (64 - y mod 64) n); [lia|]. eauto.
Qed.

(* ------------------------------------------------------------------------------------------ *)
(** * no kernel fails on valid headers *)
Theorem w_read_bit_safe h mem i j : valid h mem -> i < h_nrows h -> j < h_ncols h ->
  exists v, w_read_bit h i j mem = Ok v.
Proof. intros. rewrite w_read_bit_ok by assumption. eauto. Qed.

Theorem w_write_bit_safe h mem i j v : valid h mem -> i < h_nrows h -> j < h_ncols h ->
  exists m', w_write_bit h i j v mem = Ok m'.
Proof. intros Hv Hi Hj. safe (w_write_bit_ok h mem i j v Hv Hi Hj). Qed.

Theorem w_read_bits_safe h mem x y n : valid h mem -> x < h_nrows h -> 1 <= n <= 64 -> y + n <= h_ncols h ->
  exists v, w_read_bits h x y n mem = Ok v.
Proof. intros. rewrite w_read_bits_ok by assumption. eauto. Qed.

Theorem w_xor_bits_safe h mem x y n values : valid h mem -> x < h_nrows h -> 1 <= n <= 64 ->
  y + n <= h_ncols h -> bounded n values -> exists m', w_xor_bits h x y n values mem = Ok m'.
Proof. intros H1 H2 H3 H4 H5. safe (w_xor_bits_ok h mem x y n values H1 H2 H3 H4 H5). Qed.

Theorem w_clear_bits_safe h mem x y n : valid h mem -> x < h_nrows h -> 1 <= n <= 64 -> y + n <= h_ncols h ->
  exists m', w_clear_bits h x y n mem = Ok m'.
Proof. intros H1 H2 H3 H4. safe (w_clear_bits_ok h mem x y n H1 H2 H3 H4). Qed.

Theorem w_row_swap_safe h mem a b sb : valid h mem -> a < h_nrows h -> b < h_nrows h ->
  exists m', w_row_swap h a b sb mem = Ok m'.
Proof. intros H1 H2 H3. safe (w_row_swap_ok h mem a b sb H1 H2 H3). Qed.

Theorem w_col_swap_in_rows_safe h mem cola colb r0 r1 :
  valid h mem -> cola < h_ncols h -> colb < h_ncols h -> r0 <= r1 -> r1 <= h_nrows h ->
  exists m', w_col_swap_in_rows h cola colb r0 r1 mem = Ok m'.
Proof. intros H1 H2 H3 H4 H5. safe (w_col_swap_in_rows_ok h mem cola colb r0 r1 H1 H2 H3 H4 H5). Qed.

Theorem w_row_add_offset_safe h mem dst src co :
  valid h mem -> dst < h_nrows h -> src < h_nrows h -> dst <> src -> co < h_ncols h ->
  exists m', w_row_add_offset h dst src co mem = Ok m'.
Proof. intros H1 H2 H3 H4 H5. safe (w_row_add_offset_ok h mem dst src co H1 H2 H3 H4 H5). Qed.

Theorem w_row_clear_offset_safe h mem r co : valid h mem -> r < h_nrows h -> co < h_ncols h ->
  (exists m', w_row_clear_offset_fixed2 h r co mem = Ok m') /\
  (exists m', w_row_clear_offset_fixed h r co mem = Ok m').
Proof.
  intros H1 H2 H3. split.
  - safe (w_row_clear_offset_fixed2_ok h mem r co H1 H2 H3).
  - safe (w_row_clear_offset_fixed_ok h mem r co H1 H2 H3).
Qed.

Theorem w_combine_safe hC c hA a hB b sb mem :
  valid hC mem -> valid hA mem -> valid hB mem ->
  h_ncols hA = h_ncols hC -> h_ncols hB = h_ncols hC ->
  c < h_nrows hC -> a < h_nrows hA -> b < h_nrows hB -> sb < h_width hC ->
  row_alias hC c hA a -> row_alias hC c hB b ->
  (exists m', w_combine_even hC c sb hA a sb hB b sb mem = Ok m') /\
  (exists m', w_combine hC c sb hA a sb hB b sb mem = Ok m').
Proof.
  intros. split.
  - safe (w_combine_even_ok hC c hA a hB b sb mem).
  - safe (w_combine_ok hC c hA a hB b sb mem).
Qed.

Theorem w_combine_even_in_place_safe hA a hB b sb mem :
  valid hA mem -> valid hB mem -> h_ncols hB = h_ncols hA ->
  a < h_nrows hA -> b < h_nrows hB -> sb < h_width hA -> row_alias hA a hB b ->
  exists m', w_combine_even_in_place hA a sb hB b sb mem = Ok m'.
Proof. intros. safe (w_combine_even_in_place_ok hA a hB b sb mem). Qed.

Theorem w_add_safe hC hA hB mem :
  valid hC mem -> valid hA mem -> valid hB mem -> 0 < h_ncols hC ->
  same_dims hA hC -> same_dims hB hC -> alias_ok hC hA -> alias_ok hC hB ->
  (exists m', w_add hC hA hB mem = Ok m') /\ (exists m', w_mzd_add hC hA hB mem = Ok m').
Proof.
  intros. split.
  - safe (w_add_ok hC hA hB mem).
  - safe (w_mzd_add_ok hC hA hB mem).
Qed.

Theorem w_copy_safe hN hP mem :
  valid hN mem -> valid hP mem -> 0 < h_ncols hP ->
  h_nrows hP <= h_nrows hN -> h_ncols hP <= h_ncols hN -> alias_ok hN hP ->
  exists m', w_copy hN hP mem = Ok m'.
Proof. intros. safe (w_copy_ok hN hP mem). Qed.

Theorem w_copy_row_safe hB i hA j mem :
  valid hB mem -> valid hA mem -> i < h_nrows hB -> j < h_nrows hA ->
  0 < h_ncols hA -> h_ncols hA <= h_ncols hB -> row_alias hB i hA j ->
  exists m', w_copy_row hB i hA j mem = Ok m'.
Proof. intros. safe (w_copy_row_ok hB i hA j mem). Qed.

Theorem w_set_ui_safe hA value mem : valid hA mem -> 0 < h_ncols hA ->
  exists m', w_set_ui hA value mem = Ok m'.
Proof. intros. safe (w_set_ui_ok hA value mem). Qed.

Theorem w_submatrix_fixed_safe hS hM sr sc er ec mem :
  valid hS mem -> valid hM mem -> h_nrows hS = er - sr -> h_ncols hS = ec - sc ->
  sr <= er -> er <= h_nrows hM -> ec <= h_ncols hM -> sc < ec -> wdisjoint hS hM ->
  exists m', w_submatrix_fixed hS hM sr sc er ec mem = Ok m'.
Proof. intros. safe (w_submatrix_fixed_ok hS hM sr sc er ec mem). Qed.

Theorem w_concat_fixed_safe hC hA hB mem :
  valid hC mem -> valid hA mem -> valid hB mem -> 0 < h_ncols hA ->
  h_nrows hA = h_nrows hC -> h_nrows hB = h_nrows hC -> h_ncols hC = h_ncols hA + h_ncols hB ->
  wdisjoint hC hA -> wdisjoint hC hB -> exists m', w_concat_fixed hC hA hB mem = Ok m'.
Proof. intros. safe (w_concat_fixed_ok hC hA hB mem). Qed.

Theorem w_stack_fixed_safe hC hA hB mem :
  valid hC mem -> valid hA mem -> valid hB mem -> 0 < h_ncols hC ->
  h_ncols hA = h_ncols hC -> h_ncols hB = h_ncols hC -> h_nrows hC = h_nrows hA + h_nrows hB ->
  wdisjoint hC hA -> wdisjoint hC hB -> exists m', w_stack_fixed hC hA hB mem = Ok m'.
Proof. intros. safe (w_stack_fixed_ok hC hA hB mem). Qed.

Theorem w_extract_safe hT hA mem :
  let k := Nat.min (h_nrows hA) (h_ncols hA) in
  valid hT mem -> valid hA mem -> 0 < k -> h_nrows hT = k -> h_ncols hT = k -> wdisjoint hT hA ->
  (exists m', w_extract_u_fx hT hA mem = Ok m') /\ (exists m', w_extract_l_fx hT hA mem = Ok m').
Proof.
  intros k **. split.
  - safe (w_extract_u_fx_ok hT hA mem).
  - safe (w_extract_l_fx_ok hT hA mem).
Qed.

(** destinations allocated by the call *)
Theorem w_fresh_safe hA hB mem : valid hA mem -> valid hB mem -> 0 < h_ncols hA ->
  (same_dims hB hA -> exists r, w_mzd_add_fresh hA hB mem = Ok r) /\
  (exists r, w_copy_fresh hA mem = Ok r) /\
  (h_nrows hA = h_nrows hB -> exists r, w_concat_fixed_fresh hA hB mem = Ok r) /\
  (h_ncols hA = h_ncols hB -> exists r, w_stack_fixed_fresh hA hB mem = Ok r).
Proof.
  intros HvA HvB Hc. repeat split.
  - intros D. destruct (w_mzd_add_fresh_ok hA hB mem HvA HvB Hc D) as (m' & hC & E & _). eauto.
  - destruct (w_copy_fresh_ok hA mem HvA Hc) as (m' & hN & E & _). eauto.
  - intros D. destruct (w_concat_fixed_fresh_ok hA hB mem HvA HvB Hc D) as (m' & hC & E & _). eauto.
  - intros D. destruct (w_stack_fixed_fresh_ok hA hB mem HvA HvB Hc D) as (m' & hC & E & _). eauto.
Qed.

(** observers (read only) *)
Theorem w_observers_safe hA hB mem r0 c0 : valid hA mem -> valid hB mem -> 0 < h_ncols hA ->
  (exists v, w_equal hA hB mem = Ok v) /\ (exists v, w_cmp hA hB mem = Ok v) /\
  (exists v, w_is_zero hA mem = Ok v) /\ (exists v, w_first_zero_row_fixed hA mem = Ok v) /\
  (exists v, w_find_pivot hA r0 c0 mem = Ok v).
Proof.
  intros HvA HvB Hc.
  rewrite w_equal_ok, w_cmp_ok, w_is_zero_ok, w_first_zero_row_fixed_ok, w_find_pivot_ok by assumption.
  repeat split; eauto.
Qed.
