(* Word/WRefine8.v — refinement theorems, part 8: mzd_cmp.  The word-wise comparison "masked last
   word first, then the lower words downwards" of each row pair is the numerical comparison of the row
   values, hence w_cmp = mcmp on the viewed blocks, for arbitrary excess bits.  No axioms. *)
From Coq Require Import List NArith Arith Lia Bool ZifyBool ZifyNat ZifyN ZArith.
From M4 Require Import Base.Bits Lin.Mat Lin.Ops Lin.OpsProofs Lin.Observers Word.WMat Word.WOps
  Word.WMatLemmas Word.WRefineLemmas Word.WRefine2 Word.WRefine7.
Import ListNotations.
Local Open Scope nat_scope.
Ltac Zify.zify_post_hook ::= Z.div_mod_to_equations.

(** lexicographic comparison of little-endian word lists: the highest differing word decides *)
Fixpoint lc (l l' : list N) : comparison :=
  match l, l' with
  | w :: t, w' :: t' => match lc t t' with Eq => N.compare w w' | c => c end
  | _, _ => Eq
  end.

Lemma lc_snoc l l' w w' : length l = length l' ->
  lc (l ++ [w]) (l' ++ [w']) = match N.compare w w' with Eq => lc l l' | c => c end.
Proof.
  revert l'. induction l as [|x l IH]; intros [|x' l'] H; cbn [length] in H; try discriminate; cbn [app lc].
  - now destruct (N.compare w w').
  - rewrite IH by lia. destruct (N.compare w w'); [|reflexivity..]. reflexivity.
Qed.

Lemma glue_lt ws : (glue ws < 2 ^ (64 * N.of_nat (length ws)))%N.
Proof.
  replace (64 * N.of_nat (length ws))%N with (N.of_nat (64 * length ws)) by lia.
  apply bounded_lt. intros j Hj. rewrite testbit_glue_div. rewrite nth_overflow by lia. apply N.bits_0.
Qed.

Lemma glue_cons_add w t : glue (w :: t) = (trunc w + glue t * 2 ^ 64)%N.
Proof.
  cbn [glue].
  assert (H : N.land (trunc w) (N.shiftl (glue t) 64) = 0%N).
  { apply bits_ext_nat. intros j. rewrite N.land_spec, N.bits_0, testbit_trunc.
    change 64%N with (N.of_nat 64). rewrite testbit_shiftl_nat.
    destruct (Nat.ltb_spec j 64), (Nat.leb_spec 64 j); try lia; cbn [andb]; now rewrite ?andb_false_r. }
  rewrite <- N.shiftl_mul_pow2. symmetry. rewrite N.add_nocarry_lxor by exact H. now apply N.lxor_lor.
Qed.

Lemma compare_glue l l' : length l = length l' ->
  N.compare (glue l) (glue l') = lc (map trunc l) (map trunc l').
Proof.
  revert l'. induction l as [|w t IH]; intros [|w' t'] H; cbn [length] in H; try discriminate; [reflexivity|].
  cbn [map lc]. rewrite <- IH by lia. rewrite !glue_cons_add.
  pose proof (trunc_lt w). pose proof (trunc_lt w').
  change (2 ^ 64)%N with 18446744073709551616%N in *.
  destruct (N.compare_spec (glue t) (glue t')) as [E|L|L].
  - rewrite E. destruct (N.compare_spec (trunc w) (trunc w')) as [E2|L2|L2].
    + rewrite E2. apply N.compare_refl.
    + apply N.compare_lt_iff. lia.
    + apply N.compare_gt_iff. lia.
  - apply N.compare_lt_iff. lia.
  - apply N.compare_gt_iff. lia.
Qed.

(** the row value is the glue of the row's words with the last one masked *)
Definition mword (h : hdr) (mem : list N) (i k : nat) : N :=
  if k =? h_width h - 1 then N.land (word_at mem (row_addr h i + k)) (h_hmask h)
  else word_at mem (row_addr h i + k).

Lemma rowval_glue h mem i : hdr_ok h -> mem_ok mem -> 0 < h_ncols h ->
  rowval h mem i = glue (map (mword h mem i) (seq 0 (h_width h))).
Proof.
  intros Hok Hm Hc0. apply bits_ext_nat. intros j. rewrite testbit_glue_div.
  destruct (Nat.lt_ge_cases (j / 64) (h_width h)) as [Hk|Hk].
  - rewrite (nth_map_default _ _ _ 0) by now rewrite seq_length. rewrite seq_nth by assumption. cbn [Nat.add].
    unfold mword. rewrite (row_word_bits h mem i Hok Hc0 (j / 64) (j mod 64)) by lia. do 2 f_equal. lia.
  - rewrite nth_overflow by (rewrite map_length, seq_length; lia). rewrite N.bits_0.
    apply rowval_bounded. pose proof (ncols_width h Hok). lia.
Qed.

Lemma ltb_compare_opt x y :
  (if (x <? y)%N then Some Lt else if (y <? x)%N then Some Gt else None) =
  match N.compare x y with Eq => None | c => Some c end.
Proof.
  destruct (N.compare_spec x y) as [E|L|L].
  - subst. now rewrite N.ltb_irrefl.
  - apply N.ltb_lt in L. now rewrite L.
  - destruct (N.ltb_spec x y); [lia|]. apply N.ltb_lt in L. now rewrite L.
Qed.

Lemma land_word_lt w m : (w < 2 ^ 64)%N -> (N.land w m < 2 ^ 64)%N.
Proof. intros H. change 64%N with (N.of_nat 64). apply bounded_lt, bounded_land_l. now apply word_bounded. Qed.

Definition copt (c : comparison) : option comparison := match c with Eq => None | c => Some c end.

(** the downward word loop of one row pair *)
Lemma cmp_low_loop mem ra rb n : ra + n <= length mem -> rb + n <= length mem ->
  firstM (rev (seq 0 n)) (fun j =>
     x <- rd mem (ra + j) ;; y <- rd mem (rb + j) ;;
     Ok (if (x <? y)%N then Some Lt else if (y <? x)%N then Some Gt else None)) =
  Ok (copt (lc (map (fun j => word_at mem (ra + j)) (seq 0 n)) (map (fun j => word_at mem (rb + j)) (seq 0 n)))).
Proof.
  intros Ha Hb. induction n as [|n IH]; [reflexivity|].
  rewrite seq_S, rev_app_distr, !map_app. cbn [rev app map firstM Nat.add].
  rewrite !rd_ok by lia. cbn [bind]. rewrite lc_snoc by now rewrite !map_length.
  rewrite ltb_compare_opt. destruct (N.compare _ _); cbn [copt]; [|reflexivity..].
  apply IH; lia.
Qed.

Lemma list_cmp_map_seq (f g : nat -> N) a n :
  list_cmp (map f (seq a n)) (map g (seq a n)) =
  opt_default Eq (fold_right (fun k acc => match copt (N.compare (f k) (g k)) with Some v => Some v | None => acc end)
                             None (seq a n)).
Proof.
  revert a. induction n as [|n IH]; intros a; cbn [seq map list_cmp fold_right]; [reflexivity|].
  destruct (N.compare (f a) (g a)); cbn [copt opt_default]; auto.
Qed.

Lemma mword_low h mem i n : mem_ok mem -> h_width h = S n ->
  map trunc (map (mword h mem i) (seq 0 n)) = map (fun j => word_at mem (row_addr h i + j)) (seq 0 n).
Proof.
  intros Hm HW. rewrite map_map. apply map_ext_in. intros k Hk. rewrite in_seq in Hk. unfold mword.
  rewrite HW. destruct (Nat.eqb_spec k (S n - 1)); [lia|]. apply trunc_id. now apply mem_ok_word.
Qed.

Lemma mword_top h mem i n : mem_ok mem -> h_width h = S n ->
  trunc (mword h mem i n) = N.land (word_at mem (row_addr h i + n)) (h_hmask h).
Proof.
  intros Hm HW. unfold mword. rewrite HW. replace (S n - 1) with n by lia. rewrite Nat.eqb_refl.
  apply trunc_id, land_word_lt. now apply mem_ok_word.
Qed.

Lemma row_compare hA hB mem i n : hdr_ok hA -> hdr_ok hB -> mem_ok mem -> 0 < h_ncols hA ->
  h_ncols hA = h_ncols hB -> h_width hA = S n ->
  N.compare (rowval hA mem i) (rowval hB mem i) =
  match N.compare (N.land (word_at mem (row_addr hA i + n)) (h_hmask hA))
                  (N.land (word_at mem (row_addr hB i + n)) (h_hmask hA)) with
  | Eq => lc (map (fun j => word_at mem (row_addr hA i + j)) (seq 0 n))
             (map (fun j => word_at mem (row_addr hB i + j)) (seq 0 n))
  | c => c end.
Proof.
  intros HokA HokB Hm Hc0 Ec HW. destruct (same_ncols_width hA hB HokA HokB Ec) as [EW EM].
  rewrite (rowval_glue hA mem i HokA Hm Hc0), (rowval_glue hB mem i HokB Hm ltac:(lia)).
  rewrite compare_glue by now rewrite !map_length, !seq_length, EW.
  rewrite <- EW, HW. rewrite seq_S, !map_app. cbn [map Nat.add].
  rewrite lc_snoc by now rewrite !map_length.
  rewrite (mword_top hA mem i n Hm HW), (mword_top hB mem i n Hm ltac:(congruence)).
  rewrite (mword_low hA mem i n Hm HW), (mword_low hB mem i n Hm ltac:(congruence)).
  now rewrite <- EM.
Qed.

Theorem w_cmp_ok hA hB mem : valid hA mem -> valid hB mem -> 0 < h_ncols hA ->
  w_cmp hA hB mem = Ok (mcmp (abs hA mem) (abs hB mem)).
Proof.
  intros HvA HvB Hc0. pose proof (valid_hdr_ok _ _ HvA) as HokA. pose proof (valid_hdr_ok _ _ HvB) as HokB.
  pose proof (valid_mem_ok _ _ HvA) as Hm. pose proof (width_pos_of_ncols hA HokA Hc0) as HWp.
  unfold w_cmp, mcmp. rewrite !nr_abs, !nc_abs.
  destruct (Nat.compare_spec (h_nrows hA) (h_nrows hB)) as [Er|Lr|Lr].
  2:{ destruct (Nat.ltb_spec (h_nrows hA) (h_nrows hB)); [reflexivity|lia]. }
  2:{ destruct (Nat.ltb_spec (h_nrows hA) (h_nrows hB)); [lia|].
      destruct (Nat.ltb_spec (h_nrows hB) (h_nrows hA)); [reflexivity|lia]. }
  rewrite Er, !Nat.ltb_irrefl.
  destruct (Nat.compare_spec (h_ncols hA) (h_ncols hB)) as [Ec|Lc|Lc].
  2:{ destruct (Nat.ltb_spec (h_ncols hA) (h_ncols hB)); [reflexivity|lia]. }
  2:{ destruct (Nat.ltb_spec (h_ncols hA) (h_ncols hB)); [lia|].
      destruct (Nat.ltb_spec (h_ncols hB) (h_ncols hA)); [reflexivity|lia]. }
  rewrite Ec, !Nat.ltb_irrefl.
  destruct (same_ncols_width hA hB HokA HokB Ec) as [EW EM].
  destruct (Nat.eqb_spec (h_width hA) 0) as [|_]; [lia|]. cbn [andb].
  rewrite (firstM_total _ (fun i => copt (N.compare (rowval hA mem i) (rowval hB mem i)))).
  - cbn [bind]. f_equal. unfold abs. cbn [rows]. rewrite <- Er. now rewrite list_cmp_map_seq.
  - intros i Hi. rewrite in_seq in Hi. set (n := h_width hA - 1).
    pose proof (valid_word hA mem i n HvA ltac:(lia) ltac:(lia)).
    pose proof (valid_word hB mem i n HvB ltac:(lia) ltac:(lia)).
    rewrite !rd_ok by lia. cbn [bind].
    rewrite (row_compare hA hB mem i n) by (auto; lia).
    set (xa := N.land (word_at mem (row_addr hA i + n)) (h_hmask hA)).
    set (xb := N.land (word_at mem (row_addr hB i + n)) (h_hmask hA)).
    destruct (N.compare_spec xa xb) as [E|L|L].
    + destruct (N.ltb_spec xa xb); [lia|]. destruct (N.ltb_spec xb xa); [lia|].
      rewrite cmp_low_loop by lia. reflexivity.
    + apply N.ltb_lt in L. now rewrite L.
    + destruct (N.ltb_spec xa xb); [lia|]. apply N.ltb_lt in L. now rewrite L.
Qed.
