(* Word/WOps2.v — EXECUTABLE hand models, second part.  Definitions only (proofs: Word/WRefine14.v,
   Word/WRefine15.v).  Same conventions as Word/WOps.v (every C statement that touches memory is one
   [rd]/[wr] in the order of the C text, with the masks of the C text).

   Part A mirrors, statement for statement, the CURRENT text of /repo/m4ri (after the repairs
   1081895, 44152bf, 844b781, 2d98b44, 45b4a5a, 611d558) of the kernels whose Word/WOps.v models were
   written against the pinned tree:
       mzd_row_clear_offset   mzd.c:197-209         w2_row_clear_offset
       mzd_first_zero_row     mzd.c:1849-1864       w2_first_zero_row
       mzd_concat             mzd.c:1402-1427       w2_concat
       mzd_stack              mzd.c:1429-1459       w2_stack
       mzd_submatrix          mzd.c:1608-1649       w2_submatrix      (both paths)
       mzd_extract_u          mzd.c:1866-1876       w2_extract_u
       mzd_extract_l          mzd.c:1878-1890       w2_extract_l      (column-chunk loop, mzd_clear_bits)
       mzd_row_add_offset     mzd.h:537-584         w2_row_add_offset (src_last read before the update)
   Part B models the table construction and the one-table row processing of the Four-Russians code on
   the same checked memory (table T and matrix M are two headers into the ONE allocation):
       mzd_make_table         brilliantrussian.c:164-211   w_make_table
       mzd_process_rows       brilliantrussian.c:213-348   w_process_rows

   Not modelled (same word-wise effect): SSE2 paths and their alignment peeling, the 8-fold unrolling
   of mzd_make_table (a [for] by 8 followed by a fall-through [switch]: together they store the words
   1 .. wide-2 unmasked and, iff wide >= 2, the word wide-1 under mask_end) and the Duff's devices of
   mzd_process_rows (count = (wide+7)/8, entry = wide%8: exactly [wide] iterations for wide >= 1; for
   wide <= 0 the device would run 8 iterations — modelled as [Err UB]).  The order of the two rows inside
   one iteration of the interleaved devices ( *m0++ ^= *t0++; *m1++ ^= *t1++ ) IS kept. *)
From Coq Require Import List NArith Arith Bool.
From M4 Require Import Base.Bits Lin.Mat Lin.Ops Word.WMat Word.WOps.
Import ListNotations.
Local Open Scope nat_scope.

(* ========================================================================================== *)
(** * Part A: the repaired kernels of mzd.c / mzd.h *)

(** mzd_row_clear_offset(M, row, coloffset)   mzd.c:197
      wi_t const startblock = coloffset / m4ri_radix;  wi_t const last = M->width - 1;
      word keep = (coloffset % m4ri_radix) ? __M4RI_LEFT_BITMASK(coloffset % m4ri_radix) : 0;
      if (startblock == last) { keep |= ~M->high_bitmask; }
      truerow[startblock] &= keep;
      for (wi_t i = startblock + 1; i < last; ++i) { truerow[i] = 0; }
      if (startblock < last) { truerow[last] &= ~M->high_bitmask; }
    (width 0: last = -1 in C; outside the domain of every theorem, [Err OOB] here) *)
Definition w2_row_clear_offset (h : hdr) (row coloffset : nat) (mem : list N) : res (list N) :=
  if h_width h =? 0 then Err OOB else
  let startblock := coloffset / 64 in
  let last := h_width h - 1 in
  let truerow := row_addr h row in
  let keep := if negb (coloffset mod 64 =? 0) then left_bitmask (coloffset mod 64) else 0%N in
  let keep := if startblock =? last then N.lor keep (wnot (h_hmask h)) else keep in
  t <- rd mem (truerow + startblock) ;;
  m1 <- wr mem (truerow + startblock) (N.land t keep) ;;
  m2 <- forM (seq (startblock + 1) (last - (startblock + 1))) (fun i m => wr m (truerow + i) 0%N) m1 ;;
  if startblock <? last then
    t <- rd m2 (truerow + last) ;; wr m2 (truerow + last) (N.land t (wnot (h_hmask h)))
  else Ok m2.

(** mzd_first_zero_row(A)   mzd.c:1849
      word tmp = 0;  for (wi_t j = 0; j < end; ++j) tmp |= row[j];  tmp |= row[end] & mask_end; *)
Definition w2_first_zero_row (hA : hdr) (mem : list N) : res nat :=
  if (h_width hA =? 0) && negb (h_nrows hA =? 0) then Err OOB else
  let mask_end := left_bitmask (h_ncols hA mod 64) in
  let e := h_width hA - 1 in
  r <- firstM (rev (seq 0 (h_nrows hA))) (fun i =>
         let row := row_addr hA i in
         tmp <- forM (seq 0 e) (fun j t => x <- rd mem (row + j) ;; Ok (N.lor t x)) 0%N ;;
         x <- rd mem (row + e) ;;
         let tmp := N.lor tmp (N.land x mask_end) in
         Ok (if negb (tmp =? 0)%N then Some (i + 1) else None)) ;;
  Ok (opt_default 0 r).

(** the row copy of mzd_concat / mzd_stack   mzd.c:1412-1417, 1440-1445, 1448-1454
      for (wi_t j = 0; j < A->width - 1; ++j) { dst_truerow[j] = src_truerow[j]; }
      dst_truerow[A->width - 1] = (dst_truerow[A->width - 1] & ~A->high_bitmask) |
                                  (src_truerow[A->width - 1] & A->high_bitmask);
    (width 0: index -1, [Err OOB]) *)
Definition w2_copy_row_masked (hD : hdr) (di : nat) (hS : hdr) (si : nat) (mem : list N)
  : res (list N) :=
  if h_width hS =? 0 then Err OOB else
  let wide := h_width hS - 1 in
  m1 <- forM (seq 0 wide) (fun j m => x <- rd m (row_addr hS si + j) ;; wr m (row_addr hD di + j) x) mem ;;
  d <- rd m1 (row_addr hD di + wide) ;; s <- rd m1 (row_addr hS si + wide) ;;
  wr m1 (row_addr hD di + wide) (N.lor (N.land d (wnot (h_hmask hS))) (N.land s (h_hmask hS))).

(** mzd_concat(C, A, B), C supplied   mzd.c:1402 *)
Definition w2_concat (hC hA hB : hdr) (mem : list N) : res (list N) :=
  if negb (h_nrows hA =? h_nrows hB) then Err Die else
  if negb ((h_nrows hC =? h_nrows hA) && (h_ncols hC =? h_ncols hA + h_ncols hB)) then Err Die else
  m1 <- forM (seq 0 (h_nrows hA)) (fun i m => w2_copy_row_masked hC i hA i m) mem ;;
  forM (seq 0 (h_nrows hB)) (fun i m =>
    forM (seq 0 (h_ncols hB)) (fun j m =>
      b <- w_read_bit hB i j m ;; w_write_bit hC i (j + h_ncols hA) b m) m) m1.

(** mzd_stack(C, A, B), C supplied   mzd.c:1429 *)
Definition w2_stack (hC hA hB : hdr) (mem : list N) : res (list N) :=
  if negb (h_ncols hA =? h_ncols hB) then Err Die else
  if negb ((h_nrows hC =? h_nrows hA + h_nrows hB) && (h_ncols hC =? h_ncols hA)) then Err Die else
  m1 <- forM (seq 0 (h_nrows hA)) (fun i m => w2_copy_row_masked hC i hA i m) mem ;;
  forM (seq 0 (h_nrows hB)) (fun i m => w2_copy_row_masked hC (h_nrows hA + i) hB i m) m1.

(** mzd_submatrix(S, M, startrow, startcol, endrow, endcol), S supplied   mzd.c:1608
    aligned path (startcol % 64 == 0): memcpy of ncols/64 words per row, then per row
        word temp = mzd_row_const(M, x)[startword + ncols / 64] & mask_end;
        mzd_row(S, i)[ncols / 64] = (mzd_row(S, i)[ncols / 64] & ~mask_end) | temp;
    unaligned path: mzd_read_bits per destination word, tail merged under S->high_bitmask. *)
Definition w2_submatrix (hS hM : hdr) (startrow startcol endrow endcol : nat) (mem : list N)
  : res (list N) :=
  let nrows := endrow - startrow in
  let ncols := endcol - startcol in
  if (h_nrows hS <? nrows) || (h_ncols hS <? ncols) then Err Die else
  if startcol mod 64 =? 0 then
    let startword := startcol / 64 in
    m1 <- (if negb (ncols / 64 =? 0) then
             forM (seq 0 nrows) (fun i m =>
               forM (seq 0 (ncols / 64)) (fun k m =>
                 x <- rd m (row_addr hM (startrow + i) + startword + k) ;;
                 wr m (row_addr hS i + k) x) m) mem
           else Ok mem) ;;
    if negb (ncols mod 64 =? 0) then
      let mask_end := left_bitmask (ncols mod 64) in
      forM (seq 0 nrows) (fun i m =>
        x <- rd m (row_addr hM (startrow + i) + startword + ncols / 64) ;;
        s <- rd m (row_addr hS i + ncols / 64) ;;
        wr m (row_addr hS i + ncols / 64) (N.lor (N.land s (wnot mask_end)) (N.land x mask_end))) m1
    else Ok m1
  else
    forM (seq 0 nrows) (fun i m =>
      let srow := row_addr hS i in
      let full := (ncols - 1) / 64 in
      m1 <- forM (seq 0 full) (fun jj m =>
              v <- w_read_bits hM (startrow + i) (startcol + 64 * jj) 64 m ;;
              wr m (srow + jj) v) m ;;
      let j := 64 * full in
      w <- rd m1 (srow + j / 64) ;;
      m2 <- wr m1 (srow + j / 64) (N.land w (wnot (h_hmask hS))) ;;
      w' <- rd m2 (srow + j / 64) ;;
      v <- w_read_bits hM (startrow + i) (startcol + j) (ncols - j) m2 ;;
      wr m2 (srow + j / 64) (N.lor w' (N.land v (h_hmask hS)))) mem.

(** mzd_extract_u(U, A), U supplied (k x k)   mzd.c:1866 *)
Definition w2_extract_u (hU hA : hdr) (mem : list N) : res (list N) :=
  let k := Nat.min (h_nrows hA) (h_ncols hA) in
  m0 <- w2_submatrix hU hA 0 0 k k mem ;;
  forM (seq 1 (h_nrows hU - 1)) (fun i m =>
    let row := row_addr hU i in
    m1 <- forM (seq 0 (i / 64)) (fun j m => wr m (row + j) 0%N) m ;;
    if negb (i mod 64 =? 0) then w_clear_bits hU i ((i / 64) * 64) (i mod 64) m1 else Ok m1) m0.

(** the column loop of mzd_extract_l   mzd.c:1884-1886
      for (rci_t j = i + 1; j < L->ncols; j += m4ri_radix - j % m4ri_radix)
        mzd_clear_bits(L, i, j, MIN(m4ri_radix - j % m4ri_radix, L->ncols - j));
    Every iteration moves j to the next word boundary, so [width] iterations always suffice
    (syntactic fuel; running out of it is [Err Fuel], excluded by the theorems). *)
Fixpoint w2_clear_from (fuel : nat) (hL : hdr) (i j : nat) (mem : list N) : res (list N) :=
  if h_ncols hL <=? j then Ok mem else
  match fuel with
  | 0 => Err Fuel
  | S f =>
    m1 <- w_clear_bits hL i j (Nat.min (64 - j mod 64) (h_ncols hL - j)) mem ;;
    w2_clear_from f hL i (j + (64 - j mod 64)) m1
  end.

(** mzd_extract_l(L, A), L supplied (k x k)   mzd.c:1878 *)
Definition w2_extract_l (hL hA : hdr) (mem : list N) : res (list N) :=
  let k := Nat.min (h_nrows hA) (h_ncols hA) in
  m0 <- w2_submatrix hL hA 0 0 k k mem ;;
  forM (seq 0 (h_nrows hL - 1)) (fun i m => w2_clear_from (h_width hL) hL i (i + 1) m) m0.

(** NULL destinations (mzd_init, then the same code) *)
Definition w2_submatrix_fresh (hM : hdr) (sr sc er ec : nat) (mem : list N) : res (list N * hdr) :=
  let '(mem0, hS) := w_alloc mem (er - sr) (ec - sc) in
  m <- w2_submatrix hS hM sr sc er ec mem0 ;; Ok (m, hS).
Definition w2_concat_fresh (hA hB : hdr) (mem : list N) : res (list N * hdr) :=
  if negb (h_nrows hA =? h_nrows hB) then Err Die else
  let '(mem0, hC) := w_alloc mem (h_nrows hA) (h_ncols hA + h_ncols hB) in
  m <- w2_concat hC hA hB mem0 ;; Ok (m, hC).
Definition w2_stack_fresh (hA hB : hdr) (mem : list N) : res (list N * hdr) :=
  if negb (h_ncols hA =? h_ncols hB) then Err Die else
  let '(mem0, hC) := w_alloc mem (h_nrows hA + h_nrows hB) (h_ncols hA) in
  m <- w2_stack hC hA hB mem0 ;; Ok (m, hC).
Definition w2_extract_u_fresh (hA : hdr) (mem : list N) : res (list N * hdr) :=
  let k := Nat.min (h_nrows hA) (h_ncols hA) in
  let '(mem0, hU) := w_alloc mem k k in
  m <- w2_extract_u hU hA mem0 ;; Ok (m, hU).
Definition w2_extract_l_fresh (hA : hdr) (mem : list N) : res (list N * hdr) :=
  let k := Nat.min (h_nrows hA) (h_ncols hA) in
  let '(mem0, hL) := w_alloc mem k k in
  m <- w2_extract_l hL hA mem0 ;; Ok (m, hL).

(** mzd_row_add_offset(M, dstrow, srcrow, coloffset)   mzd.h:537
      word const src_last = src[wide - 1];   /* read now: src and dst are the same row when dstrow == srcrow */
      *dst++ ^= *src++ & mask_begin;  --wide;
      while (++i < wide) { dst[i] ^= src[i]; }
      dst[i - 1] ^= src_last & ~mask_end;
    dstrow == srcrow is allowed (mzd_row_add(M, i, i)). *)
Definition w2_row_add_offset (h : hdr) (dstrow srcrow coloffset : nat) (mem : list N) : res (list N) :=
  if h_ncols h <=? coloffset then Err UB else
  let startblock := coloffset / 64 in
  let wide := h_width h - startblock in
  let src := row_addr h srcrow + startblock in
  let dst := row_addr h dstrow + startblock in
  let mask_begin := right_bitmask (64 - coloffset mod 64) in
  let mask_end := h_hmask h in
  src_last <- rd mem (src + wide - 1) ;;
  s0 <- rd mem src ;; d0 <- rd mem dst ;;
  m0 <- wr mem dst (N.lxor d0 (N.land s0 mask_begin)) ;;
  let src := src + 1 in
  let dst := dst + 1 in
  let wide := wide - 1 in
  m1 <- forM (seq 0 wide) (fun i m =>
          s <- rd m (src + i) ;; d <- rd m (dst + i) ;; wr m (dst + i) (N.lxor d s)) m0 ;;
  d <- rd m1 (dst + wide - 1) ;;
  wr m1 (dst + wide - 1) (N.lxor d (N.land src_last (wnot mask_end))).

(* ========================================================================================== *)
(** * Part B: mzd_make_table and mzd_process_rows (brilliantrussian.c) *)

(** checked access to the C arrays L, ord, inc *)
Definition rdL {A} (l : list A) (i : nat) : res A :=
  match nth_error l i with Some v => Ok v | None => Err OOB end.
Definition wrL {A} (l : list A) (i : nat) (v : A) : res (list A) :=
  if i <? length l then Ok (upd i v l) else Err OOB.

(** mzd_make_table(M, r, c, k, T, L)   brilliantrussian.c:164
      wi_t const homeblock = c / m4ri_radix;
      word const mask_end = __M4RI_LEFT_BITMASK(M->ncols % m4ri_radix);
      word const pure_mask_begin = __M4RI_RIGHT_BITMASK(m4ri_radix - (c % m4ri_radix));
      word const mask_begin = (M->width - homeblock != 1) ? pure_mask_begin : pure_mask_begin & mask_end;
      wi_t const wide = M->width - homeblock;
      L[0] = 0;
      for (rci_t i = 1; i < twokay; ++i) {
        word *ti = mzd_row(T, i) + homeblock;  word *ti1 = mzd_row(T, i - 1) + homeblock;
        rci_t const rowneeded = r + m4ri_codebook[k]->inc[i - 1];
        int const id = m4ri_codebook[k]->ord[i];   L[id] = i;
        if (rowneeded >= M->nrows) continue;
        word const *m = mzd_row_const(M, rowneeded) + homeblock;
        *ti++ = ( *m++ ^ *ti1++) & mask_begin;
        (words 1 .. wide-2:  *ti++ = *m++ ^ *ti1++ ;   word wide-1, iff wide >= 2:  ... & mask_end)
      }
    [cb] = (ord, inc) is the code book m4ri_codebook[k] (Alg/Gray.v: build_code k).
    State of the loop: (memory, L).  wide <= 0 (c beyond the last word of M): [Err UB]. *)
(** the stores into row i of T (the part of the loop body after the [continue] test) *)
Definition w_mt_row (hM hT : hdr) (homeblock wide : nat) (mask_begin mask_end : N)
  (rowneeded i : nat) (mem : list N) : res (list N) :=
  let ti := row_addr hT i + homeblock in
  let ti1 := row_addr hT (i - 1) + homeblock in
  let m := row_addr hM rowneeded + homeblock in
  x <- rd mem m ;; y <- rd mem ti1 ;;
  m1 <- wr mem ti (N.land (N.lxor x y) mask_begin) ;;
  m2 <- forM (seq 1 (wide - 2)) (fun j mm =>
          x <- rd mm (m + j) ;; y <- rd mm (ti1 + j) ;; wr mm (ti + j) (N.lxor x y)) m1 ;;
  if 2 <=? wide then
    x <- rd m2 (m + (wide - 1)) ;; y <- rd m2 (ti1 + (wide - 1)) ;;
    wr m2 (ti + (wide - 1)) (N.land (N.lxor x y) mask_end)
  else Ok m2.

Definition w_make_table (cb : list N * list nat) (hM : hdr) (r c k : nat) (hT : hdr)
  (L : list nat) (mem : list N) : res (list N * list nat) :=
  let homeblock := c / 64 in
  if h_width hM <=? homeblock then Err UB else
  let mask_end := left_bitmask (h_ncols hM mod 64) in
  let pure_mask_begin := right_bitmask (64 - c mod 64) in
  let mask_begin := if negb (h_width hM - homeblock =? 1) then pure_mask_begin
                    else N.land pure_mask_begin mask_end in
  let wide := h_width hM - homeblock in
  let twokay := 2 ^ k in
  L0 <- wrL L 0 0 ;;
  forM (seq 1 (twokay - 1)) (fun i (st : list N * list nat) =>
    inc_i <- rdL (snd cb) (i - 1) ;;
    let rowneeded := r + inc_i in
    id <- rdL (fst cb) i ;;
    L' <- wrL (snd st) (N.to_nat id) i ;;
    if h_nrows hM <=? rowneeded then Ok (fst st, L') else
    m' <- w_mt_row hM hT homeblock wide mask_begin mask_end rowneeded i (fst st) ;;
    Ok (m', L')) (mem, L0).

(** the whole-word XOR of [wide] table words into a row of M (one Duff's device) *)
Definition w_xor_row (m0 t0 wide : nat) (mem : list N) : res (list N) :=
  forM (seq 0 wide) (fun j m =>
    a <- rd m (m0 + j) ;; t <- rd m (t0 + j) ;; wr m (m0 + j) (N.lxor a t)) mem.
(** two rows interleaved:  *m0++ ^= *t0++;  *m1++ ^= *t1++;  per iteration *)
Definition w_xor_row2 (m0 t0 m1 t1 wide : nat) (mem : list N) : res (list N) :=
  forM (seq 0 wide) (fun j m =>
    a <- rd m (m0 + j) ;; t <- rd m (t0 + j) ;; m' <- wr m (m0 + j) (N.lxor a t) ;;
    b <- rd m' (m1 + j) ;; u <- rd m' (t1 + j) ;; wr m' (m1 + j) (N.lxor b u)) mem.

(** mzd_process_rows(M, startrow, stoprow, startcol, k, T, L)   brilliantrussian.c:213
    k == 1: pairs of rows tested on the bit (startcol % 64) of word [block] and XORed with row 1 of T;
    otherwise x = L[mzd_read_bits_int(M, r, startcol, k)] and row x of T is XORed in; in both cases
    rows are taken two at a time, the odd one out by the trailing loop. *)
Definition w_process_rows (hM : hdr) (startrow stoprow startcol k : nat) (hT : hdr) (L : list nat)
  (mem : list N) : res (list N) :=
  let block := startcol / 64 in
  if h_width hM <=? block then Err UB else
  let wide := h_width hM - block in
  let npairs := (stoprow - startrow) / 2 in
  let lookup r m := (bits <- w_read_bits hM r startcol k m ;; rdL L (N.to_nat bits)) in
  let single r m :=
    (x0 <- lookup r m ;; w_xor_row (row_addr hM r + block) (row_addr hT x0 + block) wide m) in
  let tail m := forM (seq (startrow + 2 * npairs) (stoprow - (startrow + 2 * npairs))) single m in
  if k =? 1 then
    let bm := shl 1 (startcol mod 64) in
    m1 <- forM (seq 0 npairs) (fun p m =>
            let r := startrow + 2 * p in
            w0 <- rd m (row_addr hM r + block) ;; w1 <- rd m (row_addr hM (r + 1) + block) ;;
            let b0 := N.land w0 bm in
            let b1 := N.land w1 bm in
            let m0 := row_addr hM r + block in
            let m1 := row_addr hM (r + 1) + block in
            let t := row_addr hT 1 + block in
            if negb (N.land b0 b1 =? 0)%N then w_xor_row2 m0 t m1 t wide m
            else if negb (b0 =? 0)%N then w_xor_row m0 t wide m
            else if negb (b1 =? 0)%N then w_xor_row m1 t wide m
            else Ok m) mem ;;
    tail m1
  else
    m1 <- forM (seq 0 npairs) (fun p m =>
            let r := startrow + 2 * p in
            x0 <- lookup r m ;; x1 <- lookup (r + 1) m ;;
            w_xor_row2 (row_addr hM r + block) (row_addr hT x0 + block)
                       (row_addr hM (r + 1) + block) (row_addr hT x1 + block) wide m) mem ;;
    tail m1.

(** the seeded change C09-make-table-end-mask-dropped, as a model (NOT the code of /repo): the
    last word of a table row is stored without mask_end.  Used only for the necessity example. *)
Definition w_make_table_nomask (cb : list N * list nat) (hM : hdr) (r c k : nat) (hT : hdr)
  (L : list nat) (mem : list N) : res (list N * list nat) :=
  let homeblock := c / 64 in
  if h_width hM <=? homeblock then Err UB else
  let pure_mask_begin := right_bitmask (64 - c mod 64) in
  let wide := h_width hM - homeblock in
  let twokay := 2 ^ k in
  L0 <- wrL L 0 0 ;;
  forM (seq 1 (twokay - 1)) (fun i (st : list N * list nat) =>
    let ti := row_addr hT i + homeblock in
    let ti1 := row_addr hT (i - 1) + homeblock in
    inc_i <- rdL (snd cb) (i - 1) ;;
    let rowneeded := r + inc_i in
    id <- rdL (fst cb) i ;;
    L' <- wrL (snd st) (N.to_nat id) i ;;
    if h_nrows hM <=? rowneeded then Ok (fst st, L') else
    let m := row_addr hM rowneeded + homeblock in
    x <- rd (fst st) m ;; y <- rd (fst st) ti1 ;;
    m1 <- wr (fst st) ti (N.land (N.lxor x y) pure_mask_begin) ;;
    m2 <- forM (seq 1 (wide - 1)) (fun j mm =>
            x <- rd mm (m + j) ;; y <- rd mm (ti1 + j) ;; wr mm (ti + j) (N.lxor x y)) m1 ;;
    Ok (m2, L')) (mem, L0).
