(* Word/WRefineRefuted.v — concrete witnesses (vm_compute) that the kernels as they were on the PINNED
   tree (w_concat, w_stack, w_submatrix, w_first_zero_row, w_row_clear_offset) violate the frame /
   refinement properties, and witnesses for defects that are still present in the repaired tree
   (mzd_extract_l on a window; mzd_row_add_offset with dstrow = srcrow on a window; the unaligned
   mzd_submatrix path into a destination wider than the block; w_row_clear_offset_fixed on a window).
   Also: executable checkers for [outside] / [wdisjoint] and the example headers used by the
   non-vacuity Examples of Properties_C08/C09/C10.  No axioms. *)
From Coq Require Import List NArith Arith Lia Bool ZifyBool ZifyNat ZifyN ZArith.
From M4 Require Import Base.Bits Lin.Mat Lin.Ops Lin.OpsProofs Lin.Observers Word.WMat Word.WOps
  Word.WMatLemmas Word.WRefine9 Word.WRefine10.
Import ListNotations.
Local Open Scope nat_scope.

(* ------------------------------------------------------------------------------------------ *)
(** * executable frame check *)
Definition outsideb (h : hdr) (mem mem' : list N) : bool :=
  (length mem' =? length mem) &&
  forallb (fun p => forallb (fun b => in_viewb h p b || Bool.eqb (bit mem' p b) (bit mem p b)) (seq 0 64))
          (seq 0 (length mem)).

Lemma outside_outsideb h mem mem' : hdr_ok h -> outside h mem mem' -> outsideb h mem mem' = true.
Proof.
  intros Hok [L H]. unfold outsideb. rewrite L, Nat.eqb_refl. cbn [andb].
  apply forallb_forall. intros p _. apply forallb_forall. intros b Hb. rewrite in_seq in Hb.
  destruct (in_viewb h p b) eqn:E; [reflexivity|]. cbn [orb]. apply eqb_true_iff. apply H; [lia|].
  intros Hin. apply in_viewb_spec in Hin; [congruence|assumption].
Qed.

Lemma not_outside h mem mem' : hdr_okb h = true -> outsideb h mem mem' = false -> ~ outside h mem mem'.
Proof.
  intros Hok Hb Hout. apply hdr_okb_spec in Hok. rewrite (outside_outsideb h mem mem' Hok Hout) in Hb. discriminate.
Qed.

Lemma mequal_false_neq A B : mequal A B = false -> A <> B.
Proof. intros H E. apply mequal_eq in E. congruence. Qed.

(** two views whose words are separated by an address B share no word *)
Lemma wdisjoint_ranges h1 h2 B :
  (forall i k, i < h_nrows h1 -> k < h_width h1 -> row_addr h1 i + k < B) ->
  (forall i k, i < h_nrows h2 -> k < h_width h2 -> B <= row_addr h2 i + k) -> wdisjoint h1 h2.
Proof.
  intros H1 H2 p (i & k & Hi & Hk & ->) (i' & k' & Hi' & Hk' & E).
  specialize (H1 i k Hi Hk). specialize (H2 i' k' Hi' Hk'). lia.
Qed.

(* ------------------------------------------------------------------------------------------ *)
(** * example allocation: three 4 x 130 blocks (rowstride 4) filled with a bit pattern, and windows *)
Definition ex_word (p : nat) : N := N.land (N.of_nat (p + 1) * 0x9E3779B97F4A7C15)%N ffff.
Definition ex_mem : list N := map ex_word (seq 0 48).
Definition ex_P : hdr := init_hdr_at 0 4 130.
Definition ex_Q : hdr := init_hdr_at 16 4 130.
Definition ex_R : hdr := init_hdr_at 32 4 130.
(** 2 x 36 windows at word offset 1 (odd) of rows 1..2: foreign bits on both sides *)
Definition ex_wP : hdr := window_hdr ex_P 1 64 3 100.
Definition ex_wQ : hdr := window_hdr ex_Q 1 64 3 100.
Definition ex_wR : hdr := window_hdr ex_R 1 64 3 100.
(** 4 x 36 and 2 x 72 windows of R for stack / concat, 1 x 36 windows for rows *)
Definition ex_wR4 : hdr := window_hdr ex_R 0 64 4 100.
Definition ex_wR72 : hdr := window_hdr ex_R 1 0 3 72.
(** 36 x 36-like square blocks for extract: 3 x 3 windows *)
Definition ex_sqP : hdr := window_hdr ex_P 0 64 3 67.
Definition ex_sqR : hdr := window_hdr ex_R 0 64 3 67.

Lemma ex_valid h : validb h ex_mem = true -> valid h ex_mem.
Proof. apply validb_spec. Qed.

Lemma ex_valid_wP : valid ex_wP ex_mem. Proof. apply ex_valid. vm_compute. reflexivity. Qed.
Lemma ex_valid_wQ : valid ex_wQ ex_mem. Proof. apply ex_valid. vm_compute. reflexivity. Qed.
Lemma ex_valid_wR : valid ex_wR ex_mem. Proof. apply ex_valid. vm_compute. reflexivity. Qed.
Lemma ex_valid_wR4 : valid ex_wR4 ex_mem. Proof. apply ex_valid. vm_compute. reflexivity. Qed.
Lemma ex_valid_wR72 : valid ex_wR72 ex_mem. Proof. apply ex_valid. vm_compute. reflexivity. Qed.
Lemma ex_valid_P : valid ex_P ex_mem. Proof. apply ex_valid. vm_compute. reflexivity. Qed.
Lemma ex_valid_sqP : valid ex_sqP ex_mem. Proof. apply ex_valid. vm_compute. reflexivity. Qed.
Lemma ex_valid_sqR : valid ex_sqR ex_mem. Proof. apply ex_valid. vm_compute. reflexivity. Qed.

Ltac ex_fields :=
  repeat match goal with
  | |- context [h_off ?h] => let v := eval vm_compute in (h_off h) in change (h_off h) with v
  | |- context [h_rowstride ?h] => let v := eval vm_compute in (h_rowstride h) in change (h_rowstride h) with v
  | H : context [h_nrows ?h] |- _ => let v := eval vm_compute in (h_nrows h) in change (h_nrows h) with v in H
  | H : context [h_width ?h] |- _ => let v := eval vm_compute in (h_width h) in change (h_width h) with v in H
  end.
Ltac ex_disj B :=
  apply (wdisjoint_ranges _ _ B); intros i k Hi Hk; unfold row_addr; ex_fields; lia.

Lemma ex_disj_R_P : wdisjoint ex_wR ex_wP.
Proof. apply wdisjoint_sym. ex_disj 16. Qed.
Lemma ex_disj_R_Q : wdisjoint ex_wR ex_wQ.
Proof. apply wdisjoint_sym. ex_disj 32. Qed.
Lemma ex_disj_R4_P : wdisjoint ex_wR4 ex_wP.
Proof. apply wdisjoint_sym. ex_disj 16. Qed.
Lemma ex_disj_R4_Q : wdisjoint ex_wR4 ex_wQ.
Proof. apply wdisjoint_sym. ex_disj 32. Qed.
Lemma ex_disj_R72_P : wdisjoint ex_wR72 ex_wP.
Proof. apply wdisjoint_sym. ex_disj 16. Qed.
Lemma ex_disj_R72_Q : wdisjoint ex_wR72 ex_wQ.
Proof. apply wdisjoint_sym. ex_disj 32. Qed.
Lemma ex_disj_R_bigP : wdisjoint ex_wR ex_P.
Proof. apply wdisjoint_sym. ex_disj 16. Qed.
Lemma ex_disj_sqR_P : wdisjoint ex_sqR ex_P.
Proof. apply wdisjoint_sym. ex_disj 16. Qed.

(** the windows really have foreign bits set in their last word, and are not all-zero *)
Example ex_foreign_bits : padding_zerob ex_wP ex_mem = false /\ padding_zerob ex_wR ex_mem = false.
Proof. split; vm_compute; reflexivity. Qed.

(* ------------------------------------------------------------------------------------------ *)
(** * pinned kernels: frame / refinement refuted *)
(** F5: pinned mzd_concat copies the unmasked last word of A over the destination word *)
Theorem w_concat_frame_refuted : exists hC hA hB mem m',
  valid hC mem /\ valid hA mem /\ valid hB mem /\ wdisjoint hC hA /\ wdisjoint hC hB /\
  w_concat hC hA hB mem = Ok m' /\ ~ outside hC mem m'.
Proof.
  (* C: 2 x 46 window, A: 2 x 36 window, B: 2 x 10 window; A's foreign bits 36..63 reach C's word *)
  exists (window_hdr ex_R 1 64 3 110), ex_wP, (window_hdr ex_Q 1 64 3 74), ex_mem. eexists.
  split; [apply ex_valid; vm_compute; reflexivity|]. split; [exact ex_valid_wP|].
  split; [apply ex_valid; vm_compute; reflexivity|].
  split; [apply wdisjoint_sym; ex_disj 16|]. split; [apply wdisjoint_sym; ex_disj 32|].
  split; [vm_compute; reflexivity|].
  apply not_outside; vm_compute; reflexivity.
Qed.

Theorem w_stack_frame_refuted : exists hC hA hB mem m',
  valid hC mem /\ valid hA mem /\ valid hB mem /\ wdisjoint hC hA /\ wdisjoint hC hB /\
  w_stack hC hA hB mem = Ok m' /\ ~ outside hC mem m'.
Proof.
  exists ex_wR4, ex_wP, ex_wQ, ex_mem. eexists.
  split; [exact ex_valid_wR4|]. split; [exact ex_valid_wP|]. split; [exact ex_valid_wQ|].
  split; [exact ex_disj_R4_P|]. split; [exact ex_disj_R4_Q|]. split; [vm_compute; reflexivity|].
  apply not_outside; vm_compute; reflexivity.
Qed.

(** F6: pinned aligned mzd_submatrix stores the whole tail word of a supplied destination window *)
Theorem w_submatrix_frame_refuted : exists hS hM sr sc er ec mem m',
  valid hS mem /\ valid hM mem /\ wdisjoint hS hM /\ h_nrows hS = er - sr /\ h_ncols hS = ec - sc /\
  w_submatrix hS hM sr sc er ec mem = Ok m' /\ ~ outside hS mem m'.
Proof.
  exists ex_wR, ex_P, 1, 64, 3, 100, ex_mem. eexists.
  split; [exact ex_valid_wR|]. split; [exact ex_valid_P|]. split; [exact ex_disj_R_bigP|].
  split; [reflexivity|]. split; [reflexivity|]. split; [vm_compute; reflexivity|].
  apply not_outside; vm_compute; reflexivity.
Qed.

(** F4: pinned mzd_first_zero_row reads the unmasked word of a one-word view *)
Theorem w_first_zero_row_refuted : exists hA mem r,
  valid hA mem /\ w_first_zero_row hA mem = Ok r /\ r <> first_zero_row (abs hA mem).
Proof.
  (* a 2 x 3 window whose 3 columns are zero but whose word has foreign bits *)
  exists (window_hdr (init_hdr_at 0 2 70) 0 64 2 67), [0; 0x10; 0; 0x20]%N. eexists.
  split; [apply validb_spec; vm_compute; reflexivity|]. split; [vm_compute; reflexivity|].
  vm_compute. discriminate.
Qed.

(** F3: pinned mzd_row_clear_offset keeps the wrong side of the mask (owned matrix, no window needed) *)
Theorem w_row_clear_offset_refuted : exists h mem r co m',
  valid h mem /\ owned h = true /\ r < h_nrows h /\ co < h_ncols h /\
  w_row_clear_offset h r co mem = Ok m' /\ abs h m' <> row_clear_offset (abs h mem) r co.
Proof.
  exists (init_hdr_at 0 1 20), [0xFFFFF; 0]%N, 0, 10. eexists.
  split; [apply validb_spec; vm_compute; reflexivity|]. split; [reflexivity|].
  split; [vm_compute; lia|]. split; [vm_compute; lia|]. split; [vm_compute; reflexivity|].
  apply mequal_false_neq. vm_compute. reflexivity.
Qed.

(* ------------------------------------------------------------------------------------------ *)
(** * defects that survive the repairs *)
(** [w_row_clear_offset_fixed] (whole-word zero stores up to width-1) still clears foreign bits of a
    window; the repaired C code corresponds to [w_row_clear_offset_fixed2]. *)
Theorem w_row_clear_offset_fixed_frame_refuted : exists h mem r co m',
  valid h mem /\ r < h_nrows h /\ co < h_ncols h /\
  w_row_clear_offset_fixed h r co mem = Ok m' /\ ~ outside h mem m'.
Proof.
  exists ex_wP, ex_mem, 0, 5. eexists.
  split; [exact ex_valid_wP|]. split; [vm_compute; lia|]. split; [vm_compute; lia|].
  split; [vm_compute; reflexivity|]. apply not_outside; vm_compute; reflexivity.
Qed.

(** mzd_extract_l (mzd.c:1859-1869) on a supplied window: mzd_clear_bits "to the end of the word" and
    the whole-word zero stores clear the parent's bits beyond the last column — even with the
    repaired mzd_submatrix inside. *)
Theorem w_extract_l_frame_refuted : exists hL hA mem m',
  valid hL mem /\ valid hA mem /\ wdisjoint hL hA /\
  h_nrows hL = Nat.min (h_nrows hA) (h_ncols hA) /\ h_ncols hL = Nat.min (h_nrows hA) (h_ncols hA) /\
  w_extract_l_fx hL hA mem = Ok m' /\ ~ outside hL mem m'.
Proof.
  exists ex_sqR, (window_hdr ex_P 0 0 3 130), ex_mem. eexists.
  split; [exact ex_valid_sqR|]. split; [apply ex_valid; vm_compute; reflexivity|].
  split; [apply wdisjoint_sym; ex_disj 16|].
  split; [reflexivity|]. split; [reflexivity|]. split; [vm_compute; reflexivity|].
  apply not_outside; vm_compute; reflexivity.
Qed.

(** mzd_row_add_offset with dstrow = srcrow (mzd.h:537; not excluded by its assert) on a window: the
    final "& ~mask_end" correction re-reads the already modified source word, so the foreign bits of
    the last word are cleared. *)
Theorem w_row_add_offset_same_row_frame_refuted : exists h mem r co m',
  valid h mem /\ r < h_nrows h /\ co < h_ncols h /\
  w_row_add_offset h r r co mem = Ok m' /\ ~ outside h mem m'.
Proof.
  exists ex_wP, ex_mem, 0, 5. eexists.
  split; [exact ex_valid_wP|]. split; [vm_compute; lia|]. split; [vm_compute; lia|].
  split; [vm_compute; reflexivity|]. apply not_outside; vm_compute; reflexivity.
Qed.

(** the unaligned mzd_submatrix path into a supplied destination WIDER than the block masks with
    S->high_bitmask (the mask of S's last word) instead of the mask of the block: columns of S to the
    right of the block are cleared although S frames them (the aligned path keeps them). *)
Theorem w_submatrix_unaligned_wider_refuted : exists hS hM sr sc er ec mem m',
  valid hS mem /\ valid hM mem /\ wdisjoint hS hM /\
  er - sr <= h_nrows hS /\ ec - sc <= h_ncols hS /\ sc mod 64 <> 0 /\
  w_submatrix_fixed hS hM sr sc er ec mem = Ok m' /\
  abs hS m' <> msub_into (abs hS mem) (msub (abs hM mem) sr sc (er - sr) (ec - sc)).
Proof.
  exists ex_wR, ex_P, 1, 3, 3, 13, ex_mem. eexists.
  split; [exact ex_valid_wR|]. split; [exact ex_valid_P|]. split; [exact ex_disj_R_bigP|].
  split; [vm_compute; lia|]. split; [vm_compute; lia|]. split; [vm_compute; discriminate|].
  split; [vm_compute; reflexivity|]. apply mequal_false_neq. vm_compute. reflexivity.
Qed.
