(* Word/WMatLemmas.v — reusable lemmas over the memory model of Word/WMat.v, used by Word/WRefine*.v:
   loop rules for [forM]/[firstM], the word-loop rule [forM_store], the row-level frame [touched]
   (finer than [outside]: only the bits of columns [c0, c1) of ONE row of the view may change),
   the row-loop rule [rows_loop], aliasing of row word ranges, fresh allocation.  No axioms. *)
From Coq Require Import List NArith Arith Lia Bool ZifyBool ZifyNat ZifyN ZArith.
From M4 Require Import Base.Bits Lin.Mat Lin.Ops Word.WMat Word.WOps.
Import ListNotations.
Local Open Scope nat_scope.
Ltac Zify.zify_post_hook ::= Z.div_mod_to_equations.

(** destruct every nat comparison of the goal through its spec lemma *)
Ltac noif t := lazymatch t with context [if _ then _ else _] => fail | _ => idtac end.
Ltac bdestr :=
  repeat match goal with
  | |- context [Nat.eqb ?a ?b] => noif a; noif b; destruct (Nat.eqb_spec a b)
  | |- context [Nat.ltb ?a ?b] => noif a; noif b; destruct (Nat.ltb_spec a b)
  | |- context [Nat.leb ?a ?b] => noif a; noif b; destruct (Nat.leb_spec a b)
  end.
Ltac bsolve := bdestr; cbn [andb orb negb xorb]; subst; try lia; try reflexivity; try congruence.

(** bit-level rewriting of word expressions *)
Ltac wbits :=
  repeat (rewrite N.lxor_spec || rewrite N.land_spec || rewrite N.lor_spec || rewrite N.ldiff_spec ||
          rewrite testbit_wnot || rewrite testbit_shl || rewrite testbit_shr || rewrite testbit_ffff ||
          rewrite testbit_trunc || rewrite testbit_right_bitmask || rewrite N.bits_0 ||
          rewrite testbit_ones_nat || rewrite testbit_shiftl_nat || rewrite testbit_shiftr_nat ||
          rewrite testbit_pow2_nat).

(* ------------------------------------------------------------------------------------------ *)
(** * loops *)
Lemma forM_inv {S} (I : nat -> S -> Prop) (body : nat -> S -> res S) a n s :
  I a s ->
  (forall k s, a <= k < a + n -> I k s -> exists s', body k s = Ok s' /\ I (Datatypes.S k) s') ->
  exists s', forM (seq a n) body s = Ok s' /\ I (a + n) s'.
Proof.
  revert a s. induction n as [|n IH]; intros a s H0 Hstep; cbn [seq forM].
  - exists s. rewrite Nat.add_0_r. auto.
  - destruct (Hstep a s ltac:(lia) H0) as (s1 & E1 & I1). rewrite E1. cbn [bind].
    destruct (IH (Datatypes.S a) s1 I1) as (s2 & E2 & I2).
    + intros k s' Hk. apply Hstep. lia.
    + exists s2. split; [exact E2|]. now replace (a + Datatypes.S n) with (Datatypes.S a + n) by lia.
Qed.

Lemma forM_ext {S} (b1 b2 : nat -> S -> res S) l s :
  (forall k s, In k l -> b1 k s = b2 k s) -> forM l b1 s = forM l b2 s.
Proof.
  revert s. induction l as [|x l IH]; intros s H; cbn [forM]; [reflexivity|].
  rewrite (H x s) by now left. destruct (b2 x s); cbn [bind]; [|reflexivity].
  apply IH. intros k s' Hk. apply H. now right.
Qed.

(** early-exit loop: no element fires / the first one that fires *)
Lemma firstM_none {R} (f : nat -> res (option R)) l :
  (forall k, In k l -> f k = Ok None) -> firstM l f = Ok None.
Proof.
  induction l as [|x l IH]; intros H; cbn [firstM]; [reflexivity|].
  rewrite (H x) by now left. cbn [bind]. apply IH. intros k Hk. apply H. now right.
Qed.

Lemma firstM_some {R} (f : nat -> res (option R)) l1 x l2 v :
  (forall k, In k l1 -> f k = Ok None) -> f x = Ok (Some v) -> firstM (l1 ++ x :: l2) f = Ok (Some v).
Proof.
  induction l1 as [|y l1 IH]; intros H Hx; cbn [app firstM].
  - now rewrite Hx.
  - rewrite (H y) by now left. cbn [bind]. apply IH; [|assumption]. intros k Hk. apply H. now right.
Qed.

(** every element yields a result: the loop is total and returns the first [Some] *)
Lemma firstM_total {R} (f : nat -> res (option R)) (g : nat -> option R) l :
  (forall k, In k l -> f k = Ok (g k)) ->
  firstM l f = Ok (fold_right (fun k acc => match g k with Some v => Some v | None => acc end) None l).
Proof.
  induction l as [|x l IH]; intros H; cbn [firstM fold_right]; [reflexivity|].
  rewrite (H x) by now left. cbn [bind]. destruct (g x); [reflexivity|].
  apply IH. intros k Hk. apply H. now right.
Qed.

(* ------------------------------------------------------------------------------------------ *)
(** * the word-loop rule: a loop whose iteration j stores one word at [base + j] *)
Definition stored (base a j : nat) (f : nat -> N) (mem : list N) (p : nat) : N :=
  if (base + a <=? p) && (p <? base + j) then trunc (f (p - base)) else word_at mem p.

Lemma mem_ok_intro m : (forall p, (word_at m p < 2 ^ 64)%N) -> mem_ok m.
Proof.
  intros H. unfold mem_ok. apply Forall_forall. intros x Hx.
  destruct (In_nth _ _ 0%N Hx) as (p & Hp & <-). apply (H p).
Qed.

Lemma word_at_upd p v m q : p < length m -> word_at (upd p v m) q = if q =? p then v else word_at m q.
Proof.
  intros Hp. destruct (Nat.eqb_spec q p) as [-> |Hne]; [now apply word_at_upd_eq|].
  apply word_at_upd_neq. congruence.
Qed.

Lemma forM_store base a n (f : nat -> N) (body : nat -> list N -> res (list N)) mem :
  mem_ok mem -> base + a + n <= length mem ->
  (forall j m, a <= j < a + n -> length m = length mem -> mem_ok m ->
      (forall p, word_at m p = stored base a j f mem p) -> body j m = wr m (base + j) (f j)) ->
  exists m', forM (seq a n) body mem = Ok m' /\ length m' = length mem /\ mem_ok m' /\
      forall p, word_at m' p = stored base a (a + n) f mem p.
Proof.
  intros Hok Hlen Hbody.
  destruct (forM_inv (fun k m => length m = length mem /\ mem_ok m /\
                                 forall p, word_at m p = stored base a k f mem p) body a n mem)
    as (m' & E & I).
  - repeat split; auto. intros p. unfold stored. bsolve.
  - intros k m Hk (L & O & D). rewrite (Hbody k m Hk L O D). rewrite wr_ok by lia.
    eexists; split; [reflexivity|]. split; [now rewrite upd_length|]. split; [now apply mem_ok_upd|].
    intros p. rewrite word_at_upd by lia. rewrite D. unfold stored.
    destruct (Nat.eqb_spec p (base + k)) as [-> |Hne].
    + replace (base + k - base) with k by lia. bsolve.
    + bsolve.
  - exists m'. tauto.
Qed.

(* ------------------------------------------------------------------------------------------ *)
(** * bounds *)
Lemma valid_hdr_ok h mem : valid h mem -> hdr_ok h. Proof. now intros [H _]. Qed.
Lemma valid_mem_ok h mem : valid h mem -> mem_ok mem. Proof. now intros [_ [_ H]]. Qed.

Lemma valid_word' h mem i k p : valid h mem -> i < h_nrows h -> k < h_width h ->
  p = row_addr h i + k -> p < length mem.
Proof. intros H Hi Hk ->. now apply valid_word. Qed.

Lemma valid_same_length h mem m : valid h mem -> length m = length mem -> mem_ok m -> valid h m.
Proof. intros [H1 [H2 H3]] L O. split; [assumption|]. rewrite L. auto. Qed.

Lemma bit_word mem p b : bit mem p b = N.testbit (word_at mem p) (N.of_nat b).
Proof. reflexivity. Qed.

(** the last word of a row *)
Lemma last_word_cols h k b : hdr_ok h -> k < h_width h -> 64 * k + b < h_ncols h -> b < 64 ->
  k < h_width h - 1 \/ (k = h_width h - 1).
Proof. lia. Qed.

Lemma full_word_in h k b : hdr_ok h -> k < h_width h - 1 -> b < 64 -> 64 * k + b < h_ncols h.
Proof. intros [Hw _] Hk Hb. rewrite Hw in Hk. lia. Qed.

(** [testbit_hmask] for an arbitrary word index: bit b of the last word *)
Lemma testbit_hmask' h b : hdr_ok h -> 0 < h_ncols h -> b < 64 ->
  N.testbit (h_hmask h) (N.of_nat b) = (64 * (h_width h - 1) + b <? h_ncols h).
Proof.
  intros Hok Hc Hb. assert (0 < h_width h) by (destruct Hok as [Hw _]; rewrite Hw; lia).
  rewrite testbit_hmask by assumption. destruct (Nat.ltb_spec b 64); [reflexivity|lia].
Qed.

Lemma width_pos_of_ncols h : hdr_ok h -> 0 < h_ncols h -> 0 < h_width h.
Proof. intros [Hw _] Hc. rewrite Hw. lia. Qed.

(* ------------------------------------------------------------------------------------------ *)
(** * row-level frame: only bits of columns [c0, c1) of row i of the view may change *)
Definition touched (h : hdr) (i c0 c1 : nat) (mem m' : list N) : Prop :=
  length m' = length mem /\
  forall p b, b < 64 ->
    (forall k, p = row_addr h i + k -> c0 <= 64 * k + b -> 64 * k + b < c1 -> False) ->
    bit m' p b = bit mem p b.

Lemma touched_refl h i c0 c1 m : touched h i c0 c1 m m.
Proof. split; auto. Qed.

Lemma touched_trans h i c0 c1 m1 m2 m3 :
  touched h i c0 c1 m1 m2 -> touched h i c0 c1 m2 m3 -> touched h i c0 c1 m1 m3.
Proof. intros [L1 H1] [L2 H2]. split; [congruence|]. intros p b Hb Hn. rewrite H2, H1; auto. Qed.

Lemma touched_weaken h i c0 c1 c0' c1' m m' : c0' <= c0 -> c1 <= c1' ->
  touched h i c0 c1 m m' -> touched h i c0' c1' m m'.
Proof.
  intros H0 H1 [L H]. split; [assumption|]. intros p b Hb Hn. apply H; auto.
  intros k Hp Hc0 Hc1. apply (Hn k Hp); lia.
Qed.

Lemma touched_outside h i c0 c1 m m' : i < h_nrows h -> c1 <= h_ncols h ->
  touched h i c0 c1 m m' -> outside h m m'.
Proof.
  intros Hi Hc [L H]. split; [assumption|]. intros p b Hb Hn. apply H; auto.
  intros k -> Hc0 Hc1. apply Hn. apply in_view_word; auto. lia.
Qed.

(** establishing [touched] from a word-level description of the step *)
Lemma touched_intro h i c0 c1 m m' : length m' = length m ->
  (forall p b, b < 64 ->
     (forall k, p = row_addr h i + k -> c0 <= 64 * k + b -> 64 * k + b < c1 -> False) ->
     N.testbit (word_at m' p) (N.of_nat b) = N.testbit (word_at m p) (N.of_nat b)) ->
  touched h i c0 c1 m m'.
Proof. intros L H. split; [exact L|]. intros p b Hb Hn. unfold bit. now apply H. Qed.

(** other rows of the view keep their value *)
Lemma touched_row_other h i c0 c1 m m' i' : hdr_ok h -> c1 <= h_ncols h -> i' <> i ->
  touched h i c0 c1 m m' -> rowval h m' i' = rowval h m i'.
Proof.
  intros Hok Hc Hne [_ H]. apply bits_ext_nat. intros j. rewrite !testbit_rowval by assumption.
  destruct (Nat.ltb_spec j (h_ncols h)) as [Hj|Hj]; cbn [andb]; [|reflexivity].
  apply H; [lia|]. intros k E Hc0 Hc1.
  pose proof (width_pos h j Hok Hj). pose proof (ncols_width h Hok). pose proof Hok as [_ [_ Hrs]].
  apply row_addr_inj in E; lia.
Qed.

(** columns of row i outside [c0, c1) keep their value *)
Lemma touched_row_cols h i c0 c1 m m' j : hdr_ok h -> ~ (c0 <= j < c1) ->
  touched h i c0 c1 m m' ->
  bit m' (row_addr h i + j / 64) (j mod 64) = bit m (row_addr h i + j / 64) (j mod 64).
Proof.
  intros Hok Hn [_ H]. apply H; [lia|]. intros k E Hc0 Hc1. assert (k = j / 64) by lia. subst k. lia.
Qed.

Lemma touched_abs h i c0 c1 m m' : hdr_ok h -> i < h_nrows h -> c1 <= h_ncols h ->
  touched h i c0 c1 m m' -> abs h m' = set_row (abs h m) i (rowval h m' i).
Proof.
  intros Hok Hi Hc Ht. apply abs_rows_ext; try reflexivity.
  - now rewrite rows_set_row_length, rows_abs_length.
  - intros i' Hi'. rewrite row_set_row by now rewrite rows_abs_length.
    destruct (Nat.eqb_spec i' i) as [-> |Hne]; [reflexivity|].
    rewrite row_abs by assumption. now apply (touched_row_other h i c0 c1).
Qed.

(** a read-only operand that shares no word with the destination keeps all its words *)
Lemma outside_rowval hd hs m m' i : hdr_ok hd -> mem_ok m -> mem_ok m' -> outside hd m m' ->
  wdisjoint hd hs -> i < h_nrows hs -> rowval hs m' i = rowval hs m i.
Proof.
  intros Hok Hm Hm' Hout Hd Hi.
  destruct (outside_source_unchanged hd hs m m' Hok Hm Hm' Hout Hd) as [W _].
  unfold rowval. f_equal. f_equal. unfold row_words. apply map_ext_in. intros k Hk.
  rewrite in_seq in Hk. apply W. exists i, k. repeat split; lia.
Qed.

Lemma outside_src_word hd hs m m' i k : hdr_ok hd -> mem_ok m -> mem_ok m' -> outside hd m m' ->
  wdisjoint hd hs -> i < h_nrows hs -> k < h_width hs ->
  word_at m' (row_addr hs i + k) = word_at m (row_addr hs i + k).
Proof.
  intros Hok Hm Hm' Hout Hd Hi Hk.
  destruct (outside_source_unchanged hd hs m m' Hok Hm Hm' Hout Hd) as [W _].
  apply W. exists i, k. auto.
Qed.

(** words of a row are determined by the row value up to the bits beyond ncols *)
Lemma rowval_bit h m i j : hdr_ok h -> j < h_ncols h ->
  bit m (row_addr h i + j / 64) (j mod 64) = N.testbit (rowval h m i) (N.of_nat j).
Proof.
  intros Hok Hj. rewrite testbit_rowval by assumption.
  destruct (Nat.ltb_spec j (h_ncols h)); [reflexivity|lia].
Qed.

Lemma rowval_bit_word h m i k b : hdr_ok h -> b < 64 -> 64 * k + b < h_ncols h ->
  N.testbit (word_at m (row_addr h i + k)) (N.of_nat b) = N.testbit (rowval h m i) (N.of_nat (64 * k + b)).
Proof.
  intros Hok Hb Hj. rewrite testbit_rowval_word by assumption.
  destruct (Nat.ltb_spec (64 * k + b) (h_ncols h)); [reflexivity|lia].
Qed.

Lemma rowval_ext h m m' i i' : hdr_ok h ->
  (forall k b, k < h_width h -> b < 64 -> 64 * k + b < h_ncols h ->
     N.testbit (word_at m' (row_addr h i' + k)) (N.of_nat b) =
     N.testbit (word_at m (row_addr h i + k)) (N.of_nat b)) ->
  rowval h m' i' = rowval h m i.
Proof.
  intros Hok H. apply bits_ext_nat. intros j. rewrite !testbit_rowval by assumption.
  destruct (Nat.ltb_spec j (h_ncols h)) as [Hj|Hj]; cbn [andb]; [|reflexivity].
  unfold bit. apply H; [now apply width_pos|lia|lia].
Qed.

(** the row value of [abs] *)
Lemma get_abs_rowval h m i j : i < h_nrows h -> get (abs h m) i j = N.testbit (rowval h m i) (N.of_nat j).
Proof. intros Hi. unfold get. now rewrite row_abs. Qed.

(* ------------------------------------------------------------------------------------------ *)
(** * aliasing of row word ranges *)
(** two word ranges [a, a+n) and [c, c+n') are separated *)
Definition sep (a n c n' : nat) : Prop := n = 0 \/ n' = 0 \/ a + n <= c \/ c + n' <= a.

Lemma alias_rows hC hA i i' : alias_ok hC hA -> hdr_ok hC -> hdr_ok hA ->
  i < h_nrows hC -> i' < h_nrows hA ->
  (hA = hC /\ i' = i) \/ sep (row_addr hC i) (h_width hC) (row_addr hA i') (h_width hA).
Proof.
  intros [-> |Hd] HokC HokA Hi Hi'.
  - destruct (Nat.eq_dec i' i) as [-> |Hne]; [now left|right]. unfold sep.
    destruct HokC as [_ [_ Hrs]].
    destruct (Nat.eq_dec (h_width hC) 0) as [E|Hw]; [now left|]. right. right.
    destruct (Nat.lt_ge_cases i i') as [L|L].
    + left. pose proof (row_addr_mono hC i i' (h_width hC - 1) L). lia.
    + right. assert (L' : i' < i) by lia. pose proof (row_addr_mono hC i' i (h_width hC - 1) L'). lia.
  - right. unfold sep.
    destruct (Nat.eq_dec (h_width hC) 0) as [E|Hw]; [now left|].
    destruct (Nat.eq_dec (h_width hA) 0) as [E|Hw']; [right; now left|]. right. right.
    destruct (Nat.le_gt_cases (row_addr hC i + h_width hC) (row_addr hA i')) as [L|L]; [now left|].
    destruct (Nat.le_gt_cases (row_addr hA i' + h_width hA) (row_addr hC i)) as [L'|L']; [now right|].
    exfalso. apply (Hd (Nat.max (row_addr hC i) (row_addr hA i'))).
    + exists i, (Nat.max (row_addr hC i) (row_addr hA i') - row_addr hC i). repeat split; lia.
    + exists i', (Nat.max (row_addr hC i) (row_addr hA i') - row_addr hA i'). repeat split; lia.
Qed.

(** rows of a source operand as seen while the destination is being written row by row *)
Lemma src_row_stable hD hS mem m i : alias_ok hD hS -> hdr_ok hD -> mem_ok mem -> mem_ok m ->
  outside hD mem m -> (hS = hD -> rowval hD m i = rowval hD mem i) -> i < h_nrows hS ->
  rowval hS m i = rowval hS mem i.
Proof.
  intros [-> |Hd] Hok Hm Hm' Hout Hsame Hi; [now apply Hsame|]. now apply (outside_rowval hD).
Qed.

Lemma wdisjoint_sym h1 h2 : wdisjoint h1 h2 -> wdisjoint h2 h1.
Proof. intros H p H2 H1. exact (H p H1 H2). Qed.

(* ------------------------------------------------------------------------------------------ *)
(** * the row-loop rule: iteration k rewrites (columns [c0, c1) of) row r0 + k of the destination *)
Lemma rows_loop hD r0 a n c0 c1 (R : nat -> N) (body : nat -> list N -> res (list N)) mem :
  hdr_ok hD -> r0 + a + n <= h_nrows hD -> c1 <= h_ncols hD -> mem_ok mem ->
  (forall k m, a <= k < a + n -> length m = length mem -> mem_ok m -> outside hD mem m ->
       (forall i, i < r0 + a \/ r0 + k <= i -> rowval hD m i = rowval hD mem i) ->
       exists m', body k m = Ok m' /\ mem_ok m' /\ touched hD (r0 + k) c0 c1 m m' /\
                  rowval hD m' (r0 + k) = R k) ->
  exists m', forM (seq a n) body mem = Ok m' /\ length m' = length mem /\ mem_ok m' /\
     outside hD mem m' /\
     (forall k, a <= k < a + n -> rowval hD m' (r0 + k) = R k) /\
     (forall i, i < r0 + a \/ r0 + a + n <= i -> rowval hD m' i = rowval hD mem i).
Proof.
  intros Hok Hn Hc Hm Hstep.
  destruct (forM_inv (fun k m => length m = length mem /\ mem_ok m /\ outside hD mem m /\
      (forall k', a <= k' < k -> rowval hD m (r0 + k') = R k') /\
      (forall i, i < r0 + a \/ r0 + k <= i -> rowval hD m i = rowval hD mem i)) body a n mem)
    as (m' & E & I).
  - repeat split; auto. intros; lia.
  - intros k m Hk (L & O & Out & Done & Rest).
    destruct (Hstep k m Hk L O Out Rest) as (m' & E & O' & T & Rk).
    exists m'. split; [exact E|]. split; [destruct T as [T _]; congruence|]. split; [assumption|].
    split; [|split].
    + apply (outside_trans hD mem m m'); [assumption|]. apply (touched_outside hD (r0 + k) c0 c1); auto. lia.
    + intros k' Hk'. destruct (Nat.eq_dec k' k) as [-> |Hne]; [assumption|].
      rewrite (touched_row_other hD (r0 + k) c0 c1 m m') by (auto; lia). apply Done. lia.
    + intros i Hi. rewrite (touched_row_other hD (r0 + k) c0 c1 m m') by (auto; lia). apply Rest. lia.
  - exists m'. destruct I as (L & O & Out & Done & Rest).
    split; [assumption|]. split; [assumption|]. split; [assumption|]. split; [assumption|].
    split; [assumption|]. intros i Hi. apply Rest. lia.
Qed.

(* ------------------------------------------------------------------------------------------ *)
(** * fresh allocation (mzd_init appends a zeroed block) *)
Lemma word_at_app_l m t p : p < length m -> word_at (m ++ t) p = word_at m p.
Proof. intros H. unfold word_at. now apply app_nth1. Qed.

Lemma word_at_app_zero m n p : length m <= p -> word_at (m ++ repeat 0%N n) p = 0%N.
Proof.
  intros H. unfold word_at. rewrite app_nth2 by assumption.
  destruct (Nat.lt_ge_cases (p - length m) n) as [L|L].
  - apply nth_repeat.
  - apply nth_overflow. now rewrite repeat_length.
Qed.

Lemma mem_ok_app m t : mem_ok m -> mem_ok t -> mem_ok (m ++ t).
Proof. unfold mem_ok. intros. now apply Forall_app. Qed.

Lemma mem_ok_zeros n : mem_ok (repeat 0%N n).
Proof. unfold mem_ok. apply Forall_forall. intros x Hx. apply repeat_spec in Hx. subst. reflexivity. Qed.

Section Alloc.
  Variables (mem : list N) (r c : nat).
  Let mem0 := fst (w_alloc mem r c).
  Let hN := snd (w_alloc mem r c).

  Lemma alloc_hdr : hN = init_hdr_at (length mem) r c. Proof. reflexivity. Qed.
  Lemma alloc_mem : mem0 = mem ++ repeat 0%N (block_words hN). Proof. reflexivity. Qed.
  Lemma alloc_length : length mem0 = length mem + block_words hN.
  Proof. unfold mem0. cbn [w_alloc fst]. now rewrite app_length, repeat_length. Qed.

  Lemma alloc_valid : mem_ok mem -> valid hN mem0.
  Proof.
    intros Hm. split; [apply init_hdr_ok|]. split.
    - apply init_fits. rewrite alloc_length. unfold hN. cbn [w_alloc snd]. lia.
    - unfold mem0. cbn [w_alloc fst]. apply mem_ok_app; [assumption|apply mem_ok_zeros].
  Qed.

  Lemma alloc_dims : h_nrows hN = r /\ h_ncols hN = c /\ h_windowed hN = false.
  Proof. repeat split. Qed.

  (** older headers stay valid, denote the same matrix and share no word with the new block *)
  Lemma alloc_old_valid h : valid h mem -> valid h mem0.
  Proof.
    intros [H1 [H2 H3]]. split; [assumption|]. split.
    - rewrite alloc_length. destruct H2 as [H|[H|H]]; [now left|right; now left|right; right; lia].
    - unfold mem0. cbn [w_alloc fst]. apply mem_ok_app; [assumption|apply mem_ok_zeros].
  Qed.

  Lemma alloc_old_word h i k : valid h mem -> i < h_nrows h -> k < h_width h ->
    word_at mem0 (row_addr h i + k) = word_at mem (row_addr h i + k).
  Proof. intros Hv Hi Hk. unfold mem0. cbn [w_alloc fst]. apply word_at_app_l. now apply valid_word. Qed.

  Lemma alloc_old_abs h : valid h mem -> abs h mem0 = abs h mem.
  Proof.
    intros Hv. unfold abs. f_equal. apply map_ext_in. intros i Hi. rewrite in_seq in Hi.
    unfold rowval. f_equal. f_equal. unfold row_words. apply map_ext_in. intros k Hk. rewrite in_seq in Hk.
    apply alloc_old_word; auto; lia.
  Qed.

  Lemma alloc_disjoint h : valid h mem -> wdisjoint hN h.
  Proof.
    intros Hv p (i & k & Hi & Hk & ->) (i' & k' & Hi' & Hk' & E).
    pose proof (valid_word h mem i' k' Hv Hi' Hk'). unfold row_addr in E at 1.
    change (h_off hN) with (length mem) in E. lia.
  Qed.

  Lemma alloc_zero p : length mem <= p -> word_at mem0 p = 0%N.
  Proof. intros H. unfold mem0. cbn [w_alloc fst]. now apply word_at_app_zero. Qed.

  Lemma alloc_padding : padding_zero hN mem0.
  Proof.
    intros i b Hi Hw Hb Hc. unfold bit. rewrite alloc_zero; [apply N.bits_0|].
    unfold row_addr. change (h_off hN) with (length mem). lia.
  Qed.

  Lemma alloc_abs_zero : abs hN mem0 = mzero r c.
  Proof.
    apply abs_rows_ext; try reflexivity.
    - cbn. now rewrite repeat_length.
    - intros i Hi. unfold row, mzero. cbn [rows]. rewrite nth_repeat.
      apply bits_ext_nat. intros j. rewrite testbit_rowval by apply init_hdr_ok. rewrite N.bits_0.
      unfold bit. rewrite alloc_zero; [now rewrite N.bits_0, andb_false_r|].
      unfold row_addr. change (h_off hN) with (length mem). lia.
  Qed.

  (** the old allocation is a prefix of any memory reached by steps that frame the new block *)
  Lemma alloc_prefix m : mem_ok mem -> length m = length mem0 -> mem_ok m -> outside hN mem0 m ->
    firstn (length mem) m = mem.
  Proof.
    intros Hm L O Out. apply (list_ext_nth 0%N).
    - rewrite firstn_length, L, alloc_length. lia.
    - rewrite firstn_length, L, alloc_length. intros p Hp. rewrite nth_firstn_lt by lia.
      change (word_at m p = word_at mem p).
      rewrite <- (word_at_app_l mem (repeat 0%N (block_words hN)) p) by lia.
      apply (outside_word hN); auto.
      + apply init_hdr_ok.
      + apply mem_ok_app; [assumption|apply mem_ok_zeros].
      + intros (i & k & Hi & Hk & E). unfold row_addr in E. change (h_off hN) with (length mem) in E. lia.
  Qed.
End Alloc.
