(* Word/WRefine3.v — refinement / frame / padding theorems, part 3: copies and constants
   (the masked row copy shared by mzd_copy / mzd_copy_row / the repaired concat and stack,
   mzd_copy with a supplied or fresh destination, mzd_copy_row, mzd_set_ui).  No axioms. *)
From Coq Require Import List NArith Arith Lia Bool ZifyBool ZifyNat ZifyN ZArith.
From M4 Require Import Base.Bits Lin.Mat Lin.Ops Lin.OpsProofs Word.WMat Word.WOps Word.WMatLemmas
  Word.WRefineLemmas Word.WRefine Word.WRefine2.
Import ListNotations.
Local Open Scope nat_scope.
Ltac Zify.zify_post_hook ::= Z.div_mod_to_equations.

(* ------------------------------------------------------------------------------------------ *)
(** * the masked row copy: words 0..W-2 of the source row copied, last word merged under the
      source's high mask (W = source width) *)
Definition copy_word (hD : hdr) (di : nat) (hS : hdr) (si : nat) (mem : list N) (k : nat) : N :=
  if k =? h_width hS - 1
  then N.lor (N.land (word_at mem (row_addr hD di + k)) (wnot (h_hmask hS)))
             (N.land (word_at mem (row_addr hS si + k)) (h_hmask hS))
  else word_at mem (row_addr hS si + k).

Lemma row_copy_kernel hD di hS si mem m' :
  hdr_ok hD -> hdr_ok hS -> 0 < h_ncols hS -> h_ncols hS <= h_ncols hD ->
  length m' = length mem ->
  desc m' (stored (row_addr hD di + 0) 0 (h_width hS) (copy_word hD di hS si mem) mem) ->
  touched hD di 0 (h_ncols hS) mem m' /\
  forall j, N.testbit (rowval hD m' di) (N.of_nat j) =
    if j <? h_ncols hS then N.testbit (rowval hS mem si) (N.of_nat j)
    else N.testbit (rowval hD mem di) (N.of_nat j).
Proof.
  intros HokD HokS Hc0 Hc L D.
  assert (HW : h_width hS <= h_width hD) by (destruct HokD as [W1 _], HokS as [W2 _]; rewrite W1, W2; lia).
  pose proof (width_pos_of_ncols hS HokS Hc0) as HWp.
  destruct (row_kernel hD di 0 (h_width hS) 0 (h_ncols hS) _ mem m' HokD ltac:(lia) L D) as [T B].
  { intros k bb Hk Hbb Hn. unfold copy_word. cbn [Nat.add] in *.
    destruct (Nat.eqb_spec k (h_width hS - 1)) as [-> |Hne].
    - wbits. rewrite testbit_hmask' by assumption.
      destruct (Nat.ltb_spec (64 * (h_width hS - 1) + bb) (h_ncols hS)); [lia|].
      destruct (Nat.ltb_spec bb 64); [|lia]. cbn [negb andb]. now rewrite andb_true_r, andb_false_r, orb_false_r.
    - pose proof (full_word_in hS k bb HokS). lia. }
  split; [exact T|]. intros j.
  destruct (Nat.lt_ge_cases j (h_ncols hD)) as [Hj|Hj].
  2:{ rewrite !rowval_bounded by lia. destruct (Nat.ltb_spec j (h_ncols hS)); [lia|reflexivity]. }
  rewrite B by assumption. cbn [Nat.add]. rewrite Nat.sub_0_r.
  destruct (Nat.leb_spec 0 (j / 64)); [|lia]. cbn [andb].
  destruct (Nat.ltb_spec j (h_ncols hS)) as [HjS|HjS].
  - pose proof (width_pos hS j HokS HjS). destruct (Nat.ltb_spec (j / 64) (h_width hS)); [|lia].
    rewrite <- (rowval_bit hS mem si j) by assumption. unfold bit, copy_word.
    destruct (Nat.eqb_spec (j / 64) (h_width hS - 1)) as [E|E]; [|reflexivity].
    wbits. rewrite testbit_hmask' by (auto; lia). rewrite <- E.
    destruct (Nat.ltb_spec (64 * (j / 64) + j mod 64) (h_ncols hS)); [|lia].
    destruct (Nat.ltb_spec (j mod 64) 64); [|lia]. cbn [negb andb]. now rewrite andb_false_r, andb_true_r.
  - destruct (Nat.ltb_spec (j / 64) (h_width hS)) as [Hk|Hk]; [|reflexivity].
    rewrite <- (rowval_bit hD mem di j) by assumption. unfold bit, copy_word.
    assert (E : j / 64 = h_width hS - 1) by (destruct HokS as [W2 _]; rewrite W2 in *; lia).
    rewrite E, Nat.eqb_refl. wbits. rewrite testbit_hmask' by (auto; lia).
    destruct (Nat.ltb_spec (64 * (h_width hS - 1) + j mod 64) (h_ncols hS)); [lia|].
    destruct (Nat.ltb_spec (j mod 64) 64); [|lia]. cbn [negb andb]. now rewrite andb_true_r, andb_false_r, orb_false_r.
Qed.

(** the separation facts every row copy needs *)
Lemma row_alias_sep hD di hS si : row_alias hD di hS si -> h_width hS <= h_width hD -> 0 < h_width hS ->
  row_addr hS si = row_addr hD di \/ row_addr hS si + h_width hS <= row_addr hD di \/
  row_addr hD di + h_width hD <= row_addr hS si.
Proof. intros [[-> ->]|S] HW Hp; [now left|]. unfold sep in S. lia. Qed.

(** the word loop "dst[j] = src[j] for j < wide" *)
Lemma copy_loop rD rS wide W mem : mem_ok mem -> wide <= W -> rD + W <= length mem -> rS + W <= length mem ->
  (rS = rD \/ rS + W <= rD \/ rD + W <= rS) ->
  exists m1, forM (seq 0 wide) (fun j m => x <- rd m (rS + j) ;; wr m (rD + j) x) mem = Ok m1 /\
    length m1 = length mem /\ mem_ok m1 /\
    desc m1 (stored rD 0 wide (fun k => word_at mem (rS + k)) mem).
Proof.
  intros Hm Hw HD HS Sp.
  destruct (forM_store rD 0 wide (fun k => word_at mem (rS + k))
              (fun j m => x <- rd m (rS + j) ;; wr m (rD + j) x) mem Hm ltac:(lia)) as (m1 & E & L & O & D).
  - intros j m Hj Lm Om Dm. rewrite rd_ok by lia. cbn [bind]. rewrite Dm, stored_out by lia. reflexivity.
  - exists m1. auto.
Qed.

(** repaired concat / stack row copy *)
Theorem w_copy_words_masked_ok hD di hS si mem :
  valid hD mem -> valid hS mem -> di < h_nrows hD -> si < h_nrows hS ->
  0 < h_ncols hS -> h_ncols hS <= h_ncols hD -> row_alias hD di hS si ->
  exists m', w_copy_words_masked hD di hS si mem = Ok m' /\ length m' = length mem /\ mem_ok m' /\
    touched hD di 0 (h_ncols hS) mem m' /\
    forall j, N.testbit (rowval hD m' di) (N.of_nat j) =
      if j <? h_ncols hS then N.testbit (rowval hS mem si) (N.of_nat j)
      else N.testbit (rowval hD mem di) (N.of_nat j).
Proof.
  intros HvD HvS Hdi Hsi Hc0 Hc Al.
  pose proof (valid_hdr_ok _ _ HvD) as HokD. pose proof (valid_hdr_ok _ _ HvS) as HokS.
  pose proof (valid_mem_ok _ _ HvD) as Hm.
  assert (HW : h_width hS <= h_width hD) by (destruct HokD as [W1 _], HokS as [W2 _]; rewrite W1, W2; lia).
  pose proof (width_pos_of_ncols hS HokS Hc0) as HWp.
  pose proof (row_alias_sep hD di hS si Al HW HWp) as Sp.
  pose proof (valid_word hD mem di (h_width hS - 1) HvD Hdi ltac:(lia)).
  pose proof (valid_word hS mem si (h_width hS - 1) HvS Hsi ltac:(lia)).
  unfold w_copy_words_masked. destruct (h_width hS) as [|wide] eqn:EW; [lia|].
  destruct (copy_loop (row_addr hD di) (row_addr hS si) wide (S wide) mem Hm) as (m1 & E1 & L1 & O1 & D1); try lia.
  rewrite E1. cbn [bind]. rewrite !rd_ok by lia. cbn [bind]. rewrite wr_ok by lia.
  rewrite !D1, !stored_out by lia.
  pose proof (stored_upd (row_addr hD di) 0 wide _ mem m1 wide
     (N.lor (N.land (word_at mem (row_addr hD di + wide)) (wnot (h_hmask hS)))
            (N.land (word_at mem (row_addr hS si + wide)) (h_hmask hS))) ltac:(lia) ltac:(lia) D1) as D'.
  replace (Nat.max wide (S wide)) with (S wide) in D' by lia.
  set (m' := upd _ _ m1) in *. assert (L' : length m' = length mem) by (unfold m'; now rewrite upd_length).
  exists m'. split; [reflexivity|]. split; [assumption|]. split; [now apply mem_ok_upd|].
  apply row_copy_kernel; auto. rewrite EW, Nat.add_0_r. intros p. rewrite D'. apply stored_ext.
  intros k Hk. unfold copy_word. rewrite EW. replace (S wide - 1) with wide by lia.
  destruct (Nat.eqb_spec k wide) as [-> |]; reflexivity.
Qed.

(* ------------------------------------------------------------------------------------------ *)
(** * mzd_copy(N, P) *)
Lemma copy_row_step hN hP i mem :
  valid hN mem -> valid hP mem -> i < h_nrows hN -> i < h_nrows hP ->
  0 < h_ncols hP -> h_ncols hP <= h_ncols hN -> row_alias hN i hP i ->
  exists m',
    (m1 <- forM (seq 0 (h_width hP - 1)) (fun j m => x <- rd m (row_addr hP i + j) ;; wr m (row_addr hN i + j) x) mem ;;
     nw <- rd m1 (row_addr hN i + (h_width hP - 1)) ;; pw <- rd m1 (row_addr hP i + (h_width hP - 1)) ;;
     wr m1 (row_addr hN i + (h_width hP - 1))
        (N.lor (N.land nw (wnot (h_hmask hP))) (N.land pw (h_hmask hP)))) = Ok m' /\
    length m' = length mem /\ mem_ok m' /\ touched hN i 0 (h_ncols hP) mem m' /\
    forall j, N.testbit (rowval hN m' i) (N.of_nat j) =
      if j <? h_ncols hP then N.testbit (rowval hP mem i) (N.of_nat j)
      else N.testbit (rowval hN mem i) (N.of_nat j).
Proof.
  intros HvD HvS Hdi Hsi Hc0 Hc Al.
  pose proof (valid_hdr_ok _ _ HvD) as HokD. pose proof (valid_hdr_ok _ _ HvS) as HokS.
  pose proof (valid_mem_ok _ _ HvD) as Hm.
  assert (HW : h_width hP <= h_width hN) by (destruct HokD as [W1 _], HokS as [W2 _]; rewrite W1, W2; lia).
  pose proof (width_pos_of_ncols hP HokS Hc0) as HWp.
  pose proof (row_alias_sep hN i hP i Al HW HWp) as Sp.
  pose proof (valid_word hN mem i (h_width hP - 1) HvD Hdi ltac:(lia)).
  pose proof (valid_word hP mem i (h_width hP - 1) HvS Hsi ltac:(lia)).
  set (wide := h_width hP - 1) in *.
  destruct (copy_loop (row_addr hN i) (row_addr hP i) wide (S wide) mem Hm) as (m1 & E1 & L1 & O1 & D1); try lia.
  rewrite E1. cbn [bind]. rewrite !rd_ok by lia. cbn [bind]. rewrite wr_ok by lia.
  rewrite !D1, !stored_out by lia.
  pose proof (stored_upd (row_addr hN i) 0 wide _ mem m1 wide
     (N.lor (N.land (word_at mem (row_addr hN i + wide)) (wnot (h_hmask hP)))
            (N.land (word_at mem (row_addr hP i + wide)) (h_hmask hP))) ltac:(lia) ltac:(lia) D1) as D'.
  replace (Nat.max wide (S wide)) with (S wide) in D' by lia.
  set (m' := upd _ _ m1) in *. assert (L' : length m' = length mem) by (unfold m'; now rewrite upd_length).
  exists m'. split; [reflexivity|]. split; [assumption|]. split; [now apply mem_ok_upd|].
  apply row_copy_kernel; auto. replace (h_width hP) with (S wide) by (subst wide; lia).
  rewrite Nat.add_0_r. intros p. rewrite D'. apply stored_ext.
  intros k Hk. unfold copy_word. fold wide. destruct (Nat.eqb_spec k wide) as [-> |]; reflexivity.
Qed.

Lemma copy_row_bits (x d s : N) c :
  (forall j, N.testbit x (N.of_nat j) = if j <? c then N.testbit s (N.of_nat j) else N.testbit d (N.of_nat j)) ->
  bounded c s -> x = N.lor (N.ldiff d (N.ones (N.of_nat c))) s.
Proof.
  intros H Hb. apply bits_ext_nat. intros j. rewrite H, N.lor_spec, N.ldiff_spec, testbit_ones_nat.
  destruct (Nat.ltb_spec j c); cbn [negb].
  - now rewrite andb_false_r.
  - rewrite (Hb j) by lia. now rewrite andb_true_r, orb_false_r.
Qed.

Theorem w_copy_ok hN hP mem :
  valid hN mem -> valid hP mem -> 0 < h_ncols hP ->
  h_nrows hP <= h_nrows hN -> h_ncols hP <= h_ncols hN -> alias_ok hN hP ->
  exists m', w_copy hN hP mem = Ok m' /\ length m' = length mem /\ mem_ok m' /\
    abs hN m' = mcopy_into (abs hN mem) (abs hP mem) /\ outside hN mem m'.
Proof.
  intros HvN HvP Hc0 Hr Hc Al.
  pose proof (valid_hdr_ok _ _ HvN) as HokN. pose proof (valid_hdr_ok _ _ HvP) as HokP.
  pose proof (valid_mem_ok _ _ HvN) as Hm.
  unfold w_copy. destruct (hdr_eqb hN hP) eqn:Eq.
  { apply hdr_eqb_eq in Eq. subst hP. exists mem. split; [reflexivity|]. split; [reflexivity|]. split; [assumption|]. split; [|apply outside_refl].
    symmetry. apply mcopy_into_same_dims; auto using abs_wf. }
  destruct (Nat.ltb_spec (h_nrows hN) (h_nrows hP)); [lia|].
  destruct (Nat.ltb_spec (h_ncols hN) (h_ncols hP)); [lia|]. cbn [orb].
  pose proof (width_pos_of_ncols hP HokP Hc0) as HWp.
  destruct (Nat.eqb_spec (h_width hP) 0); [lia|]. cbn [andb].
  destruct (rows_loop hN 0 0 (h_nrows hP) 0 (h_ncols hP)
     (fun k => N.lor (N.ldiff (rowval hN mem k) (N.ones (N.of_nat (h_ncols hP)))) (rowval hP mem k))
     (fun i m =>
        m1 <- forM (seq 0 (h_width hP - 1)) (fun j m => x <- rd m (row_addr hP i + j) ;; wr m (row_addr hN i + j) x) m ;;
        nw <- rd m1 (row_addr hN i + (h_width hP - 1)) ;; pw <- rd m1 (row_addr hP i + (h_width hP - 1)) ;;
        wr m1 (row_addr hN i + (h_width hP - 1))
           (N.lor (N.land nw (wnot (h_hmask hP))) (N.land pw (h_hmask hP)))) mem HokN ltac:(lia) Hc Hm)
    as (m' & E & L & O & Out & Done & Rest).
  - intros k m Hk Lm Om Outm Restm. cbn [Nat.add] in *.
    destruct (copy_row_step hN hP k m) as (m' & E & L' & O' & T & B);
      try (eapply valid_same_length; eassumption); try lia; auto.
    + apply alias_row_alias; auto; lia.
    + exists m'. split; [exact E|]. split; [assumption|]. split; [exact T|].
      apply copy_row_bits; [|apply rowval_bounded]. intros j. rewrite B.
      rewrite (src_row_stable hN hP mem m k) by (auto; try lia; intros _; apply Restm; lia).
      rewrite (Restm k) by lia. reflexivity.
  - exists m'. split; [exact E|]. do 2 (split; [assumption|]). split; [|assumption].
    apply abs_rows_ext; try reflexivity.
    + unfold mcopy_into. now rewrite rows_map_rows_length, rows_abs_length.
    + intros i Hi. unfold mcopy_into. rewrite row_map_rows by now rewrite rows_abs_length.
      rewrite nr_abs, nc_abs. destruct (Nat.ltb_spec i (h_nrows hP)).
      * rewrite !row_abs by lia. apply (Done i). lia.
      * rewrite row_abs by assumption. apply Rest. lia.
Qed.

(** mzd_copy(NULL, P) *)
Theorem w_copy_fresh_ok hP mem : valid hP mem -> 0 < h_ncols hP ->
  exists m' hN, w_copy_fresh hP mem = Ok (m', hN) /\ mem_ok m' /\ valid hN m' /\ owned hN = true /\
    abs hN m' = abs hP mem /\ padding_zero hN m' /\ firstn (length mem) m' = mem.
Proof.
  intros HvP Hc0. pose proof (valid_mem_ok _ _ HvP) as Hm. unfold w_copy_fresh.
  destruct (w_alloc mem (h_nrows hP) (h_ncols hP)) as [mem0 hN] eqn:EA.
  pose proof (alloc_valid mem (h_nrows hP) (h_ncols hP) Hm) as HvN.
  pose proof (alloc_old_valid mem (h_nrows hP) (h_ncols hP) hP HvP) as HvP0.
  pose proof (alloc_disjoint mem (h_nrows hP) (h_ncols hP) hP HvP) as Dj.
  pose proof (alloc_padding mem (h_nrows hP) (h_ncols hP)) as Pad.
  pose proof (alloc_old_abs mem (h_nrows hP) (h_ncols hP) hP HvP) as AbsP.
  pose proof (alloc_prefix mem (h_nrows hP) (h_ncols hP)) as Pre.
  rewrite EA in *. cbn [fst snd] in *.
  assert (EhN : hN = init_hdr_at (length mem) (h_nrows hP) (h_ncols hP)) by (inversion EA; reflexivity).
  destruct (w_copy_ok hN hP mem0) as (m' & E & L & O & A & Out); auto.
  - rewrite EhN. cbn. lia.
  - rewrite EhN. cbn. lia.
  - now right.
  - rewrite E. cbn [bind]. exists m', hN. split; [reflexivity|]. split; [assumption|].
    split; [eapply valid_same_length; eassumption|]. split; [rewrite EhN; reflexivity|].
    split; [|split].
    + rewrite A, AbsP. apply mcopy_into_same_dims; auto using abs_wf; rewrite EhN; reflexivity.
    + apply (outside_padding hN mem0 m'); auto. now destruct HvN.
    + now apply Pre.
Qed.

(* ------------------------------------------------------------------------------------------ *)
(** * mzd_copy_row(B, i, A, j)   (B->ncols >= A->ncols) *)
Theorem w_copy_row_ok hB i hA j mem :
  valid hB mem -> valid hA mem -> i < h_nrows hB -> j < h_nrows hA ->
  0 < h_ncols hA -> h_ncols hA <= h_ncols hB -> row_alias hB i hA j ->
  exists m', w_copy_row hB i hA j mem = Ok m' /\ length m' = length mem /\ mem_ok m' /\
    touched hB i 0 (h_ncols hA) mem m' /\
    forall c, N.testbit (rowval hB m' i) (N.of_nat c) =
      if c <? h_ncols hA then N.testbit (rowval hA mem j) (N.of_nat c)
      else N.testbit (rowval hB mem i) (N.of_nat c).
Proof.
  intros HvD HvS Hdi Hsi Hc0 Hc Al.
  pose proof (valid_hdr_ok _ _ HvD) as HokD. pose proof (valid_hdr_ok _ _ HvS) as HokS.
  pose proof (valid_mem_ok _ _ HvD) as Hm.
  assert (HW : h_width hA <= h_width hB) by (destruct HokD as [W1 _], HokS as [W2 _]; rewrite W1, W2; lia).
  pose proof (width_pos_of_ncols hA HokS Hc0) as HWp.
  pose proof (row_alias_sep hB i hA j Al HW HWp) as Sp.
  pose proof (valid_word hB mem i (h_width hA - 1) HvD Hdi ltac:(lia)).
  pose proof (valid_word hA mem j (h_width hA - 1) HvS Hsi ltac:(lia)).
  assert (EM : left_bitmask (h_ncols hA mod 64) = h_hmask hA) by (destruct HokS as [_ [M _]]; now rewrite M).
  unfold w_copy_row. rewrite EM. replace (Nat.min (h_width hB) (h_width hA)) with (h_width hA) by lia.
  destruct (Nat.eqb_spec (h_width hA) 0); [lia|].
  set (wide := h_width hA - 1) in *.
  destruct (Nat.eqb_spec wide 0) as [E0|E0]; cbn [negb].
  - (* one word *)
    rewrite E0, !Nat.add_0_r in *. rewrite !rd_ok by lia. cbn [bind]. rewrite wr_ok by lia.
    set (m' := upd _ _ mem). assert (L' : length m' = length mem) by (unfold m'; now rewrite upd_length).
    exists m'. split; [reflexivity|]. split; [assumption|]. split; [now apply mem_ok_upd|].
    apply row_copy_kernel; auto. rewrite Nat.add_0_r. intros p. unfold m'. rewrite word_at_upd by lia.
    unfold stored, copy_word. fold wide. rewrite E0.
    destruct (Nat.eqb_spec p (row_addr hB i)) as [-> |Hne].
    + replace (h_width hA) with 1 by (subst wide; lia).
      destruct (Nat.leb_spec (row_addr hB i + 0) (row_addr hB i)); [|lia].
      destruct (Nat.ltb_spec (row_addr hB i) (row_addr hB i + 1)); [|lia]. cbn [andb].
      rewrite Nat.sub_diag, Nat.eqb_refl, !Nat.add_0_r. now rewrite N.lor_comm.
    + replace (h_width hA) with 1 by (subst wide; lia).
      destruct (Nat.leb_spec (row_addr hB i + 0) p), (Nat.ltb_spec p (row_addr hB i + 1)); cbn [andb];
        try reflexivity. lia.
  - destruct (copy_loop (row_addr hB i) (row_addr hA j) wide (S wide) mem Hm) as (m1 & E1 & L1 & O1 & D1); try lia.
    rewrite E1. cbn [bind]. rewrite !rd_ok by lia. cbn [bind]. rewrite wr_ok by lia.
    rewrite !D1, !stored_out by lia.
    pose proof (stored_upd (row_addr hB i) 0 wide _ mem m1 wide
       (N.lor (N.land (word_at mem (row_addr hB i + wide)) (wnot (h_hmask hA)))
              (N.land (word_at mem (row_addr hA j + wide)) (h_hmask hA))) ltac:(lia) ltac:(lia) D1) as D'.
    replace (Nat.max wide (S wide)) with (S wide) in D' by lia.
    set (m' := upd _ _ m1) in *. assert (L' : length m' = length mem) by (unfold m'; now rewrite upd_length).
    exists m'. split; [reflexivity|]. split; [assumption|]. split; [now apply mem_ok_upd|].
    apply row_copy_kernel; auto. replace (h_width hA) with (S wide) by (subst wide; lia).
    rewrite Nat.add_0_r. intros p. rewrite D'. apply stored_ext.
    intros k Hk. unfold copy_word. fold wide. destruct (Nat.eqb_spec k wide) as [-> |]; reflexivity.
Qed.

Corollary w_copy_row_refines hB i hA j mem :
  valid hB mem -> valid hA mem -> i < h_nrows hB -> j < h_nrows hA ->
  0 < h_ncols hA -> h_ncols hA <= h_ncols hB -> alias_ok hB hA ->
  exists m', w_copy_row hB i hA j mem = Ok m' /\ length m' = length mem /\ mem_ok m' /\
    abs hB m' = copy_row (abs hB mem) i (abs hA mem) j /\ outside hB mem m'.
Proof.
  intros HvD HvS Hdi Hsi Hc0 Hc Al.
  pose proof (valid_hdr_ok _ _ HvD) as HokD. pose proof (valid_hdr_ok _ _ HvS) as HokS.
  destruct (w_copy_row_ok hB i hA j mem) as (m' & E & L & O & T & B); auto.
  { apply alias_row_alias; auto. }
  exists m'. do 3 (split; [assumption|]). split.
  - rewrite (touched_abs hB i 0 (h_ncols hA) mem m') by auto. unfold copy_row. f_equal.
    rewrite !row_abs by assumption. rewrite nc_abs. apply copy_row_bits; [exact B|apply rowval_bounded].
  - now apply (touched_outside hB i 0 (h_ncols hA)).
Qed.

(* ------------------------------------------------------------------------------------------ *)
(** * mzd_set_ui(A, value) *)
Lemma zero_row_step hA i mem : valid hA mem -> i < h_nrows hA -> 0 < h_ncols hA ->
  exists m',
    (m' <- forM (seq 0 (h_width hA - 1)) (fun j m => wr m (row_addr hA i + j) 0%N) mem ;;
     w <- rd m' (row_addr hA i + (h_width hA - 1)) ;;
     wr m' (row_addr hA i + (h_width hA - 1)) (N.land w (wnot (h_hmask hA)))) = Ok m' /\
    length m' = length mem /\ mem_ok m' /\ touched hA i 0 (h_ncols hA) mem m' /\ rowval hA m' i = 0%N.
Proof.
  intros Hv Hi Hc0. pose proof (valid_hdr_ok _ _ Hv) as Hok. pose proof (valid_mem_ok _ _ Hv) as Hm.
  pose proof (width_pos_of_ncols hA Hok Hc0) as HWp.
  pose proof (valid_word hA mem i (h_width hA - 1) Hv Hi ltac:(lia)).
  set (wide := h_width hA - 1) in *.
  destruct (forM_store (row_addr hA i) 0 wide (fun _ => 0%N)
              (fun j m => wr m (row_addr hA i + j) 0%N) mem Hm ltac:(lia)) as (m1 & E1 & L1 & O1 & D1).
  { reflexivity. }
  rewrite E1. cbn [bind]. cbn [Nat.add] in D1. rewrite rd_ok by lia. cbn [bind]. rewrite wr_ok by lia.
  rewrite D1, stored_out by lia.
  pose proof (stored_upd (row_addr hA i) 0 wide _ mem m1 wide
     (N.land (word_at mem (row_addr hA i + wide)) (wnot (h_hmask hA))) ltac:(lia) ltac:(lia) D1) as D'.
  replace (Nat.max wide (S wide)) with (h_width hA) in D' by (subst wide; lia).
  set (m' := upd _ _ m1) in *. assert (L' : length m' = length mem) by (unfold m'; now rewrite upd_length).
  exists m'. split; [reflexivity|]. split; [assumption|]. split; [now apply mem_ok_upd|].
  rewrite <- (Nat.add_0_r (row_addr hA i)) in D' at 1.
  destruct (row_kernel hA i 0 (h_width hA) 0 (h_ncols hA) _ mem m' Hok ltac:(lia) L' D') as [T B].
  { intros k bb Hk Hbb Hn. cbn beta. cbn [Nat.add] in *.
    destruct (Nat.eqb_spec k wide) as [-> |Hne].
    - wbits. rewrite testbit_hmask' by assumption. fold wide.
      destruct (Nat.ltb_spec (64 * wide + bb) (h_ncols hA)); [lia|].
      destruct (Nat.ltb_spec bb 64); [|lia]. cbn [negb andb]. now rewrite andb_true_r.
    - pose proof (full_word_in hA k bb Hok). subst wide. lia. }
  split; [exact T|]. apply bits_ext_nat. intros j. rewrite N.bits_0.
  destruct (Nat.lt_ge_cases j (h_ncols hA)) as [Hj|Hj]; [|now rewrite rowval_bounded by lia].
  rewrite B by assumption. cbn [Nat.add]. pose proof (width_pos hA j Hok Hj).
  destruct (Nat.leb_spec 0 (j / 64)); [|lia]. destruct (Nat.ltb_spec (j / 64) (h_width hA)); [|lia]. cbn [andb].
  rewrite Nat.sub_0_r. destruct (Nat.eqb_spec (j / 64) wide) as [E|E]; [|apply N.bits_0].
  wbits. rewrite testbit_hmask' by (auto; lia). fold wide. rewrite <- E.
  destruct (Nat.ltb_spec (64 * (j / 64) + j mod 64) (h_ncols hA)); [|lia].
  destruct (Nat.ltb_spec (j mod 64) 64); [|lia]. cbn [negb andb]. now rewrite andb_false_r.
Qed.

Theorem w_set_ui_ok hA value mem : valid hA mem -> 0 < h_ncols hA ->
  exists m', w_set_ui hA value mem = Ok m' /\ length m' = length mem /\ mem_ok m' /\
    abs hA m' = set_ui (h_nrows hA) (h_ncols hA) value /\ outside hA mem m'.
Proof.
  intros Hv Hc0. pose proof (valid_hdr_ok _ _ Hv) as Hok. pose proof (valid_mem_ok _ _ Hv) as Hm.
  pose proof (width_pos_of_ncols hA Hok Hc0) as HWp.
  unfold w_set_ui. destruct (Nat.eqb_spec (h_width hA) 0); [lia|]. cbn [andb].
  destruct (rows_loop hA 0 0 (h_nrows hA) 0 (h_ncols hA) (fun _ => 0%N)
     (fun i m =>
        m' <- forM (seq 0 (h_width hA - 1)) (fun j m => wr m (row_addr hA i + j) 0%N) m ;;
        w <- rd m' (row_addr hA i + (h_width hA - 1)) ;;
        wr m' (row_addr hA i + (h_width hA - 1)) (N.land w (wnot (h_hmask hA)))) mem Hok ltac:(lia) ltac:(lia) Hm)
    as (m1 & E1 & L1 & O1 & Out1 & Done1 & _).
  { intros k m Hk Lm Om Outm Restm. cbn [Nat.add] in *.
    destruct (zero_row_step hA k m) as (m' & E & L' & O' & T & B); try lia.
    - eapply valid_same_length; eassumption.
    - exists m'. auto. }
  rewrite E1. cbn [bind]. cbn [Nat.add] in Done1.
  assert (Hv1 : valid hA m1) by (eapply valid_same_length; eassumption).
  destruct (Nat.even value) eqn:Ev.
  - exists m1. split; [reflexivity|]. do 2 (split; [assumption|]). split; [|assumption].
    rewrite set_ui_even by assumption. apply abs_rows_ext; try reflexivity.
    + cbn. now rewrite repeat_length.
    + intros i Hi. rewrite Done1 by lia. unfold row, mzero. cbn [rows]. now rewrite nth_repeat.
  - set (stop := Nat.min (h_nrows hA) (h_ncols hA)).
    destruct (rows_loop hA 0 0 stop 0 (h_ncols hA) (fun k => (2 ^ N.of_nat k)%N)
       (fun i m => w_write_bit hA i i true m) m1 Hok ltac:(subst stop; lia) ltac:(lia) O1)
      as (m2 & E2 & L2 & O2 & Out2 & Done2 & Rest2).
    { intros k m Hk Lm Om Outm Restm. cbn [Nat.add] in *.
      destruct (w_write_bit_ok hA m k k true) as (m' & E & L' & O' & T & B); try (subst stop; lia).
      - eapply valid_same_length; eassumption.
      - exists m'. split; [exact E|]. split; [assumption|]. split.
        + apply (touched_weaken hA k k (k + 1)); [lia|subst stop; lia|exact T].
        + apply bits_ext_nat. intros j. rewrite B, testbit_pow2_nat, (Nat.eqb_sym k j).
          destruct (j =? k); [reflexivity|]. rewrite Restm by lia. rewrite Done1 by (subst stop; lia).
          apply N.bits_0. }
    exists m2. split; [exact E2|]. split; [congruence|]. split; [assumption|]. split.
    + apply abs_rows_ext; try (now rewrite ?nr_set_ui, ?nc_set_ui).
      * unfold set_ui. rewrite Ev. cbn. now rewrite map_length, seq_length.
      * intros i Hi. cbn [Nat.add] in *. apply bits_ext_nat. intros j.
        change (N.testbit (row (set_ui (h_nrows hA) (h_ncols hA) value) i) (N.of_nat j))
          with (get (set_ui (h_nrows hA) (h_ncols hA) value) i j).
        rewrite get_set_ui. unfold Nat.odd. rewrite Ev. cbn [negb andb].
        destruct (Nat.ltb_spec i (h_nrows hA)); [|lia]. cbn [andb].
        destruct (Nat.lt_ge_cases i stop) as [Hs|Hs].
        -- rewrite Done2 by lia. rewrite testbit_pow2_nat.
           destruct (Nat.eqb_spec i j) as [<- |]; [|now rewrite andb_false_r].
           destruct (Nat.ltb_spec i (h_ncols hA)); [reflexivity|subst stop; lia].
        -- rewrite Rest2 by lia. rewrite Done1 by lia. rewrite N.bits_0.
           destruct (Nat.eqb_spec i j) as [<- |]; [|now rewrite andb_false_r].
           destruct (Nat.ltb_spec i (h_ncols hA)); [subst stop; lia|reflexivity].
    + apply (outside_trans hA mem m1 m2); assumption.
Qed.
