(* Word/WRefine6.v — refinement / frame / padding theorems, part 6: mzd_row_add_offset and the
   repaired mzd_row_clear_offset (w_row_clear_offset_fixed2 = the behaviour of the repaired C code:
   keep-mask on the first word, bits beyond the last column never touched).  No axioms. *)
From Coq Require Import List NArith Arith Lia Bool ZifyBool ZifyNat ZifyN ZArith.
From M4 Require Import Base.Bits Lin.Mat Lin.Ops Lin.OpsProofs Word.WMat Word.WOps Word.WMatLemmas
  Word.WRefineLemmas Word.WRefine Word.WRefine2.
Import ListNotations.
Local Open Scope nat_scope.
Ltac Zify.zify_post_hook ::= Z.div_mod_to_equations.

Lemma stored_shift base d a j f mem p :
  stored (base + d) a j f mem p = stored base (a + d) (j + d) (fun k => f (k - d)) mem p.
Proof. unfold stored. wsolve. Qed.

Lemma desc_shift base d a j f mem m : desc m (stored (base + d) a j f mem) ->
  desc m (stored base (a + d) (j + d) (fun k => f (k - d)) mem).
Proof. intros D p. rewrite D. apply stored_shift. Qed.

Lemma desc_unshift base d n f mem m : desc m (stored base d (d + n) f mem) ->
  desc m (stored (base + d) 0 n (fun k => f (k + d)) mem).
Proof.
  intros D p. rewrite D. unfold stored.
  destruct (Nat.leb_spec (base + d) p), (Nat.ltb_spec p (base + (d + n))),
    (Nat.leb_spec (base + d + 0) p), (Nat.ltb_spec p (base + d + n)); cbn [andb]; try lia; try reflexivity.
  do 2 f_equal. lia.
Qed.

Lemma desc_ext m base a j f g mem : (forall k, a <= k < j -> f k = g k) ->
  desc m (stored base a j f mem) -> desc m (stored base a j g mem).
Proof. intros H D p. rewrite D. now apply stored_ext. Qed.

(* ------------------------------------------------------------------------------------------ *)
(** * mzd_row_add_offset(M, dstrow, srcrow, coloffset), dstrow <> srcrow *)
Theorem w_row_add_offset_ok h mem dst src co :
  valid h mem -> dst < h_nrows h -> src < h_nrows h -> dst <> src -> co < h_ncols h ->
  exists m', w_row_add_offset h dst src co mem = Ok m' /\ length m' = length mem /\ mem_ok m' /\
    touched h dst co (h_ncols h) mem m' /\
    forall j, N.testbit (rowval h m' dst) (N.of_nat j) =
      xorb (N.testbit (rowval h mem dst) (N.of_nat j)) ((co <=? j) && N.testbit (rowval h mem src) (N.of_nat j)).
Proof.
  intros Hv Hd Hs Hne Hco. pose proof (valid_hdr_ok _ _ Hv) as Hok. pose proof (valid_mem_ok _ _ Hv) as Hm.
  pose proof Hok as [HW [_ Hrs]].
  set (W := h_width h). set (sb := co / 64). set (rd_ := row_addr h dst). set (rs := row_addr h src).
  assert (Hsb : sb < W) by (subst sb W; rewrite HW; lia).
  assert (Hdw : forall k, k < W -> rd_ + k < length mem) by (intros; now apply valid_word).
  assert (Hsw : forall k, k < W -> rs + k < length mem) by (intros; now apply valid_word).
  assert (Hsep : rd_ + W <= rs \/ rs + W <= rd_).
  { destruct (alias_rows h h dst src (or_introl eq_refl) Hok Hok Hd Hs) as [[_ E]|S]; [congruence|].
    unfold sep in S. subst rd_ rs W. lia. }
  pose proof (Hdw (W - 1) ltac:(lia)). pose proof (Hsw (W - 1) ltac:(lia)).
  unfold w_row_add_offset. destruct (Nat.leb_spec (h_ncols h) co); [lia|].
  fold W sb rd_ rs. set (wide := W - sb - 1).
  rewrite !rd_ok by lia. cbn [bind]. rewrite wr_ok by lia. cbn [bind].
  set (v0 := N.lxor (word_at mem (rd_ + sb)) (N.land (word_at mem (rs + sb)) (right_bitmask (64 - co mod 64)))).
  set (m0 := upd (rd_ + sb) (trunc v0) mem).
  assert (L0 : length m0 = length mem) by (unfold m0; now rewrite upd_length).
  assert (O0 : mem_ok m0) by (unfold m0; now apply mem_ok_upd).
  assert (D0 : desc m0 (stored (rd_ + sb) 0 1 (fun _ => v0) mem)).
  { intros p. unfold m0. rewrite word_at_upd by lia. unfold stored.
    destruct (Nat.eqb_spec p (rd_ + sb)) as [-> |]; wsolve. }
  replace (W - sb - 1) with wide by reflexivity.
  set (f := fun i => N.lxor (word_at mem (rd_ + sb + 1 + i)) (word_at mem (rs + sb + 1 + i))).
  destruct (forM_store (rd_ + sb + 1) 0 wide f
      (fun i m => s <- rd m (rs + sb + 1 + i) ;; d <- rd m (rd_ + sb + 1 + i) ;;
                  wr m (rd_ + sb + 1 + i) (N.lxor d s)) m0 O0 ltac:(subst wide; lia))
    as (m1 & E1 & L1 & O1 & D1).
  { intros i m Hi Lm Om Dm. subst wide. rewrite !rd_ok by lia. cbn [bind].
    rewrite !Dm, !stored_out by lia. unfold m0. rewrite !word_at_upd_neq by lia. reflexivity. }
  rewrite E1. cbn [bind]. cbn [Nat.add] in D1.
  replace (rs + sb + 1 + wide - 1) with (rs + (W - 1)) by (subst wide; lia).
  replace (rd_ + sb + 1 + wide - 1) with (rd_ + sb + (W - sb - 1)) by (subst wide; lia).
  (* the whole destination row in normal form *)
  assert (D1' : desc m1 (stored (rd_ + sb) 0 (W - sb) (fun k => if k <? 1 then v0 else f (k - 1)) mem)).
  { replace (W - sb) with (wide + 1) by (subst wide; lia).
    apply (desc_stored_stored (rd_ + sb) 0 1 (wide + 1) _ _ mem m0 m1); try lia; [exact D0|].
    apply (desc_shift (rd_ + sb) 1 0 wide f m0 m1). exact D1. }
  rewrite !rd_ok by lia. cbn [bind]. rewrite wr_ok by lia.
  assert (Es : word_at m1 (rs + (W - 1)) = word_at mem (rs + (W - 1))) by (rewrite D1', stored_out by lia; reflexivity).
  rewrite Es.
  set (dl := word_at m1 (rd_ + sb + (W - sb - 1))).
  pose proof (stored_upd (rd_ + sb) 0 (W - sb) _ mem m1 (W - sb - 1)
     (N.lxor dl (N.land (word_at mem (rs + (W - 1))) (wnot (h_hmask h)))) ltac:(lia) ltac:(lia) D1') as D2.
  replace (Nat.max (W - sb) (S (W - sb - 1))) with (W - sb) in D2 by lia.
  set (m2 := upd _ _ m1) in *. assert (L2 : length m2 = length mem) by (unfold m2; rewrite upd_length; congruence).
  exists m2. split; [reflexivity|]. split; [assumption|]. split; [unfold m2; now apply mem_ok_upd|].
  assert (Hc0 : 0 < h_ncols h) by lia.
  assert (Edl : dl = trunc (if W - sb - 1 <? 1 then v0 else f (W - sb - 1 - 1))).
  { unfold dl. rewrite D1', stored_in by lia. cbn beta.
    replace (rd_ + sb + (W - sb - 1) - (rd_ + sb)) with (W - sb - 1) by lia. reflexivity. }
  (* bit b of the new word sb + k of the destination row *)
  assert (Bits : forall k b, k < W - sb -> b < 64 ->
     N.testbit (if k =? W - sb - 1 then N.lxor dl (N.land (word_at mem (rs + (W - 1))) (wnot (h_hmask h)))
                else if k <? 1 then v0 else f (k - 1)) (N.of_nat b) =
     xorb (N.testbit (word_at mem (rd_ + (sb + k))) (N.of_nat b))
          ((co <=? 64 * (sb + k) + b) && (64 * (sb + k) + b <? h_ncols h) &&
           N.testbit (word_at mem (rs + (sb + k))) (N.of_nat b))).
  { intros k b Hk Hb.
    assert (TB : N.testbit (right_bitmask (64 - co mod 64)) (N.of_nat b) = (co <=? 64 * sb + b)).
    { rewrite testbit_right_bitmask. subst sb.
      destruct (Nat.leb_spec (64 - (64 - co mod 64)) b), (Nat.ltb_spec b 64), (Nat.leb_spec co (64 * (co / 64) + b));
        try reflexivity; lia. }
    destruct (Nat.eqb_spec k (W - sb - 1)) as [Ek|Ek].
    - rewrite N.lxor_spec, N.land_spec, testbit_wnot, testbit_hmask' by assumption. fold W.
      destruct (Nat.ltb_spec b 64); [|lia]. cbn [andb]. rewrite Edl, testbit_trunc_lt by assumption.
      replace (rs + (W - 1)) with (rs + (sb + k)) by lia.
      replace (64 * (W - 1) + b) with (64 * (sb + k) + b) by lia.
      destruct (Nat.ltb_spec (W - sb - 1) 1) as [Hk1|Hk1].
      + assert (Hk0 : k = 0) by lia. assert (HWsb : W - 1 = sb) by lia. clear Ek. subst k.
        unfold v0. rewrite N.lxor_spec, N.land_spec, TB, !Nat.add_0_r.
        destruct (Nat.leb_spec co (64 * sb + b)), (Nat.ltb_spec (64 * sb + b) (h_ncols h)); cbn [negb andb];
          rewrite ?andb_true_r, ?andb_false_r, ?xorb_false_r; try reflexivity.
        * now destruct (N.testbit (word_at mem (rd_ + sb)) _), (N.testbit (word_at mem (rs + sb)) _).
        * lia.
      + unfold f. rewrite N.lxor_spec.
        replace (rd_ + sb + 1 + (W - sb - 1 - 1)) with (rd_ + (sb + k)) by lia.
        replace (rs + sb + 1 + (W - sb - 1 - 1)) with (rs + (sb + k)) by lia.
        destruct (Nat.leb_spec co (64 * (sb + k) + b)); [|subst sb; lia]. cbn [andb].
        destruct (Nat.ltb_spec (64 * (sb + k) + b) (h_ncols h)); cbn [negb andb];
          rewrite ?andb_true_r, ?andb_false_r, ?xorb_false_r; [reflexivity|].
        now destruct (N.testbit (word_at mem (rd_ + (sb + k))) _), (N.testbit (word_at mem (rs + (sb + k))) _).
    - pose proof (full_word_in h (sb + k) b Hok ltac:(fold W; lia) Hb).
      destruct (Nat.ltb_spec (64 * (sb + k) + b) (h_ncols h)); [|lia]. rewrite andb_true_r.
      destruct (Nat.ltb_spec k 1) as [Hk1|Hk1].
      + assert (k = 0) by lia. subst k. unfold v0. rewrite N.lxor_spec, N.land_spec, TB, !Nat.add_0_r.
        now rewrite andb_comm.
      + unfold f. rewrite N.lxor_spec.
        replace (rd_ + sb + 1 + (k - 1)) with (rd_ + (sb + k)) by lia.
        replace (rs + sb + 1 + (k - 1)) with (rs + (sb + k)) by lia.
        destruct (Nat.leb_spec co (64 * (sb + k) + b)); [reflexivity|subst sb; lia]. }
  destruct (row_kernel h dst sb (W - sb) co (h_ncols h) _ mem m2 Hok ltac:(fold W; lia) L2 D2) as [T B].
  { intros k b Hk Hb Hn. cbn beta. rewrite Bits by assumption. fold rd_.
    destruct (Nat.leb_spec co (64 * (sb + k) + b)), (Nat.ltb_spec (64 * (sb + k) + b) (h_ncols h)); cbn [andb];
      try apply xorb_false_r. lia. }
  split; [exact T|]. intros j.
  destruct (Nat.lt_ge_cases j (h_ncols h)) as [Hj|Hj].
  2:{ rewrite !rowval_bounded by lia. now rewrite andb_false_r. }
  rewrite B by assumption. pose proof (width_pos h j Hok Hj) as Hjw. fold W in Hjw.
  destruct (Nat.leb_spec sb (j / 64)); cbn [andb].
  - destruct (Nat.ltb_spec (j / 64) (sb + (W - sb))); [|lia].
    rewrite Bits by lia. fold rd_. replace (sb + (j / 64 - sb)) with (j / 64) by lia.
    replace (64 * (j / 64) + j mod 64) with j by lia.
    rewrite <- !rowval_bit by assumption. unfold bit. fold rd_ rs.
    destruct (Nat.ltb_spec j (h_ncols h)); [|lia]. now rewrite andb_true_r.
  - destruct (Nat.leb_spec co j); [subst sb; lia|]. cbn [andb]. now rewrite xorb_false_r.
Qed.

Corollary w_row_add_offset_refines h mem dst src co :
  valid h mem -> dst < h_nrows h -> src < h_nrows h -> dst <> src -> co < h_ncols h ->
  exists m', w_row_add_offset h dst src co mem = Ok m' /\ length m' = length mem /\ mem_ok m' /\
    abs h m' = row_add_offset (abs h mem) dst src co /\ outside h mem m'.
Proof.
  intros Hv Hd Hs Hne Hco. pose proof (valid_hdr_ok _ _ Hv) as Hok.
  destruct (w_row_add_offset_ok h mem dst src co Hv Hd Hs Hne Hco) as (m' & E & L & O & T & B).
  exists m'. do 3 (split; [assumption|]). split.
  - rewrite (touched_abs h dst co (h_ncols h) mem m') by auto. unfold row_add_offset. f_equal.
    rewrite !row_abs by assumption. rewrite nc_abs. apply bits_ext_nat. intros j.
    rewrite B, N.lxor_spec, N.land_spec, OpsProofs.testbit_colmask. f_equal.
    destruct (Nat.ltb_spec j (h_ncols h)); [now rewrite andb_true_r, andb_comm|].
    rewrite rowval_bounded by lia. now rewrite !andb_false_r.
  - now apply (touched_outside h dst co (h_ncols h)).
Qed.

(* ------------------------------------------------------------------------------------------ *)
(** * mzd_row_clear_offset(M, row, coloffset), repaired *)
Theorem w_row_clear_offset_fixed2_ok h mem r co :
  valid h mem -> r < h_nrows h -> co < h_ncols h ->
  exists m', w_row_clear_offset_fixed2 h r co mem = Ok m' /\ length m' = length mem /\ mem_ok m' /\
    touched h r co (h_ncols h) mem m' /\
    forall j, N.testbit (rowval h m' r) (N.of_nat j) = N.testbit (rowval h mem r) (N.of_nat j) && (j <? co).
Proof.
  intros Hv Hr Hco. pose proof (valid_hdr_ok _ _ Hv) as Hok. pose proof (valid_mem_ok _ _ Hv) as Hm.
  pose proof Hok as [HW [_ Hrs]].
  set (W := h_width h). set (sb := co / 64). set (tr := row_addr h r).
  assert (Hsb : sb < W) by (subst sb W; rewrite HW; lia).
  assert (Hw : forall k, k < W -> tr + k < length mem) by (intros; now apply valid_word).
  pose proof (Hw (W - 1) ltac:(lia)).
  unfold w_row_clear_offset_fixed2. fold W sb tr.
  set (keep := fun i => if i =? W - 1 then wnot (h_hmask h) else 0%N).
  set (mk := if co mod 64 =? 0 then 0%N else left_bitmask (co mod 64)).
  rewrite rd_ok by lia. cbn [bind]. rewrite wr_ok by lia. cbn [bind].
  set (v0 := N.land (word_at mem (tr + sb)) (N.lor mk (keep sb))).
  set (m0 := upd (tr + sb) (trunc v0) mem).
  assert (L0 : length m0 = length mem) by (unfold m0; now rewrite upd_length).
  assert (O0 : mem_ok m0) by (unfold m0; now apply mem_ok_upd).
  assert (D0 : desc m0 (stored tr sb (S sb) (fun _ => v0) mem)) by (apply desc_upd_first; lia).
  set (f := fun i => N.land (word_at mem (tr + i)) (keep i)).
  destruct (forM_store tr (sb + 1) (W - (sb + 1)) f
      (fun i m => t <- rd m (tr + i) ;; wr m (tr + i) (N.land t (keep i))) m0 O0 ltac:(lia))
    as (m1 & E1 & L1 & O1 & D1).
  { intros i m Hi Lm Om Dm. rewrite rd_ok by lia. cbn [bind].
    rewrite Dm, stored_out by lia. unfold m0. rewrite word_at_upd_neq by lia. reflexivity. }
  exists m1. split; [exact E1|]. split; [congruence|]. split; [assumption|].
  replace (sb + 1 + (W - (sb + 1))) with W in D1 by lia.
  assert (D1' : desc m1 (stored tr sb (sb + (W - sb)) (fun k => if k <? S sb then v0 else f k) mem)).
  { replace (sb + (W - sb)) with W by lia.
    apply (desc_stored_stored tr sb (S sb) W _ _ mem m0 m1); try lia; [exact D0|].
    now replace (S sb) with (sb + 1) by lia. }
  apply desc_unshift in D1'.
  assert (Hc0 : 0 < h_ncols h) by lia.
  assert (TM : forall b, b < 64 -> N.testbit mk (N.of_nat b) = (64 * sb + b <? co)).
  { intros b Hb. unfold mk. destruct (Nat.eqb_spec (co mod 64) 0).
    - rewrite N.bits_0. destruct (Nat.ltb_spec (64 * sb + b) co); [subst sb; lia|reflexivity].
    - rewrite testbit_left_bitmask by lia. destruct (Nat.eqb_spec (co mod 64) 0); [lia|].
      subst sb. destruct (Nat.ltb_spec b (co mod 64)), (Nat.ltb_spec (64 * (co / 64) + b) co); try reflexivity; lia. }
  assert (TK : forall i b, i < W -> b < 64 -> N.testbit (keep i) (N.of_nat b) = negb (64 * i + b <? h_ncols h)).
  { intros i b Hi Hb. unfold keep. destruct (Nat.eqb_spec i (W - 1)) as [-> |].
    - rewrite testbit_wnot, testbit_hmask' by assumption. fold W. destruct (Nat.ltb_spec b 64); [reflexivity|lia].
    - rewrite N.bits_0. pose proof (full_word_in h i b Hok ltac:(fold W; lia) Hb).
      destruct (Nat.ltb_spec (64 * i + b) (h_ncols h)); [reflexivity|lia]. }
  assert (Bits : forall k b, k < W - sb -> b < 64 ->
     N.testbit (if k + sb <? S sb then v0 else f (k + sb)) (N.of_nat b) =
     N.testbit (word_at mem (tr + (sb + k))) (N.of_nat b) &&
     ((64 * (sb + k) + b <? co) || negb (64 * (sb + k) + b <? h_ncols h))).
  { intros k b Hk Hb. destruct (Nat.ltb_spec (k + sb) (S sb)).
    - assert (k = 0) by lia. subst k. unfold v0. rewrite N.land_spec, N.lor_spec, TM, TK by assumption.
      now rewrite Nat.add_0_r.
    - unfold f. rewrite N.land_spec, TK by lia. replace (k + sb) with (sb + k) by lia.
      destruct (Nat.ltb_spec (64 * (sb + k) + b) co); [subst sb; lia|]. reflexivity. }
  destruct (row_kernel h r sb (W - sb) co (h_ncols h) _ mem m1 Hok ltac:(fold W; lia) ltac:(congruence) D1') as [T B].
  { intros k b Hk Hb Hn. cbn beta. rewrite Bits by assumption. fold tr.
    destruct (Nat.ltb_spec (64 * (sb + k) + b) co), (Nat.ltb_spec (64 * (sb + k) + b) (h_ncols h)); cbn [negb orb];
      try apply andb_true_r. lia. }
  split; [exact T|]. intros j.
  destruct (Nat.lt_ge_cases j (h_ncols h)) as [Hj|Hj].
  2:{ rewrite !rowval_bounded by lia. reflexivity. }
  rewrite B by assumption. pose proof (width_pos h j Hok Hj) as Hjw. fold W in Hjw.
  destruct (Nat.leb_spec sb (j / 64)); cbn [andb].
  - destruct (Nat.ltb_spec (j / 64) (sb + (W - sb))); [|lia].
    rewrite Bits by lia. replace (sb + (j / 64 - sb)) with (j / 64) by lia.
    replace (64 * (j / 64) + j mod 64) with j by lia.
    rewrite <- (rowval_bit h mem r j) by assumption. unfold bit. fold tr.
    destruct (Nat.ltb_spec j (h_ncols h)); [|lia]. cbn [negb]. now rewrite orb_false_r.
  - destruct (Nat.ltb_spec j co); [|subst sb; lia]. now rewrite andb_true_r.
Qed.

Corollary w_row_clear_offset_fixed2_refines h mem r co :
  valid h mem -> r < h_nrows h -> co < h_ncols h ->
  exists m', w_row_clear_offset_fixed2 h r co mem = Ok m' /\ length m' = length mem /\ mem_ok m' /\
    abs h m' = row_clear_offset (abs h mem) r co /\ outside h mem m'.
Proof.
  intros Hv Hr Hco. pose proof (valid_hdr_ok _ _ Hv) as Hok.
  destruct (w_row_clear_offset_fixed2_ok h mem r co Hv Hr Hco) as (m' & E & L & O & T & B).
  exists m'. do 3 (split; [assumption|]). split.
  - rewrite (touched_abs h r co (h_ncols h) mem m') by auto. unfold row_clear_offset. f_equal.
    rewrite !row_abs by assumption. apply bits_ext_nat. intros j. now rewrite B, N.land_spec, testbit_ones_nat.
  - now apply (touched_outside h r co (h_ncols h)).
Qed.
