(* Word/WRefine14.v — the models of Word/WOps2.v Part A (the CURRENT C text of the repaired kernels)
   against the already verified [_fixed]/[_fx] models of Word/WOps.v / WRefine9.v / WRefine10.v:

   (a) equal as functions (hence the same refinement / frame / padding / bounds theorems):
         w2_row_clear_offset = w_row_clear_offset_fixed2      (0 < width)
         w2_first_zero_row   = w_first_zero_row_fixed          (always)
         w2_concat / w2_stack = w_concat_fixed / w_stack_fixed (0 < width of the sources)
         w2_submatrix        = w_submatrix_fixed               (always)
         w2_extract_u        = w_extract_u_fx                  (always)
       and the inherited theorems restated for the w2_ names;
   (b) proven directly (the repaired code differs from every older model):
         w2_extract_l      — refinement AND unconditional frame on a supplied window (repaired F17);
         w2_row_add_offset — for ALL dstrow, srcrow including dstrow = srcrow (repaired F18): refinement,
                             frame; for dst = src the row is cleared from coloffset on;
         and w2_row_add_offset = w_row_add_offset for distinct rows.
   (mzd_submatrix into a LARGER supplied destination: Word/WRefine16.v; kernel contracts: WRefine17.v.)
   No axioms. *)
From Coq Require Import List NArith Arith Lia Bool ZifyBool ZifyNat ZifyN ZArith.
From M4 Require Import Base.Bits Lin.Mat Lin.Ops Lin.OpsProofs Word.WMat Word.WOps Word.WOps2
  Word.WMatLemmas Word.WRefineLemmas Word.WRefine Word.WRefine2 Word.WRefine3 Word.WRefine4 Word.WRefine5
  Word.WRefine6 Word.WRefine7 Word.WRefine9 Word.WRefine10.
Import ListNotations.
Local Open Scope nat_scope.
Ltac Zify.zify_post_hook ::= Z.div_mod_to_equations.

(* ------------------------------------------------------------------------------------------ *)
(** * loop and monad helpers *)
Lemma bind_ret {A} (x : res A) : (a <- x ;; Ok a) = x.
Proof. now destruct x. Qed.

Lemma bind_ext {A B} (x : res A) (f g : A -> res B) : (forall a, f a = g a) -> bind x f = bind x g.
Proof. intros H. destruct x; cbn [bind]; auto. Qed.

Lemma forM_app {S} (l1 l2 : list nat) (body : nat -> S -> res S) s :
  forM (l1 ++ l2) body s = (s' <- forM l1 body s ;; forM l2 body s').
Proof.
  revert s. induction l1 as [|x l1 IH]; intros s; cbn [app forM bind]; [reflexivity|].
  destruct (body x s); cbn [bind]; [apply IH|reflexivity].
Qed.

Lemma firstM_ext {R} (f g : nat -> res (option R)) l :
  (forall k, In k l -> f k = g k) -> firstM l f = firstM l g.
Proof.
  induction l as [|x l IH]; intros H; cbn [firstM]; [reflexivity|].
  rewrite (H x) by now left. destruct (g x) as [[v|]|e]; cbn [bind]; try reflexivity.
  apply IH. intros k Hk. apply H. now right.
Qed.

(** a store of a constant does not need the preceding load of the same word *)
Lemma rd_wr_zero m p : (t <- rd m p ;; wr m p (N.land t 0)) = wr m p 0%N.
Proof.
  unfold rd, wr. destruct (nth_error m p) as [w|] eqn:E; cbn [bind].
  - now rewrite N.land_0_r.
  - apply nth_error_None in E. destruct (Nat.ltb_spec p (length m)); [lia|reflexivity].
Qed.

(* ------------------------------------------------------------------------------------------ *)
(** * (a) equalities with the verified models *)

Theorem w2_row_clear_offset_eq h r co mem : 0 < h_width h ->
  w2_row_clear_offset h r co mem = w_row_clear_offset_fixed2 h r co mem.
Proof.
  intros HW. unfold w2_row_clear_offset, w_row_clear_offset_fixed2.
  destruct (Nat.eqb_spec (h_width h) 0); [lia|].
  set (W := h_width h) in *. set (sb := co / 64). set (tr := row_addr h r). set (last := W - 1).
  apply bind_ext. intros t.
  assert (EK : (if sb =? last
                then N.lor (if negb (co mod 64 =? 0) then left_bitmask (co mod 64) else 0%N) (wnot (h_hmask h))
                else if negb (co mod 64 =? 0) then left_bitmask (co mod 64) else 0%N) =
               N.lor (if co mod 64 =? 0 then 0%N else left_bitmask (co mod 64))
                     (if sb =? last then wnot (h_hmask h) else 0%N)).
  { destruct (sb =? last), (co mod 64 =? 0); cbn [negb]; now rewrite ?N.lor_0_r. }
  rewrite EK. apply bind_ext. intros m1.
  destruct (Nat.ltb_spec sb last) as [Hlt|Hge].
  - replace (W - (sb + 1)) with ((last - (sb + 1)) + 1) by (subst last; lia).
    rewrite seq_app, forM_app. replace (sb + 1 + (last - (sb + 1))) with last by lia.
    rewrite (forM_ext (fun i m => wr m (tr + i) 0%N)
               (fun i m => t0 <- rd m (tr + i) ;; wr m (tr + i) (N.land t0 (if i =? last then wnot (h_hmask h) else 0%N)))).
    2:{ intros k m Hk. rewrite in_seq in Hk. destruct (Nat.eqb_spec k last); [lia|]. now rewrite rd_wr_zero. }
    apply bind_ext. intros m2. cbn [seq forM]. rewrite Nat.eqb_refl. now rewrite bind_ret.
  - replace (last - (sb + 1)) with 0 by lia. replace (W - (sb + 1)) with 0 by (subst last; lia). reflexivity.
Qed.

Lemma bind_assoc {A B C} (x : res A) (f : A -> res B) (g : B -> res C) :
  bind (bind x f) g = bind x (fun a => bind (f a) g).
Proof. now destruct x. Qed.

Lemma lor_loop_peel mem row e :
  forM (seq 0 e) (fun j t => x <- rd mem (row + j) ;; Ok (N.lor t x)) 0%N =
  (tmp <- (if e =? 0 then Ok 0%N else rd mem row) ;;
   forM (seq 1 (e - 1)) (fun j t => x <- rd mem (row + j) ;; Ok (N.lor t x)) tmp).
Proof.
  destruct e as [|e]; [reflexivity|]. destruct (Nat.eqb_spec (S e) 0); [lia|]. replace (S e - 1) with e by lia.
  cbn [seq forM]. rewrite Nat.add_0_r. destruct (rd mem row) as [x|]; cbn [bind]; [|reflexivity].
  now rewrite N.lor_0_l.
Qed.

Theorem w2_first_zero_row_eq hA mem : w2_first_zero_row hA mem = w_first_zero_row_fixed hA mem.
Proof.
  unfold w2_first_zero_row, w_first_zero_row_fixed.
  destruct ((h_width hA =? 0) && negb (h_nrows hA =? 0)); [reflexivity|].
  f_equal. apply firstM_ext. intros i _. rewrite lor_loop_peel, bind_assoc. reflexivity.
Qed.

Lemma w2_copy_row_masked_eq hD di hS si mem : 0 < h_width hS ->
  w2_copy_row_masked hD di hS si mem = w_copy_words_masked hD di hS si mem.
Proof.
  intros HW. unfold w2_copy_row_masked, w_copy_words_masked.
  destruct (h_width hS) as [|w]; [lia|]. destruct (Nat.eqb_spec (S w) 0); [lia|].
  replace (S w - 1) with w by lia. reflexivity.
Qed.

Theorem w2_concat_eq hC hA hB mem : 0 < h_width hA -> w2_concat hC hA hB mem = w_concat_fixed hC hA hB mem.
Proof.
  intros HW. unfold w2_concat, w_concat_fixed.
  destruct (negb (h_nrows hA =? h_nrows hB)); [reflexivity|]. destruct (negb _); [reflexivity|].
  f_equal. apply forM_ext. intros k m _. now apply w2_copy_row_masked_eq.
Qed.

Theorem w2_stack_eq hC hA hB mem : 0 < h_width hA -> 0 < h_width hB ->
  w2_stack hC hA hB mem = w_stack_fixed hC hA hB mem.
Proof.
  intros HA HB. unfold w2_stack, w_stack_fixed.
  destruct (negb (h_ncols hA =? h_ncols hB)); [reflexivity|]. destruct (negb _); [reflexivity|].
  rewrite (forM_ext (fun i m => w2_copy_row_masked hC i hA i m) (fun i m => w_copy_words_masked hC i hA i m))
    by (intros; now apply w2_copy_row_masked_eq).
  apply bind_ext. intros m1. apply forM_ext. intros k m _. now apply w2_copy_row_masked_eq.
Qed.

Theorem w2_submatrix_eq hS hM sr sc er ec mem :
  w2_submatrix hS hM sr sc er ec mem = w_submatrix_fixed hS hM sr sc er ec mem.
Proof.
  unfold w2_submatrix, w_submatrix_fixed, w_submatrix.
  destruct ((h_nrows hS <? er - sr) || (h_ncols hS <? ec - sc)); [reflexivity|].
  destruct (sc mod 64 =? 0); reflexivity.
Qed.

Theorem w2_extract_u_eq hU hA mem : w2_extract_u hU hA mem = w_extract_u_fx hU hA mem.
Proof. unfold w2_extract_u, w_extract_u_fx. now rewrite w2_submatrix_eq. Qed.

(* ------------------------------------------------------------------------------------------ *)
(** * the inherited theorems, restated for the models of the current C text *)

Theorem w2_row_clear_offset_ok h mem r co :
  valid h mem -> r < h_nrows h -> co < h_ncols h ->
  exists m', w2_row_clear_offset h r co mem = Ok m' /\ length m' = length mem /\ mem_ok m' /\
    touched h r co (h_ncols h) mem m' /\
    forall j, N.testbit (rowval h m' r) (N.of_nat j) = N.testbit (rowval h mem r) (N.of_nat j) && (j <? co).
Proof.
  intros Hv Hr Hco. rewrite w2_row_clear_offset_eq.
  - now apply w_row_clear_offset_fixed2_ok.
  - apply width_pos_of_ncols; [now apply (valid_hdr_ok h mem)|lia].
Qed.

Theorem w2_row_clear_offset_refines h mem r co :
  valid h mem -> r < h_nrows h -> co < h_ncols h ->
  exists m', w2_row_clear_offset h r co mem = Ok m' /\ length m' = length mem /\ mem_ok m' /\
    abs h m' = row_clear_offset (abs h mem) r co /\ outside h mem m'.
Proof.
  intros Hv Hr Hco. rewrite w2_row_clear_offset_eq.
  - now apply w_row_clear_offset_fixed2_refines.
  - apply width_pos_of_ncols; [now apply (valid_hdr_ok h mem)|lia].
Qed.

Theorem w2_first_zero_row_ok hA mem : valid hA mem -> 0 < h_ncols hA ->
  w2_first_zero_row hA mem = Ok (first_zero_row (abs hA mem)).
Proof. intros. rewrite w2_first_zero_row_eq. now apply w_first_zero_row_fixed_ok. Qed.

Theorem w2_concat_ok hC hA hB mem :
  valid hC mem -> valid hA mem -> valid hB mem -> 0 < h_ncols hA ->
  h_nrows hA = h_nrows hC -> h_nrows hB = h_nrows hC -> h_ncols hC = h_ncols hA + h_ncols hB ->
  wdisjoint hC hA -> wdisjoint hC hB ->
  exists m', w2_concat hC hA hB mem = Ok m' /\ length m' = length mem /\ mem_ok m' /\
    abs hC m' = mconcat (abs hA mem) (abs hB mem) /\ outside hC mem m'.
Proof.
  intros HvC HvA HvB Hc. intros. rewrite w2_concat_eq.
  - now apply w_concat_fixed_ok.
  - apply width_pos_of_ncols; [now apply (valid_hdr_ok hA mem)|assumption].
Qed.

Theorem w2_stack_ok hC hA hB mem :
  valid hC mem -> valid hA mem -> valid hB mem -> 0 < h_ncols hC ->
  h_ncols hA = h_ncols hC -> h_ncols hB = h_ncols hC -> h_nrows hC = h_nrows hA + h_nrows hB ->
  wdisjoint hC hA -> wdisjoint hC hB ->
  exists m', w2_stack hC hA hB mem = Ok m' /\ length m' = length mem /\ mem_ok m' /\
    abs hC m' = mstack (abs hA mem) (abs hB mem) /\ outside hC mem m'.
Proof.
  intros HvC HvA HvB Hc EA EB. intros. rewrite w2_stack_eq.
  - now apply w_stack_fixed_ok.
  - apply width_pos_of_ncols; [now apply (valid_hdr_ok hA mem)|lia].
  - apply width_pos_of_ncols; [now apply (valid_hdr_ok hB mem)|lia].
Qed.

Theorem w2_submatrix_ok hS hM sr sc er ec mem :
  valid hS mem -> valid hM mem -> h_nrows hS = er - sr -> h_ncols hS = ec - sc ->
  sr <= er -> er <= h_nrows hM -> ec <= h_ncols hM -> sc < ec -> wdisjoint hS hM ->
  exists m', w2_submatrix hS hM sr sc er ec mem = Ok m' /\ length m' = length mem /\ mem_ok m' /\
    abs hS m' = msub (abs hM mem) sr sc (er - sr) (ec - sc) /\ outside hS mem m'.
Proof. intros. rewrite w2_submatrix_eq. now apply w_submatrix_fixed_ok. Qed.

Theorem w2_extract_u_ok hU hA mem :
  let k := Nat.min (h_nrows hA) (h_ncols hA) in
  valid hU mem -> valid hA mem -> 0 < k -> h_nrows hU = k -> h_ncols hU = k -> wdisjoint hU hA ->
  exists m', w2_extract_u hU hA mem = Ok m' /\ length m' = length mem /\ mem_ok m' /\
    abs hU m' = extract_u (abs hA mem) /\ outside hU mem m'.
Proof. intros k **. rewrite w2_extract_u_eq. now apply w_extract_u_fx_ok. Qed.

(** NULL destinations *)
Theorem w2_submatrix_fresh_ok hM sr sc er ec mem :
  valid hM mem -> sr <= er -> er <= h_nrows hM -> ec <= h_ncols hM -> sc < ec ->
  exists m' hS, w2_submatrix_fresh hM sr sc er ec mem = Ok (m', hS) /\
    fresh_post mem (msub (abs hM mem) sr sc (er - sr) (ec - sc)) m' hS.
Proof.
  intros. destruct (w_submatrix_fixed_fresh_ok hM sr sc er ec mem) as (m' & hS & E & P); auto.
  exists m', hS. split; [|exact P]. rewrite <- E. unfold w2_submatrix_fresh, w_submatrix_fixed_fresh.
  destruct (w_alloc mem (er - sr) (ec - sc)). now rewrite w2_submatrix_eq.
Qed.

Theorem w2_concat_fresh_ok hA hB mem :
  valid hA mem -> valid hB mem -> 0 < h_ncols hA -> h_nrows hA = h_nrows hB ->
  exists m' hC, w2_concat_fresh hA hB mem = Ok (m', hC) /\
    fresh_post mem (mconcat (abs hA mem) (abs hB mem)) m' hC.
Proof.
  intros HvA HvB Hc Er. destruct (w_concat_fixed_fresh_ok hA hB mem) as (m' & hC & E & P); auto.
  exists m', hC. split; [|exact P]. rewrite <- E. unfold w2_concat_fresh, w_concat_fixed_fresh.
  destruct (negb _); [reflexivity|]. destruct (w_alloc mem _ _). rewrite w2_concat_eq; [reflexivity|].
  apply width_pos_of_ncols; [now apply (valid_hdr_ok hA mem)|assumption].
Qed.

Theorem w2_stack_fresh_ok hA hB mem :
  valid hA mem -> valid hB mem -> 0 < h_ncols hA -> h_ncols hA = h_ncols hB ->
  exists m' hC, w2_stack_fresh hA hB mem = Ok (m', hC) /\
    fresh_post mem (mstack (abs hA mem) (abs hB mem)) m' hC.
Proof.
  intros HvA HvB Hc Ec. destruct (w_stack_fixed_fresh_ok hA hB mem) as (m' & hC & E & P); auto.
  exists m', hC. split; [|exact P]. rewrite <- E. unfold w2_stack_fresh, w_stack_fixed_fresh.
  destruct (negb _); [reflexivity|]. destruct (w_alloc mem _ _). rewrite w2_stack_eq; [reflexivity| |].
  - apply width_pos_of_ncols; [now apply (valid_hdr_ok hA mem)|assumption].
  - apply width_pos_of_ncols; [now apply (valid_hdr_ok hB mem)|lia].
Qed.

Theorem w2_extract_u_fresh_ok hA mem : valid hA mem -> 0 < Nat.min (h_nrows hA) (h_ncols hA) ->
  exists m' hU, w2_extract_u_fresh hA mem = Ok (m', hU) /\ fresh_post mem (extract_u (abs hA mem)) m' hU.
Proof.
  intros HvA Hk. destruct (w_extract_u_fx_fresh_ok hA mem HvA Hk) as (m' & hU & E & P).
  exists m', hU. split; [|exact P]. rewrite <- E. unfold w2_extract_u_fresh, w_extract_u_fx_fresh.
  destruct (w_alloc mem _ _). now rewrite w2_extract_u_eq.
Qed.

(* ------------------------------------------------------------------------------------------ *)
(** * (b1) mzd_extract_l, repaired: the column-chunk loop through mzd_clear_bits *)

(** the loop [for (j = j0; j < ncols; j += 64 - j % 64) mzd_clear_bits(L, i, j, MIN(64 - j % 64, ncols - j))]
    clears exactly the columns [j0, ncols) of row i *)
Lemma w2_clear_from_ok fuel : forall hL i j mem, valid hL mem -> i < h_nrows hL ->
  h_width hL <= j / 64 + fuel ->
  exists m', w2_clear_from fuel hL i j mem = Ok m' /\ length m' = length mem /\ mem_ok m' /\
    touched hL i j (h_ncols hL) mem m' /\
    forall jj, N.testbit (rowval hL m' i) (N.of_nat jj) =
               N.testbit (rowval hL mem i) (N.of_nat jj) && (jj <? j).
Proof.
  induction fuel as [|f IH]; intros hL i j mem Hv Hi Hf;
    pose proof (valid_hdr_ok _ _ Hv) as Hok; pose proof (valid_mem_ok _ _ Hv) as Hm;
    pose proof (ncols_width hL Hok) as HcW.
  - cbn [w2_clear_from]. destruct (Nat.leb_spec (h_ncols hL) j) as [Hj|Hj]; [|lia].
    exists mem. split; [reflexivity|]. split; [reflexivity|]. split; [assumption|]. split; [apply touched_refl|].
    intros jj. destruct (Nat.ltb_spec jj j); [now rewrite andb_true_r|].
    rewrite rowval_bounded by lia. reflexivity.
  - cbn [w2_clear_from]. destruct (Nat.leb_spec (h_ncols hL) j) as [Hj|Hj].
    + exists mem. split; [reflexivity|]. split; [reflexivity|]. split; [assumption|]. split; [apply touched_refl|].
      intros jj. destruct (Nat.ltb_spec jj j); [now rewrite andb_true_r|].
      rewrite rowval_bounded by lia. reflexivity.
    + set (n := Nat.min (64 - j mod 64) (h_ncols hL - j)).
      destruct (w_clear_bits_ok hL mem i j n Hv Hi ltac:(subst n; lia) ltac:(subst n; lia))
        as (m1 & E1 & L1 & O1 & T1 & B1).
      rewrite E1. cbn [bind].
      assert (Hv1 : valid hL m1) by (eapply valid_same_length; eassumption).
      destruct (IH hL i (j + (64 - j mod 64)) m1 Hv1 Hi) as (m' & E & L' & O' & T' & B').
      { replace ((j + (64 - j mod 64)) / 64) with (j / 64 + 1) by lia. lia. }
      exists m'. split; [exact E|]. split; [congruence|]. split; [assumption|]. split.
      * apply (touched_trans hL i j (h_ncols hL) mem m1 m').
        -- apply (touched_weaken hL i j (j + n)); [lia|subst n; lia|assumption].
        -- apply (touched_weaken hL i (j + (64 - j mod 64)) (h_ncols hL)); [lia|lia|assumption].
      * intros jj. rewrite B', B1. rewrite <- andb_assoc.
        destruct (Nat.lt_ge_cases jj (h_ncols hL)) as [Hjj|Hjj].
        2:{ rewrite rowval_bounded by lia. reflexivity. }
        f_equal.
        destruct (Nat.leb_spec j jj), (Nat.ltb_spec jj (j + n)), (Nat.ltb_spec jj (j + (64 - j mod 64))),
          (Nat.ltb_spec jj j); cbn [negb andb]; try reflexivity; subst n; lia.
Qed.

Lemma extract_l2_tail hL m0 : valid hL m0 -> h_nrows hL = h_ncols hL ->
  exists m', forM (seq 0 (h_nrows hL - 1)) (fun i m => w2_clear_from (h_width hL) hL i (i + 1) m) m0 = Ok m' /\
    length m' = length m0 /\ mem_ok m' /\ outside hL m0 m' /\
    abs hL m' = map_rows (fun i r => N.land r (N.ones (N.of_nat (S i)))) (abs hL m0).
Proof.
  intros Hv Hsq. pose proof (valid_hdr_ok _ _ Hv) as Hok. pose proof (valid_mem_ok _ _ Hv) as Hm.
  destruct (rows_loop hL 0 0 (h_nrows hL - 1) 0 (h_ncols hL)
     (fun k => N.land (rowval hL m0 k) (N.ones (N.of_nat (k + 1))))
     (fun i m => w2_clear_from (h_width hL) hL i (i + 1) m) m0 Hok
     ltac:(lia) ltac:(lia) Hm) as (m' & E & L & O & Out & Done & Rest).
  - intros k m Hk Lm Om Outm Restm. cbn [Nat.add] in *.
    destruct (w2_clear_from_ok (h_width hL) hL k (k + 1) m) as (m' & E & L' & O' & T & B);
      try (eapply valid_same_length; eassumption); try lia.
    exists m'. split; [exact E|]. split; [assumption|]. split.
    + apply (touched_weaken hL k (k + 1) (h_ncols hL)); [lia|lia|assumption].
    + apply bits_ext_nat. intros jj. rewrite B, N.land_spec, testbit_ones_nat, Restm by lia. reflexivity.
  - exists m'. split; [exact E|]. do 3 (split; [assumption|]).
    apply abs_rows_ext; try reflexivity.
    + now rewrite rows_map_rows_length, rows_abs_length.
    + intros i Hi. rewrite row_map_rows by now rewrite rows_abs_length. rewrite row_abs by assumption.
      cbn [Nat.add] in *. destruct (Nat.lt_ge_cases i (h_nrows hL - 1)) as [Hlt|Hge].
      * rewrite (Done i) by lia. now replace (i + 1) with (S i) by lia.
      * rewrite Rest by lia. apply bits_ext_nat. intros j. rewrite N.land_spec, testbit_ones_nat.
        destruct (Nat.ltb_spec j (S i)); [now rewrite andb_true_r|].
        rewrite rowval_bounded by lia. reflexivity.
Qed.

(** mzd_extract_l into a supplied destination: refinement and UNCONDITIONAL frame — no bit beyond the
    last column of L is touched, whatever the destination is a window of (repaired F17) *)
Theorem w2_extract_l_ok hL hA mem :
  let k := Nat.min (h_nrows hA) (h_ncols hA) in
  valid hL mem -> valid hA mem -> 0 < k -> h_nrows hL = k -> h_ncols hL = k -> wdisjoint hL hA ->
  exists m', w2_extract_l hL hA mem = Ok m' /\ length m' = length mem /\ mem_ok m' /\
    abs hL m' = extract_l (abs hA mem) /\ outside hL mem m'.
Proof.
  intros k HvL HvA Hk Hr Hc Dj. unfold w2_extract_l. fold k.
  destruct (w2_submatrix_ok hL hA 0 0 k k mem) as (m0 & E0 & L0 & O0 & A0 & Out0); auto; try (subst k; lia).
  rewrite Nat.sub_0_r in A0. rewrite E0. cbn [bind].
  destruct (extract_l2_tail hL m0) as (m' & E & L & O & Out & A).
  - eapply valid_same_length; eassumption.
  - lia.
  - exists m'. split; [exact E|]. split; [congruence|]. split; [assumption|]. split.
    + rewrite A, A0. reflexivity.
    + eapply outside_trans; eassumption.
Qed.

Theorem w2_extract_l_fresh_ok hA mem : valid hA mem -> 0 < Nat.min (h_nrows hA) (h_ncols hA) ->
  exists m' hL, w2_extract_l_fresh hA mem = Ok (m', hL) /\ fresh_post mem (extract_l (abs hA mem)) m' hL.
Proof.
  intros HvA Hk. pose proof (valid_mem_ok _ _ HvA) as Hm. set (k := Nat.min (h_nrows hA) (h_ncols hA)) in *.
  destruct (fresh_generic (fun hL m => w2_extract_l hL hA m) [hA] k k mem (extract_l (abs hA mem)) Hm)
    as (m' & E & P).
  - intros h [<- |[]]. assumption.
  - intros hL mem0 HvL Hr Hc Pad Hs. destruct (Hs hA (or_introl eq_refl)) as (HvA0 & Dj & AA).
    rewrite <- AA. destruct (w2_extract_l_ok hL hA mem0) as (m' & E & L & O & A & F); auto.
    exists m'. auto.
  - unfold w2_extract_l_fresh. fold k. destruct (w_alloc mem k k) as [mem0 hL]. cbn [fst snd] in *.
    rewrite E. cbn [bind]. eauto.
Qed.

(* ------------------------------------------------------------------------------------------ *)
(** * (b2) mzd_row_add_offset, repaired: ALL dstrow, srcrow (dstrow = srcrow included) *)
Theorem w2_row_add_offset_ok h mem dst src co :
  valid h mem -> dst < h_nrows h -> src < h_nrows h -> co < h_ncols h ->
  exists m', w2_row_add_offset h dst src co mem = Ok m' /\ length m' = length mem /\ mem_ok m' /\
    touched h dst co (h_ncols h) mem m' /\
    forall j, N.testbit (rowval h m' dst) (N.of_nat j) =
      xorb (N.testbit (rowval h mem dst) (N.of_nat j)) ((co <=? j) && N.testbit (rowval h mem src) (N.of_nat j)).
Proof.
  intros Hv Hd Hs Hco. pose proof (valid_hdr_ok _ _ Hv) as Hok. pose proof (valid_mem_ok _ _ Hv) as Hm.
  pose proof Hok as [HW [_ Hrs]].
  set (W := h_width h). set (sb := co / 64). set (rd_ := row_addr h dst). set (rs := row_addr h src).
  assert (Hsb : sb < W) by (subst sb W; rewrite HW; lia).
  assert (Hdw : forall k, k < W -> rd_ + k < length mem) by (intros; now apply valid_word).
  assert (Hsw : forall k, k < W -> rs + k < length mem) by (intros; now apply valid_word).
  assert (Hsep : rs = rd_ \/ rd_ + W <= rs \/ rs + W <= rd_).
  { destruct (alias_rows h h dst src (or_introl eq_refl) Hok Hok Hd Hs) as [[_ E]|S]; [left; subst rs rd_; now rewrite E|].
    unfold sep in S. subst rd_ rs W. lia. }
  pose proof (Hdw (W - 1) ltac:(lia)). pose proof (Hsw (W - 1) ltac:(lia)).
  unfold w2_row_add_offset. destruct (Nat.leb_spec (h_ncols h) co); [lia|].
  fold W sb rd_ rs. set (wide := W - sb - 1).
  replace (rs + sb + (W - sb) - 1) with (rs + (W - 1)) by lia.
  rewrite !rd_ok by lia. cbn [bind]. rewrite wr_ok by lia. cbn [bind].
  set (v0 := N.lxor (word_at mem (rd_ + sb)) (N.land (word_at mem (rs + sb)) (right_bitmask (64 - co mod 64)))).
  set (m0 := upd (rd_ + sb) (trunc v0) mem).
  assert (L0 : length m0 = length mem) by (unfold m0; now rewrite upd_length).
  assert (O0 : mem_ok m0) by (unfold m0; now apply mem_ok_upd).
  assert (D0 : desc m0 (stored (rd_ + sb) 0 1 (fun _ => v0) mem)).
  { intros p. unfold m0. rewrite word_at_upd by lia. unfold stored.
    destruct (Nat.eqb_spec p (rd_ + sb)) as [-> |]; wsolve. }
  replace (W - sb - 1) with wide by reflexivity.
  set (f := fun i => N.lxor (word_at mem (rd_ + sb + 1 + i)) (word_at mem (rs + sb + 1 + i))).
  destruct (forM_store (rd_ + sb + 1) 0 wide f
      (fun i m => s <- rd m (rs + sb + 1 + i) ;; d <- rd m (rd_ + sb + 1 + i) ;;
                  wr m (rd_ + sb + 1 + i) (N.lxor d s)) m0 O0 ltac:(subst wide; lia))
    as (m1 & E1 & L1 & O1 & D1).
  { intros i m Hi Lm Om Dm. subst wide. rewrite !rd_ok by lia. cbn [bind].
    rewrite !Dm, !stored_out by lia. unfold m0. rewrite !word_at_upd_neq by lia. reflexivity. }
  rewrite E1. cbn [bind]. cbn [Nat.add] in D1.
  replace (rd_ + sb + 1 + wide - 1) with (rd_ + sb + (W - sb - 1)) by (subst wide; lia).
  (* the whole destination row in normal form *)
  assert (D1' : desc m1 (stored (rd_ + sb) 0 (W - sb) (fun k => if k <? 1 then v0 else f (k - 1)) mem)).
  { replace (W - sb) with (wide + 1) by (subst wide; lia).
    apply (desc_stored_stored (rd_ + sb) 0 1 (wide + 1) _ _ mem m0 m1); try lia; [exact D0|].
    apply (desc_shift (rd_ + sb) 1 0 wide f m0 m1). exact D1. }
  rewrite !rd_ok by lia. cbn [bind]. rewrite wr_ok by lia.
  set (dl := word_at m1 (rd_ + sb + (W - sb - 1))).
  pose proof (stored_upd (rd_ + sb) 0 (W - sb) _ mem m1 (W - sb - 1)
     (N.lxor dl (N.land (word_at mem (rs + (W - 1))) (wnot (h_hmask h)))) ltac:(lia) ltac:(lia) D1') as D2.
  replace (Nat.max (W - sb) (S (W - sb - 1))) with (W - sb) in D2 by lia.
  set (m2 := upd _ _ m1) in *. assert (L2 : length m2 = length mem) by (unfold m2; rewrite upd_length; congruence).
  exists m2. split; [reflexivity|]. split; [assumption|]. split; [unfold m2; now apply mem_ok_upd|].
  assert (Hc0 : 0 < h_ncols h) by lia.
  assert (Edl : dl = trunc (if W - sb - 1 <? 1 then v0 else f (W - sb - 1 - 1))).
  { unfold dl. rewrite D1', stored_in by lia. cbn beta.
    replace (rd_ + sb + (W - sb - 1) - (rd_ + sb)) with (W - sb - 1) by lia. reflexivity. }
  (* bit b of the new word sb + k of the destination row *)
  assert (Bits : forall k b, k < W - sb -> b < 64 ->
     N.testbit (if k =? W - sb - 1 then N.lxor dl (N.land (word_at mem (rs + (W - 1))) (wnot (h_hmask h)))
                else if k <? 1 then v0 else f (k - 1)) (N.of_nat b) =
     xorb (N.testbit (word_at mem (rd_ + (sb + k))) (N.of_nat b))
          ((co <=? 64 * (sb + k) + b) && (64 * (sb + k) + b <? h_ncols h) &&
           N.testbit (word_at mem (rs + (sb + k))) (N.of_nat b))).
  { intros k b Hk Hb.
    assert (TB : N.testbit (right_bitmask (64 - co mod 64)) (N.of_nat b) = (co <=? 64 * sb + b)).
    { rewrite testbit_right_bitmask. subst sb.
      destruct (Nat.leb_spec (64 - (64 - co mod 64)) b), (Nat.ltb_spec b 64), (Nat.leb_spec co (64 * (co / 64) + b));
        try reflexivity; lia. }
    destruct (Nat.eqb_spec k (W - sb - 1)) as [Ek|Ek].
    - rewrite N.lxor_spec, N.land_spec, testbit_wnot, testbit_hmask' by assumption. fold W.
      destruct (Nat.ltb_spec b 64); [|lia]. cbn [andb]. rewrite Edl, testbit_trunc_lt by assumption.
      replace (rs + (W - 1)) with (rs + (sb + k)) by lia.
      replace (64 * (W - 1) + b) with (64 * (sb + k) + b) by lia.
      destruct (Nat.ltb_spec (W - sb - 1) 1) as [Hk1|Hk1].
      + assert (Hk0 : k = 0) by lia. assert (HWsb : W - 1 = sb) by lia. clear Ek. subst k.
        unfold v0. rewrite N.lxor_spec, N.land_spec, TB, !Nat.add_0_r.
        destruct (Nat.leb_spec co (64 * sb + b)), (Nat.ltb_spec (64 * sb + b) (h_ncols h)); cbn [negb andb];
          rewrite ?andb_true_r, ?andb_false_r, ?xorb_false_r; try reflexivity.
        * now destruct (N.testbit (word_at mem (rd_ + sb)) _), (N.testbit (word_at mem (rs + sb)) _).
        * lia.
      + unfold f. rewrite N.lxor_spec.
        replace (rd_ + sb + 1 + (W - sb - 1 - 1)) with (rd_ + (sb + k)) by lia.
        replace (rs + sb + 1 + (W - sb - 1 - 1)) with (rs + (sb + k)) by lia.
        destruct (Nat.leb_spec co (64 * (sb + k) + b)); [|subst sb; lia]. cbn [andb].
        destruct (Nat.ltb_spec (64 * (sb + k) + b) (h_ncols h)); cbn [negb andb];
          rewrite ?andb_true_r, ?andb_false_r, ?xorb_false_r; [reflexivity|].
        now destruct (N.testbit (word_at mem (rd_ + (sb + k))) _), (N.testbit (word_at mem (rs + (sb + k))) _).
    - pose proof (full_word_in h (sb + k) b Hok ltac:(fold W; lia) Hb).
      destruct (Nat.ltb_spec (64 * (sb + k) + b) (h_ncols h)); [|lia]. rewrite andb_true_r.
      destruct (Nat.ltb_spec k 1) as [Hk1|Hk1].
      + assert (k = 0) by lia. subst k. unfold v0. rewrite N.lxor_spec, N.land_spec, TB, !Nat.add_0_r.
        now rewrite andb_comm.
      + unfold f. rewrite N.lxor_spec.
        replace (rd_ + sb + 1 + (k - 1)) with (rd_ + (sb + k)) by lia.
        replace (rs + sb + 1 + (k - 1)) with (rs + (sb + k)) by lia.
        destruct (Nat.leb_spec co (64 * (sb + k) + b)); [reflexivity|subst sb; lia]. }
  destruct (row_kernel h dst sb (W - sb) co (h_ncols h) _ mem m2 Hok ltac:(fold W; lia) L2 D2) as [T B].
  { intros k b Hk Hb Hn. cbn beta. rewrite Bits by assumption. fold rd_.
    destruct (Nat.leb_spec co (64 * (sb + k) + b)), (Nat.ltb_spec (64 * (sb + k) + b) (h_ncols h)); cbn [andb];
      try apply xorb_false_r. lia. }
  split; [exact T|]. intros j.
  destruct (Nat.lt_ge_cases j (h_ncols h)) as [Hj|Hj].
  2:{ rewrite !rowval_bounded by lia. now rewrite andb_false_r. }
  rewrite B by assumption. pose proof (width_pos h j Hok Hj) as Hjw. fold W in Hjw.
  destruct (Nat.leb_spec sb (j / 64)); cbn [andb].
  - destruct (Nat.ltb_spec (j / 64) (sb + (W - sb))); [|lia].
    rewrite Bits by lia. fold rd_. replace (sb + (j / 64 - sb)) with (j / 64) by lia.
    replace (64 * (j / 64) + j mod 64) with j by lia.
    rewrite <- !rowval_bit by assumption. unfold bit. fold rd_ rs.
    destruct (Nat.ltb_spec j (h_ncols h)); [|lia]. now rewrite andb_true_r.
  - destruct (Nat.leb_spec co j); [subst sb; lia|]. cbn [andb]. now rewrite xorb_false_r.
Qed.

(** refinement + frame, for all dstrow / srcrow *)
Corollary w2_row_add_offset_refines h mem dst src co :
  valid h mem -> dst < h_nrows h -> src < h_nrows h -> co < h_ncols h ->
  exists m', w2_row_add_offset h dst src co mem = Ok m' /\ length m' = length mem /\ mem_ok m' /\
    abs h m' = row_add_offset (abs h mem) dst src co /\ outside h mem m'.
Proof.
  intros Hv Hd Hs Hco. pose proof (valid_hdr_ok _ _ Hv) as Hok.
  destruct (w2_row_add_offset_ok h mem dst src co Hv Hd Hs Hco) as (m' & E & L & O & T & B).
  exists m'. do 3 (split; [assumption|]). split.
  - rewrite (touched_abs h dst co (h_ncols h) mem m') by auto. unfold row_add_offset. f_equal.
    rewrite !row_abs by assumption. rewrite nc_abs. apply bits_ext_nat. intros j.
    rewrite B, N.lxor_spec, N.land_spec, OpsProofs.testbit_colmask. f_equal.
    destruct (Nat.ltb_spec j (h_ncols h)); [now rewrite andb_true_r, andb_comm|].
    rewrite rowval_bounded by lia. now rewrite !andb_false_r.
  - now apply (touched_outside h dst co (h_ncols h)).
Qed.

(** dstrow = srcrow (mzd_row_add(M, i, i)): the row is cleared from coloffset on, the columns before
    it, every other row and every bit outside the view — incl. the bits sharing the last word — are
    unchanged (repaired F18; the pinned code is [w_row_add_offset_same_row_frame_refuted]) *)
Theorem w2_row_add_offset_same_row h mem r co :
  valid h mem -> r < h_nrows h -> co < h_ncols h ->
  exists m', w2_row_add_offset h r r co mem = Ok m' /\ length m' = length mem /\ mem_ok m' /\
    (forall j, N.testbit (rowval h m' r) (N.of_nat j) = N.testbit (rowval h mem r) (N.of_nat j) && (j <? co)) /\
    (forall j, co <= j -> get (abs h m') r j = false) /\
    abs h m' = row_clear_offset (abs h mem) r co /\
    touched h r co (h_ncols h) mem m' /\ outside h mem m'.
Proof.
  intros Hv Hr Hco. pose proof (valid_hdr_ok _ _ Hv) as Hok.
  destruct (w2_row_add_offset_ok h mem r r co Hv Hr Hr Hco) as (m' & E & L & O & T & B).
  assert (B' : forall j, N.testbit (rowval h m' r) (N.of_nat j) = N.testbit (rowval h mem r) (N.of_nat j) && (j <? co)).
  { intros j. rewrite B. destruct (Nat.leb_spec co j), (Nat.ltb_spec j co); try lia; cbn [andb].
    - now rewrite xorb_nilpotent, andb_false_r.
    - now rewrite xorb_false_r, andb_true_r. }
  exists m'. do 3 (split; [assumption|]). split; [exact B'|]. split; [|split; [|split; [exact T|]]].
  - intros j Hj. rewrite get_abs_rowval by assumption. rewrite B'.
    destruct (Nat.ltb_spec j co); [lia|apply andb_false_r].
  - rewrite (touched_abs h r co (h_ncols h) mem m') by auto. unfold row_clear_offset. f_equal.
    rewrite !row_abs by assumption. apply bits_ext_nat. intros j. now rewrite B', N.land_spec, testbit_ones_nat.
  - now apply (touched_outside h r co (h_ncols h)).
Qed.

(** for distinct rows the repaired code and the pinned model compute the same memory *)
Theorem w2_row_add_offset_eq h mem dst src co :
  valid h mem -> dst < h_nrows h -> src < h_nrows h -> dst <> src -> co < h_ncols h ->
  w2_row_add_offset h dst src co mem = w_row_add_offset h dst src co mem.
Proof.
  intros Hv Hd Hs Hne Hco. pose proof (valid_hdr_ok _ _ Hv) as Hok. pose proof (valid_mem_ok _ _ Hv) as Hm.
  destruct (w2_row_add_offset_ok h mem dst src co Hv Hd Hs Hco) as (m2 & E2 & L2 & O2 & T2 & B2).
  destruct (w_row_add_offset_ok h mem dst src co Hv Hd Hs Hne Hco) as (m1 & E1 & L1 & O1 & T1 & B1).
  rewrite E1, E2. f_equal. apply (list_ext_nth 0%N); [congruence|]. intros p _.
  change (word_at m2 p = word_at m1 p). apply word_ext; [now apply mem_ok_word|now apply mem_ok_word|].
  intros b Hb. destruct T1 as [_ T1], T2 as [_ T2]. fold (bit m2 p b) (bit m1 p b).
  destruct (Nat.le_gt_cases (row_addr h dst) p) as [Hp|Hp].
  2:{ rewrite T1, T2; auto; intros k -> ; lia. }
  set (k := p - row_addr h dst).
  destruct (Nat.lt_ge_cases (64 * k + b) (h_ncols h)) as [Hin|Hout].
  - set (j := 64 * k + b) in *.
    replace (bit m2 p b) with (bit m2 (row_addr h dst + j / 64) (j mod 64)) by (f_equal; subst j k; lia).
    replace (bit m1 p b) with (bit m1 (row_addr h dst + j / 64) (j mod 64)) by (f_equal; subst j k; lia).
    rewrite !rowval_bit by assumption. now rewrite B1, B2.
  - rewrite T1, T2; auto; intros k' -> ; subst k; intros; lia.
Qed.
