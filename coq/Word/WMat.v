(* Word/WMat.v — the word-level memory model of m4ri matrices (mzd_t) and its link to Lin/Mat.v.

   * memory   = ONE allocation, a [list N] of 64-bit words (each < 2^64, [mem_ok]);
   * a matrix = a header [hdr] (the fields of mzd_t, with the data pointer replaced by the word
                offset [h_off] of row 0 inside the allocation); windows are headers into the
                same allocation ([window_hdr] = mzd_init_window);
   * access   = checked: [rd]/[wr] return [Err OOB] outside the allocation; [wr] stores the value
                truncated to 64 bits (what a C store of a [word] does);
   * [abs h mem] = the viewed block as an abstract matrix of Lin/Mat.v;
   * [in_view h p b] : bit b of word p of the allocation belongs to the view;
     [outside h mem mem'] : every bit of the allocation not in the view is unchanged (frame);
     [padding_zero h mem] : bits of each row's last word beyond ncols are 0.

   Definitions come first (they are extracted), the basic lemmas follow. *)
From Coq Require Import List NArith Arith Lia Bool ZifyBool ZifyNat ZifyN ZArith.
From M4 Require Import Base.Bits Lin.Mat Lin.Ops.
Import ListNotations.
Local Open Scope nat_scope.
Ltac Zify.zify_post_hook ::= Z.div_mod_to_equations.

(* ------------------------------------------------------------------------------------------ *)
(** * Result monad *)
Inductive err := Die | OOB | UB | Fuel.
Inductive res (T : Type) : Type := Ok (x : T) | Err (e : err).
Arguments Ok {T} x.
Arguments Err {T} e.

Definition bind {A B} (x : res A) (f : A -> res B) : res B :=
  match x with Ok a => f a | Err e => Err e end.
Notation "x <- e ;; k" := (bind e (fun x => k)) (at level 61, e at next level, right associativity).

(** counted loop: the C [for] loops become a fold over [seq] *)
Fixpoint forM {S} (l : list nat) (body : nat -> S -> res S) (s : S) : res S :=
  match l with
  | [] => Ok s
  | i :: t => s' <- body i s ;; forM t body s'
  end.

(* ------------------------------------------------------------------------------------------ *)
(** * 64-bit words *)
Definition ffff : N := N.ones 64.                       (* m4ri_ffff *)
Definition trunc (x : N) : N := N.land x ffff.          (* value of a C [word] expression *)
Definition wnot (x : N) : N := N.ldiff ffff x.          (* ~x *)
(** shifts by a *checked* count: a count >= 64 is undefined behaviour in C *)
Definition shl64 (x : N) (n : nat) : res N :=
  if n <? 64 then Ok (trunc (N.shiftl x (N.of_nat n))) else Err UB.
Definition shr64 (x : N) (n : nat) : res N :=
  if n <? 64 then Ok (N.shiftr x (N.of_nat n)) else Err UB.
(** unchecked forms, used where the count is syntactically < 64 *)
Definition shl (x : N) (n : nat) : N := trunc (N.shiftl x (N.of_nat n)).
Definition shr (x : N) (n : nat) : N := N.shiftr x (N.of_nat n).

(** __M4RI_LEFT_BITMASK(n) = m4ri_ffff >> (m4ri_radix - n) % m4ri_radix    (0 <= n <= 64) *)
Definition left_bitmask (n : nat) : N := shr ffff ((64 - n) mod 64).
(** __M4RI_RIGHT_BITMASK(n) = m4ri_ffff << (m4ri_radix - n)               (1 <= n <= 64) *)
Definition right_bitmask (n : nat) : N := shl ffff (64 - n).

(* ------------------------------------------------------------------------------------------ *)
(** * Memory and checked access *)
Definition mem_ok (mem : list N) : Prop := Forall (fun w => (w < 2 ^ 64)%N) mem.
Definition mem_okb (mem : list N) : bool := forallb (fun w => (w <? 2 ^ 64)%N) mem.

Definition rd (mem : list N) (p : nat) : res N :=
  match nth_error mem p with Some w => Ok w | None => Err OOB end.
Definition wr (mem : list N) (p : nat) (v : N) : res (list N) :=
  if p <? length mem then Ok (upd p (trunc v) mem) else Err OOB.

(** unchecked views used in statements *)
Definition word_at (mem : list N) (p : nat) : N := nth p mem 0%N.
Definition bit (mem : list N) (p b : nat) : bool := N.testbit (word_at mem p) (N.of_nat b).

(* ------------------------------------------------------------------------------------------ *)
(** * Headers *)
Record hdr := mkHdr {
  h_nrows : nat; h_ncols : nat; h_width : nat; h_rowstride : nat;
  h_off : nat;            (* word offset of the first word of row 0 inside the allocation *)
  h_hmask : N;            (* high_bitmask *)
  h_windowed : bool       (* flags & mzd_flag_windowed *)
}.

Definition hdr_eqb (a b : hdr) : bool :=
  (h_nrows a =? h_nrows b) && (h_ncols a =? h_ncols b) && (h_width a =? h_width b) &&
  (h_rowstride a =? h_rowstride b) && (h_off a =? h_off b) && (h_hmask a =? h_hmask b)%N &&
  Bool.eqb (h_windowed a) (h_windowed b).

Definition row_addr (h : hdr) (i : nat) : nat := h_off h + i * h_rowstride h.   (* mzd_row *)

(** mzd_init(r, c), with the block placed at word offset [off] of the allocation *)
Definition init_hdr_at (off r c : nat) : hdr :=
  let width := (c + 64 - 1) / 64 in
  {| h_nrows := r; h_ncols := c; h_width := width;
     h_rowstride := if Nat.even width then width else width + 1;
     h_off := off; h_hmask := left_bitmask (c mod 64); h_windowed := false |}.
Definition init_hdr (r c : nat) : hdr := init_hdr_at 0 r c.
(** number of words mzd_init allocates (and clears) *)
Definition block_words (h : hdr) : nat := h_nrows h * h_rowstride h.

(** mzd_init_window(M, lowr, lowc, highr, highc)   (lowc a multiple of 64) *)
Definition window_hdr (h : hdr) (lowr lowc highr highc : nat) : hdr :=
  let nrows := Nat.min (highr - lowr) (h_nrows h - lowr) in
  let ncols := highc - lowc in
  {| h_nrows := nrows; h_ncols := ncols; h_width := (ncols + 64 - 1) / 64;
     h_rowstride := h_rowstride h;
     h_off := h_off h + lowr * h_rowstride h + lowc / 64;
     h_hmask := left_bitmask (ncols mod 64); h_windowed := true |}.

Definition owned (h : hdr) : bool := negb (h_windowed h).

(** well-formed header: derived fields agree with ncols, rows do not overlap *)
Definition hdr_ok (h : hdr) : Prop :=
  h_width h = (h_ncols h + 63) / 64 /\
  h_hmask h = left_bitmask (h_ncols h mod 64) /\
  h_width h <= h_rowstride h.
Definition hdr_okb (h : hdr) : bool :=
  (h_width h =? (h_ncols h + 63) / 64) && (h_hmask h =? left_bitmask (h_ncols h mod 64))%N &&
  (h_width h <=? h_rowstride h).

(** all words of all rows lie inside an allocation of [n] words *)
Definition fits (h : hdr) (n : nat) : Prop :=
  h_nrows h = 0 \/ h_width h = 0 \/ row_addr h (h_nrows h - 1) + h_width h <= n.
Definition fitsb (h : hdr) (n : nat) : bool :=
  (h_nrows h =? 0) || (h_width h =? 0) || (row_addr h (h_nrows h - 1) + h_width h <=? n).

Definition valid (h : hdr) (mem : list N) : Prop :=
  hdr_ok h /\ fits h (length mem) /\ mem_ok mem.
Definition validb (h : hdr) (mem : list N) : bool :=
  hdr_okb h && fitsb h (length mem) && mem_okb mem.

(* ------------------------------------------------------------------------------------------ *)
(** * Abstraction: the viewed block as a matrix of Lin/Mat.v *)
(** glue 64-bit words, least significant first *)
Fixpoint glue (ws : list N) : N :=
  match ws with
  | [] => 0%N
  | w :: t => N.lor (trunc w) (N.shiftl (glue t) 64)
  end.
Definition row_words (h : hdr) (mem : list N) (i : nat) : list N :=
  map (fun k => word_at mem (row_addr h i + k)) (seq 0 (h_width h)).
Definition rowval (h : hdr) (mem : list N) (i : nat) : N :=
  N.land (glue (row_words h mem i)) (N.ones (N.of_nat (h_ncols h))).
Definition abs (h : hdr) (mem : list N) : mat :=
  mk (h_nrows h) (h_ncols h) (map (rowval h mem) (seq 0 (h_nrows h))).

(* ------------------------------------------------------------------------------------------ *)
(** * Views, frame, padding *)
(** bit [b] of word [p] of the allocation is entry (i, j) of the view *)
Definition in_view (h : hdr) (p b : nat) : Prop :=
  exists i j, i < h_nrows h /\ j < h_ncols h /\ p = row_addr h i + j / 64 /\ b = j mod 64.
(** executable form (for hdr_ok headers with a positive rowstride) *)
Definition in_viewb (h : hdr) (p b : nat) : bool :=
  (h_off h <=? p) && (0 <? h_rowstride h) &&
  (let i := (p - h_off h) / h_rowstride h in
   let k := (p - h_off h) mod h_rowstride h in
   (i <? h_nrows h) && (64 * k + b <? h_ncols h)) && (b <? 64).

(** word [p] is one of the [width] words of a row of the view *)
Definition wview (h : hdr) (p : nat) : Prop :=
  exists i k, i < h_nrows h /\ k < h_width h /\ p = row_addr h i + k.

Definition same_shape (mem mem' : list N) : Prop :=
  length mem' = length mem /\ (mem_ok mem -> mem_ok mem').

(** frame: every bit of the allocation that is not in the view is unchanged *)
Definition outside (h : hdr) (mem mem' : list N) : Prop :=
  length mem' = length mem /\
  forall p b, b < 64 -> ~ in_view h p b -> bit mem' p b = bit mem p b.

(** excess bits of each row's last word are zero *)
Definition padding_zero (h : hdr) (mem : list N) : Prop :=
  forall i b, i < h_nrows h -> 0 < h_width h -> b < 64 -> h_ncols h <= 64 * (h_width h - 1) + b ->
    bit mem (row_addr h i + (h_width h - 1)) b = false.
Definition padding_zerob (h : hdr) (mem : list N) : bool :=
  (h_width h =? 0) ||
  forallb (fun i => N.eqb (N.land (word_at mem (row_addr h i + (h_width h - 1)))
                                  (wnot (h_hmask h))) 0%N) (seq 0 (h_nrows h)).

(** two headers whose word sets are disjoint *)
Definition wdisjoint (h1 h2 : hdr) : Prop := forall p, wview h1 p -> wview h2 p -> False.
(** a source operand may be the destination itself or must not share a word with it *)
Definition alias_ok (hdst hsrc : hdr) : Prop := hsrc = hdst \/ wdisjoint hdst hsrc.
Definition same_dims (h1 h2 : hdr) : Prop := h_nrows h1 = h_nrows h2 /\ h_ncols h1 = h_ncols h2.

(** raw words of the allocation (what the C harness dumps) *)
Definition mem_eqb (a b : list N) : bool := list_eqb a b.

(* ========================================================================================== *)
(** * Lemmas *)

(** ** bit-blasting helper *)
Ltac bitspec :=
  repeat (rewrite N.lxor_spec || rewrite N.land_spec || rewrite N.lor_spec ||
          rewrite N.ldiff_spec).
Ltac bitblast :=
  bitspec;
  repeat match goal with |- context [N.testbit ?x ?b] =>
    let t := fresh "t" in remember (N.testbit x b) as t eqn:?; destruct t end;
  try reflexivity; try discriminate.

(** ** monad *)
Lemma bind_ok {A B} (x : res A) (f : A -> res B) a : x = Ok a -> bind x f = f a.
Proof. intros ->. reflexivity. Qed.

Lemma bind_inv {A B} (x : res A) (f : A -> res B) b :
  bind x f = Ok b -> exists a, x = Ok a /\ f a = Ok b.
Proof. destruct x as [a|e]; cbn [bind]; [eauto|discriminate]. Qed.

(** ** address arithmetic *)
Lemma mul_lt_step i i' rs : i < i' -> i * rs + rs <= i' * rs.
Proof.
  intros H. assert ((i + 1) * rs <= i' * rs) by (apply Nat.mul_le_mono_r; lia). lia.
Qed.

Lemma addr_inj rs i k i' k' : k < rs -> k' < rs -> i * rs + k = i' * rs + k' -> i = i' /\ k = k'.
Proof.
  intros Hk Hk' E. destruct (lt_eq_lt_dec i i') as [[L| ->]|L].
  - pose proof (mul_lt_step _ _ rs L). lia.
  - lia.
  - pose proof (mul_lt_step _ _ rs L). lia.
Qed.

Lemma row_addr_inj h i k i' k' : k < h_rowstride h -> k' < h_rowstride h ->
  row_addr h i + k = row_addr h i' + k' -> i = i' /\ k = k'.
Proof. unfold row_addr. intros Hk Hk' E. apply (addr_inj (h_rowstride h)); lia. Qed.

Lemma row_addr_mono h i i' k : i < i' -> k < h_rowstride h -> row_addr h i + k < row_addr h i'.
Proof. unfold row_addr. intros L Hk. pose proof (mul_lt_step _ _ (h_rowstride h) L). lia. Qed.

(** ** words *)
Lemma testbit_ffff b : N.testbit ffff (N.of_nat b) = (b <? 64).
Proof. unfold ffff. change 64%N with (N.of_nat 64). apply testbit_ones_nat. Qed.

Lemma testbit_trunc x b : N.testbit (trunc x) (N.of_nat b) = N.testbit x (N.of_nat b) && (b <? 64).
Proof. unfold trunc. now rewrite N.land_spec, testbit_ffff. Qed.

Lemma testbit_trunc_lt x b : b < 64 -> N.testbit (trunc x) (N.of_nat b) = N.testbit x (N.of_nat b).
Proof.
  intros H. rewrite testbit_trunc. destruct (Nat.ltb_spec b 64); [apply andb_true_r|lia].
Qed.

Lemma trunc_lt x : (trunc x < 2 ^ 64)%N.
Proof.
  change 64%N with (N.of_nat 64). apply bounded_lt. apply bounded_land_r.
  unfold ffff. change 64%N with (N.of_nat 64). apply bounded_ones.
Qed.

Lemma word_bounded w : (w < 2 ^ 64)%N -> bounded 64 w.
Proof. change 64%N with (N.of_nat 64). apply bounded_lt. Qed.

Lemma trunc_id w : (w < 2 ^ 64)%N -> trunc w = w.
Proof.
  intros H. apply bits_ext_nat. intros j. rewrite testbit_trunc.
  destruct (Nat.ltb_spec j 64); [apply andb_true_r|].
  rewrite (word_bounded w H j) by lia. reflexivity.
Qed.

Lemma testbit_word_high w b : (w < 2 ^ 64)%N -> 64 <= b -> N.testbit w (N.of_nat b) = false.
Proof. intros H Hb. now apply (word_bounded w H). Qed.

Lemma word_ext a b : (a < 2 ^ 64)%N -> (b < 2 ^ 64)%N ->
  (forall j, j < 64 -> N.testbit a (N.of_nat j) = N.testbit b (N.of_nat j)) -> a = b.
Proof. intros Ha Hb H. apply (bounded_ext 64); auto using word_bounded. Qed.

Lemma testbit_wnot x b : N.testbit (wnot x) (N.of_nat b) = (b <? 64) && negb (N.testbit x (N.of_nat b)).
Proof. unfold wnot. now rewrite N.ldiff_spec, testbit_ffff. Qed.

Lemma testbit_shl x n b :
  N.testbit (shl x n) (N.of_nat b) = (n <=? b) && N.testbit x (N.of_nat (b - n)) && (b <? 64).
Proof. unfold shl. now rewrite testbit_trunc, testbit_shiftl_nat. Qed.

Lemma testbit_shr x n b : N.testbit (shr x n) (N.of_nat b) = N.testbit x (N.of_nat (b + n)).
Proof. unfold shr. apply testbit_shiftr_nat. Qed.

Lemma shl64_ok x n : n < 64 -> shl64 x n = Ok (shl x n).
Proof. intros H. unfold shl64, shl. destruct (Nat.ltb_spec n 64); [reflexivity|lia]. Qed.
Lemma shr64_ok x n : n < 64 -> shr64 x n = Ok (shr x n).
Proof. intros H. unfold shr64, shr. destruct (Nat.ltb_spec n 64); [reflexivity|lia]. Qed.

Lemma shr_lt x n : (x < 2 ^ 64)%N -> (shr x n < 2 ^ 64)%N.
Proof.
  intros H. change 64%N with (N.of_nat 64). apply bounded_lt. intros j Hj.
  rewrite testbit_shr. apply (word_bounded x H). lia.
Qed.

(** bit b of LEFT_BITMASK(n) is set iff b < n (all 64 bits when n = 0) *)
Lemma testbit_left_bitmask n b : n < 64 ->
  N.testbit (left_bitmask n) (N.of_nat b) = if n =? 0 then b <? 64 else b <? n.
Proof.
  intros Hn. unfold left_bitmask. rewrite testbit_shr, testbit_ffff.
  destruct (Nat.eqb_spec n 0) as [-> |Hne].
  - change ((64 - 0) mod 64) with 0. now rewrite Nat.add_0_r.
  - replace ((64 - n) mod 64) with (64 - n) by lia.
    destruct (Nat.ltb_spec (b + (64 - n)) 64), (Nat.ltb_spec b n); try reflexivity; lia.
Qed.

Lemma left_bitmask_lt n : (left_bitmask n < 2 ^ 64)%N.
Proof. unfold left_bitmask. apply shr_lt. unfold ffff. reflexivity. Qed.

(** bit b (< 64) of RIGHT_BITMASK(n) is set iff 64 - n <= b *)
Lemma testbit_right_bitmask n b :
  N.testbit (right_bitmask n) (N.of_nat b) = (64 - n <=? b) && (b <? 64).
Proof.
  unfold right_bitmask. rewrite testbit_shl, testbit_ffff.
  destruct (Nat.leb_spec (64 - n) b), (Nat.ltb_spec (b - (64 - n)) 64), (Nat.ltb_spec b 64);
    try reflexivity; lia.
Qed.

(** ** lists: nth / upd *)
Lemma upd_length {A} i (x : A) l : length (upd i x l) = length l.
Proof. revert i; induction l as [|y l IH]; intros [|i]; cbn; auto. Qed.

Lemma nth_upd_eq {A} i (x d : A) l : i < length l -> nth i (upd i x l) d = x.
Proof.
  revert i; induction l as [|y l IH]; intros [|i] H; cbn in *; try lia; auto. apply IH. lia.
Qed.

Lemma nth_upd_neq {A} i j (x d : A) l : i <> j -> nth j (upd i x l) d = nth j l d.
Proof.
  revert i j; induction l as [|y l IH]; intros [|i] [|j] H; cbn; auto; try lia.
Qed.

Lemma word_at_upd_eq p v m : p < length m -> word_at (upd p v m) p = v.
Proof. apply nth_upd_eq. Qed.
Lemma word_at_upd_neq p q v m : p <> q -> word_at (upd p v m) q = word_at m q.
Proof. apply nth_upd_neq. Qed.

Lemma word_at_overflow m p : length m <= p -> word_at m p = 0%N.
Proof. intros H. unfold word_at. now apply nth_overflow. Qed.

(** ** memory *)
Lemma mem_okb_spec mem : mem_okb mem = true <-> mem_ok mem.
Proof.
  unfold mem_okb, mem_ok. rewrite forallb_forall, Forall_forall.
  split; intros H x Hx; apply N.ltb_lt; auto.
Qed.

Lemma mem_ok_word mem p : mem_ok mem -> (word_at mem p < 2 ^ 64)%N.
Proof.
  intros H. unfold word_at. destruct (Nat.lt_ge_cases p (length mem)).
  - unfold mem_ok in H. rewrite Forall_forall in H. apply H, nth_In. assumption.
  - rewrite nth_overflow by assumption. reflexivity.
Qed.

Lemma mem_ok_upd mem p v : mem_ok mem -> mem_ok (upd p (trunc v) mem).
Proof.
  unfold mem_ok. intros H. revert p. induction H as [|w l Hw Hl IH]; intros [|p]; cbn [upd].
  - constructor. - constructor.
  - constructor; [apply trunc_lt|assumption].
  - constructor; [assumption|apply IH].
Qed.

Lemma bit_high mem p b : mem_ok mem -> 64 <= b -> bit mem p b = false.
Proof. intros H Hb. unfold bit. apply testbit_word_high; [now apply mem_ok_word|assumption]. Qed.

Lemma mem_word_ext m m' p : mem_ok m -> mem_ok m' ->
  (forall b, b < 64 -> bit m' p b = bit m p b) -> word_at m' p = word_at m p.
Proof. intros H H' E. apply word_ext; auto using mem_ok_word. Qed.

Lemma rd_ok mem p : p < length mem -> rd mem p = Ok (word_at mem p).
Proof.
  intros H. unfold rd, word_at. destruct (nth_error mem p) as [w|] eqn:E.
  - now rewrite (nth_error_nth _ _ _ E).
  - apply nth_error_None in E. lia.
Qed.

Lemma wr_ok mem p v : p < length mem -> wr mem p v = Ok (upd p (trunc v) mem).
Proof. intros H. unfold wr. destruct (Nat.ltb_spec p (length mem)); [reflexivity|lia]. Qed.

Lemma same_shape_refl m : same_shape m m.
Proof. split; auto. Qed.
Lemma same_shape_trans m1 m2 m3 : same_shape m1 m2 -> same_shape m2 m3 -> same_shape m1 m3.
Proof. intros [L1 O1] [L2 O2]. split; [congruence|auto]. Qed.
Lemma same_shape_upd m p v : same_shape m (upd p (trunc v) m).
Proof. split; [apply upd_length|apply mem_ok_upd]. Qed.

(** ** headers *)
Lemma hdr_eqb_eq a b : hdr_eqb a b = true <-> a = b.
Proof.
  destruct a, b. unfold hdr_eqb. cbn [h_nrows h_ncols h_width h_rowstride h_off h_hmask h_windowed].
  rewrite !andb_true_iff, !Nat.eqb_eq, N.eqb_eq, Bool.eqb_true_iff.
  split; [intros [[[[[[-> ->] ->] ->] ->] ->] ->]; reflexivity|].
  intros E. injection E. intros. subst. tauto.
Qed.

Lemma hdr_okb_spec h : hdr_okb h = true <-> hdr_ok h.
Proof.
  unfold hdr_okb, hdr_ok. rewrite !andb_true_iff, Nat.eqb_eq, N.eqb_eq, Nat.leb_le. tauto.
Qed.

Lemma fitsb_spec h n : fitsb h n = true <-> fits h n.
Proof.
  unfold fitsb, fits. rewrite !orb_true_iff, !Nat.eqb_eq, Nat.leb_le. tauto.
Qed.

Lemma validb_spec h mem : validb h mem = true <-> valid h mem.
Proof.
  unfold validb, valid. rewrite !andb_true_iff, hdr_okb_spec, fitsb_spec, mem_okb_spec. tauto.
Qed.

(** the use form of [fits]: every word of every row is inside the allocation *)
Lemma fits_word h n i k : fits h n -> h_width h <= h_rowstride h ->
  i < h_nrows h -> k < h_width h -> row_addr h i + k < n.
Proof.
  intros [H|[H|H]] Hrs Hi Hk; try lia.
  destruct (Nat.eq_dec i (h_nrows h - 1)) as [-> |Hne]; [lia|].
  assert (L : i < h_nrows h - 1) by lia.
  pose proof (row_addr_mono h i (h_nrows h - 1) k L). lia.
Qed.

Lemma valid_word h mem i k : valid h mem -> i < h_nrows h -> k < h_width h ->
  row_addr h i + k < length mem.
Proof. intros [[_ [_ Hrs]] [Hf _]]. now apply fits_word. Qed.

Lemma valid_shape h m m' : valid h m -> same_shape m m' -> valid h m'.
Proof. intros [H1 [H2 H3]] [L O]. split; [assumption|]. rewrite L. auto. Qed.

Lemma width_pos h j : hdr_ok h -> j < h_ncols h -> j / 64 < h_width h.
Proof. intros [Hw _] Hj. rewrite Hw. lia. Qed.

Lemma ncols_width h : hdr_ok h -> h_ncols h <= 64 * h_width h.
Proof. intros [Hw _]. rewrite Hw. lia. Qed.

Lemma ncols_width_lt h : hdr_ok h -> 0 < h_width h -> 64 * (h_width h - 1) < h_ncols h.
Proof. intros [Hw _]. rewrite Hw. lia. Qed.

(** bit b of the high mask is set iff bit b of the last word is a column of the matrix *)
Lemma testbit_hmask h b : hdr_ok h -> 0 < h_width h ->
  N.testbit (h_hmask h) (N.of_nat b) = (b <? 64) && (64 * (h_width h - 1) + b <? h_ncols h).
Proof.
  intros [Hw [Hm _]] Hpos. rewrite Hm, testbit_left_bitmask by lia. rewrite Hw in *.
  destruct (Nat.eqb_spec (h_ncols h mod 64) 0), (Nat.ltb_spec b 64),
    (Nat.ltb_spec b (h_ncols h mod 64)), (Nat.ltb_spec (64 * ((h_ncols h + 63) / 64 - 1) + b) (h_ncols h));
    cbn [andb]; try reflexivity; lia.
Qed.

Lemma hmask_lt h : hdr_ok h -> (h_hmask h < 2 ^ 64)%N.
Proof. intros [_ [Hm _]]. rewrite Hm. apply left_bitmask_lt. Qed.

Lemma init_hdr_ok off r c : hdr_ok (init_hdr_at off r c).
Proof.
  unfold hdr_ok, init_hdr_at. cbn [h_width h_ncols h_hmask h_rowstride].
  split; [f_equal; lia|]. split; [reflexivity|]. destruct (Nat.even _); lia.
Qed.

Lemma init_fits off r c n : off + block_words (init_hdr_at off r c) <= n -> fits (init_hdr_at off r c) n.
Proof.
  unfold fits, block_words, row_addr. set (h := init_hdr_at off r c). intros H.
  destruct (Nat.eq_dec (h_nrows h) 0); [now left|]. right. right.
  assert (Hrs : h_width h <= h_rowstride h) by apply init_hdr_ok.
  assert (E : h_nrows h * h_rowstride h = (h_nrows h - 1) * h_rowstride h + h_rowstride h).
  { replace (h_nrows h) with (S (h_nrows h - 1)) at 1 by lia. cbn [Nat.mul]. lia. }
  change (h_off h) with off. lia.
Qed.

Lemma window_hdr_ok h lowr lowc highr highc : hdr_ok h -> lowc mod 64 = 0 -> highc <= h_ncols h ->
  hdr_ok (window_hdr h lowr lowc highr highc).
Proof.
  intros [Hw [_ Hrs]] Hlc Hhc. unfold hdr_ok, window_hdr.
  cbn [h_width h_ncols h_hmask h_rowstride].
  split; [f_equal; lia|]. split; [reflexivity|]. rewrite Hw in Hrs. lia.
Qed.

Lemma window_fits h lowr lowc highr highc n : hdr_ok h -> fits h n ->
  lowc mod 64 = 0 -> highc <= h_ncols h -> lowr <= h_nrows h ->
  fits (window_hdr h lowr lowc highr highc) n.
Proof.
  intros Hok Hf Hlc Hhc Hlr. pose proof Hok as [Hw [_ Hrs]].
  set (w := window_hdr h lowr lowc highr highc).
  destruct (Nat.eq_dec (h_nrows w) 0) as [E|Hn]; [now left|].
  destruct (Nat.eq_dec (h_width w) 0) as [E|Hwd]; [right; now left|]. right; right.
  assert (Hi : lowr + (h_nrows w - 1) < h_nrows h) by (subst w; cbn [window_hdr h_nrows] in *; lia).
  assert (Hk : lowc / 64 + (h_width w - 1) < h_width h).
  { subst w; cbn [window_hdr h_width h_ncols] in *. rewrite Hw. lia. }
  pose proof (fits_word h n _ _ Hf Hrs Hi Hk) as F.
  unfold row_addr in *. subst w. cbn [window_hdr h_off h_rowstride h_nrows h_width h_ncols] in *. lia.
Qed.

Lemma window_valid h lowr lowc highr highc mem : valid h mem ->
  lowc mod 64 = 0 -> highc <= h_ncols h -> lowr <= h_nrows h ->
  valid (window_hdr h lowr lowc highr highc) mem.
Proof.
  intros [H1 [H2 H3]] Hlc Hhc Hlr. split; [now apply window_hdr_ok|]. split; [now apply window_fits|assumption].
Qed.

(** ** glue *)
Lemma testbit_glue ws k b : b < 64 ->
  N.testbit (glue ws) (N.of_nat (64 * k + b)) = N.testbit (nth k ws 0%N) (N.of_nat b).
Proof.
  intros Hb. revert k. induction ws as [|w t IH]; intros k; cbn [glue].
  - destruct k; cbn [nth]; now rewrite !N.bits_0.
  - rewrite N.lor_spec. change 64%N with (N.of_nat 64). rewrite testbit_shiftl_nat, testbit_trunc.
    destruct k as [|k]; cbn [nth].
    + replace (64 * 0 + b) with b by lia.
      destruct (Nat.leb_spec 64 b); [lia|]. destruct (Nat.ltb_spec b 64); [|lia].
      now rewrite andb_true_r, orb_false_r.
    + destruct (Nat.ltb_spec (64 * S k + b) 64); [lia|].
      destruct (Nat.leb_spec 64 (64 * S k + b)); [|lia].
      rewrite andb_false_r. cbn [orb andb]. replace (64 * S k + b - 64) with (64 * k + b) by lia. apply IH.
Qed.

Lemma testbit_glue_div ws j :
  N.testbit (glue ws) (N.of_nat j) = N.testbit (nth (j / 64) ws 0%N) (N.of_nat (j mod 64)).
Proof.
  rewrite <- (testbit_glue ws (j / 64) (j mod 64)) by lia. f_equal. f_equal. lia.
Qed.

Lemma nth_row_words h mem i k : k < h_width h -> nth k (row_words h mem i) 0%N = word_at mem (row_addr h i + k).
Proof.
  intros Hk. unfold row_words. rewrite (nth_map_default _ _ _ 0) by now rewrite seq_length.
  now rewrite seq_nth.
Qed.

(** THE pair of lemmas relating a row value to the words of the allocation *)
Lemma testbit_rowval h mem i j : hdr_ok h ->
  N.testbit (rowval h mem i) (N.of_nat j) = (j <? h_ncols h) && bit mem (row_addr h i + j / 64) (j mod 64).
Proof.
  intros Hok. unfold rowval. rewrite N.land_spec, testbit_ones_nat, andb_comm.
  destruct (Nat.ltb_spec j (h_ncols h)) as [Hj|Hj]; cbn [andb]; [|reflexivity].
  rewrite testbit_glue_div, nth_row_words by now apply width_pos. reflexivity.
Qed.

Lemma testbit_rowval_word h mem i k b : hdr_ok h -> b < 64 ->
  N.testbit (rowval h mem i) (N.of_nat (64 * k + b)) = (64 * k + b <? h_ncols h) && bit mem (row_addr h i + k) b.
Proof.
  intros Hok Hb. rewrite testbit_rowval by assumption.
  replace ((64 * k + b) / 64) with k by lia. replace ((64 * k + b) mod 64) with b by lia. reflexivity.
Qed.

Lemma rowval_bounded h mem i : bounded (h_ncols h) (rowval h mem i).
Proof. unfold rowval. apply bounded_land_r, bounded_ones. Qed.

(** ** abs *)
Lemma nr_abs h mem : nr (abs h mem) = h_nrows h. Proof. reflexivity. Qed.
Lemma nc_abs h mem : nc (abs h mem) = h_ncols h. Proof. reflexivity. Qed.
Lemma rows_abs_length h mem : length (rows (abs h mem)) = h_nrows h.
Proof. unfold abs. cbn [rows]. now rewrite map_length, seq_length. Qed.

Lemma row_abs h mem i : i < h_nrows h -> row (abs h mem) i = rowval h mem i.
Proof.
  intros Hi. unfold row, abs. cbn [rows]. rewrite (nth_map_default _ _ _ 0) by now rewrite seq_length.
  now rewrite seq_nth.
Qed.

Lemma row_abs_out h mem i : h_nrows h <= i -> row (abs h mem) i = 0%N.
Proof. intros Hi. unfold row. apply nth_overflow. now rewrite rows_abs_length. Qed.

(** abs of a header is a well-formed matrix *)
Lemma abs_wf h mem : wf (abs h mem).
Proof.
  apply wf_mk; [now rewrite map_length, seq_length|]. intros i Hi.
  change (nth i (map (rowval h mem) (seq 0 (h_nrows h))) 0%N) with (row (abs h mem) i).
  rewrite row_abs by assumption. apply rowval_bounded.
Qed.

Lemma get_abs h mem i j : hdr_ok h -> i < h_nrows h -> j < h_ncols h ->
  get (abs h mem) i j = bit mem (row_addr h i + j / 64) (j mod 64).
Proof.
  intros Hok Hi Hj. unfold get. rewrite row_abs, testbit_rowval by assumption.
  destruct (Nat.ltb_spec j (h_ncols h)); [reflexivity|lia].
Qed.

(** extensionality: a matrix with the right shape whose rows are the row values *)
Lemma abs_rows_ext h mem (R : mat) : nr R = h_nrows h -> nc R = h_ncols h -> length (rows R) = h_nrows h ->
  (forall i, i < h_nrows h -> rowval h mem i = row R i) -> abs h mem = R.
Proof.
  destruct R as [r c l]. cbn [nr nc rows]. intros -> -> Hl H. unfold abs. f_equal.
  apply (list_ext_nth 0%N); [now rewrite map_length, seq_length|].
  rewrite map_length, seq_length. intros i Hi.
  rewrite (nth_map_default _ _ _ 0) by now rewrite seq_length. rewrite seq_nth by assumption.
  apply H. assumption.
Qed.

(** two views with equal entries are equal as matrices *)
Lemma abs_ext h mem h' mem' : hdr_ok h -> hdr_ok h' -> same_dims h h' ->
  (forall i j, i < h_nrows h -> j < h_ncols h ->
     bit mem (row_addr h i + j / 64) (j mod 64) = bit mem' (row_addr h' i + j / 64) (j mod 64)) ->
  abs h mem = abs h' mem'.
Proof.
  intros Hok Hok' [Hr Hc] H. apply abs_rows_ext; [now rewrite nr_abs|now rewrite nc_abs|now rewrite rows_abs_length|].
  intros i Hi. rewrite row_abs by lia. apply (bounded_ext (h_ncols h)); [apply rowval_bounded|rewrite Hc; apply rowval_bounded|].
  intros j Hj. rewrite !testbit_rowval by assumption. rewrite <- Hc.
  destruct (Nat.ltb_spec j (h_ncols h)); [|lia]. cbn [andb]. now apply H.
Qed.

(** rows of abstract operations (used by every refinement proof) *)
Lemma upd_nth_eq {A} i (x d : A) l : i < length l -> nth i (upd i x l) d = x.
Proof. apply nth_upd_eq. Qed.

Lemma row_set_row M i r i' : i < length (rows M) ->
  row (set_row M i r) i' = if i' =? i then r else row M i'.
Proof.
  intros Hi. unfold row, set_row. cbn [rows]. destruct (Nat.eqb_spec i' i) as [-> |Hne].
  - now apply nth_upd_eq.
  - apply nth_upd_neq. congruence.
Qed.

Lemma rows_set_row_length M i r : length (rows (set_row M i r)) = length (rows M).
Proof. unfold set_row. cbn [rows]. apply upd_length. Qed.

Lemma mapi_from_length {A B} (f : nat -> A -> B) s l : length (mapi_from f s l) = length l.
Proof. revert s; induction l as [|x l IH]; intros s; cbn; auto. Qed.

Lemma nth_mapi_from {A B} (f : nat -> A -> B) s l i d d' : i < length l ->
  nth i (mapi_from f s l) d' = f (s + i) (nth i l d).
Proof.
  revert s i; induction l as [|x l IH]; intros s [|i] H; cbn in *; try lia.
  - now rewrite Nat.add_0_r.
  - rewrite IH by lia. f_equal. lia.
Qed.

Lemma row_map_rows f M i : i < length (rows M) -> row (map_rows f M) i = f i (row M i).
Proof. intros H. unfold row, map_rows. cbn [rows]. now rewrite (nth_mapi_from _ _ _ _ 0%N). Qed.

Lemma rows_map_rows_length f M : length (rows (map_rows f M)) = length (rows M).
Proof. unfold map_rows. cbn [rows]. apply mapi_from_length. Qed.

Lemma testbit_colmask c0 c1 j : N.testbit (colmask c0 c1) (N.of_nat j) = (c0 <=? j) && (j <? c1).
Proof.
  unfold colmask. rewrite testbit_shiftl_nat, testbit_ones_nat.
  destruct (Nat.leb_spec c0 j); cbn [andb]; [|reflexivity].
  destruct (Nat.ltb_spec (j - c0) (c1 - c0)), (Nat.ltb_spec j c1); try reflexivity; lia.
Qed.

(** ** a window denotes the sub-block of its parent *)
Theorem abs_window h mem lowr lowc highr highc :
  hdr_ok h -> lowc mod 64 = 0 -> highc <= h_ncols h -> lowr <= h_nrows h ->
  abs (window_hdr h lowr lowc highr highc) mem =
  msub (abs h mem) lowr lowc (Nat.min (highr - lowr) (h_nrows h - lowr)) (highc - lowc).
Proof.
  intros Hok Hlc Hhc Hlr. set (w := window_hdr h lowr lowc highr highc).
  change (Nat.min (highr - lowr) (h_nrows h - lowr)) with (h_nrows w).
  change (highc - lowc) with (h_ncols w).
  assert (Hokw : hdr_ok w) by now apply window_hdr_ok.
  assert (Hlen : lowr + h_nrows w <= length (rows (abs h mem))).
  { rewrite rows_abs_length. subst w. cbn [window_hdr h_nrows]. lia. }
  apply abs_rows_ext; try reflexivity.
  - unfold msub. cbn [rows]. rewrite map_length, firstn_length, skipn_length, rows_abs_length.
    subst w. cbn [window_hdr h_nrows]. lia.
  - intros i Hi. apply (bounded_ext (h_ncols w)); [apply rowval_bounded| |].
    + pose proof (wf_msub (abs h mem) lowr lowc (h_nrows w) (h_ncols w) Hlen) as Hwf.
      apply (wf_row_bounded _ i) in Hwf. exact Hwf.
    + intros j Hj. rewrite testbit_rowval by assumption.
      change (N.testbit (row (msub (abs h mem) lowr lowc (h_nrows w) (h_ncols w)) i) (N.of_nat j))
        with (get (msub (abs h mem) lowr lowc (h_nrows w) (h_ncols w)) i j).
      rewrite get_msub by exact Hlen.
      destruct (Nat.ltb_spec i (h_nrows w)); [|lia]. destruct (Nat.ltb_spec j (h_ncols w)); [|lia].
      cbn [andb]. rewrite get_abs; [|assumption| |].
      * unfold row_addr. subst w. cbn [window_hdr h_off h_rowstride h_ncols] in *.
        f_equal; lia.
      * subst w. cbn [window_hdr h_nrows] in *. lia.
      * subst w. cbn [window_hdr h_ncols] in *. lia.
Qed.

(** ** views *)
Lemma in_view_intro h i j : i < h_nrows h -> j < h_ncols h -> in_view h (row_addr h i + j / 64) (j mod 64).
Proof. intros Hi Hj. exists i, j. auto. Qed.

Lemma in_view_word h i k b : i < h_nrows h -> b < 64 -> 64 * k + b < h_ncols h ->
  in_view h (row_addr h i + k) b.
Proof. intros Hi Hb Hj. exists i, (64 * k + b). repeat split; auto; lia. Qed.

Lemma in_view_wview h p b : hdr_ok h -> in_view h p b -> wview h p.
Proof.
  intros Hok (i & j & Hi & Hj & -> & ->). exists i, (j / 64). repeat split; auto. now apply width_pos.
Qed.

Lemma in_view_inv h i k b : hdr_ok h -> k < h_rowstride h -> b < 64 ->
  in_view h (row_addr h i + k) b -> i < h_nrows h /\ 64 * k + b < h_ncols h.
Proof.
  intros Hok Hk Hb (i' & j & Hi & Hj & E & ->).
  pose proof (width_pos h j Hok Hj). destruct Hok as [_ [_ Hrs]].
  apply row_addr_inj in E; [|lia..]. destruct E as [-> ->]. split; [assumption|lia].
Qed.

Lemma in_viewb_spec h p b : hdr_ok h -> in_viewb h p b = true <-> in_view h p b.
Proof.
  intros Hok. unfold in_viewb. split.
  - rewrite !andb_true_iff, !Nat.ltb_lt, Nat.leb_le. intros [[[Hp Hrs] [Hi Hj]] Hb].
    set (i := (p - h_off h) / h_rowstride h) in *. set (k := (p - h_off h) mod h_rowstride h) in *.
    exists i, (64 * k + b). repeat split; auto; [|lia].
    replace ((64 * k + b) / 64) with k by lia. unfold row_addr.
    pose proof (Nat.div_mod (p - h_off h) (h_rowstride h)). subst i k. lia.
  - intros (i & j & Hi & Hj & -> & ->). pose proof (width_pos h j Hok Hj). destruct Hok as [_ [_ Hrs]].
    unfold row_addr. replace (h_off h + i * h_rowstride h + j / 64 - h_off h) with (i * h_rowstride h + j / 64) by lia.
    rewrite <- (Nat.div_unique (i * h_rowstride h + j / 64) (h_rowstride h) i (j / 64)) by lia.
    rewrite <- (Nat.mod_unique (i * h_rowstride h + j / 64) (h_rowstride h) i (j / 64)) by lia.
    rewrite !andb_true_iff, !Nat.ltb_lt, Nat.leb_le. repeat split; lia.
Qed.

Lemma outside_refl h mem : outside h mem mem.
Proof. split; auto. Qed.

(** frame_compose: frame preservation lifts to any composition of frame-preserving steps *)
Lemma outside_trans h m1 m2 m3 : outside h m1 m2 -> outside h m2 m3 -> outside h m1 m3.
Proof.
  intros [L1 H1] [L2 H2]. split; [congruence|]. intros p b Hb Hn. rewrite H2, H1; auto.
Qed.
Definition frame_compose := outside_trans.

(** a bigger view frames less *)
Lemma outside_weaken h h' m m' : (forall p b, in_view h p b -> in_view h' p b) ->
  outside h m m' -> outside h' m m'.
Proof. intros Hsub [L H]. split; [assumption|]. intros p b Hb Hn. apply H; auto. Qed.

(** padding bits are not in the view: any frame-preserving step keeps zero padding *)
Lemma padding_not_in_view h i b : hdr_ok h -> 0 < h_width h -> b < 64 ->
  h_ncols h <= 64 * (h_width h - 1) + b -> ~ in_view h (row_addr h i + (h_width h - 1)) b.
Proof.
  intros Hok Hw Hb Hc Hin. pose proof Hok as [_ [_ Hrs]]. apply in_view_inv in Hin; auto; lia.
Qed.

Theorem outside_padding h mem mem' : hdr_ok h -> outside h mem mem' ->
  padding_zero h mem -> padding_zero h mem'.
Proof.
  intros Hok [_ Hout] Hp i b Hi Hw Hb Hc. rewrite Hout; auto. now apply padding_not_in_view.
Qed.

Lemma padding_zerob_spec h mem : hdr_ok h -> mem_ok mem -> padding_zerob h mem = true <-> padding_zero h mem.
Proof.
  intros Hok Hm. unfold padding_zerob, padding_zero. rewrite orb_true_iff, Nat.eqb_eq, forallb_forall. split.
  - intros [H0|H] i b Hi Hw Hb Hc; [lia|]. specialize (H i). rewrite in_seq in H.
    assert (E : N.land (word_at mem (row_addr h i + (h_width h - 1))) (wnot (h_hmask h)) = 0%N)
      by (apply N.eqb_eq, H; lia).
    apply (f_equal (fun x => N.testbit x (N.of_nat b))) in E.
    rewrite N.land_spec, testbit_wnot, testbit_hmask, N.bits_0 in E by assumption.
    destruct (Nat.ltb_spec b 64); [|lia].
    destruct (Nat.ltb_spec (64 * (h_width h - 1) + b) (h_ncols h)); [lia|].
    cbn [andb negb] in E. now rewrite andb_true_r in E.
  - intros H. destruct (Nat.eq_dec (h_width h) 0) as [E|Hw]; [now left|right].
    intros i Hi. rewrite in_seq in Hi. apply N.eqb_eq. apply bits_ext_nat. intros b.
    rewrite N.land_spec, testbit_wnot, testbit_hmask, N.bits_0 by (assumption || lia).
    destruct (Nat.ltb_spec b 64); cbn [andb]; [|apply andb_false_r].
    destruct (Nat.ltb_spec (64 * (h_width h - 1) + b) (h_ncols h)); cbn [andb negb]; [apply andb_false_r|].
    rewrite andb_true_r. apply H; lia.
Qed.

(** a word-level form of the frame: words outside the rows of the view are unchanged *)
Lemma outside_word h m m' p : hdr_ok h -> mem_ok m -> mem_ok m' -> outside h m m' ->
  ~ wview h p -> word_at m' p = word_at m p.
Proof.
  intros Hok Hm Hm' [_ H] Hn. apply mem_word_ext; auto. intros b Hb. apply H; auto.
  intros Hin. apply Hn. now apply (in_view_wview h p b).
Qed.

(** read-only operands that share no word with the destination are bit-for-bit unchanged *)
Theorem outside_source_unchanged hd hs m m' : hdr_ok hd -> mem_ok m -> mem_ok m' ->
  outside hd m m' -> wdisjoint hd hs ->
  (forall p, wview hs p -> word_at m' p = word_at m p) /\ abs hs m' = abs hs m.
Proof.
  intros Hok Hm Hm' Hout Hd.
  assert (W : forall p, wview hs p -> word_at m' p = word_at m p).
  { intros p Hp. apply (outside_word hd); auto. intros Hq. exact (Hd p Hq Hp). }
  split; [exact W|]. unfold abs. f_equal. apply map_ext_in. intros i Hi. rewrite in_seq in Hi.
  unfold rowval. f_equal. f_equal. unfold row_words. apply map_ext_in. intros k Hk. rewrite in_seq in Hk.
  apply W. exists i, k. repeat split; lia.
Qed.

(** ** how to establish the frame from a word-level description of a step *)
(** If (a) words that are not row words of the view are unchanged, and (b) in row words only
    bits that are columns of the view change, the step preserves the frame. *)
Lemma outside_intro h m m' : hdr_ok h -> length m' = length m ->
  (forall p, ~ wview h p -> word_at m' p = word_at m p) ->
  (forall i k b, i < h_nrows h -> k < h_width h -> b < 64 -> h_ncols h <= 64 * k + b ->
     bit m' (row_addr h i + k) b = bit m (row_addr h i + k) b) ->
  outside h m m'.
Proof.
  intros Hok L Hw Hb. split; [exact L|]. intros p b Hb64 Hn.
  destruct (in_viewb h p 0) eqn:E.
  - (* p is a row word *)
    pose proof Hok as Hok'. destruct Hok' as [_ [_ Hrs]].
    unfold in_viewb in E. rewrite !andb_true_iff, !Nat.ltb_lt, Nat.leb_le in E.
    destruct E as [[[Hp Hrs0] [Hi Hj]] _].
    set (i := (p - h_off h) / h_rowstride h) in *. set (k := (p - h_off h) mod h_rowstride h) in *.
    assert (Ep : p = row_addr h i + k).
    { unfold row_addr. pose proof (Nat.div_mod (p - h_off h) (h_rowstride h)). subst i k. lia. }
    assert (Hk : k < h_width h) by (pose proof (width_pos h (64 * k + 0) Hok ltac:(lia)); lia).
    rewrite Ep. apply Hb; auto.
    destruct (Nat.lt_ge_cases (64 * k + b) (h_ncols h)); [|assumption].
    exfalso. apply Hn. rewrite Ep. now apply in_view_word.
  - unfold bit. rewrite Hw; [reflexivity|]. intros (i & k & Hi & Hk & ->).
    destruct (Nat.lt_ge_cases (64 * k) (h_ncols h)) as [Hlt|Hge].
    + assert (Hin : in_view h (row_addr h i + k) 0) by (apply in_view_word; lia).
      apply in_viewb_spec in Hin; [congruence|assumption].
    + destruct Hok as [Hwd _]. lia.
Qed.

(** writing a word that lies fully inside the view *)
Lemma outside_wr_inside h m i k v : hdr_ok h -> i < h_nrows h -> 64 * k + 64 <= h_ncols h ->
  outside h m (upd (row_addr h i + k) v m).
Proof.
  intros Hok Hi Hk. split; [apply upd_length|]. intros p b Hb Hn. unfold bit.
  destruct (Nat.eq_dec (row_addr h i + k) p) as [<- |Hne]; [|now rewrite word_at_upd_neq].
  exfalso. apply Hn. apply in_view_word; auto. lia.
Qed.

(** writing the last word of a row under the high mask *)
Lemma outside_wr_masked h m i v : hdr_ok h -> i < h_nrows h -> 0 < h_width h ->
  let p := row_addr h i + (h_width h - 1) in
  outside h m (upd p (trunc (N.lxor (word_at m p) (N.land (N.lxor v (word_at m p)) (h_hmask h)))) m).
Proof.
  intros Hok Hi Hw p. split; [apply upd_length|]. intros q b Hb Hn. unfold bit.
  destruct (Nat.eq_dec p q) as [<- |Hne]; [|now rewrite word_at_upd_neq].
  destruct (Nat.lt_ge_cases p (length m)) as [Hp|Hp].
  - rewrite word_at_upd_eq by assumption. rewrite testbit_trunc_lt by assumption.
    rewrite N.lxor_spec, N.land_spec, testbit_hmask by assumption.
    destruct (Nat.ltb_spec b 64); [|lia].
    destruct (Nat.ltb_spec (64 * (h_width h - 1) + b) (h_ncols h)).
    + exfalso. apply Hn. subst p. now apply in_view_word.
    + cbn [andb]. rewrite andb_false_r. apply xorb_false_r.
  - unfold word_at. rewrite !nth_overflow; [reflexivity|lia|rewrite upd_length; lia].
Qed.

(** ** window frame versus parent: [outside] for a window means that in the parent exactly the
    sub-block changed *)
Lemma window_in_view h lowr lowc highr highc p b : hdr_ok h -> lowc mod 64 = 0 -> highc <= h_ncols h ->
  lowr <= h_nrows h -> in_view (window_hdr h lowr lowc highr highc) p b -> in_view h p b.
Proof.
  intros Hok Hlc Hhc Hlr (i & j & Hi & Hj & -> & ->). cbn [window_hdr h_nrows h_ncols] in *.
  exists (lowr + i), (lowc + j). unfold row_addr. cbn [window_hdr h_off h_rowstride].
  repeat split; lia.
Qed.

(** frame of a window implies frame of the parent *)
Lemma outside_window_parent h lowr lowc highr highc m m' : hdr_ok h -> lowc mod 64 = 0 ->
  highc <= h_ncols h -> lowr <= h_nrows h ->
  outside (window_hdr h lowr lowc highr highc) m m' -> outside h m m'.
Proof.
  intros Hok Hlc Hhc Hlr. apply outside_weaken. intros p b. now apply window_in_view.
Qed.

Lemma rows_mpaste_length A r0 c0 B : length (rows (mpaste A r0 c0 B)) = length (rows A).
Proof. unfold mpaste. apply rows_map_rows_length. Qed.

Theorem window_paste h lowr lowc highr highc m m' :
  hdr_ok h -> lowc mod 64 = 0 -> lowc <= highc -> highc <= h_ncols h -> lowr <= h_nrows h ->
  let w := window_hdr h lowr lowc highr highc in
  outside w m m' ->
  abs h m' = mpaste (abs h m) lowr lowc (abs w m').
Proof.
  intros Hok Hlc Hlh Hhc Hlr w [_ Hout].
  assert (Hokw : hdr_ok w) by now apply window_hdr_ok.
  apply abs_rows_ext; try reflexivity.
  - now rewrite rows_mpaste_length, rows_abs_length.
  - intros i Hi. unfold mpaste. rewrite row_map_rows by now rewrite rows_abs_length.
    rewrite nr_abs, nc_abs. apply bits_ext_nat. intros j.
    rewrite testbit_rowval by assumption.
    destruct ((lowr <=? i) && (i <? lowr + h_nrows w)) eqn:Er.
    + rewrite andb_true_iff, Nat.leb_le, Nat.ltb_lt in Er.
      remember (i - lowr) as d eqn:Ed. assert (Ei : i = lowr + d) by lia. clear Ed. subst i.
      rewrite N.lor_spec, N.ldiff_spec, testbit_colmask, testbit_shiftl_nat.
      rewrite row_abs by assumption. rewrite (row_abs w) by lia.
      rewrite !testbit_rowval by assumption.
      destruct (Nat.leb_spec lowc j) as [Hlj|Hlj]; cbn [andb].
      * destruct (Nat.ltb_spec j (lowc + h_ncols w)) as [Hj|Hj]; cbn [andb negb].
        -- (* inside the window block *)
           rewrite andb_false_r. cbn [orb].
           destruct (Nat.ltb_spec (j - lowc) (h_ncols w)); [|lia]. cbn [andb].
           destruct (Nat.ltb_spec j (h_ncols h)); [|subst w; cbn [window_hdr h_ncols] in *; lia].
           cbn [andb]. f_equal; unfold row_addr; subst w; cbn [window_hdr h_off h_rowstride h_ncols] in *; lia.
        -- (* right of the block *)
           destruct (Nat.ltb_spec (j - lowc) (h_ncols w)); [lia|]. cbn [andb]. rewrite orb_false_r, andb_true_r.
           destruct (Nat.ltb_spec j (h_ncols h)); cbn [andb]; [|reflexivity].
           apply Hout; [lia|]. intros Hin.
           pose proof Hok as [_ [_ Hrs]]. pose proof (width_pos h j Hok ltac:(lia)).
           replace (row_addr h (lowr + d) + j / 64) with (row_addr w d + (j / 64 - lowc / 64)) in Hin
             by (unfold row_addr; subst w; cbn [window_hdr h_off h_rowstride]; lia).
           apply in_view_inv in Hin; [|assumption|cbn [w window_hdr h_rowstride]; lia|lia].
           subst w; cbn [window_hdr h_ncols] in *. lia.
      * (* left of the block *)
        rewrite orb_false_r, andb_true_r.
        destruct (Nat.ltb_spec j (h_ncols h)); cbn [andb]; [|reflexivity].
        apply Hout; [lia|]. intros (i' & j' & Hi' & Hj' & E & Eb).
        pose proof Hok as [_ [_ Hrs]]. pose proof (width_pos h j Hok ltac:(lia)).
        pose proof (width_pos w j' Hokw Hj').
        assert (lowc / 64 + j' / 64 < h_rowstride h).
        { pose proof (width_pos h (lowc + j') Hok ltac:(subst w; cbn [window_hdr h_ncols] in *; lia)). lia. }
        replace (row_addr w i' + j' / 64) with (row_addr h (lowr + i') + (lowc / 64 + j' / 64)) in E
          by (unfold row_addr; subst w; cbn [window_hdr h_off h_rowstride]; lia).
        apply row_addr_inj in E; lia.
    + (* another row *)
      rewrite row_abs, testbit_rowval by assumption.
      destruct (Nat.ltb_spec j (h_ncols h)); cbn [andb]; [|reflexivity].
      apply Hout; [lia|]. intros (i' & j' & Hi' & Hj' & E & Eb).
      pose proof Hok as [_ [_ Hrs]]. pose proof (width_pos h j Hok ltac:(lia)).
      assert (lowc / 64 + j' / 64 < h_rowstride h).
      { pose proof (width_pos h (lowc + j') Hok ltac:(subst w; cbn [window_hdr h_ncols] in *; lia)). lia. }
      replace (row_addr w i' + j' / 64) with (row_addr h (lowr + i') + (lowc / 64 + j' / 64)) in E
        by (unfold row_addr; subst w; cbn [window_hdr h_off h_rowstride]; lia).
      apply row_addr_inj in E; [|lia..].
      rewrite andb_false_iff, Nat.leb_gt, Nat.ltb_ge in Er. lia.
Qed.
