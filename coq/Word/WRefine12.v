(* Word/WRefine12.v — refinement theorem, part 12: mzd_find_pivot (faithful four-path model with
   m4ri_lesser_LSB and the early breaks) = Lin/Ops.v find_pivot on the viewed block, for arbitrary
   excess bits.  No axioms. *)
From Coq Require Import List NArith Arith Lia Bool ZifyBool ZifyNat ZifyN ZArith.
From M4 Require Import Base.Bits Lin.Mat Lin.Ops Lin.OpsProofs Lin.Observers Word.WMat Word.WOps
  Word.WMatLemmas Word.WRefineLemmas Word.WRefine Word.WRefine7.
Import ListNotations.
Local Open Scope nat_scope.
Ltac Zify.zify_post_hook ::= Z.div_mod_to_equations.

(* ------------------------------------------------------------------------------------------ *)
(** * m4ri_lesser_LSB *)
(** x ^ (x - 1) has exactly the bits up to and including the lowest set bit of x *)
Lemma lsbmask_bits p j :
  N.testbit (N.lxor (Npos p) (Npos p - 1)) (N.of_nat j) = (j <=? ctz_pos p).
Proof.
  revert j. induction p as [q IH|q IH|]; intros j; cbn [ctz_pos].
  - (* odd: x - 1 = 2q *)
    replace (Npos q~1 - 1)%N with (2 * Npos q)%N by lia. change (Npos q~1) with (2 * Npos q + 1)%N.
    rewrite N.lxor_spec. destruct j as [|j].
    + change (N.of_nat 0) with 0%N. rewrite N.testbit_odd_0, N.testbit_even_0. reflexivity.
    + rewrite Nat2N.inj_succ, N.testbit_odd_succ, N.testbit_even_succ by lia.
      rewrite xorb_nilpotent. reflexivity.
  - (* even: x - 1 = 2 (q - 1) + 1 *)
    replace (Npos q~0 - 1)%N with (2 * (Npos q - 1) + 1)%N by lia. change (Npos q~0) with (2 * Npos q)%N.
    rewrite N.lxor_spec. destruct j as [|j].
    + change (N.of_nat 0) with 0%N. rewrite N.testbit_odd_0, N.testbit_even_0. reflexivity.
    + rewrite Nat2N.inj_succ, N.testbit_odd_succ, N.testbit_even_succ by lia.
      rewrite <- N.lxor_spec, IH. reflexivity.
  - destruct j; reflexivity.
Qed.

Lemma trunc_pred a : (0 < a < 2 ^ 64)%N -> trunc (a + ffff) = (a - 1)%N.
Proof.
  intros H. unfold trunc, ffff. change (N.ones 64) with (2 ^ 64 - 1)%N.
  change (2 ^ 64 - 1)%N with (N.ones 64). rewrite N.land_ones.
  change (N.ones 64) with 18446744073709551615%N. change (2 ^ 64)%N with 18446744073709551616%N in *. lia.
Qed.

(** [lsb_lt a b]: a is non-zero and its lowest set bit is strictly below every set bit of b *)
Definition lsb_lt (a b : N) : Prop :=
  exists la, lowbit a = Some la /\ forall lb, lowbit b = Some lb -> la < lb.

Lemma lesser_LSB_spec a b : (a < 2 ^ 64)%N -> (b < 2 ^ 64)%N -> (lesser_LSB a b = true <-> lsb_lt a b).
Proof.
  intros Ha Hb. unfold lesser_LSB, lsb_lt.
  destruct (N.eqb_spec b 0) as [-> |Nb]; cbn [negb].
  - destruct (N.eqb_spec a 0) as [-> |Na]; cbn [negb].
    + split; [discriminate|]. intros (la & E & _). discriminate.
    + split; [|reflexivity]. intros _. destruct a as [|p]; [congruence|]. exists (ctz_pos p).
      split; [reflexivity|]. intros lb E. discriminate.
  - rewrite negb_involutive. destruct a as [|p].
    + change (trunc (0 + ffff)) with ffff. rewrite N.lxor_0_r.
      assert (E : N.land ffff b = b) by (rewrite N.land_comm; apply trunc_id; assumption).
      rewrite E. destruct (N.eqb_spec b 0); [congruence|]. split; [discriminate|].
      intros (la & El & _). discriminate.
    + rewrite trunc_pred by (split; [reflexivity|assumption]). rewrite N.lxor_comm.
      pose proof (lowbit_spec b) as Sb. destruct (lowbit b) as [lb|] eqn:Elb; [|congruence].
      destruct Sb as [Sb1 Sb2]. rewrite N.eqb_eq. split.
      * intros Z. exists (ctz_pos p). split; [reflexivity|]. intros lb' E'. injection E' as <-.
        destruct (Nat.lt_ge_cases (ctz_pos p) lb) as [L|L]; [assumption|exfalso].
        apply (f_equal (fun x => N.testbit x (N.of_nat lb))) in Z.
        rewrite N.land_spec, lsbmask_bits, Sb1, N.bits_0 in Z.
        destruct (Nat.leb_spec lb (ctz_pos p)); [discriminate|lia].
      * intros (la & El & Hl). cbn [lowbit] in El. injection El as <-. specialize (Hl lb eq_refl).
        apply bits_ext_nat. intros j. rewrite N.land_spec, lsbmask_bits, N.bits_0.
        destruct (Nat.leb_spec j (ctz_pos p)); [|reflexivity]. cbn [andb]. apply Sb2. lia.
Qed.

Lemma lowbit_ge a la b : lowbit a = Some la -> (forall j, j < b -> N.testbit a (N.of_nat j) = false) -> b <= la.
Proof.
  intros E H. pose proof (lowbit_spec a) as S. rewrite E in S. destruct S as [S1 _].
  destruct (Nat.lt_ge_cases la b) as [L|L]; [|assumption]. rewrite H in S1 by assumption. discriminate.
Qed.

(* ------------------------------------------------------------------------------------------ *)
(** * the row scan *)
Definition scan_step (v : nat -> N) (st : N * nat) (i : nat) : N * nat :=
  if lesser_LSB (v i) (fst st) then (v i, i) else st.
Definition scan_pure (v : nat -> N) (rows : list nat) (st : N * nat) : N * nat :=
  fold_left (scan_step v) rows st.

(** the C loop with its early break computes the pure fold *)
Lemma pivot_scan_ok (load : nat -> res N) brk (v : nat -> N) rows st :
  (forall i, In i rows -> load i = Ok (v i)) ->
  (forall i, In i rows -> (v i < 2 ^ 64)%N) -> (fst st < 2 ^ 64)%N ->
  match brk with None => True
               | Some b => forall i, In i rows -> forall j, j < b -> N.testbit (v i) (N.of_nat j) = false end ->
  pivot_scan load brk rows st = Ok (scan_pure v rows st).
Proof.
  intros Hload Hv Hst Hbrk. unfold pivot_scan, scan_pure.
  assert (G : forall rows d c s, (forall i, In i rows -> load i = Ok (v i)) ->
     (forall i, In i rows -> (v i < 2 ^ 64)%N) -> (d < 2 ^ 64)%N ->
     match brk with None => True
       | Some b => forall i, In i rows -> forall j, j < b -> N.testbit (v i) (N.of_nat j) = false end ->
     (s = true -> exists b, brk = Some b /\ lowbit d = Some b) ->
     exists s', forM rows (fun i (s : N * nat * bool) =>
         let '(data, cand, stop) := s in
         if stop then Ok s else
         curr <- load i ;;
         if lesser_LSB curr data then
           let stop' := match brk with Some b => N.testbit curr (N.of_nat b) | None => false end in
           Ok (curr, i, stop')
         else Ok s) (d, c, s) = Ok (fold_left (scan_step v) rows (d, c), s')).
  { clear. induction rows as [|i rows IH]; intros d c s Hload Hv Hd Hbrk Hs; cbn [forM fold_left].
    - eauto.
    - assert (Hi : In i (i :: rows)) by now left.
      destruct s.
      + (* already stopped: nothing can be lesser *)
        cbn [bind]. destruct (Hs eq_refl) as (b & Eb & Ld).
        assert (NL : lesser_LSB (v i) d = false).
        { destruct (lesser_LSB (v i) d) eqn:E; [|reflexivity]. exfalso.
          apply lesser_LSB_spec in E; auto. destruct E as (la & Ela & Hla).
          specialize (Hla b Ld). rewrite Eb in Hbrk.
          pose proof (lowbit_ge (v i) la b Ela (Hbrk i Hi)). lia. }
        unfold scan_step at 2. cbn [fst]. rewrite NL.
        apply IH; auto; intros; try (apply Hload || apply Hv); try (now right).
        destruct brk; [|exact I]. intros i' Hi'. apply Hbrk. now right.
      + rewrite (Hload i Hi). cbn [bind]. unfold scan_step at 2. cbn [fst].
        destruct (lesser_LSB (v i) d) eqn:E.
        * apply IH; auto; intros; try (apply Hload || apply Hv); try (now right).
          -- destruct brk; [|exact I]. intros i' Hi'. apply Hbrk. now right.
          -- destruct brk as [b|]; [|discriminate]. exists b. split; [reflexivity|].
             apply lowbit_unique; [assumption|]. apply Hbrk. exact Hi.
        * apply IH; auto; intros; try (apply Hload || apply Hv); try (now right); try discriminate.
          destruct brk; [|exact I]. intros i' Hi'. apply Hbrk. now right. }
  destruct st as [d c]. cbn [fst snd] in *.
  destruct (G rows d c false Hload Hv Hst Hbrk ltac:(discriminate)) as (s' & E). rewrite E. cbn [bind fst snd].
  now destruct (fold_left (scan_step v) rows (d, c)).
Qed.

(** what the fold computes over consecutive rows, starting from data = 0 *)
Definition scan_inv (v : nat -> N) (lo hi : nat) (st : N * nat) : Prop :=
  match lowbit (fst st) with
  | None => forall i, lo <= i < hi -> v i = 0%N
  | Some l => lo <= snd st < hi /\ fst st = v (snd st) /\
              (forall i j, lo <= i < hi -> j < l -> N.testbit (v i) (N.of_nat j) = false) /\
              (forall i, lo <= i < snd st -> N.testbit (v i) (N.of_nat l) = false)
  end.

Lemma scan_pure_spec v lo n c0 : (forall i, lo <= i < lo + n -> (v i < 2 ^ 64)%N) ->
  scan_inv v lo (lo + n) (scan_pure v (seq lo n) (0%N, c0)) /\
  (fst (scan_pure v (seq lo n) (0%N, c0)) < 2 ^ 64)%N.
Proof.
  intros Hv. induction n as [|n IH].
  - cbn. split; [|reflexivity]. intros i Hi. lia.
  - rewrite seq_S. unfold scan_pure. rewrite fold_left_app. cbn [fold_left].
    fold (scan_pure v (seq lo n) (0%N, c0)).
    destruct IH as [Inv Lt]; [intros; apply Hv; lia|].
    set (st := scan_pure v (seq lo n) (0%N, c0)) in *. destruct st as [d c]. cbn [fst snd] in *.
    pose proof (Hv (lo + n) ltac:(lia)) as Hvi.
    unfold scan_step. cbn [fst]. destruct (lesser_LSB (v (lo + n)) d) eqn:E.
    + apply lesser_LSB_spec in E; auto. destruct E as (la & Ela & Hla).
      split; [|assumption]. unfold scan_inv in *. cbn [fst snd] in *. rewrite Ela.
      pose proof (lowbit_spec (v (lo + n))) as S. rewrite Ela in S. destruct S as [S1 S2].
      split; [lia|]. split; [reflexivity|]. split.
      * intros i j Hi Hj. destruct (Nat.eq_dec i (lo + n)) as [-> |]; [now apply S2|].
        remember (lowbit d) as od eqn:Eld in *; destruct od as [ld|]; symmetry in Eld.
        -- destruct Inv as (_ & _ & A & _). apply A; [lia|]. specialize (Hla ld eq_refl). lia.
        -- rewrite Inv by lia. apply N.bits_0.
      * intros i Hi. remember (lowbit d) as od eqn:Eld in *; destruct od as [ld|]; symmetry in Eld.
        -- destruct Inv as (_ & _ & A & _). apply A; [lia|]. now apply Hla.
        -- rewrite Inv by lia. apply N.bits_0.
    + split; [|assumption]. unfold scan_inv in *. cbn [fst snd] in *.
      remember (lowbit d) as od eqn:Eld in *; destruct od as [ld|]; symmetry in Eld.
      * destruct Inv as (I1 & I2 & A & B). split; [lia|]. split; [assumption|]. split; [|assumption].
        intros i j Hi Hj. destruct (Nat.eq_dec i (lo + n)) as [-> |]; [|apply A; lia].
        destruct (lowbit (v (lo + n))) as [la|] eqn:Ela.
        -- destruct (Nat.lt_ge_cases la ld) as [L|L].
           ++ exfalso. assert (lesser_LSB (v (lo + n)) d = true); [|congruence].
              apply lesser_LSB_spec; auto. exists la. split; [assumption|]. intros lb Elb. congruence.
           ++ pose proof (lowbit_spec (v (lo + n))) as S. rewrite Ela in S. apply S. lia.
        -- apply lowbit_none in Ela. rewrite Ela. apply N.bits_0.
      * intros i Hi. destruct (Nat.eq_dec i (lo + n)) as [-> |]; [|apply Inv; lia].
        apply lowbit_none in Eld. subst d.
        destruct (lowbit (v (lo + n))) as [la|] eqn:Ela; [|now apply lowbit_none].
        exfalso. assert (lesser_LSB (v (lo + n)) 0 = true); [|congruence].
        apply lesser_LSB_spec; auto. exists la. split; [assumption|]. intros lb Elb. discriminate.
Qed.

(** the C bit search finds the lowest set bit *)
Lemma first_set_bit_lowbit d s len l : lowbit d = Some l -> s <= l -> l < s + len ->
  first_set_bit d s len = Some l.
Proof.
  intros E. pose proof (lowbit_spec d) as S. rewrite E in S. destruct S as [S1 S2].
  revert s. induction len as [|len IH]; intros s Hs Hl; [lia|]. cbn [first_set_bit].
  destruct (Nat.eq_dec s l) as [-> |Hne]; [now rewrite S1|].
  rewrite S2 by lia. apply IH; lia.
Qed.

Lemma lowbit_shr d l s : lowbit d = Some l -> s <= l -> lowbit (shr d s) = Some (l - s).
Proof.
  intros E Hs. pose proof (lowbit_spec d) as S. rewrite E in S. destruct S as [S1 S2].
  apply lowbit_unique.
  - rewrite testbit_shr. now replace (l - s + s) with l by lia.
  - intros j Hj. rewrite testbit_shr. apply S2. lia.
Qed.

(* ------------------------------------------------------------------------------------------ *)
(** * early-exit loop with an invariant *)
Lemma firstM_inv {R} (I : nat -> Prop) (Q : R -> Prop) (f : nat -> res (option R)) a n :
  I a ->
  (forall k, a <= k < a + n -> I k ->
     (f k = Ok None /\ I (S k)) \/ (exists v, f k = Ok (Some v) /\ Q v)) ->
  (firstM (seq a n) f = Ok None /\ I (a + n)) \/ (exists v, firstM (seq a n) f = Ok (Some v) /\ Q v).
Proof.
  revert a. induction n as [|n IH]; intros a Ia Hstep; cbn [seq firstM].
  - left. rewrite Nat.add_0_r. auto.
  - destruct (Hstep a ltac:(lia) Ia) as [[E Ia']|(v & E & Qv)]; rewrite E; cbn [bind].
    + replace (a + S n) with (S a + n) by lia. apply IH; [assumption|]. intros k Hk. apply Hstep. lia.
    + right. eauto.
Qed.

(* ------------------------------------------------------------------------------------------ *)
(** * mzd_find_pivot *)
Section Pivot.
  Variables (hA : hdr) (mem : list N) (r0 c0 : nat).
  Hypothesis Hv : valid hA mem.
  Let A := abs hA mem.
  Let rows := seq r0 (h_nrows hA - r0).

  (** columns [c0, X) are zero in the rows >= r0 *)
  Definition zero_upto (X : nat) : Prop := forall i j, r0 <= i -> c0 <= j -> j < X -> get A i j = false.

  Lemma zero_upto_mono X X' : X' <= X -> zero_upto X -> zero_upto X'.
  Proof. intros H Z i j Hi Hj Hx. apply Z; lia. Qed.

  Lemma zero_all_none : zero_upto (h_ncols hA) -> find_pivot A r0 c0 = None.
  Proof.
    intros Z. apply (find_pivot_spec A r0 c0 (abs_wf hA mem)). intros i j Hi Hj.
    destruct (Nat.lt_ge_cases j (h_ncols hA)); [now apply Z|]. apply get_out_col; [apply abs_wf|assumption].
  Qed.

  Lemma scan_word_spec (load : nat -> res N) brk (v : nat -> N) base lo hi cand0 :
    (forall i, r0 <= i < h_nrows hA -> load i = Ok (v i)) ->
    (forall i t, r0 <= i < h_nrows hA ->
       N.testbit (v i) (N.of_nat t) = (lo <=? t) && (t <? hi) && get A i (base + t)) ->
    hi <= 64 -> c0 <= base + lo -> match brk with None => True | Some b => b <= lo end ->
    zero_upto (base + lo) ->
    exists d c, pivot_scan load brk rows (0%N, cand0) = Ok (d, c) /\
      match lowbit d with
      | None => d = 0%N /\ zero_upto (base + hi)
      | Some l => lo <= l < hi /\ find_pivot A r0 c0 = Some (c, base + l)
      end.
  Proof.
    intros Hload Hbits Hhi Hc0 Hbrk Z.
    assert (Hlt : forall i, r0 <= i < h_nrows hA -> (v i < 2 ^ 64)%N).
    { intros i Hi. change 64%N with (N.of_nat 64). apply bounded_lt. intros t Ht. rewrite Hbits by assumption.
      destruct (Nat.ltb_spec t hi); [lia|]. now rewrite andb_false_r. }
    assert (Hin : forall i, In i rows -> r0 <= i < h_nrows hA) by (intros i Hi; apply in_seq in Hi; lia).
    rewrite (pivot_scan_ok load brk v rows (0%N, cand0)); auto.
    2:{ reflexivity. }
    2:{ destruct brk as [b|]; [|exact I]. intros i Hi j Hj. rewrite Hbits by auto.
        destruct (Nat.leb_spec lo j); [lia|]. reflexivity. }
    destruct (scan_pure_spec v r0 (h_nrows hA - r0) cand0) as [Inv _]; [intros; apply Hlt; lia|].
    fold rows in Inv. destruct (scan_pure v rows (0%N, cand0)) as [d c]. exists d, c. split; [reflexivity|].
    unfold scan_inv in Inv. cbn [fst snd] in Inv. destruct (lowbit d) as [l|] eqn:El.
    - destruct Inv as (Hc & Ed & HA' & HB').
      pose proof (lowbit_spec d) as S. rewrite El in S. destruct S as [S1 _].
      rewrite Ed, Hbits in S1 by lia. apply andb_true_iff in S1. destruct S1 as [S1 G].
      apply andb_true_iff in S1. destruct S1 as [L1 L2]. apply Nat.leb_le in L1. apply Nat.ltb_lt in L2.
      split; [lia|]. apply find_pivot_unique; [apply abs_wf|assumption|lia|lia| |].
      + intros i j Hi Hj Hjl. destruct (Nat.lt_ge_cases j (base + lo)) as [Hlo|Hlo]; [now apply Z|].
        destruct (Nat.lt_ge_cases i (h_nrows hA)) as [Hin'|Hout]; [|apply get_out_row; [apply abs_wf|assumption]].
        pose proof (HA' i (j - base) ltac:(lia) ltac:(lia)) as B. rewrite Hbits in B by lia.
        destruct (Nat.leb_spec lo (j - base)); [|lia]. destruct (Nat.ltb_spec (j - base) hi); [|lia].
        cbn [andb] in B. now replace (base + (j - base)) with j in B by lia.
      + intros i Hi Hic. pose proof (HB' i ltac:(lia)) as B. rewrite Hbits in B by lia.
        destruct (Nat.leb_spec lo l); [|lia]. destruct (Nat.ltb_spec l hi); [|lia]. exact B.
    - apply lowbit_none in El. split; [assumption|]. intros i j Hi Hj Hx.
      destruct (Nat.lt_ge_cases j (base + lo)) as [Hlo|Hlo]; [now apply Z|].
      destruct (Nat.lt_ge_cases i (h_nrows hA)) as [Hin'|Hout]; [|apply get_out_row; [apply abs_wf|assumption]].
      pose proof (Hbits i (j - base) ltac:(lia)) as B. rewrite Inv, N.bits_0 in B by lia.
      destruct (Nat.leb_spec lo (j - base)); [|lia]. destruct (Nat.ltb_spec (j - base) hi); [|lia].
      cbn [andb] in B. now replace (base + (j - base)) with j in B by lia.
  Qed.

  Theorem w_find_pivot_ok : w_find_pivot hA r0 c0 mem = Ok (find_pivot A r0 c0).
  Proof.
    pose proof (valid_hdr_ok _ _ Hv) as Hok. pose proof (valid_mem_ok _ _ Hv) as Hm.
    pose proof Hok as [HW _].
    assert (Z0 : zero_upto c0) by (intros i j _ H1 H2; lia).
    unfold w_find_pivot. cbv zeta. fold rows.
    destruct (Nat.ltb_spec (h_ncols hA - c0) 64) as [P1|P2].
    - (* fewer than 64 columns left: mzd_read_bits *)
      destruct (Nat.leb_spec (h_ncols hA) c0) as [Hout|Hin].
      { f_equal. symmetry. apply zero_all_none. intros i j _ H1 H2. lia. }
      replace (Nat.min 64 (h_ncols hA - c0)) with (h_ncols hA - c0) by lia. set (len := h_ncols hA - c0).
      destruct (scan_word_spec (fun i => w_read_bits hA i c0 len mem) None
                  (fun i => read_bits A i c0 len) c0 0 len 0) as (d & c & E & S).
      { intros i Hi. apply w_read_bits_ok; auto; subst len; lia. }
      { intros i t Hi. rewrite testbit_read_bits. destruct (Nat.leb_spec 0 t); [reflexivity|lia]. }
      { subst len; lia. }
      { lia. }
      { exact I. }
      { now rewrite Nat.add_0_r. }
      rewrite E. cbn [bind]. destruct (lowbit d) as [l|] eqn:El.
      + destruct S as [Hl F]. assert (d <> 0%N) by (intros ->; discriminate).
        destruct (N.eqb_spec d 0); [congruence|]. cbn [negb].
        rewrite (first_set_bit_lowbit d 0 len l El) by lia. now rewrite F.
      + destruct S as [-> Z]. cbn [negb N.eqb]. f_equal. symmetry. apply zero_all_none.
        now replace (c0 + len) with (h_ncols hA) in Z by (subst len; lia).
    - (* at least one full word: first word under mask_begin *)
      set (bo := c0 mod 64). set (wo := c0 / 64). set (W := h_width hA) in *.
      assert (HwoW : wo < W) by (subst wo W; rewrite HW; lia).
      assert (Hrd : forall i k, r0 <= i < h_nrows hA -> k < W -> rd mem (row_addr hA i + k) = Ok (word_at mem (row_addr hA i + k))).
      { intros i k Hi Hk. apply rd_ok. apply valid_word; auto; lia. }
      destruct (scan_word_spec (fun i => w <- rd mem (row_addr hA i + wo) ;; Ok (N.land w (right_bitmask (64 - bo))))
                  (Some bo) (fun i => N.land (word_at mem (row_addr hA i + wo)) (right_bitmask (64 - bo)))
                  (64 * wo) bo 64 0) as (d & c & E & S).
      { intros i Hi. now rewrite Hrd by assumption. }
      { intros i t Hi. rewrite N.land_spec, testbit_right_bitmask.
        replace (64 - (64 - bo)) with bo by (subst bo; lia).
        destruct (Nat.leb_spec bo t), (Nat.ltb_spec t 64); cbn [andb]; rewrite ?andb_false_r; try reflexivity.
        rewrite andb_true_r. unfold A. rewrite get_abs by (auto; subst bo wo; lia). unfold bit.
        replace ((64 * wo + t) / 64) with wo by lia. replace ((64 * wo + t) mod 64) with t by lia. reflexivity. }
      { lia. }
      { subst bo wo; lia. }
      { lia. }
      { replace (64 * wo + bo) with c0 by (subst bo wo; lia). exact Z0. }
      rewrite E. cbn [bind]. destruct (lowbit d) as [l|] eqn:El.
      { destruct S as [Hl F]. assert (d <> 0%N) by (intros ->; discriminate).
        destruct (N.eqb_spec d 0); [congruence|]. cbn [negb].
        rewrite (first_set_bit_lowbit (shr d bo) 0 (64 - bo) (l - bo)) by (try apply lowbit_shr; auto; lia).
        rewrite F. do 3 f_equal. subst bo wo. lia. }
      destruct S as [-> Z1]. cbn [negb N.eqb].
      (* complete words *)
      destruct (firstM_inv (fun wi => zero_upto (64 * wi)) (fun rc => find_pivot A r0 c0 = Some rc)
        (fun wi =>
           st <- pivot_scan (fun i => rd mem (row_addr hA i + wi)) (Some 0) rows (0%N, c) ;;
           let '(data, cand) := st in
           if negb (data =? 0)%N then
             Ok (Some (match first_set_bit data 0 64 with
                       | Some l => (cand, wi * 64 + l) | None => (cand, 0) end))
           else Ok None) (wo + 1) (W - 1 - (wo + 1))) as [[E2 Z2]|(rc & E2 & F2)].
      { now replace (64 * (wo + 1)) with (64 * wo + 64) by lia. }
      { intros wi Hwi Zw.
        destruct (scan_word_spec (fun i => rd mem (row_addr hA i + wi)) (Some 0)
                    (fun i => word_at mem (row_addr hA i + wi)) (64 * wi) 0 64 c) as (d & c' & E' & S').
        { intros i Hi. apply Hrd; [assumption|lia]. }
        { intros i t Hi. destruct (Nat.leb_spec 0 t); [|lia]. cbn [andb].
          destruct (Nat.ltb_spec t 64) as [Ht|Ht]; cbn [andb].
          - unfold A. rewrite get_abs by (auto; subst W; rewrite HW in *; lia). unfold bit.
            replace ((64 * wi + t) / 64) with wi by lia. replace ((64 * wi + t) mod 64) with t by lia. reflexivity.
          - apply testbit_word_high; [now apply mem_ok_word|assumption]. }
        { lia. }
        { subst bo wo. lia. }
        { lia. }
        { now rewrite Nat.add_0_r. }
        rewrite E'. cbn [bind]. destruct (lowbit d) as [l|] eqn:El'.
        - right. destruct S' as [Hl F]. assert (d <> 0%N) by (intros ->; discriminate).
          destruct (N.eqb_spec d 0); [congruence|]. cbn [negb].
          rewrite (first_set_bit_lowbit d 0 64 l El') by lia. eexists. split; [reflexivity|].
          now rewrite (Nat.mul_comm wi 64).
        - left. destruct S' as [-> Z']. cbn [negb N.eqb]. split; [reflexivity|].
          now replace (64 * S wi) with (64 * wi + 64) by lia. }
      2:{ rewrite E2. cbn [bind]. now rewrite F2. }
      rewrite E2. cbn [bind].
      (* last word *)
      set (eo := if negb (h_ncols hA mod 64 =? 0) then h_ncols hA mod 64 else 64).
      assert (Heo : 1 <= eo <= 64 /\ 64 * (W - 1) + eo = h_ncols hA).
      { subst eo W. rewrite HW. destruct (Nat.eqb_spec (h_ncols hA mod 64) 0); cbn [negb]; lia. }
      destruct (scan_word_spec (fun i => w <- rd mem (row_addr hA i + (W - 1)) ;; Ok (N.land w (left_bitmask (eo mod 64))))
                  (Some 0) (fun i => N.land (word_at mem (row_addr hA i + (W - 1))) (left_bitmask (eo mod 64)))
                  (64 * (W - 1)) 0 eo c) as (d & c' & E3 & S3).
      { intros i Hi. now rewrite Hrd by (assumption || lia). }
      { intros i t Hi. rewrite N.land_spec, testbit_left_bitmask by lia.
        destruct (Nat.leb_spec 0 t); [|lia]. cbn [andb].
        assert (TM : (if eo mod 64 =? 0 then t <? 64 else t <? eo mod 64) = (t <? eo) && (t <? 64)).
        { destruct (Nat.eqb_spec (eo mod 64) 0), (Nat.ltb_spec t 64), (Nat.ltb_spec t (eo mod 64)), (Nat.ltb_spec t eo);
            cbn [andb]; try reflexivity; lia. }
        rewrite TM. destruct (Nat.ltb_spec t eo) as [Ht|Ht]; cbn [andb]; [|apply andb_false_r].
        destruct (Nat.ltb_spec t 64); [|lia]. rewrite andb_true_r.
        unfold A. rewrite get_abs by (auto; lia). unfold bit.
        replace ((64 * (W - 1) + t) / 64) with (W - 1) by lia. replace ((64 * (W - 1) + t) mod 64) with t by lia.
        reflexivity. }
      { lia. }
      { subst bo wo. lia. }
      { lia. }
      { rewrite Nat.add_0_r. apply (zero_upto_mono (64 * (wo + 1 + (W - 1 - (wo + 1))))); [lia|exact Z2]. }
      rewrite E3. cbn [bind]. destruct (lowbit d) as [l|] eqn:El3.
      + destruct S3 as [Hl F]. assert (d <> 0%N) by (intros ->; discriminate).
        destruct (N.eqb_spec d 0); [congruence|]. cbn [negb].
        rewrite (first_set_bit_lowbit d 0 eo l El3) by lia. rewrite F. now rewrite (Nat.mul_comm (W - 1) 64).
      + destruct S3 as [-> Z3]. cbn [negb N.eqb]. f_equal. symmetry. apply zero_all_none.
        destruct Heo as [_ Heo]. now rewrite Heo in Z3.
  Qed.
End Pivot.
