(* Word/WRefine9.v — refinement / frame / padding theorems, part 9:
   * fresh destinations (mzd_submatrix / mzd_concat / mzd_stack with a NULL destination) over the
     repaired kernels: result = abstract operation, zero padding, old allocation untouched;
   * mzd_extract_u over any submatrix step that meets the submatrix specification (so it applies to
     the repaired mzd_submatrix), supplied or fresh destination.
   No axioms. *)
From Coq Require Import List NArith Arith Lia Bool ZifyBool ZifyNat ZifyN ZArith.
From M4 Require Import Base.Bits Lin.Mat Lin.Ops Lin.OpsProofs Word.WMat Word.WOps Word.WMatLemmas
  Word.WRefineLemmas Word.WRefine Word.WRefine2 Word.WRefine3 Word.WRefine4 Word.WRefine5.
Import ListNotations.
Local Open Scope nat_scope.
Ltac Zify.zify_post_hook ::= Z.div_mod_to_equations.

(* ------------------------------------------------------------------------------------------ *)
(** * fresh destinations *)
(** the NULL-destination forms over the repaired kernels (WOps.v's w_*_fresh still call the pinned
    kernels; these are the same three lines over the [_fixed] ones) *)
Definition w_submatrix_fixed_fresh (hM : hdr) (sr sc er ec : nat) (mem : list N) : res (list N * hdr) :=
  let '(mem0, hS) := w_alloc mem (er - sr) (ec - sc) in
  m <- w_submatrix_fixed hS hM sr sc er ec mem0 ;; Ok (m, hS).
Definition w_concat_fixed_fresh (hA hB : hdr) (mem : list N) : res (list N * hdr) :=
  if negb (h_nrows hA =? h_nrows hB) then Err Die else
  let '(mem0, hC) := w_alloc mem (h_nrows hA) (h_ncols hA + h_ncols hB) in
  m <- w_concat_fixed hC hA hB mem0 ;; Ok (m, hC).
Definition w_stack_fixed_fresh (hA hB : hdr) (mem : list N) : res (list N * hdr) :=
  if negb (h_ncols hA =? h_ncols hB) then Err Die else
  let '(mem0, hC) := w_alloc mem (h_nrows hA + h_nrows hB) (h_ncols hA) in
  m <- w_stack_fixed hC hA hB mem0 ;; Ok (m, hC).

(** what a call with a fresh destination guarantees, given the supplied-destination theorem *)
Definition fresh_post (mem : list N) (M : mat) (m' : list N) (hC : hdr) : Prop :=
  mem_ok m' /\ valid hC m' /\ owned hC = true /\ abs hC m' = M /\ padding_zero hC m' /\
  firstn (length mem) m' = mem.

Lemma fresh_generic (K : hdr -> list N -> res (list N)) (srcs : list hdr) r c mem (M : mat) :
  mem_ok mem -> (forall h, In h srcs -> valid h mem) ->
  (forall hC mem0, valid hC mem0 -> h_nrows hC = r -> h_ncols hC = c -> padding_zero hC mem0 ->
      (forall h, In h srcs -> valid h mem0 /\ wdisjoint hC h /\ abs h mem0 = abs h mem) ->
      exists m', K hC mem0 = Ok m' /\ length m' = length mem0 /\ mem_ok m' /\ abs hC m' = M /\
                 outside hC mem0 m') ->
  exists m', K (snd (w_alloc mem r c)) (fst (w_alloc mem r c)) = Ok m' /\
             fresh_post mem M m' (snd (w_alloc mem r c)).
Proof.
  intros Hm Hsrc HK.
  pose proof (alloc_valid mem r c Hm) as HvC.
  destruct (HK _ _ HvC eq_refl eq_refl (alloc_padding mem r c)) as (m' & E & L & O & A & Out).
  { intros h Hh. split; [apply (alloc_old_valid mem r c); auto|]. split; [apply (alloc_disjoint mem r c); auto|].
    apply (alloc_old_abs mem r c); auto. }
  exists m'. split; [exact E|]. split; [assumption|]. split; [eapply valid_same_length; eassumption|].
  split; [reflexivity|]. split; [assumption|]. split.
  - apply (outside_padding _ (fst (w_alloc mem r c)) m'); auto; [now destruct HvC|apply (alloc_padding mem r c)].
  - now apply (alloc_prefix mem r c).
Qed.

Theorem w_submatrix_fixed_fresh_ok hM sr sc er ec mem :
  valid hM mem -> sr <= er -> er <= h_nrows hM -> ec <= h_ncols hM -> sc < ec ->
  exists m' hS, w_submatrix_fixed_fresh hM sr sc er ec mem = Ok (m', hS) /\
    fresh_post mem (msub (abs hM mem) sr sc (er - sr) (ec - sc)) m' hS.
Proof.
  intros HvM Hsr Her Hec Hsc. pose proof (valid_mem_ok _ _ HvM) as Hm.
  destruct (fresh_generic (fun hS m => w_submatrix_fixed hS hM sr sc er ec m) [hM] (er - sr) (ec - sc) mem
              (msub (abs hM mem) sr sc (er - sr) (ec - sc)) Hm) as (m' & E & P).
  - intros h [<- |[]]. assumption.
  - intros hS mem0 HvS Hr Hc _ Hs. destruct (Hs hM (or_introl eq_refl)) as (HvM0 & Dj & AM).
    rewrite <- AM. apply w_submatrix_fixed_ok; auto.
  - unfold w_submatrix_fixed_fresh. destruct (w_alloc mem (er - sr) (ec - sc)) as [mem0 hS]. cbn [fst snd] in *.
    rewrite E. cbn [bind]. eauto.
Qed.

Theorem w_concat_fixed_fresh_ok hA hB mem :
  valid hA mem -> valid hB mem -> 0 < h_ncols hA -> h_nrows hA = h_nrows hB ->
  exists m' hC, w_concat_fixed_fresh hA hB mem = Ok (m', hC) /\
    fresh_post mem (mconcat (abs hA mem) (abs hB mem)) m' hC.
Proof.
  intros HvA HvB Hc0 Er. pose proof (valid_mem_ok _ _ HvA) as Hm.
  destruct (fresh_generic (fun hC m => w_concat_fixed hC hA hB m) [hA; hB] (h_nrows hA) (h_ncols hA + h_ncols hB) mem
              (mconcat (abs hA mem) (abs hB mem)) Hm) as (m' & E & P).
  - intros h [<- |[<- |[]]]; assumption.
  - intros hC mem0 HvC Hr Hc _ Hs. destruct (Hs hA (or_introl eq_refl)) as (HvA0 & DjA & AA).
    destruct (Hs hB (or_intror (or_introl eq_refl))) as (HvB0 & DjB & AB).
    rewrite <- AA, <- AB. apply w_concat_fixed_ok; auto; lia.
  - unfold w_concat_fixed_fresh. rewrite Er, Nat.eqb_refl. cbn [negb]. rewrite <- Er.
    destruct (w_alloc mem (h_nrows hA) (h_ncols hA + h_ncols hB)) as [mem0 hC]. cbn [fst snd] in *.
    rewrite E. cbn [bind]. eauto.
Qed.

Theorem w_stack_fixed_fresh_ok hA hB mem :
  valid hA mem -> valid hB mem -> 0 < h_ncols hA -> h_ncols hA = h_ncols hB ->
  exists m' hC, w_stack_fixed_fresh hA hB mem = Ok (m', hC) /\
    fresh_post mem (mstack (abs hA mem) (abs hB mem)) m' hC.
Proof.
  intros HvA HvB Hc0 Ec. pose proof (valid_mem_ok _ _ HvA) as Hm.
  destruct (fresh_generic (fun hC m => w_stack_fixed hC hA hB m) [hA; hB] (h_nrows hA + h_nrows hB) (h_ncols hA) mem
              (mstack (abs hA mem) (abs hB mem)) Hm) as (m' & E & P).
  - intros h [<- |[<- |[]]]; assumption.
  - intros hC mem0 HvC Hr Hc _ Hs. destruct (Hs hA (or_introl eq_refl)) as (HvA0 & DjA & AA).
    destruct (Hs hB (or_intror (or_introl eq_refl))) as (HvB0 & DjB & AB).
    rewrite <- AA, <- AB. apply w_stack_fixed_ok; auto; lia.
  - unfold w_stack_fixed_fresh. rewrite Ec, Nat.eqb_refl. cbn [negb]. rewrite <- Ec.
    destruct (w_alloc mem (h_nrows hA + h_nrows hB) (h_ncols hA)) as [mem0 hC]. cbn [fst snd] in *.
    rewrite E. cbn [bind]. eauto.
Qed.

(* ------------------------------------------------------------------------------------------ *)
(** * mzd_extract_u: clear the strict lower triangle of the k x k block *)
Lemma extract_u_row hU i mem : valid hU mem -> 1 <= i -> i < h_nrows hU -> i < h_ncols hU ->
  exists m',
    (m1 <- forM (seq 0 (i / 64)) (fun j m => wr m (row_addr hU i + j) 0%N) mem ;;
     if negb (i mod 64 =? 0) then w_clear_bits hU i ((i / 64) * 64) (i mod 64) m1 else Ok m1) = Ok m' /\
    length m' = length mem /\ mem_ok m' /\ touched hU i 0 (h_ncols hU) mem m' /\
    rowval hU m' i = N.ldiff (rowval hU mem i) (N.ones (N.of_nat i)).
Proof.
  intros Hv Hi1 Hi Hic. pose proof (valid_hdr_ok _ _ Hv) as Hok. pose proof (valid_mem_ok _ _ Hv) as Hm.
  pose proof (width_pos hU i Hok Hic) as Hiw.
  pose proof (valid_word hU mem i (i / 64) Hv Hi Hiw).
  destruct (forM_store (row_addr hU i) 0 (i / 64) (fun _ => 0%N)
              (fun j m => wr m (row_addr hU i + j) 0%N) mem Hm ltac:(lia)) as (m1 & E1 & L1 & O1 & D1).
  { reflexivity. }
  rewrite E1. cbn [bind]. cbn [Nat.add] in D1.
  assert (D1' : desc m1 (stored (row_addr hU i + 0) 0 (i / 64) (fun _ => 0%N) mem))
    by (intros p; rewrite D1, Nat.add_0_r; reflexivity).
  destruct (row_kernel hU i 0 (i / 64) 0 (64 * (i / 64)) _ mem m1 Hok ltac:(lia) L1 D1') as [T1 B1].
  { intros k b Hk Hb Hn. lia. }
  assert (R1 : forall j, N.testbit (rowval hU m1 i) (N.of_nat j) =
             N.testbit (rowval hU mem i) (N.of_nat j) && negb (j <? 64 * (i / 64))).
  { intros j. destruct (Nat.lt_ge_cases j (h_ncols hU)) as [Hj|Hj]; [|now rewrite !rowval_bounded by lia].
    rewrite B1 by assumption. cbn [Nat.add].
    destruct (Nat.leb_spec 0 (j / 64)); [|lia]. cbn [andb].
    destruct (Nat.ltb_spec (j / 64) (i / 64)), (Nat.ltb_spec j (64 * (i / 64))); try lia; cbn [negb].
    - now rewrite N.bits_0, andb_false_r.
    - now rewrite andb_true_r. }
  destruct (Nat.eqb_spec (i mod 64) 0) as [E0|E0]; cbn [negb].
  - exists m1. split; [reflexivity|]. split; [assumption|]. split; [assumption|]. split.
    + apply (touched_weaken hU i 0 (64 * (i / 64))); [lia|lia|assumption].
    + apply bits_ext_nat. intros j. rewrite R1, N.ldiff_spec, testbit_ones_nat.
      replace (64 * (i / 64)) with i by lia. reflexivity.
  - destruct (w_clear_bits_ok hU m1 i ((i / 64) * 64) (i mod 64)) as (m' & E & L' & O' & T' & B');
      try (eapply valid_same_length; eassumption); try lia.
    exists m'. split; [exact E|]. split; [congruence|]. split; [assumption|]. split.
    + apply (touched_trans hU i 0 (h_ncols hU) mem m1 m').
      * apply (touched_weaken hU i 0 (64 * (i / 64))); [lia|lia|assumption].
      * apply (touched_weaken hU i (i / 64 * 64) (i / 64 * 64 + i mod 64)); [lia|lia|assumption].
    + apply bits_ext_nat. intros j. rewrite B', R1, N.ldiff_spec, testbit_ones_nat.
      rewrite <- andb_assoc. f_equal.
      destruct (Nat.ltb_spec j (64 * (i / 64))), (Nat.leb_spec (i / 64 * 64) j), (Nat.ltb_spec j (i / 64 * 64 + i mod 64)),
        (Nat.ltb_spec j i); cbn [negb andb]; try reflexivity; lia.
Qed.

Lemma extract_u_tail hU m0 : valid hU m0 -> h_nrows hU <= h_ncols hU ->
  exists m', forM (seq 1 (h_nrows hU - 1)) (fun i m =>
      let row := row_addr hU i in
      m1 <- forM (seq 0 (i / 64)) (fun j m => wr m (row + j) 0%N) m ;;
      if negb (i mod 64 =? 0) then w_clear_bits hU i ((i / 64) * 64) (i mod 64) m1 else Ok m1) m0 = Ok m' /\
    length m' = length m0 /\ mem_ok m' /\ outside hU m0 m' /\
    abs hU m' = map_rows (fun i r => N.ldiff r (N.ones (N.of_nat i))) (abs hU m0).
Proof.
  intros Hv Hsq. pose proof (valid_hdr_ok _ _ Hv) as Hok. pose proof (valid_mem_ok _ _ Hv) as Hm.
  destruct (Nat.eq_dec (h_nrows hU) 0) as [Z|NZ].
  { rewrite Z. cbn [Nat.sub seq forM]. exists m0. split; [reflexivity|]. split; [reflexivity|].
    split; [assumption|]. split; [apply outside_refl|]. apply abs_rows_ext; try reflexivity.
    - now rewrite rows_map_rows_length, rows_abs_length.
    - intros i Hi. lia. }
  destruct (rows_loop hU 0 1 (h_nrows hU - 1) 0 (h_ncols hU)
     (fun k => N.ldiff (rowval hU m0 k) (N.ones (N.of_nat k)))
     (fun i m =>
        m1 <- forM (seq 0 (i / 64)) (fun j m => wr m (row_addr hU i + j) 0%N) m ;;
        if negb (i mod 64 =? 0) then w_clear_bits hU i ((i / 64) * 64) (i mod 64) m1 else Ok m1) m0 Hok
     ltac:(lia) ltac:(lia) Hm) as (m' & E & L & O & Out & Done & Rest).
  - intros k m Hk Lm Om Outm Restm. cbn [Nat.add] in *.
    destruct (extract_u_row hU k m) as (m' & E & L' & O' & T & B);
      try (eapply valid_same_length; eassumption); try lia.
    exists m'. split; [exact E|]. split; [assumption|]. split; [assumption|].
    rewrite B, Restm by lia. reflexivity.
  - exists m'. split; [exact E|]. do 3 (split; [assumption|]).
    apply abs_rows_ext; try reflexivity.
    + now rewrite rows_map_rows_length, rows_abs_length.
    + intros i Hi. rewrite row_map_rows by now rewrite rows_abs_length. rewrite row_abs by assumption.
      cbn [Nat.add] in *. destruct (Nat.eq_dec i 0) as [-> |Hne].
      * rewrite Rest by lia. apply bits_ext_nat. intros j. rewrite N.ldiff_spec, testbit_ones_nat.
        destruct (Nat.ltb_spec j 0); [lia|]. now rewrite andb_true_r.
      * apply (Done i). lia.
Qed.

(** mzd_extract_u over ANY submatrix step [sub] meeting the submatrix specification *)
Theorem w_extract_u_generic (sub : hdr -> hdr -> nat -> nat -> nat -> nat -> list N -> res (list N))
  hU hA mem m0 :
  let k := Nat.min (h_nrows hA) (h_ncols hA) in
  valid hU mem -> h_nrows hU = k -> h_ncols hU = k ->
  sub hU hA 0 0 k k mem = Ok m0 -> length m0 = length mem -> mem_ok m0 ->
  abs hU m0 = msub (abs hA mem) 0 0 k k -> outside hU mem m0 ->
  exists m', (m0 <- sub hU hA 0 0 k k mem ;;
              forM (seq 1 (h_nrows hU - 1)) (fun i m =>
                let row := row_addr hU i in
                m1 <- forM (seq 0 (i / 64)) (fun j m => wr m (row + j) 0%N) m ;;
                if negb (i mod 64 =? 0) then w_clear_bits hU i ((i / 64) * 64) (i mod 64) m1 else Ok m1) m0) = Ok m' /\
    length m' = length mem /\ mem_ok m' /\ abs hU m' = extract_u (abs hA mem) /\ outside hU mem m'.
Proof.
  intros k HvU Hr Hc Es L0 O0 A0 Out0. rewrite Es. cbn [bind].
  destruct (extract_u_tail hU m0) as (m' & E & L & O & Out & A).
  - eapply valid_same_length; eassumption.
  - lia.
  - exists m'. split; [exact E|]. split; [congruence|]. split; [assumption|]. split.
    + rewrite A, A0. reflexivity.
    + eapply outside_trans; eassumption.
Qed.

(** instance: mzd_extract_u with the repaired mzd_submatrix *)
Definition w_extract_u_fx (hU hA : hdr) (mem : list N) : res (list N) :=
  let k := Nat.min (h_nrows hA) (h_ncols hA) in
  m0 <- w_submatrix_fixed hU hA 0 0 k k mem ;;
  forM (seq 1 (h_nrows hU - 1)) (fun i m =>
    let row := row_addr hU i in
    m1 <- forM (seq 0 (i / 64)) (fun j m => wr m (row + j) 0%N) m ;;
    if negb (i mod 64 =? 0) then w_clear_bits hU i ((i / 64) * 64) (i mod 64) m1 else Ok m1) m0.

Theorem w_extract_u_fx_ok hU hA mem :
  let k := Nat.min (h_nrows hA) (h_ncols hA) in
  valid hU mem -> valid hA mem -> 0 < k -> h_nrows hU = k -> h_ncols hU = k -> wdisjoint hU hA ->
  exists m', w_extract_u_fx hU hA mem = Ok m' /\ length m' = length mem /\ mem_ok m' /\
    abs hU m' = extract_u (abs hA mem) /\ outside hU mem m'.
Proof.
  intros k HvU HvA Hk Hr Hc Dj.
  destruct (w_submatrix_fixed_ok hU hA 0 0 k k mem) as (m0 & E0 & L0 & O0 & A0 & Out0); auto; try (subst k; lia).
  rewrite Nat.sub_0_r in A0.
  exact (w_extract_u_generic w_submatrix_fixed hU hA mem m0 HvU Hr Hc E0 L0 O0 A0 Out0).
Qed.

(** the model of WOps.v (pinned mzd_submatrix inside): same conclusion whenever its submatrix step
    meets the submatrix specification *)
Theorem w_extract_u_ok_of_sub hU hA mem m0 :
  let k := Nat.min (h_nrows hA) (h_ncols hA) in
  valid hU mem -> h_nrows hU = k -> h_ncols hU = k ->
  w_submatrix hU hA 0 0 k k mem = Ok m0 -> length m0 = length mem -> mem_ok m0 ->
  abs hU m0 = msub (abs hA mem) 0 0 k k -> outside hU mem m0 ->
  exists m', w_extract_u hU hA mem = Ok m' /\ length m' = length mem /\ mem_ok m' /\
    abs hU m' = extract_u (abs hA mem) /\ outside hU mem m'.
Proof. intros k. exact (w_extract_u_generic w_submatrix hU hA mem m0). Qed.

Definition w_extract_u_fx_fresh (hA : hdr) (mem : list N) : res (list N * hdr) :=
  let k := Nat.min (h_nrows hA) (h_ncols hA) in
  let '(mem0, hU) := w_alloc mem k k in
  m <- w_extract_u_fx hU hA mem0 ;; Ok (m, hU).

Theorem w_extract_u_fx_fresh_ok hA mem : valid hA mem -> 0 < Nat.min (h_nrows hA) (h_ncols hA) ->
  exists m' hU, w_extract_u_fx_fresh hA mem = Ok (m', hU) /\ fresh_post mem (extract_u (abs hA mem)) m' hU.
Proof.
  intros HvA Hk. pose proof (valid_mem_ok _ _ HvA) as Hm. set (k := Nat.min (h_nrows hA) (h_ncols hA)) in *.
  destruct (fresh_generic (fun hU m => w_extract_u_fx hU hA m) [hA] k k mem (extract_u (abs hA mem)) Hm)
    as (m' & E & P).
  - intros h [<- |[]]. assumption.
  - intros hU mem0 HvU Hr Hc _ Hs. destruct (Hs hA (or_introl eq_refl)) as (HvA0 & Dj & AA).
    rewrite <- AA. apply w_extract_u_fx_ok; auto.
  - unfold w_extract_u_fx_fresh. fold k. destruct (w_alloc mem k k) as [mem0 hU]. cbn [fst snd] in *.
    rewrite E. cbn [bind]. eauto.
Qed.
