(* Word/WRefine13.v — refinement / frame / padding theorems, part 13:
   * [w_row_clear_offset_fixed] (the one-line mask repair of mzd_row_clear_offset, which still stores
     whole zero words): refinement for every header; frame and padding under the owned-matrix
     invariant (zero excess bits) — the full frame needs [w_row_clear_offset_fixed2] (WRefine6.v);
   * the dispatcher mzd_combine.
   No axioms. *)
From Coq Require Import List NArith Arith Lia Bool ZifyBool ZifyNat ZifyN ZArith.
From M4 Require Import Base.Bits Lin.Mat Lin.Ops Lin.OpsProofs Word.WMat Word.WOps Word.WMatLemmas
  Word.WRefineLemmas Word.WRefine Word.WRefine2 Word.WRefine6 Word.WRefine10.
Import ListNotations.
Local Open Scope nat_scope.
Ltac Zify.zify_post_hook ::= Z.div_mod_to_equations.

(** the frame of the widened view plus zero padding before and after gives the frame of the view *)
Lemma widen_frame h m m' : hdr_ok h -> outside (widen h) m m' ->
  padding_zero h m -> padding_zero h m' -> outside h m m'.
Proof.
  intros Hok [L Ho] P P'. pose proof (widen_ok h Hok) as HokW. split; [assumption|]. intros p b Hb Hn.
  destruct (in_viewb (widen h) p b) eqn:Ev.
  - apply in_viewb_spec in Ev; [|assumption]. destruct Ev as (i & j & Hi & Hj & -> & ->).
    change (h_nrows (widen h)) with (h_nrows h) in Hi. change (h_ncols (widen h)) with (64 * h_width h) in Hj.
    change (row_addr (widen h) i) with (row_addr h i) in *.
    destruct (Nat.lt_ge_cases j (h_ncols h)) as [Hjc|Hjc]; [exfalso; apply Hn; now apply in_view_intro|].
    pose proof (ncols_width_lt h Hok ltac:(lia)).
    replace (j / 64) with (h_width h - 1) by lia. rewrite P, P' by lia. reflexivity.
  - apply Ho; [assumption|]. intros Hin. apply in_viewb_spec in Hin; [congruence|assumption].
Qed.

Lemma padding_from_rowval h m : hdr_ok h ->
  (forall i j, i < h_nrows h -> h_ncols h <= j -> N.testbit (rowval (widen h) m i) (N.of_nat j) = false) ->
  padding_zero h m.
Proof.
  intros Hok H i b Hi Hw Hb Hc. pose proof (widen_ok h Hok) as HokW.
  pose proof (rowval_bit (widen h) m i (64 * (h_width h - 1) + b) HokW) as B.
  change (h_ncols (widen h)) with (64 * h_width h) in B. change (row_addr (widen h) i) with (row_addr h i) in B.
  replace ((64 * (h_width h - 1) + b) / 64) with (h_width h - 1) in B by lia.
  replace ((64 * (h_width h - 1) + b) mod 64) with b in B by lia.
  rewrite B by lia. apply H; lia.
Qed.

Theorem w_row_clear_offset_fixed_ok h mem r co :
  valid h mem -> r < h_nrows h -> co < h_ncols h ->
  exists m', w_row_clear_offset_fixed h r co mem = Ok m' /\ length m' = length mem /\ mem_ok m' /\
    abs h m' = row_clear_offset (abs h mem) r co /\
    outside (widen h) mem m' /\
    (padding_zero h mem -> outside h mem m' /\ padding_zero h m').
Proof.
  intros Hv Hr Hco. pose proof (valid_hdr_ok _ _ Hv) as Hok. pose proof (valid_mem_ok _ _ Hv) as Hm.
  pose proof (widen_ok h Hok) as HokW. pose proof Hok as [HW [_ Hrs]].
  set (W := h_width h). set (sb := co / 64). set (tr := row_addr h r).
  assert (Hsb : sb < W) by (subst sb W; rewrite HW; lia).
  assert (Hw : forall k, k < W -> tr + k < length mem) by (intros; now apply valid_word).
  pose proof (Hw (W - 1) ltac:(lia)).
  unfold w_row_clear_offset_fixed. fold W sb tr.
  set (mk := if co mod 64 =? 0 then 0%N else left_bitmask (co mod 64)).
  assert (Et : exists t, (if negb (co mod 64 =? 0)
                 then t <- rd mem (tr + sb) ;; Ok (N.land t (left_bitmask (co mod 64))) else Ok 0%N) = Ok t /\
               t = N.land (word_at mem (tr + sb)) mk).
  { unfold mk. destruct (Nat.eqb_spec (co mod 64) 0); cbn [negb].
    - exists 0%N. split; [reflexivity|]. now rewrite N.land_0_r.
    - rewrite rd_ok by lia. cbn [bind]. eauto. }
  destruct Et as (t & Et & Vt). rewrite Et. cbn [bind]. rewrite wr_ok by lia. cbn [bind].
  set (m0 := upd (tr + sb) (trunc t) mem).
  assert (L0 : length m0 = length mem) by (unfold m0; now rewrite upd_length).
  assert (O0 : mem_ok m0) by (unfold m0; now apply mem_ok_upd).
  assert (D0 : desc m0 (stored tr sb (S sb) (fun _ => t) mem)) by (apply desc_upd_first; lia).
  destruct (forM_store tr (sb + 1) (W - (sb + 1)) (fun _ => 0%N)
      (fun i m => wr m (tr + i) 0%N) m0 O0 ltac:(lia)) as (m1 & E1 & L1 & O1 & D1).
  { reflexivity. }
  exists m1. split; [exact E1|]. split; [congruence|]. split; [assumption|].
  replace (sb + 1 + (W - (sb + 1))) with W in D1 by lia.
  assert (D1' : desc m1 (stored tr sb (sb + (W - sb)) (fun k => if k <? S sb then t else 0%N) mem)).
  { replace (sb + (W - sb)) with W by lia.
    apply (desc_stored_stored tr sb (S sb) W _ _ mem m0 m1); try lia; [exact D0|].
    now replace (S sb) with (sb + 1) by lia. }
  apply desc_unshift in D1'.
  assert (TM : forall b, b < 64 -> N.testbit mk (N.of_nat b) = (64 * sb + b <? co)).
  { intros b Hb. unfold mk. destruct (Nat.eqb_spec (co mod 64) 0).
    - rewrite N.bits_0. destruct (Nat.ltb_spec (64 * sb + b) co); [subst sb; lia|reflexivity].
    - rewrite testbit_left_bitmask by lia. destruct (Nat.eqb_spec (co mod 64) 0); [lia|].
      subst sb. destruct (Nat.ltb_spec b (co mod 64)), (Nat.ltb_spec (64 * (co / 64) + b) co); try reflexivity; lia. }
  assert (Bits : forall k b, k < W - sb -> b < 64 ->
     N.testbit (if k + sb <? S sb then t else 0%N) (N.of_nat b) =
     N.testbit (word_at mem (tr + (sb + k))) (N.of_nat b) && (64 * (sb + k) + b <? co)).
  { intros k b Hk Hb. destruct (Nat.ltb_spec (k + sb) (S sb)).
    - assert (k = 0) by lia. subst k. rewrite Vt, N.land_spec, TM by assumption. now rewrite Nat.add_0_r.
    - rewrite N.bits_0. destruct (Nat.ltb_spec (64 * (sb + k) + b) co); [subst sb; lia|]. now rewrite andb_false_r. }
  change tr with (row_addr (widen h) r) in D1'.
  destruct (row_kernel (widen h) r sb (W - sb) co (64 * W) _ mem m1 HokW ltac:(change (h_width (widen h)) with W; lia)
              ltac:(congruence) D1') as [T B].
  { intros k b Hk Hb Hn. cbn beta. rewrite Bits by assumption. change (row_addr (widen h) r) with tr.
    destruct (Nat.ltb_spec (64 * (sb + k) + b) co); [apply andb_true_r|lia]. }
  assert (RW : forall j, N.testbit (rowval (widen h) m1 r) (N.of_nat j) =
                         N.testbit (rowval (widen h) mem r) (N.of_nat j) && (j <? co)).
  { intros j. destruct (Nat.lt_ge_cases j (64 * W)) as [Hj|Hj].
    2:{ rewrite !rowval_bounded by (change (h_ncols (widen h)) with (64 * W); lia). reflexivity. }
    rewrite B by exact Hj.
    destruct (Nat.leb_spec sb (j / 64)); cbn [andb].
    - destruct (Nat.ltb_spec (j / 64) (sb + (W - sb))); [|lia].
      rewrite Bits by lia. replace (sb + (j / 64 - sb)) with (j / 64) by lia.
      replace (64 * (j / 64) + j mod 64) with j by lia.
      rewrite <- (rowval_bit (widen h) mem r j HokW) by exact Hj. reflexivity.
    - destruct (Nat.ltb_spec j co); [|subst sb; lia]. now rewrite andb_true_r. }
  assert (OutW : outside (widen h) mem m1).
  { apply (touched_outside (widen h) r co (64 * W)); auto. }
  assert (Oth : forall i, i <> r -> rowval (widen h) m1 i = rowval (widen h) mem i).
  { intros i Hi. apply (touched_row_other (widen h) r co (64 * W)); auto. }
  split; [|split; [assumption|]].
  - apply abs_rows_ext; try reflexivity.
    + unfold row_clear_offset. now rewrite rows_set_row_length, rows_abs_length.
    + intros i Hi. unfold row_clear_offset. rewrite row_set_row by now rewrite rows_abs_length.
      rewrite !(rowval_widen h) by assumption.
      destruct (Nat.eqb_spec i r) as [-> |Hne].
      * rewrite row_abs by assumption. rewrite (rowval_widen h mem r) by assumption.
        apply bits_ext_nat. intros j. rewrite !N.land_spec, RW, !testbit_ones_nat.
        now rewrite <- !andb_assoc, (andb_comm (j <? co)).
      * rewrite row_abs by assumption. rewrite Oth by assumption. symmetry. now apply rowval_widen.
  - intros Pad. assert (Pad' : padding_zero h m1).
    { apply padding_from_rowval; [assumption|]. intros i j Hi Hj.
      destruct (Nat.eq_dec i r) as [-> |Hne].
      - rewrite RW. destruct (Nat.ltb_spec j co); [lia|apply andb_false_r].
      - rewrite Oth by assumption.
        destruct (Nat.lt_ge_cases j (64 * W)) as [Hjw|Hjw];
          [|apply rowval_bounded; change (h_ncols (widen h)) with (64 * W); lia].
        rewrite <- (rowval_bit (widen h) mem i j HokW) by exact Hjw.
        change (row_addr (widen h) i) with (row_addr h i).
        pose proof (ncols_width_lt h Hok ltac:(fold W; lia)). fold W in H0.
        replace (j / 64) with (h_width h - 1) by (fold W; lia). apply Pad; try (fold W; lia). }
    split; [|assumption]. now apply widen_frame.
Qed.

(* ------------------------------------------------------------------------------------------ *)
(** * mzd_combine: dispatch between the in-place and the three-operand kernel *)
Theorem w_combine_ok hC c hA a hB b sb mem :
  valid hC mem -> valid hA mem -> valid hB mem ->
  h_ncols hA = h_ncols hC -> h_ncols hB = h_ncols hC ->
  c < h_nrows hC -> a < h_nrows hA -> b < h_nrows hB -> sb < h_width hC ->
  row_alias hC c hA a -> row_alias hC c hB b ->
  exists m', w_combine hC c sb hA a sb hB b sb mem = Ok m' /\ length m' = length mem /\ mem_ok m' /\
    touched hC c (64 * sb) (h_ncols hC) mem m' /\
    forall j, N.testbit (rowval hC m' c) (N.of_nat j) =
      if 64 * sb <=? j then xorb (N.testbit (rowval hA mem a) (N.of_nat j)) (N.testbit (rowval hB mem b) (N.of_nat j))
      else N.testbit (rowval hC mem c) (N.of_nat j).
Proof.
  intros HvC HvA HvB EA EB Hc Ha Hb Hsb AlA AlB. unfold w_combine.
  destruct (hdr_eqb hC hA && (a =? c) && (sb =? sb)) eqn:E.
  - apply andb_true_iff in E. destruct E as [E _]. apply andb_true_iff in E. destruct E as [E1 E2].
    apply hdr_eqb_eq in E1. apply Nat.eqb_eq in E2. subst hA a.
    destruct (w_combine_even_in_place_ok hC c hB b sb mem) as (m' & E & L & O & T & B); auto.
    exists m'. do 4 (split; [assumption|]). intros j. rewrite B. now destruct (_ <=? _).
  - now apply w_combine_even_ok.
Qed.
