(* Word/WRefine15.v — C09 at the algorithm level, first step: THE TABLE ARGUMENT, at word level.

   mzd_make_table (brilliantrussian.c:164-211, model Word/WOps2.v [w_make_table]) masks the first word
   of every table row it writes with mask_begin and the last one with mask_end, so every written row
   of T is zero outside the columns [c, ncols) of M within the words homeblock .. width-1 it touches
   ([make_table_masked]).  mzd_process_rows (brilliantrussian.c:213-348, [w_process_rows]) XORs WHOLE
   words homeblock .. width-1 of table rows into the rows of M; because the table rows are masked, no
   bit of the allocation outside the columns [c, ncols) of rows [startrow, stoprow) of the view changes —
   in particular no bit of the parent of a window, incl. the bits sharing its last word
   ([process_rows_frame]), for windows at any placement and any parent content.  The seeded change
   C09-make-table-end-mask-dropped breaks exactly the hypothesis of [process_rows_frame]
   ([make_table_nomask_clobbers]).  No axioms. *)
From Coq Require Import List NArith Arith Lia Bool ZifyBool ZifyNat ZifyN ZArith Permutation.
From M4 Require Import Base.Bits Lin.Mat Lin.Ops Lin.OpsProofs Word.WMat Word.WOps Word.WOps2
  Word.WMatLemmas Word.WRefineLemmas Word.WRefine Alg.Gray.
Import ListNotations.
Local Open Scope nat_scope.
Ltac Zify.zify_post_hook ::= Z.div_mod_to_equations.

(* ------------------------------------------------------------------------------------------ *)
(** * the abstract statement: XOR with a masked word / row changes nothing outside the mask *)
Lemma xor_masked_outside (r t : N) (c0 c1 : nat) :
  N.ldiff t (colmask c0 c1) = 0%N -> N.ldiff (N.lxor r t) (colmask c0 c1) = N.ldiff r (colmask c0 c1).
Proof.
  intros H. apply bits_ext_nat. intros j.
  apply (f_equal (fun x => N.testbit x (N.of_nat j))) in H. rewrite N.bits_0 in H.
  rewrite !N.ldiff_spec, N.lxor_spec in *.
  destruct (N.testbit t (N.of_nat j)), (N.testbit (colmask c0 c1) (N.of_nat j)), (N.testbit r (N.of_nat j));
    cbn in *; congruence.
Qed.

(** row x of the table T is zero outside the columns [c0, ncols M) within the words c0/64 .. width M - 1 *)
Definition row_masked (hM hT : hdr) (c0 x : nat) (m : list N) : Prop :=
  forall j b, c0 / 64 <= j < h_width hM -> b < 64 -> ~ (c0 <= 64 * j + b < h_ncols hM) ->
    bit m (row_addr hT x + j) b = false.
Definition row_maskedb (hM hT : hdr) (c0 x : nat) (m : list N) : bool :=
  forallb (fun j => forallb (fun b =>
     ((c0 <=? 64 * j + b) && (64 * j + b <? h_ncols hM)) || negb (bit m (row_addr hT x + j) b)) (seq 0 64))
    (seq (c0 / 64) (h_width hM - c0 / 64)).

(** every row of T has zero bits beyond the last column of M in M's last word (what the frame needs;
    established by calloc, preserved by every mzd_make_table whatever r, c, k) *)
Definition tbl_end_masked (hM hT : hdr) (m : list N) : Prop :=
  forall x b, x < h_nrows hT -> b < 64 -> h_ncols hM <= 64 * (h_width hM - 1) + b ->
    bit m (row_addr hT x + (h_width hM - 1)) b = false.

Lemma row_maskedb_spec hM hT c0 x m : row_maskedb hM hT c0 x m = true <-> row_masked hM hT c0 x m.
Proof.
  unfold row_maskedb, row_masked. rewrite forallb_forall. split.
  - intros H j b Hj Hb Hn. specialize (H j). rewrite in_seq, forallb_forall in H.
    specialize (H ltac:(lia) b). rewrite in_seq in H. specialize (H ltac:(lia)).
    destruct (Nat.leb_spec c0 (64 * j + b)), (Nat.ltb_spec (64 * j + b) (h_ncols hM)); cbn [andb orb] in H; try lia;
      now destruct (bit m _ b).
  - intros H j Hj. rewrite in_seq in Hj. apply forallb_forall. intros b Hb. rewrite in_seq in Hb.
    destruct (Nat.leb_spec c0 (64 * j + b)), (Nat.ltb_spec (64 * j + b) (h_ncols hM)); cbn [andb orb]; try reflexivity;
      rewrite H; try reflexivity; lia.
Qed.

Lemma row_masked_end hM hT c0 x m : hdr_ok hM -> c0 < h_ncols hM -> row_masked hM hT c0 x m ->
  forall b, b < 64 -> h_ncols hM <= 64 * (h_width hM - 1) + b -> bit m (row_addr hT x + (h_width hM - 1)) b = false.
Proof.
  intros Hok Hc H b Hb Hn. pose proof (width_pos hM c0 Hok Hc). apply H; lia.
Qed.

Lemma tbl_end_masked_row hM hT blk x m : hdr_ok hM -> tbl_end_masked hM hT m -> x < h_nrows hT ->
  row_masked hM hT (64 * blk) x m.
Proof.
  intros Hok H Hx j b Hj Hb Hn. pose proof Hok as [HW _].
  assert (j = h_width hM - 1) by lia. subst j. apply H; auto. lia.
Qed.

(** checked array access *)
Lemma rdL_ok {A} (l : list A) i d : i < length l -> rdL l i = Ok (nth i l d).
Proof.
  intros H. unfold rdL. destruct (nth_error l i) eqn:E.
  - now rewrite (nth_error_nth _ _ _ E).
  - apply nth_error_None in E. lia.
Qed.
Lemma wrL_ok {A} (l : list A) i v : i < length l -> wrL l i v = Ok (upd i v l).
Proof. intros H. unfold wrL. destruct (Nat.ltb_spec i (length l)); [reflexivity|lia]. Qed.

(* ------------------------------------------------------------------------------------------ *)
(** * mzd_make_table *)
Section MakeTable.
  Variables (hM hT : hdr) (r c k : nat) (cb : list N * list nat) (mem : list N).
  Hypotheses (HvM : valid hM mem) (HvT : valid hT mem) (HWT : h_width hM <= h_width hT)
             (HkT : 2 ^ k <= h_nrows hT) (Hc : c < h_ncols hM).
  Local Notation W := (h_width hM).
  Local Notation hb := (c / 64).
  Local Notation mask_end := (left_bitmask (h_ncols hM mod 64)).
  Local Notation mask_begin := (if negb (W - hb =? 1) then right_bitmask (64 - c mod 64)
                                else N.land (right_bitmask (64 - c mod 64)) mask_end).

  Let HokM : hdr_ok hM. Proof. exact (valid_hdr_ok _ _ HvM). Qed.
  Let HokT : hdr_ok hT. Proof. exact (valid_hdr_ok _ _ HvT). Qed.
  Let Hhb : hb < W. Proof. now apply width_pos. Qed.

  Lemma mt_mask_end b : b < 64 -> N.testbit mask_end (N.of_nat b) = (64 * (W - 1) + b <? h_ncols hM).
  Proof.
    intros Hb. destruct HokM as [_ [HM _]]. rewrite <- HM. apply testbit_hmask'; auto. lia.
  Qed.

  Lemma mt_mask_begin b : b < 64 -> ~ (c <= 64 * hb + b < h_ncols hM) ->
    N.testbit mask_begin (N.of_nat b) = false.
  Proof.
    intros Hb Hn. pose proof (ncols_width_lt hM HokM ltac:(lia)) as Hlt.
    assert (TB : N.testbit (right_bitmask (64 - c mod 64)) (N.of_nat b) = (c <=? 64 * hb + b)).
    { rewrite testbit_right_bitmask.
      destruct (Nat.leb_spec (64 - (64 - c mod 64)) b), (Nat.ltb_spec b 64), (Nat.leb_spec c (64 * (c / 64) + b));
        try reflexivity; lia. }
    destruct (Nat.eqb_spec (W - hb) 1) as [E1|E1]; cbn [negb].
    - rewrite N.land_spec, TB, mt_mask_end by assumption. replace (W - 1) with hb by lia.
      destruct (Nat.leb_spec c (64 * hb + b)), (Nat.ltb_spec (64 * hb + b) (h_ncols hM)); cbn [andb]; try reflexivity. lia.
    - rewrite TB. destruct (Nat.leb_spec c (64 * hb + b)); [|reflexivity]. lia.
  Qed.

  (** rows of T are pairwise word-disjoint on the words M's width reaches *)
  Lemma T_rows_distinct i i' j j' : i <> i' -> j < W -> j' < W -> row_addr hT i + j <> row_addr hT i' + j'.
  Proof.
    intros Hne Hj Hj' E. destruct HokT as [_ [_ Hrs]]. apply row_addr_inj in E; [lia| |]; lia.
  Qed.

  (** the stores into ONE table row *)
  Lemma w_mt_row_ok rowneeded i m : length m = length mem -> mem_ok m ->
    rowneeded < h_nrows hM -> 1 <= i < 2 ^ k ->
    exists m', w_mt_row hM hT hb (W - hb) mask_begin mask_end rowneeded i m = Ok m' /\
      length m' = length mem /\ mem_ok m' /\
      (forall p, ~ (row_addr hT i + hb <= p < row_addr hT i + W) -> word_at m' p = word_at m p) /\
      row_masked hM hT c i m'.
  Proof.
    intros Lm Om Hrn Hi.
    set (ti := row_addr hT i + hb). set (ti1 := row_addr hT (i - 1) + hb). set (mm := row_addr hM rowneeded + hb).
    assert (BM : forall j, j < (W - hb) -> mm + j < length m).
    { intros j Hj. rewrite Lm. subst mm. rewrite <- Nat.add_assoc. apply valid_word; auto. lia. }
    assert (BT1 : forall j, j < (W - hb) -> ti1 + j < length m).
    { intros j Hj. rewrite Lm. subst ti1. rewrite <- Nat.add_assoc. apply valid_word; auto; lia. }
    assert (BT : forall j, j < (W - hb) -> ti + j < length m).
    { intros j Hj. rewrite Lm. subst ti. rewrite <- Nat.add_assoc. apply valid_word; auto; lia. }
    pose proof (BM 0 ltac:(lia)). pose proof (BT1 0 ltac:(lia)). pose proof (BT 0 ltac:(lia)).
    unfold w_mt_row. fold ti ti1 mm. rewrite !rd_ok by lia. cbn [bind]. rewrite wr_ok by lia. cbn [bind].
    set (v0 := N.land (N.lxor (word_at m mm) (word_at m ti1)) mask_begin).
    set (m1 := upd ti (trunc v0) m).
    assert (L1 : length m1 = length mem) by (unfold m1; now rewrite upd_length).
    assert (O1 : mem_ok m1) by (unfold m1; now apply mem_ok_upd).
    destruct (forM_inv (fun j (x : list N) => length x = length mem /\ mem_ok x /\
                 forall p, ~ (ti + 1 <= p < ti + j) -> word_at x p = word_at m1 p)
                (fun j x => a <- rd x (mm + j) ;; y <- rd x (ti1 + j) ;; wr x (ti + j) (N.lxor a y))
                1 ((W - hb) - 2) m1) as (m2 & E2 & L2 & O2 & F2).
    { repeat split; auto. }
    { intros j x Hj (Lx & Ox & Fx). rewrite !rd_ok by (rewrite Lx, <- Lm; first [apply BM|apply BT1]; lia).
      cbn [bind]. rewrite wr_ok by (rewrite Lx, <- Lm; apply BT; lia).
      eexists. split; [reflexivity|]. split; [now rewrite upd_length|]. split; [now apply mem_ok_upd|].
      intros p Hp. rewrite word_at_upd_neq by lia. apply Fx. lia. }
    rewrite E2. cbn [bind].
    assert (W0 : word_at m2 ti = trunc v0).
    { rewrite F2 by lia. unfold m1. now rewrite word_at_upd_eq by lia. }
    assert (B0 : forall b, b < 64 -> ~ (c <= 64 * hb + b < h_ncols hM) -> N.testbit (trunc v0) (N.of_nat b) = false).
    { intros b Hb Hn. rewrite testbit_trunc_lt by assumption. unfold v0. rewrite N.land_spec, mt_mask_begin by assumption.
      apply andb_false_r. }
    pose proof (ncols_width_lt hM HokM ltac:(lia)) as Hlt.
    destruct (Nat.leb_spec 2 (W - hb)) as [Hw2|Hw1].
    - pose proof (BM ((W - hb) - 1) ltac:(lia)). pose proof (BT1 ((W - hb) - 1) ltac:(lia)). pose proof (BT ((W - hb) - 1) ltac:(lia)).
      rewrite !rd_ok by lia. cbn [bind]. rewrite wr_ok by lia.
      set (v1 := N.land (N.lxor (word_at m2 (mm + ((W - hb) - 1))) (word_at m2 (ti1 + ((W - hb) - 1)))) mask_end).
      eexists. split; [reflexivity|]. split; [rewrite upd_length; congruence|]. split; [now apply mem_ok_upd|]. split.
      + intros p Hp. fold ti in Hp. rewrite word_at_upd_neq by lia. rewrite F2 by lia.
        unfold m1. apply word_at_upd_neq. lia.
      + intros j b Hj Hb Hn. unfold bit.
        replace (row_addr hT i + j) with (ti + (j - hb)) by (subst ti; lia).
        destruct (Nat.eq_dec j hb) as [-> |Hne1].
        * rewrite Nat.sub_diag, Nat.add_0_r. rewrite word_at_upd_neq by lia. rewrite W0. now apply B0.
        * destruct (Nat.eq_dec j (W - 1)) as [-> |Hne2].
          -- replace (W - 1 - hb) with ((W - hb) - 1) by lia. rewrite word_at_upd_eq by lia.
             rewrite testbit_trunc_lt by assumption. unfold v1. rewrite N.land_spec, mt_mask_end by assumption.
             destruct (Nat.ltb_spec (64 * (W - 1) + b) (h_ncols hM)); [|apply andb_false_r].
             exfalso. apply Hn. lia.
          -- exfalso. apply Hn. pose proof (full_word_in hM j b HokM ltac:(lia) Hb). lia.
    - exists m2. split; [reflexivity|]. split; [assumption|]. split; [assumption|]. split.
      + intros p Hp. fold ti in Hp. rewrite F2 by lia. unfold m1. apply word_at_upd_neq. lia.
      + intros j b Hj Hb Hn. assert (j = hb) by lia. subst j. unfold bit.
        fold ti. rewrite W0. now apply B0.
  Qed.

  (** mzd_make_table: totality (no out-of-bounds access), frame, masks, index array *)
  Theorem w_make_table_ok L :
    2 ^ k <= length (fst cb) -> 2 ^ k - 1 <= length (snd cb) -> nth 0 (fst cb) 0%N = 0%N ->
    0 < length L -> (forall i, i < 2 ^ k -> N.to_nat (nth i (fst cb) 0%N) < length L) ->
    exists m' L', w_make_table cb hM r c k hT L mem = Ok (m', L') /\
      length m' = length mem /\ mem_ok m' /\ length L' = length L /\
      (forall p, (forall i j, 1 <= i < 2 ^ k -> hb <= j < W -> p <> row_addr hT i + j) ->
                 word_at m' p = word_at mem p) /\
      (forall i, 1 <= i < 2 ^ k -> r + nth (i - 1) (snd cb) 0 < h_nrows hM -> row_masked hM hT c i m') /\
      (tbl_end_masked hM hT mem -> tbl_end_masked hM hT m') /\
      (forall i, i < 2 ^ k -> nth (N.to_nat (nth i (fst cb) 0%N)) L' 0 < 2 ^ k).
  Proof.
    intros Hord Hinc Hord0 HL0 HLid. pose proof (Nat.pow_nonzero 2 k ltac:(lia)) as Hpow.
    pose proof (valid_mem_ok _ _ HvM) as Hm.
    unfold w_make_table. destruct (Nat.leb_spec W hb); [lia|].
    rewrite wrL_ok by assumption. cbn [bind].
    destruct (forM_inv (fun n (st : list N * list nat) =>
        length (fst st) = length mem /\ mem_ok (fst st) /\ length (snd st) = length L /\
        (forall p, (forall i j, 1 <= i < n -> hb <= j < W -> p <> row_addr hT i + j) ->
                   word_at (fst st) p = word_at mem p) /\
        (forall i, 1 <= i < n -> r + nth (i - 1) (snd cb) 0 < h_nrows hM -> row_masked hM hT c i (fst st)) /\
        (tbl_end_masked hM hT mem -> tbl_end_masked hM hT (fst st)) /\
        (forall i, i < n -> nth (N.to_nat (nth i (fst cb) 0%N)) (snd st) 0 < 2 ^ k))
      (fun i (st : list N * list nat) =>
        inc_i <- rdL (snd cb) (i - 1) ;;
        id <- rdL (fst cb) i ;;
        L' <- wrL (snd st) (N.to_nat id) i ;;
        if h_nrows hM <=? r + inc_i then Ok (fst st, L') else
        m' <- w_mt_row hM hT hb (W - hb) mask_begin mask_end (r + inc_i) i (fst st) ;;
        Ok (m', L')) 1 (2 ^ k - 1) (mem, upd 0 0 L)) as ([m' L'] & E & I).
    - cbn [fst snd]. split; [reflexivity|]. split; [assumption|]. split; [apply upd_length|].
      split; [reflexivity|]. split; [intros; lia|]. split; [auto|].
      intros i Hi. assert (i = 0) by lia. subst i. rewrite Hord0. cbn [N.to_nat].
      rewrite nth_upd_eq by assumption. lia.
    - intros i [m L1] Hi (Lm & Om & LL & Fr & Mk & En & Li). cbn [fst snd] in *.
      rewrite (rdL_ok (snd cb) (i - 1) 0) by lia. cbn [bind].
      rewrite (rdL_ok (fst cb) i 0%N) by lia. cbn [bind].
      set (id := N.to_nat (nth i (fst cb) 0%N)).
      assert (Hid : id < length L1) by (rewrite LL; apply HLid; lia).
      rewrite wrL_ok by assumption. cbn [bind].
      assert (LiS : forall i', i' < S i -> nth (N.to_nat (nth i' (fst cb) 0%N)) (upd id i L1) 0 < 2 ^ k).
      { intros i' Hi'. destruct (Nat.eq_dec (N.to_nat (nth i' (fst cb) 0%N)) id) as [-> |Hne].
        - rewrite nth_upd_eq by assumption. lia.
        - rewrite nth_upd_neq by congruence. destruct (Nat.eq_dec i' i) as [-> |]; [now subst id|]. apply Li. lia. }
      destruct (Nat.leb_spec (h_nrows hM) (r + nth (i - 1) (snd cb) 0)) as [Hskip|Hrow].
      + eexists. split; [reflexivity|]. cbn [fst snd]. split; [assumption|]. split; [assumption|].
        split; [rewrite upd_length; assumption|]. split; [|split; [|split; [assumption|assumption]]].
        * intros p Hp. apply Fr. intros i' j Hi' Hj. apply Hp; lia.
        * intros i' Hi' Hr. destruct (Nat.eq_dec i' i) as [-> |]; [lia|]. apply Mk; auto. lia.
      + destruct (w_mt_row_ok (r + nth (i - 1) (snd cb) 0) i m Lm Om Hrow ltac:(lia)) as (m2 & E2 & L2 & O2 & F2 & M2).
        rewrite E2. cbn [bind]. eexists. split; [reflexivity|]. cbn [fst snd]. split; [assumption|]. split; [assumption|].
        split; [rewrite upd_length; assumption|]. split; [|split; [|split; [|assumption]]].
        * intros p Hp. rewrite F2.
          -- apply Fr. intros i' j Hi' Hj. apply Hp; lia.
          -- intros Hin. apply (Hp i (p - row_addr hT i)); lia.
        * intros i' Hi' Hr. destruct (Nat.eq_dec i' i) as [-> |Hne]; [assumption|].
          intros j b Hj Hb Hn. unfold bit. rewrite F2.
          -- apply Mk; auto. lia.
          -- intros Hin.
             apply (T_rows_distinct i' i j (row_addr hT i' + j - row_addr hT i) Hne); lia.
        * intros En0 x b Hx Hb Hn. destruct (Nat.eq_dec x i) as [-> |Hne].
          -- apply (row_masked_end hM hT c i m2); auto.
          -- unfold bit. rewrite F2.
             ++ apply En; auto.
             ++ intros Hin. apply (T_rows_distinct x i (W - 1) (row_addr hT x + (W - 1) - row_addr hT i) Hne); lia.
    - exists m', L'. replace (1 + (2 ^ k - 1)) with (2 ^ k) in I by lia. cbn [fst snd] in I.
      split; [exact E|]. tauto.
  Qed.
End MakeTable.

(** with the code book of the library (any [cb_ok] one) and the k rows r .. r+k-1 inside M: every row
    1 .. 2^k-1 of T is masked, row 0 keeps its mask, L maps [0, 2^k) into [0, 2^k) *)
Theorem make_table_masked hM hT r c k cb mem L :
  valid hM mem -> valid hT mem -> h_width hM <= h_width hT -> 2 ^ k <= h_nrows hT -> c < h_ncols hM ->
  cb_ok k cb -> 2 ^ k <= length L -> r + k <= h_nrows hM ->
  exists m' L', w_make_table cb hM r c k hT L mem = Ok (m', L') /\
    length m' = length mem /\ mem_ok m' /\ length L' = length L /\
    (forall p, ~ wview hT p -> word_at m' p = word_at mem p) /\
    (forall i, 1 <= i < 2 ^ k -> row_masked hM hT c i m') /\
    (row_masked hM hT c 0 mem -> forall x, x < 2 ^ k -> row_masked hM hT c x m') /\
    (tbl_end_masked hM hT mem -> tbl_end_masked hM hT m') /\
    (forall v, v < 2 ^ k -> nth v L' 0 < 2 ^ k).
Proof.
  intros HvM HvT HWT HkT Hc Hcb HL Hrk. destruct cb as [ord inc]. cbn [cb_ok] in Hcb.
  destruct Hcb as (Lord & Linc & Perm & Ord0 & Step).
  pose proof (Nat.pow_nonzero 2 k ltac:(lia)) as Hpow.
  pose proof (valid_hdr_ok _ _ HvT) as HokT. pose proof (valid_hdr_ok _ _ HvM) as HokM.
  assert (InOrd : forall i, i < 2 ^ k -> N.to_nat (nth i ord 0%N) < 2 ^ k).
  { intros i Hi. assert (Hin : In (nth i ord 0%N) ord) by (apply nth_In; lia).
    apply (Permutation_in _ Perm) in Hin. apply in_map_iff in Hin. destruct Hin as (v & <- & Hv).
    apply in_seq in Hv. rewrite Nat2N.id. lia. }
  destruct (w_make_table_ok hM hT r c k (ord, inc) mem HvM HvT HWT HkT Hc L)
    as (m' & L' & E & Lm & Om & LL & Fr & Mk & En & Li); cbn [fst snd]; try lia.
  { intros i Hi. specialize (InOrd i Hi). lia. }
  cbn [fst snd] in *.
  assert (MkAll : forall i, 1 <= i < 2 ^ k -> row_masked hM hT c i m').
  { intros i Hi. apply Mk; auto. destruct (Step (i - 1) ltac:(lia)) as [Hinc _]. lia. }
  exists m', L'. split; [exact E|]. do 3 (split; [assumption|]). split; [|split; [exact MkAll|split; [|split; [exact En|]]]].
  - intros p Hp. apply Fr. intros i j Hi Hj -> . apply Hp. exists i, j. repeat split; lia.
  - intros M0 x Hx. destruct (Nat.eq_dec x 0) as [-> |Hne]; [|apply MkAll; lia].
    intros j b Hj Hb Hn. unfold bit. rewrite Fr; [now apply M0|].
    intros i j' Hi Hj' E'. destruct HokT as [_ [_ Hrs]]. apply row_addr_inj in E'; lia.
  - intros v Hv. assert (Hin : In (N.of_nat v) ord).
    { apply (Permutation_in _ (Permutation_sym Perm)). apply in_map. apply in_seq. lia. }
    destruct (In_nth _ _ 0%N Hin) as (i & Hi & Ei). specialize (Li i ltac:(lia)).
    now rewrite Ei, Nat2N.id in Li.
Qed.

(* ------------------------------------------------------------------------------------------ *)
(** * mzd_process_rows *)
(** region frame: only bits of columns [c0, c1) of rows [r0, r1) of the view may change *)
Definition tch (hM : hdr) (r0 r1 c0 c1 : nat) (mem m' : list N) : Prop :=
  length m' = length mem /\
  forall p b, b < 64 ->
    (forall i k, r0 <= i < r1 -> p = row_addr hM i + k -> c0 <= 64 * k + b -> 64 * k + b < c1 -> False) ->
    bit m' p b = bit mem p b.

Lemma tch_refl hM r0 r1 c0 c1 m : tch hM r0 r1 c0 c1 m m.
Proof. split; auto. Qed.

Lemma tch_outside hM r0 r1 c0 c1 m m' : r1 <= h_nrows hM -> c1 <= h_ncols hM ->
  tch hM r0 r1 c0 c1 m m' -> outside hM m m'.
Proof.
  intros Hr Hc [L H]. split; [assumption|]. intros p b Hb Hn. apply H; auto.
  intros i k Hi -> Hc0 Hc1. apply Hn. apply in_view_word; auto; lia.
Qed.

Section ProcessRows.
  Variables (hM hT : hdr) (startrow stoprow startcol k c' : nat) (L : list nat) (mem : list N).
  Hypotheses (HvM : valid hM mem) (HvT : valid hT mem) (Dj : wdisjoint hM hT)
             (HWT : h_width hM <= h_width hT) (HkT : 2 ^ k <= h_nrows hT) (Hk : 1 <= k <= 64)
             (Hsc : startcol + k <= h_ncols hM) (Hstop : stoprow <= h_nrows hM)
             (HL : 2 ^ k <= length L) (HLv : forall v, v < 2 ^ k -> nth v L 0 < 2 ^ k)
             (Hc' : c' / 64 <= startcol / 64)
             (HT : forall x, x < 2 ^ k -> row_masked hM hT c' x mem).
  Local Notation W := (h_width hM).
  Local Notation blk := (startcol / 64).

  Let HokM : hdr_ok hM. Proof. exact (valid_hdr_ok _ _ HvM). Qed.
  Let HokT : hdr_ok hT. Proof. exact (valid_hdr_ok _ _ HvT). Qed.
  Let Hblk : blk < W. Proof. apply width_pos; auto. lia. Qed.

  Definition pr_inv (m : list N) : Prop :=
    length m = length mem /\ mem_ok m /\ tch hM startrow stoprow c' (h_ncols hM) mem m.

  (** the table is not written *)
  Lemma pr_T_word m x j : pr_inv m -> x < h_nrows hT -> j < W ->
    word_at m (row_addr hT x + j) = word_at mem (row_addr hT x + j).
  Proof.
    intros (Lm & Om & _ & H) Hx Hj. apply mem_word_ext; auto; [now apply (valid_mem_ok hM)|].
    intros b Hb. apply H; auto. intros i k0 Hi E Hc0 Hc1. pose proof (ncols_width hM HokM).
    apply (Dj (row_addr hT x + j)).
    - rewrite E. exists i, k0. repeat split; lia.
    - exists x, j. repeat split; lia.
  Qed.

  (** ONE whole-word XOR of a masked table word into a row of M *)
  Lemma pr_step m i j x : pr_inv m -> startrow <= i < stoprow -> j < W - blk -> x < 2 ^ k ->
    exists m', (a <- rd m (row_addr hM i + blk + j) ;; t <- rd m (row_addr hT x + blk + j) ;;
                wr m (row_addr hM i + blk + j) (N.lxor a t)) = Ok m' /\ pr_inv m'.
  Proof.
    intros I Hi Hj Hx. pose proof I as (Lm & Om & T). rewrite <- !Nat.add_assoc.
    assert (BM : row_addr hM i + (blk + j) < length m) by (rewrite Lm; apply valid_word; auto; lia).
    assert (BT : row_addr hT x + (blk + j) < length m) by (rewrite Lm; apply valid_word; auto; lia).
    rewrite !rd_ok by assumption. cbn [bind]. rewrite wr_ok by assumption.
    eexists. split; [reflexivity|]. split; [now rewrite upd_length|]. split; [now apply mem_ok_upd|].
    destruct T as [_ T]. split; [now rewrite upd_length|]. intros q b Hb Hq. unfold bit.
    destruct (Nat.eq_dec q (row_addr hM i + (blk + j))) as [-> |Hne].
    - rewrite word_at_upd_eq by assumption. rewrite testbit_trunc_lt by assumption. rewrite N.lxor_spec.
      rewrite (pr_T_word m x (blk + j) I) by lia.
      assert (Hz : bit mem (row_addr hT x + (blk + j)) b = false).
      { apply (HT x Hx); [lia|assumption|]. intros Hin. apply (Hq i (blk + j)); auto; lia. }
      unfold bit in Hz. rewrite Hz, xorb_false_r. apply T; auto.
    - rewrite word_at_upd_neq by congruence. apply T; auto.
  Qed.

  Lemma pr_xor_row m i x : pr_inv m -> startrow <= i < stoprow -> x < 2 ^ k ->
    exists m', w_xor_row (row_addr hM i + blk) (row_addr hT x + blk) (W - blk) m = Ok m' /\ pr_inv m'.
  Proof.
    intros I Hi Hx. unfold w_xor_row.
    destruct (forM_inv (fun _ m => pr_inv m)
       (fun j m => a <- rd m (row_addr hM i + blk + j) ;; t <- rd m (row_addr hT x + blk + j) ;;
                   wr m (row_addr hM i + blk + j) (N.lxor a t)) 0 (W - blk) m I) as (m' & E & I').
    - intros j m0 Hj I0. apply pr_step; auto. lia.
    - exists m'. auto.
  Qed.

  Lemma pr_xor_row2 m i0 x0 i1 x1 : pr_inv m -> startrow <= i0 < stoprow -> startrow <= i1 < stoprow ->
    x0 < 2 ^ k -> x1 < 2 ^ k ->
    exists m', w_xor_row2 (row_addr hM i0 + blk) (row_addr hT x0 + blk)
                          (row_addr hM i1 + blk) (row_addr hT x1 + blk) (W - blk) m = Ok m' /\ pr_inv m'.
  Proof.
    intros I Hi0 Hi1 Hx0 Hx1. unfold w_xor_row2.
    destruct (forM_inv (fun _ m => pr_inv m)
       (fun j m => a <- rd m (row_addr hM i0 + blk + j) ;; t <- rd m (row_addr hT x0 + blk + j) ;;
                   m' <- wr m (row_addr hM i0 + blk + j) (N.lxor a t) ;;
                   b <- rd m' (row_addr hM i1 + blk + j) ;; u <- rd m' (row_addr hT x1 + blk + j) ;;
                   wr m' (row_addr hM i1 + blk + j) (N.lxor b u)) 0 (W - blk) m I) as (m' & E & I').
    - intros j m0 Hj I0.
      destruct (pr_step m0 i0 j x0 I0 Hi0 ltac:(lia) Hx0) as (m1 & E1 & I1).
      destruct (rd m0 (row_addr hM i0 + blk + j)) as [a|]; cbn [bind] in *; [|discriminate].
      destruct (rd m0 (row_addr hT x0 + blk + j)) as [t|]; cbn [bind] in *; [|discriminate].
      rewrite E1. cbn [bind]. apply pr_step; auto. lia.
    - exists m'. auto.
  Qed.

  (** x = L[mzd_read_bits_int(M, r, startcol, k)] is a row of the table *)
  Lemma pr_lookup m i : pr_inv m -> i < stoprow ->
    exists x, (bits <- w_read_bits hM i startcol k m ;; rdL L (N.to_nat bits)) = Ok x /\ x < 2 ^ k.
  Proof.
    intros (Lm & Om & _) Hi. assert (Hv : valid hM m) by (eapply valid_same_length; eassumption).
    rewrite w_read_bits_ok by (auto; lia). cbn [bind].
    set (bits := read_bits (abs hM m) i startcol k).
    assert (Hb : N.to_nat bits < 2 ^ k).
    { pose proof (bounded_read_bits (abs hM m) i startcol k) as B. apply bounded_lt in B. fold bits in B.
      assert (E : N.to_nat (2 ^ N.of_nat k) = 2 ^ k) by (rewrite N2Nat.inj_pow, Nat2N.id; reflexivity).
      lia. }
    rewrite (rdL_ok L _ 0) by lia. eexists. split; [reflexivity|]. now apply HLv.
  Qed.

  Lemma pr_single m i : pr_inv m -> startrow <= i < stoprow ->
    exists m', (x0 <- (bits <- w_read_bits hM i startcol k m ;; rdL L (N.to_nat bits)) ;;
                w_xor_row (row_addr hM i + blk) (row_addr hT x0 + blk) (W - blk) m) = Ok m' /\ pr_inv m'.
  Proof.
    intros I Hi. destruct (pr_lookup m i I ltac:(lia)) as (x & E & Hx). rewrite E. cbn [bind].
    now apply pr_xor_row.
  Qed.

  Theorem w_process_rows_inv :
    exists m', w_process_rows hM startrow stoprow startcol k hT L mem = Ok m' /\ pr_inv m'.
  Proof.
    unfold w_process_rows. destruct (Nat.leb_spec W blk); [lia|]. cbv zeta.
    set (np := (stoprow - startrow) / 2).
    assert (I0 : pr_inv mem).
    { split; [reflexivity|]. split; [now apply (valid_mem_ok hM)|apply tch_refl]. }
    assert (Hp2 : 1 < 2 ^ k).
    { pose proof (Nat.pow_le_mono_r 2 1 k ltac:(lia) ltac:(lia)). cbn in *. lia. }
    assert (Tail : forall m1, pr_inv m1 ->
      exists m', forM (seq (startrow + 2 * np) (stoprow - (startrow + 2 * np)))
        (fun r m => x0 <- (bits <- w_read_bits hM r startcol k m ;; rdL L (N.to_nat bits)) ;;
                    w_xor_row (row_addr hM r + blk) (row_addr hT x0 + blk) (W - blk) m) m1 = Ok m' /\ pr_inv m').
    { intros m1 I1.
      destruct (forM_inv (fun _ m => pr_inv m)
        (fun r m => x0 <- (bits <- w_read_bits hM r startcol k m ;; rdL L (N.to_nat bits)) ;;
                    w_xor_row (row_addr hM r + blk) (row_addr hT x0 + blk) (W - blk) m)
        (startrow + 2 * np) (stoprow - (startrow + 2 * np)) m1 I1) as (m' & E & I').
      - intros r m Hr I. apply pr_single; auto. lia.
      - exists m'. auto. }
    destruct (Nat.eqb_spec k 1) as [K1|K1].
    - destruct (forM_inv (fun _ m => pr_inv m)
        (fun p m =>
           w0 <- rd m (row_addr hM (startrow + 2 * p) + blk) ;;
           w1 <- rd m (row_addr hM (startrow + 2 * p + 1) + blk) ;;
           if negb (N.land (N.land w0 (shl 1 (startcol mod 64))) (N.land w1 (shl 1 (startcol mod 64))) =? 0)%N
           then w_xor_row2 (row_addr hM (startrow + 2 * p) + blk) (row_addr hT 1 + blk)
                           (row_addr hM (startrow + 2 * p + 1) + blk) (row_addr hT 1 + blk) (W - blk) m
           else if negb (N.land w0 (shl 1 (startcol mod 64)) =? 0)%N
           then w_xor_row (row_addr hM (startrow + 2 * p) + blk) (row_addr hT 1 + blk) (W - blk) m
           else if negb (N.land w1 (shl 1 (startcol mod 64)) =? 0)%N
           then w_xor_row (row_addr hM (startrow + 2 * p + 1) + blk) (row_addr hT 1 + blk) (W - blk) m
           else Ok m) 0 np mem I0) as (m1 & E1 & I1).
      + intros p m Hp I. pose proof I as (Lm & Om & _).
        assert (Hr : startrow + 2 * p + 1 < stoprow) by (subst np; lia).
        rewrite !rd_ok by (rewrite Lm; apply valid_word; auto; lia). cbn [bind].
        destruct (negb _).
        * apply pr_xor_row2; auto; lia.
        * destruct (negb _); [apply pr_xor_row; auto; lia|].
          destruct (negb _); [apply pr_xor_row; auto; lia|]. exists m. auto.
      + rewrite E1. cbn [bind]. now apply Tail.
    - destruct (forM_inv (fun _ m => pr_inv m)
        (fun p m =>
           x0 <- (bits <- w_read_bits hM (startrow + 2 * p) startcol k m ;; rdL L (N.to_nat bits)) ;;
           x1 <- (bits <- w_read_bits hM (startrow + 2 * p + 1) startcol k m ;; rdL L (N.to_nat bits)) ;;
           w_xor_row2 (row_addr hM (startrow + 2 * p) + blk) (row_addr hT x0 + blk)
                      (row_addr hM (startrow + 2 * p + 1) + blk) (row_addr hT x1 + blk) (W - blk) m)
        0 np mem I0) as (m1 & E1 & I1).
      + intros p m Hp I.
        assert (Hr : startrow + 2 * p + 1 < stoprow) by (subst np; lia).
        destruct (pr_lookup m (startrow + 2 * p) I ltac:(lia)) as (x0 & E0 & Hx0). rewrite E0. cbn [bind].
        destruct (pr_lookup m (startrow + 2 * p + 1) I ltac:(lia)) as (x1 & Ex1 & Hx1). rewrite Ex1. cbn [bind].
        apply pr_xor_row2; auto; lia.
      + rewrite E1. cbn [bind]. now apply Tail.
  Qed.
End ProcessRows.

(* ------------------------------------------------------------------------------------------ *)
(** * the frame theorems *)

(** mzd_process_rows with a table all of whose rows are zero outside the columns [c', ncols) within
    the words startcol/64 .. width-1: only the columns [c', ncols) of the rows [startrow, stoprow) of
    the view change; in particular NOTHING outside the view (parent bits sharing the last word
    included) and no read-only operand (T itself, any other matrix). *)
Theorem process_rows_frame hM hT startrow stoprow startcol k c' L mem :
  valid hM mem -> valid hT mem -> wdisjoint hM hT -> h_width hM <= h_width hT -> 2 ^ k <= h_nrows hT ->
  1 <= k <= 64 -> startcol + k <= h_ncols hM -> stoprow <= h_nrows hM ->
  2 ^ k <= length L -> (forall v, v < 2 ^ k -> nth v L 0 < 2 ^ k) ->
  c' / 64 <= startcol / 64 -> (forall x, x < 2 ^ k -> row_masked hM hT c' x mem) ->
  exists m', w_process_rows hM startrow stoprow startcol k hT L mem = Ok m' /\
    length m' = length mem /\ mem_ok m' /\
    tch hM startrow stoprow c' (h_ncols hM) mem m' /\
    outside hM mem m' /\
    (forall hS, wdisjoint hM hS ->
       abs hS m' = abs hS mem /\ forall p, wview hS p -> word_at m' p = word_at mem p).
Proof.
  intros HvM HvT Dj HWT HkT Hk Hsc Hstop HL HLv Hc' HT.
  destruct (w_process_rows_inv hM hT startrow stoprow startcol k c' L mem) as (m' & E & Lm & Om & T); auto.
  assert (Out : outside hM mem m') by (apply (tch_outside hM startrow stoprow c' (h_ncols hM)); auto).
  exists m'. split; [exact E|]. do 4 (split; [assumption|]).
  intros hS DjS. destruct (outside_source_unchanged hM hS mem m') as [Wd A]; auto.
  - now apply (valid_hdr_ok hM mem).
  - now apply (valid_mem_ok hM mem).
Qed.

(** the form the frame needs: the end mask alone (whatever c, r, k the tables were made with) *)
Corollary process_rows_frame_end hM hT startrow stoprow startcol k L mem :
  valid hM mem -> valid hT mem -> wdisjoint hM hT -> h_width hM <= h_width hT -> 2 ^ k <= h_nrows hT ->
  1 <= k <= 64 -> startcol + k <= h_ncols hM -> stoprow <= h_nrows hM ->
  2 ^ k <= length L -> (forall v, v < 2 ^ k -> nth v L 0 < 2 ^ k) ->
  tbl_end_masked hM hT mem ->
  exists m', w_process_rows hM startrow stoprow startcol k hT L mem = Ok m' /\
    length m' = length mem /\ mem_ok m' /\ outside hM mem m' /\
    (forall hS, wdisjoint hM hS ->
       abs hS m' = abs hS mem /\ forall p, wview hS p -> word_at m' p = word_at mem p).
Proof.
  intros HvM HvT Dj HWT HkT Hk Hsc Hstop HL HLv En.
  destruct (process_rows_frame hM hT startrow stoprow startcol k (64 * (startcol / 64)) L mem)
    as (m' & E & Lm & Om & _ & Out & Src); auto.
  - lia.
  - intros x Hx. apply tbl_end_masked_row; auto; [now apply (valid_hdr_ok hM mem)|lia].
  - exists m'. auto.
Qed.

(** mzd_make_table followed by mzd_process_rows on a view M (one step of M4RI / M4RM with one table):
    every bit of the allocation that is neither an entry of the view in columns [c, ncols) of rows
    [startrow, stoprow) nor a word of the table is unchanged. *)
Theorem make_table_process_rows_frame hM hT r c k cb startrow stoprow L mem :
  valid hM mem -> valid hT mem -> wdisjoint hM hT -> h_width hM <= h_width hT -> 2 ^ k <= h_nrows hT ->
  1 <= k <= 64 -> c + k <= h_ncols hM -> cb_ok k cb -> 2 ^ k <= length L -> r + k <= h_nrows hM ->
  stoprow <= h_nrows hM -> row_masked hM hT c 0 mem ->
  exists m1 L1 m2,
    w_make_table cb hM r c k hT L mem = Ok (m1, L1) /\
    w_process_rows hM startrow stoprow c k hT L1 m1 = Ok m2 /\
    length m2 = length mem /\ mem_ok m2 /\
    (forall x, x < 2 ^ k -> row_masked hM hT c x m1) /\
    (forall p b, b < 64 -> ~ wview hT p ->
       (forall i k0, startrow <= i < stoprow -> p = row_addr hM i + k0 -> c <= 64 * k0 + b ->
                     64 * k0 + b < h_ncols hM -> False) ->
       bit m2 p b = bit mem p b) /\
    (forall p b, b < 64 -> ~ in_view hM p b -> ~ wview hT p -> bit m2 p b = bit mem p b).
Proof.
  intros HvM HvT Dj HWT HkT Hk Hck Hcb HL Hrk Hstop M0.
  destruct (make_table_masked hM hT r c k cb mem L) as (m1 & L1 & E1 & Lm1 & Om1 & LL1 & Fr1 & _ & Mk1 & _ & Li1);
    auto; try lia.
  specialize (Mk1 M0).
  assert (HvM1 : valid hM m1) by (eapply valid_same_length; eassumption).
  assert (HvT1 : valid hT m1) by (eapply valid_same_length; eassumption).
  destruct (process_rows_frame hM hT startrow stoprow c k c L1 m1) as (m2 & E2 & Lm2 & Om2 & T2 & Out2 & _);
    auto; try lia.
  exists m1, L1, m2. split; [exact E1|]. split; [exact E2|]. split; [congruence|]. split; [assumption|].
  split; [exact Mk1|].
  assert (Fine : forall p b, b < 64 -> ~ wview hT p ->
       (forall i k0, startrow <= i < stoprow -> p = row_addr hM i + k0 -> c <= 64 * k0 + b ->
                     64 * k0 + b < h_ncols hM -> False) -> bit m2 p b = bit mem p b).
  { intros p b Hb HnT Hn. destruct T2 as [_ T2]. rewrite T2 by assumption. unfold bit. now rewrite Fr1. }
  split; [exact Fine|]. intros p b Hb Hnv HnT. apply Fine; auto.
  intros i k0 Hi -> Hc0 Hc1. apply Hnv. apply in_view_word; auto; lia.
Qed.

(* ------------------------------------------------------------------------------------------ *)
(** * examples: a 4 x 70 window at word offset 1 of rows 1..4 of a 6 x 200 parent, a 4 x 70 table *)
Definition t_word (p : nat) : N := N.land (N.of_nat (p + 1) * 0x9E3779B97F4A7C15)%N ffff.
Definition t_mem : list N := map t_word (seq 0 24) ++ [0; 0]%N ++ map t_word (seq 26 6).
Definition t_P : hdr := init_hdr_at 0 6 200.
Definition t_W : hdr := window_hdr t_P 1 64 5 134.
Definition t_T : hdr := init_hdr_at 24 4 70.
Definition t_L : list nat := [7; 7; 7; 7].

Lemma t_valid_W : valid t_W t_mem. Proof. apply validb_spec. vm_compute. reflexivity. Qed.
Lemma t_valid_T : valid t_T t_mem. Proof. apply validb_spec. vm_compute. reflexivity. Qed.
Lemma t_disj : wdisjoint t_W t_T.
Proof.
  intros p (i & j & Hi & Hj & ->) (i' & j' & Hi' & Hj' & E). revert E.
  unfold row_addr. change (h_off t_W) with 5. change (h_rowstride t_W) with 4. change (h_off t_T) with 24.
  change (h_rowstride t_T) with 2. change (h_nrows t_W) with 4 in Hi. change (h_width t_W) with 2 in Hj. lia.
Qed.
Lemma t_row0 : row_masked t_W t_T 3 0 t_mem.
Proof. apply row_maskedb_spec. vm_compute. reflexivity. Qed.

(** the seeded change C09-make-table-end-mask-dropped: with the end mask dropped the same two calls
    clobber the parent of the window (a bit outside the view changes) *)
Theorem make_table_nomask_clobbers : exists m1 L1 m2,
  w_make_table_nomask (build_code 2) t_W 0 3 2 t_T t_L t_mem = Ok (m1, L1) /\
  w_process_rows t_W 0 4 3 2 t_T L1 m1 = Ok m2 /\
  (exists p b, b < 64 /\ in_viewb t_W p b = false /\ in_viewb t_T p 0 = false /\ bit m2 p b <> bit t_mem p b).
Proof.
  eexists. eexists. eexists. split; [vm_compute; reflexivity|]. split; [vm_compute; reflexivity|].
  exists 6, 6. vm_compute. repeat split; try lia; discriminate.
Qed.
