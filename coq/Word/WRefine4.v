(* Word/WRefine4.v — refinement / frame / padding theorems, part 4: the repaired mzd_stack and
   mzd_concat (w_stack_fixed, w_concat_fixed: masked last word of the source rows).  No axioms. *)
From Coq Require Import List NArith Arith Lia Bool ZifyBool ZifyNat ZifyN ZArith.
From M4 Require Import Base.Bits Lin.Mat Lin.Ops Lin.OpsProofs Word.WMat Word.WOps Word.WMatLemmas
  Word.WRefineLemmas Word.WRefine Word.WRefine2 Word.WRefine3.
Import ListNotations.
Local Open Scope nat_scope.
Ltac Zify.zify_post_hook ::= Z.div_mod_to_equations.

Lemma wdisjoint_row_alias hC c hA a : wdisjoint hC hA -> hdr_ok hC -> hdr_ok hA ->
  c < h_nrows hC -> a < h_nrows hA -> row_alias hC c hA a.
Proof. intros Hd. apply alias_row_alias. now right. Qed.

(* ------------------------------------------------------------------------------------------ *)
(** * mzd_stack(C, A, B), repaired *)
Theorem w_stack_fixed_ok hC hA hB mem :
  valid hC mem -> valid hA mem -> valid hB mem -> 0 < h_ncols hC ->
  h_ncols hA = h_ncols hC -> h_ncols hB = h_ncols hC -> h_nrows hC = h_nrows hA + h_nrows hB ->
  wdisjoint hC hA -> wdisjoint hC hB ->
  exists m', w_stack_fixed hC hA hB mem = Ok m' /\ length m' = length mem /\ mem_ok m' /\
    abs hC m' = mstack (abs hA mem) (abs hB mem) /\ outside hC mem m'.
Proof.
  intros HvC HvA HvB Hc0 EA EB ER DjA DjB.
  pose proof (valid_hdr_ok _ _ HvC) as HokC. pose proof (valid_hdr_ok _ _ HvA) as HokA.
  pose proof (valid_hdr_ok _ _ HvB) as HokB. pose proof (valid_mem_ok _ _ HvC) as Hm.
  unfold w_stack_fixed. rewrite EA, EB, ER, !Nat.eqb_refl. cbn [andb negb].
  destruct (rows_loop hC 0 0 (h_nrows hA) 0 (h_ncols hC) (fun k => rowval hA mem k)
     (fun i m => w_copy_words_masked hC i hA i m) mem HokC ltac:(lia) ltac:(lia) Hm)
    as (m1 & E1 & L1 & O1 & Out1 & Done1 & Rest1).
  { intros k m Hk Lm Om Outm Restm. cbn [Nat.add] in *.
    destruct (w_copy_words_masked_ok hC k hA k m) as (m' & E & L' & O' & T & B);
      try (eapply valid_same_length; eassumption); try lia.
    - apply wdisjoint_row_alias; auto; lia.
    - exists m'. split; [exact E|]. split; [assumption|]. split; [now rewrite EA in T|].
      apply (bounded_ext (h_ncols hC)); [apply rowval_bounded|rewrite <- EA; apply rowval_bounded|].
      intros j Hj. rewrite B. destruct (Nat.ltb_spec j (h_ncols hA)); [|lia].
      rewrite (outside_rowval hC hA mem m k) by (auto; lia). reflexivity. }
  rewrite E1. cbn [bind].
  destruct (rows_loop hC (h_nrows hA) 0 (h_nrows hB) 0 (h_ncols hC) (fun k => rowval hB mem k)
     (fun i m => w_copy_words_masked hC (h_nrows hA + i) hB i m) m1 HokC ltac:(lia) ltac:(lia) O1)
    as (m2 & E2 & L2 & O2 & Out2 & Done2 & Rest2).
  { intros k m Hk Lm Om Outm Restm. cbn [Nat.add] in *.
    assert (Outmm : outside hC mem m) by (eapply outside_trans; eassumption).
    destruct (w_copy_words_masked_ok hC (h_nrows hA + k) hB k m) as (m' & E & L' & O' & T & B);
      try (eapply valid_same_length; try eassumption; congruence); try lia.
    - apply wdisjoint_row_alias; auto; lia.
    - exists m'. split; [exact E|]. split; [assumption|]. split; [now rewrite EB in T|].
      apply (bounded_ext (h_ncols hC)); [apply rowval_bounded|rewrite <- EB; apply rowval_bounded|].
      intros j Hj. rewrite B. destruct (Nat.ltb_spec j (h_ncols hB)); [|lia].
      rewrite (outside_rowval hC hB mem m k) by (auto; lia). reflexivity. }
  exists m2. split; [exact E2|]. split; [congruence|]. split; [assumption|]. split.
  - apply abs_rows_ext.
    + cbn. lia.
    + cbn. lia.
    + cbn [mstack rows]. rewrite app_length, !rows_abs_length. lia.
    + intros i Hi. unfold row, mstack. cbn [rows]. cbn [Nat.add] in *.
      destruct (Nat.lt_ge_cases i (h_nrows hA)) as [Hlt|Hge].
      * rewrite app_nth1 by now rewrite rows_abs_length.
        change (nth i (rows (abs hA mem)) 0%N) with (row (abs hA mem) i). rewrite row_abs by assumption.
        rewrite Rest2 by lia. apply Done1. lia.
      * rewrite app_nth2 by now rewrite rows_abs_length. rewrite rows_abs_length.
        change (nth (i - h_nrows hA) (rows (abs hB mem)) 0%N) with (row (abs hB mem) (i - h_nrows hA)).
        rewrite row_abs by lia. replace i with (h_nrows hA + (i - h_nrows hA)) at 1 by lia.
        apply Done2. lia.
  - eapply outside_trans; eassumption.
Qed.

(* ------------------------------------------------------------------------------------------ *)
(** * mzd_concat(C, A, B), repaired *)
(** the bit loop that appends row i of B behind the columns of A *)
Lemma concat_bits_row hC hB i off mem :
  valid hC mem -> valid hB mem -> i < h_nrows hC -> i < h_nrows hB ->
  off + h_ncols hB <= h_ncols hC -> wdisjoint hC hB ->
  exists m', forM (seq 0 (h_ncols hB)) (fun j m =>
               b <- w_read_bit hB i j m ;; w_write_bit hC i (j + off) b m) mem = Ok m' /\
    length m' = length mem /\ mem_ok m' /\ touched hC i off (off + h_ncols hB) mem m' /\
    forall c, N.testbit (rowval hC m' i) (N.of_nat c) =
      if (off <=? c) && (c <? off + h_ncols hB) then N.testbit (rowval hB mem i) (N.of_nat (c - off))
      else N.testbit (rowval hC mem i) (N.of_nat c).
Proof.
  intros HvC HvB HiC HiB Hc Dj.
  pose proof (valid_hdr_ok _ _ HvC) as HokC. pose proof (valid_hdr_ok _ _ HvB) as HokB.
  pose proof (valid_mem_ok _ _ HvC) as Hm.
  destruct (forM_inv (fun k m => length m = length mem /\ mem_ok m /\
       touched hC i off (off + h_ncols hB) mem m /\
       forall c, N.testbit (rowval hC m i) (N.of_nat c) =
         if (off <=? c) && (c <? off + k) then N.testbit (rowval hB mem i) (N.of_nat (c - off))
         else N.testbit (rowval hC mem i) (N.of_nat c))
     (fun j m => b <- w_read_bit hB i j m ;; w_write_bit hC i (j + off) b m) 0 (h_ncols hB) mem)
    as (m' & E & L & O & T & B).
  - split; [reflexivity|]. split; [assumption|]. split; [apply touched_refl|]. intros c.
    destruct (Nat.leb_spec off c), (Nat.ltb_spec c (off + 0)); cbn [andb]; try reflexivity. lia.
  - intros k m Hk (Lm & Om & Tm & Bm). cbn [Nat.add] in Hk.
    assert (Outm : outside hC mem m) by (apply (touched_outside hC i off (off + h_ncols hB)); auto).
    rewrite w_read_bit_ok by (try (eapply valid_same_length; eassumption); lia). cbn [bind].
    destruct (w_write_bit_ok hC m i (k + off) (get (abs hB m) i k)) as (m' & E & L' & O' & T' & B');
      try (eapply valid_same_length; eassumption); try lia.
    exists m'. split; [exact E|]. split; [congruence|]. split; [assumption|]. split.
    + apply (touched_trans hC i off (off + h_ncols hB) mem m m'); [assumption|].
      apply (touched_weaken hC i (k + off) (k + off + 1)); [lia|lia|assumption].
    + intros c. rewrite B', Bm. rewrite get_abs_rowval by assumption.
      rewrite (outside_rowval hC hB mem m i) by auto.
      destruct (Nat.eqb_spec c (k + off)) as [-> |Hne].
      * destruct (Nat.leb_spec off (k + off)); [|lia]. destruct (Nat.ltb_spec (k + off) (off + S k)); [|lia].
        cbn [andb]. do 2 f_equal. lia.
      * destruct (Nat.leb_spec off c); cbn [andb]; [|reflexivity].
        destruct (Nat.ltb_spec c (off + k)), (Nat.ltb_spec c (off + S k)); try reflexivity; lia.
  - exists m'. cbn [Nat.add] in *. auto.
Qed.

Theorem w_concat_fixed_ok hC hA hB mem :
  valid hC mem -> valid hA mem -> valid hB mem -> 0 < h_ncols hA ->
  h_nrows hA = h_nrows hC -> h_nrows hB = h_nrows hC -> h_ncols hC = h_ncols hA + h_ncols hB ->
  wdisjoint hC hA -> wdisjoint hC hB ->
  exists m', w_concat_fixed hC hA hB mem = Ok m' /\ length m' = length mem /\ mem_ok m' /\
    abs hC m' = mconcat (abs hA mem) (abs hB mem) /\ outside hC mem m'.
Proof.
  intros HvC HvA HvB Hc0 RA RB EC DjA DjB.
  pose proof (valid_hdr_ok _ _ HvC) as HokC. pose proof (valid_hdr_ok _ _ HvA) as HokA.
  pose proof (valid_hdr_ok _ _ HvB) as HokB. pose proof (valid_mem_ok _ _ HvC) as Hm.
  unfold w_concat_fixed. rewrite RA, RB, EC, !Nat.eqb_refl. cbn [andb negb].
  destruct (rows_loop hC 0 0 (h_nrows hC) 0 (h_ncols hA)
     (fun k => N.lor (N.ldiff (rowval hC mem k) (N.ones (N.of_nat (h_ncols hA)))) (rowval hA mem k))
     (fun i m => w_copy_words_masked hC i hA i m) mem HokC ltac:(lia) ltac:(lia) Hm)
    as (m1 & E1 & L1 & O1 & Out1 & Done1 & Rest1).
  { intros k m Hk Lm Om Outm Restm. cbn [Nat.add] in *.
    destruct (w_copy_words_masked_ok hC k hA k m) as (m' & E & L' & O' & T & B);
      try (eapply valid_same_length; eassumption); try lia.
    - apply wdisjoint_row_alias; auto; lia.
    - exists m'. split; [exact E|]. split; [assumption|]. split; [assumption|].
      apply copy_row_bits; [|apply rowval_bounded]. intros j. rewrite B.
      rewrite (outside_rowval hC hA mem m k) by (auto; lia). rewrite (Restm k) by lia. reflexivity. }
  rewrite E1. cbn [bind].
  destruct (rows_loop hC 0 0 (h_nrows hC) (h_ncols hA) (h_ncols hC)
     (fun k => N.lor (rowval hA mem k) (N.shiftl (rowval hB mem k) (N.of_nat (h_ncols hA))))
     (fun i m => forM (seq 0 (h_ncols hB)) (fun j m =>
                   b <- w_read_bit hB i j m ;; w_write_bit hC i (j + h_ncols hA) b m) m) m1 HokC
     ltac:(lia) ltac:(lia) O1) as (m2 & E2 & L2 & O2 & Out2 & Done2 & Rest2).
  { intros k m Hk Lm Om Outm Restm. cbn [Nat.add] in *.
    assert (Outmm : outside hC mem m) by (eapply outside_trans; eassumption).
    destruct (concat_bits_row hC hB k (h_ncols hA) m) as (m' & E & L' & O' & T & B);
      try (eapply valid_same_length; try eassumption; congruence); try lia; auto.
    exists m'. split; [exact E|]. split; [assumption|]. split; [now rewrite EC|].
    apply bits_ext_nat. intros c. rewrite B, N.lor_spec, testbit_shiftl_nat.
    rewrite (outside_rowval hC hB mem m k) by (auto; lia).
    rewrite (Restm k) by lia. rewrite (Done1 k) by lia.
    rewrite N.lor_spec, N.ldiff_spec, testbit_ones_nat.
    destruct (Nat.leb_spec (h_ncols hA) c); cbn [andb].
    - rewrite (rowval_bounded hA mem k c) by lia. cbn [orb].
      destruct (Nat.ltb_spec c (h_ncols hA + h_ncols hB)); [reflexivity|].
      rewrite (rowval_bounded hC mem k c) by lia. rewrite (rowval_bounded hB mem k (c - h_ncols hA)) by lia.
      destruct (Nat.ltb_spec c (h_ncols hA)); reflexivity.
    - destruct (Nat.ltb_spec c (h_ncols hA)); [|lia]. cbn [negb]. now rewrite andb_false_r, orb_false_r. }
  exists m2. split; [exact E2|]. split; [congruence|]. split; [assumption|]. split.
  - apply abs_rows_ext.
    + cbn. lia.
    + cbn. lia.
    + cbn [mconcat rows]. rewrite zipcat_length, !rows_abs_length. lia.
    + intros i Hi. unfold row, mconcat. cbn [rows]. cbn [Nat.add] in *.
      rewrite zipcat_nth by (rewrite !rows_abs_length; lia).
      change (nth i (rows (abs hA mem)) 0%N) with (row (abs hA mem) i).
      change (nth i (rows (abs hB mem)) 0%N) with (row (abs hB mem) i).
      rewrite !row_abs by lia. apply Done2. lia.
  - eapply outside_trans; eassumption.
Qed.
