(* Word/WRefine.v — refinement / frame / padding theorems, part 1: single bits, bit ranges and the
   row operations of Word/WOps.v (mzd_read_bit, mzd_write_bit, mzd_read_bits, mzd_xor_bits,
   mzd_clear_bits, _mzd_row_swap, mzd_row_add_offset, mzd_row_clear_offset).

   Shape of every kernel theorem [K_ok]: for ALL valid headers (windows included) and ALL memories,
     exists m', K … mem = Ok m'            (no OOB / UB / Die: C11 part)
       /\ length m' = length mem /\ mem_ok m'
       /\ touched h i c0 c1 mem m'         (row-level frame, implies [outside h mem m'])
       /\ <bits of the new row value>,
   and the corollary [K_refines]:  abs h m' = Op (abs h mem) /\ outside h mem m'.
   No axioms. *)
From Coq Require Import List NArith Arith Lia Bool ZifyBool ZifyNat ZifyN ZArith.
From M4 Require Import Base.Bits Lin.Mat Lin.Ops Lin.OpsProofs Word.WMat Word.WOps Word.WMatLemmas.
Import ListNotations.
Local Open Scope nat_scope.
Ltac Zify.zify_post_hook ::= Z.div_mod_to_equations.

Ltac bfin := bsolve; rewrite ?andb_true_r, ?andb_false_r, ?orb_false_r, ?orb_true_r, ?xorb_false_r;
  try reflexivity.

(* ------------------------------------------------------------------------------------------ *)
(** * single-word stores into a row of a view *)
Lemma testbit_1 k : N.testbit 1 (N.of_nat k) = (k =? 0).
Proof. change 1%N with (2 ^ N.of_nat 0)%N. rewrite testbit_pow2_nat. apply Nat.eqb_sym. Qed.

Lemma testbit_b2n v k : N.testbit (N.b2n v) (N.of_nat k) = v && (k =? 0).
Proof. destruct v; cbn [N.b2n andb]; [apply testbit_1|apply N.bits_0]. Qed.

Lemma upd_word_touched h i k c0 c1 v mem : row_addr h i + k < length mem ->
  (forall b, b < 64 -> ~ (c0 <= 64 * k + b < c1) ->
     N.testbit v (N.of_nat b) = N.testbit (word_at mem (row_addr h i + k)) (N.of_nat b)) ->
  touched h i c0 c1 mem (upd (row_addr h i + k) (trunc v) mem).
Proof.
  intros Hp H. apply touched_intro; [apply upd_length|]. intros p b Hb Hn.
  rewrite word_at_upd by assumption. destruct (Nat.eqb_spec p (row_addr h i + k)) as [-> |Hne]; [|reflexivity].
  rewrite testbit_trunc_lt by assumption. apply H; [assumption|]. intros Hc. apply (Hn k); lia.
Qed.

Lemma upd_word_rowval h i k v mem j : hdr_ok h -> row_addr h i + k < length mem ->
  N.testbit (rowval h (upd (row_addr h i + k) (trunc v) mem) i) (N.of_nat j) =
  if j / 64 =? k then (j <? h_ncols h) && N.testbit v (N.of_nat (j mod 64))
  else N.testbit (rowval h mem i) (N.of_nat j).
Proof.
  intros Hok Hp. rewrite !testbit_rowval by assumption. unfold bit. rewrite word_at_upd by assumption.
  destruct (Nat.eqb_spec (j / 64) k) as [<- |Hne].
  - rewrite Nat.eqb_refl. rewrite testbit_trunc_lt by lia. reflexivity.
  - destruct (Nat.eqb_spec (row_addr h i + j / 64) (row_addr h i + k)); [lia|reflexivity].
Qed.

(** from a word-level description of the new row to the row-level frame and the new row value *)
Lemma row_desc h i c0 c1 mem m' (F : nat -> N) :
  hdr_ok h -> length m' = length mem ->
  (forall p, (forall k, k < h_width h -> p <> row_addr h i + k) -> word_at m' p = word_at mem p) ->
  (forall k, k < h_width h -> word_at m' (row_addr h i + k) = F k) ->
  (forall k b, k < h_width h -> b < 64 -> ~ (c0 <= 64 * k + b < c1) ->
     N.testbit (F k) (N.of_nat b) = N.testbit (word_at mem (row_addr h i + k)) (N.of_nat b)) ->
  touched h i c0 c1 mem m' /\
  forall j, j < h_ncols h -> N.testbit (rowval h m' i) (N.of_nat j) = N.testbit (F (j / 64)) (N.of_nat (j mod 64)).
Proof.
  intros Hok L Hout Hin Hkeep. split.
  - apply touched_intro; [exact L|]. intros p b Hb Hn.
    destruct (le_lt_dec (row_addr h i) p) as [H1|H1];
      [destruct (lt_dec p (row_addr h i + h_width h)) as [H2|H2]|].
    + replace p with (row_addr h i + (p - row_addr h i)) by lia.
      rewrite Hin by lia. apply Hkeep; [lia|assumption|]. intros Hc. apply (Hn (p - row_addr h i)); lia.
    + rewrite Hout; [reflexivity|]. intros k Hk. lia.
    + rewrite Hout; [reflexivity|]. intros k Hk. lia.
  - intros j Hj. rewrite testbit_rowval by assumption.
    destruct (Nat.ltb_spec j (h_ncols h)); [|lia]. cbn [andb]. unfold bit.
    rewrite Hin by now apply width_pos. reflexivity.
Qed.

(* ------------------------------------------------------------------------------------------ *)
(** * mzd_read_bit / mzd_write_bit *)
Theorem w_read_bit_ok h mem i j : valid h mem -> i < h_nrows h -> j < h_ncols h ->
  w_read_bit h i j mem = Ok (get (abs h mem) i j).
Proof.
  intros Hv Hi Hj. pose proof (valid_hdr_ok _ _ Hv) as Hok.
  unfold w_read_bit. rewrite rd_ok by (apply valid_word; auto using width_pos). cbn [bind]. f_equal.
  rewrite get_abs by assumption. unfold bit. change 0%N with (N.of_nat 0).
  rewrite N.land_spec, testbit_shr, testbit_1. cbn [Nat.add]. now rewrite Nat.eqb_refl, andb_true_r.
Qed.

Theorem w_write_bit_ok h mem i j v : valid h mem -> i < h_nrows h -> j < h_ncols h ->
  exists m', w_write_bit h i j v mem = Ok m' /\ length m' = length mem /\ mem_ok m' /\
    touched h i j (j + 1) mem m' /\
    forall j', N.testbit (rowval h m' i) (N.of_nat j') =
               if j' =? j then v else N.testbit (rowval h mem i) (N.of_nat j').
Proof.
  intros Hv Hi Hj. pose proof (valid_hdr_ok _ _ Hv) as Hok. pose proof (valid_mem_ok _ _ Hv) as Hm.
  assert (Hp : row_addr h i + j / 64 < length mem) by (apply valid_word; auto using width_pos).
  unfold w_write_bit. rewrite rd_ok by assumption. cbn [bind]. rewrite wr_ok by assumption.
  eexists. split; [reflexivity|]. split; [apply upd_length|]. split; [now apply mem_ok_upd|]. split.
  - apply upd_word_touched; [assumption|]. intros b Hb Hn. wbits. rewrite testbit_1, testbit_b2n.
    bsolve; now rewrite ?andb_true_r, ?andb_false_r, ?orb_false_r.
  - intros j'. rewrite upd_word_rowval by assumption. wbits. rewrite testbit_1, testbit_b2n.
    rewrite testbit_rowval by assumption. unfold bit.
    destruct (Nat.eqb_spec j' j) as [-> |Hne].
    + rewrite Nat.eqb_refl. bsolve. destruct v; cbn; now rewrite ?andb_false_r, ?orb_true_r.
    + destruct (Nat.eqb_spec (j' / 64) (j / 64)) as [E|E]; [|reflexivity]. rewrite E.
      assert (j' mod 64 <> j mod 64) by lia.
      bsolve; now rewrite ?andb_true_r, ?andb_false_r, ?orb_false_r.
Qed.

Corollary w_write_bit_refines h mem i j v : valid h mem -> i < h_nrows h -> j < h_ncols h ->
  exists m', w_write_bit h i j v mem = Ok m' /\ length m' = length mem /\ mem_ok m' /\
    abs h m' = write_bit (abs h mem) i j v /\ outside h mem m'.
Proof.
  intros Hv Hi Hj. pose proof (valid_hdr_ok _ _ Hv) as Hok.
  destruct (w_write_bit_ok h mem i j v Hv Hi Hj) as (m' & E & L & O & T & B).
  exists m'. repeat (split; [assumption|]). split.
  - rewrite (touched_abs h i j (j + 1) mem m') by (auto; lia). unfold write_bit. f_equal.
    rewrite row_abs by assumption. apply bits_ext_nat. intros j'. rewrite B.
    destruct v; rewrite ?N.lor_spec, ?N.ldiff_spec, testbit_pow2_nat, (Nat.eqb_sym j j');
      destruct (j' =? j); cbn [negb]; now rewrite ?orb_true_r, ?orb_false_r, ?andb_true_r, ?andb_false_r.
  - apply (touched_outside h i j (j + 1)); auto. lia.
Qed.

(* ------------------------------------------------------------------------------------------ *)
(** * mzd_read_bits / mzd_xor_bits / mzd_clear_bits   (documented domain 1 <= n <= 64) *)
Theorem w_read_bits_ok h mem x y n : valid h mem -> x < h_nrows h -> 1 <= n <= 64 -> y + n <= h_ncols h ->
  w_read_bits h x y n mem = Ok (read_bits (abs h mem) x y n).
Proof.
  intros Hv Hx Hn Hy. pose proof (valid_hdr_ok _ _ Hv) as Hok. pose proof (valid_mem_ok _ _ Hv) as Hm.
  assert (Hp : row_addr h x + y / 64 < length mem) by (apply valid_word; auto; apply width_pos; auto; lia).
  unfold w_read_bits. destruct (Nat.ltb_spec 64 n); [lia|].
  destruct (Nat.leb_spec (y mod 64 + n) 64) as [Hs|Hs].
  - rewrite rd_ok by assumption. cbn [bind]. rewrite shl64_ok by lia. cbn [bind]. rewrite shr64_ok by lia.
    f_equal. apply bits_ext_nat. intros k. rewrite testbit_read_bits. wbits.
    destruct (Nat.ltb_spec k n) as [Hk|Hk]; cbn [andb].
    + rewrite get_abs by (auto; lia). unfold bit.
      replace ((y + k) / 64) with (y / 64) by lia. replace ((y + k) mod 64) with (y mod 64 + k) by lia.
      replace (k + (64 - n) - (64 - (y mod 64 + n))) with (y mod 64 + k) by lia. bfin.
    + bfin.
  - assert (Hp1 : row_addr h x + y / 64 + 1 < length mem).
    { rewrite <- Nat.add_assoc. apply valid_word; auto.
      pose proof (width_pos h (y + n - 1) Hok ltac:(lia)). lia. }
    rewrite rd_ok by assumption. cbn [bind]. rewrite rd_ok by assumption. cbn [bind].
    rewrite shl64_ok by lia. cbn [bind]. rewrite shr64_ok by lia. cbn [bind]. rewrite shr64_ok by lia.
    f_equal. apply bits_ext_nat. intros k. rewrite testbit_read_bits. wbits.
    destruct (Nat.ltb_spec k n) as [Hk|Hk]; cbn [andb].
    + rewrite get_abs by (auto; lia). unfold bit.
      destruct (Nat.lt_ge_cases (y mod 64 + k) 64) as [Hlo|Hhi].
      * replace ((y + k) / 64) with (y / 64) by lia. replace ((y + k) mod 64) with (y mod 64 + k) by lia.
        replace (k + (64 - n) + (y mod 64 + n - 64)) with (y mod 64 + k) by lia. bsolve.
      * replace ((y + k) / 64) with (y / 64 + 1) by lia. replace ((y + k) mod 64) with (y mod 64 + k - 64) by lia.
        rewrite (testbit_word_high (word_at mem (row_addr h x + y / 64))) by (auto using mem_ok_word; lia).
        rewrite orb_false_r, Nat.add_assoc.
        replace (k + (64 - n) - (64 - (y mod 64 + n - 64))) with (y mod 64 + k - 64) by lia. bfin.
    + rewrite (testbit_word_high (word_at mem (row_addr h x + y / 64))) by (auto using mem_ok_word; lia).
      bfin.
Qed.

(** xor of the n-bit value [values] (bits beyond n must be clear, as the C callers guarantee) *)
Theorem w_xor_bits_ok h mem x y n values : valid h mem -> x < h_nrows h -> 1 <= n <= 64 ->
  y + n <= h_ncols h -> bounded n values ->
  exists m', w_xor_bits h x y n values mem = Ok m' /\ length m' = length mem /\ mem_ok m' /\
    touched h x y (y + n) mem m' /\
    forall j, N.testbit (rowval h m' x) (N.of_nat j) =
      xorb (N.testbit (rowval h mem x) (N.of_nat j))
           ((y <=? j) && (j <? y + n) && N.testbit values (N.of_nat (j - y))).
Proof.
  intros Hv Hx Hn Hy Hb. pose proof (valid_hdr_ok _ _ Hv) as Hok. pose proof (valid_mem_ok _ _ Hv) as Hm.
  assert (Hp : row_addr h x + y / 64 < length mem) by (apply valid_word; auto; apply width_pos; auto; lia).
  unfold w_xor_bits. rewrite rd_ok by assumption. cbn [bind]. rewrite wr_ok by assumption. cbn [bind].
  set (m1 := upd _ _ mem).
  assert (T1 : touched h x y (y + n) mem m1).
  { apply upd_word_touched; [assumption|]. intros b Hb64 Hnin. wbits.
    destruct (Nat.leb_spec (y mod 64) b); cbn [andb]; [|apply xorb_false_r].
    rewrite (Hb (b - y mod 64)) by lia. cbn [andb]. apply xorb_false_r. }
  assert (R1 : forall j, N.testbit (rowval h m1 x) (N.of_nat j) =
      xorb (N.testbit (rowval h mem x) (N.of_nat j))
           ((j / 64 =? y / 64) && (y <=? j) && (j <? y + n) && N.testbit values (N.of_nat (j - y)))).
  { intros j. unfold m1. rewrite upd_word_rowval by assumption. rewrite testbit_rowval by assumption. unfold bit.
    destruct (Nat.eqb_spec (j / 64) (y / 64)) as [E|E]; cbn [andb]; [|now rewrite xorb_false_r].
    rewrite E. wbits. destruct (Nat.ltb_spec j (h_ncols h)) as [Hj|Hj]; cbn [andb].
    - destruct (Nat.ltb_spec (j mod 64) 64); [|lia]. rewrite andb_true_r. f_equal.
      destruct (Nat.leb_spec y j) as [Hyj|Hyj].
      2:{ destruct (Nat.leb_spec (y mod 64) (j mod 64)); [lia|reflexivity]. }
      destruct (Nat.leb_spec (y mod 64) (j mod 64)); [|lia]. cbn [andb].
      replace (j mod 64 - y mod 64) with (j - y) by lia.
      destruct (Nat.ltb_spec j (y + n)); [reflexivity|]. cbn [andb]. apply Hb. lia.
    - destruct (Nat.ltb_spec j (y + n)); [lia|]. now rewrite andb_false_r. }
  destruct (Nat.ltb_spec (64 - y mod 64) n) as [Hsp|Hsp].
  - assert (Hp1 : row_addr h x + (y / 64 + 1) < length mem).
    { apply valid_word; auto. pose proof (width_pos h (y + n - 1) Hok ltac:(lia)). lia. }
    assert (L1 : length m1 = length mem) by apply upd_length.
    rewrite <- Nat.add_assoc. rewrite rd_ok by lia. cbn [bind]. rewrite shr64_ok by lia. cbn [bind].
    rewrite wr_ok by lia.
    eexists. split; [reflexivity|]. split; [now rewrite upd_length|].
    split; [apply mem_ok_upd; now apply mem_ok_upd|]. split.
    + apply (touched_trans h x y (y + n) mem m1); [assumption|].
      apply upd_word_touched; [lia|]. intros b Hb64 Hnin. wbits.
      rewrite (Hb (b + (64 - y mod 64))) by lia. apply xorb_false_r.
    + intros j. rewrite upd_word_rowval by (auto; lia).
      destruct (Nat.eqb_spec (j / 64) (y / 64 + 1)) as [E|E].
      * unfold m1. rewrite word_at_upd_neq by lia. wbits.
        destruct (Nat.ltb_spec j (h_ncols h)) as [Hj|Hj]; cbn [andb].
        -- rewrite testbit_rowval by assumption. destruct (Nat.ltb_spec j (h_ncols h)); [|lia]. cbn [andb].
           unfold bit. rewrite E. f_equal.
           destruct (Nat.leb_spec y j); [|lia]. cbn [andb].
           replace (j mod 64 + (64 - y mod 64)) with (j - y) by lia.
           destruct (Nat.ltb_spec j (y + n)); [reflexivity|]. cbn [andb]. apply Hb. lia.
        -- rewrite (rowval_bounded h mem x j) by lia. destruct (Nat.ltb_spec j (y + n)); [lia|].
           now rewrite andb_false_r.
      * rewrite R1. f_equal. destruct (Nat.eqb_spec (j / 64) (y / 64)); cbn [andb]; [reflexivity|].
        destruct (Nat.leb_spec y j), (Nat.ltb_spec j (y + n)); cbn [andb]; try reflexivity. lia.
  - eexists. split; [reflexivity|]. split; [apply upd_length|]. split; [now apply mem_ok_upd|].
    split; [assumption|]. intros j. rewrite R1. f_equal.
    destruct (Nat.eqb_spec (j / 64) (y / 64)); cbn [andb]; [reflexivity|].
    destruct (Nat.leb_spec y j), (Nat.ltb_spec j (y + n)); cbn [andb]; try reflexivity. lia.
Qed.

Theorem w_clear_bits_ok h mem x y n : valid h mem -> x < h_nrows h -> 1 <= n <= 64 -> y + n <= h_ncols h ->
  exists m', w_clear_bits h x y n mem = Ok m' /\ length m' = length mem /\ mem_ok m' /\
    touched h x y (y + n) mem m' /\
    forall j, N.testbit (rowval h m' x) (N.of_nat j) =
      N.testbit (rowval h mem x) (N.of_nat j) && negb ((y <=? j) && (j <? y + n)).
Proof.
  intros Hv Hx Hn Hy. pose proof (valid_hdr_ok _ _ Hv) as Hok. pose proof (valid_mem_ok _ _ Hv) as Hm.
  assert (Hp : row_addr h x + y / 64 < length mem) by (apply valid_word; auto; apply width_pos; auto; lia).
  unfold w_clear_bits. rewrite shr64_ok by lia. cbn [bind].
  rewrite rd_ok by assumption. cbn [bind]. rewrite wr_ok by assumption. cbn [bind].
  set (m1 := upd _ _ mem).
  assert (T1 : touched h x y (y + n) mem m1).
  { apply upd_word_touched; [assumption|]. intros b Hb64 Hnin. wbits.
    destruct (Nat.ltb_spec b 64); [|lia]. cbn [andb].
    destruct (Nat.leb_spec (y mod 64) b); cbn [andb negb]; [|apply andb_true_r].
    destruct (Nat.ltb_spec (b - y mod 64 + (64 - n)) 64); [lia|]. cbn [andb negb]. apply andb_true_r. }
  assert (R1 : forall j, N.testbit (rowval h m1 x) (N.of_nat j) =
      N.testbit (rowval h mem x) (N.of_nat j) && negb ((j / 64 =? y / 64) && (y <=? j) && (j <? y + n))).
  { intros j. unfold m1. rewrite upd_word_rowval by assumption. rewrite testbit_rowval by assumption. unfold bit.
    destruct (Nat.eqb_spec (j / 64) (y / 64)) as [E|E]; cbn [andb negb]; [|now rewrite andb_true_r].
    rewrite E. wbits. destruct (Nat.ltb_spec j (h_ncols h)) as [Hj|Hj]; cbn [andb]; [|reflexivity].
    destruct (Nat.ltb_spec (j mod 64) 64); [|lia]. cbn [andb]. f_equal.
    destruct (Nat.leb_spec y j) as [Hyj|Hyj].
    2:{ destruct (Nat.leb_spec (y mod 64) (j mod 64)); [lia|reflexivity]. }
    destruct (Nat.leb_spec (y mod 64) (j mod 64)); [|lia]. cbn [andb]. bfin. }
  destruct (Nat.ltb_spec (64 - y mod 64) n) as [Hsp|Hsp].
  - assert (Hp1 : row_addr h x + (y / 64 + 1) < length mem).
    { apply valid_word; auto. pose proof (width_pos h (y + n - 1) Hok ltac:(lia)). lia. }
    assert (L1 : length m1 = length mem) by apply upd_length.
    rewrite <- Nat.add_assoc. rewrite rd_ok by lia. cbn [bind]. rewrite shr64_ok by lia. cbn [bind].
    rewrite wr_ok by lia.
    eexists. split; [reflexivity|]. split; [now rewrite upd_length|].
    split; [apply mem_ok_upd; now apply mem_ok_upd|]. split.
    + apply (touched_trans h x y (y + n) mem m1); [assumption|].
      apply upd_word_touched; [lia|]. intros b Hb64 Hnin. wbits.
      destruct (Nat.ltb_spec b 64); [|lia]. cbn [andb]. bfin.
    + intros j. rewrite upd_word_rowval by (auto; lia).
      destruct (Nat.eqb_spec (j / 64) (y / 64 + 1)) as [E|E].
      * unfold m1. rewrite word_at_upd_neq by lia. wbits.
        rewrite testbit_rowval by assumption. unfold bit. rewrite E.
        destruct (Nat.ltb_spec j (h_ncols h)) as [Hj|Hj]; cbn [andb]; [|reflexivity].
        destruct (Nat.ltb_spec (j mod 64) 64); [|lia]. cbn [andb]. f_equal. bfin.
      * rewrite R1. f_equal. f_equal. destruct (Nat.eqb_spec (j / 64) (y / 64)); cbn [andb]; [reflexivity|].
        destruct (Nat.leb_spec y j), (Nat.ltb_spec j (y + n)); cbn [andb]; try reflexivity. lia.
  - eexists. split; [reflexivity|]. split; [apply upd_length|]. split; [now apply mem_ok_upd|].
    split; [assumption|]. intros j. rewrite R1. f_equal. f_equal.
    destruct (Nat.eqb_spec (j / 64) (y / 64)); cbn [andb]; [reflexivity|].
    destruct (Nat.leb_spec y j), (Nat.ltb_spec j (y + n)); cbn [andb]; try reflexivity. lia.
Qed.

Corollary w_xor_bits_refines h mem x y n values : valid h mem -> x < h_nrows h -> 1 <= n <= 64 ->
  y + n <= h_ncols h -> bounded n values ->
  exists m', w_xor_bits h x y n values mem = Ok m' /\ length m' = length mem /\ mem_ok m' /\
    abs h m' = xor_bits (abs h mem) x y n values /\ outside h mem m'.
Proof.
  intros Hv Hx Hn Hy Hb. pose proof (valid_hdr_ok _ _ Hv) as Hok.
  destruct (w_xor_bits_ok h mem x y n values Hv Hx Hn Hy Hb) as (m' & E & L & O & T & B).
  exists m'. repeat (split; [assumption|]). split.
  - rewrite (touched_abs h x y (y + n) mem m') by auto. unfold xor_bits. f_equal.
    rewrite row_abs by assumption. apply bits_ext_nat. intros j. rewrite B. wbits. f_equal.
    destruct (Nat.leb_spec y j); cbn [andb]; [|reflexivity].
    destruct (Nat.ltb_spec j (y + n)), (Nat.ltb_spec (j - y) n); try lia; cbn [andb];
      now rewrite ?andb_true_r, ?andb_false_r.
  - now apply (touched_outside h x y (y + n)).
Qed.

Corollary w_clear_bits_refines h mem x y n : valid h mem -> x < h_nrows h -> 1 <= n <= 64 ->
  y + n <= h_ncols h ->
  exists m', w_clear_bits h x y n mem = Ok m' /\ length m' = length mem /\ mem_ok m' /\
    abs h m' = clear_bits (abs h mem) x y n /\ outside h mem m'.
Proof.
  intros Hv Hx Hn Hy. pose proof (valid_hdr_ok _ _ Hv) as Hok.
  destruct (w_clear_bits_ok h mem x y n Hv Hx Hn Hy) as (m' & E & L & O & T & B).
  exists m'. repeat (split; [assumption|]). split.
  - rewrite (touched_abs h x y (y + n) mem m') by auto. unfold clear_bits. f_equal.
    rewrite row_abs by assumption. apply bits_ext_nat. intros j. rewrite B.
    now rewrite N.ldiff_spec, OpsProofs.testbit_colmask.
  - now apply (touched_outside h x y (y + n)).
Qed.

(* ------------------------------------------------------------------------------------------ *)
(** * _mzd_row_swap(M, rowa, rowb, startblock) *)
Ltac wsolve := bdestr; cbn [andb orb negb]; try lia; try reflexivity; try (f_equal; lia);
  try (do 2 f_equal; lia); try (do 3 f_equal; lia).

(** a step that rewrites the words of two rows *)
Lemma rows_desc2 h a b mem m' : hdr_ok h -> a <> b -> a < h_nrows h -> b < h_nrows h ->
  length m' = length mem ->
  (forall p, (forall k, k < h_width h -> p <> row_addr h a + k /\ p <> row_addr h b + k) ->
     word_at m' p = word_at mem p) ->
  (forall i k bb, (i = a \/ i = b) -> k < h_width h -> bb < 64 -> h_ncols h <= 64 * k + bb ->
     N.testbit (word_at m' (row_addr h i + k)) (N.of_nat bb) =
     N.testbit (word_at mem (row_addr h i + k)) (N.of_nat bb)) ->
  outside h mem m' /\ (forall i, i <> a -> i <> b -> rowval h m' i = rowval h mem i).
Proof.
  intros Hok Hab Ha Hb L Hout Hkeep. pose proof Hok as [_ [_ Hrs]]. split.
  - apply outside_intro; auto.
    + intros p Hp. apply Hout. intros k Hk. split; intros ->; apply Hp; [exists a, k|exists b, k]; auto.
    + intros i k bb Hi Hk Hbb Hc. unfold bit.
      destruct (Nat.eq_dec i a) as [-> |Hia]; [apply Hkeep; auto|].
      destruct (Nat.eq_dec i b) as [-> |Hib]; [apply Hkeep; auto|].
      rewrite Hout; [reflexivity|]. intros k' Hk'. split; intros E; apply row_addr_inj in E; lia.
  - intros i Hia Hib. apply rowval_ext; [assumption|]. intros k bb Hk Hbb Hc.
    rewrite Hout; [reflexivity|]. intros k' Hk'. split; intros E; apply row_addr_inj in E; lia.
Qed.

Definition swp (mem : list N) (a0 b0 k p : nat) : N :=
  if (a0 <=? p) && (p <? a0 + k) then word_at mem (b0 + (p - a0))
  else if (b0 <=? p) && (p <? b0 + k) then word_at mem (a0 + (p - b0)) else word_at mem p.

Lemma swap_loop mem a0 b0 W : mem_ok mem -> a0 + W <= length mem -> b0 + W <= length mem ->
  a0 + W <= b0 \/ b0 + W <= a0 ->
  exists m1, forM (seq 0 W) (fun i m =>
          tmp <- rd m (a0 + i) ;; bi <- rd m (b0 + i) ;;
          m' <- wr m (a0 + i) bi ;; wr m' (b0 + i) tmp) mem = Ok m1 /\
    length m1 = length mem /\ mem_ok m1 /\ forall p, word_at m1 p = swp mem a0 b0 W p.
Proof.
  intros Hm Ha Hb Hsep.
  destruct (forM_inv (fun k m => length m = length mem /\ mem_ok m /\
      forall p, word_at m p = swp mem a0 b0 k p)
      (fun i m => tmp <- rd m (a0 + i) ;; bi <- rd m (b0 + i) ;;
          m' <- wr m (a0 + i) bi ;; wr m' (b0 + i) tmp) 0 W mem) as (m1 & E & I).
  - repeat split; auto. intros p. unfold swp. wsolve.
  - intros k m Hk (L & O & D). cbn [Nat.add] in Hk.
    rewrite rd_ok by lia. cbn [bind]. rewrite rd_ok by lia. cbn [bind].
    rewrite wr_ok by lia. cbn [bind]. rewrite wr_ok by (rewrite upd_length; lia).
    eexists. split; [reflexivity|]. split; [now rewrite !upd_length|].
    split; [now apply mem_ok_upd, mem_ok_upd|]. intros p.
    rewrite word_at_upd by (rewrite upd_length; lia). rewrite word_at_upd by lia. rewrite !D.
    rewrite !trunc_id by (unfold swp; repeat destruct (_ && _); now apply mem_ok_word).
    unfold swp. destruct (Nat.eqb_spec p (b0 + k)) as [-> |Hnb].
    + wsolve.
    + destruct (Nat.eqb_spec p (a0 + k)) as [-> |Hna]; wsolve.
  - exists m1. cbn [Nat.add] in I. tauto.
Qed.

Theorem w_row_swap_ok h mem a b sb : valid h mem -> a < h_nrows h -> b < h_nrows h ->
  exists m', w_row_swap h a b sb mem = Ok m' /\ length m' = length mem /\ mem_ok m' /\
    outside h mem m' /\
    forall i j, N.testbit (rowval h m' i) (N.of_nat j) =
      if 64 * sb <=? j then N.testbit (rowval h mem (transp a b i)) (N.of_nat j)
      else N.testbit (rowval h mem i) (N.of_nat j).
Proof.
  intros Hv Ha Hb. pose proof (valid_hdr_ok _ _ Hv) as Hok. pose proof (valid_mem_ok _ _ Hv) as Hm.
  pose proof Hok as [Hw [_ Hrs]]. unfold w_row_swap.
  destruct (Nat.eqb_spec a b) as [-> |Hab]; cbn [orb].
  { exists mem. repeat (split; [auto using outside_refl|]). intros i j. rewrite transp_same. now destruct (_ <=? _). }
  destruct (Nat.leb_spec (h_width h) sb) as [Hsb|Hsb].
  { exists mem. repeat (split; [auto using outside_refl|]). intros i j.
    destruct (Nat.leb_spec (64 * sb) j); [|reflexivity].
    rewrite !rowval_bounded by lia. reflexivity. }
  set (W := h_width h - sb - 1). set (a0 := row_addr h a + sb). set (b0 := row_addr h b + sb).
  assert (Hwa : forall k, k < h_width h -> row_addr h a + k < length mem) by (intros; now apply valid_word).
  assert (Hwb : forall k, k < h_width h -> row_addr h b + k < length mem) by (intros; now apply valid_word).
  assert (Hsep : row_addr h a + h_width h <= row_addr h b \/ row_addr h b + h_width h <= row_addr h a).
  { destruct (alias_rows h h a b (or_introl eq_refl) Hok Hok Ha Hb) as [[_ E]|S]; [congruence|].
    unfold sep in S. lia. }
  pose proof (Hwa (h_width h - 1) ltac:(lia)). pose proof (Hwb (h_width h - 1) ltac:(lia)).
  destruct (swap_loop mem a0 b0 W Hm) as (m1 & E1 & L1 & O1 & D1); try (subst a0 b0 W; lia).
  rewrite E1. cbn [bind].
  rewrite rd_ok by (subst a0 b0 W; lia). cbn [bind]. rewrite rd_ok by (subst a0 b0 W; lia). cbn [bind].
  rewrite wr_ok by (subst a0 b0 W; lia). cbn [bind].
  rewrite rd_ok by (rewrite upd_length; subst a0 b0 W; lia). cbn [bind].
  rewrite wr_ok by (rewrite upd_length; subst a0 b0 W; lia).
  rewrite (word_at_upd_neq (a0 + W) (b0 + W)) by (subst a0 b0 W; lia).
  set (aw := word_at m1 (a0 + W)). set (bw := word_at m1 (b0 + W)).
  assert (Eaw : aw = word_at mem (a0 + W)) by (unfold aw; rewrite D1; unfold swp; wsolve).
  assert (Ebw : bw = word_at mem (b0 + W)) by (unfold bw; rewrite D1; unfold swp; wsolve).
  set (tmp := N.land (N.lxor aw bw) (h_hmask h)).
  set (m' := upd (b0 + W) _ (upd (a0 + W) _ m1)).
  assert (D' : forall p, word_at m' p =
     if p =? b0 + W then trunc (N.lxor bw tmp) else if p =? a0 + W then trunc (N.lxor aw tmp)
     else swp mem a0 b0 W p).
  { intros p. unfold m'. rewrite word_at_upd by (rewrite upd_length; subst a0 b0 W; lia).
    rewrite word_at_upd by (subst a0 b0 W; lia). now rewrite D1. }
  assert (L' : length m' = length mem) by (unfold m'; now rewrite !upd_length).
  exists m'. split; [reflexivity|]. split; [assumption|].
  split; [unfold m'; now apply mem_ok_upd, mem_ok_upd|].
  assert (Hc0 : 0 < h_ncols h) by lia.
  (* bits of the new words of rows a and b *)
  assert (B : forall i k bb, (i = a \/ i = b) -> k < h_width h -> bb < 64 ->
     N.testbit (word_at m' (row_addr h i + k)) (N.of_nat bb) =
     if (sb <=? k) && (64 * k + bb <? h_ncols h)
     then N.testbit (word_at mem (row_addr h (transp a b i) + k)) (N.of_nat bb)
     else N.testbit (word_at mem (row_addr h i + k)) (N.of_nat bb)).
  { intros i k bb Hi Hk Hbb. rewrite D'. unfold swp, transp.
    destruct Hi as [-> | ->].
    - destruct (Nat.eqb_spec (row_addr h a + k) (b0 + W)); [subst a0 b0 W; lia|].
      destruct (Nat.eqb_spec (row_addr h a + k) (a0 + W)) as [E|E].
      + assert (k = h_width h - 1) by (subst a0 W; lia). subst k.
        rewrite testbit_trunc_lt by assumption. unfold tmp. wbits. rewrite testbit_hmask' by assumption.
        rewrite Eaw, Ebw. rewrite Nat.eqb_refl.
        replace (a0 + W) with (row_addr h a + (h_width h - 1)) by (subst a0 W; lia).
        replace (b0 + W) with (row_addr h b + (h_width h - 1)) by (subst b0 W; lia).
        destruct (Nat.leb_spec sb (h_width h - 1)); [|lia]. cbn [andb].
        destruct (64 * (h_width h - 1) + bb <? h_ncols h);
          rewrite ?andb_true_r, ?andb_false_r, ?xorb_false_r; [|reflexivity].
        now destruct (N.testbit (word_at mem (row_addr h a + (h_width h - 1))) (N.of_nat bb)),
          (N.testbit (word_at mem (row_addr h b + (h_width h - 1))) (N.of_nat bb)).
      + rewrite Nat.eqb_refl. pose proof (full_word_in h k bb Hok).
        subst a0 b0 W. wsolve.
    - destruct (Nat.eqb_spec b a); [congruence|]. rewrite Nat.eqb_refl.
      destruct (Nat.eqb_spec (row_addr h b + k) (b0 + W)) as [E|E].
      + assert (k = h_width h - 1) by (subst b0 W; lia). subst k.
        rewrite testbit_trunc_lt by assumption. unfold tmp. wbits. rewrite testbit_hmask' by assumption.
        rewrite Eaw, Ebw.
        replace (a0 + W) with (row_addr h a + (h_width h - 1)) by (subst a0 W; lia).
        replace (b0 + W) with (row_addr h b + (h_width h - 1)) by (subst b0 W; lia).
        destruct (Nat.leb_spec sb (h_width h - 1)); [|lia]. cbn [andb].
        destruct (64 * (h_width h - 1) + bb <? h_ncols h);
          rewrite ?andb_true_r, ?andb_false_r, ?xorb_false_r; [|reflexivity].
        now destruct (N.testbit (word_at mem (row_addr h a + (h_width h - 1))) (N.of_nat bb)),
          (N.testbit (word_at mem (row_addr h b + (h_width h - 1))) (N.of_nat bb)).
      + destruct (Nat.eqb_spec (row_addr h b + k) (a0 + W)); [subst a0 b0 W; lia|].
        pose proof (full_word_in h k bb Hok). subst a0 b0 W. wsolve. }
  destruct (rows_desc2 h a b mem m' Hok Hab Ha Hb L') as [Out Oth].
  { intros p Hp. rewrite D'. unfold swp.
    pose proof (Hp (h_width h - 1) ltac:(lia)).
    destruct (Nat.eqb_spec p (b0 + W)); [subst a0 b0 W; lia|].
    destruct (Nat.eqb_spec p (a0 + W)); [subst a0 b0 W; lia|].
    destruct (Nat.leb_spec a0 p), (Nat.ltb_spec p (a0 + W)); cbn [andb];
      try (pose proof (Hp (p - row_addr h a) ltac:(subst a0 W; lia)); subst a0; lia);
    destruct (Nat.leb_spec b0 p), (Nat.ltb_spec p (b0 + W)); cbn [andb]; try reflexivity;
      pose proof (Hp (p - row_addr h b) ltac:(subst b0 W; lia)); subst b0; lia. }
  { intros i k bb Hi Hk Hbb Hc. rewrite B by assumption.
    destruct (Nat.ltb_spec (64 * k + bb) (h_ncols h)); [lia|]. now rewrite andb_false_r. }
  split; [assumption|]. intros i j.
  destruct (Nat.lt_ge_cases j (h_ncols h)) as [Hj|Hj].
  2:{ rewrite !rowval_bounded by lia. now destruct (_ <=? _). }
  pose proof (width_pos h j Hok Hj) as Hjw.
  destruct (Nat.eq_dec i a) as [-> |Hia]; [|destruct (Nat.eq_dec i b) as [-> |Hib]].
  - rewrite !testbit_rowval by assumption. destruct (Nat.ltb_spec j (h_ncols h)); [|lia]. cbn [andb].
    unfold bit. rewrite B by (auto; lia).
    replace (64 * (j / 64) + j mod 64) with j by lia. destruct (Nat.ltb_spec j (h_ncols h)); [|lia].
    rewrite andb_true_r. destruct (Nat.leb_spec sb (j / 64)), (Nat.leb_spec (64 * sb) j); try lia; reflexivity.
  - rewrite !testbit_rowval by assumption. destruct (Nat.ltb_spec j (h_ncols h)); [|lia]. cbn [andb].
    unfold bit. rewrite B by (auto; lia).
    replace (64 * (j / 64) + j mod 64) with j by lia. destruct (Nat.ltb_spec j (h_ncols h)); [|lia].
    rewrite andb_true_r. destruct (Nat.leb_spec sb (j / 64)), (Nat.leb_spec (64 * sb) j); try lia; reflexivity.
  - rewrite Oth by assumption. unfold transp.
    destruct (Nat.eqb_spec i a); [congruence|]. destruct (Nat.eqb_spec i b); [congruence|].
    now destruct (_ <=? _).
Qed.

(** mzd_row_swap = _mzd_row_swap(M, a, b, 0) *)
Corollary w_row_swap_refines h mem a b : valid h mem -> a < h_nrows h -> b < h_nrows h ->
  exists m', w_row_swap h a b 0 mem = Ok m' /\ length m' = length mem /\ mem_ok m' /\
    abs h m' = row_swap (abs h mem) a b /\ outside h mem m'.
Proof.
  intros Hv Ha Hb. destruct (w_row_swap_ok h mem a b 0 Hv Ha Hb) as (m' & E & L & O & Out & B).
  exists m'. repeat (split; [assumption|]). split; [|assumption].
  apply abs_rows_ext; try reflexivity.
  - now rewrite len_row_swap, rows_abs_length.
  - intros i Hi. rewrite row_row_swap by now rewrite rows_abs_length.
    assert (transp a b i < h_nrows h) by now apply transp_lt.
    rewrite row_abs by assumption. apply bits_ext_nat. intros j. rewrite B.
    destruct (Nat.leb_spec (64 * 0) j); [reflexivity|lia].
Qed.
