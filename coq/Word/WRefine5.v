(* Word/WRefine5.v — refinement / frame / padding theorems, part 5: mzd_submatrix (repaired aligned
   path with the masked tail store, and the unaligned mzd_read_bits path), destination supplied or
   fresh.  No axioms. *)
From Coq Require Import List NArith Arith Lia Bool ZifyBool ZifyNat ZifyN ZArith.
From M4 Require Import Base.Bits Lin.Mat Lin.Ops Lin.OpsProofs Word.WMat Word.WOps Word.WMatLemmas
  Word.WRefineLemmas Word.WRefine Word.WRefine2 Word.WRefine3.
Import ListNotations.
Local Open Scope nat_scope.
Ltac Zify.zify_post_hook ::= Z.div_mod_to_equations.

(** columns [0, c) from x, the rest from d *)
Definition merge (c : nat) (x d : N) : N :=
  N.lor (N.land x (N.ones (N.of_nat c))) (N.ldiff d (N.ones (N.of_nat c))).

Lemma testbit_merge c x d j :
  N.testbit (merge c x d) (N.of_nat j) = if j <? c then N.testbit x (N.of_nat j) else N.testbit d (N.of_nat j).
Proof.
  unfold merge. rewrite N.lor_spec, N.land_spec, N.ldiff_spec, testbit_ones_nat.
  destruct (j <? c); cbn [negb]; now rewrite ?andb_true_r, ?andb_false_r, ?orb_false_r.
Qed.

Lemma merge_ext c x d z :
  (forall j, N.testbit z (N.of_nat j) = if j <? c then N.testbit x (N.of_nat j) else N.testbit d (N.of_nat j)) ->
  z = merge c x d.
Proof. intros H. apply bits_ext_nat. intros j. now rewrite H, testbit_merge. Qed.

(** a source that shares no word with the row being written is seen unchanged *)
Lemma desc_src_abs hM base a j f mem m : desc m (stored base a j f mem) ->
  (forall i k, i < h_nrows hM -> k < h_width hM -> ~ (base + a <= row_addr hM i + k < base + j)) ->
  abs hM m = abs hM mem.
Proof.
  intros D H. unfold abs. f_equal. apply map_ext_in. intros i Hi. rewrite in_seq in Hi.
  unfold rowval. f_equal. f_equal. unfold row_words. apply map_ext_in. intros k Hk. rewrite in_seq in Hk.
  rewrite D. apply stored_out. apply H; lia.
Qed.

Lemma wdisjoint_row_words hS hM i : wdisjoint hS hM -> i < h_nrows hS ->
  forall j i' k, j <= h_width hS -> i' < h_nrows hM -> k < h_width hM ->
  ~ (row_addr hS i + 0 <= row_addr hM i' + k < row_addr hS i + j).
Proof.
  intros Dj Hi j i' k Hj Hi' Hk Hin. apply (Dj (row_addr hM i' + k)).
  - exists i, (row_addr hM i' + k - row_addr hS i). repeat split; lia.
  - exists i', k. auto.
Qed.

Section Submatrix.
  Variables (hS hM : hdr) (sr sc er ec : nat).
  Hypothesis (HokS : hdr_ok hS) (HokM : hdr_ok hM).
  Hypothesis (Hrows : h_nrows hS = er - sr) (Hcols : h_ncols hS = ec - sc).
  Hypothesis (Her : er <= h_nrows hM) (Hec : ec <= h_ncols hM) (Hsc : sc < ec).
  Hypothesis (Dj : wdisjoint hS hM).

  Let X (mem : list N) (i : nat) : N := N.shiftr (rowval hM mem (sr + i)) (N.of_nat sc).

  (** aligned path, loop 1: memcpy of the q full words of row i *)
  Lemma sub_full_step i mem : valid hS mem -> valid hM mem -> i < h_nrows hS -> sc mod 64 = 0 ->
    exists m', forM (seq 0 (h_ncols hS / 64)) (fun k m =>
                 x <- rd m (row_addr hM (sr + i) + sc / 64 + k) ;; wr m (row_addr hS i + k) x) mem = Ok m' /\
      length m' = length mem /\ mem_ok m' /\ touched hS i 0 (64 * (h_ncols hS / 64)) mem m' /\
      rowval hS m' i = merge (64 * (h_ncols hS / 64)) (X mem i) (rowval hS mem i).
  Proof.
    intros HvS HvM Hi Hal. pose proof (valid_mem_ok _ _ HvS) as Hm. set (q := h_ncols hS / 64).
    assert (Hq : q <= h_width hS) by (destruct HokS as [W _]; rewrite W; subst q; lia).
    assert (HqM : sc / 64 + q <= h_width hM) by (destruct HokM as [W _]; rewrite W; subst q; lia).
    destruct (Nat.eq_dec q 0) as [E0|E0].
    { rewrite E0. cbn [seq forM]. exists mem. split; [reflexivity|]. split; [reflexivity|]. split; [assumption|].
      split; [apply touched_refl|]. apply merge_ext. intros j. destruct (Nat.ltb_spec j (64 * 0)); [lia|reflexivity]. }
    pose proof (valid_word hS mem i (q - 1) HvS Hi ltac:(lia)).
    pose proof (valid_word hM mem (sr + i) (sc / 64 + q - 1) HvM ltac:(lia) ltac:(lia)).
    destruct (copy_loop (row_addr hS i) (row_addr hM (sr + i) + sc / 64) q q mem Hm) as (m1 & E1 & L1 & O1 & D1);
      try lia.
    { pose proof (wdisjoint_row_words hS hM i Dj Hi q (sr + i) (sc / 64) Hq ltac:(lia) ltac:(lia)).
      pose proof (wdisjoint_row_words hS hM i Dj Hi q (sr + i) (sc / 64 + q - 1) Hq ltac:(lia) ltac:(lia)). lia. }
    exists m1. split; [exact E1|]. split; [assumption|]. split; [assumption|].
    rewrite <- (Nat.add_0_r (row_addr hS i)) in D1 at 1.
    destruct (row_kernel hS i 0 q 0 (64 * q) _ mem m1 HokS ltac:(lia) L1 D1) as [T B].
    { intros k bb Hk Hbb Hn. lia. }
    split; [exact T|]. apply merge_ext. intros j.
    destruct (Nat.lt_ge_cases j (h_ncols hS)) as [Hj|Hj].
    2:{ rewrite !rowval_bounded by lia. destruct (Nat.ltb_spec j (64 * q)); [subst q; lia|reflexivity]. }
    rewrite B by assumption. cbn [Nat.add]. destruct (Nat.leb_spec 0 (j / 64)); [|lia]. cbn [andb].
    destruct (Nat.ltb_spec (j / 64) q), (Nat.ltb_spec j (64 * q)); try lia; [|reflexivity].
    unfold X. rewrite testbit_shiftr_nat, Nat.sub_0_r.
    rewrite <- (rowval_bit hM mem (sr + i) (j + sc)) by (auto; lia). unfold bit.
    replace ((j + sc) / 64) with (sc / 64 + j / 64) by lia. replace ((j + sc) mod 64) with (j mod 64) by lia.
    now rewrite Nat.add_assoc.
  Qed.

  (** aligned path, loop 2: the tail word under LEFT_BITMASK(ncols % 64) *)
  Lemma sub_tail_step i mem : valid hS mem -> valid hM mem -> i < h_nrows hS -> sc mod 64 = 0 ->
    h_ncols hS mod 64 <> 0 ->
    let q := h_ncols hS / 64 in
    let mask_end := left_bitmask (h_ncols hS mod 64) in
    exists m', (x <- rd mem (row_addr hM (sr + i) + sc / 64 + q) ;;
                s <- rd mem (row_addr hS i + q) ;;
                wr mem (row_addr hS i + q) (N.lor (N.land s (wnot mask_end)) (N.land x mask_end))) = Ok m' /\
      length m' = length mem /\ mem_ok m' /\ touched hS i (64 * q) (h_ncols hS) mem m' /\
      forall j, N.testbit (rowval hS m' i) (N.of_nat j) =
        if (64 * q <=? j) && (j <? h_ncols hS) then N.testbit (X mem i) (N.of_nat j)
        else N.testbit (rowval hS mem i) (N.of_nat j).
  Proof.
    intros HvS HvM Hi Hal Ht q mask_end. pose proof (valid_mem_ok _ _ HvS) as Hm.
    assert (Hq : q < h_width hS) by (destruct HokS as [W _]; rewrite W; subst q; lia).
    assert (HqM : sc / 64 + q < h_width hM) by (destruct HokM as [W _]; rewrite W; subst q; lia).
    pose proof (valid_word hS mem i q HvS Hi Hq).
    pose proof (valid_word hM mem (sr + i) (sc / 64 + q) HvM ltac:(lia) HqM).
    rewrite !rd_ok by lia. cbn [bind]. rewrite wr_ok by lia.
    eexists. split; [reflexivity|]. split; [apply upd_length|]. split; [now apply mem_ok_upd|].
    assert (TM : forall b, b < 64 -> N.testbit mask_end (N.of_nat b) = (64 * q + b <? h_ncols hS)).
    { intros b Hb. unfold mask_end. rewrite testbit_left_bitmask by lia.
      destruct (Nat.eqb_spec (h_ncols hS mod 64) 0); [lia|]. subst q.
      destruct (Nat.ltb_spec b (h_ncols hS mod 64)), (Nat.ltb_spec (64 * (h_ncols hS / 64) + b) (h_ncols hS));
        try reflexivity; lia. }
    split.
    - apply upd_word_touched; [lia|]. intros b Hb Hn. wbits. rewrite TM by assumption.
      destruct (Nat.ltb_spec (64 * q + b) (h_ncols hS)); [lia|].
      destruct (Nat.ltb_spec b 64); [|lia]. cbn [negb andb]. now rewrite andb_true_r, andb_false_r, orb_false_r.
    - intros j. rewrite upd_word_rowval by (auto; lia).
      destruct (Nat.eqb_spec (j / 64) q) as [E|E].
      + wbits. rewrite TM by lia. destruct (Nat.ltb_spec (j mod 64) 64); [|lia]. cbn [andb].
        replace (64 * q + j mod 64) with j by lia.
        destruct (Nat.leb_spec (64 * q) j); [|lia]. cbn [andb].
        destruct (Nat.ltb_spec j (h_ncols hS)) as [Hj|Hj]; cbn [negb andb].
        * rewrite andb_false_r. cbn [orb]. rewrite andb_true_r. unfold X. rewrite testbit_shiftr_nat.
          rewrite <- (rowval_bit hM mem (sr + i) (j + sc)) by (auto; lia). unfold bit.
          replace ((j + sc) / 64) with (sc / 64 + q) by lia. replace ((j + sc) mod 64) with (j mod 64) by lia.
          now rewrite Nat.add_assoc.
        * now rewrite rowval_bounded by lia.
      + destruct (Nat.leb_spec (64 * q) j), (Nat.ltb_spec j (h_ncols hS)); cbn [andb]; try reflexivity.
        subst q. lia.
  Qed.

  (** unaligned path: one row *)
  Lemma sub_unaligned_step i mem : valid hS mem -> valid hM mem -> i < h_nrows hS ->
    let ncols := h_ncols hS in
    let srow := row_addr hS i in
    let full := (ncols - 1) / 64 in
    exists m',
      (m1 <- forM (seq 0 full) (fun jj m =>
              v <- w_read_bits hM (sr + i) (sc + 64 * jj) 64 m ;; wr m (srow + jj) v) mem ;;
       let j := 64 * full in
       w <- rd m1 (srow + j / 64) ;;
       m2 <- wr m1 (srow + j / 64) (N.land w (wnot (h_hmask hS))) ;;
       w' <- rd m2 (srow + j / 64) ;;
       v <- w_read_bits hM (sr + i) (sc + j) (ncols - j) m2 ;;
       wr m2 (srow + j / 64) (N.lor w' (N.land v (h_hmask hS)))) = Ok m' /\
      length m' = length mem /\ mem_ok m' /\ touched hS i 0 (h_ncols hS) mem m' /\
      rowval hS m' i = N.land (X mem i) (N.ones (N.of_nat (h_ncols hS))).
  Proof.
    intros HvS HvM Hi ncols srow full. pose proof (valid_mem_ok _ _ HvS) as Hm.
    assert (Hc0 : 0 < ncols) by (subst ncols; lia).
    assert (HW : h_width hS = full + 1) by (destruct HokS as [W _]; rewrite W; subst full ncols; lia).
    pose proof (valid_word hS mem i full HvS Hi ltac:(lia)) as Hlast.
    set (f := fun jj => read_bits (abs hM mem) (sr + i) (sc + 64 * jj) 64).
    destruct (forM_store srow 0 full f
       (fun jj m => v <- w_read_bits hM (sr + i) (sc + 64 * jj) 64 m ;; wr m (srow + jj) v) mem Hm ltac:(subst srow; lia))
      as (m1 & E1 & L1 & O1 & D1).
    { intros jj m Hjj Lm Om Dm. cbn [Nat.add] in Hjj.
      rewrite w_read_bits_ok by first [eapply valid_same_length; eassumption | subst full ncols; lia].
      cbn [bind]. unfold f. rewrite (desc_src_abs hM srow 0 jj f mem m Dm); [reflexivity|].
      intros i' k Hi' Hk. apply wdisjoint_row_words; auto. lia. }
    rewrite E1. cbn [bind]. cbn [Nat.add] in D1.
    replace (64 * full / 64) with full by lia.
    rewrite rd_ok by (subst srow; lia). cbn [bind]. rewrite wr_ok by (subst srow; lia). cbn [bind].
    rewrite D1, stored_out by lia.
    set (w := word_at mem (srow + full)).
    pose proof (stored_upd srow 0 full f mem m1 full (N.land w (wnot (h_hmask hS))) ltac:(lia) ltac:(subst srow; lia) D1) as D2.
    replace (Nat.max full (S full)) with (S full) in D2 by lia.
    set (m2 := upd _ _ m1) in *. assert (L2 : length m2 = length mem) by (unfold m2; now rewrite upd_length).
    assert (O2 : mem_ok m2) by (unfold m2; now apply mem_ok_upd).
    rewrite rd_ok by (subst srow; lia). cbn [bind].
    rewrite w_read_bits_ok by first [eapply valid_same_length; eassumption | subst full ncols; lia].
    cbn [bind]. rewrite wr_ok by (subst srow; lia).
    rewrite (desc_src_abs hM srow 0 (S full) _ mem m2 D2).
    2:{ intros i' k Hi' Hk. apply wdisjoint_row_words; auto. lia. }
    rewrite D2, stored_in by lia. replace (srow + full - srow) with full by lia. rewrite Nat.eqb_refl.
    set (v := read_bits (abs hM mem) (sr + i) (sc + 64 * full) (ncols - 64 * full)).
    pose proof (stored_upd srow 0 (S full) _ mem m2 full
       (N.lor (trunc (N.land w (wnot (h_hmask hS)))) (N.land v (h_hmask hS))) ltac:(lia) ltac:(subst srow; lia) D2) as D3.
    replace (Nat.max (S full) (S full)) with (S full) in D3 by lia.
    set (m3 := upd _ _ m2) in *. assert (L3 : length m3 = length mem) by (unfold m3; now rewrite upd_length).
    exists m3. split; [reflexivity|]. split; [assumption|]. split; [unfold m3; now apply mem_ok_upd|].
    unfold srow in D3. rewrite <- (Nat.add_0_r (row_addr hS i)) in D3 at 1.
    destruct (row_kernel hS i 0 (S full) 0 (h_ncols hS) _ mem m3 HokS ltac:(lia) L3 D3) as [T B].
    { intros k bb Hk Hbb Hn. cbn beta. cbn [Nat.add] in *.
      destruct (Nat.eqb_spec k full) as [-> |Hne].
      - wbits. rewrite testbit_hmask' by assumption. rewrite HW. replace (full + 1 - 1) with full by lia.
        destruct (Nat.ltb_spec (64 * full + bb) (h_ncols hS)); [lia|].
        destruct (Nat.ltb_spec bb 64); [|lia]. cbn [negb andb]. now rewrite !andb_true_r, andb_false_r, orb_false_r.
      - pose proof (full_word_in hS k bb HokS). lia. }
    split; [exact T|]. apply bits_ext_nat. intros j. rewrite N.land_spec, testbit_ones_nat.
    destruct (Nat.ltb_spec j (h_ncols hS)) as [Hj|Hj]; [|rewrite rowval_bounded by lia; now rewrite andb_false_r].
    rewrite andb_true_r, B by assumption. cbn [Nat.add]. rewrite Nat.sub_0_r.
    destruct (Nat.leb_spec 0 (j / 64)); [|lia]. destruct (Nat.ltb_spec (j / 64) (S full)); [|subst full ncols; lia].
    cbn [andb]. unfold X. rewrite testbit_shiftr_nat.
    destruct (Nat.eqb_spec (j / 64) full) as [E|E].
    - destruct (Nat.eqb_spec (j / 64) full); [|lia].
      wbits. rewrite testbit_hmask' by (auto; lia). rewrite HW. replace (full + 1 - 1) with full by lia.
      destruct (Nat.ltb_spec (64 * full + j mod 64) (h_ncols hS)); [|lia].
      destruct (Nat.ltb_spec (j mod 64) 64); [|lia]. cbn [negb andb]. rewrite !andb_true_r, andb_false_r. cbn [orb].
      unfold v. rewrite testbit_read_bits. destruct (Nat.ltb_spec (j mod 64) (ncols - 64 * full)); [|subst ncols; lia].
      cbn [andb]. rewrite get_abs_rowval by lia. do 2 f_equal. lia.
    - destruct (Nat.eqb_spec (j / 64) full); [lia|]. unfold f. rewrite testbit_read_bits.
      destruct (Nat.ltb_spec (j mod 64) 64); [|lia]. cbn [andb]. rewrite get_abs_rowval by lia. do 2 f_equal. lia.
  Qed.
End Submatrix.

Lemma X_bits hM mem sr sc i j :
  N.testbit (N.shiftr (rowval hM mem (sr + i)) (N.of_nat sc)) (N.of_nat j) =
  N.testbit (rowval hM mem (sr + i)) (N.of_nat (j + sc)).
Proof. apply testbit_shiftr_nat. Qed.

Lemma abs_msub_intro hS hM sr sc r c m' mem : hdr_ok hS -> hdr_ok hM ->
  h_nrows hS = r -> h_ncols hS = c -> sr + r <= h_nrows hM ->
  (forall i j, i < r -> j < c ->
     N.testbit (rowval hS m' i) (N.of_nat j) = N.testbit (rowval hM mem (sr + i)) (N.of_nat (j + sc))) ->
  abs hS m' = msub (abs hM mem) sr sc r c.
Proof.
  intros HokS HokM Hr Hc Hsr H.
  assert (Hlen : sr + r <= length (rows (abs hM mem))) by now rewrite rows_abs_length.
  apply mat_ext; auto using abs_wf, wf_msub.
  intros i j Hi Hj. rewrite nr_abs in Hi. rewrite nc_abs in Hj.
  rewrite get_msub by assumption. rewrite !get_abs_rowval by lia.
  destruct (Nat.ltb_spec i r); [|lia]. destruct (Nat.ltb_spec j c); [|lia]. cbn [andb].
  rewrite H by lia. do 2 f_equal. lia.
Qed.

Theorem w_submatrix_fixed_ok hS hM sr sc er ec mem :
  valid hS mem -> valid hM mem -> h_nrows hS = er - sr -> h_ncols hS = ec - sc ->
  sr <= er -> er <= h_nrows hM -> ec <= h_ncols hM -> sc < ec -> wdisjoint hS hM ->
  exists m', w_submatrix_fixed hS hM sr sc er ec mem = Ok m' /\ length m' = length mem /\ mem_ok m' /\
    abs hS m' = msub (abs hM mem) sr sc (er - sr) (ec - sc) /\ outside hS mem m'.
Proof.
  intros HvS HvM Hrows Hcols Hsr Her Hec Hsc Dj.
  pose proof (valid_hdr_ok _ _ HvS) as HokS. pose proof (valid_hdr_ok _ _ HvM) as HokM.
  pose proof (valid_mem_ok _ _ HvS) as Hm.
  assert (Stab : forall m i, length m = length mem -> mem_ok m -> outside hS mem m -> i < h_nrows hS ->
            rowval hM m (sr + i) = rowval hM mem (sr + i)).
  { intros m i Lm Om Outm Hi. apply (outside_rowval hS hM mem m); auto. lia. }
  unfold w_submatrix_fixed, w_submatrix. rewrite <- Hrows, <- Hcols, !Nat.ltb_irrefl. cbn [orb].
  destruct (Nat.eqb_spec (sc mod 64) 0) as [Hal|Hal].
  - (* aligned *)
    set (q := h_ncols hS / 64).
    assert (L1 : exists m1,
      (if negb (q =? 0) then
         forM (seq 0 (h_nrows hS)) (fun i m => forM (seq 0 q) (fun k m =>
           x <- rd m (row_addr hM (sr + i) + sc / 64 + k) ;; wr m (row_addr hS i + k) x) m) mem
       else Ok mem) = Ok m1 /\ length m1 = length mem /\ mem_ok m1 /\ outside hS mem m1 /\
      forall k, k < h_nrows hS ->
        rowval hS m1 k = merge (64 * q) (N.shiftr (rowval hM mem (sr + k)) (N.of_nat sc)) (rowval hS mem k)).
    { destruct (Nat.eqb_spec q 0) as [E0|E0]; cbn [negb].
      - exists mem. split; [reflexivity|]. split; [reflexivity|]. split; [assumption|]. split; [apply outside_refl|].
        intros k Hk. apply merge_ext. intros j. rewrite E0. destruct (Nat.ltb_spec j (64 * 0)); [lia|reflexivity].
      - destruct (rows_loop hS 0 0 (h_nrows hS) 0 (64 * q)
           (fun k => merge (64 * q) (N.shiftr (rowval hM mem (sr + k)) (N.of_nat sc)) (rowval hS mem k))
           (fun i m => forM (seq 0 q) (fun k m =>
              x <- rd m (row_addr hM (sr + i) + sc / 64 + k) ;; wr m (row_addr hS i + k) x) m) mem HokS
           ltac:(lia) ltac:(subst q; lia) Hm) as (m1 & E1 & Lm1 & O1 & Out1 & Done1 & _).
        + intros k m Hk Lm Om Outm Restm. cbn [Nat.add] in *.
          destruct (sub_full_step hS hM sr sc er ec HokS HokM Hrows Hcols Her Hec Hsc Dj k m)
            as (m' & E & L' & O' & T & B); try (eapply valid_same_length; eassumption); try lia.
          exists m'. split; [exact E|]. split; [assumption|]. split; [exact T|].
          rewrite B. rewrite Stab by (auto; lia). rewrite Restm by lia. reflexivity.
        + exists m1. split; [exact E1|]. do 3 (split; [assumption|]). intros k Hk. apply (Done1 k). lia. }
    destruct L1 as (m1 & E1 & Lm1 & O1 & Out1 & R1). fold q. rewrite E1. cbn [bind].
    destruct (Nat.eqb_spec (h_ncols hS mod 64) 0) as [Et|Et]; cbn [negb].
    + exists m1. split; [reflexivity|]. do 2 (split; [assumption|]). split; [|assumption].
      apply (abs_msub_intro hS hM sr sc); auto; try lia. intros i j Hi Hj.
      rewrite R1 by lia. rewrite testbit_merge. destruct (Nat.ltb_spec j (64 * q)); [|subst q; lia].
      apply X_bits.
    + destruct (rows_loop hS 0 0 (h_nrows hS) (64 * q) (h_ncols hS)
         (fun k => N.land (N.shiftr (rowval hM mem (sr + k)) (N.of_nat sc)) (N.ones (N.of_nat (h_ncols hS))))
         (fun i m =>
            x <- rd m (row_addr hM (sr + i) + sc / 64 + q) ;;
            s <- rd m (row_addr hS i + q) ;;
            wr m (row_addr hS i + q)
               (N.lor (N.land s (wnot (left_bitmask (h_ncols hS mod 64))))
                      (N.land x (left_bitmask (h_ncols hS mod 64))))) m1 HokS
         ltac:(lia) ltac:(lia) O1) as (m2 & E2 & Lm2 & O2 & Out2 & Done2 & _).
      * intros k m Hk Lm Om Outm Restm. cbn [Nat.add] in *.
        assert (Outmm : outside hS mem m) by (eapply outside_trans; eassumption).
        destruct (sub_tail_step hS hM sr sc er ec HokS HokM Hrows Hcols Her Hec Hsc k m)
          as (m' & E & L' & O' & T & B); try (eapply valid_same_length; try eassumption; congruence); try lia.
        exists m'. split; [exact E|]. split; [assumption|]. split; [exact T|].
        apply bits_ext_nat. intros j. rewrite B, N.land_spec, testbit_ones_nat.
        rewrite Stab by (auto; lia). rewrite Restm by lia. rewrite R1 by lia. rewrite testbit_merge. fold q.
        destruct (Nat.leb_spec (64 * q) j), (Nat.ltb_spec j (h_ncols hS)); cbn [andb].
        -- now rewrite andb_true_r.
        -- destruct (Nat.ltb_spec j (64 * q)); [lia|]. rewrite rowval_bounded by lia. now rewrite andb_false_r.
        -- destruct (Nat.ltb_spec j (64 * q)); [|lia]. now rewrite andb_true_r.
        -- subst q. lia.
      * exists m2. split; [exact E2|]. split; [congruence|]. split; [assumption|]. split.
        -- apply (abs_msub_intro hS hM sr sc); auto; try lia. intros i j Hi Hj.
           pose proof (Done2 i ltac:(lia)) as Dn; cbn [Nat.add] in Dn; rewrite Dn. rewrite N.land_spec, testbit_ones_nat.
           destruct (Nat.ltb_spec j (h_ncols hS)); [|lia]. rewrite andb_true_r. apply X_bits.
        -- eapply outside_trans; eassumption.
  - (* unaligned *)
    destruct (rows_loop hS 0 0 (h_nrows hS) 0 (h_ncols hS)
       (fun k => N.land (N.shiftr (rowval hM mem (sr + k)) (N.of_nat sc)) (N.ones (N.of_nat (h_ncols hS))))
       (fun i m =>
          m1 <- forM (seq 0 ((h_ncols hS - 1) / 64)) (fun jj m =>
                  v <- w_read_bits hM (sr + i) (sc + 64 * jj) 64 m ;; wr m (row_addr hS i + jj) v) m ;;
          w <- rd m1 (row_addr hS i + 64 * ((h_ncols hS - 1) / 64) / 64) ;;
          m2 <- wr m1 (row_addr hS i + 64 * ((h_ncols hS - 1) / 64) / 64) (N.land w (wnot (h_hmask hS))) ;;
          w' <- rd m2 (row_addr hS i + 64 * ((h_ncols hS - 1) / 64) / 64) ;;
          v <- w_read_bits hM (sr + i) (sc + 64 * ((h_ncols hS - 1) / 64))
                 (h_ncols hS - 64 * ((h_ncols hS - 1) / 64)) m2 ;;
          wr m2 (row_addr hS i + 64 * ((h_ncols hS - 1) / 64) / 64) (N.lor w' (N.land v (h_hmask hS)))) mem HokS
       ltac:(lia) ltac:(lia) Hm) as (m1 & E1 & Lm1 & O1 & Out1 & Done1 & _).
    + intros k m Hk Lm Om Outm Restm. cbn [Nat.add] in *.
      destruct (sub_unaligned_step hS hM sr sc er ec HokS Hrows Hcols Her Hec Hsc Dj k m)
        as (m' & E & L' & O' & T & B); try (eapply valid_same_length; eassumption); try lia.
      exists m'. split; [exact E|]. split; [assumption|]. split; [exact T|].
      rewrite B. rewrite Stab by (auto; lia). reflexivity.
    + exists m1. split; [exact E1|]. do 2 (split; [assumption|]). split; [|assumption].
      apply (abs_msub_intro hS hM sr sc); auto; try lia. intros i j Hi Hj.
      pose proof (Done1 i ltac:(lia)) as Dn; cbn [Nat.add] in Dn; rewrite Dn. rewrite N.land_spec, testbit_ones_nat.
      destruct (Nat.ltb_spec j (h_ncols hS)); [|lia]. rewrite andb_true_r. apply X_bits.
Qed.
