(* Word/WOps.v — EXECUTABLE hand models of the word-level kernels of m4ri (mzd.h / mzd.c), written
   against the checked memory of Word/WMat.v.  Definitions only (proofs: Word/WRefine*.v).

   Conventions
   * Every C loop is a fold over [seq] ([forM]); every C statement that touches memory is one [rd]
     and/or one [wr] on the word it touches, IN THE ORDER of the C text, with the masks of the C
     text.  A defect of the C code (wrong mask, whole-word store into a window, unmasked load) is
     therefore a defect of the model; nothing is "repaired" here except in the explicitly named
     [..._fixed] variants at the end of each section.
   * [rd]/[wr] fail with [Err OOB] outside the allocation; a shift whose count is data dependent
     goes through [shl64]/[shr64] and fails with [Err UB] for a count >= 64 (C undefined behaviour);
     [m4ri_die] is [Err Die].
   * Not modelled (they compute the same word-wise XOR / copy): the SSE2 paths, the alignment
     peeling in front of them, Duff's devices (mzd_combine_even(_in_place)), the 4-row unrolling of
     mzd_col_swap_in_rows, [memcpy] (a word loop here), and the eight width-specialised cases of
     _mzd_add (all eight are the loop "c[j] = a[j]^b[j] for j < width-1; masked last word", i.e.
     exactly mzd_combine_even, so they collapse to ONE loop in the model).
   * C [int]/[rci_t]/[wi_t] values are [nat] here; where the C code computes a negative value that
     matters (pointer index -1 for a matrix with 0 columns) the model returns [Err OOB].  All
     theorems are stated for ncols >= 1 anyway (the properties quantify over shapes >= 1 x 1).
   * A header comparison [C == B] on pointers is [hdr_eqb] on headers. *)
From Coq Require Import List NArith Arith Bool.
From M4 Require Import Base.Bits Lin.Mat Lin.Ops Word.WMat.
Import ListNotations.
Local Open Scope nat_scope.

(** early-exit loop: run [f] on the elements of [l] until it yields a result *)
Fixpoint firstM {R} (l : list nat) (f : nat -> res (option R)) : res (option R) :=
  match l with
  | [] => Ok None
  | i :: t => r <- f i ;; match r with Some v => Ok (Some v) | None => firstM t f end
  end.

(** fresh destination: mzd_init(r, c) appends a zeroed block to the allocation *)
Definition w_alloc (mem : list N) (r c : nat) : list N * hdr :=
  let h := init_hdr_at (length mem) r c in
  (mem ++ repeat 0%N (block_words h), h).

(* ========================================================================================== *)
(** * Single bits and bit ranges (mzd.h) *)

(** mzd_read_bit: __M4RI_GET_BIT(row[col / 64], col % 64) *)
Definition w_read_bit (h : hdr) (row col : nat) (mem : list N) : res bool :=
  w <- rd mem (row_addr h row + col / 64) ;;
  Ok (N.testbit (N.land (shr w (col mod 64)) 1) 0).

(** mzd_write_bit: w = (w & ~(1 << spot)) | (value << spot) *)
Definition w_write_bit (h : hdr) (row col : nat) (value : bool) (mem : list N) : res (list N) :=
  let p := row_addr h row + col / 64 in
  let spot := col mod 64 in
  w <- rd mem p ;;
  wr mem p (N.lor (N.land w (wnot (shl 1 spot))) (shl (N.b2n value) spot)).

(** mzd_read_bits(M, x, y, n) *)
Definition w_read_bits (h : hdr) (x y n : nat) (mem : list N) : res N :=
  let spot := y mod 64 in
  let block := y / 64 in
  let p := row_addr h x + block in
  if 64 <? n then Err UB else              (* documented domain n <= 64: negative shift count *)
  (* int spill = spot + n - 64 *)
  temp <- (if spot + n <=? 64 then
             w0 <- rd mem p ;; shl64 w0 (64 - (spot + n))
           else
             w1 <- rd mem (p + 1) ;; w0 <- rd mem p ;;
             hi <- shl64 w1 (64 - (spot + n - 64)) ;; lo <- shr64 w0 (spot + n - 64) ;;
             Ok (N.lor hi lo)) ;;
  shr64 temp (64 - n).

(** mzd_xor_bits(M, x, y, n, values) *)
Definition w_xor_bits (h : hdr) (x y n : nat) (values : N) (mem : list N) : res (list N) :=
  let spot := y mod 64 in
  let block := y / 64 in
  let p := row_addr h x + block in
  w0 <- rd mem p ;;
  m1 <- wr mem p (N.lxor w0 (shl values spot)) ;;
  let space := 64 - spot in
  if space <? n then
    w1 <- rd m1 (p + 1) ;; v <- shr64 values space ;; wr m1 (p + 1) (N.lxor w1 v)
  else Ok m1.

(** mzd_clear_bits(M, x, y, n)   (assert 0 < n <= 64) *)
Definition w_clear_bits (h : hdr) (x y n : nat) (mem : list N) : res (list N) :=
  values <- shr64 ffff (64 - n) ;;
  let spot := y mod 64 in
  let block := y / 64 in
  let p := row_addr h x + block in
  w0 <- rd mem p ;;
  m1 <- wr mem p (N.land w0 (wnot (shl values spot))) ;;
  let space := 64 - spot in
  if space <? n then
    w1 <- rd m1 (p + 1) ;; v <- shr64 values space ;; wr m1 (p + 1) (N.land w1 (wnot v))
  else Ok m1.

(* ========================================================================================== *)
(** * Row operations *)

(** _mzd_row_swap(M, rowa, rowb, startblock) *)
Definition w_row_swap (h : hdr) (rowa rowb startblock : nat) (mem : list N) : res (list N) :=
  if (rowa =? rowb) || (h_width h <=? startblock) then Ok mem else
  let width := h_width h - startblock - 1 in
  let a := row_addr h rowa + startblock in
  let b := row_addr h rowb + startblock in
  let mask_end := h_hmask h in
  m1 <- forM (seq 0 width) (fun i m =>
          tmp <- rd m (a + i) ;; bi <- rd m (b + i) ;;
          m' <- wr m (a + i) bi ;; wr m' (b + i) tmp) mem ;;
  aw <- rd m1 (a + width) ;; bw <- rd m1 (b + width) ;;
  let tmp := N.land (N.lxor aw bw) mask_end in
  aw' <- rd m1 (a + width) ;; m2 <- wr m1 (a + width) (N.lxor aw' tmp) ;;
  bw' <- rd m2 (b + width) ;; wr m2 (b + width) (N.lxor bw' tmp).

(** mzd_col_swap_in_rows(M, cola, colb, start_row, stop_row).
    The C code forms [min_ptr] (the word holding the column with the smaller BIT index) and the
    signed word distance [max_offset] to the other word; here the two addresses are kept directly. *)
Definition w_col_swap_in_rows (h : hdr) (cola colb start_row stop_row : nat) (mem : list N)
  : res (list N) :=
  if cola =? colb then Ok mem else
  let a_word := cola / 64 in
  let b_word := colb / 64 in
  let a_bit := cola mod 64 in
  let b_bit := colb mod 64 in
  let ptr := row_addr h start_row in
  let max_bit := Nat.max a_bit b_bit in
  let count := stop_row - start_row in
  let min_bit := a_bit + b_bit - max_bit in
  let offset := max_bit - min_bit in
  let mask := shl 1 min_bit in
  if count =? 0 then Ok mem else           (* if (count <= 0) return *)
  if a_word =? b_word then
    forM (seq 0 count) (fun r m =>
      let p := ptr + a_word + r * h_rowstride h in
      x <- rd m p ;;
      let xor_v := N.lxor x (shr x offset) in
      let xor_v := N.land xor_v mask in
      cur <- rd m p ;;
      wr m p (N.lxor cur (N.lor xor_v (shl xor_v offset)))) mem
  else
    let min_word := if min_bit =? a_bit then a_word else b_word in
    let max_word := if min_bit =? a_bit then b_word else a_word in
    forM (seq 0 count) (fun r m =>
      let pmin := ptr + min_word + r * h_rowstride h in
      let pmax := ptr + max_word + r * h_rowstride h in
      lo <- rd m pmin ;; hi <- rd m pmax ;;
      let xor_v := N.land (N.lxor lo (shr hi offset)) mask in
      lo' <- rd m pmin ;; m1 <- wr m pmin (N.lxor lo' xor_v) ;;
      hi' <- rd m1 pmax ;; wr m1 pmax (N.lxor hi' (shl xor_v offset))) mem.

(** mzd_row_add_offset(M, dstrow, srcrow, coloffset)
    (assert dstrow, srcrow < nrows && coloffset < ncols; outside that domain: [Err UB]) *)
Definition w_row_add_offset (h : hdr) (dstrow srcrow coloffset : nat) (mem : list N) : res (list N) :=
  if h_ncols h <=? coloffset then Err UB else
  let startblock := coloffset / 64 in
  let wide := h_width h - startblock in
  let src := row_addr h srcrow + startblock in
  let dst := row_addr h dstrow + startblock in
  let mask_begin := right_bitmask (64 - coloffset mod 64) in
  let mask_end := h_hmask h in
  s0 <- rd mem src ;; d0 <- rd mem dst ;;
  m0 <- wr mem dst (N.lxor d0 (N.land s0 mask_begin)) ;;
  let src := src + 1 in
  let dst := dst + 1 in
  let wide := wide - 1 in
  m1 <- forM (seq 0 wide) (fun i m =>
          s <- rd m (src + i) ;; d <- rd m (dst + i) ;; wr m (dst + i) (N.lxor d s)) m0 ;;
  (* dst[i - 1] ^= src[i - 1] & ~mask_end   with i == wide *)
  s <- rd m1 (src + wide - 1) ;; d <- rd m1 (dst + wide - 1) ;;
  wr m1 (dst + wide - 1) (N.lxor d (N.land s (wnot mask_end))).

(** mzd_row_clear_offset(M, row, coloffset) — mirrors the pinned C text:
    temp &= __M4RI_RIGHT_BITMASK(m4ri_radix - coloffset), i.e. m4ri_ffff << coloffset
    (shift count = coloffset itself, not coloffset % 64), and whole-word stores up to width-1. *)
Definition w_row_clear_offset (h : hdr) (row coloffset : nat) (mem : list N) : res (list N) :=
  let startblock := coloffset / 64 in
  let truerow := row_addr h row in
  temp <- (if negb (coloffset mod 64 =? 0) then
             t <- rd mem (truerow + startblock) ;;
             mask <- shl64 ffff coloffset ;;         (* RIGHT_BITMASK(64 - coloffset) *)
             Ok (N.land t mask)
           else Ok 0%N) ;;
  m1 <- wr mem (truerow + startblock) temp ;;
  forM (seq (startblock + 1) (h_width h - (startblock + 1))) (fun i m => wr m (truerow + i) 0%N) m1.

(** repaired (one line): temp &= __M4RI_LEFT_BITMASK(coloffset % m4ri_radix) *)
Definition w_row_clear_offset_fixed (h : hdr) (row coloffset : nat) (mem : list N) : res (list N) :=
  let startblock := coloffset / 64 in
  let truerow := row_addr h row in
  temp <- (if negb (coloffset mod 64 =? 0) then
             t <- rd mem (truerow + startblock) ;;
             Ok (N.land t (left_bitmask (coloffset mod 64)))
           else Ok 0%N) ;;
  m1 <- wr mem (truerow + startblock) temp ;;
  forM (seq (startblock + 1) (h_width h - (startblock + 1))) (fun i m => wr m (truerow + i) 0%N) m1.

(** repaired for windows as well: the word stores keep the bits beyond ncols of the last word *)
Definition w_row_clear_offset_fixed2 (h : hdr) (row coloffset : nat) (mem : list N) : res (list N) :=
  let startblock := coloffset / 64 in
  let truerow := row_addr h row in
  let last := h_width h - 1 in
  let keep i := if i =? last then wnot (h_hmask h) else 0%N in
  t <- rd mem (truerow + startblock) ;;
  let m := if coloffset mod 64 =? 0 then 0%N else left_bitmask (coloffset mod 64) in
  m1 <- wr mem (truerow + startblock) (N.land t (N.lor m (keep startblock))) ;;
  forM (seq (startblock + 1) (h_width h - (startblock + 1)))
       (fun i m => t <- rd m (truerow + i) ;; wr m (truerow + i) (N.land t (keep i))) m1.

(* ========================================================================================== *)
(** * Row combination (mzd.h) *)

(** mzd_combine_even_in_place(A, a_row, a_startblock, B, b_row, b_startblock) *)
Definition w_combine_even_in_place (hA : hdr) (a_row a_sb : nat) (hB : hdr) (b_row b_sb : nat)
  (mem : list N) : res (list N) :=
  let wide := h_width hA - a_sb - 1 in
  let a := row_addr hA a_row + a_sb in
  let b := row_addr hB b_row + b_sb in
  m1 <- forM (seq 0 wide) (fun i m =>
          x <- rd m (a + i) ;; y <- rd m (b + i) ;; wr m (a + i) (N.lxor x y)) mem ;;
  x <- rd m1 (a + wide) ;; y <- rd m1 (b + wide) ;;
  wr m1 (a + wide) (N.lxor x (N.land y (h_hmask hA))).

(** mzd_combine_even(C, c_row, c_startblock, A, a_row, a_startblock, B, b_row, b_startblock) *)
Definition w_combine_even (hC : hdr) (c_row c_sb : nat) (hA : hdr) (a_row a_sb : nat)
  (hB : hdr) (b_row b_sb : nat) (mem : list N) : res (list N) :=
  let wide := h_width hA - a_sb - 1 in
  let a := row_addr hA a_row + a_sb in
  let b := row_addr hB b_row + b_sb in
  let c := row_addr hC c_row + c_sb in
  m1 <- forM (seq 0 wide) (fun i m =>
          x <- rd m (a + i) ;; y <- rd m (b + i) ;; wr m (c + i) (N.lxor x y)) mem ;;
  x <- rd m1 (a + wide) ;; y <- rd m1 (b + wide) ;; z <- rd m1 (c + wide) ;;
  z' <- rd m1 (c + wide) ;;
  wr m1 (c + wide) (N.lxor z' (N.land (N.lxor (N.lxor x y) z) (h_hmask hC))).

(** mzd_combine *)
Definition w_combine (hC : hdr) (c_row c_sb : nat) (hA : hdr) (a_row a_sb : nat)
  (hB : hdr) (b_row b_sb : nat) (mem : list N) : res (list N) :=
  if hdr_eqb hC hA && (a_row =? c_row) && (a_sb =? c_sb)
  then w_combine_even_in_place hC c_row c_sb hB b_row b_sb mem
  else w_combine_even hC c_row c_sb hA a_row a_sb hB b_row b_sb mem.

(* ========================================================================================== *)
(** * Addition: _mzd_add(C, A, B)
    operand swap for C == B; [switch (A->width)]: case 0 returns, cases 1..8 and the default
    (mzd_combine_even) are the same word loop and are ONE loop here. *)
Definition w_add (hC hA hB : hdr) (mem : list N) : res (list N) :=
  let nrows := Nat.min (Nat.min (h_nrows hA) (h_nrows hB)) (h_nrows hC) in
  let '(hA, hB) := if hdr_eqb hC hB then (hB, hA) else (hA, hB) in
  match h_width hA with
  | 0 => Ok mem
  | _ => forM (seq 0 nrows) (fun i m => w_combine_even hC i 0 hA i 0 hB i 0 m) mem
  end.

(** mzd_add: dimension checks, then _mzd_add (destination supplied) *)
Definition w_mzd_add (hC hA hB : hdr) (mem : list N) : res (list N) :=
  if negb ((h_nrows hA =? h_nrows hB) && (h_ncols hA =? h_ncols hB)) then Err Die else
  if negb (hdr_eqb hC hA) && negb ((h_nrows hC =? h_nrows hA) && (h_ncols hC =? h_ncols hA))
  then Err Die else w_add hC hA hB mem.

(** mzd_add(NULL, A, B) *)
Definition w_mzd_add_fresh (hA hB : hdr) (mem : list N) : res (list N * hdr) :=
  if negb ((h_nrows hA =? h_nrows hB) && (h_ncols hA =? h_ncols hB)) then Err Die else
  let '(mem0, hC) := w_alloc mem (h_nrows hA) (h_ncols hA) in
  m <- w_add hC hA hB mem0 ;; Ok (m, hC).

(* ========================================================================================== *)
(** * Copy *)

(** mzd_copy(N, P), N supplied.  ([wide] = P->width - 1 is -1 for a matrix with 0 columns, and the
    C code then indexes word -1 of each row: [Err OOB].) *)
Definition w_copy (hN hP : hdr) (mem : list N) : res (list N) :=
  if hdr_eqb hN hP then Ok mem else
  if (h_nrows hN <? h_nrows hP) || (h_ncols hN <? h_ncols hP) then Err Die else
  if (h_width hP =? 0) && negb (h_nrows hP =? 0) then Err OOB else
  let wide := h_width hP - 1 in
  let mask_end := h_hmask hP in
  forM (seq 0 (h_nrows hP)) (fun i m =>
    let p := row_addr hP i in
    let n := row_addr hN i in
    m1 <- forM (seq 0 wide) (fun j m => x <- rd m (p + j) ;; wr m (n + j) x) m ;;
    nw <- rd m1 (n + wide) ;; pw <- rd m1 (p + wide) ;;
    wr m1 (n + wide) (N.lor (N.land nw (wnot mask_end)) (N.land pw mask_end))) mem.

(** mzd_copy(NULL, P) *)
Definition w_copy_fresh (hP : hdr) (mem : list N) : res (list N * hdr) :=
  let '(mem0, hN) := w_alloc mem (h_nrows hP) (h_ncols hP) in
  m <- w_copy hN hP mem0 ;; Ok (m, hN).

(** mzd_copy_row(B, i, A, j)   (assert B->ncols >= A->ncols) *)
Definition w_copy_row (hB : hdr) (i : nat) (hA : hdr) (j : nat) (mem : list N) : res (list N) :=
  if Nat.min (h_width hB) (h_width hA) =? 0 then Err OOB else
  let width := Nat.min (h_width hB) (h_width hA) - 1 in
  let a := row_addr hA j in
  let b := row_addr hB i in
  let mask_end := left_bitmask (h_ncols hA mod 64) in
  if negb (width =? 0) then
    m1 <- forM (seq 0 width) (fun k m => x <- rd m (a + k) ;; wr m (b + k) x) mem ;;
    bw <- rd m1 (b + width) ;; aw <- rd m1 (a + width) ;;
    wr m1 (b + width) (N.lor (N.land bw (wnot mask_end)) (N.land aw mask_end))
  else
    aw <- rd mem a ;; bw <- rd mem b ;;
    wr mem b (N.lor (N.land aw mask_end) (N.land bw (wnot mask_end))).

(** mzd_set_ui(A, value) *)
Definition w_set_ui (hA : hdr) (value : nat) (mem : list N) : res (list N) :=
  let mask_end := h_hmask hA in
  if (h_width hA =? 0) && negb (h_nrows hA =? 0) then Err OOB else
  m1 <- forM (seq 0 (h_nrows hA)) (fun i m =>
          let row := row_addr hA i in
          m' <- forM (seq 0 (h_width hA - 1)) (fun j m => wr m (row + j) 0%N) m ;;
          w <- rd m' (row + (h_width hA - 1)) ;;
          wr m' (row + (h_width hA - 1)) (N.land w (wnot mask_end))) mem ;;
  if Nat.even value then Ok m1 else
  let stop := Nat.min (h_nrows hA) (h_ncols hA) in
  forM (seq 0 stop) (fun i m => w_write_bit hA i i true m) m1.

(* ========================================================================================== *)
(** * Sub-matrix, concat, stack *)

(** mzd_submatrix(S, M, startrow, startcol, endrow, endcol), S supplied.
    aligned path: memcpy of the full words, then ONE WHOLE-WORD STORE of the masked tail;
    unaligned path: mzd_read_bits per destination word, tail merged under S->high_bitmask. *)
Definition w_submatrix (hS hM : hdr) (startrow startcol endrow endcol : nat) (mem : list N)
  : res (list N) :=
  let nrows := endrow - startrow in
  let ncols := endcol - startcol in
  if (h_nrows hS <? nrows) || (h_ncols hS <? ncols) then Err Die else
  if startcol mod 64 =? 0 then
    let startword := startcol / 64 in
    m1 <- (if negb (ncols / 64 =? 0) then
             forM (seq 0 nrows) (fun i m =>
               (* memcpy(mzd_row(S, i), mzd_row(M, x) + startword, 8 * (ncols / 64)) *)
               forM (seq 0 (ncols / 64)) (fun k m =>
                 x <- rd m (row_addr hM (startrow + i) + startword + k) ;;
                 wr m (row_addr hS i + k) x) m) mem
           else Ok mem) ;;
    if negb (ncols mod 64 =? 0) then
      let mask_end := left_bitmask (ncols mod 64) in
      forM (seq 0 nrows) (fun i m =>
        x <- rd m (row_addr hM (startrow + i) + startword + ncols / 64) ;;
        wr m (row_addr hS i + ncols / 64) (N.land x mask_end)) m1
    else Ok m1
  else
    forM (seq 0 nrows) (fun i m =>
      let srow := row_addr hS i in
      (* for (j = 0; j + 64 < ncols; j += 64): jj = j / 64 *)
      let full := (ncols - 1) / 64 in
      m1 <- forM (seq 0 full) (fun jj m =>
              v <- w_read_bits hM (startrow + i) (startcol + 64 * jj) 64 m ;;
              wr m (srow + jj) v) m ;;
      let j := 64 * full in
      w <- rd m1 (srow + j / 64) ;;
      m2 <- wr m1 (srow + j / 64) (N.land w (wnot (h_hmask hS))) ;;
      w' <- rd m2 (srow + j / 64) ;;
      v <- w_read_bits hM (startrow + i) (startcol + j) (ncols - j) m2 ;;
      wr m2 (srow + j / 64) (N.lor w' (N.land v (h_hmask hS)))) mem.

(** mzd_submatrix(NULL, M, ...) *)
Definition w_submatrix_fresh (hM : hdr) (startrow startcol endrow endcol : nat) (mem : list N)
  : res (list N * hdr) :=
  let '(mem0, hS) := w_alloc mem (endrow - startrow) (endcol - startcol) in
  m <- w_submatrix hS hM startrow startcol endrow endcol mem0 ;; Ok (m, hS).

(** repaired aligned path (masked store of the tail word); the unaligned path is unchanged *)
Definition w_submatrix_fixed (hS hM : hdr) (startrow startcol endrow endcol : nat) (mem : list N)
  : res (list N) :=
  let nrows := endrow - startrow in
  let ncols := endcol - startcol in
  if (h_nrows hS <? nrows) || (h_ncols hS <? ncols) then Err Die else
  if startcol mod 64 =? 0 then
    let startword := startcol / 64 in
    m1 <- (if negb (ncols / 64 =? 0) then
             forM (seq 0 nrows) (fun i m =>
               forM (seq 0 (ncols / 64)) (fun k m =>
                 x <- rd m (row_addr hM (startrow + i) + startword + k) ;;
                 wr m (row_addr hS i + k) x) m) mem
           else Ok mem) ;;
    if negb (ncols mod 64 =? 0) then
      let mask_end := left_bitmask (ncols mod 64) in
      forM (seq 0 nrows) (fun i m =>
        x <- rd m (row_addr hM (startrow + i) + startword + ncols / 64) ;;
        s <- rd m (row_addr hS i + ncols / 64) ;;
        wr m (row_addr hS i + ncols / 64) (N.lor (N.land s (wnot mask_end)) (N.land x mask_end))) m1
    else Ok m1
  else w_submatrix hS hM startrow startcol endrow endcol mem.

(** mzd_concat(C, A, B), C supplied *)
Definition w_concat (hC hA hB : hdr) (mem : list N) : res (list N) :=
  if negb (h_nrows hA =? h_nrows hB) then Err Die else
  if negb ((h_nrows hC =? h_nrows hA) && (h_ncols hC =? h_ncols hA + h_ncols hB)) then Err Die else
  m1 <- forM (seq 0 (h_nrows hA)) (fun i m =>
          forM (seq 0 (h_width hA)) (fun j m =>
            x <- rd m (row_addr hA i + j) ;; wr m (row_addr hC i + j) x) m) mem ;;
  forM (seq 0 (h_nrows hB)) (fun i m =>
    forM (seq 0 (h_ncols hB)) (fun j m =>
      b <- w_read_bit hB i j m ;; w_write_bit hC i (j + h_ncols hA) b m) m) m1.

Definition w_concat_fresh (hA hB : hdr) (mem : list N) : res (list N * hdr) :=
  if negb (h_nrows hA =? h_nrows hB) then Err Die else
  let '(mem0, hC) := w_alloc mem (h_nrows hA) (h_ncols hA + h_ncols hB) in
  m <- w_concat hC hA hB mem0 ;; Ok (m, hC).

(** word copy of a source row into a destination row with the source's masked last word — the
    repair of concat/stack ("masked last word") *)
Definition w_copy_words_masked (hD : hdr) (di : nat) (hS : hdr) (si : nat) (mem : list N)
  : res (list N) :=
  match h_width hS with
  | 0 => Ok mem
  | S wide =>
    m1 <- forM (seq 0 wide) (fun j m => x <- rd m (row_addr hS si + j) ;; wr m (row_addr hD di + j) x) mem ;;
    d <- rd m1 (row_addr hD di + wide) ;; s <- rd m1 (row_addr hS si + wide) ;;
    wr m1 (row_addr hD di + wide) (N.lor (N.land d (wnot (h_hmask hS))) (N.land s (h_hmask hS)))
  end.

Definition w_concat_fixed (hC hA hB : hdr) (mem : list N) : res (list N) :=
  if negb (h_nrows hA =? h_nrows hB) then Err Die else
  if negb ((h_nrows hC =? h_nrows hA) && (h_ncols hC =? h_ncols hA + h_ncols hB)) then Err Die else
  m1 <- forM (seq 0 (h_nrows hA)) (fun i m => w_copy_words_masked hC i hA i m) mem ;;
  forM (seq 0 (h_nrows hB)) (fun i m =>
    forM (seq 0 (h_ncols hB)) (fun j m =>
      b <- w_read_bit hB i j m ;; w_write_bit hC i (j + h_ncols hA) b m) m) m1.

(** mzd_stack(C, A, B), C supplied *)
Definition w_stack (hC hA hB : hdr) (mem : list N) : res (list N) :=
  if negb (h_ncols hA =? h_ncols hB) then Err Die else
  if negb ((h_nrows hC =? h_nrows hA + h_nrows hB) && (h_ncols hC =? h_ncols hA)) then Err Die else
  m1 <- forM (seq 0 (h_nrows hA)) (fun i m =>
          forM (seq 0 (h_width hA)) (fun j m =>
            x <- rd m (row_addr hA i + j) ;; wr m (row_addr hC i + j) x) m) mem ;;
  forM (seq 0 (h_nrows hB)) (fun i m =>
    forM (seq 0 (h_width hB)) (fun j m =>
      x <- rd m (row_addr hB i + j) ;; wr m (row_addr hC (h_nrows hA + i) + j) x) m) m1.

Definition w_stack_fresh (hA hB : hdr) (mem : list N) : res (list N * hdr) :=
  if negb (h_ncols hA =? h_ncols hB) then Err Die else
  let '(mem0, hC) := w_alloc mem (h_nrows hA + h_nrows hB) (h_ncols hA) in
  m <- w_stack hC hA hB mem0 ;; Ok (m, hC).

Definition w_stack_fixed (hC hA hB : hdr) (mem : list N) : res (list N) :=
  if negb (h_ncols hA =? h_ncols hB) then Err Die else
  if negb ((h_nrows hC =? h_nrows hA + h_nrows hB) && (h_ncols hC =? h_ncols hA)) then Err Die else
  m1 <- forM (seq 0 (h_nrows hA)) (fun i m => w_copy_words_masked hC i hA i m) mem ;;
  forM (seq 0 (h_nrows hB)) (fun i m => w_copy_words_masked hC (h_nrows hA + i) hB i m) m1.

(* ========================================================================================== *)
(** * Triangular parts: mzd_extract_u / mzd_extract_l (U / L supplied, k x k) *)
Definition w_extract_u (hU hA : hdr) (mem : list N) : res (list N) :=
  let k := Nat.min (h_nrows hA) (h_ncols hA) in
  m0 <- w_submatrix hU hA 0 0 k k mem ;;
  forM (seq 1 (h_nrows hU - 1)) (fun i m =>
    let row := row_addr hU i in
    m1 <- forM (seq 0 (i / 64)) (fun j m => wr m (row + j) 0%N) m ;;
    if negb (i mod 64 =? 0) then w_clear_bits hU i ((i / 64) * 64) (i mod 64) m1 else Ok m1) m0.

Definition w_extract_l (hL hA : hdr) (mem : list N) : res (list N) :=
  let k := Nat.min (h_nrows hA) (h_ncols hA) in
  m0 <- w_submatrix hL hA 0 0 k k mem ;;
  forM (seq 0 (h_nrows hL - 1)) (fun i m =>
    let row := row_addr hL i in
    m1 <- (if negb (64 - (i + 1) mod 64 =? 0)
           then w_clear_bits hL i (i + 1) (64 - (i + 1) mod 64) m else Ok m) ;;
    forM (seq (i / 64 + 1) (h_width hL - (i / 64 + 1))) (fun j m => wr m (row + j) 0%N) m1) m0.

Definition w_extract_u_fresh (hA : hdr) (mem : list N) : res (list N * hdr) :=
  let k := Nat.min (h_nrows hA) (h_ncols hA) in
  let '(mem0, hU) := w_alloc mem k k in
  m <- w_extract_u hU hA mem0 ;; Ok (m, hU).
Definition w_extract_l_fresh (hA : hdr) (mem : list N) : res (list N * hdr) :=
  let k := Nat.min (h_nrows hA) (h_ncols hA) in
  let '(mem0, hL) := w_alloc mem k k in
  m <- w_extract_l hL hA mem0 ;; Ok (m, hL).

(* ========================================================================================== *)
(** * Observers *)

Definition opt_default {R} (d : R) (o : option R) : R := match o with Some v => v | None => d end.

(** mzd_equal(A, B) *)
Definition w_equal (hA hB : hdr) (mem : list N) : res bool :=
  if negb (h_nrows hA =? h_nrows hB) then Ok false else
  if negb (h_ncols hA =? h_ncols hB) then Ok false else
  if hdr_eqb hA hB then Ok true else
  if (h_width hA =? 0) && negb (h_nrows hA =? 0) then Err OOB else
  let Awidth := h_width hA - 1 in
  let mask_end := h_hmask hA in
  r <- firstM (seq 0 (h_nrows hA)) (fun i =>
         let rowa := row_addr hA i in
         let rowb := row_addr hB i in
         r <- firstM (seq 0 Awidth) (fun j =>
                x <- rd mem (rowa + j) ;; y <- rd mem (rowb + j) ;;
                Ok (if negb (x =? y)%N then Some false else None)) ;;
         match r with
         | Some v => Ok (Some v)
         | None => x <- rd mem (rowa + Awidth) ;; y <- rd mem (rowb + Awidth) ;;
                   Ok (if negb (N.land (N.lxor x y) mask_end =? 0)%N then Some false else None)
         end) ;;
  Ok (opt_default true r).

(** mzd_cmp(A, B): -1 / 0 / 1 as [Lt] / [Eq] / [Gt] *)
Definition w_cmp (hA hB : hdr) (mem : list N) : res comparison :=
  if h_nrows hA <? h_nrows hB then Ok Lt else
  if h_nrows hB <? h_nrows hA then Ok Gt else
  if h_ncols hA <? h_ncols hB then Ok Lt else
  if h_ncols hB <? h_ncols hA then Ok Gt else
  if (h_width hA =? 0) && negb (h_nrows hA =? 0) then Err OOB else
  let mask_end := h_hmask hA in
  let n := h_width hA - 1 in
  r <- firstM (seq 0 (h_nrows hA)) (fun i =>
         let rowa := row_addr hA i in
         let rowb := row_addr hB i in
         x <- rd mem (rowa + n) ;; y <- rd mem (rowb + n) ;;
         if (N.land x mask_end <? N.land y mask_end)%N then Ok (Some Lt) else
         if (N.land y mask_end <? N.land x mask_end)%N then Ok (Some Gt) else
         (* for (j = n - 1; j >= 0; j--) *)
         firstM (rev (seq 0 n)) (fun j =>
           x <- rd mem (rowa + j) ;; y <- rd mem (rowb + j) ;;
           Ok (if (x <? y)%N then Some Lt else if (y <? x)%N then Some Gt else None))) ;;
  Ok (opt_default Eq r).

(** mzd_is_zero(A) *)
Definition w_is_zero (hA : hdr) (mem : list N) : res bool :=
  if (h_width hA =? 0) && negb (h_nrows hA =? 0) then Err OOB else
  let mask_end := h_hmask hA in
  r <- firstM (seq 0 (h_nrows hA)) (fun i =>
         let row := row_addr hA i in
         status <- forM (seq 0 (h_width hA - 1)) (fun j st => x <- rd mem (row + j) ;; Ok (N.lor st x)) 0%N ;;
         x <- rd mem (row + (h_width hA - 1)) ;;
         let status := N.lor status (N.land x mask_end) in
         Ok (if negb (status =? 0)%N then Some false else None)) ;;
  Ok (opt_default true r).

(** mzd_first_zero_row(A): the first word of the row is loaded UNMASKED (tmp = row[0]) *)
Definition w_first_zero_row (hA : hdr) (mem : list N) : res nat :=
  if (h_width hA =? 0) && negb (h_nrows hA =? 0) then Err OOB else
  let mask_end := left_bitmask (h_ncols hA mod 64) in
  let e := h_width hA - 1 in
  r <- firstM (rev (seq 0 (h_nrows hA))) (fun i =>
         let row := row_addr hA i in
         tmp <- rd mem row ;;
         tmp <- forM (seq 1 (e - 1)) (fun j t => x <- rd mem (row + j) ;; Ok (N.lor t x)) tmp ;;
         x <- rd mem (row + e) ;;
         let tmp := N.lor tmp (N.land x mask_end) in
         Ok (if negb (tmp =? 0)%N then Some (i + 1) else None)) ;;
  Ok (opt_default 0 r).

(** repaired: the first word is masked when it is also the last one *)
Definition w_first_zero_row_fixed (hA : hdr) (mem : list N) : res nat :=
  if (h_width hA =? 0) && negb (h_nrows hA =? 0) then Err OOB else
  let mask_end := left_bitmask (h_ncols hA mod 64) in
  let e := h_width hA - 1 in
  r <- firstM (rev (seq 0 (h_nrows hA))) (fun i =>
         let row := row_addr hA i in
         tmp <- (if e =? 0 then Ok 0%N else rd mem row) ;;
         tmp <- forM (seq 1 (e - 1)) (fun j t => x <- rd mem (row + j) ;; Ok (N.lor t x)) tmp ;;
         x <- rd mem (row + e) ;;
         let tmp := N.lor tmp (N.land x mask_end) in
         Ok (if negb (tmp =? 0)%N then Some (i + 1) else None)) ;;
  Ok (opt_default 0 r).

(** m4ri_lesser_LSB(a, b) = !(ib ? ((ia - 1) ^ ia) & ib : !ia), 64-bit arithmetic *)
Definition lesser_LSB (a b : N) : bool :=
  negb (if negb (b =? 0)%N
        then negb (N.land (N.lxor (trunc (a + ffff)) a) b =? 0)%N    (* ia - 1 = ia + 2^64 - 1 mod 2^64 *)
        else (a =? 0)%N).

(** index of the lowest set bit among bits [0, len) of [data], as the C scan loop finds it *)
Fixpoint first_set_bit (data : N) (l len : nat) : option nat :=
  match len with
  | 0 => None
  | S len' => if N.testbit data (N.of_nat l) then Some l else first_set_bit data (S l) len'
  end.

(** one column-block scan of mzd_find_pivot: rows start_row..nrows-1, candidate update with
    [lesser_LSB], optional early [break] when bit [brk] of the new candidate is set.
    State: (data, row_candidate, stop). *)
Definition pivot_scan (load : nat -> res N) (brk : option nat) (rows : list nat)
  (st : N * nat) : res (N * nat) :=
  r <- forM rows (fun i (s : N * nat * bool) =>
         let '(data, cand, stop) := s in
         if stop then Ok s else
         curr <- load i ;;
         if lesser_LSB curr data then
           let stop' := match brk with Some b => N.testbit curr (N.of_nat b) | None => false end in
           Ok (curr, i, stop')
         else Ok s) (fst st, snd st, false) ;;
  Ok (fst (fst r), snd (fst r)).

(** mzd_find_pivot(A, start_row, start_col, &r, &c): [Some (r, c)] for return value 1 *)
Definition w_find_pivot (hA : hdr) (start_row start_col : nat) (mem : list N)
  : res (option (nat * nat)) :=
  let nrows := h_nrows hA in
  let ncols := h_ncols hA in
  let rows := seq start_row (nrows - start_row) in
  if ncols - start_col <? 64 then
    (* for (j = start_col; j < ncols; j += 64): at most one iteration since ncols - start_col < 64 *)
    if ncols <=? start_col then Ok None else
    let j := start_col in
    let length := Nat.min 64 (ncols - j) in
    st <- pivot_scan (fun i => w_read_bits hA i j length mem) None rows (0%N, 0) ;;
    let '(data, cand) := st in
    if negb (data =? 0)%N then
      Ok (match first_set_bit data 0 length with Some l => Some (cand, j + l) | None => Some (cand, 0) end)
    else Ok None
  else
    let bit_offset := start_col mod 64 in
    let word_offset := start_col / 64 in
    let mask_begin := right_bitmask (64 - bit_offset) in
    st <- pivot_scan (fun i => w <- rd mem (row_addr hA i + word_offset) ;; Ok (N.land w mask_begin))
                     (Some bit_offset) rows (0%N, 0) ;;
    let '(data, cand) := st in
    if negb (data =? 0)%N then
      let data := shr data bit_offset in
      Ok (match first_set_bit data 0 (64 - bit_offset) with
          | Some l => Some (cand, start_col + l) | None => Some (cand, 0) end)
    else
    (* complete words: for (wi = word_offset + 1; wi < width - 1; ++wi), returning at the first
       word in which some row is non-zero *)
    r <- firstM (seq (word_offset + 1) (h_width hA - 1 - (word_offset + 1))) (fun wi =>
           st <- pivot_scan (fun i => rd mem (row_addr hA i + wi)) (Some 0) rows (0%N, cand) ;;
           let '(data, cand) := st in
           if negb (data =? 0)%N then
             Ok (Some (match first_set_bit data 0 64 with
                       | Some l => (cand, wi * 64 + l) | None => (cand, 0) end))
           else Ok None) ;;
    match r with
    | Some rc => Ok (Some rc)
    | None =>
      (* last word *)
      let end_offset := if negb (ncols mod 64 =? 0) then ncols mod 64 else 64 in
      let mask_end := left_bitmask (end_offset mod 64) in
      let wi := h_width hA - 1 in
      st <- pivot_scan (fun i => w <- rd mem (row_addr hA i + wi) ;; Ok (N.land w mask_end))
                       (Some 0) rows (0%N, cand) ;;
      let '(data, cand) := st in
      if negb (data =? 0)%N then
        Ok (match first_set_bit data 0 end_offset with
            | Some l => Some (cand, wi * 64 + l) | None => Some (cand, 0) end)
      else Ok None
    end.
