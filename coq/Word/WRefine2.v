(* Word/WRefine2.v — refinement / frame / padding theorems, part 2: row combination and addition
   (mzd_combine_even(_in_place), mzd_combine, _mzd_add, mzd_add with all aliasing forms, mzd_add(NULL,..)).
   No axioms. *)
From Coq Require Import List NArith Arith Lia Bool ZifyBool ZifyNat ZifyN ZArith.
From M4 Require Import Base.Bits Lin.Mat Lin.Ops Lin.OpsProofs Word.WMat Word.WOps Word.WMatLemmas
  Word.WRefineLemmas.
Import ListNotations.
Local Open Scope nat_scope.
Ltac Zify.zify_post_hook ::= Z.div_mod_to_equations.

Lemma same_ncols_width h1 h2 : hdr_ok h1 -> hdr_ok h2 -> h_ncols h1 = h_ncols h2 ->
  h_width h1 = h_width h2 /\ h_hmask h1 = h_hmask h2.
Proof. intros [W1 [M1 _]] [W2 [M2 _]] E. rewrite W1, W2, M1, M2, E. auto. Qed.

(** a source row is the destination row itself or shares no word with it *)
Definition row_alias (hC : hdr) (c : nat) (hA : hdr) (a : nat) : Prop :=
  (hA = hC /\ a = c) \/ sep (row_addr hC c) (h_width hC) (row_addr hA a) (h_width hA).

Lemma alias_row_alias hC hA c a : alias_ok hC hA -> hdr_ok hC -> hdr_ok hA ->
  c < h_nrows hC -> a < h_nrows hA -> row_alias hC c hA a.
Proof. apply alias_rows. Qed.

(* ------------------------------------------------------------------------------------------ *)
(** * mzd_combine_even: C[c][sb..] = A[a][sb..] ^ B[b][sb..], last word under C's high mask *)
Theorem w_combine_even_ok hC c hA a hB b sb mem :
  valid hC mem -> valid hA mem -> valid hB mem ->
  h_ncols hA = h_ncols hC -> h_ncols hB = h_ncols hC ->
  c < h_nrows hC -> a < h_nrows hA -> b < h_nrows hB -> sb < h_width hC ->
  row_alias hC c hA a -> row_alias hC c hB b ->
  exists m', w_combine_even hC c sb hA a sb hB b sb mem = Ok m' /\ length m' = length mem /\ mem_ok m' /\
    touched hC c (64 * sb) (h_ncols hC) mem m' /\
    forall j, N.testbit (rowval hC m' c) (N.of_nat j) =
      if 64 * sb <=? j then xorb (N.testbit (rowval hA mem a) (N.of_nat j)) (N.testbit (rowval hB mem b) (N.of_nat j))
      else N.testbit (rowval hC mem c) (N.of_nat j).
Proof.
  intros HvC HvA HvB EA EB Hc Ha Hb Hsb AlA AlB.
  pose proof (valid_hdr_ok _ _ HvC) as HokC. pose proof (valid_hdr_ok _ _ HvA) as HokA.
  pose proof (valid_hdr_ok _ _ HvB) as HokB. pose proof (valid_mem_ok _ _ HvC) as Hm.
  destruct (same_ncols_width hA hC HokA HokC EA) as [WA MA].
  destruct (same_ncols_width hB hC HokB HokC EB) as [WB MB].
  assert (Hcw : forall k, k < h_width hC -> row_addr hC c + k < length mem) by (intros; now apply valid_word).
  assert (Haw : forall k, k < h_width hC -> row_addr hA a + k < length mem) by (intros; apply valid_word; auto; lia).
  assert (Hbw : forall k, k < h_width hC -> row_addr hB b + k < length mem) by (intros; apply valid_word; auto; lia).
  set (W := h_width hC).
  assert (SA : row_addr hA a = row_addr hC c \/ row_addr hA a + W <= row_addr hC c \/ row_addr hC c + W <= row_addr hA a).
  { destruct AlA as [[-> ->]|S]; [now left|]. unfold sep in S. subst W. lia. }
  assert (SB : row_addr hB b = row_addr hC c \/ row_addr hB b + W <= row_addr hC c \/ row_addr hC c + W <= row_addr hB b).
  { destruct AlB as [[-> ->]|S]; [now left|]. unfold sep in S. subst W. lia. }
  unfold w_combine_even. rewrite WA. fold W. set (wide := W - sb - 1).
  set (ra := row_addr hA a) in *. set (rb := row_addr hB b) in *. set (rc := row_addr hC c) in *.
  set (f := fun j => N.lxor (word_at mem (ra + sb + j)) (word_at mem (rb + sb + j))).
  destruct (forM_store (rc + sb) 0 wide f
     (fun i m => x <- rd m (ra + sb + i) ;; y <- rd m (rb + sb + i) ;; wr m (rc + sb + i) (N.lxor x y)) mem Hm)
    as (m1 & E1 & L1 & O1 & D1).
  { pose proof (Hcw (W - 1)). subst wide W. lia. }
  { intros j m Hj L O D. pose proof (Haw (sb + j)). pose proof (Hbw (sb + j)).
    rewrite rd_ok by (subst wide W; lia). cbn [bind]. rewrite rd_ok by (subst wide W; lia). cbn [bind].
    rewrite !D. rewrite !stored_out by (subst wide W; lia). reflexivity. }
  rewrite E1. cbn [bind]. cbn [Nat.add] in D1.
  pose proof (Haw (sb + wide)). pose proof (Hbw (sb + wide)). pose proof (Hcw (sb + wide)).
  rewrite !rd_ok by (subst wide W; lia). cbn [bind]. rewrite wr_ok by (subst wide W; lia).
  rewrite !D1. rewrite !stored_out by (subst wide W; lia).
  set (x := word_at mem (ra + sb + wide)). set (y := word_at mem (rb + sb + wide)).
  set (z := word_at mem (rc + sb + wide)).
  pose proof (stored_upd (rc + sb) 0 wide f mem m1 wide
                (N.lxor z (N.land (N.lxor (N.lxor x y) z) (h_hmask hC))) ltac:(lia) ltac:(subst wide W; lia) D1) as D'.
  replace (Nat.max wide (S wide)) with (W - sb) in D' by (subst wide; lia).
  set (m' := upd _ _ m1) in *. assert (L' : length m' = length mem) by (unfold m'; now rewrite upd_length).
  exists m'. split; [reflexivity|]. split; [assumption|]. split; [now apply mem_ok_upd|].
  assert (Hc0 : 0 < h_ncols hC) by (destruct HokC as [Hw _]; fold W in Hw; lia).
  destruct (row_kernel hC c sb (W - sb) (64 * sb) (h_ncols hC) _ mem m' HokC ltac:(subst W; lia) L' D') as [T B].
  { intros k bb Hk Hbb Hn. cbn beta.
    destruct (Nat.eqb_spec k wide) as [-> |Hne].
    - wbits. rewrite testbit_hmask' by assumption.
      destruct (Nat.ltb_spec (64 * (h_width hC - 1) + bb) (h_ncols hC)); [subst wide W; lia|].
      rewrite andb_false_r, xorb_false_r. unfold z. do 2 f_equal. subst rc. lia.
    - pose proof (full_word_in hC (sb + k) bb HokC). subst wide W. lia. }
  split; [exact T|]. intros j.
  destruct (Nat.lt_ge_cases j (h_ncols hC)) as [Hj|Hj].
  2:{ rewrite !rowval_bounded by lia. now destruct (_ <=? _). }
  rewrite B by assumption. pose proof (width_pos hC j HokC Hj) as Hjw. fold W in Hjw.
  destruct (Nat.leb_spec sb (j / 64)), (Nat.leb_spec (64 * sb) j); try lia; cbn [andb]; [|reflexivity].
  destruct (Nat.ltb_spec (j / 64) (sb + (W - sb))); [|lia].
  rewrite <- (rowval_bit hA mem a j) by (auto; lia). rewrite <- (rowval_bit hB mem b j) by (auto; lia).
  unfold bit. fold ra rb.
  destruct (Nat.eqb_spec (j / 64 - sb) wide) as [E|E].
  - wbits. rewrite testbit_hmask' by (auto; lia).
    destruct (Nat.ltb_spec (64 * (h_width hC - 1) + j mod 64) (h_ncols hC)); [|subst wide W; lia].
    rewrite andb_true_r. unfold x, y, z.
    replace (ra + sb + wide) with (ra + j / 64) by lia. replace (rb + sb + wide) with (rb + j / 64) by lia.
    now destruct (N.testbit (word_at mem (ra + j / 64)) _), (N.testbit (word_at mem (rb + j / 64)) _),
      (N.testbit (word_at mem (rc + sb + wide)) _).
  - unfold f. wbits. replace (ra + sb + (j / 64 - sb)) with (ra + j / 64) by lia.
    replace (rb + sb + (j / 64 - sb)) with (rb + j / 64) by lia. reflexivity.
Qed.

(** mzd_combine_even_in_place: A[a][sb..] ^= B[b][sb..], last word under A's high mask *)
Theorem w_combine_even_in_place_ok hA a hB b sb mem :
  valid hA mem -> valid hB mem -> h_ncols hB = h_ncols hA ->
  a < h_nrows hA -> b < h_nrows hB -> sb < h_width hA -> row_alias hA a hB b ->
  exists m', w_combine_even_in_place hA a sb hB b sb mem = Ok m' /\ length m' = length mem /\ mem_ok m' /\
    touched hA a (64 * sb) (h_ncols hA) mem m' /\
    forall j, N.testbit (rowval hA m' a) (N.of_nat j) =
      if 64 * sb <=? j then xorb (N.testbit (rowval hA mem a) (N.of_nat j)) (N.testbit (rowval hB mem b) (N.of_nat j))
      else N.testbit (rowval hA mem a) (N.of_nat j).
Proof.
  intros HvA HvB EB Ha Hb Hsb AlB.
  pose proof (valid_hdr_ok _ _ HvA) as HokA. pose proof (valid_hdr_ok _ _ HvB) as HokB.
  pose proof (valid_mem_ok _ _ HvA) as Hm.
  destruct (same_ncols_width hB hA HokB HokA EB) as [WB MB].
  assert (Haw : forall k, k < h_width hA -> row_addr hA a + k < length mem) by (intros; now apply valid_word).
  assert (Hbw : forall k, k < h_width hA -> row_addr hB b + k < length mem) by (intros; apply valid_word; auto; lia).
  set (W := h_width hA).
  assert (SB : row_addr hB b = row_addr hA a \/ row_addr hB b + W <= row_addr hA a \/ row_addr hA a + W <= row_addr hB b).
  { destruct AlB as [[-> ->]|S]; [now left|]. unfold sep in S. subst W. lia. }
  unfold w_combine_even_in_place. fold W. set (wide := W - sb - 1).
  set (ra := row_addr hA a) in *. set (rb := row_addr hB b) in *.
  set (f := fun j => N.lxor (word_at mem (ra + sb + j)) (word_at mem (rb + sb + j))).
  destruct (forM_store (ra + sb) 0 wide f
     (fun i m => x <- rd m (ra + sb + i) ;; y <- rd m (rb + sb + i) ;; wr m (ra + sb + i) (N.lxor x y)) mem Hm)
    as (m1 & E1 & L1 & O1 & D1).
  { pose proof (Haw (W - 1)). subst wide W. lia. }
  { intros j m Hj L O D. pose proof (Haw (sb + j)). pose proof (Hbw (sb + j)).
    rewrite rd_ok by (subst wide W; lia). cbn [bind]. rewrite rd_ok by (subst wide W; lia). cbn [bind].
    rewrite !D. rewrite !stored_out by (subst wide W; lia). reflexivity. }
  rewrite E1. cbn [bind]. cbn [Nat.add] in D1.
  pose proof (Haw (sb + wide)). pose proof (Hbw (sb + wide)).
  rewrite !rd_ok by (subst wide W; lia). cbn [bind]. rewrite wr_ok by (subst wide W; lia).
  rewrite !D1. rewrite !stored_out by (subst wide W; lia).
  set (x := word_at mem (ra + sb + wide)). set (y := word_at mem (rb + sb + wide)).
  pose proof (stored_upd (ra + sb) 0 wide f mem m1 wide
                (N.lxor x (N.land y (h_hmask hA))) ltac:(lia) ltac:(subst wide W; lia) D1) as D'.
  replace (Nat.max wide (S wide)) with (W - sb) in D' by (subst wide; lia).
  set (m' := upd _ _ m1) in *. assert (L' : length m' = length mem) by (unfold m'; now rewrite upd_length).
  exists m'. split; [reflexivity|]. split; [assumption|]. split; [now apply mem_ok_upd|].
  assert (Hc0 : 0 < h_ncols hA) by (destruct HokA as [Hw _]; fold W in Hw; lia).
  destruct (row_kernel hA a sb (W - sb) (64 * sb) (h_ncols hA) _ mem m' HokA ltac:(subst W; lia) L' D') as [T B].
  { intros k bb Hk Hbb Hn. cbn beta.
    destruct (Nat.eqb_spec k wide) as [-> |Hne].
    - wbits. rewrite testbit_hmask' by assumption.
      destruct (Nat.ltb_spec (64 * (h_width hA - 1) + bb) (h_ncols hA)); [subst wide W; lia|].
      rewrite andb_false_r, xorb_false_r. unfold x. do 2 f_equal. subst ra. lia.
    - pose proof (full_word_in hA (sb + k) bb HokA). subst wide W. lia. }
  split; [exact T|]. intros j.
  destruct (Nat.lt_ge_cases j (h_ncols hA)) as [Hj|Hj].
  2:{ rewrite !rowval_bounded by lia. now destruct (_ <=? _). }
  rewrite B by assumption. pose proof (width_pos hA j HokA Hj) as Hjw. fold W in Hjw.
  destruct (Nat.leb_spec sb (j / 64)), (Nat.leb_spec (64 * sb) j); try lia; cbn [andb]; [|reflexivity].
  destruct (Nat.ltb_spec (j / 64) (sb + (W - sb))); [|lia].
  rewrite <- (rowval_bit hA mem a j) by (auto; lia). rewrite <- (rowval_bit hB mem b j) by (auto; lia).
  unfold bit. fold ra rb.
  destruct (Nat.eqb_spec (j / 64 - sb) wide) as [E|E].
  - wbits. rewrite testbit_hmask' by (auto; lia).
    destruct (Nat.ltb_spec (64 * (h_width hA - 1) + j mod 64) (h_ncols hA)); [|subst wide W; lia].
    rewrite andb_true_r. unfold x, y.
    replace (ra + sb + wide) with (ra + j / 64) by lia. replace (rb + sb + wide) with (rb + j / 64) by lia.
    reflexivity.
  - unfold f. wbits. replace (ra + sb + (j / 64 - sb)) with (ra + j / 64) by lia.
    replace (rb + sb + (j / 64 - sb)) with (rb + j / 64) by lia. reflexivity.
Qed.

(* ------------------------------------------------------------------------------------------ *)
(** * _mzd_add / mzd_add *)
Lemma rowval_lxor_bits x y z :
  (forall j, N.testbit z (N.of_nat j) = xorb (N.testbit x (N.of_nat j)) (N.testbit y (N.of_nat j))) ->
  z = N.lxor x y.
Proof. intros H. apply bits_ext_nat. intros j. now rewrite H, N.lxor_spec. Qed.

(** the row loop of _mzd_add (no operand swap): C may be A, B, both or neither *)
Lemma add_loop hC hA hB mem :
  valid hC mem -> valid hA mem -> valid hB mem -> 0 < h_ncols hC ->
  h_ncols hA = h_ncols hC -> h_ncols hB = h_ncols hC ->
  h_nrows hA = h_nrows hC -> h_nrows hB = h_nrows hC ->
  alias_ok hC hA -> alias_ok hC hB ->
  exists m', forM (seq 0 (h_nrows hC)) (fun i m => w_combine_even hC i 0 hA i 0 hB i 0 m) mem = Ok m' /\
    length m' = length mem /\ mem_ok m' /\ outside hC mem m' /\
    abs hC m' = madd (abs hA mem) (abs hB mem).
Proof.
  intros HvC HvA HvB Hc0 EA EB RA RB AlA AlB.
  pose proof (valid_hdr_ok _ _ HvC) as HokC. pose proof (valid_hdr_ok _ _ HvA) as HokA.
  pose proof (valid_hdr_ok _ _ HvB) as HokB. pose proof (valid_mem_ok _ _ HvC) as Hm.
  destruct (rows_loop hC 0 0 (h_nrows hC) 0 (h_ncols hC)
              (fun k => N.lxor (rowval hA mem k) (rowval hB mem k))
              (fun i m => w_combine_even hC i 0 hA i 0 hB i 0 m) mem HokC ltac:(lia) ltac:(lia) Hm)
    as (m' & E & L & O & Out & Done & _).
  - intros k m Hk Lm Om Outm Rest. cbn [Nat.add] in *.
    destruct (w_combine_even_ok hC k hA k hB k 0 m) as (m' & E & L' & O' & T & B);
      try (eapply valid_same_length; eassumption); try lia; auto.
    + now apply width_pos_of_ncols.
    + apply alias_row_alias; auto; lia.
    + apply alias_row_alias; auto; lia.
    + exists m'. split; [exact E|]. split; [assumption|]. split; [exact T|].
      apply rowval_lxor_bits. intros j. rewrite B. destruct (Nat.leb_spec (64 * 0) j); [|lia].
      rewrite (src_row_stable hC hA mem m k) by (auto; try lia; intros _; apply Rest; lia).
      rewrite (src_row_stable hC hB mem m k) by (auto; try lia; intros _; apply Rest; lia).
      reflexivity.
  - exists m'. repeat (split; [assumption|]).
    apply abs_rows_ext.
    + cbn. lia.
    + cbn. lia.
    + cbn [madd rows]. rewrite zipx_length, !rows_abs_length. lia.
    + intros i Hi. rewrite row_madd by (rewrite !rows_abs_length; lia).
      rewrite !row_abs by lia. apply (Done i). lia.
Qed.

(** _mzd_add(C, A, B) for operands of equal dimensions; C == A, C == B, A == B, all three equal or all
    distinct (distinct operands must not share words with C). *)
Theorem w_add_ok hC hA hB mem :
  valid hC mem -> valid hA mem -> valid hB mem -> 0 < h_ncols hC ->
  same_dims hA hC -> same_dims hB hC -> alias_ok hC hA -> alias_ok hC hB ->
  exists m', w_add hC hA hB mem = Ok m' /\ length m' = length mem /\ mem_ok m' /\
    abs hC m' = madd (abs hA mem) (abs hB mem) /\ outside hC mem m'.
Proof.
  intros HvC HvA HvB Hc0 [RA EA] [RB EB] AlA AlB.
  pose proof (valid_hdr_ok _ _ HvC) as HokC. pose proof (valid_hdr_ok _ _ HvA) as HokA.
  pose proof (valid_hdr_ok _ _ HvB) as HokB.
  unfold w_add. rewrite RA, RB, !Nat.min_id.
  destruct (hdr_eqb hC hB) eqn:Eq.
  - (* C == B: operands swapped *)
    apply hdr_eqb_eq in Eq. subst hB.
    pose proof (width_pos_of_ncols hC HokC Hc0). destruct (h_width hC) eqn:EW; [lia|].
    destruct (add_loop hC hC hA mem) as (m' & E & L & O & Out & A); auto.
    exists m'. repeat (split; [assumption|]). split; [|assumption]. rewrite A.
    unfold madd. cbn [nr nc abs]. f_equal; [lia..|].
    generalize (rows (abs hC mem)) (rows (abs hA mem)). induction l as [|x l IH]; intros [|y l']; cbn; try reflexivity.
    now rewrite IH, N.lxor_comm.
  - pose proof (width_pos_of_ncols hA HokA ltac:(lia)). destruct (h_width hA) eqn:EW; [lia|].
    destruct (add_loop hC hA hB mem) as (m' & E & L & O & Out & A); auto.
    exists m'. do 4 (split; [assumption|]). assumption.
Qed.

(** mzd_add(ret, left, right) with ret supplied *)
Theorem w_mzd_add_ok hC hA hB mem :
  valid hC mem -> valid hA mem -> valid hB mem -> 0 < h_ncols hC ->
  same_dims hA hC -> same_dims hB hC -> alias_ok hC hA -> alias_ok hC hB ->
  exists m', w_mzd_add hC hA hB mem = Ok m' /\ length m' = length mem /\ mem_ok m' /\
    abs hC m' = madd (abs hA mem) (abs hB mem) /\ outside hC mem m'.
Proof.
  intros HvC HvA HvB Hc0 DA DB AlA AlB. unfold w_mzd_add.
  destruct DA as [RA EA], DB as [RB EB].
  rewrite RA, RB, EA, EB, !Nat.eqb_refl. cbn [andb negb]. rewrite andb_false_r.
  apply w_add_ok; auto; split; auto.
Qed.

(** mzd_add(NULL, A, B): fresh destination, zero padding *)
Theorem w_mzd_add_fresh_ok hA hB mem :
  valid hA mem -> valid hB mem -> 0 < h_ncols hA -> same_dims hB hA ->
  exists m' hC, w_mzd_add_fresh hA hB mem = Ok (m', hC) /\ mem_ok m' /\ valid hC m' /\
    owned hC = true /\ h_nrows hC = h_nrows hA /\ h_ncols hC = h_ncols hA /\
    abs hC m' = madd (abs hA mem) (abs hB mem) /\ padding_zero hC m' /\
    firstn (length mem) m' = mem.
Proof.
  intros HvA HvB Hc0 [RB EB]. pose proof (valid_mem_ok _ _ HvA) as Hm.
  unfold w_mzd_add_fresh. rewrite RB, EB, !Nat.eqb_refl. cbn [andb negb].
  destruct (w_alloc mem (h_nrows hA) (h_ncols hA)) as [mem0 hC] eqn:EA.
  pose proof (alloc_valid mem (h_nrows hA) (h_ncols hA) Hm) as HvC.
  pose proof (alloc_old_valid mem (h_nrows hA) (h_ncols hA) hA HvA) as HvA0.
  pose proof (alloc_old_valid mem (h_nrows hA) (h_ncols hA) hB HvB) as HvB0.
  pose proof (alloc_disjoint mem (h_nrows hA) (h_ncols hA) hA HvA) as DjA.
  pose proof (alloc_disjoint mem (h_nrows hA) (h_ncols hA) hB HvB) as DjB.
  pose proof (alloc_padding mem (h_nrows hA) (h_ncols hA)) as Pad.
  pose proof (alloc_old_abs mem (h_nrows hA) (h_ncols hA) hA HvA) as AbsA.
  pose proof (alloc_old_abs mem (h_nrows hA) (h_ncols hA) hB HvB) as AbsB.
  pose proof (alloc_prefix mem (h_nrows hA) (h_ncols hA)) as Pre.
  rewrite EA in *. cbn [fst snd] in *.
  assert (EhC : hC = init_hdr_at (length mem) (h_nrows hA) (h_ncols hA)) by (inversion EA; reflexivity).
  destruct (w_add_ok hC hA hB mem0) as (m' & E & L & O & A & Out); auto.
  - rewrite EhC. cbn. assumption.
  - rewrite EhC. split; reflexivity.
  - rewrite EhC. split; cbn; lia.
  - now right.
  - now right.
  - rewrite E. cbn [bind]. exists m', hC. split; [reflexivity|]. split; [assumption|].
    split; [eapply valid_same_length; eassumption|].
    split; [rewrite EhC; reflexivity|]. split; [rewrite EhC; reflexivity|]. split; [rewrite EhC; reflexivity|].
    split; [now rewrite A, AbsA, AbsB|]. split.
    + apply (outside_padding hC mem0 m'); auto. now destruct HvC.
    + now apply Pre.
Qed.
