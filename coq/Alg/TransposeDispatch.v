(* Alg/TransposeDispatch.v — hand model of the transpose DISPATCHER of m4ri/mzd.c on Lin/Mat.v matrices:
   _mzd_transpose_base (mzd.c:960), split_round (:1071), _mzd_transpose_notsmall (:1076), _mzd_transpose
   (:1107) and mzd_transpose (:1121), parametrised by the five kernels (their specifications are
   hypotheses of the theorems in Alg/TransposeDispatchProofs.v; the kernels themselves are proven on the
   translated C text in Leaf/TransposeSpecs*.v).

   The C code passes word pointers into the destination (fwd) and the source (fws).  The model keeps, for
   every kernel call, the RECTANGLE it works on: destination rows [da, da+h) x columns [db, db+w) receive
   the transpose of source rows [sa, sa+w) x columns [sb, sb+h).  Pointer steps of the C code become
   coordinate steps: fwd + 1 = 64 destination columns, fwd + 64*rowstride_dst = 64 destination rows,
   fws + 1 = 64 source columns, fws + 64*rowstride_src = 64 source rows.  The dispatcher is modelled as the
   SCHEDULE (list of kernel calls with their rectangles, in the order the C code issues them) it produces
   for given (nrows, ncols, maxsize); [run_sched] executes a schedule by pasting kernel results.
   Models only; no proofs here. *)
From Coq Require Import List Arith NArith Bool.
From M4 Require Import Base.Bits Lin.Mat Lin.Ops.
Import ListNotations.
Local Open Scope nat_scope.

Record rect := { da : nat; db : nat; sa : nat; sb : nat; rh : nat; rw : nat }.

Inductive kind :=
| Kd64                       (* _mzd_copy_transpose_64x64 *)
| Kdlt64x64                  (* _mzd_copy_transpose_lt64x64: n < 64 source rows, 64 source columns *)
| Kd64xlt64                  (* _mzd_copy_transpose_64xlt64: 64 source rows, n < 64 source columns *)
| Kdsmall (maxsize : nat).   (* _mzd_copy_transpose_small *)

Inductive item :=
| Single (k : kind) (r : rect)
| Pair (r1 r2 : rect).        (* _mzd_copy_transpose_64x64_2 on two 64x64 blocks *)

Definition item_rects (it : item) : list rect :=
  match it with
  | Single _ r => [r]
  | Pair r1 r2 => [r1; r2]
  end.

(** the whole 64x64 block with source row-block I and column-block J, relative to pointers
    fwd = (dr, dc), fws = (sr, sc) *)
Definition blk (dr dc sr sc I J : nat) : rect :=
  {| da := dr + 64 * J; db := dc + 64 * I; sa := sr + 64 * I; sb := sc + 64 * J; rh := 64; rw := 64 |}.

(** mzd.c:1002-1013: the inner loop with the delayed block: a block is remembered, the next one is
    transposed together with it by _mzd_copy_transpose_64x64_2; [even] persists across row blocks *)
Fixpoint emit (del : option rect) (ps : list rect) : list item * option rect :=
  match ps with
  | [] => ([], del)
  | p :: ps' =>
      match del with
      | None => emit (Some p) ps'
      | Some d => let r := emit None ps' in (Pair d p :: fst r, snd r)
      end
  end.

Section Sched.
  Variables dr dc sr sc : nat.

  (** mzd.c:1001-1025 the while(1) loop: row block I, inner j from js (only in the first row block) *)
  Fixpoint rowloop (cnt I js : nat) (whole crem : nat) (del : option rect) : list item :=
    match cnt with
    | O => []          (* a block still delayed here is never transposed *)
    | S c =>
        let r := emit del (map (blk dr dc sr sc I) (seq js (whole - js))) in
        fst r ++
        (if crem =? 0 then []
         else [Single Kd64xlt64 {| da := dr + 64 * whole; db := dc + 64 * I; sa := sr + 64 * I; sb := sc + 64 * whole;
                                   rh := crem; rw := 64 |}]) ++
        rowloop c (S I) 0 whole crem (snd r)
    end.

  (** _mzd_transpose_base (mzd.c:960) *)
  Definition base_sched (nrows ncols : nat) : list item :=
    let R := nrows / 64 in
    let whole := ncols / 64 in
    let rrem := nrows mod 64 in
    let crem := ncols mod 64 in
    let js := Nat.testbit ncols 6 && Nat.testbit nrows 6 in          (* ncols & nrows & 64 *)
    if (64 <=? nrows) && js && (Nat.lor nrows ncols =? 64) then       (* mzd.c:989 early return *)
      [Single Kd64 (blk dr dc sr sc 0 0)]
    else
      (if 64 <=? nrows then
         (if js then [Single Kd64 (blk dr dc sr sc 0 0)] else []) ++
         rowloop R 0 (if js then 1 else 0) whole crem None
       else []) ++
      (if rrem =? 0 then []                                           (* mzd.c:1047 *)
       else
         map (fun J => Single Kdlt64x64 {| da := dr + 64 * J; db := dc + 64 * R; sa := sr + 64 * R; sb := sc + 64 * J;
                                           rh := 64; rw := rrem |}) (seq 0 whole) ++
         (if crem =? 0 then []                                        (* mzd.c:1060 *)
          else [Single (Kdsmall (Nat.max rrem crem))
                       {| da := dr + 64 * whole; db := dc + 64 * R; sa := sr + 64 * R; sb := sc + 64 * whole;
                          rh := crem; rw := rrem |}])).
End Sched.

(** mzd.c:1071 *)
Definition split_round (n k : nat) : nat := ((n / 2 + (k - 1)) / k) * k.

Definition obind {A B} (o : option A) (f : A -> option B) : option B :=
  match o with Some a => f a | None => None end.

(** _mzd_transpose_notsmall (mzd.c:1076); [fuel] bounds the depth of the recursion (logarithmic, see
    [sched_fuel]); None = out of fuel *)
Fixpoint notsmall_sched (fuel : nat) (dr dc sr sc nrows ncols maxsize : nat) : option (list item) :=
  match fuel with
  | O => None
  | S f =>
      if maxsize <=? 512 then Some (base_sched dr dc sr sc nrows ncols)
      else
        let large := split_round maxsize (if maxsize <=? 768 then 64 else 512) in
        let offset := large / 64 in
        if ncols <=? nrows then
          obind (notsmall_sched f dr dc sr sc large ncols (Nat.max large ncols)) (fun s1 =>
          obind (notsmall_sched f dr (dc + 64 * offset) (sr + large) sc (nrows - large) ncols
                                (Nat.max (nrows - large) ncols)) (fun s2 =>
          Some (s1 ++ s2)))
        else
          obind (notsmall_sched f dr dc sr sc nrows large (Nat.max nrows large)) (fun s1 =>
          obind (notsmall_sched f (dr + large) dc sr (sc + 64 * offset) nrows (ncols - large)
                                (Nat.max nrows (ncols - large))) (fun s2 =>
          Some (s1 ++ s2)))
  end.

Definition sched_fuel (nrows ncols : nat) : nat := Nat.log2_up nrows + Nat.log2_up ncols + 1.

(** _mzd_transpose (mzd.c:1107) with fwd = DST->data, fws = A->data *)
Definition transpose_sched (nrows ncols : nat) : option (list item) :=
  let maxsize := Nat.max nrows ncols in
  if maxsize <? 64 then
    Some [Single (Kdsmall maxsize) {| da := 0; db := 0; sa := 0; sb := 0; rh := ncols; rw := nrows |}]
  else notsmall_sched (sched_fuel nrows ncols) 0 0 0 0 nrows ncols maxsize.

(** how many calls of each kernel a schedule makes (64x64, 64x64_2, lt64x64, 64xlt64, small) — used by the
    non-vacuity examples *)
Definition count_kinds (s : list item) : nat * nat * nat * nat * nat :=
  fold_left (fun c it => match c, it with
    | (a, b, cc, d, e), Single Kd64 _ => (S a, b, cc, d, e)
    | (a, b, cc, d, e), Pair _ _ => (a, S b, cc, d, e)
    | (a, b, cc, d, e), Single Kdlt64x64 _ => (a, b, S cc, d, e)
    | (a, b, cc, d, e), Single Kd64xlt64 _ => (a, b, cc, S d, e)
    | (a, b, cc, d, e), Single (Kdsmall _) _ => (a, b, cc, d, S e)
    end) s (0, 0, 0, 0, 0).

(** * Executing a schedule *)
Section Run.
  Variable K64 : mat -> mat.
  Variable K64_2 : mat -> mat -> mat * mat.
  Variable Klt64x64 K64xlt64 : mat -> mat.
  Variable Ksmall : nat -> mat -> mat.
  Variable A : mat.

  Definition src_block (r : rect) : mat := msub A (sa r) (sb r) (rw r) (rh r).
  Definition put (D : mat) (r : rect) (T : mat) : mat := mpaste D (da r) (db r) T.

  Definition run_kind (k : kind) (B : mat) : mat :=
    match k with
    | Kd64 => K64 B
    | Kdlt64x64 => Klt64x64 B
    | Kd64xlt64 => K64xlt64 B
    | Kdsmall ms => Ksmall ms B
    end.

  Definition apply_item (D : mat) (it : item) : mat :=
    match it with
    | Single k r => put D r (run_kind k (src_block r))
    | Pair r1 r2 =>
        let TT := K64_2 (src_block r1) (src_block r2) in
        put (put D r1 (fst TT)) r2 (snd TT)
    end.

  Definition run_sched (D : mat) (s : list item) : mat := fold_left apply_item s D.

  (** _mzd_transpose into the destination D (nc A x nr A); None only if the recursion ran out of fuel *)
  Definition transpose_into (D : mat) : option mat :=
    option_map (run_sched D) (transpose_sched (nr A) (nc A)).
End Run.

(** mzd_transpose (mzd.c:1121) for 0 < nrows, 0 < ncols and a destination of the right dimensions (the other
    cases are mzd_copy / m4ri_die).  [dangerA]/[dangerD] = mzd_is_dangerous_window of A / DST (a window
    whose words carry foreign bits beyond its last column):
      - dangerous source (mzd.c:1131): transpose S = mzd_copy(NULL, A) instead — the same matrix, in a
        fresh non-window allocation whose excess bits are zero (the kernels read whole words);
      - dangerous destination (mzd.c:1145): transpose into a fresh D = mzd_init and mzd_copy(DST, D)
        (the kernels write whole words). *)
Section Top.
  Variable K64 : mat -> mat.
  Variable K64_2 : mat -> mat -> mat * mat.
  Variable Klt64x64 K64xlt64 : mat -> mat.
  Variable Ksmall : nat -> mat -> mat.

  Definition mzd_transpose_model (dangerA dangerD : bool) (DST A : mat) : option mat :=
    let S := if dangerA then mcopy A else A in
    if dangerD then
      option_map (mcopy_into DST)
                 (transpose_into K64 K64_2 Klt64x64 K64xlt64 Ksmall S (mzero (nr DST) (nc DST)))
    else transpose_into K64 K64_2 Klt64x64 K64xlt64 Ksmall S DST.

  (** DST == NULL: mzd_init(A->ncols, A->nrows), never a window *)
  Definition mzd_transpose_alloc (dangerA : bool) (A : mat) : option mat :=
    mzd_transpose_model dangerA false (mzero (nc A) (nr A)) A.
End Top.
