(* Alg/TrtriRussianProofs.v — C05, the Four-Russians base routine of triangular inversion
   (mzd_trtri_upper_russian, triangular_russian.c:392-470; model Alg/TrtriRussian.v), part 1:

   1. the row-level reference: row j of the result of in-place back substitution is row j of U after
      the PIVOT STEPS i = j+1 .. n-1, step i = "if bit i is set, add row i of U on the columns > i"
      ([pv], [trtri_seq]); algebra of pivot steps (they are linear and leave the low columns alone);
   2. [trtri_seq_ok]: the reference meets the specification [trtri_ok] of Alg/TRSMRecProofs.v, hence
      [trtri_seq_simple]: it IS [trtri_upper_simple] (bit-identical, lower triangle included);
   3. [block_table]: the k pivot steps of a block at p applied to a row y are
      y ^ (xor of the rows W_l selected by the block bits s of y) ^ (s << p), where W_l is row p+l of U
      after the later pivot steps OF THE BLOCK, cut to the columns >= p+l — the content of the
      Four-Russians table of mzd_make_table_trtri after its fix-up loop;
   4. the code book [codebook k] of the model is m4ri_build_code's ([codebook_eq]). *)
From Coq Require Import List NArith Arith Lia Bool.
From M4 Require Import Base.Bits Lin.Mat Lin.MatAlg Lin.Ops Lin.OpsProofs Lin.Spec Lin.Tri
  Alg.Gray Alg.GrayProofs Alg.TRSM Alg.TRSMProofs Alg.TRSMRec Alg.TRSMRecProofs Alg.TrtriRussian.
Import ListNotations.
Local Open Scope nat_scope.

(** * 1. pivot steps *)
(** the part of row i of U right of the diagonal, inside the n columns *)
Definition um (n : nat) (U : mat) (i : nat) : N := N.land (row U i) (colmask (S i) n).
(** the pivot steps a, a+1, .., a+len-1 on a row value ([step] of Alg/TRSMProofs.v) *)
Definition pv (n : nat) (U : mat) (a len : nat) (x : N) : N := fold_left (step (um n U)) (seq a len) x.

(** in-place back substitution, row by row *)
Definition trtri_seq (U : mat) : mat :=
  let n := nr U in mk n (nc U) (map (fun j => pv n U (S j) (n - S j) (row U j)) (seq 0 n)).

Lemma testbit_um n U i j : N.testbit (um n U i) (N.of_nat j) = get U i j && ((S i <=? j) && (j <? n)).
Proof. unfold um, get. now rewrite N.land_spec, testbit_colmask. Qed.

Lemma um_ur_mask n U i : um n U i = ur_mask n U i.
Proof.
  apply bits_ext_nat. intros j. rewrite testbit_um, testbit_ur_mask.
  destruct (get U i j), (Nat.leb_spec (S i) j), (Nat.ltb_spec j (S i)), (Nat.ltb_spec j n); try lia; reflexivity.
Qed.

Lemma bounded_um n U i : bounded n (um n U i).
Proof. apply bounded_land_r, bounded_colmask. Qed.

Lemma um_low n U i j : j <= i -> N.testbit (um n U i) (N.of_nat j) = false.
Proof. intros H. rewrite testbit_um. destruct (Nat.leb_spec (S i) j); [lia|]. apply andb_false_r. Qed.

Lemma step_low n U y k j : j <= k -> N.testbit (step (um n U) y k) (N.of_nat j) = N.testbit y (N.of_nat j).
Proof. intros H. rewrite testbit_step, um_low by assumption. now rewrite andb_false_r, xorb_false_r. Qed.

Lemma step_off m y k : N.testbit y (N.of_nat k) = false -> step m y k = y.
Proof. unfold step. now intros ->. Qed.

Lemma step_lxor m x y k : step m (N.lxor x y) k = N.lxor (step m x k) (step m y k).
Proof.
  unfold step. rewrite N.lxor_spec.
  destruct (N.testbit x (N.of_nat k)), (N.testbit y (N.of_nat k)); cbn [xorb]; apply bits_ext_nat; intros j;
    rewrite ?N.lxor_spec;
    destruct (N.testbit x (N.of_nat j)), (N.testbit y (N.of_nat j)), (N.testbit (m k) (N.of_nat j)); reflexivity.
Qed.

Lemma pv_S n U a len x : pv n U a (S len) x = pv n U (S a) len (step (um n U) x a).
Proof. reflexivity. Qed.

Lemma pv_0 n U a x : pv n U a 0 x = x.
Proof. reflexivity. Qed.

Lemma pv_app n U a l1 l2 x : pv n U a (l1 + l2) x = pv n U (a + l1) l2 (pv n U a l1 x).
Proof. unfold pv. now rewrite seq_app, fold_left_app. Qed.

Lemma pv_last n U a len x : pv n U a (S len) x = step (um n U) (pv n U a len x) (a + len).
Proof. replace (S len) with (len + 1) by lia. rewrite pv_app. reflexivity. Qed.

Lemma pv_low n U : forall len a x j, j <= a -> N.testbit (pv n U a len x) (N.of_nat j) = N.testbit x (N.of_nat j).
Proof.
  induction len as [|len IH]; intros a x j Hj; [reflexivity|].
  rewrite pv_S, IH by lia. apply step_low. assumption.
Qed.

Lemma bounded_pv n U a len x : bounded n x -> bounded n (pv n U a len x).
Proof. apply fold_step_bounded. intros k. apply bounded_um. Qed.

Lemma pv_lxor n U : forall len a x y, pv n U a len (N.lxor x y) = N.lxor (pv n U a len x) (pv n U a len y).
Proof.
  induction len as [|len IH]; intros a x y; [reflexivity|]. now rewrite !pv_S, step_lxor, IH.
Qed.

(** a row without entries from column a on is not touched *)
Lemma pv_fix n U : forall len a x, (forall j, a <= j -> N.testbit x (N.of_nat j) = false) -> pv n U a len x = x.
Proof.
  induction len as [|len IH]; intros a x H; [reflexivity|].
  rewrite pv_S, step_off by (apply H; lia). apply IH. intros j Hj. apply H. lia.
Qed.

(** a row whose first entry from column a on sits at column j >= a + len is not touched either *)
Lemma pv_skip n U : forall len a x, (forall j, a <= j < a + len -> N.testbit x (N.of_nat j) = false) ->
  pv n U a len x = x.
Proof.
  induction len as [|len IH]; intros a x H; [reflexivity|].
  rewrite pv_S, step_off by (apply H; lia). apply IH. intros j Hj. apply H. lia.
Qed.

(** * 2. the reference is the simple model *)
Lemma row_trtri_seq U j : j < nr U -> row (trtri_seq U) j = pv (nr U) U (S j) (nr U - S j) (row U j).
Proof. intros H. unfold trtri_seq. cbn zeta. now rewrite row_mk_map. Qed.

Lemma wf_trtri_seq U : wf U -> nr U = nc U -> wf (trtri_seq U).
Proof.
  intros HU Hsq. unfold trtri_seq. cbn zeta. apply wf_mk_map. intros i Hi.
  rewrite <- Hsq. apply bounded_pv. rewrite Hsq. now apply wf_row_bounded.
Qed.

(** the full elimination of the unit vector e_j: the pivot steps before j do nothing, step j adds the
    off-diagonal part of row j *)
Lemma pv_unit n U j : j < n ->
  pv n U 0 n (2 ^ N.of_nat j) = pv n U (S j) (n - S j) (N.lxor (2 ^ N.of_nat j) (um n U j)).
Proof.
  intros Hj. replace (pv n U 0 n (2 ^ N.of_nat j)) with (pv n U 0 (j + S (n - S j)) (2 ^ N.of_nat j))
    by (f_equal; lia).
  rewrite pv_app. cbn [Nat.add].
  rewrite (pv_skip n U j 0 (2 ^ N.of_nat j)).
  - rewrite pv_S. f_equal. unfold step. now rewrite testbit_pow2_nat, Nat.eqb_refl.
  - intros i Hi. rewrite testbit_pow2_nat. destruct (Nat.eqb_spec j i); [lia|reflexivity].
Qed.

Theorem trtri_seq_ok n U : wf U -> nr U = n -> nc U = n -> diag_ones n U -> trtri_ok n U (trtri_seq U).
Proof.
  intros HU Hr Hc Hd.
  assert (HV : wf (trtri_seq U)) by (apply wf_trtri_seq; [assumption|congruence]).
  (* row j of the stored matrix = low garbage + e_j + off-diagonal part *)
  assert (Hsplit : forall j, j < n -> row U j =
            N.lxor (N.land (row U j) (N.ones (N.of_nat j))) (N.lxor (2 ^ N.of_nat j) (um n U j))).
  { intros j Hj. apply bits_ext_nat. intros q.
    rewrite !N.lxor_spec, N.land_spec, testbit_ones_nat, testbit_pow2_nat, testbit_um. unfold get.
    pose proof (wf_row_bounded U j HU q) as Hb. rewrite Hc in Hb. pose proof (Hd j Hj) as Hdj. unfold get in Hdj.
    destruct (Nat.ltb_spec q j), (Nat.eqb_spec j q), (Nat.leb_spec (S j) q), (Nat.ltb_spec q n); try lia;
      subst; rewrite ?Hdj, ?Hb by lia; cbn; rewrite ?andb_true_r, ?andb_false_r, ?xorb_false_r, ?xorb_false_l;
      try reflexivity; destruct (N.testbit (row U j) (N.of_nat q)); reflexivity. }
  assert (Hrow : forall j, j < n -> row (trtri_seq U) j =
            N.lxor (N.land (row U j) (N.ones (N.of_nat j))) (pv n U 0 n (2 ^ N.of_nat j))).
  { intros j Hj. rewrite row_trtri_seq by lia. rewrite Hr. rewrite (Hsplit j Hj) at 1.
    rewrite pv_lxor, pv_unit by assumption. f_equal. apply pv_fix.
    intros q Hq. rewrite N.land_spec, testbit_ones_nat. destruct (Nat.ltb_spec q j); [lia|apply andb_false_r]. }
  (* X = the rows of the full elimination of the identity = the inverse *)
  set (X := mk n n (map (fun j => pv n U 0 n (2 ^ N.of_nat j)) (seq 0 n))).
  assert (HX : wf X) by (apply wf_mk_map; intros i Hi; apply bounded_pv, bounded_pow2, Hi).
  assert (EX : X = upper_inv n U).
  { destruct (upper_inv_spec n U) as ((HwW & HrW & HcW & _) & _ & E2).
    apply (trsm_unique_upper_right n U); auto. rewrite E2.
    apply mat_ext; auto with wf.
    intros i j Hi Hj. cbn [nr nc mmul X] in Hi, Hj. unfold get. rewrite row_mmul.
    unfold X at 1. rewrite row_mk_map by assumption.
    unfold pv. rewrite <- (fold_elim_step (um n U)).
    replace (map (fun k => (N.of_nat k, um n U k)) (seq 0 n)) with (ur_steps n U)
      by (unfold ur_steps; apply map_ext; intros k; now rewrite um_ur_mask).
    rewrite ur_row_solves by (apply bounded_pow2; assumption). now rewrite row_mid. }
  refine (conj HV (conj _ (conj _ (conj _ _)))).
  - unfold trtri_seq. cbn [nr]. assumption.
  - unfold trtri_seq. cbn [nc]. assumption.
  - intros i j Hji. destruct (Nat.lt_ge_cases i n) as [Hi|Hi].
    + unfold get. rewrite row_trtri_seq by lia. apply pv_low. lia.
    + rewrite !get_out_row; auto; try lia. unfold trtri_seq. cbn [nr]. lia.
  - rewrite <- EX. rewrite unit_upper_masks. unfold X. f_equal. apply map_ext_in. intros j Hj. apply in_seq in Hj.
    rewrite <- um_ur_mask. unfold um. rewrite (Hrow j) by lia.
    set (Y := pv n U 0 n (2 ^ N.of_nat j)).
    assert (HYb : bounded n Y) by (apply bounded_pv, bounded_pow2; lia).
    assert (HYlow : forall q, q <= j -> N.testbit Y (N.of_nat q) = (j =? q)).
    { intros q Hq. unfold Y. rewrite pv_unit by lia. rewrite pv_low by lia.
      rewrite N.lxor_spec, um_low by assumption. now rewrite xorb_false_r, testbit_pow2_nat. }
    apply bits_ext_nat. intros q.
    rewrite N.lor_spec, N.land_spec, N.lxor_spec, N.land_spec, testbit_ones_nat, testbit_colmask, testbit_pow2_nat.
    destruct (Nat.le_gt_cases q j) as [Hq|Hq].
    + rewrite HYlow by assumption. destruct (Nat.leb_spec (S j) q); [lia|]. cbn [andb]. now rewrite andb_false_r, orb_false_r.
    + destruct (Nat.eqb_spec j q); [lia|]. destruct (Nat.ltb_spec q j); [lia|]. destruct (Nat.leb_spec (S j) q); [|lia].
      cbn [orb andb]. rewrite andb_false_r, xorb_false_l.
      destruct (Nat.ltb_spec q n); [apply andb_true_r|]. rewrite HYb by assumption. apply andb_false_r.
Qed.

Theorem trtri_seq_simple n U : wf U -> nr U = n -> nc U = n -> diag_ones n U ->
  trtri_seq U = trtri_upper_simple U.
Proof.
  intros HU Hr Hc Hd. apply (trtri_ok_unique n U).
  - now apply trtri_seq_ok.
  - now apply trtri_upper_simple_ok.
Qed.

(** * 3. the table of a block *)
From Coq Require Import Btauto.

Ltac xor_solve :=
  apply bits_ext_nat; let j := fresh "j" in intros j; rewrite ?N.lxor_spec, ?N.bits_0; btauto.

(** row p+l of U after the later pivot steps of the block [p, p+k), cut to the columns >= p+l *)
Definition wrow (n : nat) (U : mat) (p k l : nat) : N :=
  N.land (pv n U (S (p + l)) (k - S l) (row U (p + l))) (colmask (p + l) n).
Definition wrows (n : nat) (U : mat) (p k : nat) : list N := map (wrow n U p k) (seq 0 k).

Lemma wrows_length n U p k : length (wrows n U p k) = k.
Proof. unfold wrows. now rewrite map_length, seq_length. Qed.

Lemma wrows_S n U p k : wrows n U p (S k) = wrow n U p (S k) 0 :: wrows n U (S p) k.
Proof.
  unfold wrows. cbn [seq map]. f_equal. rewrite <- seq_shift, map_map. apply map_ext. intros l.
  unfold wrow. replace (p + S l) with (S p + l) by lia. reflexivity.
Qed.

Lemma bounded_wrow n U p k l : bounded n (wrow n U p k l).
Proof. apply bounded_land_r, bounded_colmask. Qed.

(** the block bits of a row *)
Definition bbits (p k : nat) (y : N) : N := N.land (N.shiftr y (N.of_nat p)) (N.ones (N.of_nat k)).

Lemma testbit_bbits p k y j : N.testbit (bbits p k y) (N.of_nat j) = N.testbit y (N.of_nat (j + p)) && (j <? k).
Proof. unfold bbits. now rewrite N.land_spec, testbit_shiftr_nat, testbit_ones_nat. Qed.

Lemma bbits_lxor p k x y : bbits p k (N.lxor x y) = N.lxor (bbits p k x) (bbits p k y).
Proof. unfold bbits. now rewrite N.shiftr_lxor, land_lxor_distr_r. Qed.

Lemma bbits_0 p y : bbits p 0 y = 0%N.
Proof. unfold bbits. change (N.ones (N.of_nat 0)) with 0%N. apply N.land_0_r. Qed.

Lemma bbits_odd p k y : N.odd (bbits p (S k) y) = N.testbit y (N.of_nat p).
Proof.
  rewrite <- N.bit0_odd. change 0%N with (N.of_nat 0). rewrite testbit_bbits. cbn [Nat.add].
  destruct (Nat.ltb_spec 0 (S k)); [apply andb_true_r|lia].
Qed.

Lemma bbits_div2 p k y : N.div2 (bbits p (S k) y) = bbits (S p) k y.
Proof.
  apply bits_ext_nat. intros j. rewrite testbit_div2_nat, !testbit_bbits.
  replace (S j + p) with (j + S p) by lia.
  destruct (Nat.ltb_spec (S j) (S k)), (Nat.ltb_spec j k); try lia; reflexivity.
Qed.

Lemma shiftl_odd_div2 s p :
  N.shiftl s (N.of_nat p) =
  N.lxor (if N.odd s then 2 ^ N.of_nat p else 0)%N (N.shiftl (N.div2 s) (N.of_nat (S p))).
Proof.
  apply bits_ext_nat. intros j. rewrite N.lxor_spec, !testbit_shiftl_nat, testbit_div2_nat.
  assert (Hb : N.testbit (if N.odd s then 2 ^ N.of_nat p else 0)%N (N.of_nat j) = N.odd s && (p =? j)).
  { destruct (N.odd s); [apply testbit_pow2_nat|apply N.bits_0]. }
  rewrite Hb. destruct (Nat.leb_spec p j), (Nat.leb_spec (S p) j), (Nat.eqb_spec p j); try lia; cbn [andb].
  - replace (S (j - S p)) with (j - p) by lia. now rewrite andb_false_r, xorb_false_l.
  - subst j. rewrite Nat.sub_diag. change (N.of_nat 0) with 0%N. rewrite N.bit0_odd. now rewrite andb_true_r, xorb_false_r.
Qed.

(** the value added to a row with block bits [s] by the (fixed) table of the block *)
Definition tval (n : nat) (U : mat) (p k : nat) (s : N) : N :=
  N.lxor (mul_row s (wrows n U p k)) (N.shiftl s (N.of_nat p)).

Lemma tval_lxor n U p k a b : tval n U p k (N.lxor a b) = N.lxor (tval n U p k a) (tval n U p k b).
Proof. unfold tval. rewrite mul_row_lxor, N.shiftl_lxor. xor_solve. Qed.

(** the first table row of a block: e_p plus the eliminated off-diagonal part of row p *)
Lemma wrow_0 n U p k : wf U -> nc U = n -> diag_ones n U -> p < n ->
  wrow n U p (S k) 0 = N.lxor (2 ^ N.of_nat p) (pv n U (S p) k (um n U p)).
Proof.
  intros HU Hc Hd Hp. unfold wrow. rewrite Nat.add_0_r. replace (S k - 1) with k by lia.
  apply bits_ext_nat. intros j. rewrite N.land_spec, N.lxor_spec, testbit_colmask, testbit_pow2_nat.
  assert (Hb : bounded n (pv n U (S p) k (row U p))) by (apply bounded_pv; rewrite <- Hc; now apply wf_row_bounded).
  assert (Hb' : bounded n (pv n U (S p) k (um n U p))) by apply bounded_pv, bounded_um.
  destruct (Nat.lt_ge_cases j n) as [Hjn|Hjn].
  2:{ rewrite Hb, Hb' by assumption. destruct (Nat.eqb_spec p j); [lia|reflexivity]. }
  destruct (Nat.le_gt_cases j p) as [Hjp|Hjp].
  - rewrite !pv_low by lia. rewrite um_low by assumption. rewrite xorb_false_r.
    destruct (Nat.eqb_spec p j) as [<-|Hne].
    + pose proof (Hd p Hp) as E. unfold get in E. rewrite E.
      destruct (Nat.leb_spec p p), (Nat.ltb_spec p n); try lia; reflexivity.
    + destruct (Nat.leb_spec p j); [lia|]. apply andb_false_r.
  - destruct (Nat.leb_spec p j); [|lia]. destruct (Nat.ltb_spec j n); [|lia]. cbn [andb]. rewrite andb_true_r.
    destruct (Nat.eqb_spec p j); [lia|]. cbn [xorb].
    (* row U p = (row U p minus um) xor um; the first part has no entry right of p *)
    assert (E : row U p = N.lxor (N.lxor (row U p) (um n U p)) (um n U p)) by xor_solve.
    rewrite E at 1. rewrite pv_lxor, N.lxor_spec. rewrite (pv_fix n U k (S p) (N.lxor (row U p) (um n U p))).
    + rewrite N.lxor_spec, testbit_um. unfold get.
      destruct (Nat.leb_spec (S p) j); [|lia]. destruct (Nat.ltb_spec j n); [|lia]. cbn [andb]. rewrite andb_true_r.
      rewrite xorb_nilpotent, xorb_false_l. now destruct (N.testbit (pv n U (S p) k (um n U p)) (N.of_nat j)).
    + intros q Hq. rewrite N.lxor_spec, testbit_um. unfold get.
      destruct (Nat.leb_spec (S p) q); [|lia]. cbn [andb].
      destruct (Nat.ltb_spec q n); [rewrite andb_true_r; apply xorb_nilpotent|].
      pose proof (wf_row_bounded U p HU q) as Hq'. rewrite Hc in Hq'. rewrite Hq' by assumption. reflexivity.
Qed.

(** the k pivot steps of the block at p = one table look-up *)
Theorem block_table n U : wf U -> nc U = n -> diag_ones n U ->
  forall k p y, p + k <= n -> pv n U p k y = N.lxor y (tval n U p k (bbits p k y)).
Proof.
  intros HU Hc Hd. induction k as [|k IH]; intros p y Hpk.
  - rewrite bbits_0. unfold tval. rewrite mul_row_0, N.shiftl_0_l. cbn. xor_solve.
  - rewrite pv_S.
    assert (Hw0 := wrow_0 n U p k HU Hc Hd ltac:(lia)).
    (* the table value of the whole block in terms of the table of the block at p+1 *)
    assert (Et : tval n U p (S k) (bbits p (S k) y) =
                 N.lxor (if N.testbit y (N.of_nat p) then pv n U (S p) k (um n U p) else 0%N)
                        (tval n U (S p) k (bbits (S p) k y))).
    { unfold tval at 1. rewrite wrows_S. cbn [mul_row]. rewrite bbits_odd, bbits_div2.
      rewrite (shiftl_odd_div2 (bbits p (S k) y) p), bbits_odd, bbits_div2.
      unfold tval. rewrite Hw0. destruct (N.testbit y (N.of_nat p)); xor_solve. }
    rewrite Et. unfold step. destruct (N.testbit y (N.of_nat p)) eqn:Ey.
    + rewrite pv_lxor. rewrite (IH (S p) y) by lia. xor_solve.
    + rewrite (IH (S p) y) by lia. xor_solve.
Qed.

(** * 4. the code book *)
Lemma nseq_map : forall n a, nseq n (N.of_nat a) = map N.of_nat (seq a n).
Proof.
  induction n as [|n IH]; intros a; [reflexivity|]. cbn [nseq seq map]. f_equal.
  rewrite <- Nat2N.inj_succ. apply IH.
Qed.

Theorem codebook_eq k : codebook k = build_code k.
Proof.
  rewrite build_code_fast_eq. unfold codebook, build_code_fast. change 0%N with (N.of_nat 0).
  rewrite nseq_map, !map_map. f_equal. apply map_ext. intros p. now rewrite Nat2N.inj_succ.
Qed.

Lemma codebook_ok k : cb_ok k (codebook k).
Proof. rewrite codebook_eq. apply codebook_ok_all. Qed.
