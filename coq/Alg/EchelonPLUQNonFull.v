(* Alg/EchelonPLUQNonFull.v — the NON-reduced branch of mzd_echelonize_pluq
   (/repo/m4ri/echelonform.c:100-137, model [echelon_pluq_nonfull] of Alg/EchelonPLUQ.v) returns a row
   echelon form of A on the pivot columns Q[0..r), row equivalent to A, with r = rank A.

   The C code reads the result ((r, A'), (P, Q)) of mzd_ple WITHOUT undoing the compression of L
   (no mzd_apply_p_right_trans_tri): for i < r it clears the columns 0..i of row i of A', writes a one
   at (i, Q[i]) and zeroes the rows >= r.  The specification [ple_spec] speaks about
   S = apply_p_right_trans_tri A' Q; its client lemma [ple_echelon] (Alg/PLEProofs5.v) gives the echelon
   form E = (U of S) with the column swaps Q undone.  Here: the matrix written by the C code IS that E
   ([nonfull_is_Epad]); the stored entries of A' that the two readings treat differently are all zero,
   forced by the echelon shape ([stored_zero]). *)
From Coq Require Import List NArith Arith Lia Bool Sorted ZArith ZifyBool ZifyNat ZifyN.
From M4 Require Import Base.Bits Lin.Mat Lin.MatAlg Lin.Ops Lin.OpsProofs Lin.Spec Lin.Span Lin.Echelon
                       Lin.Perm Lin.Tri Alg.Gauss Alg.GaussProofs Alg.PLE Alg.PLELemmas
                       Alg.PLESpec Alg.PLEProofs Alg.PLEProofs3 Alg.PLEProofs5 Alg.TRSM Alg.EchelonPLUQ
                       Alg.GaussRef Alg.Gray Alg.M4RI Alg.M4RIProofs Alg.M4RINonFull.
Import ListNotations.
Local Open Scope nat_scope.

(** * 1. index maps of LAPACK swap sequences: generic facts *)
Lemma pi_gt q ts i j : (forall t, In t ts -> i < t /\ i < q t) -> i < j -> i < pi q ts j.
Proof.
  induction ts as [|t ts IH]; intros H Hj; cbn [pi]; [assumption|].
  destruct (H t) as [Ht Hq]; [now left|].
  apply (swapn_ge t (q t) _ (S i)); try lia. apply IH; [intros; apply H; now right|assumption].
Qed.
Lemma pi_inv_gt q ts i j : (forall t, In t ts -> i < t /\ i < q t) -> i < j -> i < pi_inv q ts j.
Proof.
  revert j; induction ts as [|t ts IH]; intros j H Hj; cbn [pi_inv]; [assumption|].
  destruct (H t) as [Ht Hq]; [now left|].
  apply IH; [intros; apply H; now right|]. apply (swapn_ge t (q t) _ (S i)); lia.
Qed.

(** the swaps 0..k-1 applied (in decreasing order) to an index >= k never increase it *)
Lemma pi_seq_le q k y : k <= y -> pi q (seq 0 k) y <= y.
Proof.
  revert y; induction k as [|k IH]; intros y Hy; [cbn; lia|].
  rewrite seq_S, pi_app. cbn [Nat.add pi]. unfold swapn at 1.
  destruct (Nat.eqb_spec y k); [lia|]. destruct (Nat.eqb_spec y (q k)).
  - specialize (IH k ltac:(lia)). lia.
  - apply IH. lia.
Qed.

Section SwapFacts.
  Variables (q : nat -> nat) (n r : nat).
  Hypothesis Hrn : r <= n.
  Hypothesis Hge : forall t, t < n -> t <= q t < n.
  Hypothesis Hinc : forall s s', s < s' -> s' < r -> q s < q s'.

  (** (F4) the swaps > i fix the positions <= i and keep the others > i *)
  Lemma tail_fix i j : j <= i -> pi q (seq (S i) (n - S i)) j = j.
  Proof.
    intros Hj. apply pi_fix. intros t Ht. apply in_seq in Ht. pose proof (Hge t ltac:(lia)). lia.
  Qed.
  Lemma tail_gt i j : i < j -> i < pi q (seq (S i) (n - S i)) j.
  Proof.
    intros Hj. apply pi_gt; [|assumption]. intros t Ht. apply in_seq in Ht. pose proof (Hge t ltac:(lia)). lia.
  Qed.
  Lemma tail_inv_gt i j : i < j -> i < pi_inv q (seq (S i) (n - S i)) j.
  Proof.
    intros Hj. apply pi_inv_gt; [|assumption]. intros t Ht. apply in_seq in Ht. pose proof (Hge t ltac:(lia)). lia.
  Qed.
  Lemma tail_lt i j : j < n -> pi q (seq (S i) (n - S i)) j < n.
  Proof. intros Hj. apply pi_lt; [|assumption]. intros t Ht. apply in_seq in Ht. pose proof (Hge t ltac:(lia)). lia. Qed.
  Lemma tail_inv_lt i j : j < n -> pi_inv q (seq (S i) (n - S i)) j < n.
  Proof. intros Hj. apply pi_inv_lt; [|assumption]. intros t Ht. apply in_seq in Ht. pose proof (Hge t ltac:(lia)). lia. Qed.
  Lemma all_inv_lt j : j < n -> pi_inv q (seq 0 n) j < n.
  Proof. intros Hj. apply pi_inv_lt; [|assumption]. intros t Ht. apply in_seq in Ht. pose proof (Hge t ltac:(lia)). lia. Qed.

  (** the full index map splits at S i *)
  Lemma sigma_split i j : i < n ->
    pi q (seq 0 n) j = pi q (seq 0 (S i)) (pi q (seq (S i) (n - S i)) j).
  Proof.
    intros Hi. rewrite <- pi_app, <- seq_app. do 2 f_equal. lia.
  Qed.

  (** (F2) an index > i that is no pivot q s, s <= i, is not touched by the swaps 0..i *)
  Lemma head_fix i x : i < x -> (forall s, s <= i -> x <> q s) -> pi q (seq 0 (S i)) x = x.
  Proof.
    intros Hx Hne. apply pi_fix. intros t Ht. apply in_seq in Ht. split; [lia|apply Hne; lia].
  Qed.

  (** (F1) a pivot column q t > i (t <= i) is sent to a position <= t *)
  Lemma head_pivot i t : i < r -> t <= i -> i < q t ->
    pi q (seq 0 (S i)) (q t) = pi q (seq 0 t) t /\ pi q (seq 0 t) t <= t.
  Proof.
    intros Hi Ht Hq. split; [|apply pi_seq_le; lia].
    replace (seq 0 (S i)) with (seq 0 t ++ [t] ++ seq (S t) (i - t)).
    2:{ change ([t] ++ seq (S t) (i - t)) with (seq t (S (i - t))).
        rewrite <- seq_app. f_equal. lia. }
    rewrite !pi_app. rewrite (pi_fix q (seq (S t) (i - t)) (q t)).
    - cbn [pi]. now rewrite swapn_r.
    - intros s Hs. apply in_seq in Hs. pose proof (Hinc t s ltac:(lia) ltac:(lia)). lia.
  Qed.

  Lemma pivot_dec i x : {s | s <= i /\ x = q s} + {forall s, s <= i -> x <> q s}.
  Proof.
    induction i as [|i IH].
    - destruct (Nat.eq_dec x (q 0)) as [E|E]; [left; exists 0; split; [lia|assumption]|].
      right. intros s Hs. replace s with 0 by lia. assumption.
    - destruct IH as [[s [Hs E]]|H]; [left; exists s; split; [lia|assumption]|].
      destruct (Nat.eq_dec x (q (S i))) as [E|E]; [left; exists (S i); split; [lia|assumption]|].
      right. intros s Hs. destruct (Nat.eq_dec s (S i)) as [->|]; [assumption|apply H; lia].
  Qed.
End SwapFacts.

(** * 2. the matrix written by echelonform.c:108-124 is the echelon factor of [ple_echelon] *)
(** entry (i, c), i < r, of the C result: the pivot, or the stored entry strictly right of column i *)
Definition nonfull_entry (A' : mat) (Q : list nat) (i c : nat) : bool :=
  (c =? nth i Q 0) || ((i <? c) && get A' i c).

Section NonFull.
  Variables (A : mat) (r : nat) (A' : mat) (P Q : list nat).
  Hypothesis HA : wf A.
  Hypothesis Hs : plu_struct A r A' P Q.
  Let T := apply_p_right_trans_tri A' Q.
  Hypothesis Hrec : plu_recon A r T P Q.
  Let n := nc A.
  Let q := fun k => nth k Q 0.
  Let U := plu_U A r T.
  Let E0 := plu_E A r T Q.
  Let E := plu_Epad A r T Q.
  Let sigma := pi q (seq 0 n).

  Let Hrn : r <= n := plu_r_le_nc _ _ _ _ _ Hs.
  Let Hrm : r <= nr A := plu_r_le_nr _ _ _ _ _ Hs.
  Let HlQ : length Q = n := plu_len_Q _ _ _ _ _ Hs.
  Let Hnr' : nr A' = nr A := plu_nr _ _ _ _ _ Hs.
  Let Hnc' : nc A' = nc A := plu_nc _ _ _ _ _ Hs.
  Let HA' : wf A' := plu_wf _ _ _ _ _ Hs.

  Let Hge : forall t, t < n -> t <= q t < n.
  Proof. intros t Ht. apply (plu_lapack_Q _ _ _ _ _ Hs). now rewrite HlQ. Qed.
  Let Hinc : forall s s', s < s' -> s' < r -> q s < q s'.
  Proof. apply (pe_q_inc _ _ _ _ _ Hs). Qed.

  Lemma nf_get_U i j : i < r -> i < j -> j < n ->
    get U i j = get A' i (pi q (seq (S i) (n - S i)) j).
  Proof.
    intros Hi Hij Hj. unfold U, plu_U. rewrite get_unit_upper_rect. fold n.
    destruct (Nat.ltb_spec i r); [|lia]. destruct (Nat.ltb_spec j n); [|lia].
    destruct (Nat.eqb_spec i j); [lia|]. destruct (Nat.ltb_spec i j); [|lia]. cbn [andb orb].
    unfold T. rewrite get_tri by (rewrite ?Hnr', ?Hnc'; fold n; lia). rewrite Hnc'. reflexivity.
  Qed.

  (** (Z) the stored entries the C code keeps but the specification's reading moves away are zero *)
  Lemma stored_zero i t : i < r -> t <= i -> i < q t -> get A' i (q t) = false.
  Proof.
    intros Hi Ht Hq.
    pose proof (Hge t ltac:(lia)) as Hqt.
    set (j0 := pi_inv q (seq (S i) (n - S i)) (q t)).
    assert (H1 : i < j0) by (apply (tail_inv_gt q n r Hrn Hge Hinc); assumption).
    assert (H2 : j0 < n) by (apply (tail_inv_lt q n r Hrn Hge Hinc); lia).
    assert (E1 : pi q (seq (S i) (n - S i)) j0 = q t) by apply pi_pi_inv.
    rewrite <- E1, <- nf_get_U by assumption.
    unfold U. rewrite (pe_get_U A r A' T P Q Hs). fold n q.
    rewrite (sigma_split q n r Hrn Hge Hinc i j0) by lia. rewrite E1.
    destruct (head_pivot q n r Hrn Hge Hinc i t Hi Ht Hq) as [E2 Hle]. rewrite E2.
    set (c0 := pi q (seq 0 t) t) in *.
    assert (Hc0 : c0 < q i).
    { destruct (Nat.eq_dec t i) as [->|Hne]; [lia|]. pose proof (Hge i ltac:(lia)). lia. }
    pose proof (pe_before A r A' T P Q HA Hs Hrec i c0 Hi Hc0) as HB.
    rewrite (pe_get_E A r A' T P Q Hs) in HB.
    destruct (Nat.ltb_spec i r); [exact HB|lia].
  Qed.

  (** the C result read through the column swaps is U *)
  Lemma nf_key i j : i < r -> j < n -> nonfull_entry A' Q i (sigma j) = get U i j.
  Proof.
    intros Hi Hj. unfold nonfull_entry. fold (q i).
    pose proof (Hge i ltac:(lia)) as Hqi.
    assert (Hpiv : forall k, k < r -> sigma k = q k) by (intros k Hk; apply (pe_pi_piv A r A' P Q Hs k Hk)).
    assert (HUd : forall j', j' <= i -> get U i j' = (i =? j')).
    { intros j' Hj'. unfold U, plu_U. rewrite get_unit_upper_rect. fold n.
      destruct (Nat.ltb_spec i r); [|lia]. destruct (Nat.ltb_spec j' n); [|lia].
      destruct (Nat.eqb_spec i j'); [reflexivity|]. destruct (Nat.ltb_spec i j'); [lia|reflexivity]. }
    destruct (Nat.lt_trichotomy j i) as [Hlt|[->|Hgt]].
    - (* j < i *)
      rewrite HUd by lia. rewrite Hpiv by lia.
      pose proof (Hinc j i Hlt Hi).
      destruct (Nat.eqb_spec (q j) (q i)); [lia|]. destruct (Nat.eqb_spec i j); [lia|]. cbn [orb].
      destruct (Nat.ltb_spec i (q j)); [|reflexivity]. cbn [andb].
      apply stored_zero; lia.
    - (* j = i *)
      rewrite HUd by lia. rewrite Hpiv by lia. now rewrite !Nat.eqb_refl.
    - (* j > i *)
      rewrite nf_get_U by assumption. unfold sigma. rewrite (sigma_split q n r Hrn Hge Hinc i j) by lia.
      set (j' := pi q (seq (S i) (n - S i)) j).
      assert (H1 : i < j') by (apply (tail_gt q n r Hrn Hge Hinc); assumption).
      destruct (pivot_dec q n r Hrn Hge Hinc i j') as [[t [Ht Et]]|Hno].
      + assert (Hq : i < q t) by lia.
        rewrite Et. rewrite stored_zero by assumption.
        destruct (head_pivot q n r Hrn Hge Hinc i t Hi Ht Hq) as [E2 Hle]. rewrite E2.
        set (c0 := pi q (seq 0 t) t) in *.
        destruct (Nat.eqb_spec c0 (q i)); [|destruct (Nat.ltb_spec i c0); [lia|reflexivity]].
        destruct (Nat.eq_dec t i) as [->|Hne]; [lia|]. lia.
      + rewrite (head_fix q n r Hrn Hge Hinc i j' H1 Hno).
        destruct (Nat.eqb_spec j' (q i)) as [E1|_]; [exfalso; apply (Hno i); [lia|exact E1]|].
        destruct (Nat.ltb_spec i j'); [reflexivity|lia].
  Qed.

  (** hence entrywise equal to the echelon factor E0 = U with the column swaps undone *)
  Lemma nf_entry_E0 i c : i < r -> c < n -> nonfull_entry A' Q i c = get E0 i c.
  Proof.
    intros Hi Hc.
    pose proof (all_inv_lt q n r Hrn Hge Hinc c Hc) as Hj.
    set (j := pi_inv q (seq 0 n) c) in *.
    assert (Ec : sigma j = c) by apply pi_pi_inv.
    rewrite <- Ec. rewrite nf_key by assumption.
    unfold U, E0, sigma. now rewrite (pe_get_U A r A' T P Q Hs).
  Qed.
End NonFull.

(** * 3. the model output at row / entry level *)
Definition nonfull_mat (A' : mat) (Q : list nat) (r : nat) : mat :=
  clear_rows_from
    (map_rows (fun i x => if i <? r
                          then N.lor (N.ldiff x (N.ones (N.of_nat (S i)))) (2 ^ N.of_nat (nth i Q 0))
                          else x) A') r.

Lemma echelon_pluq_nonfull_unfold ple A :
  echelon_pluq_nonfull ple A = let '((r, A'), (P, Q)) := ple A in (r, nonfull_mat A' Q r).
Proof. reflexivity. Qed.

Lemma row_nonfull_mat A' Q r i : wf A' -> r <= nr A' ->
  row (nonfull_mat A' Q r) i =
  if i <? r then N.lor (N.ldiff (row A' i) (N.ones (N.of_nat (S i)))) (2 ^ N.of_nat (nth i Q 0)) else 0%N.
Proof.
  intros HA' Hr. pose proof (wf_len A' HA') as Hl.
  unfold nonfull_mat, clear_rows_from. rewrite nr_map_rows.
  destruct (Nat.eqb_spec r (nr A')) as [E|E].
  - rewrite PLELemmas.row_map_rows. rewrite Hl.
    destruct (Nat.ltb_spec i (nr A')), (Nat.ltb_spec i r); try lia; reflexivity.
  - rewrite PLELemmas.row_map_rows, len_map_rows, Hl.
    destruct (Nat.ltb_spec i (nr A')).
    + rewrite PLELemmas.row_map_rows, Hl. destruct (Nat.ltb_spec i (nr A')); [|lia].
      destruct (Nat.leb_spec r i), (Nat.ltb_spec i r); try lia; reflexivity.
    + destruct (Nat.ltb_spec i r); [lia|reflexivity].
Qed.

Lemma nr_nonfull_mat A' Q r : nr (nonfull_mat A' Q r) = nr A'.
Proof. unfold nonfull_mat, clear_rows_from. now destruct (r =? _). Qed.
Lemma nc_nonfull_mat A' Q r : nc (nonfull_mat A' Q r) = nc A'.
Proof. unfold nonfull_mat, clear_rows_from. now destruct (r =? _). Qed.

Lemma get_nonfull_mat A' Q r i j : wf A' -> r <= nr A' ->
  get (nonfull_mat A' Q r) i j = (i <? r) && nonfull_entry A' Q i j.
Proof.
  intros HA' Hr. unfold get at 1. rewrite row_nonfull_mat by assumption.
  destruct (Nat.ltb_spec i r); cbn [andb]; [|apply N.bits_0].
  rewrite N.lor_spec, N.ldiff_spec, testbit_pow2_nat, testbit_ones_nat. unfold nonfull_entry.
  change (N.testbit (row A' i) (N.of_nat j)) with (get A' i j).
  rewrite (Nat.eqb_sym j). destruct (get A' i j); bsolve.
Qed.

Lemma wf_nonfull_mat A' Q r : wf A' -> r <= nr A' -> (forall i, i < r -> nth i Q 0 < nc A') ->
  wf (nonfull_mat A' Q r).
Proof.
  intros HA' Hr HQ. apply wf_of_rows.
  - rewrite nr_nonfull_mat. unfold nonfull_mat, clear_rows_from.
    destruct (r =? _); rewrite ?len_map_rows; now apply wf_len.
  - intros i. rewrite nc_nonfull_mat, row_nonfull_mat by assumption.
    destruct (Nat.ltb_spec i r); [|apply bounded_0].
    apply bounded_lor; [apply bounded_ldiff; now apply wf_row_bounded|apply bounded_pow2; auto].
Qed.

(** the C result is the padded echelon factor of the specification *)
Theorem nonfull_is_Epad A r A' P Q : wf A -> ple_spec A ((r, A'), (P, Q)) ->
  nonfull_mat A' Q r = plu_Epad A r (apply_p_right_trans_tri A' Q) Q.
Proof.
  intros HA [Hs Hrec].
  destruct (pe_wf_E A r A' (apply_p_right_trans_tri A' Q) P Q Hs) as (HwE & HnrE & HncE).
  pose proof (plu_wf _ _ _ _ _ Hs) as HA'. pose proof (plu_nr _ _ _ _ _ Hs) as Hnr'.
  pose proof (plu_nc _ _ _ _ _ Hs) as Hnc'. pose proof (plu_r_le_nr _ _ _ _ _ Hs) as Hrm.
  apply mat_ext.
  - apply wf_nonfull_mat; [assumption|lia|]. intros i Hi. rewrite Hnc'.
    apply (pe_q_range A r A' P Q Hs i Hi).
  - assumption.
  - rewrite nr_nonfull_mat. congruence.
  - rewrite nc_nonfull_mat. congruence.
  - intros i j Hi Hj. rewrite nc_nonfull_mat, Hnc' in Hj.
    rewrite get_nonfull_mat by (auto; lia). rewrite (pe_get_E A r A' _ P Q Hs).
    destruct (Nat.ltb_spec i r) as [Hir|]; [|reflexivity]. cbn [andb].
    apply (nf_entry_E0 A r A' P Q HA Hs Hrec i j Hir Hj).
Qed.

(** * 4. the main theorem: mzd_echelonize_pluq(A, full = 0) *)
Theorem echelon_pluq_nonfull_spec_d pluq ple trsm A r A' P Q : wf A ->
  ple A = ((r, A'), (P, Q)) -> ple_spec A ((r, A'), (P, Q)) ->
  exists E, echelon_pluq pluq ple trsm false A = (r, E) /\
    r = rank A /\ wf E /\ nr E = nr A /\ nc E = nc A /\ row_equiv A E /\
    is_ref E (firstn r Q) /\ length (firstn r Q) = r.
Proof.
  intros HA Eple Hspec. exists (nonfull_mat A' Q r). split.
  - unfold echelon_pluq. rewrite echelon_pluq_nonfull_unfold, Eple. reflexivity.
  - rewrite (nonfull_is_Epad A r A' P Q HA Hspec).
    destruct (ple_echelon A r A' P Q HA Hspec) as (Hw & Hnr & Hnc & Heq & Href & _).
    destruct Hspec as [Hs _].
    assert (Hlen : length (firstn r Q) = r).
    { rewrite firstn_length, (plu_len_Q _ _ _ _ _ Hs). apply Nat.min_l, (plu_r_le_nc _ _ _ _ _ Hs). }
    splits; auto.
    rewrite <- Hlen at 1. exact (rank_canonical A _ _ HA Href Heq).
Qed.

Theorem echelon_pluq_nonfull_spec pluq ple trsm A : wf A -> ple_spec A (ple A) ->
  let '(r, E) := echelon_pluq pluq ple trsm false A in
  exists Q, r = rank A /\ wf E /\ nr E = nr A /\ nc E = nc A /\ row_equiv A E /\
            is_ref E (firstn r Q) /\ length (firstn r Q) = r.
Proof.
  intros HA Hspec. destruct (ple A) as [[r A'] [P Q]] eqn:Eple.
  destruct (echelon_pluq_nonfull_spec_d pluq ple trsm A r A' P Q HA Eple Hspec) as (E & -> & H).
  exists Q. exact H.
Qed.

Corollary echelon_pluq_nonfull_ref pluq ple trsm A : wf A -> ple_spec A (ple A) ->
  let '(r, E) := echelon_pluq pluq ple trsm false A in
  exists piv, r = length piv /\ r = rank A /\ wf E /\ row_equiv A E /\ is_ref E piv.
Proof.
  intros HA Hspec. pose proof (echelon_pluq_nonfull_spec pluq ple trsm A HA Hspec) as H.
  destruct (echelon_pluq pluq ple trsm false A) as [r E].
  destruct H as (Q & H1 & H2 & _ & _ & H5 & H6 & H7).
  exists (firstn r Q). splits; auto.
Qed.

(** * 5. the runnable instance (naive PLE of Alg/PLE.v, identity P0 Q0 as after mzp_init) *)
Theorem echelon_pluq_run_nonfull_spec A : wf A ->
  let '(r, E) := echelon_pluq_run false A in
  exists Q, r = rank A /\ wf E /\ nr E = nr A /\ nc E = nc A /\ row_equiv A E /\
            is_ref E (firstn r Q) /\ length (firstn r Q) = r.
Proof.
  intros HA. unfold echelon_pluq_run.
  apply (echelon_pluq_nonfull_spec _ (fun A => ple_naive A (seq 0 (nr A)) (seq 0 (nc A)))); [assumption|].
  apply ple_naive_spec; [assumption|apply seq_length..].
Qed.

Corollary echelon_pluq_run_nonfull_ref A : wf A ->
  let '(r, E) := echelon_pluq_run false A in
  exists piv, r = length piv /\ r = rank A /\ wf E /\ row_equiv A E /\ is_ref E piv.
Proof.
  intros HA. unfold echelon_pluq_run.
  apply (echelon_pluq_nonfull_ref _ (fun A => ple_naive A (seq 0 (nr A)) (seq 0 (nc A)))); [assumption|].
  apply ple_naive_spec; [assumption|apply seq_length..].
Qed.

(** non-vacuity: the hypotheses hold (wf A; the runnable PLE meets [ple_spec], checked by [ple_ok])
    and the result is a genuinely NON-reduced echelon form with real column swaps:
    rank 3, pivots Q[0..3) = 0 3 5 of a 4 x 6 matrix, Q = [0;3;5;3;4;5]; stored A' = [45;19;5;0]
    (L compressed into the columns 0..2), output rows 45 = 101101b, 24 = 011000b, 32 = 100000b:
    row 0 keeps its ones above the pivots 3 and 5, the reduced form (full = 1) has 21 there. *)
Example echelon_pluq_nonfull_example :
  let A := mk 4 6 [45; 53; 13; 0]%N in
  wf A /\
  ple_naive A (seq 0 (nr A)) (seq 0 (nc A)) = ((3, mk 4 6 [45; 19; 5; 0]%N), ([0; 1; 2; 3], [0; 3; 5; 3; 4; 5])) /\
  ple_ok A (ple_naive A (seq 0 (nr A)) (seq 0 (nc A))) = true /\
  echelon_pluq_run false A = (3, mk 4 6 [45; 24; 32; 0]%N) /\
  echelon_pluq_run true A = (3, mk 4 6 [21; 24; 32; 0]%N) /\
  echelon_pluq_run false A = gauss_delayed false 0 A /\
  rank A = 3.
Proof. cbv zeta. split; [now apply wfb_spec|]. vm_compute. repeat split. Qed.

(** the 5 x 70 matrix of [echelon_pluq_nonfull_partial] (Alg/EchelonPLUQProofs.v): rank 3 *)
Example echelon_pluq_nonfull_example70 :
  let A := mk 5 70 [0x2000000000000000F1; 0x3; 0x100000000000000005; 0x2000000000000000F2; 0x0]%N in
  wf A /\ ple_ok A (ple_naive A (seq 0 (nr A)) (seq 0 (nc A))) = true /\
  echelon_pluq_run false A =
    (3, mk 5 70 [0x2000000000000000F1; 0x2000000000000000F2; 0x3000000000000000F4; 0; 0]%N) /\
  rank A = 3.
Proof. cbv zeta. split; [now apply wfb_spec|]. vm_compute. repeat split. Qed.

(** For the naive PLE with identity P0 Q0 the result is moreover bit for bit the output of naive
    Gauss: section 8 ([echelon_pluq_run_nonfull_canonical]); it does not follow from [ple_spec] alone
    (P is free), see section 6. *)

(** * 6. the result is canonical as soon as the row permutation obeys the pivot rule
    P A = L E with L unit lower triangular is the relation [lower_rel] of Alg/GaussRef.v; so for EVERY
    PLE routine meeting [ple_spec] whose row interchanges obey the "left-most column, first row" rule,
    mzd_echelonize_pluq(A, 0) returns bit for bit the output of naive Gauss. *)
Lemma lower_rel_unit_lower m L E : length (rows E) <= m -> lower_rel (mmul (unit_lower m L) E) E.
Proof.
  intros Hl i. destruct (Nat.lt_ge_cases i m) as [Hi|Hi].
  - exists (N.land (row L i) (N.ones (N.of_nat i))). split.
    + apply bounded_land_r, bounded_ones.
    + rewrite row_mmul. unfold unit_lower. rewrite row_mk_map by assumption.
      rewrite <- N.lxor_lor.
      * fold (vmul (N.lxor (2 ^ N.of_nat i) (N.land (row L i) (N.ones (N.of_nat i)))) E).
        rewrite vmul_lxor, vmul_pow2. symmetry. apply lxor_cancel_r.
      * apply bits_ext_nat. intros j. rewrite !N.land_spec, testbit_pow2_nat, testbit_ones_nat, N.bits_0.
        destruct (Nat.eqb_spec i j); [|reflexivity]. destruct (Nat.ltb_spec j i); [lia|]. now rewrite andb_false_r.
  - exists 0%N. split; [apply bounded_0|]. rewrite row_mmul. unfold unit_lower.
    rewrite row_mk_map_out by assumption. rewrite mul_row_0, vmul_0. rewrite Span.row_overflow by lia. reflexivity.
Qed.

Theorem echelon_pluq_nonfull_canonical pluq ple trsm A r A' P Q sw : wf A ->
  ple A = ((r, A'), (P, Q)) -> ple_spec A ((r, A'), (P, Q)) ->
  first_row_rule A sw -> apply_swaps sw A = apply_p_left A P ->
  echelon_pluq pluq ple trsm false A = gauss_delayed false 0 A.
Proof.
  intros HA Eple Hspec Hrule Hsw.
  destruct (echelon_pluq_nonfull_spec_d pluq ple trsm A r A' P Q HA Eple Hspec)
    as (E & EE & Hr & HE & Hnr & Hnc & Heq & Href & _).
  rewrite EE, (surjective_pairing (gauss_delayed false 0 A)). f_equal.
  - rewrite gauss_rank by assumption. exact Hr.
  - assert (E = nonfull_mat A' Q r) as ->.
    { unfold echelon_pluq in EE. rewrite echelon_pluq_nonfull_unfold, Eple in EE. now injection EE. }
    apply (ref_canonical A _ sw (firstn r Q)); auto.
    rewrite Hsw. rewrite (nonfull_is_Epad A r A' P Q HA Hspec).
    destruct Hspec as [Hs Hrec].
    rewrite (pe_PA A r A' _ P Q HA Hs Hrec). apply lower_rel_unit_lower.
    destruct (pe_wf_E A r A' (apply_p_right_trans_tri A' Q) P Q Hs) as (Hw & Hn & _).
    rewrite (wf_len _ Hw). fold (plu_Epad A r (apply_p_right_trans_tri A' Q) Q). lia.
Qed.

(** * 7. the density-switching hybrid mzd_echelonize(A, 0) and the agreement of the routes *)
Lemma ech_nonfull_ok_pluq pluq ple trsm : (forall W, wf W -> ple_spec W (ple W)) ->
  ech_nonfull_ok (echelon_pluq pluq ple trsm).
Proof.
  intros Hple W HW. pose proof (echelon_pluq_nonfull_ref pluq ple trsm W HW (Hple W HW)) as H.
  destruct (echelon_pluq pluq ple trsm false W) as [r E]. destruct H as (piv & H1 & _ & H3 & H4 & H5).
  exists piv. cbn [fst snd]. now splits.
Qed.

Theorem mzd_echelonize_nonfull_spec pluq ple trsm k ktop oracle A : 1 <= k ->
  (forall W, wf W -> ple_spec W (ple W)) -> wf A ->
  exists M piv, mzd_echelonize_model pluq ple trsm k ktop oracle false A = Some (length piv, M) /\
                length piv = rank A /\ wf M /\ row_equiv A M /\ is_ref M piv.
Proof.
  intros Hk Hple HA. unfold mzd_echelonize_model. apply m4ri_nonfull_spec; auto.
  now apply ech_nonfull_ok_pluq.
Qed.

Theorem hybrid_run_nonfull_spec k ktop oracle A : 1 <= k -> wf A ->
  exists M piv, hybrid_run k ktop oracle false A = Some (length piv, M) /\
                length piv = rank A /\ wf M /\ row_equiv A M /\ is_ref M piv.
Proof.
  intros Hk HA. unfold hybrid_run. apply m4ri_nonfull_spec; auto.
  unfold echelon_pluq_run. apply ech_nonfull_ok_pluq. intros W HW.
  apply ple_naive_spec; [assumption|apply seq_length..].
Qed.

(** what C02 demands of a non-reduced result: the rank, a row echelon form (strictly increasing pivot
    columns, zero rows last) with the row space of A, which mzd_top_echelonize_m4ri completes to THE
    reduced row echelon form of A *)
Definition ref_result (A : mat) (ktop : nat) (res : nat * mat) : Prop :=
  fst res = rank A /\
  exists piv, length piv = fst res /\ wf (snd res) /\ is_ref (snd res) piv /\ row_equiv A (snd res) /\
              top_run ktop (snd res) = Some (rref A).

Lemma ref_result_intro A ktop M piv : 1 <= ktop -> wf A -> wf M -> is_ref M piv -> row_equiv A M ->
  ref_result A ktop (length piv, M).
Proof.
  intros Hk HA HM Href Heq. split; cbn [fst snd].
  - now apply (rank_canonical A M).
  - exists piv. splits; auto. unfold top_run. rewrite (top_echelonize_spec ktop M piv Hk Href HM). f_equal.
    now destruct (top_reduce_rref A M piv HA HM Href Heq).
Qed.

Theorem nonfull_routes_agree pluq ple trsm k ktop ktop' oracle A : 1 <= k -> 1 <= ktop' ->
  (forall W, wf W -> ple_spec W (ple W)) -> wf A ->
  ref_result A ktop' (gauss_delayed false 0 A) /\
  m4ri_run k false A = Some (gauss_delayed false 0 A) /\
  ref_result A ktop' (echelon_pluq pluq ple trsm false A) /\
  (exists res, mzd_echelonize_model pluq ple trsm k ktop oracle false A = Some res /\
               ref_result A ktop' res).
Proof.
  intros Hk Hk' Hple HA. splits.
  - destruct (gauss_spec_ex false A HA) as (piv & Hr & HM & Heq & Href).
    rewrite (surjective_pairing (gauss_delayed false 0 A)), Hr. now apply ref_result_intro.
  - now apply m4ri_run_nonfull_canonical.
  - pose proof (echelon_pluq_nonfull_ref pluq ple trsm A HA (Hple A HA)) as H.
    destruct (echelon_pluq pluq ple trsm false A) as [r E]. destruct H as (piv & -> & _ & H3 & H4 & H5).
    now apply ref_result_intro.
  - destruct (mzd_echelonize_nonfull_spec pluq ple trsm k ktop oracle A Hk Hple HA)
      as (M & piv & E & _ & HM & Heq & Href).
    exists (length piv, M). split; [assumption|]. now apply ref_result_intro.
Qed.

Example nonfull_routes_agree_example :
  let A := mk 4 6 [45; 53; 13; 0]%N in
  wf A /\ m4ri_run 2 false A = Some (3, mk 4 6 [45; 24; 32; 0]%N) /\
  hybrid_run 1 1 (fun it => it =? 1) false A = Some (3, mk 4 6 [45; 24; 32; 0]%N) /\
  top_run 2 (mk 4 6 [45; 24; 32; 0]%N) = Some (rref A).
Proof. cbv zeta. split; [now apply wfb_spec|]. vm_compute. repeat split. Qed.

(** * 8. the naive PLE model [ple_naive] (_mzd_ple_naive, m4ri/ple.c:223) makes the same row interchanges
    as naive Gauss: its P obeys the pivot rule.  Method: the PLE working matrix M differs from the working
    matrix of naive Gauss only by the L bits it keeps in the pivot columns (entries (i, q_t),
    t < min(i, #pivots)); the loop invariant carries the "cleaned" companion matrix Mc existentially
    together with the invariant [rinv] of Alg/GaussRef.v. *)
From M4 Require Import Base.Bits Lin.Mat Lin.MatAlg Lin.Ops Lin.OpsProofs Lin.Spec Lin.Span Lin.Echelon
  Lin.Observers Lin.Perm Alg.Gauss Alg.GaussProofs Alg.GaussRef Alg.Gray Alg.M4RI Alg.M4RIProofs
  Alg.M4RINonFull Alg.PLE Alg.PLELemmas Alg.PLESpec Alg.PLEProofs Alg.PLEProofs2 Alg.PLEProofs3
  Alg.TRSM Alg.EchelonPLUQ.

(** ** 8.1 membership among the first n pivot columns *)
Definition inpiv (pv : list nat) (n j : nat) : bool :=
  existsb (fun t => j =? nth t pv 0) (seq 0 n).

Lemma inpiv_S pv n j : inpiv pv (S n) j = inpiv pv n j || (j =? nth n pv 0).
Proof.
  unfold inpiv. rewrite seq_S, existsb_app. cbn [existsb Nat.add]. now rewrite orb_false_r.
Qed.

Lemma inpiv_app_le pv x n j : n <= length pv -> inpiv (pv ++ [x]) n j = inpiv pv n j.
Proof.
  induction n as [|n IH]; intros Hn; [reflexivity|].
  rewrite !inpiv_S, IH by lia. now rewrite app_nth1 by lia.
Qed.

Lemma inpiv_app_S pv x j :
  inpiv (pv ++ [x]) (S (length pv)) j = inpiv pv (length pv) j || (j =? x).
Proof.
  rewrite inpiv_S, inpiv_app_le by lia. rewrite app_nth2, Nat.sub_diag by lia. reflexivity.
Qed.

Lemma inpiv_ge pv c n j : (forall k, In k pv -> k < c) -> c <= j -> n <= length pv ->
  inpiv pv n j = false.
Proof.
  intros Hlt Hj. induction n as [|n IH]; intros Hn; [reflexivity|].
  rewrite inpiv_S, IH by lia. cbn [orb].
  assert (nth n pv 0 < c) by (apply Hlt, nth_In; lia).
  destruct (Nat.eqb_spec j (nth n pv 0)); [lia|reflexivity].
Qed.

(** the PLE working matrix with its L bits removed *)
Definition cleanrel (M Mc : mat) (pv : list nat) : Prop :=
  wf Mc /\ nr Mc = nr M /\ nc Mc = nc M /\
  forall i j, get Mc i j = get M i j && negb (inpiv pv (Nat.min i (length pv)) j).

Lemma cleanrel_ge M Mc pv c i j : cleanrel M Mc pv -> (forall k, In k pv -> k < c) -> c <= j ->
  get Mc i j = get M i j.
Proof.
  intros (_ & _ & _ & Hg) Hlt Hj. rewrite Hg, (inpiv_ge pv c) by (auto; lia). apply andb_true_r.
Qed.

(** * 2. explicit steps of [GaussRef.rinv] *)
Lemma rinv_advance A c c' M piv sw : rinv A c M piv sw -> c <= c' ->
  (forall i j, length piv <= i -> c <= j < c' -> get M i j = false) -> rinv A c' M piv sw.
Proof.
  intros [Hg Hlen HBlen Hrel Hrule] Hc Hz. constructor; try assumption.
  now apply (ginv_advance false A c c').
Qed.

Lemma find_row_from_first M s c j : wf M -> s <= j < nr M -> get M j c = true ->
  (forall k, s <= k < j -> get M k c = false) -> find_row_from (rows M) 0 s c = Some j.
Proof.
  intros HM Hj Hg Hmin.
  destruct (find_row_from (rows M) 0 s c) as [j'|] eqn:E.
  - destruct (find_row_Some M s c j' E) as [Hj' [Hg' Hmin']]. f_equal.
    destruct (Nat.lt_trichotomy j' j) as [Hlt|[->|Hgt]]; [|reflexivity|].
    + rewrite Hmin in Hg' by lia. discriminate.
    + rewrite Hmin' in Hg by lia. discriminate.
  - rewrite (find_row_None M s c E j) in Hg by lia. discriminate.
Qed.

Lemma get_eliminate M s c i j : wf M -> (forall k, k < c -> get M s k = false) ->
  get (eliminate false M s c) i j = xorb (get M i j) (elim_cond false M s c i && get M s j).
Proof.
  intros HM Hpz. unfold get at 1. rewrite row_eliminate.
  rewrite (land_colmask_id (nc M) c (row M s)); [|now apply wf_row_bounded|exact Hpz].
  rewrite N.lxor_spec. destruct (elim_cond false M s c i); [reflexivity|now rewrite N.bits_0].
Qed.

Lemma elim_cond_above M s c i : i <= s -> elim_cond false M s c i = false.
Proof.
  intros Hi. unfold elim_cond. cbn [orb]. destruct (Nat.ltb_spec s i); [lia|].
  now rewrite andb_false_r, andb_false_l, andb_false_r.
Qed.

(** the first branch of [GaussRef.rinv_step], with the new state explicit *)
Lemma rinv_pivot A c M piv sw j : rinv A c M piv sw ->
  find_row_from (rows M) 0 (length piv) c = Some j ->
  rinv A (S c) (eliminate false (row_swap M (length piv) j) (length piv) c)
       (piv ++ [c]) (sw ++ [(length piv, j)]).
Proof.
  intros [Hg Hlen HBlen Hrel Hrule] E.
  set (s := length piv) in *. set (B := apply_swaps sw A) in *.
  destruct (find_row_Some M s c j E) as [Hj [Hgj Hminj]].
  pose proof (wf_len M (gi_wf _ _ _ _ _ Hg)) as HlM.
  pose proof (gi_equiv _ _ _ _ _ Hg) as [HnrA _].
  assert (Hlen' : length (piv ++ [c]) = S s) by (rewrite app_length; cbn [length]; unfold s; lia).
  assert (Hj' : s <= j < nr M) by lia.
  destruct (ginv_swap false A c M piv j Hg Hj' Hgj) as [Hg1 Hgs]. fold s in Hg1, Hgs.
  set (M1 := row_swap M s j) in *.
  assert (Hs1 : s < nr M1) by (cbn [nr M1 row_swap set_row]; lia).
  pose proof (ginv_elim false A c M1 piv Hg1 Hs1 Hgs) as Hg2. fold s in Hg2.
  assert (Hpz : forall col, col < c -> get M1 s col = false)
    by (intros col Hcol; apply (gi_zero _ _ _ _ _ Hg1); [unfold s; lia|assumption]).
  constructor.
  + exact Hg2.
  + rewrite app_length, Hlen'. cbn [length]. unfold s. lia.
  + rewrite apply_swaps_app. cbn [fst snd]. fold B.
    rewrite rows_eliminate_length. unfold M1. now rewrite !rows_row_swap_length.
  + rewrite Hlen', apply_swaps_app. cbn [fst snd]. fold B.
    apply (lrel_elim s M1 (row_swap B s j) _ (elim_cond false M1 s c)).
    * intros i. rewrite row_eliminate.
      rewrite (land_colmask_id (nc M1) c (row M1 s));
        [reflexivity|apply wf_row_bounded, (gi_wf _ _ _ _ _ Hg1)|exact Hpz].
    * intros i Hi. unfold elim_cond in Hi. cbn [orb] in Hi.
      apply andb_true_iff in Hi as [_ Hi]. apply andb_true_iff in Hi as [Hi _].
      apply andb_true_iff in Hi as [_ Hi]. now apply Nat.ltb_lt.
    * apply lrel_swap; [lia|lia|assumption|exact Hrel].
  + intros k Hk. rewrite app_length in Hk. cbn [length] in Hk.
    destruct (Nat.eq_dec k (length sw)) as [->|Hne].
    * unfold rule_at. rewrite app_nth2 by lia. rewrite Nat.sub_diag. cbn [nth fst snd].
      rewrite firstn_app, firstn_all, Nat.sub_diag. cbn [firstn]. rewrite app_nil_r. fold B.
      rewrite Hlen. fold s. split; [reflexivity|]. split; [lia|].
      exists c. split; [|split].
      -- apply (not_dep_of_pivot c M B piv j);
           [apply (gi_sorted _ _ _ _ _ Hg)|apply (gi_lt _ _ _ _ _ Hg)|apply (gi_lead _ _ _ _ _ Hg)
           |exact Hrel| |exact Hgj].
         intros col Hcol. apply (gi_zero _ _ _ _ _ Hg); [unfold s in *; lia|assumption].
      -- intros j' Hj''. apply (dep_of_zero s M B j' c Hrel). intros col Hcol.
         destruct (Nat.eq_dec col c) as [->|Hnc]; [now apply Hminj|].
         apply (gi_zero _ _ _ _ _ Hg); [unfold s in *; lia|lia].
      -- intros c' j' Hc' Hj''. apply (dep_of_zero s M B j' c' Hrel). intros col Hcol.
         apply (gi_zero _ _ _ _ _ Hg); [unfold s in *; lia|lia].
    * apply rule_at_app; [lia|]. apply Hrule. lia.
Qed.

(** when the rows below the pivots vanish from column c on, the interchanges made so far are all *)
Lemma rinv_exit A c M piv sw : rinv A c M piv sw ->
  (forall i j, length piv <= i -> c <= j -> get M i j = false) -> first_row_rule A sw.
Proof.
  intros [Hg Hlen HBlen Hrel Hrule] Hz. split; [assumption|].
  intros j c0 Hj. rewrite Hlen. apply (dep_of_zero (length piv) M _ j c0 Hrel).
  intros col _. destruct (Nat.lt_ge_cases col c) as [Hc|Hc].
  - apply (gi_zero _ _ _ _ _ Hg); lia.
  - apply Hz; lia.
Qed.

(** * 3. the loop of [ple_naive] *)
Lemma ple_loop_rule A : wf A -> forall n M P Q t c,
  n = nr A - t -> wf M -> nr M = nr A -> nc M = nc A -> length P = nr A ->
  (exists Mc pv sw, rinv A c Mc pv sw /\ cleanrel M Mc pv /\ length pv = t /\
     (forall k, k < t -> nth k sw (0, 0) = (k, nth k P 0)) /\ t <= nr A) ->
  let '(M', (P', Q'), r) := ple_naive_loop n M P Q t c in
  exists sw, length sw = r /\ r <= nr A /\ length P' = nr A /\ first_row_rule A sw /\
             (forall k, k < r -> nth k sw (0, 0) = (k, nth k P' 0)).
Proof.
  intros HA. induction n as [|n IH]; intros M P Q t c Hn HM Hnr Hnc HP (Mc & pv & sw & HR & HC & Hpv & Hsw & Ht);
    cbn [ple_naive_loop].
  - (* row_pos = nrows *)
    exists sw. pose proof (ri_len _ _ _ _ _ HR) as Hl. splits; auto; [lia|].
    apply (rinv_exit A c Mc pv sw HR). intros i j Hi _.
    destruct HC as (HwC & HnrC & _). apply get_out_row; [assumption|]. lia.
  - pose proof (ri_len _ _ _ _ _ HR) as Hl. pose proof (ri_g _ _ _ _ _ HR) as Hg.
    pose proof (gi_lt _ _ _ _ _ Hg) as Hlt.
    assert (HGE : forall i j, c <= j -> get Mc i j = get M i j)
      by (intros i j Hj; now apply (cleanrel_ge M Mc pv c)).
    destruct (Nat.ltb_spec c (nc M)) as [Hc|Hc].
    2:{ exists sw. splits; auto; [lia|].
        apply (rinv_exit A c Mc pv sw HR). intros i j _ Hj. rewrite HGE by assumption.
        apply get_out_col; [assumption|lia]. }
    destruct (find_pivot_spec M t c HM) as [HN HS].
    destruct (find_pivot M t c) as [[i0 j0]|] eqn:Efp.
    2:{ exists sw. splits; auto; [lia|].
        apply (rinv_exit A c Mc pv sw HR). intros i j Hi Hj. rewrite HGE by assumption.
        apply (proj1 HN eq_refl); lia. }
    destruct (HS i0 j0 eq_refl) as (Hpiv & Hi0 & Hj0 & Hz & Hab). clear HN HS.
    pose proof (wf_len M HM) as HlM.
    destruct HC as (HwC & HnrC & HncC & HgC).
    pose proof (wf_len Mc HwC) as HlC.
    (* the Gauss side: advance to column j0, take row i0 *)
    assert (HR0 : rinv A j0 Mc pv sw).
    { apply (rinv_advance A c j0); [assumption|lia|]. intros i j Hi Hj. rewrite HGE by lia. apply Hz; lia. }
    assert (Efr : find_row_from (rows Mc) 0 (length pv) j0 = Some i0).
    { apply find_row_from_first; [assumption|lia| |].
      - rewrite HGE by lia. exact Hpiv.
      - intros k Hk. rewrite HGE by lia. apply Hab; lia. }
    pose proof (rinv_pivot A j0 Mc pv sw i0 HR0 Efr) as HR1. rewrite Hpv in HR1.
    pose proof (gi_zero _ _ _ _ _ (ri_g _ _ _ _ _ HR0)) as Hzero0.
    set (Mc1 := row_swap Mc t i0) in *.
    assert (HwC1 : wf Mc1) by now apply Span.wf_row_swap.
    assert (HgC1 : forall i j, get Mc1 i j = get Mc (swapn t i0 i) j)
      by (intros i j; apply PLELemmas.get_row_swap; lia).
    assert (Hpz : forall k, k < j0 -> get Mc1 t k = false).
    { intros k Hk. rewrite HgC1, swapn_l. apply Hzero0; lia. }
    (* the PLE side *)
    set (M1 := row_swap M t i0).
    assert (HM1 : wf M1) by now apply Span.wf_row_swap.
    assert (HgM1 : forall i j, get M1 i j = get M (swapn t i0 i) j)
      by (intros i j; apply PLELemmas.get_row_swap; lia).
    change (nc M1) with (nc M).
    destruct (get_elim_guard M1 t j0 (S j0) HM1) as (Hw & Hr & Hcc & Hge); [change (nr M1) with (nr M); lia|].
    change (nc M1) with (nc M) in Hge, Hw, Hr, Hcc |- *. change (nr M1) with (nr M) in Hr.
    set (M2 := if S j0 <? nc M then elim_below M1 t j0 (S j0) else M1) in *.
    apply IH; try assumption.
    + lia.
    + congruence.
    + congruence.
    + now rewrite upd_length.
    + exists (eliminate false Mc1 t j0), (pv ++ [j0]), (sw ++ [(t, i0)]).
      split; [exact HR1|]. split; [|split; [|split]].
      * (* the cleaned matrices correspond *)
        unfold cleanrel. split; [now apply wf_eliminate|]. split; [cbn [nr eliminate map_rows Mc1 row_swap set_row]; lia|].
        split; [cbn [nc eliminate map_rows Mc1 row_swap set_row]; lia|].
        intros i j. rewrite app_length. cbn [length]. rewrite Hpv, Nat.add_1_r.
        rewrite get_eliminate by assumption. rewrite Hge, !HgC1, !HgM1, !swapn_l.
        destruct (lt_eq_lt_dec i t) as [[Hit|Hit]|Hit].
        -- rewrite elim_cond_above by lia. destruct (Nat.ltb_spec t i); [lia|]. cbn [andb].
           rewrite !xorb_false_r, swapn_other by lia. rewrite HgC, Hpv.
           replace (Nat.min i (S t)) with (Nat.min i t) by lia.
           now rewrite inpiv_app_le by lia.
        -- subst i. rewrite elim_cond_above by lia. destruct (Nat.ltb_spec t t); [lia|]. cbn [andb].
           rewrite !xorb_false_r, swapn_l. rewrite HgC, Hpv.
           replace (Nat.min i0 t) with t by lia. replace (Nat.min t (S t)) with t by lia.
           now rewrite inpiv_app_le by lia.
        -- rewrite elim_cond_other by (try right; lia). rewrite HgC1.
           destruct (Nat.ltb_spec t i); [|lia]. cbn [andb].
           replace (Nat.min i (S t)) with (S t) by lia.
           assert (EI : inpiv (pv ++ [j0]) (S t) j = inpiv pv t j || (j =? j0))
             by (rewrite <- Hpv; apply inpiv_app_S).
           rewrite EI.
           set (i' := swapn t i0 i).
           assert (Hi' : t <= i') by (unfold i'; apply swapn_ge; lia).
           rewrite (HGE i' j0) by lia. rewrite !HgC, Hpv.
           replace (Nat.min i' t) with t by lia. replace (Nat.min i0 t) with t by lia.
           destruct (lt_eq_lt_dec j j0) as [[Hj|Hj]|Hj].
           ++ assert (E : get M i0 j && negb (inpiv pv t j) = false).
              { replace t with (Nat.min i0 (length pv)) by lia. rewrite <- HgC. apply Hzero0; lia. }
              rewrite E, andb_false_r, xorb_false_r.
              destruct (Nat.leb_spec (S j0) j); [lia|]. destruct (Nat.eqb_spec j j0); [lia|].
              now rewrite andb_false_r, andb_false_l, xorb_false_r, orb_false_r.
           ++ subst j. rewrite Hpiv, Nat.eqb_refl, orb_true_r. cbn [negb andb]. rewrite andb_false_r.
              apply xorb_nilpotent.
           ++ rewrite (inpiv_ge pv c) by (auto; lia).
              destruct (Nat.leb_spec (S j0) j); [|lia]. destruct (Nat.eqb_spec j j0); [lia|].
              cbn [negb orb]. now rewrite !andb_true_r.
      * rewrite app_length. cbn [length]. lia.
      * intros k Hk. destruct (Nat.eq_dec k t) as [->|Hne].
        -- rewrite app_nth2 by lia. replace (t - length sw) with 0 by lia. cbn [nth].
           now rewrite nth_upd_same by lia.
        -- rewrite app_nth1 by lia. rewrite nth_upd_other by assumption. apply Hsw. lia.
      * lia.
Qed.

(** * 4. LAPACK permutation vector vs list of interchanges *)
Lemma apply_swaps_map (f : nat -> nat) l A :
  apply_swaps (map (fun i => (i, f i)) l) A = fold_left (fun M i => row_swap M i (f i)) l A.
Proof.
  unfold apply_swaps. revert A. induction l as [|a l IH]; intros A; cbn [map fold_left fst snd]; [reflexivity|].
  apply IH.
Qed.

Lemma swaps_as_map (f : nat -> nat) sw r : length sw = r ->
  (forall k, k < r -> nth k sw (0, 0) = (k, f k)) -> sw = map (fun i => (i, f i)) (seq 0 r).
Proof.
  intros Hl H. apply (nth_ext _ _ (0, 0) ((fun i => (i, f i)) 0)).
  - now rewrite map_length, seq_length.
  - intros k Hk. rewrite (map_nth (fun i => (i, f i)) (seq 0 r) 0 k), seq_nth by lia. cbn [Nat.add]. apply H. lia.
Qed.

Lemma fold_row_swap_id (f : nat -> nat) l : forall M, wf M -> (forall i, In i l -> f i = i) ->
  fold_left (fun M i => row_swap M i (f i)) l M = M.
Proof.
  induction l as [|a l IH]; intros M HM H; cbn [fold_left]; [reflexivity|].
  rewrite (H a) by now left. rewrite PLELemmas.row_swap_same by assumption.
  apply IH; [assumption|]. intros i Hi. apply H. now right.
Qed.

Lemma fold_row_swap_wf (f : nat -> nat) l : forall M, wf M ->
  wf (fold_left (fun M i => row_swap M i (f i)) l M).
Proof.
  induction l as [|a l IH]; intros M HM; cbn [fold_left]; [assumption|].
  apply IH. now apply Span.wf_row_swap.
Qed.

Lemma apply_p_left_swaps A P sw r : wf A -> length P = nr A -> length sw = r -> r <= nr A ->
  (forall k, k < r -> nth k sw (0, 0) = (k, nth k P 0)) ->
  apply_swaps sw A = apply_p_left A (fill_id r P).
Proof.
  intros HA HP Hl Hr Hsw. unfold apply_p_left. rewrite fill_id_length, HP, Nat.min_id.
  replace (nr A) with (r + (nr A - r)) at 1 by lia. rewrite seq_app, fold_left_app. cbn [Nat.add].
  rewrite fold_row_swap_id.
  - rewrite <- apply_swaps_map. f_equal. apply swaps_as_map; [assumption|].
    intros k Hk. rewrite Hsw by assumption. f_equal. unfold pval.
    rewrite (nth_indep _ k 0) by (rewrite fill_id_length; lia). rewrite nth_fill_id by lia.
    destruct (Nat.leb_spec r k); [lia|reflexivity].
  - now apply fold_row_swap_wf.
  - intros i Hi. apply in_seq in Hi. unfold pval.
    rewrite (nth_indep _ i 0) by (rewrite fill_id_length; lia). rewrite nth_fill_id by lia.
    destruct (Nat.leb_spec r i); [reflexivity|lia].
Qed.

(** * 5. the row interchanges of [ple_naive] obey the pivot rule *)
Theorem ple_naive_rule A P0 Q0 : wf A -> length P0 = nr A -> length Q0 = nc A ->
  let '((r, A'), (P, Q)) := ple_naive A P0 Q0 in
  exists sw, first_row_rule A sw /\ apply_swaps sw A = apply_p_left A P.
Proof.
  intros HA HP0 HQ0. unfold ple_naive.
  pose proof (ple_loop_rule A HA (nr A) A P0 Q0 0 0 ltac:(lia) HA eq_refl eq_refl HP0) as H.
  destruct (ple_naive_loop (nr A) A P0 Q0 0 0) as [[M [P Q]] r].
  destruct H as (sw & Hl & Hr & HP & Hrule & Hsw).
  - exists A, [], []. split; [now apply rinv_init|]. split; [|split; [reflexivity|split; [|lia]]].
    + unfold cleanrel. splits; auto. intros i j. cbn [length]. rewrite Nat.min_0_r. cbn [inpiv seq existsb negb].
      now rewrite andb_true_r.
    + intros k Hk. lia.
  - exists sw. split; [assumption|]. now apply apply_p_left_swaps.
Qed.

Example ple_naive_rule_hyps : exists (A : mat) (P0 Q0 : list nat), wf A /\ length P0 = nr A /\ length Q0 = nc A /\ nr A = 2.
Proof. exists (mk 2 3 [5%N; 5%N]), [9; 9], [7; 7; 7]. split; [now apply wfb_spec|repeat split]. Qed.

(** mzd_echelonize_pluq(A, 0) with the naive PLE returns bit for bit the output of naive Gauss *)
Theorem echelon_pluq_run_nonfull_canonical A : wf A ->
  echelon_pluq_run false A = gauss_delayed false 0 A.
Proof.
  intros HA. unfold echelon_pluq_run.
  pose proof (ple_naive_spec A (seq 0 (nr A)) (seq 0 (nc A)) HA (seq_length _ _) (seq_length _ _)) as Hspec.
  pose proof (ple_naive_rule A (seq 0 (nr A)) (seq 0 (nc A)) HA (seq_length _ _) (seq_length _ _)) as Hrule.
  destruct (ple_naive A (seq 0 (nr A)) (seq 0 (nc A))) as [[r A'] [P Q]] eqn:E.
  destruct Hrule as (sw & Hrule & Hsw).
  apply (echelon_pluq_nonfull_canonical _ (fun A => ple_naive A (seq 0 (nr A)) (seq 0 (nc A))) _ A r A' P Q sw);
    assumption.
Qed.

Example echelon_pluq_run_nonfull_canonical_example :
  let A := mk 4 6 [45; 53; 13; 0]%N in
  wf A /\ echelon_pluq_run false A = (3, mk 4 6 [45; 24; 32; 0]%N) /\
  gauss_delayed false 0 A = (3, mk 4 6 [45; 24; 32; 0]%N).
Proof. cbv zeta. split; [now apply wfb_spec|]. vm_compute. repeat split. Qed.


(** * 9. the runnable hybrid (M4RI with any switching decisions + naive PLE on the window), non-reduced
    mode: bit for bit the output of naive Gauss *)
Theorem hybrid_run_nonfull_canonical k ktop oracle A : 1 <= k -> wf A ->
  hybrid_run k ktop oracle false A = Some (gauss_delayed false 0 A).
Proof.
  intros Hk HA. unfold hybrid_run. apply m4ri_nonfull_canonical_any; auto.
  intros W HW. now apply echelon_pluq_run_nonfull_canonical.
Qed.

(** ... and for every PLE meeting [ple_spec] whose interchanges obey the rule on every window *)
Theorem mzd_echelonize_nonfull_canonical pluq ple trsm k ktop oracle A : 1 <= k ->
  (forall W, wf W -> ple_spec W (ple W) /\
     exists sw, first_row_rule W sw /\ apply_swaps sw W = apply_p_left W (fst (snd (ple W)))) ->
  wf A ->
  mzd_echelonize_model pluq ple trsm k ktop oracle false A = Some (gauss_delayed false 0 A).
Proof.
  intros Hk Hple HA. unfold mzd_echelonize_model. apply m4ri_nonfull_canonical_any; auto.
  intros W HW. destruct (Hple W HW) as (Hspec & sw & Hrule & Hsw).
  destruct (ple W) as [[r A'] [P Q]] eqn:E. cbn [fst snd] in Hsw.
  now apply (echelon_pluq_nonfull_canonical pluq ple trsm W r A' P Q sw).
Qed.

Print Assumptions echelon_pluq_nonfull_spec.
Print Assumptions echelon_pluq_run_nonfull_spec.
Print Assumptions echelon_pluq_nonfull_canonical.
Print Assumptions nonfull_routes_agree.
Print Assumptions ple_naive_rule.
Print Assumptions echelon_pluq_run_nonfull_canonical.
Print Assumptions hybrid_run_nonfull_canonical.
