(* Alg/EchelonPLUQNonFull.v — the NON-reduced branch of mzd_echelonize_pluq
   (/repo/m4ri/echelonform.c:100-137, model [echelon_pluq_nonfull] of Alg/EchelonPLUQ.v) returns a row
   echelon form of A on the pivot columns Q[0..r), row equivalent to A, with r = rank A.

   The C code reads the result ((r, A'), (P, Q)) of mzd_ple WITHOUT undoing the compression of L
   (no mzd_apply_p_right_trans_tri): for i < r it clears the columns 0..i of row i of A', writes a one
   at (i, Q[i]) and zeroes the rows >= r.  The specification [ple_spec] speaks about
   S = apply_p_right_trans_tri A' Q; its client lemma [ple_echelon] (Alg/PLEProofs5.v) gives the echelon
   form E = (U of S) with the column swaps Q undone.  Here: the matrix written by the C code IS that E
   ([nonfull_is_Epad]); the stored entries of A' that the two readings treat differently are all zero,
   forced by the echelon shape ([stored_zero]). *)
From Coq Require Import List NArith Arith Lia Bool Sorted ZArith ZifyBool ZifyNat ZifyN.
From M4 Require Import Base.Bits Lin.Mat Lin.MatAlg Lin.Ops Lin.OpsProofs Lin.Spec Lin.Span Lin.Echelon
                       Lin.Perm Lin.Tri Alg.Gauss Alg.GaussProofs Alg.PLE Alg.PLELemmas
                       Alg.PLESpec Alg.PLEProofs Alg.PLEProofs3 Alg.PLEProofs5 Alg.TRSM Alg.EchelonPLUQ.
Import ListNotations.
Local Open Scope nat_scope.

(** * 1. index maps of LAPACK swap sequences: generic facts *)
Lemma pi_gt q ts i j : (forall t, In t ts -> i < t /\ i < q t) -> i < j -> i < pi q ts j.
Proof.
  induction ts as [|t ts IH]; intros H Hj; cbn [pi]; [assumption|].
  destruct (H t) as [Ht Hq]; [now left|].
  apply (swapn_ge t (q t) _ (S i)); try lia. apply IH; [intros; apply H; now right|assumption].
Qed.
Lemma pi_inv_gt q ts i j : (forall t, In t ts -> i < t /\ i < q t) -> i < j -> i < pi_inv q ts j.
Proof.
  revert j; induction ts as [|t ts IH]; intros j H Hj; cbn [pi_inv]; [assumption|].
  destruct (H t) as [Ht Hq]; [now left|].
  apply IH; [intros; apply H; now right|]. apply (swapn_ge t (q t) _ (S i)); lia.
Qed.

(** the swaps 0..k-1 applied (in decreasing order) to an index >= k never increase it *)
Lemma pi_seq_le q k y : k <= y -> pi q (seq 0 k) y <= y.
Proof.
  revert y; induction k as [|k IH]; intros y Hy; [cbn; lia|].
  rewrite seq_S, pi_app. cbn [Nat.add pi]. unfold swapn at 1.
  destruct (Nat.eqb_spec y k); [lia|]. destruct (Nat.eqb_spec y (q k)).
  - specialize (IH k ltac:(lia)). lia.
  - apply IH. lia.
Qed.

Section SwapFacts.
  Variables (q : nat -> nat) (n r : nat).
  Hypothesis Hrn : r <= n.
  Hypothesis Hge : forall t, t < n -> t <= q t < n.
  Hypothesis Hinc : forall s s', s < s' -> s' < r -> q s < q s'.

  (** (F4) the swaps > i fix the positions <= i and keep the others > i *)
  Lemma tail_fix i j : j <= i -> pi q (seq (S i) (n - S i)) j = j.
  Proof.
    intros Hj. apply pi_fix. intros t Ht. apply in_seq in Ht. pose proof (Hge t ltac:(lia)). lia.
  Qed.
  Lemma tail_gt i j : i < j -> i < pi q (seq (S i) (n - S i)) j.
  Proof.
    intros Hj. apply pi_gt; [|assumption]. intros t Ht. apply in_seq in Ht. pose proof (Hge t ltac:(lia)). lia.
  Qed.
  Lemma tail_inv_gt i j : i < j -> i < pi_inv q (seq (S i) (n - S i)) j.
  Proof.
    intros Hj. apply pi_inv_gt; [|assumption]. intros t Ht. apply in_seq in Ht. pose proof (Hge t ltac:(lia)). lia.
  Qed.
  Lemma tail_lt i j : j < n -> pi q (seq (S i) (n - S i)) j < n.
  Proof. intros Hj. apply pi_lt; [|assumption]. intros t Ht. apply in_seq in Ht. pose proof (Hge t ltac:(lia)). lia. Qed.
  Lemma tail_inv_lt i j : j < n -> pi_inv q (seq (S i) (n - S i)) j < n.
  Proof. intros Hj. apply pi_inv_lt; [|assumption]. intros t Ht. apply in_seq in Ht. pose proof (Hge t ltac:(lia)). lia. Qed.
  Lemma all_inv_lt j : j < n -> pi_inv q (seq 0 n) j < n.
  Proof. intros Hj. apply pi_inv_lt; [|assumption]. intros t Ht. apply in_seq in Ht. pose proof (Hge t ltac:(lia)). lia. Qed.

  (** the full index map splits at S i *)
  Lemma sigma_split i j : i < n ->
    pi q (seq 0 n) j = pi q (seq 0 (S i)) (pi q (seq (S i) (n - S i)) j).
  Proof.
    intros Hi. rewrite <- pi_app, <- seq_app. do 2 f_equal. lia.
  Qed.

  (** (F2) an index > i that is no pivot q s, s <= i, is not touched by the swaps 0..i *)
  Lemma head_fix i x : i < x -> (forall s, s <= i -> x <> q s) -> pi q (seq 0 (S i)) x = x.
  Proof.
    intros Hx Hne. apply pi_fix. intros t Ht. apply in_seq in Ht. split; [lia|apply Hne; lia].
  Qed.

  (** (F1) a pivot column q t > i (t <= i) is sent to a position <= t *)
  Lemma head_pivot i t : i < r -> t <= i -> i < q t ->
    pi q (seq 0 (S i)) (q t) = pi q (seq 0 t) t /\ pi q (seq 0 t) t <= t.
  Proof.
    intros Hi Ht Hq. split; [|apply pi_seq_le; lia].
    replace (seq 0 (S i)) with (seq 0 t ++ [t] ++ seq (S t) (i - t)).
    2:{ change ([t] ++ seq (S t) (i - t)) with (seq t (S (i - t))).
        rewrite <- seq_app. f_equal. lia. }
    rewrite !pi_app. rewrite (pi_fix q (seq (S t) (i - t)) (q t)).
    - cbn [pi]. now rewrite swapn_r.
    - intros s Hs. apply in_seq in Hs. pose proof (Hinc t s ltac:(lia) ltac:(lia)). lia.
  Qed.

  Lemma pivot_dec i x : {s | s <= i /\ x = q s} + {forall s, s <= i -> x <> q s}.
  Proof.
    induction i as [|i IH].
    - destruct (Nat.eq_dec x (q 0)) as [E|E]; [left; exists 0; split; [lia|assumption]|].
      right. intros s Hs. replace s with 0 by lia. assumption.
    - destruct IH as [[s [Hs E]]|H]; [left; exists s; split; [lia|assumption]|].
      destruct (Nat.eq_dec x (q (S i))) as [E|E]; [left; exists (S i); split; [lia|assumption]|].
      right. intros s Hs. destruct (Nat.eq_dec s (S i)) as [->|]; [assumption|apply H; lia].
  Qed.
End SwapFacts.

(** * 2. the matrix written by echelonform.c:108-124 is the echelon factor of [ple_echelon] *)
(** entry (i, c), i < r, of the C result: the pivot, or the stored entry strictly right of column i *)
Definition nonfull_entry (A' : mat) (Q : list nat) (i c : nat) : bool :=
  (c =? nth i Q 0) || ((i <? c) && get A' i c).

Section NonFull.
  Variables (A : mat) (r : nat) (A' : mat) (P Q : list nat).
  Hypothesis HA : wf A.
  Hypothesis Hs : plu_struct A r A' P Q.
  Let T := apply_p_right_trans_tri A' Q.
  Hypothesis Hrec : plu_recon A r T P Q.
  Let n := nc A.
  Let q := fun k => nth k Q 0.
  Let U := plu_U A r T.
  Let E0 := plu_E A r T Q.
  Let E := plu_Epad A r T Q.
  Let sigma := pi q (seq 0 n).

  Let Hrn : r <= n := plu_r_le_nc _ _ _ _ _ Hs.
  Let Hrm : r <= nr A := plu_r_le_nr _ _ _ _ _ Hs.
  Let HlQ : length Q = n := plu_len_Q _ _ _ _ _ Hs.
  Let Hnr' : nr A' = nr A := plu_nr _ _ _ _ _ Hs.
  Let Hnc' : nc A' = nc A := plu_nc _ _ _ _ _ Hs.
  Let HA' : wf A' := plu_wf _ _ _ _ _ Hs.

  Let Hge : forall t, t < n -> t <= q t < n.
  Proof. intros t Ht. apply (plu_lapack_Q _ _ _ _ _ Hs). now rewrite HlQ. Qed.
  Let Hinc : forall s s', s < s' -> s' < r -> q s < q s'.
  Proof. apply (pe_q_inc _ _ _ _ _ Hs). Qed.

  Lemma nf_get_U i j : i < r -> i < j -> j < n ->
    get U i j = get A' i (pi q (seq (S i) (n - S i)) j).
  Proof.
    intros Hi Hij Hj. unfold U, plu_U. rewrite get_unit_upper_rect. fold n.
    destruct (Nat.ltb_spec i r); [|lia]. destruct (Nat.ltb_spec j n); [|lia].
    destruct (Nat.eqb_spec i j); [lia|]. destruct (Nat.ltb_spec i j); [|lia]. cbn [andb orb].
    unfold T. rewrite get_tri by (rewrite ?Hnr', ?Hnc'; fold n; lia). rewrite Hnc'. reflexivity.
  Qed.

  (** (Z) the stored entries the C code keeps but the specification's reading moves away are zero *)
  Lemma stored_zero i t : i < r -> t <= i -> i < q t -> get A' i (q t) = false.
  Proof.
    intros Hi Ht Hq.
    pose proof (Hge t ltac:(lia)) as Hqt.
    set (j0 := pi_inv q (seq (S i) (n - S i)) (q t)).
    assert (H1 : i < j0) by (apply (tail_inv_gt q n r Hrn Hge Hinc); assumption).
    assert (H2 : j0 < n) by (apply (tail_inv_lt q n r Hrn Hge Hinc); lia).
    assert (E1 : pi q (seq (S i) (n - S i)) j0 = q t) by apply pi_pi_inv.
    rewrite <- E1, <- nf_get_U by assumption.
    unfold U. rewrite (pe_get_U A r A' T P Q Hs). fold n q.
    rewrite (sigma_split q n r Hrn Hge Hinc i j0) by lia. rewrite E1.
    destruct (head_pivot q n r Hrn Hge Hinc i t Hi Ht Hq) as [E2 Hle]. rewrite E2.
    set (c0 := pi q (seq 0 t) t) in *.
    assert (Hc0 : c0 < q i).
    { destruct (Nat.eq_dec t i) as [->|Hne]; [lia|]. pose proof (Hge i ltac:(lia)). lia. }
    pose proof (pe_before A r A' T P Q HA Hs Hrec i c0 Hi Hc0) as HB.
    rewrite (pe_get_E A r A' T P Q Hs) in HB.
    destruct (Nat.ltb_spec i r); [exact HB|lia].
  Qed.

  (** the C result read through the column swaps is U *)
  Lemma nf_key i j : i < r -> j < n -> nonfull_entry A' Q i (sigma j) = get U i j.
  Proof.
    intros Hi Hj. unfold nonfull_entry. fold (q i).
    pose proof (Hge i ltac:(lia)) as Hqi.
    assert (Hpiv : forall k, k < r -> sigma k = q k) by (intros k Hk; apply (pe_pi_piv A r A' P Q Hs k Hk)).
    assert (HUd : forall j', j' <= i -> get U i j' = (i =? j')).
    { intros j' Hj'. unfold U, plu_U. rewrite get_unit_upper_rect. fold n.
      destruct (Nat.ltb_spec i r); [|lia]. destruct (Nat.ltb_spec j' n); [|lia].
      destruct (Nat.eqb_spec i j'); [reflexivity|]. destruct (Nat.ltb_spec i j'); [lia|reflexivity]. }
    destruct (Nat.lt_trichotomy j i) as [Hlt|[->|Hgt]].
    - (* j < i *)
      rewrite HUd by lia. rewrite Hpiv by lia.
      pose proof (Hinc j i Hlt Hi).
      destruct (Nat.eqb_spec (q j) (q i)); [lia|]. destruct (Nat.eqb_spec i j); [lia|]. cbn [orb].
      destruct (Nat.ltb_spec i (q j)); [|reflexivity]. cbn [andb].
      apply stored_zero; lia.
    - (* j = i *)
      rewrite HUd by lia. rewrite Hpiv by lia. now rewrite !Nat.eqb_refl.
    - (* j > i *)
      rewrite nf_get_U by assumption. unfold sigma. rewrite (sigma_split q n r Hrn Hge Hinc i j) by lia.
      set (j' := pi q (seq (S i) (n - S i)) j).
      assert (H1 : i < j') by (apply (tail_gt q n r Hrn Hge Hinc); assumption).
      destruct (pivot_dec q n r Hrn Hge Hinc i j') as [[t [Ht Et]]|Hno].
      + assert (Hq : i < q t) by lia.
        rewrite Et. rewrite stored_zero by assumption.
        destruct (head_pivot q n r Hrn Hge Hinc i t Hi Ht Hq) as [E2 Hle]. rewrite E2.
        set (c0 := pi q (seq 0 t) t) in *.
        destruct (Nat.eqb_spec c0 (q i)); [|destruct (Nat.ltb_spec i c0); [lia|reflexivity]].
        destruct (Nat.eq_dec t i) as [->|Hne]; [lia|]. lia.
      + rewrite (head_fix q n r Hrn Hge Hinc i j' H1 Hno).
        destruct (Nat.eqb_spec j' (q i)) as [E1|_]; [exfalso; apply (Hno i); [lia|exact E1]|].
        destruct (Nat.ltb_spec i j'); [reflexivity|lia].
  Qed.

  (** hence entrywise equal to the echelon factor E0 = U with the column swaps undone *)
  Lemma nf_entry_E0 i c : i < r -> c < n -> nonfull_entry A' Q i c = get E0 i c.
  Proof.
    intros Hi Hc.
    pose proof (all_inv_lt q n r Hrn Hge Hinc c Hc) as Hj.
    set (j := pi_inv q (seq 0 n) c) in *.
    assert (Ec : sigma j = c) by apply pi_pi_inv.
    rewrite <- Ec. rewrite nf_key by assumption.
    unfold U, E0, sigma. now rewrite (pe_get_U A r A' T P Q Hs).
  Qed.
End NonFull.

(** * 3. the model output at row / entry level *)
Definition nonfull_mat (A' : mat) (Q : list nat) (r : nat) : mat :=
  clear_rows_from
    (map_rows (fun i x => if i <? r
                          then N.lor (N.ldiff x (N.ones (N.of_nat (S i)))) (2 ^ N.of_nat (nth i Q 0))
                          else x) A') r.

Lemma echelon_pluq_nonfull_unfold ple A :
  echelon_pluq_nonfull ple A = let '((r, A'), (P, Q)) := ple A in (r, nonfull_mat A' Q r).
Proof. reflexivity. Qed.

Lemma row_nonfull_mat A' Q r i : wf A' -> r <= nr A' ->
  row (nonfull_mat A' Q r) i =
  if i <? r then N.lor (N.ldiff (row A' i) (N.ones (N.of_nat (S i)))) (2 ^ N.of_nat (nth i Q 0)) else 0%N.
Proof.
  intros HA' Hr. pose proof (wf_len A' HA') as Hl.
  unfold nonfull_mat, clear_rows_from. rewrite nr_map_rows.
  destruct (Nat.eqb_spec r (nr A')) as [E|E].
  - rewrite PLELemmas.row_map_rows. rewrite Hl.
    destruct (Nat.ltb_spec i (nr A')), (Nat.ltb_spec i r); try lia; reflexivity.
  - rewrite PLELemmas.row_map_rows, len_map_rows, Hl.
    destruct (Nat.ltb_spec i (nr A')).
    + rewrite PLELemmas.row_map_rows, Hl. destruct (Nat.ltb_spec i (nr A')); [|lia].
      destruct (Nat.leb_spec r i), (Nat.ltb_spec i r); try lia; reflexivity.
    + destruct (Nat.ltb_spec i r); [lia|reflexivity].
Qed.

Lemma nr_nonfull_mat A' Q r : nr (nonfull_mat A' Q r) = nr A'.
Proof. unfold nonfull_mat, clear_rows_from. now destruct (r =? _). Qed.
Lemma nc_nonfull_mat A' Q r : nc (nonfull_mat A' Q r) = nc A'.
Proof. unfold nonfull_mat, clear_rows_from. now destruct (r =? _). Qed.

Lemma get_nonfull_mat A' Q r i j : wf A' -> r <= nr A' ->
  get (nonfull_mat A' Q r) i j = (i <? r) && nonfull_entry A' Q i j.
Proof.
  intros HA' Hr. unfold get at 1. rewrite row_nonfull_mat by assumption.
  destruct (Nat.ltb_spec i r); cbn [andb]; [|apply N.bits_0].
  rewrite N.lor_spec, N.ldiff_spec, testbit_pow2_nat, testbit_ones_nat. unfold nonfull_entry.
  change (N.testbit (row A' i) (N.of_nat j)) with (get A' i j).
  rewrite (Nat.eqb_sym j). destruct (get A' i j); bsolve.
Qed.

Lemma wf_nonfull_mat A' Q r : wf A' -> r <= nr A' -> (forall i, i < r -> nth i Q 0 < nc A') ->
  wf (nonfull_mat A' Q r).
Proof.
  intros HA' Hr HQ. apply wf_of_rows.
  - rewrite nr_nonfull_mat. unfold nonfull_mat, clear_rows_from.
    destruct (r =? _); rewrite ?len_map_rows; now apply wf_len.
  - intros i. rewrite nc_nonfull_mat, row_nonfull_mat by assumption.
    destruct (Nat.ltb_spec i r); [|apply bounded_0].
    apply bounded_lor; [apply bounded_ldiff; now apply wf_row_bounded|apply bounded_pow2; auto].
Qed.

(** the C result is the padded echelon factor of the specification *)
Theorem nonfull_is_Epad A r A' P Q : wf A -> ple_spec A ((r, A'), (P, Q)) ->
  nonfull_mat A' Q r = plu_Epad A r (apply_p_right_trans_tri A' Q) Q.
Proof.
  intros HA [Hs Hrec].
  destruct (pe_wf_E A r A' (apply_p_right_trans_tri A' Q) P Q Hs) as (HwE & HnrE & HncE).
  pose proof (plu_wf _ _ _ _ _ Hs) as HA'. pose proof (plu_nr _ _ _ _ _ Hs) as Hnr'.
  pose proof (plu_nc _ _ _ _ _ Hs) as Hnc'. pose proof (plu_r_le_nr _ _ _ _ _ Hs) as Hrm.
  apply mat_ext.
  - apply wf_nonfull_mat; [assumption|lia|]. intros i Hi. rewrite Hnc'.
    apply (pe_q_range A r A' P Q Hs i Hi).
  - assumption.
  - rewrite nr_nonfull_mat. congruence.
  - rewrite nc_nonfull_mat. congruence.
  - intros i j Hi Hj. rewrite nc_nonfull_mat, Hnc' in Hj.
    rewrite get_nonfull_mat by (auto; lia). rewrite (pe_get_E A r A' _ P Q Hs).
    destruct (Nat.ltb_spec i r) as [Hir|]; [|reflexivity]. cbn [andb].
    apply (nf_entry_E0 A r A' P Q HA Hs Hrec i j Hir Hj).
Qed.

(** * 4. the main theorem: mzd_echelonize_pluq(A, full = 0) *)
Theorem echelon_pluq_nonfull_spec_d pluq ple trsm A r A' P Q : wf A ->
  ple A = ((r, A'), (P, Q)) -> ple_spec A ((r, A'), (P, Q)) ->
  exists E, echelon_pluq pluq ple trsm false A = (r, E) /\
    r = rank A /\ wf E /\ nr E = nr A /\ nc E = nc A /\ row_equiv A E /\
    is_ref E (firstn r Q) /\ length (firstn r Q) = r.
Proof.
  intros HA Eple Hspec. exists (nonfull_mat A' Q r). split.
  - unfold echelon_pluq. rewrite echelon_pluq_nonfull_unfold, Eple. reflexivity.
  - rewrite (nonfull_is_Epad A r A' P Q HA Hspec).
    destruct (ple_echelon A r A' P Q HA Hspec) as (Hw & Hnr & Hnc & Heq & Href & _).
    destruct Hspec as [Hs _].
    assert (Hlen : length (firstn r Q) = r).
    { rewrite firstn_length, (plu_len_Q _ _ _ _ _ Hs). apply Nat.min_l, (plu_r_le_nc _ _ _ _ _ Hs). }
    splits; auto.
    rewrite <- Hlen at 1. exact (rank_canonical A _ _ HA Href Heq).
Qed.

Theorem echelon_pluq_nonfull_spec pluq ple trsm A : wf A -> ple_spec A (ple A) ->
  let '(r, E) := echelon_pluq pluq ple trsm false A in
  exists Q, r = rank A /\ wf E /\ nr E = nr A /\ nc E = nc A /\ row_equiv A E /\
            is_ref E (firstn r Q) /\ length (firstn r Q) = r.
Proof.
  intros HA Hspec. destruct (ple A) as [[r A'] [P Q]] eqn:Eple.
  destruct (echelon_pluq_nonfull_spec_d pluq ple trsm A r A' P Q HA Eple Hspec) as (E & -> & H).
  exists Q. exact H.
Qed.

Corollary echelon_pluq_nonfull_ref pluq ple trsm A : wf A -> ple_spec A (ple A) ->
  let '(r, E) := echelon_pluq pluq ple trsm false A in
  exists piv, r = length piv /\ r = rank A /\ wf E /\ row_equiv A E /\ is_ref E piv.
Proof.
  intros HA Hspec. pose proof (echelon_pluq_nonfull_spec pluq ple trsm A HA Hspec) as H.
  destruct (echelon_pluq pluq ple trsm false A) as [r E].
  destruct H as (Q & H1 & H2 & _ & _ & H5 & H6 & H7).
  exists (firstn r Q). splits; auto.
Qed.

(** * 5. the runnable instance (naive PLE of Alg/PLE.v, identity P0 Q0 as after mzp_init) *)
Theorem echelon_pluq_run_nonfull_spec A : wf A ->
  let '(r, E) := echelon_pluq_run false A in
  exists Q, r = rank A /\ wf E /\ nr E = nr A /\ nc E = nc A /\ row_equiv A E /\
            is_ref E (firstn r Q) /\ length (firstn r Q) = r.
Proof.
  intros HA. unfold echelon_pluq_run.
  apply (echelon_pluq_nonfull_spec _ (fun A => ple_naive A (seq 0 (nr A)) (seq 0 (nc A)))); [assumption|].
  apply ple_naive_spec; [assumption|apply seq_length..].
Qed.

Corollary echelon_pluq_run_nonfull_ref A : wf A ->
  let '(r, E) := echelon_pluq_run false A in
  exists piv, r = length piv /\ r = rank A /\ wf E /\ row_equiv A E /\ is_ref E piv.
Proof.
  intros HA. unfold echelon_pluq_run.
  apply (echelon_pluq_nonfull_ref _ (fun A => ple_naive A (seq 0 (nr A)) (seq 0 (nc A)))); [assumption|].
  apply ple_naive_spec; [assumption|apply seq_length..].
Qed.

(** non-vacuity: the hypotheses hold (wf A; the runnable PLE meets [ple_spec], checked by [ple_ok])
    and the result is a genuinely NON-reduced echelon form with real column swaps:
    rank 3, pivots Q[0..3) = 0 3 5 of a 4 x 6 matrix, Q = [0;3;5;3;4;5]; stored A' = [45;19;5;0]
    (L compressed into the columns 0..2), output rows 45 = 101101b, 24 = 011000b, 32 = 100000b:
    row 0 keeps its ones above the pivots 3 and 5, the reduced form (full = 1) has 21 there. *)
Example echelon_pluq_nonfull_example :
  let A := mk 4 6 [45; 53; 13; 0]%N in
  wf A /\
  ple_naive A (seq 0 (nr A)) (seq 0 (nc A)) = ((3, mk 4 6 [45; 19; 5; 0]%N), ([0; 1; 2; 3], [0; 3; 5; 3; 4; 5])) /\
  ple_ok A (ple_naive A (seq 0 (nr A)) (seq 0 (nc A))) = true /\
  echelon_pluq_run false A = (3, mk 4 6 [45; 24; 32; 0]%N) /\
  echelon_pluq_run true A = (3, mk 4 6 [21; 24; 32; 0]%N) /\
  echelon_pluq_run false A = gauss_delayed false 0 A /\
  rank A = 3.
Proof. cbv zeta. split; [now apply wfb_spec|]. vm_compute. repeat split. Qed.

(** the 5 x 70 matrix of [echelon_pluq_nonfull_partial] (Alg/EchelonPLUQProofs.v): rank 3 *)
Example echelon_pluq_nonfull_example70 :
  let A := mk 5 70 [0x2000000000000000F1; 0x3; 0x100000000000000005; 0x2000000000000000F2; 0x0]%N in
  wf A /\ ple_ok A (ple_naive A (seq 0 (nr A)) (seq 0 (nc A))) = true /\
  echelon_pluq_run false A =
    (3, mk 5 70 [0x2000000000000000F1; 0x2000000000000000F2; 0x3000000000000000F4; 0; 0]%N) /\
  rank A = 3.
Proof. cbv zeta. split; [now apply wfb_spec|]. vm_compute. repeat split. Qed.

(** NOT proved here (open): for the naive PLE with identity P0 Q0,
      snd (echelon_pluq_run false A) = snd (gauss_delayed false 0 A)   for all wf A.
    It does not follow from [ple_spec] (P is free); via GaussRef.ref_canonical it needs
    [first_row_rule A [(k, P[k])]_{k<r}] for the naive loop, i.e. a loop invariant recording that
    _mzd_ple_naive takes the FIRST row of the left-most column (the invariant [Inv] of PLEProofs2.v
    only records "some row of the left-most column").  [lower_rel (apply_p_left A P) E] is available
    from [ple_echelon] (P A = L E).  Evidence by evaluation: the two examples above and
    [echelon_pluq_nonfull_partial] in Alg/EchelonPLUQProofs.v. *)

Print Assumptions echelon_pluq_nonfull_spec.
Print Assumptions echelon_pluq_run_nonfull_spec.
