(* Alg/PLEProofs3.v — C03, part 3: the naive models meet the specification.
     ple_naive_spec  : wf A -> length P0 = nr A -> length Q0 = nc A -> ple_spec  A (ple_naive  A P0 Q0)
     pluq_naive_spec : wf A -> length P0 = nr A -> length Q0 = nc A -> pluq_spec A (pluq_naive A P0 Q0)
   Both loops are instances of the abstract invariant of PLEProofs2.v:
     PLE   g i j = get M i j                       (the working matrix itself)
     PLUQ  g i j = get M i (pi_inv Q [0,t) j)      (the working matrix with its column swaps undone)
   and both outputs are "g read through the column swaps": for PLUQ the matrix as stored, for PLE the
   compressed matrix after mzd_apply_p_right_trans_tri. *)
From Coq Require Import List NArith Arith Lia Bool Sorted.
From M4 Require Import Base.Bits Lin.Mat Lin.MatAlg Lin.Ops Lin.Spec Lin.Perm Lin.Echelon
  Alg.PLE Alg.PLELemmas Alg.PLESpec Alg.PLEProofs Alg.PLEProofs2.
Import ListNotations.
Local Open Scope nat_scope.

Definition nthf (l : list nat) : nat -> nat := fun k => nth k l 0.

Lemma ltb_leb_S a b : (a <? b) = (S a <=? b).
Proof. reflexivity. Qed.

(** * from the abstract invariant to the specification *)
Lemma done_spec A g P Q r c A' S :
  wf A -> length P = nr A -> length Q = nc A ->
  Inv A g (nthf P) (nthf Q) r c -> Fin g r c ->
  wf A' -> nr A' = nr A -> nc A' = nc A ->
  (forall i j, r <= i -> r <= j -> get A' i j = false) ->
  (forall i j, i < nr A -> j < nc A -> get S i j = g i (pi (nthf Q) (seq 0 r) j)) ->
  plu_struct A r A' (fill_id r P) (fill_id r Q) /\ plu_recon A r S (fill_id r P) (fill_id r Q).
Proof.
  intros HA HP HQ HI HF HA' Hnr Hnc Hz HS.
  pose proof (fin_r_le_m A g _ _ r c HI) as Hrm. pose proof (fin_r_le_n A g _ _ r c HI) as Hrn.
  assert (NP : forall i, i < nr A -> nth i (fill_id r P) 0 = if r <=? i then i else nth i P 0)
    by (intros i Hi; apply nth_fill_id; lia).
  assert (NQ : forall j, j < nc A -> nth j (fill_id r Q) 0 = if r <=? j then j else nth j Q 0)
    by (intros j Hj; apply nth_fill_id; lia).
  assert (LP : lapack (fill_id r P) (nr A)).
  { intros i Hi. rewrite fill_id_length, HP in Hi. rewrite NP by assumption.
    destruct (Nat.leb_spec r i); [lia|]. apply (inv_p A g _ _ r c HI i). assumption. }
  assert (LQ : lapack (fill_id r Q) (nc A)).
  { intros j Hj. rewrite fill_id_length, HQ in Hj. rewrite NQ by assumption.
    destruct (Nat.leb_spec r j); [lia|]. apply (fin_q_lt A g _ _ r c HI j). assumption. }
  assert (EQ : firstn r (fill_id r Q) = map (nthf Q) (seq 0 r)).
  { rewrite firstn_map_nth by (rewrite fill_id_length; lia). apply map_ext_in.
    intros k Hk. apply in_seq in Hk. rewrite NQ by lia. destruct (Nat.leb_spec r k); [lia|reflexivity]. }
  pose proof (fin_crp A HA g _ _ r c HI HF) as Hcrp.
  split.
  - unfold plu_struct. rewrite !fill_id_length, EQ. splits; auto.
    + intros i H1 H2. rewrite NP by assumption. destruct (Nat.leb_spec r i); [reflexivity|lia].
    + apply Hcrp.
  - unfold plu_recon.
    destruct (get_apply_p_left A (fill_id r P) HA) as (Hw1 & Hr1 & Hc1 & Hg1);
      [now rewrite fill_id_length|assumption|].
    destruct (get_apply_p_right_trans (apply_p_left A (fill_id r P)) (fill_id r Q) Hw1) as (Hw2 & Hr2 & Hc2 & Hg2);
      [now rewrite fill_id_length, Hc1|now rewrite Hc1|].
    apply mat_ext; auto.
    + apply wf_mmul; [apply wf_plu_L|apply wf_plu_U].
    + now rewrite Hr2, Hr1.
    + now rewrite Hc2, Hc1.
    + intros i j Hi Hj. rewrite Hr2, Hr1 in Hi. rewrite Hc2, Hc1 in Hj.
      rewrite Hg2, Hg1, Hc1.
      replace (nr A) with (r + (nr A - r)) at 1 by lia. replace (nc A) with (r + (nc A - r)) at 1 by lia.
      rewrite !pi_id_tail.
      2:{ intros t H1 H2. rewrite NQ by lia. destruct (Nat.leb_spec r t); [reflexivity|lia]. }
      2:{ intros t H1 H2. rewrite NP by lia. destruct (Nat.leb_spec r t); [reflexivity|lia]. }
      rewrite (pi_ext _ (nthf P) (seq 0 r) i).
      2:{ intros t Ht. apply in_seq in Ht. rewrite NP by lia. destruct (Nat.leb_spec r t); [lia|reflexivity]. }
      rewrite (pi_ext _ (nthf Q) (seq 0 r) j).
      2:{ intros t Ht. apply in_seq in Ht. rewrite NQ by lia. destruct (Nat.leb_spec r t); [lia|reflexivity]. }
      rewrite (fin_recon A g _ _ r c HI HF (get S) i j HS Hi Hj).
      rewrite get_plu_LU. apply xsum_ext. intros k Hk. unfold plu_L, plu_U.
      now rewrite get_unit_lower_rect, get_unit_upper_rect.
Qed.

(** the outputs of the naive routines end in [fill_id r]: the identity beyond r *)
Lemma fill_id_tail r Q n : length Q = n -> plu_Q_tail_id r (fill_id r Q) n.
Proof.
  intros HQ j H1 H2. rewrite nth_fill_id by lia. destruct (Nat.leb_spec r j); [reflexivity|lia].
Qed.

(** * _mzd_ple_naive *)
(** ** the loop *)
Lemma ple_loop_inv A : wf A -> forall n M P Q t c,
  n = nr A - t -> wf M -> nr M = nr A -> nc M = nc A -> length P = nr A -> length Q = nc A ->
  Inv A (get M) (nthf P) (nthf Q) t c ->
  let '(M', (P', Q'), r) := ple_naive_loop n M P Q t c in
  wf M' /\ nr M' = nr A /\ nc M' = nc A /\ length P' = nr A /\ length Q' = nc A /\
  exists c', Inv A (get M') (nthf P') (nthf Q') r c' /\ Fin (get M') r c'.
Proof.
  intros HA. induction n as [|n IH]; intros M P Q t c Hn HM Hnr Hnc HP HQ HI; cbn [ple_naive_loop].
  - splits; auto. exists c. split; [assumption|]. intros i j Hi _.
    apply get_out_row; [assumption|]. lia.
  - destruct (Nat.ltb_spec c (nc M)) as [Hc|Hc].
    2:{ splits; auto. exists c. split; [assumption|]. intros i j _ Hj. apply get_out_col; [assumption|lia]. }
    destruct (find_pivot M t c) as [[i0 j0]|] eqn:Efp.
    2:{ splits; auto. exists c. split; [assumption|]. intros i j Hi Hj. now apply (find_pivot_none M t c). }
    destruct (find_pivot_some M t c i0 j0 HM Efp) as (Hi0 & Hj0 & Hpiv & Hz & _).
    pose proof (inv_t_le_c A _ _ _ _ _ HI) as Htc.
    pose proof (wf_len M HM) as HlM.
    set (M1 := row_swap M t i0).
    assert (HM1 : wf M1) by now apply wf_row_swap.
    change (nc M1) with (nc M).
    destruct (get_elim_guard M1 t j0 (S j0) HM1) as (Hw & Hr & Hcc & Hg); [change (nr M1) with (nr M); lia|].
    change (nc M1) with (nc M) in Hg, Hw, Hr, Hcc |- *.
    set (M2 := if S j0 <? nc M then elim_below M1 t j0 (S j0) else M1) in *.
    apply IH; try assumption.
    + lia.
    + rewrite Hr. exact Hnr.
    + rewrite Hcc. exact Hnc.
    + now rewrite upd_length.
    + now rewrite upd_length.
    + apply (inv_step A (get M) (nthf P) (nthf Q) t c i0 j0); try assumption.
      * lia.
      * lia.
      * intros k Hk. unfold nthf. apply nth_upd_other. lia.
      * unfold nthf. apply nth_upd_same. lia.
      * intros k Hk. unfold nthf. apply nth_upd_other. lia.
      * unfold nthf. apply nth_upd_same. lia.
      * intros i j. rewrite Hg. unfold M1. rewrite !get_row_swap by lia.
        rewrite swapn_l. now rewrite ltb_leb_S.
Qed.

(** ** the compression of L and the triangular un-compression *)
Lemma get_ple_compress M Q : wf M -> forall r,
  (forall k, k < r -> k <= nth k Q 0 < nc M) ->
  let X := ple_compress M Q r in
  wf X /\ nr X = nr M /\ nc X = nc M /\
  forall i j, i < nr M -> get X i j = get M i (pi (nthf Q) (seq 0 (Nat.min (S i) r)) j).
Proof.
  intros HM. induction r as [|r IH]; intros HQ; cbv zeta; unfold ple_compress.
  - cbn [seq fold_left]. splits; auto.
  - rewrite seq_S, fold_left_app. cbn [fold_left Nat.add].
    fold (ple_compress M Q r).
    destruct IH as (Hw & Hr & Hc & Hg); [intros k Hk; apply HQ; lia|].
    pose proof (HQ r ltac:(lia)) as Hqr.
    destruct (Nat.ltb_spec r (nth r Q 0)) as [Hlt|Hge].
    + splits.
      * apply wf_col_swap_in_rows; [assumption|rewrite Hc; lia|rewrite Hc; lia].
      * now rewrite nr_col_swap_in_rows.
      * now rewrite nc_col_swap_in_rows.
      * intros i j Hi. rewrite get_col_swap_in_rows, Hr.
        destruct (Nat.leb_spec r i) as [Hri|Hri]; cbn [andb].
        -- destruct (Nat.ltb_spec i (nr M)); [|lia].
           rewrite Hg by assumption. replace (Nat.min (S i) (S r)) with (S r) by lia.
           replace (Nat.min (S i) r) with r by lia. rewrite pi_snoc. unfold nthf.
           now rewrite swapn_comm.
        -- rewrite Hg by assumption. now replace (Nat.min (S i) (S r)) with (Nat.min (S i) r) by lia.
    + splits; auto. intros i j Hi. rewrite Hg by assumption.
      destruct (Nat.leb_spec r i) as [Hri|Hri].
      * replace (Nat.min (S i) (S r)) with (S r) by lia. replace (Nat.min (S i) r) with r by lia.
        rewrite pi_snoc. unfold nthf. replace (nth r Q 0) with r by lia. now rewrite swapn_same.
      * now replace (Nat.min (S i) (S r)) with (Nat.min (S i) r) by lia.
Qed.

Lemma testbit_fold_bit_swap (f : nat -> nat) l x j :
  N.testbit (fold_left (fun r i => bit_swap r i (f i)) l x) (N.of_nat j) = N.testbit x (N.of_nat (pi f l j)).
Proof.
  revert x. induction l as [|t l IH]; intros x; cbn [fold_left pi]; [reflexivity|].
  rewrite IH. apply testbit_bit_swap.
Qed.

(** row i of the triangular application, through the index map *)
Lemma get_tri X Q i j : i < nr X -> length Q = nc X ->
  get (apply_p_right_trans_tri X Q) i j = get X i (pi (nthf Q) (seq (S i) (nc X - S i)) j).
Proof.
  intros Hi HQ. unfold get. rewrite tri_spec_row by assumption. rewrite testbit_fold_bit_swap.
  f_equal. f_equal. apply pi_ext. intros t Ht. apply in_seq in Ht. apply pval_nth. lia.
Qed.

(** compress, then un-compress: every row has received all column swaps 0 .. r-1 *)
Lemma get_tri_compress M Q r : wf M -> length Q = nc M -> r <= nc M ->
  (forall k, k < r -> k <= nth k Q 0 < nc M) -> (forall k, r <= k -> k < nc M -> nth k Q 0 = k) ->
  forall i j, i < nr M ->
  get (apply_p_right_trans_tri (ple_compress M Q r) Q) i j = get M i (pi (nthf Q) (seq 0 r) j).
Proof.
  intros HM HQ Hr Hlo Hhi i j Hi.
  destruct (get_ple_compress M Q HM r Hlo) as (Hw & Hnr & Hnc & Hg).
  rewrite get_tri by (rewrite ?Hnr, ?Hnc; assumption). rewrite Hg by assumption. rewrite Hnc.
  f_equal. rewrite <- pi_app.
  destruct (Nat.lt_ge_cases i r) as [Hlt|Hge].
  - replace (Nat.min (S i) r) with (S i) by lia.
    rewrite <- seq_app. replace (S i + (nc M - S i)) with (r + (nc M - r)) by lia.
    apply pi_id_tail. intros t H1 H2. apply Hhi; lia.
  - replace (Nat.min (S i) r) with r by lia. rewrite pi_app. f_equal.
    apply pi_id. intros t Ht. apply in_seq in Ht. unfold nthf. apply Hhi; lia.
Qed.

(** ** C03_naive *)
Theorem ple_naive_spec A P0 Q0 : wf A -> length P0 = nr A -> length Q0 = nc A ->
  ple_spec A (ple_naive A P0 Q0).
Proof.
  intros HA HP0 HQ0. unfold ple_naive.
  pose proof (ple_loop_inv A HA (nr A) A P0 Q0 0 0 ltac:(lia) HA eq_refl eq_refl HP0 HQ0
                (inv_init A HA (nthf P0) (nthf Q0))) as H.
  destruct (ple_naive_loop (nr A) A P0 Q0 0 0) as [[M [P Q]] r].
  destruct H as (HM & Hnr & Hnc & HP & HQ & c & HI & HF).
  pose proof (fin_r_le_n A _ _ _ r c HI) as Hrn. pose proof (fin_r_le_m A _ _ _ r c HI) as Hrm.
  assert (NQ : forall j, j < nc A -> nth j (fill_id r Q) 0 = if r <=? j then j else nth j Q 0)
    by (intros j Hj; apply nth_fill_id; lia).
  assert (Hlo : forall k, k < r -> k <= nth k (fill_id r Q) 0 < nc M).
  { intros k Hk. rewrite NQ by lia. destruct (Nat.leb_spec r k); [lia|]. rewrite Hnc.
    apply (fin_q_lt A _ _ _ r c HI k Hk). }
  assert (Hhi : forall k, r <= k -> k < nc M -> nth k (fill_id r Q) 0 = k).
  { intros k H1 H2. rewrite NQ by lia. destruct (Nat.leb_spec r k); [reflexivity|lia]. }
  assert (EP : forall j, pi (nthf (fill_id r Q)) (seq 0 r) j = pi (nthf Q) (seq 0 r) j).
  { intros j. apply pi_ext. intros t Ht. apply in_seq in Ht. unfold nthf. rewrite NQ by lia.
    destruct (Nat.leb_spec r t); [lia|reflexivity]. }
  destruct (get_ple_compress M (fill_id r Q) HM r Hlo) as (Hw & Hcr & Hcc & Hg).
  unfold ple_spec.
  apply (done_spec A (get M) P Q r c); auto; try congruence.
  - (* zero storage outside L and E *)
    intros i j Hi Hj. destruct (Nat.lt_ge_cases i (nr M)) as [Hlt|Hge].
    + rewrite Hg by assumption. replace (Nat.min (S i) r) with r by lia. rewrite EP.
      now apply (fin_outside A (get M) _ _ r c HI HF).
    + apply get_out_row; [assumption|lia].
  - intros i j Hi Hj. rewrite get_tri_compress; auto.
    + now rewrite fill_id_length, HQ.
    + lia.
    + lia.
Qed.

Example ple_naive_spec_hyps : exists (A : mat) (P0 Q0 : list nat), wf A /\ length P0 = nr A /\ length Q0 = nc A /\ nr A = 2.
Proof. exists (mk 2 3 [5%N; 5%N]), [9; 9], [7; 7; 7]. split; [now apply wfb_spec|repeat split]. Qed.

(** * _mzd_pluq_naive *)
Definition gq (M : mat) (Q : list nat) (t : nat) : nat -> nat -> bool :=
  fun i j => get M i (pi_inv (nthf Q) (seq 0 t) j).

Section PluqFacts.
  Variables (A M : mat) (P Q : list nat) (t c : nat).
  Hypothesis HI : Inv A (gq M Q t) (nthf P) (nthf Q) t c.
  Let q := nthf Q.

  Lemma pq_touch k : In k (seq 0 t) -> k < c /\ q k < c.
  Proof. intros Hk. apply in_seq in Hk. pose proof (inv_q A _ _ _ _ _ HI k ltac:(lia)). fold q in H. lia. Qed.

  Lemma pq_pi_hi j : c <= j -> pi q (seq 0 t) j = j.
  Proof. intros Hj. apply pi_fix. intros k Hk. apply pq_touch in Hk. lia. Qed.
  Lemma pq_pi_inv_hi j : c <= j -> pi_inv q (seq 0 t) j = j.
  Proof. intros Hj. apply pi_inv_fix. intros k Hk. apply pq_touch in Hk. lia. Qed.
  Lemma pq_pi_lo j : j < c -> pi q (seq 0 t) j < c.
  Proof. apply pi_lt. apply pq_touch. Qed.
  Lemma pq_pi_piv k : k < t -> pi q (seq 0 t) k = q k.
  Proof.
    intros Hk. apply pi_seq_pivot; [assumption| |].
    - intros s Hs. apply (inv_q A _ _ _ _ _ HI s Hs).
    - intros s s' H1 H2. now apply (inv_qinc A _ _ _ _ _ HI).
  Qed.
  Lemma pq_get i j : get M i j = gq M Q t i (pi q (seq 0 t) j).
  Proof. unfold gq. fold q. now rewrite pi_inv_pi. Qed.
  Lemma pq_nonpiv j : t <= j -> forall k, k < t -> pi q (seq 0 t) j <> q k.
  Proof. intros Hj k Hk E. rewrite <- pq_pi_piv in E by assumption. apply pi_inj in E. lia. Qed.
  (** the positions t .. c-1 hold the skipped (dependent) columns: zero in the rows >= t *)
  Lemma pq_gap i j : t <= i -> t <= j -> j < c -> get M i j = false.
  Proof.
    intros Hi Hj Hc. rewrite pq_get. apply (inv_zero A _ _ _ _ _ HI).
    - destruct (Nat.ltb_spec i t); [lia|]. now apply pq_pi_lo.
    - now apply pq_nonpiv.
  Qed.
End PluqFacts.

Lemma pluq_loop_inv A : wf A -> forall n M P Q t c,
  n = nc A - t -> wf M -> nr M = nr A -> nc M = nc A -> length P = nr A -> length Q = nc A ->
  Inv A (gq M Q t) (nthf P) (nthf Q) t c ->
  let '(M', (P', Q'), r) := pluq_naive_loop n M P Q t in
  wf M' /\ nr M' = nr A /\ nc M' = nc A /\ length P' = nr A /\ length Q' = nc A /\
  exists c', Inv A (gq M' Q' r) (nthf P') (nthf Q') r c' /\ Fin (gq M' Q' r) r c'.
Proof.
  intros HA. induction n as [|n IH]; intros M P Q t c Hn HM Hnr Hnc HP HQ HI; cbn [pluq_naive_loop].
  - splits; auto. exists c. split; [assumption|]. intros i j _ Hj.
    pose proof (inv_t_le_c A _ _ _ _ _ HI). pose proof (inv_c A _ _ _ _ _ HI).
    unfold gq. rewrite (pq_pi_inv_hi A M P Q t c HI) by assumption.
    apply get_out_col; [assumption|lia].
  - pose proof (inv_t_le_c A _ _ _ _ _ HI) as Htc. pose proof (inv_c A _ _ _ _ _ HI) as Hcn.
    destruct (find_pivot M t t) as [[i0 j0]|] eqn:Efp.
    2:{ splits; auto. exists c. split; [assumption|]. intros i j Hi Hj.
        unfold gq. rewrite (pq_pi_inv_hi A M P Q t c HI) by assumption.
        apply (find_pivot_none M t t); auto; lia. }
    destruct (find_pivot_some M t t i0 j0 HM Efp) as (Hi0 & Hj0 & Hpiv & Hz & _).
    pose proof (wf_len M HM) as HlM.
    assert (Hcj0 : c <= j0).
    { destruct (Nat.le_gt_cases c j0) as [H|H]; [assumption|].
      rewrite (pq_gap A M P Q t c HI i0 j0) in Hpiv by lia. discriminate. }
    set (M1 := row_swap M t i0).
    assert (HM1 : wf M1) by now apply wf_row_swap.
    set (M2 := col_swap M1 t j0).
    assert (HM2 : wf M2) by (apply wf_col_swap; [assumption|change (nc M1) with (nc M); lia..]).
    assert (Hr2 : nr M2 = nr M) by (unfold M2; now rewrite nr_col_swap).
    assert (Hc2 : nc M2 = nc M) by (unfold M2; now rewrite nc_col_swap).
    assert (Hg2 : forall i j, get M2 i j = get M (swapn t i0 i) (swapn t j0 j)).
    { intros i j. unfold M2. rewrite get_col_swap by assumption. unfold M1. now rewrite get_row_swap by lia. }
    destruct (get_elim_guard M2 t t (S t) HM2) as (Hw & Hr & Hcc & Hg); [lia|].
    set (M3 := if S t <? nc M2 then elim_below M2 t t (S t) else M2) in *.
    apply (IH M3 (upd t i0 P) (upd t j0 Q) (S t) (S j0)); try assumption.
    + lia.
    + congruence.
    + congruence.
    + now rewrite upd_length.
    + now rewrite upd_length.
    + assert (Eg' : forall i j, gq M3 (upd t j0 Q) (S t) i j =
                       get M3 i (swapn t j0 (pi_inv (nthf Q) (seq 0 t) j))).
      { intros i j. unfold gq. rewrite pi_inv_snoc. unfold nthf at 1. rewrite nth_upd_same by lia.
        f_equal. f_equal. apply pi_inv_ext. intros k Hk. apply in_seq in Hk.
        unfold nthf. apply nth_upd_other. lia. }
      apply (inv_step A (gq M Q t) (nthf P) (nthf Q) t c i0 j0); try assumption.
      * lia.
      * lia.
      * unfold gq. now rewrite (pq_pi_inv_hi A M P Q t c HI) by assumption.
      * intros i j H1 H2. unfold gq. rewrite (pq_pi_inv_hi A M P Q t c HI) by lia. apply Hz; lia.
      * intros k Hk. unfold nthf. apply nth_upd_other. lia.
      * unfold nthf. apply nth_upd_same. lia.
      * intros k Hk. unfold nthf. apply nth_upd_other. lia.
      * unfold nthf. apply nth_upd_same. lia.
      * intros i j. rewrite Eg', Hg, !Hg2. rewrite swapn_invol, !swapn_l.
        set (rj := pi_inv (nthf Q) (seq 0 t) j).
        change (get M (swapn t i0 i) rj) with (gq M Q t (swapn t i0 i) j).
        change (get M i0 rj) with (gq M Q t i0 j).
        replace (get M (swapn t i0 i) j0) with (gq M Q t (swapn t i0 i) j0)
          by (unfold gq; now rewrite (pq_pi_inv_hi A M P Q t c HI) by assumption).
        f_equal. rewrite <- !andb_assoc. f_equal. f_equal.
        (* the elimination range: positions > t  vs  columns > j0 *)
        destruct (lt_eq_lt_dec j j0) as [[Hlt| ->]|Hgt].
        -- destruct (Nat.ltb_spec j0 j); [lia|]. cbn [andb].
           destruct (Nat.leb_spec (S t) (swapn t j0 rj)) as [Hle|Hle]; [|reflexivity]. cbn [andb].
           assert (Hrj : t <= rj).
           { destruct (Nat.le_gt_cases t rj); [assumption|]. rewrite swapn_other in Hle by lia. lia. }
           destruct (Nat.lt_ge_cases j c) as [Hjc|Hjc].
           ++ apply (inv_zero A _ _ _ _ _ HI).
              ** destruct (Nat.ltb_spec i0 t); [lia|assumption].
              ** intros k Hk E. unfold rj in Hrj. rewrite E in Hrj.
                 rewrite <- (pq_pi_piv A M P Q t c HI k Hk) in Hrj. rewrite pi_inv_pi in Hrj. lia.
           ++ unfold gq. rewrite (pq_pi_inv_hi A M P Q t c HI) by assumption. apply Hz; lia.
        -- unfold rj. rewrite (pq_pi_inv_hi A M P Q t c HI) by assumption. rewrite swapn_r.
           destruct (Nat.leb_spec (S t) t); [lia|]. destruct (Nat.ltb_spec j0 j0); [lia|]. reflexivity.
        -- unfold rj. rewrite (pq_pi_inv_hi A M P Q t c HI) by lia. rewrite swapn_other by lia.
           destruct (Nat.leb_spec (S t) j); [|lia]. destruct (Nat.ltb_spec j0 j); [|lia]. reflexivity.
Qed.

(** ** C03_pluq *)
Theorem pluq_naive_spec A P0 Q0 : wf A -> length P0 = nr A -> length Q0 = nc A ->
  pluq_spec A (pluq_naive A P0 Q0).
Proof.
  intros HA HP0 HQ0. unfold pluq_naive.
  pose proof (pluq_loop_inv A HA (nc A) A P0 Q0 0 0 ltac:(lia) HA eq_refl eq_refl HP0 HQ0
                (inv_init A HA (nthf P0) (nthf Q0))) as H.
  destruct (pluq_naive_loop (nc A) A P0 Q0 0) as [[M [P Q]] r].
  destruct H as (HM & Hnr & Hnc & HP & HQ & c & HI & HF).
  assert (HS : forall i j, get M i j = gq M Q r i (pi (nthf Q) (seq 0 r) j))
    by (intros i j; apply (pq_get M Q r)).
  unfold pluq_spec.
  apply (done_spec A (gq M Q r) P Q r c); auto.
  intros i j Hi Hj. rewrite HS. now apply (fin_outside A (gq M Q r) _ _ r c HI HF).
Qed.

Example pluq_naive_spec_hyps : exists (A : mat) (P0 Q0 : list nat), wf A /\ length P0 = nr A /\ length Q0 = nc A /\ nr A = 2.
Proof. exists (mk 2 3 [5%N; 5%N]), [9; 9], [7; 7; 7]. split; [now apply wfb_spec|repeat split]. Qed.

(** * the tail of Q: identity for the naive routines, not for the block recursion *)
Theorem ple_naive_Q_tail A P0 Q0 : wf A -> length P0 = nr A -> length Q0 = nc A ->
  let '((r, _), (_, Q)) := ple_naive A P0 Q0 in plu_Q_tail_id r Q (nc A).
Proof.
  intros HA HP0 HQ0. unfold ple_naive.
  pose proof (ple_loop_inv A HA (nr A) A P0 Q0 0 0 ltac:(lia) HA eq_refl eq_refl HP0 HQ0
                (inv_init A HA (nthf P0) (nthf Q0))) as H.
  destruct (ple_naive_loop (nr A) A P0 Q0 0 0) as [[M [P Q]] r].
  destruct H as (_ & _ & _ & _ & HQ & _). now apply fill_id_tail.
Qed.

Theorem pluq_naive_Q_tail A P0 Q0 : wf A -> length P0 = nr A -> length Q0 = nc A ->
  let '((r, _), (_, Q)) := pluq_naive A P0 Q0 in plu_Q_tail_id r Q (nc A).
Proof.
  intros HA HP0 HQ0. unfold pluq_naive.
  pose proof (pluq_loop_inv A HA (nc A) A P0 Q0 0 0 ltac:(lia) HA eq_refl eq_refl HP0 HQ0
                (inv_init A HA (nthf P0) (nthf Q0))) as H.
  destruct (pluq_naive_loop (nc A) A P0 Q0 0) as [[M [P Q]] r].
  destruct H as (_ & _ & _ & _ & HQ & _). now apply fill_id_tail.
Qed.

(** FINDING: the block-recursive _mzd_ple (model [ple_rec], here with the naive base case and
    cutoff 0) returns a Q that is NOT the identity beyond r: 2 x 130, ones at (0,0) and (1,70):
    r = 2 and Q[64] = 70.  The output still meets [ple_spec]. *)
Definition rec_witness : mat := mk 2 130 [1%N; (2 ^ 70)%N].
Theorem ple_rec_Q_tail_refuted :
  wf rec_witness /\
  let out := ple_rec ple_naive 0 rec_witness [5; 5] (repeat 3 130) in
  ple_spec rec_witness out /\ fst (fst out) = 2 /\ nth 64 (snd (snd out)) 0 = 70 /\
  ~ plu_Q_tail_id (fst (fst out)) (snd (snd out)) (nc rec_witness).
Proof.
  assert (W : wf rec_witness) by now apply wfb_spec.
  split; [exact W|]. cbv zeta. split; [|split; [|split]].
  - apply (ple_ok_spec _ _ W). now vm_compute.
  - now vm_compute.
  - now vm_compute.
  - intros H. apply plu_Q_tail_idb_spec in H. revert H. now vm_compute.
Qed.
