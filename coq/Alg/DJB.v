(* Alg/DJB.v — m4ri/djb.c, djb.h: compilation of a GF(2) matrix into a straight-line xor program
   (Bernstein's "Optimizing linear maps modulo 2") and its application.  DEFINITIONS ONLY; proofs are
   in Alg/DJBProofs.v.

   What is modelled, statement by statement:
     - mzd_compare_rows_revlex (djb.c:21-29): words compared from the last one down, 1 unless row a is
       smaller.  Rows are [N] (column j = bit j), so this is [row b <= row a] on the numbers.
       ABSTRACTED: the word array (a row of a well-formed matrix has no bits beyond ncols, so the
       padding of the last word does not take part in the comparison).
     - the binary heap of row indices (djb.c:35-110): [heap] = data[0..count), [heap_push] = the
       sift-up loop with a hole (djb.c:71-76), [heap_pop] = the sift-down loop with a hole
       (djb.c:95-109), the same index arithmetic, the same comparisons in the same order, so that ties
       between equal rows are resolved as in the C code (needed for equality of the op lists).
       ABSTRACTED: capacity/realloc (djb.c:64-68, 88-92) and the stale slots data[count..size).
     - djb_compile (djb.c:112-145): the initial pushes 0..m-1, the loop over n with heap_front /
       heap_pop / the [m >= 2 && bit] test / mzd_row_add resp. mzd_write_bit / djb_push_back /
       heap_push.  The matrix A is consumed (it ends as the zero matrix): [djb_compile_full] returns it.
     - djb_apply_mzd (djb.c:147-164, the code as it is now): the op list is executed from the last
       entry to the first, dst ^= src on the full words and on the masked last word.
   Error values:  [Err UB]   heap_front / heap_pop of an empty heap (m = 0 and n > 0: djb.c:122 reads
                             data[0] of a heap nothing was pushed to), W->width <> V->width (assert);
                  [Err OOB]  an op whose target/source is not a row; djb_apply_mzd with ops on
                             matrices of width 0 (last = -1: src[-1] is read, dst[-1] written);
                  [Err Fuel] out of fuel.
   Fuel of the main loop: ncols * (nrows + 1) + 1 — every iteration either decrements n or removes the
   bit of column n-1 from one row (NOT the number of ones of the matrix: a ^= b can increase it). *)
From Coq Require Import List NArith Arith Bool.
From M4 Require Import Base.Bits Lin.Mat Lin.Ops Word.WMat.
Import ListNotations.
Local Open Scope nat_scope.

(** (target, source, srctyp); srctyp = true: source_source (a row of V), false: source_target (a row of W) *)
Definition op := (nat * nat * bool)%type.

(** mzd_compare_rows_revlex(A, a, b) *)
Definition cmp_rows (A : mat) (a b : nat) : bool := (row A b <=? row A a)%N.

Definition heap := list nat.

(** the loop of heap_push (djb.c:71-76): [index] is the hole, [h] has the final length *)
Fixpoint sift_up (fuel : nat) (A : mat) (h : heap) (index value : nat) : res heap :=
  match fuel with
  | 0 => Err Fuel
  | S f =>
    match index with
    | 0 => Ok (upd 0 value h)
    | S _ =>
      let parent := (index - 1) / 2 in
      if cmp_rows A (nth parent h 0) value then Ok (upd index value h)
      else sift_up f A (upd index (nth parent h 0) h) parent value
    end
  end.

(** heap_push: the new slot data[count] is written before it is read; the model fills it with [value] *)
Definition heap_push (A : mat) (h : heap) (value : nat) : res heap :=
  sift_up (S (length h)) A (h ++ [value]) (length h) value.

(** the loop of heap_pop (djb.c:95-109) *)
Fixpoint sift_down (fuel : nat) (A : mat) (h : heap) (count index temp : nat) : res heap :=
  match fuel with
  | 0 => Err Fuel
  | S f =>
    let swap := 2 * index + 1 in
    if count <=? swap then Ok (upd index temp h) else
    let other := swap + 1 in
    let swap := if (other <? count) && cmp_rows A (nth other h 0) (nth swap h 0) then other else swap in
    if cmp_rows A temp (nth swap h 0) then Ok (upd index temp h)
    else sift_down f A (upd index (nth swap h 0) h) count swap temp
  end.

Definition heap_pop (A : mat) (h : heap) : res heap :=
  match h with
  | [] => Err UB
  | _ :: _ =>
    let count := length h - 1 in
    sift_down (S count) A (removelast h) count 0 (nth count h 0)
  end.

Fixpoint push_all (A : mat) (l : list nat) (h : heap) : res heap :=
  match l with
  | [] => Ok h
  | i :: t => h' <- heap_push A h i ;; push_all A t h'
  end.

(** the while loop of djb_compile (djb.c:121-141); [acc] is the op list, newest first *)
Fixpoint djb_loop (fuel : nat) (A : mat) (h : heap) (n : nat) (acc : list op) : res (mat * list op) :=
  match fuel with
  | 0 => Err Fuel
  | S f =>
    match n with
    | 0 => Ok (A, acc)
    | S n1 =>
      match h with
      | [] => Err UB
      | temp :: _ =>
        if negb (get A temp n1) then djb_loop f A h n1 acc
        else
          h1 <- heap_pop A h ;;
          let second := hd 0 h1 in
          if (2 <=? nr A) && get A second n1 then
            let A' := row_add A second temp in
            h2 <- heap_push A' h1 temp ;;
            djb_loop f A' h2 n ((temp, second, false) :: acc)
          else
            let A' := write_bit A temp n1 false in
            h2 <- heap_push A' h1 temp ;;
            djb_loop f A' h2 n ((temp, n1, true) :: acc)
      end
    end
  end.

Definition djb_fuel (A : mat) : nat := nc A * (nr A + 1) + 1.

(** djb_compile: the final content of A and z->(target, source, srctyp)[0..length) *)
Definition djb_compile_full (A : mat) : res (mat * list op) :=
  h <- push_all A (seq 0 (nr A)) [] ;;
  r <- djb_loop (djb_fuel A) A h (nc A) [] ;;
  Ok (fst r, rev (snd r)).
Definition djb_compile (A : mat) : res (list op) :=
  r <- djb_compile_full A ;; Ok (snd r).
Definition djb_compile_run (A : mat) : option (list op) :=
  match djb_compile A with Ok l => Some l | Err _ => None end.

(** one iteration of djb_apply_mzd *)
Definition apply_op (o : op) (W V : mat) : res mat :=
  let '(t, s, ty) := o in
  if nr W <=? t then Err OOB else
  if (if ty then nr V else nr W) <=? s then Err OOB else
  let src := if ty then row V s else row W s in
  Ok (set_row W t (N.lxor (row W t) (N.land src (N.ones (N.of_nat (nc W)))))).

(** executes [l] from its head *)
Fixpoint replay (l : list op) (W V : mat) : res mat :=
  match l with
  | [] => Ok W
  | o :: t => W' <- apply_op o W V ;; replay t W' V
  end.

Definition width (c : nat) : nat := (c + 63) / 64.

(** djb_apply_mzd(z, W, V): i = length-1 down to 0 *)
Definition djb_apply (ops : list op) (W V : mat) : res mat :=
  if negb (width (nc W) =? width (nc V)) then Err UB else
  match ops with
  | [] => Ok W
  | _ :: _ => if nc W =? 0 then Err OOB else replay (rev ops) W V
  end.
Definition djb_apply_run (ops : list op) (W V : mat) : option mat :=
  match djb_apply ops W V with Ok M => Some M | Err _ => None end.
