(* Alg/SolveClosed.v — closes the two `_cfg_partial` theorems of SolveProofs2/3: with the block recursion of
   PLE proven (Alg/PLEProofs10.v: pluq_rec_spec_all, base_ok_naive) the solve and kernel models that use the
   library's own PLUQ route (_mzd_pluq = pluq_rec, any PLE cutoff) meet C06 / C07 with no hypothesis left. *)
From Coq Require Import List NArith ZArith Arith Bool.
From M4 Require Import Base.Bits Lin.Mat Lin.Ops Lin.Spec Alg.Gauss Alg.PLE Alg.PLESpec Alg.PLEProofs4 Alg.PLEProofs10
  Alg.TRSM Alg.Solve Alg.SolveProofs Alg.SolveProofs2 Alg.SolveProofs3.
Import ListNotations.

Lemma mzp_init_length n : length (mzp_init n) = n.
Proof. unfold mzp_init. now rewrite seq_length. Qed.

Lemma pluq_rec_id_spec ple_cutoff A : wf A -> pluq_spec A (pluq_rec_id ple_cutoff A).
Proof.
  intros HA. unfold pluq_rec_id. apply pluq_rec_spec_all; [exact base_ok_naive|exact HA| |]; apply mzp_init_length.
Qed.

Theorem solve_verdict_cfg ple_cutoff cutoff A B :
  wf A -> wf B -> nr B = Nat.max (nr A) (nc A) ->
  match solve_left_cfg ple_cutoff cutoff true A B with
  | Some (ret, B') =>
      (ret = 0%Z \/ ret = (-1)%Z) /\
      (ret = 0%Z <-> exists X, wf X /\ nr X = nc A /\ nc X = nc B /\ mmul (pad A) X = B) /\
      (ret = 0%Z -> wf B' /\ nr B' = nr B /\ nc B' = nc B /\ mmul A (top (nc A) B') = top (nr A) B)
  | None => False
  end.
Proof. apply solve_verdict_cfg_partial. intros A0 H0. now apply pluq_rec_id_spec. Qed.

Theorem kernel_cfg ple_cutoff cutoff A : wf A ->
  match kernel_left_cfg ple_cutoff cutoff A with
  | Some None => rank A = nc A
  | Some (Some K) =>
      rank A < nc A /\ wf K /\ nr K = nc A /\ nc K = nc A - rank A /\
      mmul A K = mzero (nr A) (nc K) /\
      (forall c, bounded (nc K) c -> mul_row c (rows (mtrans K)) = 0%N -> c = 0%N)
  | None => False
  end.
Proof. apply kernel_cfg_partial. intros A0 H0. now apply pluq_rec_id_spec. Qed.
