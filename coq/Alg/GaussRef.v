(* Alg/GaussRef.v — uniqueness of the NON-reduced row echelon form under the "left-most column,
   first row" pivot rule (DESIGN.md C02, [ref_canonical_unique]).

   Forward elimination computes  E = L^-1 * P * A  with P a product of row interchanges and L
   unit lower triangular.  Three facts are proved here, none of which mentions an algorithm:

   (1) [first_row_rule A sw] — an intrinsic description of the interchange sequence [sw]:
       the k-th interchange is (k, j) where, in  B = (first k interchanges applied to A),
       c is the left-most column in which some row >= k of B is not (on the columns <= c) a
       combination of the first k rows of B, and j is the first such row; and the sequence stops
       when no such column exists.  [first_row_rule_det]: it determines [sw] uniquely.
   (2) [ref_le_unique]: for a fixed B = P*A there is at most one row echelon form E with
       "row i of E = row i of B + a combination of earlier rows of E" (uniqueness of the
       LE decomposition).
   (3) [gauss_ref_rule]: the model [gauss_delayed false 0] satisfies (1) and (2).

   Hence [ref_canonical_unique] / [ref_canonical]: every forward elimination that obeys the pivot
   rule and only ever adds earlier rows to later rows returns exactly
   [snd (gauss_delayed false 0 A)]. *)
From Coq Require Import List NArith Arith Lia Bool Sorted.
From M4 Require Import Base.Bits Lin.Mat Lin.MatAlg Lin.Ops Lin.Spec Lin.Span Lin.Echelon
                       Alg.Gauss Alg.GaussProofs.
Import ListNotations.
Local Open Scope nat_scope.

(** * more on [vmul] *)
Lemma testbit_vmul_n c M j n : length (rows M) <= n ->
  N.testbit (vmul c M) (N.of_nat j) = xsum n (fun k => N.testbit c (N.of_nat k) && get M k j).
Proof.
  intros Hn. rewrite testbit_vmul. symmetry. apply xsum_extend; [assumption|].
  intros k Hk. unfold get. rewrite row_overflow by lia. rewrite N.bits_0. apply andb_false_r.
Qed.

(** a combination of the first s rows only depends on the first s rows *)
Lemma vmul_agree x M M' s : bounded s x -> (forall k, k < s -> row M k = row M' k) ->
  vmul x M = vmul x M'.
Proof.
  intros Hb H. apply bits_ext_nat. intros j.
  rewrite (testbit_vmul_n x M j (Nat.max (length (rows M)) (length (rows M')))) by lia.
  rewrite (testbit_vmul_n x M' j (Nat.max (length (rows M)) (length (rows M')))) by lia.
  apply xsum_ext. intros k _. destruct (Nat.lt_ge_cases k s) as [Hk|Hk].
  - unfold get. now rewrite H.
  - now rewrite Hb.
Qed.

Lemma vmul_all_false x M : (forall k, N.testbit x (N.of_nat k) = false) -> vmul x M = 0%N.
Proof.
  intros H. rewrite <- (vmul_0 M). apply vmul_ext. intros k _. now rewrite H, N.bits_0.
Qed.

(** closure under the rows actually used by the coefficient vector *)
Lemma mul_row_closed_used (P : N -> Prop) :
  P 0%N -> (forall a b, P a -> P b -> P (N.lxor a b)) ->
  forall rs x, (forall k, N.testbit x (N.of_nat k) = true -> P (nth k rs 0%N)) -> P (mul_row x rs).
Proof.
  intros P0 Px rs. induction rs as [|r rs IH]; intros x H; cbn [mul_row]; [exact P0|].
  apply Px.
  - destruct (N.odd x) eqn:Ho; [|exact P0]. apply (H 0).
    change (N.of_nat 0) with 0%N. now rewrite N.bit0_odd.
  - apply IH. intros k Hk. apply (H (S k)). now rewrite <- testbit_div2_nat.
Qed.

(** * combinations of the first s rows *)
Definition spanlt (M : mat) (s : nat) (v : N) : Prop := exists x, bounded s x /\ vmul x M = v.

Lemma spanlt_0 M s : spanlt M s 0%N.
Proof. exists 0%N. split; [apply bounded_0|apply vmul_0]. Qed.

Lemma spanlt_lxor M s u v : spanlt M s u -> spanlt M s v -> spanlt M s (N.lxor u v).
Proof.
  intros [a [Ha <-]] [b [Hb <-]]. exists (N.lxor a b). split; [now apply bounded_lxor|apply vmul_lxor].
Qed.

Lemma spanlt_row M s k : k < s -> spanlt M s (row M k).
Proof. intros Hk. exists (2 ^ N.of_nat k)%N. split; [now apply bounded_pow2|apply vmul_pow2]. Qed.

Lemma spanlt_mono M s s' v : s <= s' -> spanlt M s v -> spanlt M s' v.
Proof. intros Hle [x [Hb E]]. exists x. split; [now apply (bounded_mono s)|assumption]. Qed.

Lemma spanlt_trans M M' s v : (forall k, k < s -> spanlt M' s (row M k)) ->
  spanlt M s v -> spanlt M' s v.
Proof.
  intros H [x [Hb <-]]. unfold vmul at 1.
  apply (mul_row_closed_used (spanlt M' s)); [apply spanlt_0|apply spanlt_lxor|].
  intros k Hk. apply H. destruct (Nat.lt_ge_cases k s); [assumption|]. rewrite Hb in Hk by assumption. discriminate.
Qed.

(** * The pivot rule, intrinsically *)
Definition apply_swaps (sw : list (nat * nat)) (A : mat) : mat :=
  fold_left (fun M ab => row_swap M (fst ab) (snd ab)) sw A.

(** row j of B agrees on the columns <= c with a combination of the first k rows of B *)
Definition dep (B : mat) (k j c : nat) : Prop :=
  exists x, bounded k x /\
    forall col, col <= c -> N.testbit (row B j) (N.of_nat col) = N.testbit (vmul x B) (N.of_nat col).

Definition rule_at (A : mat) (sw : list (nat * nat)) (k : nat) : Prop :=
  fst (nth k sw (0, 0)) = k /\ k <= snd (nth k sw (0, 0)) < nr A /\
  exists c,
    ~ dep (apply_swaps (firstn k sw) A) k (snd (nth k sw (0, 0))) c /\
    (forall j', k <= j' < snd (nth k sw (0, 0)) -> dep (apply_swaps (firstn k sw) A) k j' c) /\
    (forall c' j', c' < c -> k <= j' -> dep (apply_swaps (firstn k sw) A) k j' c').

Definition first_row_rule (A : mat) (sw : list (nat * nat)) : Prop :=
  (forall k, k < length sw -> rule_at A sw k) /\
  (forall j c, length sw <= j -> dep (apply_swaps sw A) (length sw) j c).

(** E = L^-1 B, L unit lower triangular: every row of E is the row of B plus earlier rows of E *)
Definition lower_rel (B E : mat) : Prop :=
  forall i, exists x, bounded i x /\ row E i = N.lxor (row B i) (vmul x E).

(** ** the rule determines the interchanges *)
Lemma firstn_S_nth {T} (l : list T) k d : k < length l -> firstn (S k) l = firstn k l ++ [nth k l d].
Proof.
  revert k; induction l as [|h t IH]; intros k Hk; cbn [length] in Hk; [lia|].
  destruct k as [|k]; [reflexivity|]. cbn [firstn nth app]. f_equal. apply IH. lia.
Qed.

Lemma rule_at_det A sw sw' k : firstn k sw = firstn k sw' ->
  rule_at A sw k -> rule_at A sw' k -> nth k sw (0, 0) = nth k sw' (0, 0).
Proof.
  intros Hpre [Hf [Hj [c [Hn [Hfirst Hleft]]]]] [Hf' [Hj' [c' [Hn' [Hfirst' Hleft']]]]].
  rewrite <- Hpre in *.
  destruct (nth k sw (0, 0)) as [a j], (nth k sw' (0, 0)) as [a' j']. cbn [fst snd] in *.
  subst a a'. f_equal.
  assert (Hc : c = c').
  { destruct (Nat.lt_trichotomy c c') as [Hlt|[E|Hgt]]; [exfalso|assumption|exfalso].
    - apply Hn. apply Hleft'; [assumption|lia].
    - apply Hn'. apply Hleft; [assumption|lia]. }
  subst c'.
  destruct (Nat.lt_trichotomy j j') as [Hlt|[E|Hgt]]; [exfalso|assumption|exfalso].
  - apply Hn. apply Hfirst'. lia.
  - apply Hn'. apply Hfirst. lia.
Qed.

Lemma first_row_rule_prefix A sw sw' : first_row_rule A sw -> first_row_rule A sw' ->
  forall k, k <= length sw -> k <= length sw' -> firstn k sw = firstn k sw'.
Proof.
  intros [H _] [H' _]. induction k as [|k IH]; intros Hk Hk'; [reflexivity|].
  rewrite (firstn_S_nth sw k (0, 0)), (firstn_S_nth sw' k (0, 0)) by lia.
  rewrite IH by lia. f_equal. f_equal.
  apply (rule_at_det A sw sw' k); [apply IH; lia|apply H; lia|apply H'; lia].
Qed.

Lemma first_row_rule_length_le A sw sw' : first_row_rule A sw -> first_row_rule A sw' ->
  length sw' <= length sw.
Proof.
  intros H H'. destruct (Nat.le_gt_cases (length sw') (length sw)) as [Hle|Hlt]; [assumption|exfalso].
  pose proof (first_row_rule_prefix A sw sw' H H' (length sw) (Nat.le_refl _) (Nat.lt_le_incl _ _ Hlt)) as Hpre.
  rewrite firstn_all in Hpre.
  destruct H as [_ Hstop]. destruct H' as [H' _].
  destruct (H' (length sw) Hlt) as [_ [Hj [c [Hn _]]]].
  rewrite <- Hpre in Hn. apply Hn. apply Hstop. lia.
Qed.

Theorem first_row_rule_det A sw sw' : first_row_rule A sw -> first_row_rule A sw' -> sw = sw'.
Proof.
  intros H H'.
  pose proof (first_row_rule_length_le A sw sw' H H').
  pose proof (first_row_rule_length_le A sw' sw H' H).
  pose proof (first_row_rule_prefix A sw sw' H H' (length sw)) as Hpre.
  rewrite firstn_all in Hpre. rewrite Hpre by lia.
  replace (length sw) with (length sw') by lia. apply firstn_all.
Qed.

(** ** uniqueness of the echelon factor for a fixed B *)
Theorem ref_le_unique B E E' p p' : is_ref E p -> is_ref E' p' ->
  lower_rel B E -> lower_rel B E' -> forall i, row E' i = row E i.
Proof.
  intros HE HE' HL HL'. intros i. induction i as [i IH] using lt_wf_ind.
  destruct (HL i) as [x [Hx Ex]]. destruct (HL' i) as [x' [Hx' Ex']].
  (* row E' i = row E i + a combination y of earlier rows of E *)
  assert (Hagree : vmul x' E' = vmul x' E) by (apply (vmul_agree x' E' E i); assumption).
  set (y := N.lxor x x').
  assert (Hy : bounded i y) by now apply bounded_lxor.
  assert (Ey : row E' i = vmul (N.lxor (2 ^ N.of_nat i) y) E).
  { rewrite vmul_lxor, vmul_pow2. unfold y. rewrite vmul_lxor, Ex', Hagree, Ex.
    apply bits_ext_nat. intros j. rewrite !N.lxor_spec.
    destruct (N.testbit (row B i) _), (N.testbit (vmul x E) _), (N.testbit (vmul x' E) _); reflexivity. }
  set (cf := N.lxor (2 ^ N.of_nat i) y) in *.
  assert (Hcf_i : N.testbit cf (N.of_nat i) = true).
  { unfold cf. rewrite N.lxor_spec, testbit_pow2_nat, Nat.eqb_refl, Hy by lia. reflexivity. }
  assert (Hcf_lt : forall k, k < i -> N.testbit cf (N.of_nat k) = N.testbit y (N.of_nat k)).
  { intros k Hk. unfold cf. rewrite N.lxor_spec, testbit_pow2_nat.
    destruct (Nat.eqb_spec i k); [lia|apply xorb_false_l]. }
  destruct (least_witness (fun k => N.testbit cf (N.of_nat k)) (length p)) as [[k0 [Hk0 [Hc0 Hmin]]]|Hnone].
  - destruct (Nat.lt_trichotomy k0 i) as [Hlt|[->|Hgt]].
    + (* an earlier row is really used: the lead of row E' i would be an earlier pivot *)
      exfalso. pose proof (ref_vmul_lead E p cf k0 HE Hk0 Hc0 Hmin) as Hl. rewrite <- Ey in Hl.
      assert (Hi' : i < length p').
      { destruct (Nat.lt_ge_cases i (length p')); [assumption|].
        rewrite (ref_row_zero E' p') in Hl by assumption. discriminate. }
      rewrite (ref_lead E' p' i HE' Hi') in Hl. injection Hl as Hl.
      pose proof (ref_lead E' p' k0 HE' ltac:(lia)) as Hl0. rewrite (IH k0 Hlt) in Hl0.
      rewrite (ref_lead E p k0 HE Hk0) in Hl0. injection Hl0 as Hl0.
      pose proof (sorted_nth_lt p' k0 i (ref_sorted E' p' HE') Hlt Hi'). lia.
    + (* no earlier row is used *)
      rewrite Ey. rewrite <- (vmul_pow2 E i). apply vmul_ext. intros k _.
      unfold cf. rewrite N.lxor_spec.
      replace (N.testbit y (N.of_nat k)) with false; [apply xorb_false_r|]. symmetry.
      destruct (Nat.lt_ge_cases k i) as [Hk|Hk]; [|now apply Hy].
      rewrite <- Hcf_lt by assumption. now apply Hmin.
    + rewrite (Hmin i Hgt) in Hcf_i. discriminate.
  - (* the combination uses no non-zero row of E at all *)
    rewrite Ey, (ref_vmul_zero E p cf HE Hnone). symmetry. apply (ref_row_zero E p i HE).
    destruct (Nat.lt_ge_cases i (length p)) as [Hi|Hi]; [|assumption].
    rewrite (Hnone i Hi) in Hcf_i. discriminate.
Qed.

(** ** the non-reduced echelon form under the pivot rule is unique *)
Theorem ref_canonical_unique A E E' sw sw' p p' :
  first_row_rule A sw -> first_row_rule A sw' ->
  lower_rel (apply_swaps sw A) E -> lower_rel (apply_swaps sw' A) E' ->
  is_ref E p -> is_ref E' p' -> wf E -> wf E' -> nr E = nr E' -> nc E = nc E' ->
  E = E' /\ p = p' /\ sw = sw'.
Proof.
  intros Hsw Hsw' HL HL' HE HE' Hwf Hwf' Hnr Hnc.
  pose proof (first_row_rule_det A sw sw' Hsw Hsw') as <-.
  pose proof (ref_le_unique _ E E' p p' HE HE' HL HL') as Hrows.
  assert (E1 : E = E').
  { apply mat_ext; try assumption. intros i j _ _. unfold get. now rewrite Hrows. }
  split; [assumption|]. split; [|reflexivity]. subst E'.
  apply (ref_pivots_unique E E); [assumption..|apply row_equiv_refl].
Qed.

(** * The model obeys the rule *)
Lemma apply_swaps_app sw ab A :
  apply_swaps (sw ++ [ab]) A = row_swap (apply_swaps sw A) (fst ab) (snd ab).
Proof. unfold apply_swaps. now rewrite fold_left_app. Qed.

(** both triangular relations between the working matrix M and B = P*A, with the combinations
    confined to the [s] pivot rows found so far *)
Definition lrel (s : nat) (M B : mat) : Prop :=
  forall i,
    (exists x, bounded (Nat.min i s) x /\ row M i = N.lxor (row B i) (vmul x M)) /\
    (exists y, bounded (Nat.min i s) y /\ row M i = N.lxor (row B i) (vmul y B)).

Lemma lrel_init A : lrel 0 A A.
Proof.
  intros i. split; exists 0%N; (split; [apply bounded_0|]); now rewrite vmul_0, N.lxor_0_r.
Qed.

Lemma lrel_span_MB s M B v : lrel s M B -> spanlt M s v -> spanlt B s v.
Proof.
  intros H. apply spanlt_trans. intros k Hk. destruct (H k) as [_ [y [Hy ->]]].
  apply spanlt_lxor; [now apply spanlt_row|]. exists y. split; [|reflexivity].
  apply (bounded_mono (Nat.min k s)); [lia|assumption].
Qed.

Lemma lrel_span_BM s M B v : lrel s M B -> spanlt B s v -> spanlt M s v.
Proof.
  intros H. apply spanlt_trans. intros k Hk. destruct (H k) as [[x [Hx E]] _].
  replace (row B k) with (N.lxor (row M k) (vmul x M)) by (rewrite E; apply lxor_cancel_r).
  apply spanlt_lxor; [now apply spanlt_row|]. exists x. split; [|reflexivity].
  apply (bounded_mono (Nat.min k s)); [lia|assumption].
Qed.

Lemma lrel_lower_rel s M B : lrel s M B -> lower_rel B M.
Proof.
  intros H i. destruct (H i) as [[x [Hx E]] _]. exists x. split; [|assumption].
  apply (bounded_mono (Nat.min i s)); [lia|assumption].
Qed.

(** the same interchange on both sides *)
Lemma lrel_swap s M B j : s <= j -> j < length (rows M) -> length (rows B) = length (rows M) ->
  lrel s M B -> lrel s (row_swap M s j) (row_swap B s j).
Proof.
  intros Hsj Hj Hl H.
  assert (Hrow : forall i, exists i', row (row_swap M s j) i = row M i' /\
                                      row (row_swap B s j) i = row B i' /\ Nat.min i' s = Nat.min i s).
  { intros i. rewrite !row_row_swap by lia.
    destruct (Nat.eqb_spec i j) as [->|Hnj]; [exists s; repeat split; lia|].
    destruct (Nat.eqb_spec i s) as [->|Hns]; [exists j; repeat split; lia|].
    exists i. now repeat split. }
  assert (HagM : forall x, bounded s x -> vmul x (row_swap M s j) = vmul x M).
  { intros x Hx. apply (vmul_agree x _ _ s Hx). intros k Hk. rewrite row_row_swap by lia.
    destruct (Nat.eqb_spec k j); [lia|]. destruct (Nat.eqb_spec k s); [lia|reflexivity]. }
  assert (HagB : forall x, bounded s x -> vmul x (row_swap B s j) = vmul x B).
  { intros x Hx. apply (vmul_agree x _ _ s Hx). intros k Hk. rewrite row_row_swap by lia.
    destruct (Nat.eqb_spec k j); [lia|]. destruct (Nat.eqb_spec k s); [lia|reflexivity]. }
  intros i. destruct (Hrow i) as [i' [E1 [E2 Hmin]]]. destruct (H i') as [[x [Hx Ex]] [y [Hy Ey]]].
  rewrite Hmin in Hx, Hy. split.
  - exists x. split; [assumption|]. rewrite E1, E2, HagM; [assumption|].
    apply (bounded_mono (Nat.min i s)); [lia|assumption].
  - exists y. split; [assumption|]. rewrite E1, E2, HagB; [assumption|].
    apply (bounded_mono (Nat.min i s)); [lia|assumption].
Qed.

(** adding pivot row s to some of the rows below it *)
Lemma lrel_elim s M B M2 (b : nat -> bool) :
  (forall i, row M2 i = N.lxor (row M i) (if b i then row M s else 0%N)) ->
  (forall i, b i = true -> s < i) ->
  lrel s M B -> lrel (S s) M2 B.
Proof.
  intros Hrow Hb H.
  assert (Hsame : forall k, k <= s -> row M2 k = row M k).
  { intros k Hk. rewrite Hrow. destruct (b k) eqn:E; [apply Hb in E; lia|apply N.lxor_0_r]. }
  assert (Hag : forall x, bounded (S s) x -> vmul x M2 = vmul x M).
  { intros x Hx. apply (vmul_agree x _ _ (S s) Hx). intros k Hk. apply Hsame. lia. }
  intros i. destruct (H i) as [[x [Hx Ex]] [y [Hy Ey]]]. rewrite Hrow.
  destruct (b i) eqn:Ebi.
  - apply Hb in Ebi.
    destruct (H s) as [_ [ys [Hys Eys]]]. rewrite Nat.min_id in Hys.
    replace (Nat.min i (S s)) with (S s) by lia. replace (Nat.min i s) with s in Hx, Hy by lia.
    split.
    + exists (N.lxor x (2 ^ N.of_nat s)). split.
      * apply bounded_lxor; [apply (bounded_mono s); [lia|assumption]|apply bounded_pow2; lia].
      * rewrite vmul_lxor, vmul_pow2, (Hsame s (Nat.le_refl s)), Hag
          by (apply (bounded_mono s); [lia|assumption]).
        rewrite Ex at 1. now rewrite N.lxor_assoc.
    + exists (N.lxor y (N.lxor (2 ^ N.of_nat s) ys)). split.
      * apply bounded_lxor; [apply (bounded_mono s); [lia|assumption]|].
        apply bounded_lxor; [apply bounded_pow2; lia|apply (bounded_mono s); [lia|assumption]].
      * rewrite !vmul_lxor, vmul_pow2. rewrite Ey at 1. rewrite Eys at 1. now rewrite N.lxor_assoc.
  - rewrite N.lxor_0_r. split.
    + exists x. split; [apply (bounded_mono (Nat.min i s)); [lia|assumption]|].
      rewrite Hag; [assumption|]. apply (bounded_mono (Nat.min i s)); [lia|assumption].
    + exists y. split; [apply (bounded_mono (Nat.min i s)); [lia|assumption]|assumption].
Qed.

(** a row of M that vanishes up to column c0 gives a dependent row of B *)
Lemma dep_of_zero s M B j c0 : lrel s M B ->
  (forall col, col <= c0 -> get M j col = false) -> dep B s j c0.
Proof.
  intros H Hz. destruct (H j) as [[x [Hx Ex]] _].
  assert (Hsp : spanlt M s (vmul x M)).
  { exists x. split; [|reflexivity]. apply (bounded_mono (Nat.min j s)); [lia|assumption]. }
  apply (lrel_span_MB s M B _ H) in Hsp as [y [Hy Ey]].
  exists y. split; [assumption|]. intros col Hcol. specialize (Hz col Hcol). unfold get in Hz.
  rewrite Ex, N.lxor_spec in Hz. rewrite Ey. now apply xorb_eq.
Qed.

(** a combination of the leading echelon rows has a one at the pivot of the first row it uses *)
Lemma echelon_prefix_bit M piv u k0 : StronglySorted lt piv ->
  (forall i, i < length piv -> lead (row M i) = Some (nth i piv 0)) ->
  bounded (length piv) u -> k0 < length piv ->
  N.testbit u (N.of_nat k0) = true -> (forall k, k < k0 -> N.testbit u (N.of_nat k) = false) ->
  N.testbit (vmul u M) (N.of_nat (nth k0 piv 0)) = true.
Proof.
  intros Hs Hlead Hu Hk0 Hbit Hmin. rewrite testbit_vmul.
  assert (Hlt : k0 < length (rows M)).
  { apply row_nonzero_lt. apply (lead_nonzero _ (nth k0 piv 0)). now apply Hlead. }
  rewrite (xsum_single _ _ k0 Hlt).
  - rewrite Hbit. unfold get. apply lead_bit. now apply Hlead.
  - intros k _ Hne. destruct (Nat.lt_ge_cases k k0) as [Hk|Hk]; [now rewrite Hmin|].
    destruct (Nat.lt_ge_cases k (length piv)) as [Hk'|Hk']; [|now rewrite Hu].
    unfold get. rewrite (lead_before (row M k) (nth k piv 0)); [apply andb_false_r|now apply Hlead|].
    apply sorted_nth_lt; [assumption|lia|assumption].
Qed.

(** the row the model picks is independent of the pivot rows on the columns <= c *)
Lemma not_dep_of_pivot c M B piv j : StronglySorted lt piv ->
  (forall k, In k piv -> k < c) ->
  (forall i, i < length piv -> lead (row M i) = Some (nth i piv 0)) ->
  lrel (length piv) M B ->
  (forall col, col < c -> get M j col = false) -> get M j c = true ->
  ~ dep B (length piv) j c.
Proof.
  intros Hs Hlt Hlead H Hz Hg [y [Hy Hdep]]. set (s := length piv) in *.
  destruct (H j) as [[x [Hx Ex]] _].
  assert (Hsp : spanlt B s (vmul y B)) by (exists y; now split).
  apply (lrel_span_BM s M B _ H) in Hsp as [z [Hz' Ez]].
  set (u := N.lxor x z).
  assert (Hu : bounded s u).
  { apply bounded_lxor; [apply (bounded_mono (Nat.min j s)); [lia|assumption]|assumption]. }
  (* on the columns <= c, row j of M is the combination u of the pivot rows of M *)
  assert (Hcols : forall col, col <= c -> get M j col = N.testbit (vmul u M) (N.of_nat col)).
  { intros col Hcol. unfold get, u. rewrite Ex, vmul_lxor, !N.lxor_spec, Hdep, Ez by assumption.
    apply xorb_comm. }
  destruct (least_witness (fun k => N.testbit u (N.of_nat k)) s) as [[k0 [Hk0 [Hb0 Hmin]]]|Hnone].
  - pose proof (echelon_prefix_bit M piv u k0 Hs Hlead Hu Hk0 Hb0 Hmin) as Hbit.
    assert (Hp : nth k0 piv 0 < c) by (apply Hlt, nth_In; exact Hk0).
    rewrite <- Hcols in Hbit by lia. rewrite Hz in Hbit by assumption. discriminate.
  - rewrite Hcols in Hg by lia. rewrite vmul_all_false, N.bits_0 in Hg; [discriminate|].
    intros k. destruct (Nat.lt_ge_cases k s); [now apply Hnone|now apply Hu].
Qed.

(** ** invariant of the column loop (non-reduced mode), extending [ginv false] *)
Record rinv (A : mat) (c : nat) (M : mat) (piv : list nat) (sw : list (nat * nat)) : Prop := mk_rinv {
  ri_g : ginv false A c M piv;
  ri_len : length sw = length piv;
  ri_Blen : length (rows (apply_swaps sw A)) = length (rows M);
  ri_rel : lrel (length piv) M (apply_swaps sw A);
  ri_rule : forall k, k < length sw -> rule_at A sw k
}.

Lemma rinv_init A : wf A -> rinv A 0 A [] [].
Proof.
  intros HA. constructor; try reflexivity.
  - now apply ginv_init.
  - apply lrel_init.
  - intros k Hk. cbn [length] in Hk. lia.
Qed.

Lemma rule_at_app A sw ab k : k < length sw -> rule_at A sw k -> rule_at A (sw ++ [ab]) k.
Proof.
  intros Hk H. unfold rule_at in *. rewrite app_nth1 by assumption.
  rewrite firstn_app. replace (k - length sw) with 0 by lia. cbn [firstn]. now rewrite app_nil_r.
Qed.

Lemma rinv_step A c M piv sw : rinv A c M piv sw ->
  exists piv' sw', snd (gauss_step false (M, length piv) c) = length piv' /\
                   rinv A (S c) (fst (gauss_step false (M, length piv) c)) piv' sw'.
Proof.
  intros [Hg Hlen HBlen Hrel Hrule]. unfold gauss_step.
  set (s := length piv) in *. set (B := apply_swaps sw A) in *.
  destruct (find_row_from (rows M) 0 s c) as [j|] eqn:E; cbn [fst snd].
  - destruct (find_row_Some M s c j E) as [Hj [Hgj Hminj]].
    pose proof (wf_len M (gi_wf _ _ _ _ _ Hg)) as HlM.
    pose proof (gi_equiv _ _ _ _ _ Hg) as [HnrA _].
    exists (piv ++ [c]), (sw ++ [(s, j)]).
    assert (Hlen' : length (piv ++ [c]) = S s) by (rewrite app_length; cbn [length]; unfold s; lia).
    split; [now rewrite Hlen'|].
    assert (Hj' : s <= j < nr M) by lia.
    destruct (ginv_swap false A c M piv j Hg Hj' Hgj) as [Hg1 Hgs]. fold s in Hg1, Hgs.
    set (M1 := row_swap M s j) in *.
    assert (Hs1 : s < nr M1) by (cbn [nr M1 row_swap set_row]; lia).
    pose proof (ginv_elim false A c M1 piv Hg1 Hs1 Hgs) as Hg2. fold s in Hg2.
    assert (Hpz : forall col, col < c -> get M1 s col = false)
      by (intros col Hcol; apply (gi_zero _ _ _ _ _ Hg1); [unfold s; lia|assumption]).
    constructor.
    + exact Hg2.
    + rewrite app_length, Hlen'. cbn [length]. unfold s. lia.
    + rewrite apply_swaps_app. cbn [fst snd]. fold B.
      rewrite rows_eliminate_length. unfold M1. now rewrite !rows_row_swap_length.
    + rewrite Hlen', apply_swaps_app. cbn [fst snd]. fold B.
      apply (lrel_elim s M1 (row_swap B s j) _ (elim_cond false M1 s c)).
      * intros i. rewrite row_eliminate.
        rewrite (land_colmask_id (nc M1) c (row M1 s));
          [reflexivity|apply wf_row_bounded, (gi_wf _ _ _ _ _ Hg1)|exact Hpz].
      * intros i Hi. unfold elim_cond in Hi. cbn [orb] in Hi.
        apply andb_true_iff in Hi as [_ Hi]. apply andb_true_iff in Hi as [Hi _].
        apply andb_true_iff in Hi as [_ Hi]. now apply Nat.ltb_lt.
      * apply lrel_swap; [lia|lia|assumption|exact Hrel].
    + intros k Hk. rewrite app_length in Hk. cbn [length] in Hk.
      destruct (Nat.eq_dec k (length sw)) as [->|Hne].
      * (* the new interchange obeys the rule *)
        unfold rule_at. rewrite app_nth2 by lia. rewrite Nat.sub_diag. cbn [nth fst snd].
        rewrite firstn_app, firstn_all, Nat.sub_diag. cbn [firstn]. rewrite app_nil_r. fold B.
        rewrite Hlen. fold s. split; [reflexivity|]. split; [lia|].
        exists c. split; [|split].
        -- apply (not_dep_of_pivot c M B piv j);
             [apply (gi_sorted _ _ _ _ _ Hg)|apply (gi_lt _ _ _ _ _ Hg)|apply (gi_lead _ _ _ _ _ Hg)
             |exact Hrel| |exact Hgj].
           intros col Hcol. apply (gi_zero _ _ _ _ _ Hg); [unfold s in *; lia|assumption].
        -- intros j' Hj''. apply (dep_of_zero s M B j' c Hrel). intros col Hcol.
           destruct (Nat.eq_dec col c) as [->|Hnc]; [now apply Hminj|].
           apply (gi_zero _ _ _ _ _ Hg); [unfold s in *; lia|lia].
        -- intros c' j' Hc' Hj''. apply (dep_of_zero s M B j' c' Hrel). intros col Hcol.
           apply (gi_zero _ _ _ _ _ Hg); [unfold s in *; lia|lia].
      * apply rule_at_app; [lia|]. apply Hrule. lia.
  - exists piv, sw. split; [reflexivity|]. constructor; try assumption.
    apply ginv_skip; [assumption|]. now apply find_row_None.
Qed.

Lemma rinv_fold A n : forall c M piv sw, rinv A c M piv sw ->
  exists piv' sw',
    snd (fold_left (gauss_step false) (seq c n) (M, length piv)) = length piv' /\
    rinv A (c + n) (fst (fold_left (gauss_step false) (seq c n) (M, length piv))) piv' sw'.
Proof.
  induction n as [|n IH]; intros c M piv sw H; cbn [seq fold_left].
  - exists piv, sw. cbn [fst snd]. rewrite Nat.add_0_r. now split.
  - destruct (rinv_step A c M piv sw H) as [piv1 [sw1 [Hs1 Hg1]]].
    destruct (gauss_step false (M, length piv) c) as [M1 s1]. cbn [fst snd] in Hs1, Hg1. subst s1.
    destruct (IH (S c) M1 piv1 sw1 Hg1) as [piv' [sw' [Hs' Hg']]]. exists piv', sw'.
    replace (c + S n) with (S c + n) by lia. now split.
Qed.

(** the model's output is a row echelon form obtained under the pivot rule *)
Theorem gauss_ref_rule A : wf A ->
  exists sw piv, first_row_rule A sw /\
    lower_rel (apply_swaps sw A) (snd (gauss_delayed false 0 A)) /\
    is_ref (snd (gauss_delayed false 0 A)) piv /\ length sw = length piv.
Proof.
  intros HA. unfold gauss_delayed. rewrite Nat.sub_0_r.
  destruct (rinv_fold A (nc A) 0 A [] [] (rinv_init A HA)) as [piv [sw [Hs H]]].
  cbn [length Nat.add] in Hs, H.
  destruct (fold_left (gauss_step false) (seq 0 (nc A)) (A, 0)) as [M sr]. cbn [fst snd] in *.
  destruct H as [Hg Hlen HBlen Hrel Hrule].
  destruct (ginv_final false A M piv Hg) as [Hwf [Heq Href]].
  exists sw, piv. split; [split; [assumption|]|split; [|split]].
  - intros j c Hj. rewrite Hlen. apply (dep_of_zero (length piv) M _ j c Hrel).
    intros col _. apply (ref_get_zero M piv); [assumption|lia].
  - now apply (lrel_lower_rel (length piv)).
  - assumption.
  - assumption.
Qed.

(** every forward elimination that obeys the pivot rule and only adds earlier rows to later rows
    returns exactly the model's non-reduced output *)
Theorem ref_canonical A E' sw' p' : wf A -> wf E' -> nr E' = nr A -> nc E' = nc A ->
  first_row_rule A sw' -> lower_rel (apply_swaps sw' A) E' -> is_ref E' p' ->
  E' = snd (gauss_delayed false 0 A).
Proof.
  intros HA HE' Hnr Hnc Hsw' HL' Href'.
  destruct (gauss_ref_rule A HA) as [sw [piv [Hsw [HL [Href _]]]]].
  destruct (gauss_spec_ex false A HA) as [q [_ [Hwf [[Hnr' [Hnc' _]] _]]]].
  symmetry.
  apply (ref_canonical_unique A _ E' sw sw' piv p'); try assumption; congruence.
Qed.
