(* Alg/DJBProofs.v — proofs about Alg/DJB.v (m4ri/djb.c):
     - the binary heap: heap_push / heap_pop (the hole loops of the C code) return a permutation
       (value :: h resp. h without its root) that is again heap-ordered; the root is a maximal row;
     - djb_compile terminates within [djb_fuel], consumes A (final content 0), produces ops in range;
     - djb_spec: djb_apply (djb_compile A) 0 V = A*V, via the invariant
         A_original * V = replay (ops so far, newest first) (A_current * V). *)
From Coq Require Import List NArith Arith Bool Lia ZArith ZifyBool ZifyNat ZifyN Permutation.
From M4 Require Import Base.Bits Lin.Mat Lin.MatAlg Lin.Ops Lin.OpsProofs Word.WMat Alg.DJB.
From M4 Require Lin.Span.
Import ListNotations.
Local Open Scope nat_scope.
Ltac Zify.zify_post_hook ::= Z.div_mod_to_equations.

(* ------------------------------------------------------------------------------------------ *)
(** * Lists: exchanging two positions is a permutation *)
Lemma upd_upd_same {T} i (x y : T) l : upd i x (upd i y l) = upd i x l.
Proof. revert i; induction l as [|a l IH]; intros [|i]; cbn [upd]; try reflexivity. now rewrite IH. Qed.

Lemma perm_nth_upd {T} (d a : T) l j : j < length l -> Permutation (nth j l d :: upd j a l) (a :: l).
Proof.
  revert j; induction l as [|c l IH]; intros j Hj; [cbn in Hj; lia|].
  destruct j as [|j]; cbn [nth upd].
  - apply perm_swap.
  - eapply perm_trans; [apply perm_swap|]. eapply perm_trans; [|apply perm_swap].
    apply perm_skip. apply IH. cbn in Hj. lia.
Qed.

Lemma perm_swap_upd {T} (d : T) l i j : i < length l -> j < length l ->
  Permutation (upd j (nth i l d) (upd i (nth j l d) l)) l.
Proof.
  revert i j; induction l as [|a l IH]; intros i j Hi Hj; [cbn in Hi; lia|].
  cbn [length] in Hi, Hj.
  destruct i as [|i], j as [|j]; cbn [nth upd].
  - reflexivity.
  - apply perm_nth_upd. lia.
  - apply perm_nth_upd. lia.
  - apply perm_skip. apply IH; lia.
Qed.

Lemma last_nth_len {T} (l : list T) (d : T) : last l d = nth (length l - 1) l d.
Proof.
  induction l as [|a l IH]; [reflexivity|]. destruct l as [|b l]; [reflexivity|].
  change (last (a :: b :: l) d) with (last (b :: l) d). rewrite IH.
  cbn [length]. rewrite !Nat.sub_succ, !Nat.sub_0_r. reflexivity.
Qed.

Lemma removelast_snoc {T} (l : list T) (d : T) : l <> [] -> l = removelast l ++ [nth (length l - 1) l d].
Proof. intros Hl. rewrite <- last_nth_len. now apply app_removelast_last. Qed.

Lemma length_removelast {T} (l : list T) : length (removelast l) = length l - 1.
Proof.
  destruct l as [|a l]; [reflexivity|].
  pose proof (removelast_snoc (a :: l) a ltac:(discriminate)) as H.
  apply (f_equal (@length T)) in H. rewrite app_length in H. cbn [length] in *. lia.
Qed.

Lemma nth_removelast {T} (l : list T) d i : i < length l - 1 -> nth i (removelast l) d = nth i l d.
Proof.
  intros Hi. destruct l as [|a l]; [reflexivity|].
  rewrite (removelast_snoc (a :: l) d ltac:(discriminate)) at 2.
  rewrite app_nth1; [reflexivity|]. now rewrite length_removelast.
Qed.

(* ------------------------------------------------------------------------------------------ *)
(** * The heap *)
Section Heap.
  Variable A : mat.
  Notation key x := (row A x).
  Notation "h .[ i ]" := (nth i h 0) (at level 9, format "h .[ i ]").

  (** heap order: every element is at most its parent (index (i-1)/2) *)
  Definition horder (h : heap) : Prop :=
    forall i, 0 < i < length h -> (key h.[i] <= key h.[(i - 1) / 2])%N.

  Lemma cmp_true a b : cmp_rows A a b = true <-> (key b <= key a)%N.
  Proof. unfold cmp_rows. apply N.leb_le. Qed.
  Lemma cmp_false a b : cmp_rows A a b = false <-> (key a < key b)%N.
  Proof. unfold cmp_rows. apply N.leb_gt. Qed.

  Lemma root_max h : horder h -> forall i, i < length h -> (key h.[i] <= key h.[0])%N.
  Proof.
    intros Hh i. induction i as [i IH] using lt_wf_ind. intros Hi.
    destruct i as [|i]; [lia|].
    eapply N.le_trans; [apply Hh; lia|]. apply IH; lia.
  Qed.

  (** ** sift-up *)
  Lemma sift_up_ok : forall fuel h index value, index < fuel -> index < length h ->
    let g := upd index value h in
    (forall i, 0 < i < length h -> i <> index -> (key g.[i] <= key g.[(i - 1) / 2])%N) ->
    (0 < index -> forall i, 0 < i < length h -> (i - 1) / 2 = index ->
                  (key g.[i] <= key g.[(index - 1) / 2])%N) ->
    exists r, sift_up fuel A h index value = Ok r /\ Permutation r g /\ horder r.
  Proof.
    induction fuel as [|fuel IH]; intros h index value Hf Hi g Hex Hgp; [lia|].
    assert (Lg : length g = length h) by apply upd_length.
    cbn [sift_up]. destruct index as [|i0].
    - exists g. split; [reflexivity|]. split; [reflexivity|].
      intros i Hi'. rewrite Lg in Hi'. apply Hex; lia.
    - set (index := S i0) in *. set (p := (index - 1) / 2).
      assert (Hp : p < index) by (unfold p; lia).
      assert (Hgp' : g.[p] = h.[p]).
      { unfold g. rewrite nth_upd. destruct (Nat.eqb_spec p index); [lia|reflexivity]. }
      assert (Hgi : g.[index] = value).
      { unfold g. rewrite nth_upd. rewrite Nat.eqb_refl. destruct (Nat.ltb_spec index (length h)); [reflexivity|lia]. }
      destruct (cmp_rows A h.[p] value) eqn:Hc.
      + exists g. split; [reflexivity|]. split; [reflexivity|].
        intros i Hi'. rewrite Lg in Hi'. destruct (Nat.eq_dec i index) as [->|Hne].
        * fold p. rewrite Hgi, Hgp'. now apply cmp_true.
        * apply Hex; lia.
      + apply cmp_false in Hc.
        set (h' := upd index h.[p] h). set (g' := upd p value h').
        assert (Lh' : length h' = length h) by apply upd_length.
        assert (Hg' : g' = upd p g.[index] (upd index g.[p] g)).
        { rewrite Hgi, Hgp'. unfold g', h', g. now rewrite upd_upd_same. }
        assert (Hn : forall k, g'.[k] = if k =? p then value else if k =? index then h.[p] else g.[k]).
        { intros k. unfold g', h'. rewrite !nth_upd, !upd_length.
          destruct (Nat.eqb_spec k p), (Nat.eqb_spec k index), (Nat.ltb_spec p (length h)),
            (Nat.ltb_spec index (length h)); cbn [andb]; try lia; try reflexivity.
          unfold g. rewrite nth_upd. destruct (Nat.eqb_spec k index); [lia|reflexivity]. }
        destruct (IH h' p value) as (r & Hr & Hperm & Hord); try lia.
        * (* heap order except at p *)
          fold g'. intros i Hi' Hne. rewrite Lh' in Hi'. rewrite !Hn.
          destruct (Nat.eqb_spec i p); [lia|].
          destruct (Nat.eqb_spec i index) as [->|Hni].
          -- fold p. rewrite Nat.eqb_refl. lia.
          -- destruct (Nat.eqb_spec ((i - 1) / 2) p) as [Hpp|Hpp].
             ++ (* sibling below p *)
                specialize (Hex i Hi' Hni). rewrite Hpp, Hgp' in Hex. lia.
             ++ destruct (Nat.eqb_spec ((i - 1) / 2) index) as [Hpi|Hpi].
                ** (* child of the old hole *)
                   specialize (Hgp ltac:(lia) i Hi' Hpi). fold p in Hgp. rewrite Hgp' in Hgp. exact Hgp.
                ** apply Hex; assumption.
        * (* children of p against the grandparent *)
          fold g'. intros Hp0 i Hi' Hpp. rewrite Lh' in Hi'. rewrite !Hn.
          destruct (Nat.eqb_spec i p); [lia|].
          assert (Hq : (p - 1) / 2 < p) by lia.
          destruct (Nat.eqb_spec ((p - 1) / 2) p); [lia|].
          destruct (Nat.eqb_spec ((p - 1) / 2) index); [lia|].
          assert (Hpg : (key h.[p] <= key g.[(p - 1) / 2])%N).
          { rewrite <- Hgp'. apply Hex; lia. }
          destruct (Nat.eqb_spec i index) as [->|Hni]; [exact Hpg|].
          eapply N.le_trans; [|exact Hpg]. rewrite <- Hgp', <- Hpp. apply Hex; lia.
        * exists r. split; [exact Hr|]. split; [|exact Hord].
          eapply perm_trans; [exact Hperm|]. fold g'. rewrite Hg'.
          apply perm_swap_upd; rewrite Lg; lia.
  Qed.

  Lemma heap_push_ok h v : horder h ->
    exists r, heap_push A h v = Ok r /\ Permutation r (v :: h) /\ horder r.
  Proof.
    intros Hh. unfold heap_push.
    assert (Hg : upd (length h) v (h ++ [v]) = h ++ [v]).
    { clear. induction h as [|a h IH]; cbn [length app upd]; [reflexivity|]. now rewrite IH. }
    destruct (sift_up_ok (S (length h)) (h ++ [v]) (length h) v) as (r & Hr & Hp & Ho).
    - lia.
    - rewrite app_length. cbn. lia.
    - rewrite Hg. intros i Hi Hne. rewrite app_length in Hi. cbn [length] in Hi.
      rewrite !app_nth1 by lia. apply Hh. lia.
    - intros _ i Hi Hpar. rewrite app_length in Hi. cbn [length] in Hi. lia.
    - exists r. split; [exact Hr|]. split; [|exact Ho].
      rewrite Hg in Hp. eapply perm_trans; [exact Hp|]. symmetry. apply Permutation_cons_append.
  Qed.

  (** ** sift-down *)
  Lemma sift_down_ok : forall fuel h index temp, length h < index + fuel ->
    (index < length h \/ (index = 0 /\ h = [])) ->
    let g := upd index temp h in
    (forall i, 0 < i < length h -> (i - 1) / 2 <> index -> (key g.[i] <= key g.[(i - 1) / 2])%N) ->
    (0 < index -> forall i, 0 < i < length h -> (i - 1) / 2 = index ->
                  (key g.[i] <= key g.[(index - 1) / 2])%N) ->
    exists r, sift_down fuel A h (length h) index temp = Ok r /\ Permutation r g /\ horder r.
  Proof.
    induction fuel as [|fuel IH]; intros h index temp Hf Hi g Hex Hgp; [lia|].
    assert (Lg : length g = length h) by apply upd_length.
    cbn [sift_down].
    destruct (Nat.leb_spec (length h) (2 * index + 1)) as [Hnc|Hch].
    { exists g. split; [reflexivity|]. split; [reflexivity|].
      intros i Hi'. rewrite Lg in Hi'. apply Hex; lia. }
    destruct Hi as [Hi|[_ ->]]; [|cbn in Hch; lia].
    set (sw0 := 2 * index + 1) in *. set (other := sw0 + 1).
    assert (Hgk : forall k, k <> index -> g.[k] = h.[k]).
    { intros k Hk. unfold g. rewrite nth_upd. destruct (Nat.eqb_spec k index); [lia|reflexivity]. }
    assert (Hgi : g.[index] = temp).
    { unfold g. rewrite nth_upd, Nat.eqb_refl. destruct (Nat.ltb_spec index (length h)); [reflexivity|lia]. }
    set (sw := if (other <? length h) && cmp_rows A h.[other] h.[sw0] then other else sw0).
    assert (Hsw : (sw = sw0 \/ (sw = other /\ other < length h)) /\
                  (forall i, 0 < i < length h -> (i - 1) / 2 = index -> (key h.[i] <= key h.[sw])%N)).
    { unfold sw. destruct (Nat.ltb_spec other (length h)) as [Ho|Ho]; cbn [andb].
      - destruct (cmp_rows A h.[other] h.[sw0]) eqn:Hc.
        + apply cmp_true in Hc. split; [right; auto|]. intros i Hi' Hpar.
          assert (i = sw0 \/ i = other) as [->| ->] by (unfold other, sw0; lia); [exact Hc|lia].
        + apply cmp_false in Hc. split; [left; auto|]. intros i Hi' Hpar.
          assert (i = sw0 \/ i = other) as [->| ->] by (unfold other, sw0; lia); lia.
      - split; [left; auto|]. intros i Hi' Hpar.
        assert (i = sw0) as -> by (unfold other, sw0 in *; lia). lia. }
    destruct Hsw as [Hsw Hbig]. clearbody sw.
    assert (Hswr : index < sw < length h /\ (sw - 1) / 2 = index) by (unfold other, sw0 in *; lia).
    destruct Hswr as [Hswr Hswp].
    destruct (cmp_rows A temp h.[sw]) eqn:Hc.
    + apply cmp_true in Hc. exists g. split; [reflexivity|]. split; [reflexivity|].
      intros i Hi'. rewrite Lg in Hi'. destruct (Nat.eq_dec ((i - 1) / 2) index) as [Hpar|Hpar].
      * rewrite Hpar, Hgi, Hgk by lia. eapply N.le_trans; [apply Hbig; lia|exact Hc].
      * apply Hex; lia.
    + apply cmp_false in Hc.
      set (h' := upd index h.[sw] h). set (g' := upd sw temp h').
      assert (Lh' : length h' = length h) by apply upd_length.
      assert (Hg' : g' = upd sw g.[index] (upd index g.[sw] g)).
      { unfold g', h'. rewrite Hgi, Hgk by lia. unfold g. now rewrite upd_upd_same. }
      assert (Hn : forall k, g'.[k] = if k =? sw then temp else if k =? index then h.[sw] else g.[k]).
      { intros k. unfold g', h'. rewrite !nth_upd, !upd_length.
        destruct (Nat.eqb_spec k sw), (Nat.eqb_spec k index), (Nat.ltb_spec sw (length h)),
          (Nat.ltb_spec index (length h)); cbn [andb]; try lia; try reflexivity.
        symmetry. apply Hgk. assumption. }
      destruct (IH h' sw temp) as (r & Hr & Hperm & Hord); try (rewrite ?Lh'; lia).
      * fold g'. intros i Hi' Hpar. rewrite Lh' in Hi'. rewrite !Hn.
        destruct (Nat.eqb_spec ((i - 1) / 2) sw); [lia|].
        destruct (Nat.eqb_spec i sw) as [->|Hns].
        -- rewrite Hswp, Nat.eqb_refl. lia.
        -- destruct (Nat.eqb_spec i index) as [->|Hni].
           ++ (* the child moved up against the grandparent *)
              destruct (Nat.eqb_spec ((index - 1) / 2) index); [lia|].
              specialize (Hgp ltac:(lia) sw ltac:(lia) Hswp). rewrite Hgk in Hgp by lia. exact Hgp.
           ++ destruct (Nat.eqb_spec ((i - 1) / 2) index) as [Hpi|Hpi].
              ** rewrite Hgk by lia. apply Hbig; lia.
              ** apply Hex; lia.
      * fold g'. intros _ i Hi' Hpar. rewrite Lh' in Hi'. rewrite !Hn, Hswp, Nat.eqb_refl.
        destruct (Nat.eqb_spec i sw); [lia|]. destruct (Nat.eqb_spec i index); [lia|].
        destruct (Nat.eqb_spec index sw); [lia|].
        specialize (Hex i Hi' ltac:(lia)). rewrite Hpar, (Hgk sw) in Hex by lia. exact Hex.
      * rewrite Lh' in Hr. exists r. split; [exact Hr|]. split; [|exact Hord].
        eapply perm_trans; [exact Hperm|]. fold g'. rewrite Hg'.
        apply perm_swap_upd; rewrite Lg; lia.
  Qed.

  Lemma heap_pop_ok x t : horder (x :: t) ->
    exists r, heap_pop A (x :: t) = Ok r /\ Permutation (x :: r) (x :: t) /\ horder r.
  Proof.
    intros Hh. unfold heap_pop. set (h := x :: t) in *.
    set (count := length h - 1). set (h0 := removelast h). set (temp := h.[count]).
    assert (Lh0 : length h0 = count) by apply length_removelast.
    assert (Hsn : h = h0 ++ [temp]) by (apply removelast_snoc; discriminate).
    destruct (sift_down_ok (S count) h0 0 temp) as (r & Hr & Hp & Ho).
    - lia.
    - destruct h0; [right; auto|left; cbn; lia].
    - intros i Hi Hpar. rewrite !nth_upd.
      destruct (Nat.eqb_spec i 0); [lia|]. destruct (Nat.eqb_spec ((i - 1) / 2) 0); [lia|]. cbn [andb].
      unfold h0. rewrite !nth_removelast by (fold h0; lia). apply Hh. fold h0 in Lh0. unfold count in *. lia.
    - lia.
    - rewrite Lh0 in Hr. exists r. split; [exact Hr|]. split; [|exact Ho].
      destruct h0 as [|y t0] eqn:E0.
      + cbn [upd] in Hp. apply Permutation_sym, Permutation_nil in Hp. subst r. rewrite Hsn. cbn [app].
        rewrite Hsn in *. cbn [app] in *. unfold h in Hsn. inversion Hsn. reflexivity.
      + cbn [upd] in Hp. rewrite Hsn. cbn [app]. unfold h in Hsn. cbn [app] in Hsn. inversion Hsn; subst y.
        apply perm_skip. eapply perm_trans; [exact Hp|]. apply Permutation_cons_append.
  Qed.
End Heap.

Lemma horder_ext A A' h : (forall x, In x h -> row A x = row A' x) -> horder A h -> horder A' h.
Proof.
  intros He Hh i Hi. rewrite <- !He by (apply nth_In; lia). apply Hh. exact Hi.
Qed.

(* ------------------------------------------------------------------------------------------ *)
(** * One op undoes one elimination step *)
Lemma land_ones_bounded n r : bounded n r -> N.land r (N.ones (N.of_nat n)) = r.
Proof. intros H. rewrite N.land_ones. apply N.mod_small. now apply bounded_lt. Qed.

Lemma mat_rows_ext A B : wf A -> wf B -> nr A = nr B -> nc A = nc B ->
  (forall i, i < nr A -> row A i = row B i) -> A = B.
Proof.
  destruct A as [ra ca la], B as [rb cb lb]. intros [HA _] [HB _]. cbn [nr nc rows] in *.
  intros -> -> H. f_equal. apply (nth_ext _ _ 0%N 0%N); [congruence|]. intros n Hn. apply H. lia.
Qed.

Lemma row_row_add A s d k : wf A -> d < nr A ->
  row (row_add A s d) k = if k =? d then N.lxor (row A d) (row A s) else row A k.
Proof.
  intros HA Hd. unfold row_add, row_add_offset. rewrite row_set_row by (rewrite (wf_len A HA); lia).
  destruct (k =? d); [|reflexivity]. f_equal.
  unfold colmask. rewrite N.shiftl_0_r, Nat.sub_0_r. apply land_ones_bounded. now apply wf_row_bounded.
Qed.

Lemma row_write_bit0 A i j k : wf A -> i < nr A -> get A i j = true ->
  row (write_bit A i j false) k = if k =? i then N.lxor (row A i) (2 ^ N.of_nat j) else row A k.
Proof.
  intros HA Hi Hg. unfold write_bit. rewrite row_set_row by (rewrite (wf_len A HA); lia).
  destruct (k =? i); [|reflexivity].
  apply bits_ext_nat. intros b. rewrite N.ldiff_spec, N.lxor_spec, testbit_pow2_nat.
  destruct (Nat.eqb_spec j b) as [<-|]; [unfold get in Hg; rewrite Hg; reflexivity|].
  now rewrite andb_true_r, xorb_false_r.
Qed.

Lemma lxor_cancel a b : N.lxor (N.lxor a b) b = a.
Proof. now rewrite N.lxor_assoc, N.lxor_nilpotent, N.lxor_0_r. Qed.

Lemma set_row_mmul A A' V t r : wf A -> wf A' -> wf V -> nr A' = nr A -> nc A' = nc A -> t < nr A ->
  (forall k, k <> t -> row A' k = row A k) -> r = mul_row (row A t) (rows V) ->
  set_row (mmul A' V) t r = mmul A V.
Proof.
  intros HA HA' HV Hr Hc Ht Hk ->.
  assert (Hw : wf (mmul A' V)) by now apply wf_mmul.
  apply mat_rows_ext; auto using wf_mmul.
  - apply wf_set_row; [assumption|]. rewrite <- row_mmul. cbn [nc mmul].
    change (nc V) with (nc (mmul A V)). apply wf_row_bounded. now apply wf_mmul.
  - intros i _. rewrite row_set_row by (rewrite wf_len by assumption; cbn [nr mmul]; lia).
    destruct (Nat.eqb_spec i t) as [->|Hne]; [now rewrite row_mmul|].
    rewrite !row_mmul, Hk by assumption. reflexivity.
Qed.

Lemma step_target A V t s : wf A -> wf V -> nc A = nr V -> t < nr A -> s < nr A -> s <> t ->
  apply_op (t, s, false) (mmul (row_add A s t) V) V = Ok (mmul A V).
Proof.
  intros HA HV Hd Ht Hs Hne. set (A' := row_add A s t).
  assert (HA' : wf A') by now apply wf_row_add.
  unfold apply_op. cbn [nr nc mmul]. change (nr A') with (nr A).
  destruct (Nat.leb_spec (nr A) t); [lia|]. destruct (Nat.leb_spec (nr A) s); [lia|].
  f_equal. apply (set_row_mmul A A'); auto.
  - intros k Hk. unfold A'. rewrite row_row_add by assumption. destruct (Nat.eqb_spec k t); [lia|reflexivity].
  - rewrite land_ones_bounded.
    2:{ change (nc V) with (nc (mmul A' V)). apply wf_row_bounded. now apply wf_mmul. }
    rewrite !row_mmul, <- mul_row_lxor. f_equal. unfold A'. rewrite !row_row_add by assumption.
    rewrite Nat.eqb_refl. destruct (Nat.eqb_spec s t); [lia|]. apply lxor_cancel.
Qed.

Lemma step_source A V t j : wf A -> wf V -> nc A = nr V -> t < nr A -> j < nc A -> get A t j = true ->
  apply_op (t, j, true) (mmul (write_bit A t j false) V) V = Ok (mmul A V).
Proof.
  intros HA HV Hd Ht Hj Hg. set (A' := write_bit A t j false).
  assert (HA' : wf A') by now apply wf_write_bit.
  unfold apply_op. cbn [nr nc mmul]. change (nr A') with (nr A).
  destruct (Nat.leb_spec (nr A) t); [lia|]. destruct (Nat.leb_spec (nr V) j); [lia|].
  f_equal. apply (set_row_mmul A A'); auto.
  - intros k Hk. unfold A'. rewrite row_write_bit0 by assumption. destruct (Nat.eqb_spec k t); [lia|reflexivity].
  - rewrite land_ones_bounded by now apply wf_row_bounded.
    replace (row V j) with (mul_row (2 ^ N.of_nat j) (rows V)) by apply Span.mul_row_pow2.
    rewrite row_mmul, <- mul_row_lxor. f_equal. unfold A'. rewrite row_write_bit0 by assumption.
    rewrite Nat.eqb_refl. apply lxor_cancel.
Qed.

Lemma replay_app l1 l2 W V : replay (l1 ++ l2) W V = (W1 <- replay l1 W V ;; replay l2 W1 V).
Proof.
  revert W; induction l1 as [|o l1 IH]; intros W; cbn [app replay bind]; [reflexivity|].
  destruct (apply_op o W V); cbn [bind]; [apply IH|reflexivity].
Qed.

(* ------------------------------------------------------------------------------------------ *)
(** * The potential that bounds the number of iterations *)
Fixpoint cnt (f : nat -> bool) (m : nat) : nat :=
  match m with 0 => 0 | S k => cnt f k + (if f k then 1 else 0) end.
Lemma cnt_le f m : cnt f m <= m.
Proof. induction m as [|m IH]; cbn [cnt]; [lia|]. destruct (f m); lia. Qed.
Lemma cnt_ext f f' m : (forall i, i < m -> f' i = f i) -> cnt f' m = cnt f m.
Proof. induction m as [|m IH]; intros H; cbn [cnt]; [reflexivity|]. rewrite IH, H by auto. reflexivity. Qed.
Lemma cnt_flip f f' m t : t < m -> f t = true -> f' t = false -> (forall i, i <> t -> f' i = f i) ->
  S (cnt f' m) = cnt f m.
Proof.
  induction m as [|m IH]; intros Ht Hf Hf' Ho; [lia|]. cbn [cnt].
  destruct (Nat.eq_dec t m) as [->|Hne].
  - rewrite Hf, Hf'. rewrite (cnt_ext f f' m) by (intros; apply Ho; lia). lia.
  - rewrite Ho by lia. rewrite <- IH by (auto; lia). lia.
Qed.

Definition mu (A : mat) (n : nat) : nat :=
  match n with 0 => 0 | S n1 => n1 * (nr A + 1) + cnt (fun i => get A i n1) (nr A) + 1 end.
Lemma mu_le A n : mu A n <= n * (nr A + 1).
Proof. destruct n as [|n]; cbn [mu]; [lia|]. pose proof (cnt_le (fun i => get A i n) (nr A)). lia. Qed.

(* ------------------------------------------------------------------------------------------ *)
(** * The main loop *)
Definition inv (A : mat) (h : heap) (n : nat) : Prop :=
  wf A /\ Permutation h (seq 0 (nr A)) /\ horder A h /\
  (forall i, i < nr A -> bounded n (row A i)) /\ n <= nc A /\ (n = 0 \/ 0 < nr A).

Lemma perm_seq_facts h m : Permutation h (seq 0 m) ->
  length h = m /\ NoDup h /\ (forall x, In x h <-> x < m).
Proof.
  intros Hp. split; [|split].
  - rewrite (Permutation_length Hp). apply seq_length.
  - eapply Permutation_NoDup; [symmetry; exact Hp|apply seq_NoDup].
  - intros x. split; intros Hx.
    + apply (Permutation_in _ Hp), in_seq in Hx. lia.
    + apply (Permutation_in _ (Permutation_sym Hp)), in_seq. lia.
Qed.

Definition op_ok (m c : nat) (o : op) : Prop :=
  fst (fst o) < m /\ (if snd o then snd (fst o) < c else snd (fst o) < m).

Lemma djb_loop_ok V : wf V -> forall fuel A h n acc, inv A h n -> nc A = nr V -> mu A n < fuel ->
  exists new, djb_loop fuel A h n acc = Ok (mzero (nr A) (nc A), new ++ acc) /\
    replay new (mmul (mzero (nr A) (nc A)) V) V = Ok (mmul A V) /\
    Forall (op_ok (nr A) (nc A)) new.
Proof.
  intros HV. induction fuel as [|fuel IH]; intros A h n acc Hinv Hd Hmu; [lia|].
  destruct Hinv as (HA & Hperm & Hord & Hbd & Hn & Hpos).
  destruct (perm_seq_facts h (nr A) Hperm) as (Hlen & Hnd & Hin).
  cbn [djb_loop]. destruct n as [|n1].
  { (* all rows are 0 *)
    assert (Hz : A = mzero (nr A) (nc A)).
    { apply mat_rows_ext; auto using wf_mzero. intros i Hi.
      assert (Hr : row A i = 0%N).
      { apply N.bits_inj_0. intros b. rewrite (testbit_of_nat_to_nat _ b). apply Hbd; [assumption|lia]. }
      rewrite Hr. unfold row, mzero. cbn [rows]. now rewrite nth_repeat. }
    exists []. cbn [app replay]. rewrite <- Hz. auto. }
  destruct Hpos as [Hpos|Hpos]; [discriminate|].
  destruct h as [|temp t]; [cbn in Hlen; lia|].
  assert (Htemp : temp < nr A) by (apply Hin; now left).
  assert (Hmax : forall i, i < nr A -> (row A i <= row A temp)%N).
  { intros i Hi. apply Hin in Hi. apply (In_nth _ _ 0) in Hi as (k & Hk & <-).
    apply (root_max A (temp :: t) Hord k Hk). }
  destruct (get A temp n1) eqn:Hbit; cbn [negb].
  2:{ (* the column is finished *)
    destruct (IH A (temp :: t) n1 acc) as (new & Hrun & Hrep & Hok); auto.
    - refine (conj HA (conj Hperm (conj Hord (conj _ (conj _ _))))); [|lia|right; assumption].
      assert (Ht1 : bounded n1 (row A temp)).
      { intros b Hb. destruct (Nat.eq_dec b n1) as [->|]; [exact Hbit|]. apply (Hbd temp Htemp). lia. }
      intros i Hi. apply bounded_lt. eapply N.le_lt_trans; [apply Hmax; assumption|]. now apply bounded_lt.
    - pose proof (mu_le A n1). cbn [mu] in Hmu. lia.
    - exists new. auto. }
  (* eliminate the bit of column n1 in row temp *)
  destruct (heap_pop_ok A temp t Hord) as (h1 & Hpop & Hp1 & Ho1).
  rewrite Hpop. cbn [bind].
  assert (Hp1' : Permutation (temp :: h1) (seq 0 (nr A))) by (eapply perm_trans; eauto).
  destruct (perm_seq_facts _ _ Hp1') as (Hlen1 & Hnd1 & Hin1).
  assert (Hnotin : ~ In temp h1) by (inversion Hnd1; assumption).
  set (second := hd 0 h1).
  assert (Hstep : forall A' o, wf A' -> nr A' = nr A -> nc A' = nc A ->
            (forall k, k <> temp -> row A' k = row A k) -> bounded (S n1) (row A' temp) ->
            get A' temp n1 = false -> apply_op o (mmul A' V) V = Ok (mmul A V) -> op_ok (nr A) (nc A) o ->
            exists new, (h2 <- heap_push A' h1 temp ;; djb_loop fuel A' h2 (S n1) (o :: acc)) =
                        Ok (mzero (nr A) (nc A), new ++ acc) /\
              replay new (mmul (mzero (nr A) (nc A)) V) V = Ok (mmul A V) /\
              Forall (op_ok (nr A) (nc A)) new).
  { intros A' o HA' Hr' Hc' Hrows Hbt Hbit' Hop Hoo.
    assert (Ho1' : horder A' h1).
    { apply (horder_ext A); [|exact Ho1]. intros x Hx. symmetry. apply Hrows. intros ->. contradiction. }
    destruct (heap_push_ok A' h1 temp Ho1') as (h2 & Hpush & Hp2 & Ho2).
    rewrite Hpush. cbn [bind].
    destruct (IH A' h2 (S n1) (o :: acc)) as (new & Hrun & Hrep & Hok).
    - refine (conj HA' (conj _ (conj Ho2 (conj _ (conj _ _))))).
      + rewrite Hr'. eapply perm_trans; eauto.
      + rewrite Hr'. intros i Hi. destruct (Nat.eq_dec i temp) as [->|Hne]; [exact Hbt|].
        rewrite Hrows by assumption. now apply Hbd.
      + lia.
      + right. lia.
    - congruence.
    - cbn [mu] in *. rewrite Hr'.
      assert (Hc : S (cnt (fun i => get A' i n1) (nr A)) = cnt (fun i => get A i n1) (nr A)).
      { apply (cnt_flip _ _ _ temp); auto. intros i Hi. unfold get. now rewrite Hrows. }
      lia.
    - rewrite Hr', Hc' in *. exists (new ++ [o]). rewrite <- app_assoc. cbn [app]. split; [exact Hrun|]. split.
      + rewrite replay_app, Hrep. cbn [bind replay]. rewrite Hop. reflexivity.
      + apply Forall_app. split; [exact Hok|constructor; [exact Hoo|constructor]]. }
  destruct ((2 <=? nr A) && get A second n1) eqn:Hbr.
  - apply andb_true_iff in Hbr as [Hm2 Hb2]. apply Nat.leb_le in Hm2.
    assert (Hsec : In second h1).
    { unfold second. destruct h1 as [|s1 t1]; [cbn in Hlen1; lia|now left]. }
    assert (Hsm : second < nr A) by (apply Hin1; now right).
    assert (Hsne : second <> temp) by (intros E; rewrite E in Hsec; contradiction).
    apply Hstep.
    + now apply wf_row_add.
    + reflexivity.
    + reflexivity.
    + intros k Hk. rewrite row_row_add by assumption. destruct (Nat.eqb_spec k temp); [lia|reflexivity].
    + rewrite row_row_add, Nat.eqb_refl by assumption. apply bounded_lxor; apply Hbd; assumption.
    + rewrite get_row_add by assumption. rewrite Hbit, Nat.eqb_refl, Hb2. reflexivity.
    + apply step_target; auto.
    + split; cbn [fst snd]; assumption.
  - assert (Hn1 : n1 < nc A) by lia.
    apply Hstep.
    + now apply wf_write_bit.
    + reflexivity.
    + reflexivity.
    + intros k Hk. rewrite row_write_bit0 by assumption. destruct (Nat.eqb_spec k temp); [lia|reflexivity].
    + unfold write_bit. rewrite row_set_row by (rewrite (wf_len A HA); lia).
      rewrite Nat.eqb_refl. apply bounded_ldiff. now apply Hbd.
    + rewrite get_write_bit by (rewrite wf_len by assumption; lia). now rewrite !Nat.eqb_refl.
    + apply step_source; auto.
    + split; cbn [fst snd]; assumption.
Qed.

(* ------------------------------------------------------------------------------------------ *)
(** * djb_compile and djb_apply_mzd *)
Lemma push_all_ok A : forall l h, horder A h ->
  exists r, push_all A l h = Ok r /\ Permutation r (l ++ h) /\ horder A r.
Proof.
  induction l as [|i l IH]; intros h Hh; cbn [push_all app].
  - exists h. auto.
  - destruct (heap_push_ok A h i Hh) as (h1 & H1 & P1 & O1). rewrite H1. cbn [bind].
    destruct (IH h1 O1) as (r & Hr & Pr & Or). exists r. split; [exact Hr|]. split; [|exact Or].
    eapply perm_trans; [exact Pr|]. eapply perm_trans; [apply Permutation_app_head; exact P1|].
    symmetry. apply Permutation_middle.
Qed.

Lemma horder_nil A : horder A [].
Proof. intros i Hi. cbn in Hi. lia. Qed.

(** djb_compile terminates within [djb_fuel A], leaves A = 0, and the program it returns, executed
    from its last op to its first on W = 0, computes A*V; all ops address existing rows *)
Theorem djb_compile_full_spec A V : wf A -> wf V -> nc A = nr V -> (0 < nr A \/ nc A = 0) ->
  exists ops, djb_compile_full A = Ok (mzero (nr A) (nc A), ops) /\
    replay (rev ops) (mzero (nr A) (nc V)) V = Ok (mmul A V) /\
    Forall (op_ok (nr A) (nc A)) ops.
Proof.
  intros HA HV Hd Hpos. unfold djb_compile_full.
  destruct (push_all_ok A (seq 0 (nr A)) [] (horder_nil A)) as (h & Hh & Ph & Oh).
  rewrite Hh. cbn [bind]. rewrite app_nil_r in Ph.
  destruct (djb_loop_ok V HV (djb_fuel A) A h (nc A) []) as (new & Hrun & Hrep & Hok).
  - refine (conj HA (conj Ph (conj Oh (conj _ (conj (le_n _) _))))).
    + intros i _. now apply wf_row_bounded.
    + destruct Hpos; auto.
  - exact Hd.
  - pose proof (mu_le A (nc A)). unfold djb_fuel. lia.
  - rewrite Hrun. cbn [bind fst snd]. rewrite app_nil_r. exists (rev new). split; [reflexivity|].
    rewrite rev_involutive. split; [|apply Forall_rev; exact Hok].
    rewrite <- Hrep. f_equal. rewrite Hd. symmetry. apply mmul_zero_l. exact HV.
Qed.

Theorem djb_compile_terminates A : wf A -> (0 < nr A \/ nc A = 0) ->
  exists ops, djb_compile A = Ok ops /\ djb_compile_run A = Some ops /\ Forall (op_ok (nr A) (nc A)) ops.
Proof.
  intros HA Hpos.
  destruct (djb_compile_full_spec A (mzero (nc A) 1) HA (wf_mzero _ _) eq_refl Hpos) as (ops & Hc & _ & Hok).
  exists ops. unfold djb_compile_run, djb_compile. rewrite Hc. cbn [bind snd]. auto.
Qed.

Theorem djb_spec A V : wf A -> wf V -> nc A = nr V -> (0 < nr A \/ nc A = 0) -> 0 < nc V ->
  exists ops, djb_compile A = Ok ops /\ djb_apply ops (mzero (nr A) (nc V)) V = Ok (mmul A V).
Proof.
  intros HA HV Hd Hpos Hc.
  destruct (djb_compile_full_spec A V HA HV Hd Hpos) as (ops & Hcf & Hrep & _).
  exists ops. unfold djb_compile. rewrite Hcf. cbn [bind snd]. split; [reflexivity|].
  unfold djb_apply. cbn [nc mzero]. rewrite Nat.eqb_refl. cbn [negb].
  destruct ops as [|o ops]; [exact Hrep|].
  destruct (Nat.eqb_spec (nc V) 0); [lia|]. exact Hrep.
Qed.

(** the same with the option-valued entry points used by the extracted driver *)
Corollary djb_spec_run A V : wf A -> wf V -> nc A = nr V -> (0 < nr A \/ nc A = 0) -> 0 < nc V ->
  exists ops, djb_compile_run A = Some ops /\ djb_apply_run ops (mzero (nr A) (nc V)) V = Some (mmul A V).
Proof.
  intros HA HV Hd Hpos Hc. destruct (djb_spec A V HA HV Hd Hpos Hc) as (ops & H1 & H2).
  exists ops. unfold djb_compile_run, djb_apply_run. now rewrite H1, H2.
Qed.

(** the two inputs on which the C code leaves defined behaviour (both confirmed by probes: SEGV) *)
Theorem djb_compile_no_rows_refuted : exists A, wf A /\ nr A = 0 /\ 0 < nc A /\ djb_compile A = Err UB.
Proof. exists (mzero 0 3). split; [apply wf_mzero|]. repeat split. cbn. lia. Qed.

Theorem djb_apply_no_columns_refuted : exists A V ops, wf A /\ wf V /\ nc A = nr V /\ 0 < nr A /\ nc V = 0 /\
  djb_compile A = Ok ops /\ djb_apply ops (mzero (nr A) (nc V)) V = Err OOB.
Proof.
  exists (mk 1 1 [1%N]), (mzero 1 0), [(0, 0, true)].
  split; [apply wfb_spec; reflexivity|]. split; [apply wf_mzero|]. repeat split. cbn. lia.
Qed.
