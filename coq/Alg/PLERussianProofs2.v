(* Alg/PLERussianProofs2.v — C03, Four-Russians base case, part 2: row-level tools and the naive
   algorithm in closed form.

     red1 / catch_up      bit-level characterisations, no-op cases, restriction to the window (lo/hi)
     nstep / nsteps       one / several iterations of _mzd_ple_naive with prescribed pivots, at row level
     nsteps_untouched     rows that are never swapped receive the pivot rows one after the other
     nsteps_closed        the closed form  N[l] = S[l] + sum_{l' < min(t, l - r)} N[l][j_l'] * (N[r+l'] right of j_l')
                          (S = the input with all row swaps applied), the bridge to _mzd_ple_a10/_a11 *)
From Coq Require Import List NArith Arith Lia Bool Sorted.
From M4 Require Import Base.Bits Lin.Mat Lin.MatAlg Lin.Ops Lin.Spec Lin.Perm Lin.Observers
  Alg.PLE Alg.PLELemmas Alg.PLESpec Alg.PLEProofs Alg.PLEProofs2 Alg.PLEProofs3 Alg.PLEProofs4
  Alg.PLERussian Alg.PLERussianProofs.
Import ListNotations.
Local Open Scope nat_scope.

(** * red1 *)
Lemma testbit_red1 n u q x j :
  N.testbit (red1 n u q x) (N.of_nat j) =
  xorb (N.testbit x (N.of_nat j))
       (N.testbit x (N.of_nat q) && (S q <=? j) && (j <? n) && N.testbit u (N.of_nat j)).
Proof.
  unfold red1. destruct (N.testbit x (N.of_nat q)); cbn [andb]; [|now rewrite xorb_false_r].
  rewrite N.lxor_spec, N.land_spec, testbit_colmask. f_equal.
  destruct (S q <=? j), (j <? n), (N.testbit u (N.of_nat j)); reflexivity.
Qed.

Lemma red1_low n u q x j : j <= q -> N.testbit (red1 n u q x) (N.of_nat j) = N.testbit x (N.of_nat j).
Proof.
  intros H. rewrite testbit_red1. destruct (Nat.leb_spec (S q) j); [lia|].
  now rewrite andb_false_r, xorb_false_r.
Qed.

Lemma red1_off n u q x : N.testbit x (N.of_nat q) = false -> red1 n u q x = x.
Proof. intros H. unfold red1. now rewrite H. Qed.

Lemma red1_edge n u q x : n <= S q -> red1 n u q x = x.
Proof.
  intros H. apply bits_ext_nat. intros j. rewrite testbit_red1.
  destruct (Nat.leb_spec (S q) j), (Nat.ltb_spec j n); try lia;
    now rewrite ?andb_false_r, ?andb_false_l, xorb_false_r.
Qed.

Lemma bounded_colmask' c0 c1 : bounded c1 (colmask c0 c1).
Proof. intros j Hj. rewrite testbit_colmask. destruct (Nat.ltb_spec j c1); [lia|apply andb_false_r]. Qed.

Lemma bounded_red1 n u q x : bounded n x -> bounded n (red1 n u q x).
Proof.
  intros Hx. unfold red1. destruct (N.testbit x (N.of_nat q)); [|assumption].
  apply bounded_lxor; [assumption|]. apply bounded_land_r, bounded_colmask'.
Qed.

Lemma red1_0 n u q : red1 n u q 0 = 0%N.
Proof. apply red1_off. apply N.bits_0. Qed.

(** * the two halves of a row: columns below / from [w] on *)
Definition lo (w : nat) (x : N) : N := N.land x (N.ones (N.of_nat w)).
Definition hi (w : nat) (x : N) : N := N.ldiff x (N.ones (N.of_nat w)).

Lemma testbit_lo w x j : N.testbit (lo w x) (N.of_nat j) = N.testbit x (N.of_nat j) && (j <? w).
Proof. unfold lo. now rewrite N.land_spec, testbit_ones_nat. Qed.
Lemma testbit_hi w x j : N.testbit (hi w x) (N.of_nat j) = N.testbit x (N.of_nat j) && negb (j <? w).
Proof. unfold hi. now rewrite N.ldiff_spec, testbit_ones_nat. Qed.

Lemma lo_hi w x : N.lor (lo w x) (hi w x) = x.
Proof.
  apply bits_ext_nat. intros j. rewrite N.lor_spec, testbit_lo, testbit_hi.
  destruct (N.testbit x (N.of_nat j)), (j <? w); reflexivity.
Qed.

Lemma lo_hi_ext w x y : lo w x = lo w y -> hi w x = hi w y -> x = y.
Proof. intros H1 H2. rewrite <- (lo_hi w x), <- (lo_hi w y). now rewrite H1, H2. Qed.

Lemma bounded_lo w x : bounded w (lo w x).
Proof. apply bounded_land_r, bounded_ones. Qed.

Lemma lo_bounded w x : bounded w x -> lo w x = x.
Proof.
  intros H. apply bits_ext_nat. intros j. rewrite testbit_lo.
  destruct (Nat.ltb_spec j w); [apply andb_true_r|]. rewrite andb_false_r. symmetry. now apply H.
Qed.

Lemma hi_bounded w x : bounded w x -> hi w x = 0%N.
Proof.
  intros H. apply bits_ext_nat. intros j. rewrite testbit_hi, N.bits_0.
  destruct (Nat.ltb_spec j w); [apply andb_false_r|]. rewrite H by assumption. reflexivity.
Qed.

Lemma lo_lxor w x y : lo w (N.lxor x y) = N.lxor (lo w x) (lo w y).
Proof.
  apply bits_ext_nat. intros j. rewrite N.lxor_spec, !testbit_lo, N.lxor_spec.
  destruct (N.testbit x (N.of_nat j)), (N.testbit y (N.of_nat j)), (j <? w); reflexivity.
Qed.
Lemma hi_lxor w x y : hi w (N.lxor x y) = N.lxor (hi w x) (hi w y).
Proof.
  apply bits_ext_nat. intros j. rewrite N.lxor_spec, !testbit_hi, N.lxor_spec.
  destruct (N.testbit x (N.of_nat j)), (N.testbit y (N.of_nat j)), (j <? w); reflexivity.
Qed.

Lemma lo_red1 w n u q x : q < w -> w <= n -> lo w (red1 n u q x) = red1 w (lo w u) q (lo w x).
Proof.
  intros Hq Hw. apply bits_ext_nat. intros j.
  rewrite testbit_lo, !testbit_red1, !testbit_lo.
  destruct (Nat.ltb_spec q w); [|lia]. rewrite andb_true_r.
  destruct (Nat.ltb_spec j w), (Nat.ltb_spec j n); try lia;
    rewrite ?andb_true_r, ?andb_false_r; cbn [xorb]; try reflexivity.
Qed.

(** the part of red1 right of the window: the multiplier times the part of u there *)
Lemma hi_red1 w n u q x : q < w ->
  hi w (red1 n u q x) =
  N.lxor (hi w x) (if N.testbit x (N.of_nat q) then hi w (N.land u (N.ones (N.of_nat n))) else 0%N).
Proof.
  intros Hq. apply bits_ext_nat. intros j.
  rewrite testbit_hi, testbit_red1, N.lxor_spec, testbit_hi.
  destruct (N.testbit x (N.of_nat q)); cbn [andb].
  - rewrite testbit_hi, N.land_spec, testbit_ones_nat.
    destruct (Nat.ltb_spec j w); cbn [negb]; [now rewrite !andb_false_r|].
    destruct (Nat.leb_spec (S q) j); [|lia]. rewrite !andb_true_r. cbn [andb].
    destruct (j <? n), (N.testbit u (N.of_nat j)), (N.testbit x (N.of_nat j)); reflexivity.
  - now rewrite N.bits_0, !xorb_false_r.
Qed.

(** * read_bits *)
Lemma testbit_read_bits M i c n j :
  N.testbit (read_bits M i c n) (N.of_nat j) = N.testbit (row M i) (N.of_nat (c + j)) && (j <? n).
Proof.
  unfold read_bits. rewrite N.land_spec, testbit_shiftr_nat, testbit_ones_nat.
  now rewrite (Nat.add_comm c j).
Qed.

Lemma read_bits_zero_iff M i c n :
  read_bits M i c n = 0%N <-> forall j, j < n -> N.testbit (row M i) (N.of_nat (c + j)) = false.
Proof.
  split.
  - intros H j Hj. pose proof (testbit_read_bits M i c n j) as E. rewrite H, N.bits_0 in E.
    destruct (Nat.ltb_spec j n); [|lia]. now rewrite andb_true_r in E.
  - intros H. apply bits_ext_nat. intros j. rewrite testbit_read_bits, N.bits_0.
    destruct (Nat.ltb_spec j n); [|apply andb_false_r]. now rewrite H.
Qed.

(** * catch_up *)
Lemma catch_up_ext W W' c0 i : nc W = nc W' -> forall pivots done l x,
  (forall t, l <= t -> t < l + length pivots -> row W t = row W' t) ->
  catch_up W c0 i l pivots done x = catch_up W' c0 i l pivots done x.
Proof.
  intros Hn. induction pivots as [|p ps IH]; intros [|d ds] l x H; cbn [catch_up]; try reflexivity.
  rewrite Hn, (H l) by (cbn [length]; lia). apply IH. intros t H1 H2. apply H; cbn [length]; lia.
Qed.

(** nothing pending *)
Lemma catch_up_done W c0 i : forall pivots done l x,
  (forall t, t < length done -> i <= nth t done 0) -> catch_up W c0 i l pivots done x = x.
Proof.
  induction pivots as [|p ps IH]; intros [|d ds] l x H; cbn [catch_up]; try reflexivity.
  pose proof (H 0 ltac:(cbn [length]; lia)) as H0. cbn [nth] in H0.
  destruct (Nat.ltb_spec d i); [lia|]. apply IH. intros t Ht. apply (H (S t)). cbn [length]. lia.
Qed.

(** the row has no one in any pivot column *)
Lemma catch_up_noop W c0 i : forall pivots done l x,
  (forall p, In p pivots -> N.testbit x (N.of_nat (c0 + p)) = false) ->
  catch_up W c0 i l pivots done x = x.
Proof.
  induction pivots as [|p ps IH]; intros [|d ds] l x H; cbn [catch_up]; try reflexivity.
  rewrite red1_off by (apply H; now left). destruct (d <? i); apply IH; intros q Hq; apply H; now right.
Qed.

(** every pivot sits in the last column (or beyond): nothing to add *)
Lemma catch_up_edge W c0 i : forall pivots done l x,
  (forall p, In p pivots -> nc W <= S (c0 + p)) -> catch_up W c0 i l pivots done x = x.
Proof.
  induction pivots as [|p ps IH]; intros [|d ds] l x H; cbn [catch_up]; try reflexivity.
  rewrite red1_edge by (apply H; now left). destruct (d <? i); apply IH; intros q Hq; apply H; now right.
Qed.

Lemma catch_up_snoc W c0 i : forall pivots done l x p d, length done = length pivots ->
  catch_up W c0 i l (pivots ++ [p]) (done ++ [d]) x =
  (let y := catch_up W c0 i l pivots done x in
   if d <? i then red1 (nc W) (row W (l + length pivots)) (c0 + p) y else y).
Proof.
  induction pivots as [|q ps IH]; intros [|e ds] l x p d Hl; cbn [length] in Hl; try discriminate.
  - cbn [app catch_up length]. now rewrite Nat.add_0_r.
  - cbn [app catch_up length]. rewrite IH by lia. cbv zeta. now replace (S l + length ps) with (l + S (length ps)) by lia.
Qed.

(** two done[] arrays that agree on "pending for row i" *)
Lemma catch_up_done_ext W c0 i : forall pivots done done' l x, length done = length done' ->
  (forall t, t < length done -> (nth t done 0 <? i) = (nth t done' 0 <? i)) ->
  catch_up W c0 i l pivots done x = catch_up W c0 i l pivots done' x.
Proof.
  induction pivots as [|p ps IH]; intros [|d ds] [|d' ds'] l x Hl H; cbn [catch_up]; try reflexivity;
    cbn [length] in Hl; try discriminate.
  pose proof (H 0 ltac:(cbn [length]; lia)) as H0. cbn [nth] in H0. rewrite H0.
  apply IH; [lia|]. intros t Ht. apply (H (S t)). cbn [length]. lia.
Qed.

Lemma bounded_catch_up W c0 i : forall pivots done l x, bounded (nc W) x ->
  bounded (nc W) (catch_up W c0 i l pivots done x).
Proof.
  induction pivots as [|p ps IH]; intros [|d ds] l x H; cbn [catch_up]; try assumption.
  apply IH. destruct (d <? i); [now apply bounded_red1|assumption].
Qed.

(** * iterations of the naive algorithm with prescribed pivots *)
Definition nstep (M : mat) (r i j : nat) : mat :=
  let M1 := row_swap M r i in if S j <? nc M then elim_below M1 r j (S j) else M1.

Fixpoint nsteps (M : mat) (r : nat) (pv : list (nat * nat)) : mat :=
  match pv with
  | [] => M
  | (i, j) :: t => nsteps (nstep M r i j) (S r) t
  end.

Lemma nsteps_snoc pv : forall M r i j,
  nsteps M r (pv ++ [(i, j)]) = nstep (nsteps M r pv) (r + length pv) i j.
Proof.
  induction pv as [|[i0 j0] t IH]; intros M r i j; cbn [app nsteps length].
  - now rewrite Nat.add_0_r.
  - rewrite IH. f_equal. lia.
Qed.

Lemma nstep_facts M r i j : wf M -> r <= i < nr M ->
  let X := nstep M r i j in
  wf X /\ nr X = nr M /\ nc X = nc M /\
  forall l, row X l = if r <? l then red1 (nc M) (row M i) j (row M (swapn r i l)) else row M (swapn r i l).
Proof.
  intros HM Hi. cbv zeta. unfold nstep.
  pose proof (wf_len M HM) as Hl.
  set (M1 := row_swap M r i).
  assert (HM1 : wf M1) by now apply wf_row_swap.
  destruct (get_elim_guard M1 r j (S j) HM1) as (Hw & Hr & Hc & Hg); [change (nr M1) with (nr M); lia|].
  change (nc M1) with (nc M) in *. change (nr M1) with (nr M) in *.
  splits; auto. intros l. apply bits_ext_nat. intros t.
  change (N.testbit (row ?A l) (N.of_nat t)) with (get A l t). rewrite Hg.
  unfold M1. rewrite !get_row_swap by lia. rewrite swapn_l.
  destruct (Nat.ltb_spec r l) as [H|H]; cbn [andb].
  - unfold get. rewrite testbit_red1. f_equal. rewrite <- !andb_assoc. f_equal. f_equal.
    destruct (Nat.ltb_spec t (nc M)) as [H1|H1]; [reflexivity|].
    cbn [andb]. apply (get_out_col M i t HM H1).
  - now rewrite xorb_false_r.
Qed.

Lemma nsteps_facts pv : forall M r, wf M ->
  (forall l, l < length pv -> r + l <= fst (nth l pv (0, 0)) < nr M) ->
  let X := nsteps M r pv in wf X /\ nr X = nr M /\ nc X = nc M.
Proof.
  induction pv as [|[i j] t IH]; intros M r HM H; cbn [nsteps]; [splits; auto|].
  pose proof (H 0 ltac:(cbn [length]; lia)) as H0. cbn [nth fst] in H0.
  destruct (nstep_facts M r i j HM ltac:(lia)) as (Hw & Hr & Hc & _).
  destruct (IH (nstep M r i j) (S r) Hw) as (H1 & H2 & H3).
  - intros l Hl. specialize (H (S l) ltac:(cbn [length]; lia)). cbn [nth] in H. rewrite Hr. lia.
  - cbv zeta. splits; auto; congruence.
Qed.

(** rows above the cursor are never touched *)
Lemma nsteps_above pv : forall M r l, wf M ->
  (forall t, t < length pv -> r + t <= fst (nth t pv (0, 0)) < nr M) -> l < r ->
  row (nsteps M r pv) l = row M l.
Proof.
  induction pv as [|[i j] t IH]; intros M r l HM H Hl; cbn [nsteps]; [reflexivity|].
  pose proof (H 0 ltac:(cbn [length]; lia)) as H0. cbn [nth fst] in H0.
  destruct (nstep_facts M r i j HM ltac:(lia)) as (Hw & Hr & Hc & Hrow).
  rewrite IH; auto.
  - rewrite Hrow. destruct (Nat.ltb_spec r l); [lia|]. now rewrite swapn_other by lia.
  - intros t0 Ht. specialize (H (S t0) ltac:(cbn [length]; lia)). cbn [nth] in H. rewrite Hr. lia.
Qed.

Lemma fold_left_map' {X I J} (f : X -> J -> X) (g : I -> J) l : forall x,
  fold_left f (map g l) x = fold_left (fun x a => f x (g a)) l x.
Proof. induction l as [|a l IH]; intros x; cbn [map fold_left]; [reflexivity|apply IH]. Qed.

(** a row below all pivot rows that is never swapped: it receives the pivot rows in turn *)
Lemma nsteps_untouched pv : forall M r i, wf M ->
  (forall t, t < length pv -> r + t <= fst (nth t pv (0, 0)) < nr M) ->
  (forall t, t < length pv -> fst (nth t pv (0, 0)) < i) -> r + length pv <= i ->
  row (nsteps M r pv) i =
  fold_left (fun x t => red1 (nc M) (row (nsteps M r pv) (r + t)) (snd (nth t pv (0, 0))) x)
            (seq 0 (length pv)) (row M i).
Proof.
  induction pv as [|[i0 j0] t IH]; intros M r i HM H Hlt Hi; cbn [nsteps length seq fold_left]; [reflexivity|].
  pose proof (H 0 ltac:(cbn [length]; lia)) as H0. cbn [nth fst] in H0.
  pose proof (Hlt 0 ltac:(cbn [length]; lia)) as H1. cbn [nth fst] in H1.
  destruct (nstep_facts M r i0 j0 HM ltac:(lia)) as (Hw & Hr & Hc & Hrow).
  assert (HH : forall t0, t0 < length t -> S r + t0 <= fst (nth t0 t (0, 0)) < nr (nstep M r i0 j0)).
  { intros t0 Ht. specialize (H (S t0) ltac:(cbn [length]; lia)). cbn [nth] in H. rewrite Hr. lia. }
  cbn [length] in Hi.
  rewrite IH; auto; try lia.
  2:{ intros t0 Ht. apply (Hlt (S t0)). cbn [length]. lia. }
  rewrite <- seq_shift, fold_left_map'. rewrite Hc.
  rewrite Nat.add_0_r. cbn [nth snd].
  rewrite (nsteps_above t (nstep M r i0 j0) (S r) r Hw HH ltac:(lia)).
  rewrite !Hrow. destruct (Nat.ltb_spec r i); [|lia]. destruct (Nat.ltb_spec r r); [lia|].
  rewrite swapn_l. rewrite (swapn_other r i0 i) by lia.
  apply fold_left_ext_in.
  intros a b _. f_equal. f_equal. lia.
Qed.

(** * the closed form of the naive algorithm *)
Fixpoint nsum (n : nat) (f : nat -> N) : N :=
  match n with 0 => 0%N | S n' => N.lxor (nsum n' f) (f n') end.

Lemma nsum_ext n f g : (forall k, k < n -> f k = g k) -> nsum n f = nsum n g.
Proof.
  induction n as [|n IH]; intros H; cbn [nsum]; [reflexivity|].
  rewrite IH by (intros; apply H; lia). now rewrite H by lia.
Qed.

(** the input with all row swaps applied *)
Fixpoint sw (M : mat) (r : nat) (pv : list (nat * nat)) : mat :=
  match pv with
  | [] => M
  | (i, _) :: t => sw (row_swap M r i) (S r) t
  end.

Lemma sw_snoc pv : forall M r i j, sw M r (pv ++ [(i, j)]) = row_swap (sw M r pv) (r + length pv) i.
Proof.
  induction pv as [|[i0 j0] t IH]; intros M r i j; cbn [app sw length].
  - now rewrite Nat.add_0_r.
  - rewrite IH. f_equal. lia.
Qed.

Lemma sw_len pv : forall M r, length (rows (sw M r pv)) = length (rows M).
Proof.
  induction pv as [|[i j] t IH]; intros M r; cbn [sw]; [reflexivity|].
  now rewrite IH, len_row_swap.
Qed.

Definition pv_ok (M : mat) (r : nat) (pv : list (nat * nat)) : Prop :=
  (forall l, l < length pv -> r + l <= fst (nth l pv (0, 0)) < nr M) /\
  (forall l1 l2, l1 < l2 -> l2 < length pv -> snd (nth l1 pv (0, 0)) < snd (nth l2 pv (0, 0))).

Lemma pv_ok_snoc_inv M r pv i j : pv_ok M r (pv ++ [(i, j)]) ->
  pv_ok M r pv /\ r + length pv <= i < nr M /\ forall l, l < length pv -> snd (nth l pv (0, 0)) < j.
Proof.
  intros [H1 H2]. rewrite app_length in H1, H2. cbn [length] in H1, H2.
  split; [split|split].
  - intros l Hl. specialize (H1 l ltac:(lia)). now rewrite app_nth1 in H1 by assumption.
  - intros l1 l2 Hl Hl2. specialize (H2 l1 l2 Hl ltac:(lia)). now rewrite !app_nth1 in H2 by lia.
  - specialize (H1 (length pv) ltac:(lia)). rewrite app_nth2, Nat.sub_diag in H1 by lia. exact H1.
  - intros l Hl. specialize (H2 l (length pv) Hl ltac:(lia)).
    rewrite app_nth1 in H2 by assumption. rewrite app_nth2, Nat.sub_diag in H2 by lia. exact H2.
Qed.

Definition mterm (n : nat) (X : mat) (r : nat) (pv : list (nat * nat)) (x : N) (l' : nat) : N :=
  if N.testbit x (N.of_nat (snd (nth l' pv (0, 0))))
  then N.land (row X (r + l')) (colmask (S (snd (nth l' pv (0, 0)))) n) else 0%N.

Theorem nsteps_closed M r : wf M -> forall pv, pv_ok M r pv -> forall l, r <= l ->
  let X := nsteps M r pv in
  row X l = N.lxor (row (sw M r pv) l) (nsum (Nat.min (length pv) (l - r)) (mterm (nc M) X r pv (row X l))).
Proof.
  intros HM pv. induction pv as [|[i j] pv IH] using rev_ind; intros Hok l Hl; cbv zeta.
  - cbn [nsteps sw length Nat.min nsum]. now rewrite N.lxor_0_r.
  - destruct (pv_ok_snoc_inv M r pv i j Hok) as (Hok' & Hi & Hj).
    specialize (IH Hok'). cbv zeta in IH.
    rewrite nsteps_snoc, sw_snoc, app_length. cbn [length].
    set (t := length pv) in *. set (N0 := nsteps M r pv) in *. set (S0 := sw M r pv) in *.
    destruct (nsteps_facts pv M r HM (proj1 Hok')) as (HwN & HrN & HcN). fold N0 in HwN, HrN, HcN.
    destruct (nstep_facts N0 (r + t) i j HwN ltac:(lia)) as (Hw' & Hr' & Hc' & Hrow).
    set (N1 := nstep N0 (r + t) i j) in *.
    assert (Hlow : forall l', l' < t -> row N1 (r + l') = row N0 (r + l')).
    { intros l' Hl'. rewrite Hrow. destruct (Nat.ltb_spec (r + t) (r + l')); [lia|].
      now rewrite swapn_other by lia. }
    assert (Hnth : forall l', l' < t -> nth l' (pv ++ [(i, j)]) (0, 0) = nth l' pv (0, 0))
      by (intros; now apply app_nth1).
    assert (Hlast : nth t (pv ++ [(i, j)]) (0, 0) = (i, j))
      by (rewrite app_nth2, Nat.sub_diag by (unfold t; lia); reflexivity).
    assert (HlS : length (rows S0) = nr M) by (unfold S0; rewrite sw_len; now apply wf_len).
    rewrite row_row_swap by lia.
    destruct (Nat.lt_ge_cases l (r + t)) as [C1|C1].
    + (* above the new pivot row *)
      rewrite Hrow. destruct (Nat.ltb_spec (r + t) l); [lia|].
      rewrite !swapn_other by lia.
      replace (Nat.min (t + 1) (l - r)) with (Nat.min t (l - r)) by lia.
      set (y := row N0 l).
      assert (Ey : y = N.lxor (row S0 l) (nsum (Nat.min t (l - r)) (mterm (nc M) N0 r pv y)))
        by (unfold y; now apply IH).
      rewrite (nsum_ext _ _ (mterm (nc M) N0 r pv y)); [exact Ey|].
      intros l' Hl'. unfold mterm. rewrite Hnth by lia. now rewrite Hlow by lia.
    + destruct (Nat.eq_dec l (r + t)) as [->|C2].
      * (* the new pivot row *)
        rewrite Hrow. destruct (Nat.ltb_spec (r + t) (r + t)); [lia|]. rewrite !swapn_l.
        replace (Nat.min (t + 1) (r + t - r)) with t by lia.
        set (y := row N0 i).
        assert (Ey : y = N.lxor (row S0 i) (nsum t (mterm (nc M) N0 r pv y))).
        { unfold y. rewrite IH at 1 by lia. now replace (Nat.min t (i - r)) with t by lia. }
        rewrite (nsum_ext _ _ (mterm (nc M) N0 r pv y)); [exact Ey|].
        intros l' Hl'. unfold mterm. rewrite Hnth by lia. now rewrite Hlow by lia.
      * (* below *)
        rewrite Hrow. destruct (Nat.ltb_spec (r + t) l); [|lia].
        set (l0 := swapn (r + t) i l).
        assert (Hl0 : r + t <= l0) by (unfold l0; apply swapn_ge; lia).
        replace (Nat.min (t + 1) (l - r)) with (S t) by lia. cbn [nsum].
        set (y := row N0 l0).
        assert (Ey : y = N.lxor (row S0 l0) (nsum t (mterm (nc M) N0 r pv y))).
        { unfold y. rewrite IH at 1 by lia. now replace (Nat.min t (l0 - r)) with t by lia. }
        rewrite (nsum_ext t _ (mterm (nc M) N0 r pv y)).
        2:{ intros l' Hl'. unfold mterm. rewrite Hnth by lia. rewrite Hlow by lia.
            rewrite red1_low; [reflexivity|]. specialize (Hj l' Hl'). lia. }
        rewrite <- N.lxor_assoc. rewrite <- Ey.
        unfold mterm at 1. rewrite Hlast. cbn [snd]. rewrite red1_low by lia.
        rewrite Hrow. destruct (Nat.ltb_spec (r + t) (r + t)); [lia|]. rewrite swapn_l.
        rewrite HcN. unfold red1. destruct (N.testbit y (N.of_nat j)); [reflexivity|].
        now rewrite N.lxor_0_r.
Qed.
