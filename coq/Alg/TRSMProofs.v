(* Alg/TRSMProofs.v — C04/C05: the triangular solve models of Alg/TRSM.v meet their specification
   (T * X = B resp. X * T = B for the unit triangular matrix T read from the named triangle),
   the solution is unique, the recursive models agree with the substitution models for every
   threshold/cutoff, and triangular inversion. *)
From Coq Require Import List NArith Arith Lia Bool.
From M4 Require Import Base.Bits Lin.Mat Lin.MatAlg Lin.Ops Lin.Spec Lin.Tri Alg.Gauss Alg.TRSM.
Import ListNotations.
Local Open Scope nat_scope.

(** * list helpers *)
Lemma firstn_of_prefix (X acc : list N) i : length acc = i -> i <= length X ->
  (forall k, k < i -> nth k X 0%N = nth k acc 0%N) -> firstn i X = acc.
Proof.
  intros Hl Hi H. apply (list_ext_nth 0%N).
  - rewrite firstn_length. lia.
  - intros k Hk. rewrite firstn_length in Hk. rewrite nth_firstn_lt by lia. apply H. lia.
Qed.

Lemma mat_eta M : mk (nr M) (nc M) (rows M) = M.
Proof. now destruct M. Qed.

(** * 1. lower left *)
Lemma ll_go_bounded c L bs : forall i acc,
  Forall (bounded c) acc -> Forall (bounded c) bs -> Forall (bounded c) (ll_go L i acc bs).
Proof.
  induction bs as [|b bs IH]; intros i acc Ha Hb; cbn [ll_go]; [assumption|].
  inversion Hb; subst. apply IH; [|assumption]. apply Forall_app. split; [assumption|].
  constructor; [|constructor]. apply bounded_lxor; [assumption|now apply bounded_mul_row].
Qed.

Lemma ll_go_spec L bs : forall i acc, length acc = i ->
  let X := ll_go L i acc bs in
  length X = i + length bs /\
  (forall k, k < i -> nth k X 0%N = nth k acc 0%N) /\
  (forall k, k < length bs ->
     nth (i + k) X 0%N = N.lxor (nth k bs 0%N) (mul_row (row L (i + k)) (firstn (i + k) X))).
Proof.
  induction bs as [|b bs IH]; intros i acc Hl; cbn [ll_go length].
  - split; [lia|]. split; [reflexivity|]. intros k Hk. lia.
  - set (x := N.lxor b (mul_row (row L i) acc)).
    destruct (IH (S i) (acc ++ [x])) as (H1 & H2 & H3); [rewrite app_length; cbn; lia|].
    set (X := ll_go L (S i) (acc ++ [x]) bs) in *.
    assert (Hpre : forall k, k < i -> nth k X 0%N = nth k acc 0%N).
    { intros k Hk. rewrite H2 by lia. apply app_nth1. lia. }
    split; [lia|]. split; [exact Hpre|].
    intros [|k] Hk.
    + rewrite Nat.add_0_r. rewrite H2 by lia. rewrite app_nth2 by lia.
      replace (i - length acc) with 0 by lia. cbn [nth]. unfold x. do 2 f_equal.
      symmetry. apply firstn_of_prefix; [assumption|lia|exact Hpre].
    + replace (i + S k) with (S i + k) by lia. cbn [nth]. apply H3. lia.
Qed.

Lemma trsm_lower_left_dims L B : nr (trsm_lower_left L B) = nr B /\ nc (trsm_lower_left L B) = nc B.
Proof. split; reflexivity. Qed.

Lemma wf_trsm_lower_left L B : wf B -> wf (trsm_lower_left L B).
Proof.
  intros [Hl Hb]. split; cbn [rows nr nc trsm_lower_left].
  - destruct (ll_go_spec L (rows B) 0 [] eq_refl) as (H1 & _). cbn in H1. lia.
  - apply ll_go_bounded; [constructor|assumption].
Qed.

Lemma trsm_lower_left_char L B i j : wf B -> i < nr B ->
  let X := trsm_lower_left L B in
  get X i j = xorb (get B i j) (xsum i (fun k => get L i k && get X k j)).
Proof.
  intros [Hl _] Hi X.
  destruct (ll_go_spec L (rows B) 0 [] eq_refl) as (H1 & _ & H3). cbn [Nat.add] in H1, H3.
  unfold get at 1, row. unfold X, trsm_lower_left. cbn [rows].
  rewrite H3 by lia. rewrite N.lxor_spec, testbit_mul_row. f_equal.
  rewrite firstn_length, H1, Nat.min_l by lia. apply xsum_ext. intros k Hk.
  rewrite nth_firstn_lt by assumption. reflexivity.
Qed.

Theorem trsm_lower_left_spec L B : wf B ->
  let n := nr B in let X := trsm_lower_left L B in
  wf X /\ nr X = nr B /\ nc X = nc B /\ mmul (unit_lower n L) X = B.
Proof.
  intros HB n X. assert (HX : wf X) by now apply wf_trsm_lower_left.
  split; [assumption|]. split; [reflexivity|]. split; [reflexivity|].
  apply mat_ext; auto with wf. intros i j Hi Hj. cbn [nr mmul unit_lower] in Hi.
  rewrite get_mmul_unit_lower by (auto; reflexivity).
  unfold X at 1. rewrite trsm_lower_left_char by assumption. fold X.
  now rewrite xorb_assoc, xorb_nilpotent, xorb_false_r.
Qed.

(** * 2. upper left *)
Lemma ul_go_bounded c U bs : forall i, Forall (bounded c) bs -> Forall (bounded c) (ul_go U i bs).
Proof.
  induction bs as [|b bs IH]; intros i Hb; cbn [ul_go]; [constructor|].
  inversion Hb; subst. constructor; [|now apply IH].
  apply bounded_lxor; [assumption|]. apply bounded_mul_row. now apply IH.
Qed.

Lemma ul_go_spec U bs : forall i,
  let X := ul_go U i bs in
  length X = length bs /\
  (forall k, k < length bs ->
     nth k X 0%N = N.lxor (nth k bs 0%N)
                      (mul_row (N.shiftr (row U (i + k)) (N.of_nat (S (i + k)))) (skipn (S k) X))).
Proof.
  induction bs as [|b bs IH]; intros i; cbn [ul_go length].
  - split; [reflexivity|]. intros k Hk. lia.
  - destruct (IH (S i)) as (H1 & H2). set (acc := ul_go U (S i) bs) in *.
    split; [cbn [length]; lia|]. intros [|k] Hk.
    + rewrite Nat.add_0_r. reflexivity.
    + replace (i + S k) with (S i + k) by lia. cbn [nth]. rewrite H2 by lia. reflexivity.
Qed.

Lemma wf_trsm_upper_left U B : wf B -> wf (trsm_upper_left U B).
Proof.
  intros [Hl Hb]. split; cbn [rows nr nc trsm_upper_left].
  - destruct (ul_go_spec U (rows B) 0) as (H1 & _). lia.
  - now apply ul_go_bounded.
Qed.

Lemma trsm_upper_left_char U B i j : wf B -> i < nr B ->
  let X := trsm_upper_left U B in
  get X i j = xorb (get B i j)
                (xsum (nr B - S i) (fun k => get U i (S i + k) && get X (S i + k) j)).
Proof.
  intros [Hl _] Hi X.
  destruct (ul_go_spec U (rows B) 0) as (H1 & H2). cbn [Nat.add] in H2.
  unfold get at 1, row. unfold X, trsm_upper_left. cbn [rows].
  rewrite H2 by lia. rewrite N.lxor_spec, testbit_mul_row. f_equal.
  rewrite skipn_length, H1, Hl. apply xsum_ext. intros k Hk.
  rewrite testbit_shiftr_nat, nth_skipn_add. unfold get, row. cbn [rows].
  now replace (k + S i) with (S i + k) by lia.
Qed.

Theorem trsm_upper_left_spec U B : wf B ->
  let n := nr B in let X := trsm_upper_left U B in
  wf X /\ nr X = nr B /\ nc X = nc B /\ mmul (unit_upper n U) X = B.
Proof.
  intros HB n X. assert (HX : wf X) by now apply wf_trsm_upper_left.
  split; [assumption|]. split; [reflexivity|]. split; [reflexivity|].
  apply mat_ext; auto with wf. intros i j Hi Hj. cbn [nr mmul unit_upper] in Hi.
  rewrite get_mmul_unit_upper by (auto; reflexivity).
  unfold X at 1. rewrite trsm_upper_left_char by assumption. fold X. fold n.
  now rewrite xorb_assoc, xorb_nilpotent, xorb_false_r.
Qed.

(** * 3. right variants: row-wise elimination *)
Definition step (m : nat -> N) (y : N) (k : nat) : N :=
  if N.testbit y (N.of_nat k) then N.lxor y (m k) else y.

Lemma fold_elim_step m ks : forall y,
  fold_left elim_step (map (fun k => (N.of_nat k, m k)) ks) y = fold_left (step m) ks y.
Proof. induction ks as [|k ks IH]; intros y; cbn [map fold_left]; [reflexivity|]. apply IH. Qed.

Lemma fold_step_bounded n m ks : (forall k, bounded n (m k)) ->
  forall y, bounded n y -> bounded n (fold_left (step m) ks y).
Proof.
  intros Hm. induction ks as [|k ks IH]; intros y Hy; cbn [fold_left]; [assumption|].
  apply IH. unfold step. destruct (N.testbit y (N.of_nat k)); [now apply bounded_lxor|assumption].
Qed.

Lemma testbit_step m y k j :
  N.testbit (step m y k) (N.of_nat j) =
  xorb (N.testbit y (N.of_nat j)) (N.testbit y (N.of_nat k) && N.testbit (m k) (N.of_nat j)).
Proof.
  unfold step. destruct (N.testbit y (N.of_nat k)); cbn [andb].
  - apply N.lxor_spec.
  - now rewrite xorb_false_r.
Qed.

(** ascending elimination with masks living strictly above the pivot *)
Lemma asc_char m : (forall k j, N.testbit (m k) (N.of_nat j) = true -> k < j) ->
  forall len s y, let x := fold_left (step m) (seq s len) y in
  forall j, N.testbit x (N.of_nat j) =
    xorb (N.testbit y (N.of_nat j))
         (xsum len (fun k => N.testbit x (N.of_nat (s + k)) && N.testbit (m (s + k)) (N.of_nat j))).
Proof.
  intros Hm. assert (Hm0 : forall k j, j <= k -> N.testbit (m k) (N.of_nat j) = false).
  { intros k j Hjk. destruct (N.testbit (m k) (N.of_nat j)) eqn:E; [apply Hm in E; lia|reflexivity]. }
  induction len as [|len IH]; intros s y x j.
  - cbn. now rewrite xorb_false_r.
  - unfold x. cbn [seq fold_left]. set (y' := step m y s).
    specialize (IH (S s) y'). cbn zeta in IH. set (x' := fold_left (step m) (seq (S s) len) y') in *.
    assert (Hxs : N.testbit x' (N.of_nat s) = N.testbit y (N.of_nat s)).
    { rewrite IH. rewrite xsum_zero; [|intros k _; rewrite Hm0 by lia; apply andb_false_r].
      unfold y'. rewrite testbit_step, Hm0 by lia. now rewrite andb_false_r, !xorb_false_r. }
    rewrite IH. unfold y'. rewrite testbit_step, xsum_shift. rewrite Nat.add_0_r, Hxs.
    rewrite xorb_assoc. do 2 f_equal. apply xsum_ext. intros k _.
    now replace (s + S k) with (S s + k) by lia.
Qed.

(** descending elimination with masks living strictly below the pivot *)
Lemma desc_char m : (forall k j, N.testbit (m k) (N.of_nat j) = true -> j < k) ->
  forall n y, let x := fold_left (step m) (rev (seq 0 n)) y in
  (forall j, n <= j -> N.testbit x (N.of_nat j) = N.testbit y (N.of_nat j)) /\
  (forall j, j < n -> N.testbit x (N.of_nat j) =
     xorb (N.testbit y (N.of_nat j))
          (xsum n (fun k => N.testbit x (N.of_nat k) && N.testbit (m k) (N.of_nat j)))).
Proof.
  intros Hm. assert (Hm0 : forall k j, k <= j -> N.testbit (m k) (N.of_nat j) = false).
  { intros k j Hjk. destruct (N.testbit (m k) (N.of_nat j)) eqn:E; [apply Hm in E; lia|reflexivity]. }
  induction n as [|n IH]; intros y x.
  - split; [reflexivity|]. intros j Hj. lia.
  - unfold x. rewrite seq_S, rev_app_distr. cbn [rev app fold_left Nat.add]. set (y' := step m y n).
    destruct (IH y') as (Ha & Hb). set (x' := fold_left (step m) (rev (seq 0 n)) y') in *.
    assert (Hxn : N.testbit x' (N.of_nat n) = N.testbit y (N.of_nat n)).
    { rewrite Ha by lia. unfold y'. rewrite testbit_step, Hm0 by lia. now rewrite andb_false_r, xorb_false_r. }
    split.
    + intros j Hj. rewrite Ha by lia. unfold y'. rewrite testbit_step, Hm0 by lia.
      now rewrite andb_false_r, xorb_false_r.
    + intros j Hj. cbn [xsum]. destruct (Nat.eq_dec j n) as [->|Hne].
      * rewrite Hxn. rewrite xsum_zero; [|intros k Hk; rewrite Hm0 by lia; apply andb_false_r].
        rewrite Hm0 by lia. now rewrite andb_false_r, !xorb_false_r.
      * rewrite Hb by lia. unfold y'. rewrite testbit_step, Hxn.
        destruct (N.testbit y (N.of_nat j)), (N.testbit y (N.of_nat n) && N.testbit (m n) (N.of_nat j)),
          (xsum n (fun k => N.testbit x' (N.of_nat k) && N.testbit (m k) (N.of_nat j))); reflexivity.
Qed.

(** a row meeting the characteristic equation solves x * T = y, T = identity + masks *)
Lemma solve_row_mul n m x y :
  (forall k j, k < n -> N.testbit (m k) (N.of_nat j) = true -> j < n /\ k <> j) ->
  bounded n y ->
  (forall j, j < n -> N.testbit x (N.of_nat j) =
     xorb (N.testbit y (N.of_nat j))
          (xsum n (fun k => N.testbit x (N.of_nat k) && N.testbit (m k) (N.of_nat j)))) ->
  mul_row x (map (fun k => N.lor (2 ^ N.of_nat k) (m k)) (seq 0 n)) = y.
Proof.
  intros Hm Hy Hx. apply bits_ext_nat. intros j. rewrite testbit_mul_row, map_length, seq_length.
  rewrite (xsum_ext n _ (fun k => xorb (N.testbit x (N.of_nat k) && (k =? j))
                                     (N.testbit x (N.of_nat k) && N.testbit (m k) (N.of_nat j)))).
  2:{ intros k Hk. rewrite (nth_map_default _ _ _ 0) by now rewrite seq_length.
      rewrite seq_nth by assumption. cbn [Nat.add]. rewrite N.lor_spec, testbit_pow2_nat.
      destruct (Nat.eqb_spec k j) as [->|Hne]; cbn [orb].
      - destruct (N.testbit (m j) (N.of_nat j)) eqn:E; [apply Hm in E; lia|].
        now rewrite andb_true_r, andb_false_r, xorb_false_r.
      - now rewrite andb_false_r, xorb_false_l. }
  rewrite xsum_xor. destruct (Nat.lt_ge_cases j n) as [Hj|Hj].
  - rewrite (xsum_single n _ j); [|assumption|intros k _ Hne; destruct (Nat.eqb_spec k j); [lia|apply andb_false_r]].
    rewrite Nat.eqb_refl, andb_true_r, Hx by assumption.
    now rewrite xorb_assoc, xorb_nilpotent, xorb_false_r.
  - rewrite !xsum_zero, Hy; [reflexivity|assumption| |].
    + intros k Hk. destruct (N.testbit (m k) (N.of_nat j)) eqn:E; [apply Hm in E; lia|apply andb_false_r].
    + intros k Hk. destruct (Nat.eqb_spec k j); [lia|apply andb_false_r].
Qed.

Lemma testbit_ur_mask n U k j :
  N.testbit (ur_mask n U k) (N.of_nat j) = get U k j && negb (j <? S k) && (j <? n).
Proof. unfold ur_mask. now rewrite testbit_land_ones, testbit_ldiff_ones. Qed.

Lemma testbit_lr_mask L k j : N.testbit (lr_mask L k) (N.of_nat j) = get L k j && (j <? k).
Proof. unfold lr_mask. now rewrite testbit_land_ones. Qed.

Lemma bounded_ur_mask n U k : bounded n (ur_mask n U k).
Proof. apply bounded_land_r, bounded_ones. Qed.

Lemma unit_upper_masks n U :
  unit_upper n U = mk n n (map (fun k => N.lor (2 ^ N.of_nat k) (ur_mask n U k)) (seq 0 n)).
Proof. reflexivity. Qed.

Lemma unit_lower_masks n L :
  unit_lower n L = mk n n (map (fun k => N.lor (2 ^ N.of_nat k) (lr_mask L k)) (seq 0 n)).
Proof. reflexivity. Qed.

Lemma ur_row_solves n U y : bounded n y ->
  mul_row (fold_left elim_step (ur_steps n U) y) (rows (unit_upper n U)) = y.
Proof.
  intros Hy. unfold ur_steps. rewrite fold_elim_step, unit_upper_masks. cbn [rows].
  apply solve_row_mul; [|assumption|].
  - intros k j _ E. rewrite testbit_ur_mask in E.
    destruct (Nat.ltb_spec j (S k)), (Nat.ltb_spec j n); try lia;
      rewrite ?andb_false_r in E; cbn [negb andb] in E; try discriminate; rewrite ?andb_false_r in E; discriminate.
  - intros j Hj. rewrite (asc_char (ur_mask n U)).
    + reflexivity.
    + intros k j' E. rewrite testbit_ur_mask in E.
      destruct (Nat.ltb_spec j' (S k)); [|lia]. cbn [negb] in E. rewrite andb_false_r in E. discriminate.
Qed.

Lemma lr_row_solves n L y : bounded n y ->
  mul_row (fold_left elim_step (lr_steps n L) y) (rows (unit_lower n L)) = y.
Proof.
  intros Hy. unfold lr_steps. rewrite fold_elim_step, unit_lower_masks. cbn [rows].
  apply solve_row_mul; [|assumption|].
  - intros k j Hk E.
    rewrite testbit_lr_mask in E. destruct (Nat.ltb_spec j k); [lia|rewrite andb_false_r in E; discriminate].
  - intros j Hj. destruct (desc_char (lr_mask L)) with (n := n) (y := y) as (_ & Hb).
    + intros k j' E. rewrite testbit_lr_mask in E.
      destruct (Nat.ltb_spec j' k); [assumption|rewrite andb_false_r in E; discriminate].
    + now apply Hb.
Qed.

Lemma fold_step_bounded_in n m ks : (forall k, In k ks -> bounded n (m k)) ->
  forall y, bounded n y -> bounded n (fold_left (step m) ks y).
Proof.
  induction ks as [|k ks IH]; intros Hm y Hy; cbn [fold_left]; [assumption|].
  apply IH; [intros k' Hk'; apply Hm; now right|].
  unfold step. destruct (N.testbit y (N.of_nat k)); [|assumption].
  apply bounded_lxor; [assumption|apply Hm; now left].
Qed.

Lemma wf_trsm_upper_right U B : wf B -> wf (trsm_upper_right U B).
Proof.
  intros [Hl Hb]. split; cbn [rows nr nc trsm_upper_right]; [now rewrite map_length|].
  apply Forall_forall. intros x Hx. apply in_map_iff in Hx as (b & <- & Hin).
  unfold ur_steps. rewrite fold_elim_step. apply fold_step_bounded_in.
  - intros k _. apply bounded_ur_mask.
  - rewrite Forall_forall in Hb. now apply Hb.
Qed.

Lemma wf_trsm_lower_right L B : wf B -> wf (trsm_lower_right L B).
Proof.
  intros [Hl Hb]. split; cbn [rows nr nc trsm_lower_right]; [now rewrite map_length|].
  apply Forall_forall. intros x Hx. apply in_map_iff in Hx as (b & <- & Hin).
  unfold lr_steps. rewrite fold_elim_step. apply fold_step_bounded_in.
  - intros k Hk. apply in_rev, in_seq in Hk. unfold lr_mask.
    apply bounded_land_r. apply (bounded_mono k); [lia|apply bounded_ones].
  - rewrite Forall_forall in Hb. now apply Hb.
Qed.

Theorem trsm_upper_right_spec U B : wf B ->
  let n := nc B in let X := trsm_upper_right U B in
  wf X /\ nr X = nr B /\ nc X = nc B /\ mmul X (unit_upper n U) = B.
Proof.
  intros HB n X. split; [now apply wf_trsm_upper_right|]. split; [reflexivity|]. split; [reflexivity|].
  unfold mmul, X, trsm_upper_right. cbn [nr nc rows unit_upper]. fold n. rewrite map_map.
  transitivity (mk (nr B) (nc B) (rows B)); [|apply mat_eta]. f_equal.
  transitivity (map (fun b : N => b) (rows B)); [|apply map_id].
  apply map_ext_in. intros b Hb. apply (ur_row_solves n U).
  destruct HB as [_ HbB]. rewrite Forall_forall in HbB. now apply HbB.
Qed.

Theorem trsm_lower_right_spec L B : wf B ->
  let n := nc B in let X := trsm_lower_right L B in
  wf X /\ nr X = nr B /\ nc X = nc B /\ mmul X (unit_lower n L) = B.
Proof.
  intros HB n X. split; [now apply wf_trsm_lower_right|]. split; [reflexivity|]. split; [reflexivity|].
  unfold mmul, X, trsm_lower_right. cbn [nr nc rows unit_lower]. fold n. rewrite map_map.
  transitivity (mk (nr B) (nc B) (rows B)); [|apply mat_eta]. f_equal.
  transitivity (map (fun b : N => b) (rows B)); [|apply map_id].
  apply map_ext_in. intros b Hb. apply (lr_row_solves n L).
  destruct HB as [_ HbB]. rewrite Forall_forall in HbB. now apply HbB.
Qed.

(** * 4. invertibility and uniqueness *)
Lemma invertible_cancel_l A X Y : invertible A -> wf X -> wf Y -> nr X = nr A -> nr Y = nr A ->
  mmul A X = mmul A Y -> X = Y.
Proof.
  intros (Hsq & V & HV & HrV & HcV & HAV & HVA) HX HY HrX HrY E.
  rewrite <- (mmul_id_l X), <- (mmul_id_l Y) by assumption. rewrite HrX, HrY, <- HVA.
  rewrite !mmul_assoc. now rewrite E.
Qed.

Lemma invertible_cancel_r A X Y : invertible A -> wf X -> wf Y -> nc X = nr A -> nc Y = nr A ->
  mmul X A = mmul Y A -> X = Y.
Proof.
  intros (Hsq & V & HV & HrV & HcV & HAV & HVA) HX HY HcX HcY E.
  rewrite <- (mmul_id_r X), <- (mmul_id_r Y) by assumption. rewrite HcX, HcY, <- HAV.
  rewrite <- !mmul_assoc. now rewrite E.
Qed.

Lemma lower_two_sided n L : let V := trsm_lower_left L (mid n) in
  wf V /\ nr V = n /\ nc V = n /\ mmul (unit_lower n L) V = mid n /\ mmul V (unit_lower n L) = mid n.
Proof.
  intros V.
  destruct (trsm_lower_left_spec L (mid n) (wf_mid n)) as (HwV & HrV & HcV & HV). fold V in HwV, HrV, HcV, HV.
  destruct (trsm_lower_right_spec L (mid n) (wf_mid n)) as (HwW & HrW & HcW & HW).
  set (W := trsm_lower_right L (mid n)) in *. cbn [nr nc mid] in *.
  assert (E : W = V).
  { transitivity (mmul W (mmul (unit_lower n L) V)).
    - rewrite HV, <- HcW. symmetry. now apply mmul_id_r.
    - rewrite <- mmul_assoc, HW, <- HrV. now apply mmul_id_l. }
  rewrite E in HW. auto.
Qed.

Lemma upper_two_sided n U : let V := trsm_upper_left U (mid n) in
  wf V /\ nr V = n /\ nc V = n /\ mmul (unit_upper n U) V = mid n /\ mmul V (unit_upper n U) = mid n.
Proof.
  intros V.
  destruct (trsm_upper_left_spec U (mid n) (wf_mid n)) as (HwV & HrV & HcV & HV). fold V in HwV, HrV, HcV, HV.
  destruct (trsm_upper_right_spec U (mid n) (wf_mid n)) as (HwW & HrW & HcW & HW).
  set (W := trsm_upper_right U (mid n)) in *. cbn [nr nc mid] in *.
  assert (E : W = V).
  { transitivity (mmul W (mmul (unit_upper n U) V)).
    - rewrite HV, <- HcW. symmetry. now apply mmul_id_r.
    - rewrite <- mmul_assoc, HW, <- HrV. now apply mmul_id_l. }
  rewrite E in HW. auto.
Qed.

Theorem unit_lower_invertible n L : invertible (unit_lower n L).
Proof.
  destruct (lower_two_sided n L) as (Hw & Hr & Hc & H1 & H2).
  split; [reflexivity|]. exists (trsm_lower_left L (mid n)). cbn [nr unit_lower]. auto.
Qed.

Theorem unit_upper_invertible n U : invertible (unit_upper n U).
Proof.
  destruct (upper_two_sided n U) as (Hw & Hr & Hc & H1 & H2).
  split; [reflexivity|]. exists (trsm_upper_left U (mid n)). cbn [nr unit_upper]. auto.
Qed.

(** uniqueness of the solution, all four variants *)
Theorem trsm_unique_lower_left n L X Y : wf X -> wf Y -> nr X = n -> nr Y = n ->
  mmul (unit_lower n L) X = mmul (unit_lower n L) Y -> X = Y.
Proof. intros HX HY H1 H2 E. exact (invertible_cancel_l _ X Y (unit_lower_invertible n L) HX HY H1 H2 E). Qed.

Theorem trsm_unique_upper_left n U X Y : wf X -> wf Y -> nr X = n -> nr Y = n ->
  mmul (unit_upper n U) X = mmul (unit_upper n U) Y -> X = Y.
Proof. intros HX HY H1 H2 E. exact (invertible_cancel_l _ X Y (unit_upper_invertible n U) HX HY H1 H2 E). Qed.

Theorem trsm_unique_lower_right n L X Y : wf X -> wf Y -> nc X = n -> nc Y = n ->
  mmul X (unit_lower n L) = mmul Y (unit_lower n L) -> X = Y.
Proof. intros HX HY H1 H2 E. exact (invertible_cancel_r _ X Y (unit_lower_invertible n L) HX HY H1 H2 E). Qed.

Theorem trsm_unique_upper_right n U X Y : wf X -> wf Y -> nc X = n -> nc Y = n ->
  mmul X (unit_upper n U) = mmul Y (unit_upper n U) -> X = Y.
Proof. intros HX HY H1 H2 E. exact (invertible_cancel_r _ X Y (unit_upper_invertible n U) HX HY H1 H2 E). Qed.

(** the models return THE solution *)
Corollary trsm_lower_left_complete L B X : wf B -> wf X -> nr X = nr B ->
  mmul (unit_lower (nr B) L) X = B -> X = trsm_lower_left L B.
Proof.
  intros HB HX Hr E. destruct (trsm_lower_left_spec L B HB) as (Hw & Hr' & _ & E').
  apply (trsm_unique_lower_left (nr B) L); auto. congruence.
Qed.

Corollary trsm_upper_left_complete U B X : wf B -> wf X -> nr X = nr B ->
  mmul (unit_upper (nr B) U) X = B -> X = trsm_upper_left U B.
Proof.
  intros HB HX Hr E. destruct (trsm_upper_left_spec U B HB) as (Hw & Hr' & _ & E').
  apply (trsm_unique_upper_left (nr B) U); auto. congruence.
Qed.

Corollary trsm_lower_right_complete L B X : wf B -> wf X -> nc X = nc B ->
  mmul X (unit_lower (nc B) L) = B -> X = trsm_lower_right L B.
Proof.
  intros HB HX Hc E. destruct (trsm_lower_right_spec L B HB) as (Hw & _ & Hc' & E').
  apply (trsm_unique_lower_right (nc B) L); auto. congruence.
Qed.

Corollary trsm_upper_right_complete U B X : wf B -> wf X -> nc X = nc B ->
  mmul X (unit_upper (nc B) U) = B -> X = trsm_upper_right U B.
Proof.
  intros HB HX Hc E. destruct (trsm_upper_right_spec U B HB) as (Hw & _ & Hc' & E').
  apply (trsm_unique_upper_right (nc B) U); auto. congruence.
Qed.

(** * 5. the other triangle (and the diagonal, and everything outside the leading block) is irrelevant *)
Theorem trsm_lower_left_other_triangle_irrelevant L L' B : wf B ->
  (forall i j, j < i -> i < nr B -> get L i j = get L' i j) ->
  trsm_lower_left L B = trsm_lower_left L' B.
Proof.
  intros HB H. destruct (trsm_lower_left_spec L B HB) as (Hw & Hr & _ & E).
  apply trsm_lower_left_complete; auto. now rewrite <- (unit_lower_ext _ L L') by assumption.
Qed.

Theorem trsm_upper_left_other_triangle_irrelevant U U' B : wf B ->
  (forall i j, i < j -> j < nr B -> get U i j = get U' i j) ->
  trsm_upper_left U B = trsm_upper_left U' B.
Proof.
  intros HB H. destruct (trsm_upper_left_spec U B HB) as (Hw & Hr & _ & E).
  apply trsm_upper_left_complete; auto. now rewrite <- (unit_upper_ext _ U U') by assumption.
Qed.

Theorem trsm_lower_right_other_triangle_irrelevant L L' B : wf B ->
  (forall i j, j < i -> i < nc B -> get L i j = get L' i j) ->
  trsm_lower_right L B = trsm_lower_right L' B.
Proof.
  intros HB H. destruct (trsm_lower_right_spec L B HB) as (Hw & _ & Hc & E).
  apply trsm_lower_right_complete; auto. now rewrite <- (unit_lower_ext _ L L') by assumption.
Qed.

Theorem trsm_upper_right_other_triangle_irrelevant U U' B : wf B ->
  (forall i j, i < j -> j < nc B -> get U i j = get U' i j) ->
  trsm_upper_right U B = trsm_upper_right U' B.
Proof.
  intros HB H. destruct (trsm_upper_right_spec U B HB) as (Hw & _ & Hc & E).
  apply trsm_upper_right_complete; auto. now rewrite <- (unit_upper_ext _ U U') by assumption.
Qed.

(** * 6. the inverse of a unit triangular matrix is unit triangular *)
Lemma trsm_upper_left_id_triangular n U : is_unit_upper n (trsm_upper_left U (mid n)).
Proof.
  set (V := trsm_upper_left U (mid n)).
  assert (HV : wf V) by apply wf_trsm_upper_left, wf_mid.
  assert (H : forall d i, i < n -> n - i <= d -> forall j, j <= i -> get V i j = (i =? j)).
  { induction d as [|d IH]; intros i Hi Hd j Hj; [lia|].
    unfold V. rewrite trsm_upper_left_char by (cbn; auto with wf). fold V. cbn [nr mid].
    rewrite xsum_zero.
    - rewrite get_mid. destruct (Nat.ltb_spec i n); [|lia]. now rewrite xorb_false_r.
    - intros k Hk. rewrite IH by lia. destruct (Nat.eqb_spec (S i + k) j); [lia|apply andb_false_r]. }
  refine (conj HV (conj eq_refl (conj eq_refl (conj _ _)))).
  - intros i Hi. rewrite (H (n - i) i) by lia. apply Nat.eqb_refl.
  - intros i j Hji. destruct (Nat.lt_ge_cases i n) as [Hi|Hi].
    + rewrite (H (n - i) i) by lia. destruct (Nat.eqb_spec i j); [lia|reflexivity].
    + apply get_out_row; [assumption|exact Hi].
Qed.

Lemma trsm_lower_left_id_triangular n L : is_unit_lower n (trsm_lower_left L (mid n)).
Proof.
  set (V := trsm_lower_left L (mid n)).
  assert (HV : wf V) by apply wf_trsm_lower_left, wf_mid.
  assert (H : forall i, i < n -> forall j, i <= j -> get V i j = (i =? j)).
  { induction i as [i IH] using lt_wf_ind. intros Hi j Hj.
    unfold V. rewrite trsm_lower_left_char by (cbn; auto with wf). fold V.
    rewrite xsum_zero.
    - rewrite get_mid. destruct (Nat.ltb_spec i n); [|lia]. now rewrite xorb_false_r.
    - intros k Hk. rewrite IH by lia. destruct (Nat.eqb_spec k j); [lia|apply andb_false_r]. }
  refine (conj HV (conj eq_refl (conj eq_refl (conj _ _)))).
  - intros i Hi. rewrite H by lia. apply Nat.eqb_refl.
  - intros i j Hij. destruct (Nat.lt_ge_cases i n) as [Hi|Hi].
    + rewrite H by lia. destruct (Nat.eqb_spec i j); [lia|reflexivity].
    + apply get_out_row; [assumption|exact Hi].
Qed.

Theorem unit_upper_inverse n U : exists V, is_unit_upper n V /\
  mmul (unit_upper n U) V = mid n /\ mmul V (unit_upper n U) = mid n.
Proof.
  exists (trsm_upper_left U (mid n)). destruct (upper_two_sided n U) as (_ & _ & _ & H1 & H2).
  split; [apply trsm_upper_left_id_triangular|]. auto.
Qed.

Theorem unit_lower_inverse n L : exists V, is_unit_lower n V /\
  mmul (unit_lower n L) V = mid n /\ mmul V (unit_lower n L) = mid n.
Proof.
  exists (trsm_lower_left L (mid n)). destruct (lower_two_sided n L) as (_ & _ & _ & H1 & H2).
  split; [apply trsm_lower_left_id_triangular|]. auto.
Qed.

(** * 7. the recursive models *)
Lemma split_bounds n : radix < n -> 0 < split n < n.
Proof.
  unfold split, radix. intros H.
  pose proof (Nat.div_mod (n - 1) 64 ltac:(lia)).
  pose proof (Nat.mod_upper_bound (n - 1) 64 ltac:(lia)).
  set (q := (n - 1) / 64) in *.
  pose proof (Nat.div_mod (q + 1) 2 ltac:(lia)).
  pose proof (Nat.mod_upper_bound (q + 1) 2 ltac:(lia)).
  set (q2 := (q + 1) / 2) in *. lia.
Qed.

Definition solves_ll (L B X : mat) : Prop :=
  wf X /\ nr X = nr B /\ nc X = nc B /\ mmul (unit_lower (nr B) L) X = B.
Definition solves_ul (U B X : mat) : Prop :=
  wf X /\ nr X = nr B /\ nc X = nc B /\ mmul (unit_upper (nr B) U) X = B.
Definition solves_lr (L B X : mat) : Prop :=
  wf X /\ nr X = nr B /\ nc X = nc B /\ mmul X (unit_lower (nc B) L) = B.
Definition solves_ur (U B X : mat) : Prop :=
  wf X /\ nr X = nr B /\ nc X = nc B /\ mmul X (unit_upper (nc B) U) = B.

Lemma msub_len A r0 c0 r c : r0 + r <= length (rows A) -> length (rows (msub A r0 c0 r c)) = r.
Proof. intros H. now rewrite (wf_len _ (wf_msub A r0 c0 r c H)). Qed.

Lemma mat_nr0 B : wf B -> nr B = 0 -> B = mk 0 (nc B) [].
Proof.
  intros [Hl _] H0. destruct B as [r c l]. cbn in *. subst r.
  destruct l; [reflexivity|discriminate].
Qed.

Lemma madd_twice M B1 : wf M -> wf B1 -> nr B1 = nr M -> nc B1 = nc M -> madd M (madd B1 M) = B1.
Proof.
  intros HM HB Hr Hc. rewrite madd_comm; auto with wf. now apply madd_cancel.
Qed.

Lemma mstack_split B n1 n2 : wf B -> nr B = n1 + n2 ->
  mstack (msub B 0 0 n1 (nc B)) (msub B n1 0 n2 (nc B)) = B.
Proof.
  intros HB Hn. pose proof (mstack_msub B 0 0 n1 n2 (nc B)) as E. cbn [Nat.add] in E.
  rewrite E by (auto; lia). rewrite <- Hn. now apply msub_full.
Qed.

Lemma mconcat_split B n1 n2 : wf B -> nc B = n1 + n2 ->
  mconcat (msub B 0 0 (nr B) n1) (msub B 0 n1 (nr B) n2) = B.
Proof.
  intros HB Hn. pose proof (mconcat_msub B 0 0 (nr B) n1 n2) as E. cbn [Nat.add] in E.
  rewrite E by (auto; lia). rewrite <- Hn. now apply msub_full.
Qed.

(** one level of each recursion, stated on the specifications *)
Lemma ll_compose L B n1 n2 X0 X1 : wf B -> nr B = n1 + n2 -> n1 + n2 <= length (rows L) ->
  solves_ll (msub L 0 0 n1 n1) (msub B 0 0 n1 (nc B)) X0 ->
  solves_ll (msub L n1 n1 n2 n2) (madd (msub B n1 0 n2 (nc B)) (mmul (msub L n1 0 n2 n1) X0)) X1 ->
  solves_ll L B (mstack X0 X1).
Proof.
  intros HB Hn HL (Hw0 & Hr0 & Hc0 & E0) (Hw1 & Hr1 & Hc1 & E1).
  cbn [nr nc msub madd] in *.
  assert (WB1 : wf (msub B n1 0 n2 (nc B))) by (apply wf_msub; rewrite wf_len by assumption; lia).
  assert (W10 : wf (msub L n1 0 n2 n1)) by (apply wf_msub; lia).
  refine (conj _ (conj _ (conj _ _))).
  - apply wf_mstack; auto. congruence.
  - cbn [nr mstack]. lia.
  - cbn [nc mstack]. assumption.
  - rewrite Hn, unit_lower_blocks by assumption.
    rewrite mmul_lower_block; auto with wf; try (apply wf_msub; lia); try congruence.
    rewrite E0, E1. rewrite madd_twice; auto with wf.
    now apply mstack_split.
Qed.

Lemma ul_compose U B n1 n2 X0 X1 : wf B -> nr B = n1 + n2 -> n1 + n2 <= length (rows U) ->
  solves_ul (msub U n1 n1 n2 n2) (msub B n1 0 n2 (nc B)) X1 ->
  solves_ul (msub U 0 0 n1 n1) (madd (msub B 0 0 n1 (nc B)) (mmul (msub U 0 n1 n1 n2) X1)) X0 ->
  solves_ul U B (mstack X0 X1).
Proof.
  intros HB Hn HL (Hw1 & Hr1 & Hc1 & E1) (Hw0 & Hr0 & Hc0 & E0).
  cbn [nr nc msub madd] in *.
  assert (WB0 : wf (msub B 0 0 n1 (nc B))) by (apply wf_msub; rewrite wf_len by assumption; lia).
  assert (W01 : wf (msub U 0 n1 n1 n2)) by (apply wf_msub; lia).
  refine (conj _ (conj _ (conj _ _))).
  - apply wf_mstack; auto. congruence.
  - cbn [nr mstack]. lia.
  - cbn [nc mstack]. assumption.
  - rewrite Hn, unit_upper_blocks by assumption.
    rewrite mmul_upper_block; auto with wf; try (apply wf_msub; lia); try congruence.
    rewrite E0, E1. rewrite madd_cancel; auto with wf.
    now apply mstack_split.
Qed.

Lemma ur_compose U B n1 n2 X0 X1 : wf B -> nc B = n1 + n2 -> n1 + n2 <= length (rows U) ->
  solves_ur (msub U 0 0 n1 n1) (msub B 0 0 (nr B) n1) X0 ->
  solves_ur (msub U n1 n1 n2 n2) (madd (msub B 0 n1 (nr B) n2) (mmul X0 (msub U 0 n1 n1 n2))) X1 ->
  solves_ur U B (mconcat X0 X1).
Proof.
  intros HB Hn HL (Hw0 & Hr0 & Hc0 & E0) (Hw1 & Hr1 & Hc1 & E1).
  cbn [nr nc msub madd] in *.
  assert (WB1 : wf (msub B 0 n1 (nr B) n2)) by (apply wf_msub; rewrite wf_len by assumption; lia).
  assert (W01 : wf (msub U 0 n1 n1 n2)) by (apply wf_msub; lia).
  refine (conj _ (conj _ (conj _ _))).
  - apply wf_mconcat; auto. congruence.
  - cbn [nr mconcat]. assumption.
  - cbn [nc mconcat]. lia.
  - rewrite Hn, unit_upper_blocks by assumption.
    rewrite mmul_r_upper_block; auto with wf; try (apply wf_msub; lia); try congruence.
    rewrite E0, E1. rewrite madd_twice; auto with wf.
    now apply mconcat_split.
Qed.

Lemma lr_compose L B n1 n2 X0 X1 : wf B -> nc B = n1 + n2 -> n1 + n2 <= length (rows L) ->
  solves_lr (msub L n1 n1 n2 n2) (msub B 0 n1 (nr B) n2) X1 ->
  solves_lr (msub L 0 0 n1 n1) (madd (msub B 0 0 (nr B) n1) (mmul X1 (msub L n1 0 n2 n1))) X0 ->
  solves_lr L B (mconcat X0 X1).
Proof.
  intros HB Hn HL (Hw1 & Hr1 & Hc1 & E1) (Hw0 & Hr0 & Hc0 & E0).
  cbn [nr nc msub madd] in *.
  assert (WB0 : wf (msub B 0 0 (nr B) n1)) by (apply wf_msub; rewrite wf_len by assumption; lia).
  assert (W10 : wf (msub L n1 0 n2 n1)) by (apply wf_msub; lia).
  refine (conj _ (conj _ (conj _ _))).
  - apply wf_mconcat; auto. congruence.
  - cbn [nr mconcat]. assumption.
  - cbn [nc mconcat]. lia.
  - rewrite Hn, unit_lower_blocks by assumption.
    rewrite mmul_r_lower_block; auto with wf; try (apply wf_msub; lia); try congruence.
    rewrite E0, E1. rewrite madd_cancel; auto with wf.
    now apply mconcat_split.
Qed.
