(* Alg/M4RINonFull.v — property C02, NON-reduced mode (full = 0) of the M4RI echelonisation
   _mzd_echelonize_m4ri (m4ri/brilliantrussian.c:603-844), model Alg/M4RI.v [m4ri_model .. false].

   Results (all for every table parameter k >= 1):
     m4ri_nonfull_spec       any switching oracle, any window echeloniser returning a row echelon form
                             row-equivalent to its argument: the result is (rank A, E), E a row echelon
                             form (strictly increasing pivot columns, zero rows last) row-equivalent to A
     m4ri_nonfull_canonical  heuristic off (mzd_echelonize_m4ri(A, 0, k)): the result is bit for bit
                             [gauss_delayed false 0 A], the output of naive Gauss: the block algorithm
                             with its lazy elimination (gs_scan / clear_seq), the detour through the
                             reduced pivot rows (gauss_submatrix_top, tables, copy_back_rows) and
                             mzd_find_pivot obeys the "left-most column, first row" pivot rule and only
                             adds earlier rows to later rows, so GaussRef.ref_canonical applies.
     m4ri_nonfull_canonical_any   ANY switching oracle, window echeloniser returning the output of naive
                             Gauss on the window: again bit for bit [gauss_delayed false 0 A] (sections
                             13-16: the interchanges of naive Gauss on the window, shifted, continue the
                             interchange sequence of the block algorithm).

   Nothing in Alg/M4RIProofs.v is changed; its lemmas on clear_above, the tables and process_rows are
   reused. *)
From Coq Require Import List NArith Arith Lia Bool Sorted ZArith ZifyBool ZifyNat ZifyN.
From M4 Require Import Base.Bits Lin.Mat Lin.MatAlg Lin.Ops Lin.OpsProofs Lin.Spec Lin.Span Lin.Echelon
                       Lin.Observers Alg.Gauss Alg.GaussProofs Alg.GaussRef Alg.Gray Alg.GrayProofs
                       Alg.M4RI Alg.M4RIProofs.
Import ListNotations.
Local Open Scope nat_scope.

(** * 0. row-level forms of the elementary operations *)
Lemma row_row_add_offset_z M d s c0 i : wf M -> d < nr M ->
  (forall j, j < c0 -> get M s j = false) ->
  row (row_add_offset M d s c0) i = N.lxor (row M i) (if i =? d then row M s else 0%N).
Proof.
  intros HM Hd Hz. apply (row_ext (nc M)).
  - apply (wf_row_bounded (row_add_offset M d s c0)). now apply wf_row_add_offset.
  - apply bounded_lxor; [now apply wf_row_bounded|]. destruct (i =? d); [now apply wf_row_bounded|apply bounded_0].
  - intros j _. change (N.testbit (row (row_add_offset M d s c0) i) (N.of_nat j))
      with (get (row_add_offset M d s c0) i j).
    rewrite get_row_add_offset by assumption. rewrite N.lxor_spec. fold (get M i j). f_equal.
    destruct (Nat.eqb_spec i d); cbn [andb]; [|now rewrite N.bits_0].
    fold (get M s j). destruct (Nat.leb_spec c0 j); cbn [andb]; [reflexivity|]. symmetry. now apply Hz.
Qed.

Lemma rows_len_wf M M' : wf M -> wf M' -> nr M' = nr M -> length (rows M') = length (rows M).
Proof. intros H H' E. now rewrite (wf_len M H), (wf_len M' H'). Qed.

(** * 1. the triangular relations of Alg/GaussRef.v under the operations of the block algorithm *)
Lemma lrel_mono s s' M B : s <= s' -> lrel s M B -> lrel s' M B.
Proof.
  intros Hle H i. destruct (H i) as [[x [Hx Ex]] [y [Hy Ey]]]. split.
  - exists x. split; [apply (bounded_mono (Nat.min i s)); [lia|assumption]|assumption].
  - exists y. split; [apply (bounded_mono (Nat.min i s)); [lia|assumption]|assumption].
Qed.

(** rows >= s receive combinations of the first s rows *)
Lemma lrel_add s M B M2 (v : nat -> N) :
  (forall i, row M2 i = N.lxor (row M i) (v i)) ->
  (forall i, i < s -> v i = 0%N) ->
  (forall i, spanlt M s (v i)) ->
  lrel s M B -> lrel s M2 B.
Proof.
  intros Hrow Hlow Hsp H.
  assert (Hsame : forall k, k < s -> row M2 k = row M k).
  { intros k Hk. rewrite Hrow, Hlow by assumption. apply N.lxor_0_r. }
  assert (Hag : forall x, bounded s x -> vmul x M2 = vmul x M).
  { intros x Hx. apply (vmul_agree x _ _ s Hx). exact Hsame. }
  intros i. destruct (H i) as [[x [Hx Ex]] [y [Hy Ey]]].
  destruct (Nat.lt_ge_cases i s) as [Hi|Hi].
  - rewrite Hrow, Hlow, N.lxor_0_r by assumption. split.
    + exists x. split; [assumption|]. rewrite Hag; [assumption|].
      apply (bounded_mono (Nat.min i s)); [lia|assumption].
    + exists y. now split.
  - replace (Nat.min i s) with s in * by lia.
    destruct (Hsp i) as [z [Hz Ez]].
    destruct (lrel_span_MB s M B (v i) H (Hsp i)) as [w [Hw Ew]].
    split.
    + exists (N.lxor x z). split; [now apply bounded_lxor|].
      rewrite Hag by now apply bounded_lxor. rewrite vmul_lxor, Ez, Hrow. rewrite Ex at 1.
      now rewrite N.lxor_assoc.
    + exists (N.lxor y w). split; [now apply bounded_lxor|].
      rewrite vmul_lxor, Ew, Hrow. rewrite Ey at 1. now rewrite N.lxor_assoc.
Qed.

(** a row of M that agrees up to column c0 with a combination of the first s rows of M gives a
    dependent row of B *)
Lemma dep_of_agree s M B j c0 z : lrel s M B -> bounded s z ->
  (forall col, col <= c0 -> get M j col = N.testbit (vmul z M) (N.of_nat col)) -> dep B s j c0.
Proof.
  intros H Hz Hag. destruct (H j) as [[x [Hx Ex]] _].
  assert (Hsp : spanlt M s (vmul (N.lxor x z) M)).
  { exists (N.lxor x z). split; [|reflexivity].
    apply bounded_lxor; [apply (bounded_mono (Nat.min j s)); [lia|assumption]|assumption]. }
  apply (lrel_span_MB s M B _ H) in Hsp as [y [Hy Ey]].
  exists y. split; [assumption|]. intros col Hcol. specialize (Hag col Hcol). unfold get in Hag.
  rewrite Ey, vmul_lxor, N.lxor_spec, <- Hag. rewrite Ex, N.lxor_spec.
  destruct (N.testbit (row B j) _), (N.testbit (vmul x M) _); reflexivity.
Qed.

(** * 2. the lazy clearing of row i by the l pivot rows of the block (non-reduced variant: the bits
    are re-read one by one, the pivot rows are only unit UPPER triangular on the block columns) *)
Definition blk_ut (M : mat) (r c l : nat) : Prop :=
  forall t, t < l -> get M (r + t) (c + t) = true /\ forall j, j < c + t -> get M (r + t) j = false.

Lemma clear_seq_spec M i r c l : wf M -> i < nr M -> r + l <= i -> blk_ut M r c l ->
  (forall j, j < c -> get M i j = false) ->
  let M' := clear_seq M i r c l in
  wf M' /\ nr M' = nr M /\ nc M' = nc M /\ row_equiv M M' /\
  (forall i', i' <> i -> row M' i' = row M i') /\
  (exists z, bounded (r + l) z /\ row M' i = N.lxor (row M i) (vmul z M)) /\
  (forall j, j < c + l -> get M' i j = false).
Proof.
  intros HM Hi Hri Hut Hz. unfold clear_seq.
  set (P := fun (t : nat) (X : mat) =>
    wf X /\ nr X = nr M /\ nc X = nc M /\ row_equiv M X /\
    (forall i', i' <> i -> row X i' = row M i') /\
    (exists z, bounded (r + t) z /\ row X i = N.lxor (row M i) (vmul z M)) /\
    (forall j, j < c + t -> get X i j = false)).
  cut (P (0 + l) (fold_left (fun M t => if get M i (c + t) then row_add_offset M i (r + t) (c + t) else M)
                            (seq 0 l) M)).
  { cbn [Nat.add]. intros H; exact H. }
  apply (fold_seq_inv P).
  - unfold P. splits; auto; try apply row_equiv_refl.
    + exists 0%N. split; [apply bounded_0|]. now rewrite vmul_0, N.lxor_0_r.
    + intros j Hj. apply Hz. lia.
  - intros t X Ht (HX & Hnr & Hnc & Heq & Ho & (z & Hzb & Ez) & Hdone).
    cbn [Nat.add] in Ht.
    destruct (Hut t ltac:(lia)) as [Hd Hb].
    assert (Hsrc : row X (r + t) = row M (r + t)) by (apply Ho; lia).
    assert (Hsz : forall j, j < c + t -> get X (r + t) j = false).
    { intros j Hj. unfold get. rewrite Hsrc. now apply Hb. }
    destruct (get X i (c + t)) eqn:Et.
    + unfold P. splits.
      * now apply wf_row_add_offset.
      * exact Hnr.
      * exact Hnc.
      * apply (row_equiv_trans M X); [assumption|]. apply row_equiv_row_add_offset; [assumption|lia|exact Hsz].
      * intros i' Hne. rewrite row_row_add_offset_z by (auto; lia).
        destruct (Nat.eqb_spec i' i); [contradiction|]. rewrite N.lxor_0_r. now apply Ho.
      * exists (N.lxor z (2 ^ N.of_nat (r + t))). split.
        -- apply bounded_lxor; [apply (bounded_mono (r + t)); [lia|assumption]|apply bounded_pow2; lia].
        -- rewrite row_row_add_offset_z by (auto; lia). rewrite Nat.eqb_refl.
           rewrite vmul_lxor, vmul_pow2, Hsrc, Ez. now rewrite N.lxor_assoc.
      * intros j Hj. rewrite get_row_add_offset by (auto; lia). rewrite Nat.eqb_refl. cbn [andb].
        destruct (Nat.eq_dec j (c + t)) as [->|Hne].
        -- rewrite Et. destruct (Nat.leb_spec (c + t) (c + t)); [|lia]. cbn [andb].
           unfold get at 1. rewrite Hsrc. fold (get M (r + t) (c + t)). now rewrite Hd.
        -- rewrite Hdone by lia. destruct (Nat.leb_spec (c + t) j); [lia|reflexivity].
    + unfold P. splits; auto.
      * exists z. split; [apply (bounded_mono (r + t)); [lia|assumption]|assumption].
      * intros j Hj. destruct (Nat.eq_dec j (c + t)) as [->|Hne]; [exact Et|apply Hdone; lia].
Qed.

Lemma row_swap_comm M a b : wf M -> a < nr M -> b < nr M -> row_swap M a b = row_swap M b a.
Proof.
  intros HM Ha Hb. apply mat_ext; auto using wf_row_swap. intros i j _ _.
  rewrite !get_row_swap by assumption.
  destruct (Nat.eqb_spec i a), (Nat.eqb_spec i b); subst; reflexivity.
Qed.

(** * 3. invariants.
    [ninv]: between two iterations of the main loop = the invariant [rinv] of Alg/GaussRef.v (echelon
    invariant [ginv false] + interchanges [sw] obeying the pivot rule + triangular relations between the
    working matrix and B = sw applied to A), extended by [pend]: mzd_find_pivot has already brought the
    next pivot row into place (its interchange is the last entry of [sw]) and the next block will find it
    in its first scan.
    [bst]: inside _mzd_gauss_submatrix after l pivots of the block at (r, c): the rows >= r + l are NOT
    yet cleared on the block columns (lazy elimination). *)
Record ninv (A : mat) (c : nat) (M : mat) (piv : list nat) (sw : list (nat * nat)) (pend : bool) : Prop :=
  mk_ninv {
  n_g : ginv false A c M piv;
  n_swl : length sw = length piv + (if pend then 1 else 0);
  n_Blen : length (rows (apply_swaps sw A)) = length (rows M);
  n_rel : lrel (length piv) M (apply_swaps sw A);
  n_rule : forall k, k < length sw -> rule_at A sw k;
  n_pend : pend = true -> length piv < nr M /\ get M (length piv) c = true
}.

Record bst (A : mat) (r c : nat) (M : mat) (pv : list nat) (l : nat) (sw : list (nat * nat)) (pend : bool)
  : Prop := mk_bst {
  b_wf : wf M;
  b_eq : row_equiv A M;
  b_lenpv : length pv = r + l;
  b_len : r + l <= nr M;
  b_sorted : StronglySorted lt pv;
  b_lt : forall j, In j pv -> j < c + l;
  b_lead : forall i, i < r + l -> lead (row M i) = Some (nth i pv 0);
  b_zero : forall i j, r + l <= i -> j < c -> get M i j = false;
  b_blk : forall t, t < l -> nth (r + t) pv 0 = c + t;
  b_swl : length sw = r + l + (if pend then 1 else 0);
  b_Blen : length (rows (apply_swaps sw A)) = length (rows M);
  b_rel : lrel (r + l) M (apply_swaps sw A);
  b_rule : forall k, k < length sw -> rule_at A sw k;
  b_pend : pend = true -> l = 0 /\ r < nr M /\ get M r c = true
}.

Lemma bst_blk_ut A r c M pv l sw pend : bst A r c M pv l sw pend -> blk_ut M r c l.
Proof.
  intros G t Ht. pose proof (b_lead _ _ _ _ _ _ _ _ G (r + t) ltac:(lia)) as Hl.
  rewrite (b_blk _ _ _ _ _ _ _ _ G t Ht) in Hl. apply lead_Some in Hl. exact Hl.
Qed.

Lemma bst_nrA A r c M pv l sw pend : bst A r c M pv l sw pend -> nr M = nr A /\ nc M = nc A.
Proof. intros G. destruct (b_eq _ _ _ _ _ _ _ _ G) as (H1 & H2 & _). now split. Qed.

(** every row >= r + l agrees, left of column c + l, with a combination of the pivot rows *)
Lemma bst_agree A r c M pv l sw pend j' : bst A r c M pv l sw pend -> r + l <= j' ->
  exists z, bounded (r + l) z /\
    forall col, col < c + l -> get M j' col = N.testbit (vmul z M) (N.of_nat col).
Proof.
  intros G Hj. pose proof (b_wf _ _ _ _ _ _ _ _ G) as HM.
  destruct (Nat.lt_ge_cases j' (nr M)) as [Hlt|Hge].
  - destruct (clear_seq_spec M j' r c l HM Hlt Hj (bst_blk_ut _ _ _ _ _ _ _ _ G)
                ltac:(intros j Hjc; apply (b_zero _ _ _ _ _ _ _ _ G); assumption))
      as (_ & _ & _ & _ & _ & (z & Hz & Ez) & Hclr).
    exists z. split; [assumption|]. intros col Hcol. specialize (Hclr col Hcol).
    unfold get in Hclr. rewrite Ez, N.lxor_spec in Hclr. now apply Bool.xorb_eq.
  - exists 0%N. split; [apply bounded_0|]. intros col _. rewrite vmul_0, N.bits_0.
    apply get_out_row; assumption.
Qed.

(** * 4. the scan of _mzd_gauss_submatrix for the pivot of column c + l *)
Lemma gs_scan_spec A r c pv l sw n : forall M i pend, bst A r c M pv l sw pend ->
  r + l <= i -> i + n <= nr M ->
  (forall i' j, r + l <= i' < i -> j <= c + l -> get M i' j = false) ->
  (pend = true -> i = r + l /\ 0 < n) ->
  forall M' found, gs_scan n M r c l i = (M', found) ->
  if found then exists sw', bst A r c M' (pv ++ [c + l]) (S l) sw' false
  else bst A r c M' pv l sw false /\
       forall i' j, r + l <= i' < i + n -> j <= c + l -> get M' i' j = false.
Proof.
  induction n as [|n IH]; intros M i pend G Hi Hn Hclr Hp M' found E.
  - destruct pend; [destruct (Hp eq_refl); lia|]. cbn [gs_scan] in E. injection E as <- <-.
    split; [assumption|]. intros i' j Hi' Hj. apply Hclr; lia.
  - pose proof G as [HM Heq Hlpv Hlen Hs Hlt Hlead Hzero Hblk Hswl HBlen Hrel Hrule Hpend].
    destruct (bst_nrA _ _ _ _ _ _ _ _ G) as [HnrA HncA].
    set (B := apply_swaps sw A) in *.
    assert (Hlen' : length (pv ++ [c + l]) = r + S l) by (rewrite app_length; cbn [length]; lia).
    assert (Hs' : StronglySorted lt (pv ++ [c + l])) by now apply sorted_app_single.
    assert (Hlt' : forall j, In j (pv ++ [c + l]) -> j < c + S l).
    { intros j Hj. apply in_app_or in Hj as [Hj|[<-|[]]]; [specialize (Hlt j Hj)|]; lia. }
    assert (Hblk' : forall t, t < S l -> nth (r + t) (pv ++ [c + l]) 0 = c + t).
    { intros t Ht. destruct (Nat.eq_dec t l) as [->|Hne].
      - rewrite app_nth2 by lia. replace (r + l - length pv) with 0 by lia. reflexivity.
      - rewrite app_nth1 by lia. apply Hblk. lia. }
    destruct pend.
    + (* the pivot row was put in place by mzd_find_pivot *)
      destruct (Hpend eq_refl) as (-> & Hr & Hg). destruct (Hp eq_refl) as [-> _].
      cbn [gs_scan] in E. unfold clear_seq in E. cbn [seq fold_left] in E.
      replace (r + 0) with r in * by lia. replace (c + 0) with c in * by lia. rewrite Hg in E.
      rewrite row_swap_same in E by assumption. injection E as <- <-.
      exists sw. constructor; auto; try lia.
      * intros i Hi'. destruct (Nat.eq_dec i r) as [->|Hne].
        -- rewrite app_nth2 by lia. replace (r - length pv) with 0 by lia. cbn [nth].
           apply lead_Some. split; [exact Hg|]. intros j Hj. apply Hzero; lia.
        -- rewrite app_nth1 by lia. apply Hlead. lia.
      * intros i j Hi' Hj. apply Hzero; lia.
      * apply (lrel_mono r); [lia|exact Hrel].
    + cbn [gs_scan] in E.
      destruct (clear_seq_spec M i r c l HM ltac:(lia) Hi (bst_blk_ut _ _ _ _ _ _ _ _ G)
                  ltac:(intros j Hj; apply Hzero; [lia|assumption]))
        as (HM1 & Hnr1 & Hnc1 & Heq1 & Ho1 & (z & Hzb & Ez) & Hz1).
      set (M1 := clear_seq M i r c l) in *.
      assert (Hg1 : forall i' j, i' <> i -> get M1 i' j = get M i' j)
        by (intros i' j Hne; unfold get; now rewrite Ho1).
      assert (G1 : bst A r c M1 pv l sw false).
      { constructor; auto; try lia.
        - now apply (row_equiv_trans A M).
        - intros i' Hi'. rewrite Ho1 by lia. now apply Hlead.
        - intros i' j Hi' Hj. destruct (Nat.eq_dec i' i) as [->|Hne]; [apply Hz1; lia|].
          rewrite Hg1 by assumption. now apply Hzero.
        - fold B. rewrite HBlen. symmetry. now apply rows_len_wf.
        - fold B. apply (lrel_add (r + l) M B M1 (fun i' => if i' =? i then vmul z M else 0%N)).
          + intros i'. destruct (Nat.eqb_spec i' i) as [->|Hne]; [exact Ez|].
            rewrite N.lxor_0_r. now apply Ho1.
          + intros i' Hi'. destruct (Nat.eqb_spec i' i); [lia|reflexivity].
          + intros i'. destruct (i' =? i); [now exists z|apply spanlt_0].
          + exact Hrel. }
      assert (Hclr1 : forall i' j, r + l <= i' < i -> j <= c + l -> get M1 i' j = false).
      { intros i' j Hi' Hj. rewrite Hg1 by lia. now apply Hclr. }
      destruct (get M1 i (c + l)) eqn:Epiv.
      * (* pivot found in row i *)
        injection E as <- <-.
        assert (Hi1 : i < nr M1) by lia. assert (Hs1 : r + l < nr M1) by lia.
        rewrite (row_swap_comm M1 i (r + l)) by assumption.
        set (M2 := row_swap M1 (r + l) i).
        pose proof (wf_len M1 HM1) as HlM1.
        assert (Hrow2 : forall i', row M2 i' =
                  if i' =? i then row M1 (r + l) else if i' =? r + l then row M1 i else row M1 i').
        { intros i'. unfold M2. apply row_row_swap; lia. }
        exists (sw ++ [(r + l, i)]). constructor; auto; try lia.
        -- now apply wf_row_swap.
        -- apply (row_equiv_trans A M1); [apply (b_eq _ _ _ _ _ _ _ _ G1)|].
           apply row_equiv_row_swap; lia.
        -- cbn [nr M2 row_swap set_row]. lia.
        -- intros i' Hi'. rewrite Hrow2. destruct (Nat.eqb_spec i' i) as [->|Hne].
           ++ assert (i = r + l) by lia. subst i. rewrite app_nth2 by lia.
              replace (r + l - length pv) with 0 by lia. cbn [nth].
              apply lead_Some. split; [exact Epiv|]. intros j Hj. now apply Hz1.
           ++ destruct (Nat.eqb_spec i' (r + l)) as [->|Hne'].
              ** rewrite app_nth2 by lia. replace (r + l - length pv) with 0 by lia. cbn [nth].
                 apply lead_Some. split; [exact Epiv|]. intros j Hj. now apply Hz1.
              ** rewrite app_nth1 by lia. apply (b_lead _ _ _ _ _ _ _ _ G1). lia.
        -- intros i' j Hi' Hj. unfold get. rewrite Hrow2.
           destruct (Nat.eqb_spec i' i); [|destruct (Nat.eqb_spec i' (r + l))];
             apply (b_zero _ _ _ _ _ _ _ _ G1); lia.
        -- rewrite app_length. cbn [length]. lia.
        -- rewrite apply_swaps_app. cbn [fst snd]. fold B. unfold M2.
           rewrite !rows_row_swap_length. apply (b_Blen _ _ _ _ _ _ _ _ G1).
        -- rewrite apply_swaps_app. cbn [fst snd]. fold B.
           apply (lrel_mono (r + l)); [lia|]. unfold M2. apply lrel_swap; [lia|lia| |].
           ++ apply (b_Blen _ _ _ _ _ _ _ _ G1).
           ++ apply (b_rel _ _ _ _ _ _ _ _ G1).
        -- intros k Hk. rewrite app_length in Hk. cbn [length] in Hk.
           destruct (Nat.eq_dec k (length sw)) as [->|Hne].
           ++ unfold rule_at. rewrite app_nth2 by lia. rewrite Nat.sub_diag. cbn [nth fst snd].
              rewrite firstn_app, firstn_all, Nat.sub_diag. cbn [firstn]. rewrite app_nil_r. fold B.
              rewrite Hswl, Nat.add_0_r. split; [reflexivity|]. split; [lia|].
              exists (c + l). split; [|split].
              ** rewrite <- Hlpv. apply (not_dep_of_pivot (c + l) M1 B pv i); auto.
                 --- intros i' Hi'. apply (b_lead _ _ _ _ _ _ _ _ G1). lia.
                 --- rewrite Hlpv. apply (b_rel _ _ _ _ _ _ _ _ G1).
              ** intros j' Hj'. apply (dep_of_zero (r + l) M1 B j' (c + l) (b_rel _ _ _ _ _ _ _ _ G1)).
                 intros col Hcol. apply Hclr1; lia.
              ** intros c' j' Hc' Hj'.
                 destruct (bst_agree _ _ _ _ _ _ _ _ j' G1 Hj') as (z' & Hz' & Hag).
                 apply (dep_of_agree (r + l) M1 B j' c' z' (b_rel _ _ _ _ _ _ _ _ G1) Hz').
                 intros col Hcol. apply Hag. lia.
           ++ apply rule_at_app; [lia|]. apply Hrule. lia.
      * assert (Hclr' : forall i' j, r + l <= i' < S i -> j <= c + l -> get M1 i' j = false).
        { intros i' j Hi' Hj. destruct (Nat.eq_dec i' i) as [->|Hne]; [|apply Hclr1; lia].
          destruct (Nat.eq_dec j (c + l)) as [->|Hjl]; [exact Epiv|apply Hz1; lia]. }
        pose proof (IH M1 (S i) false G1 ltac:(lia) ltac:(lia) Hclr' ltac:(discriminate) M' found E) as R.
        replace (S i + n) with (i + S n) in R by lia. exact R.
Qed.

(** * 5. _mzd_gauss_submatrix: the loop over the block columns *)
Lemma gs_cols_spec A r c n : forall M pv l sw pend, bst A r c M pv l sw pend ->
  forall M' kbar, gs_cols n M r c (nr A) l = (M', kbar) ->
  exists pv' sw' pend', bst A r c M' pv' kbar sw' pend' /\ l <= kbar <= l + n /\
    pv' = pv ++ seq (c + l) (kbar - l) /\
    (pend = false \/ 0 < n -> pend' = false) /\
    (kbar < l + n -> forall i' j, r + kbar <= i' < nr A -> j <= c + kbar -> get M' i' j = false).
Proof.
  induction n as [|n IH]; intros M pv l sw pend G M' kbar E; cbn [gs_cols] in E.
  - injection E as <- <-. exists pv, sw, pend. split; [assumption|]. split; [lia|].
    split; [rewrite Nat.sub_diag; cbn [seq]; now rewrite app_nil_r|]. split; [intros [H|H]; [assumption|lia]|].
    intros H; lia.
  - destruct (bst_nrA _ _ _ _ _ _ _ _ G) as [HnrA HncA].
    pose proof (b_len _ _ _ _ _ _ _ _ G) as Hlen.
    destruct (gs_scan (nr A - (r + l)) M r c l (r + l)) as [M1 found] eqn:Es.
    pose proof (gs_scan_spec A r c pv l sw (nr A - (r + l)) M (r + l) pend G ltac:(lia) ltac:(lia)
                  ltac:(intros i' j Hi'; lia)
                  ltac:(intros Hp; destruct (b_pend _ _ _ _ _ _ _ _ G Hp) as (-> & Hr & _); split; lia)
                  M1 found Es) as R.
    destruct found.
    + destruct R as [sw1 G1].
      destruct (IH M1 _ (S l) sw1 false G1 M' kbar E) as (pv' & sw' & pend' & G' & Hk & Epv & Hpe & Hz).
      exists pv', sw', pend'. split; [assumption|]. split; [lia|]. split; [|split].
      * rewrite Epv, <- app_assoc. f_equal. replace (kbar - l) with (S (kbar - S l)) by lia.
        cbn [seq app]. now replace (c + S l) with (S (c + l)) by lia.
      * intros _. apply Hpe. now left.
      * intros Hlt. apply Hz. lia.
    + injection E as <- <-. destruct R as [G1 Hz]. exists pv, sw, false. split; [assumption|].
      split; [lia|]. split; [rewrite Nat.sub_diag; cbn [seq]; now rewrite app_nil_r|]. split; [reflexivity|].
      intros _ i' j Hi' Hj. apply Hz; lia.
Qed.

(** * 6. _mzd_gauss_submatrix_top on the kbar pivot rows: they become the identity on the block columns;
    every new pivot row is a combination of the old pivot rows *)
Lemma clear_above_row M r s j i : wf M -> s < nr M -> r <= s ->
  (forall j', j' < j -> get M s j' = false) ->
  row (clear_above M r s j) i =
  N.lxor (row M i) (if (r <=? i) && (i <? s) && get M i j then row M s else 0%N).
Proof.
  intros HM Hs Hrs Hz. destruct (clear_above_spec M r s j HM Hs Hrs Hz) as (HM' & Hnr & Hnc & _ & Hg).
  apply (row_ext (nc M)).
  - rewrite <- Hnc. now apply wf_row_bounded.
  - apply bounded_lxor; [now apply wf_row_bounded|].
    destruct (_ && _); [now apply wf_row_bounded|apply bounded_0].
  - intros j' _. change (N.testbit (row (clear_above M r s j) i) (N.of_nat j')) with (get (clear_above M r s j) i j').
    rewrite Hg, N.lxor_spec. fold (get M i j'). f_equal.
    destruct ((r <=? i) && (i <? s) && get M i j); cbn [andb]; [|now rewrite N.bits_0].
    fold (get M s j'). destruct (Nat.leb_spec j j'); cbn [andb]; [reflexivity|]. symmetry. now apply Hz.
Qed.

Lemma gst_spec M r c kbar : wf M -> r + kbar <= nr M -> blk_ut M r c kbar ->
  let M' := gauss_submatrix_top M r c kbar in
  wf M' /\ nr M' = nr M /\ nc M' = nc M /\
  (forall i, i < r \/ r + kbar <= i -> row M' i = row M i) /\
  blk_id M' r c kbar /\
  (forall t j, t < kbar -> j < c -> get M' (r + t) j = false) /\
  (forall t, t < kbar -> spanlt M (r + kbar) (row M' (r + t))).
Proof.
  intros HM Hr Hut. unfold gauss_submatrix_top.
  set (P := fun (t : nat) (X : mat) =>
    wf X /\ nr X = nr M /\ nc X = nc M /\
    (forall i, i < r \/ r + kbar <= i -> row X i = row M i) /\
    blk_ut X r c kbar /\
    (forall u a, u < t -> a < u -> get X (r + a) (c + u) = false) /\
    (forall a, a < kbar -> spanlt M (r + kbar) (row X (r + a)))).
  cut (P (0 + kbar) (fold_left (fun M t => clear_above M r (r + t) (c + t)) (seq 0 kbar) M)).
  { cbn [Nat.add]. intros (H1 & H2 & H3 & H4 & H5 & H6 & H7). splits; auto.
    - intros t u Ht Hu. destruct (H5 t Ht) as [Hd Hb]. destruct (H5 u Hu) as [Hd' _].
      destruct (Nat.eqb_spec t u) as [->|Hne]; [assumption|].
      destruct (Nat.lt_ge_cases u t); [apply Hb; lia|apply H6; lia].
    - intros t j Ht Hj. destruct (H5 t Ht) as [_ Hb]. apply Hb. lia. }
  apply (fold_seq_inv P).
  - unfold P. splits; auto.
    + intros u a Hu. lia.
    + intros a Ha. apply spanlt_row. lia.
  - intros t X Ht (HX & Hnr & Hnc & Hout & Hut' & Habove & Hsp). cbn [Nat.add] in Ht.
    destruct (Hut' t ltac:(lia)) as [Hdt Hbt].
    destruct (clear_above_spec X r (r + t) (c + t) HX ltac:(lia) ltac:(lia) Hbt) as (HX' & Hnr' & Hnc' & _ & Hg).
    pose proof (fun i => clear_above_row X r (r + t) (c + t) i HX ltac:(lia) ltac:(lia) Hbt) as Hrow.
    set (X' := clear_above X r (r + t) (c + t)) in *.
    unfold P. splits; try congruence.
    + intros i Hi. rewrite Hrow. replace ((r <=? i) && (i <? r + t)) with false.
      * cbn [andb]. rewrite N.lxor_0_r. now apply Hout.
      * symmetry. destruct (Nat.leb_spec r i), (Nat.ltb_spec i (r + t)); try reflexivity. lia.
    + intros a Ha. destruct (Hut' a Ha) as [Hd Hb]. split.
      * rewrite Hg. destruct (Nat.leb_spec (c + t) (c + a)) as [Hle|Hgt].
        -- destruct (Nat.ltb_spec (r + a) (r + t)); [lia|]. now rewrite andb_false_r, !andb_false_l, xorb_false_r.
        -- now rewrite andb_false_r, andb_false_l, xorb_false_r.
      * intros j Hj. rewrite Hg, (Hb j Hj). rewrite xorb_false_l.
        destruct (Nat.ltb_spec (r + a) (r + t)); [|now rewrite andb_false_r, !andb_false_l].
        destruct (Nat.leb_spec (c + t) j); [lia|]. now rewrite andb_false_r, andb_false_l.
    + intros u a Hu Ha. rewrite Hg. destruct (Nat.eq_dec u t) as [->|Hne].
      * destruct (Nat.leb_spec r (r + a)); [|lia]. destruct (Nat.ltb_spec (r + a) (r + t)); [|lia].
        destruct (Nat.leb_spec (c + t) (c + t)); [|lia]. cbn [andb]. rewrite Hdt, !andb_true_r.
        apply xorb_nilpotent.
      * destruct (Nat.leb_spec (c + t) (c + u)); [lia|]. rewrite andb_false_r, andb_false_l, xorb_false_r.
        apply Habove; lia.
    + intros a Ha. rewrite Hrow. apply spanlt_lxor; [now apply Hsp|].
      destruct (_ && _); [apply Hsp; lia|apply spanlt_0].
Qed.

(** * 7. tables made from the reduced pivot rows: every entry is a combination of the pivot rows *)
Lemma tbl_sum_closed (P : N -> Prop) M0 r c kbar : wf M0 -> zero_below M0 r c ->
  P 0%N -> (forall a b, P a -> P b -> P (N.lxor a b)) -> (forall t, t < kbar -> P (row M0 (r + t))) ->
  forall sizes r' bits, r <= r' -> r' + list_sum sizes <= r + kbar -> P (tbl_sum M0 r' c sizes bits).
Proof.
  intros HM Hzb P0 Px Prow. induction sizes as [|ka rest IH]; intros r' bits Hr Hs; cbn [tbl_sum].
  - exact P0.
  - change (list_sum (ka :: rest)) with (ka + list_sum rest) in Hs.
    apply Px; [|apply IH; lia].
    unfold tbl_entry, mt_mask.
    assert (Hin : forall v, In v (block_rows M0 r' ka) -> exists b, b < ka /\ v = row M0 (r' + b)).
    { intros v Hv. destruct (In_nth _ _ 0%N Hv) as [b [Hb <-]].
      assert (Hb' : b < ka). { unfold block_rows in Hb. rewrite firstn_length in Hb. lia. }
      exists b. split; [assumption|]. now apply nth_block_rows. }
    rewrite land_colmask_id.
    + apply (mul_row_closed P P0 Px). intros v Hv. destruct (Hin v Hv) as [b [Hb ->]].
      replace (r' + b) with (r + (r' - r + b)) by lia. apply Prow. lia.
    + apply bounded_mul_row. now apply block_rows_bounded.
    + apply (mul_row_closed (fun v => forall j, j < c -> N.testbit v (N.of_nat j) = false)).
      * intros j _. apply N.bits_0.
      * intros a b Ha Hb j Hj. now rewrite N.lxor_spec, Ha, Hb.
      * intros v Hv j Hj. destruct (Hin v Hv) as [b [Hb ->]]. apply Hzb; [lia|assumption].
Qed.

Lemma ninv_bst A c M piv sw pend : ninv A c M piv sw pend -> bst A (length piv) c M piv 0 sw pend.
Proof.
  intros [[Hwf Heq Hlen Hs Hlt Hlead Hzero _] Hswl HBlen Hrel Hrule Hpend].
  constructor; rewrite ?Nat.add_0_r; auto; try lia.
Qed.

(** * 8. one pass of the loop body in non-reduced mode (brilliantrussian.c:752-806):
    _mzd_gauss_submatrix, save the pivot rows (U), _mzd_gauss_submatrix_top, tables, process the rows
    below, copy the saved pivot rows back *)
Theorem block_nonfull_spec A k piv sw pend c M kk : ninv A c M piv sw pend -> 1 <= kk -> c + kk <= nc M ->
  forall M3 kbar, block_step k false M (length piv) c kk = (M3, kbar) ->
  kbar <= kk /\ nc M3 = nc M /\
  exists sw', ninv A (if kbar =? kk then c + kbar else S (c + kbar)) M3 (piv ++ seq c kbar) sw' false.
Proof.
  intros Hn Hkk Hc M3 kbar E. set (r := length piv) in *.
  pose proof (ninv_bst _ _ _ _ _ _ Hn) as G0. fold r in G0.
  destruct (bst_nrA _ _ _ _ _ _ _ _ G0) as [HnrA HncA].
  unfold block_step, gauss_submatrix in E. rewrite HnrA in E.
  destruct (gs_cols kk M r c (nr A) 0) as [M1 kb] eqn:Eg.
  destruct (gs_cols_spec A r c kk M piv 0 sw pend G0 M1 kb Eg) as (pv1 & sw1 & pend1 & G1 & Hkb & Epv & Hpe & Hnf).
  rewrite Nat.add_0_r, Nat.sub_0_r in Epv. cbn [Nat.add] in Hkb, Hnf.
  rewrite (Hpe ltac:(right; lia)) in G1. clear Hpe pend1.
  injection E as <- <-.
  pose proof G1 as [HM1 Heq1 Hlpv1 Hlen1 Hs1 Hlt1 Hlead1 Hzero1 Hblk1 Hswl1 HBlen1 Hrel1 Hrule1 _].
  destruct (bst_nrA _ _ _ _ _ _ _ _ G1) as [HnrA1 HncA1].
  pose proof (bst_blk_ut _ _ _ _ _ _ _ _ G1) as Hut1.
  destruct (gst_spec M1 r c kb HM1 Hlen1 Hut1) as (HMt & Hnrt & Hnct & Houtt & Hblkt & Hzt & Hspt).
  set (Mt := gauss_submatrix_top M1 r c kb) in *.
  assert (Hzbt : zero_below Mt r c).
  { intros i j Hi Hj. destruct (Nat.lt_ge_cases i (r + kb)) as [Hlt|Hge].
    - replace i with (r + (i - r)) by lia. apply Hzt; [lia|assumption].
    - unfold get. rewrite Houtt by lia. now apply Hzero1. }
  set (flag := (0 <? kb) && (kb =? kk)).
  set (T := tables k Mt r c kb).
  set (M2 := if flag then process_rows Mt T (r + kb) (nr A) c kb else Mt).
  set (bits := fun i => N.land (N.shiftr (row Mt i) (N.of_nat c)) (N.ones (N.of_nat kb))).
  set (w := fun i => if flag && ((r + kb <=? i) && (i <? nr A)) then T (bits i) else 0%N).
  pose proof (wf_len Mt HMt) as HlMt.
  assert (Hrow2 : forall i, row M2 i = N.lxor (row Mt i) (w i)).
  { intros i. unfold M2, w. destruct flag; cbn [andb]; [|now rewrite N.lxor_0_r].
    unfold process_rows. rewrite row_map_rows.
    destruct (Nat.ltb_spec i (length (rows Mt))) as [Hi|Hi].
    - destruct ((r + kb <=? i) && (i <? nr A)); [reflexivity|now rewrite N.lxor_0_r].
    - rewrite (Span.row_overflow Mt i Hi).
      destruct (Nat.ltb_spec i (nr A)); [lia|]. now rewrite andb_false_r. }
  assert (Hwlow : forall i, i < r + kb -> w i = 0%N).
  { intros i Hi. unfold w. destruct (Nat.leb_spec (r + kb) i); [lia|]. cbn [andb]. now rewrite andb_false_r. }
  assert (Hwsp : forall i, spanlt M1 (r + kb) (w i)).
  { intros i. unfold w. destruct (flag && _) eqn:Ef; [|apply spanlt_0].
    apply andb_true_iff in Ef as [Ef _]. unfold flag in Ef. apply andb_true_iff in Ef as [Ef _].
    apply Nat.ltb_lt in Ef. unfold T, tables.
    apply (tbl_sum_closed (spanlt M1 (r + kb)) Mt r c kb HMt Hzbt); auto.
    - apply spanlt_0.
    - apply spanlt_lxor.
    - rewrite split_sizes_sum by now apply ntables_range. lia. }
  assert (Hl2 : length (rows M2) = length (rows M1)).
  { unfold M2. destruct flag; [unfold process_rows; rewrite rows_map_rows_length|]; now apply rows_len_wf. }
  assert (Hnc2 : nc M2 = nc M1) by (unfold M2; destruct flag; exact Hnct).
  set (M3 := copy_back_rows M2 (firstn kb (skipn r (rows M1))) r c kb).
  pose proof (wf_len M1 HM1) as HlM1.
  assert (Hrow3 : forall i, row M3 i = N.lxor (row M1 i) (w i)).
  { intros i. unfold M3, copy_back_rows. rewrite row_map_rows, Hl2.
    destruct (Nat.ltb_spec i (length (rows M1))) as [Hi|Hi].
    2:{ rewrite (Span.row_overflow M1 i Hi). unfold w. destruct (Nat.ltb_spec i (nr A)); [lia|].
        now rewrite !andb_false_r. }
    destruct (Nat.leb_spec r i) as [Hri|Hri]; cbn [andb].
    - destruct (Nat.ltb_spec i (r + kb)) as [Hik|Hik].
      + (* a pivot row: restored from U *)
        rewrite Hwlow, N.lxor_0_r by assumption.
        fold (block_rows M1 r kb). rewrite nth_block_rows by lia. replace (r + (i - r)) with i by lia.
        rewrite Hnc2. apply (row_ext (nc M1)).
        * apply bounded_lor; [apply bounded_land_l; rewrite <- Hnc2, Hrow2, Hwlow, N.lxor_0_r by assumption;
                              rewrite Hnc2, <- Hnct; now apply wf_row_bounded|].
          apply bounded_land_l. now apply wf_row_bounded.
        * now apply wf_row_bounded.
        * intros j Hj. rewrite N.lor_spec, !N.land_spec, testbit_ones_nat, OpsProofs.testbit_colmask.
          rewrite Hrow2, Hwlow, N.lxor_0_r by assumption.
          fold (get Mt i j). fold (get M1 i j).
          assert (Hcb : radix * (c / radix) <= c) by (unfold radix; lia).
          destruct (Nat.ltb_spec j (radix * (c / radix))) as [Hlo|Hhi].
          -- assert (E1 : get M1 i j = false).
             { replace i with (r + (i - r)) by lia. apply (proj2 (Hut1 (i - r) ltac:(lia))). lia. }
             assert (E2 : get Mt i j = false) by (replace i with (r + (i - r)) by lia; apply Hzt; lia).
             rewrite E1, E2. reflexivity.
          -- destruct (Nat.leb_spec (radix * (c / radix)) j); [|lia].
             destruct (Nat.ltb_spec j (nc M1)); [|lia]. now rewrite andb_false_r, andb_true_r.
      + rewrite Hrow2, Houtt by lia. reflexivity.
    - rewrite Hrow2, Houtt by lia. reflexivity. }
  assert (HM3 : wf M3).
  { apply wf_of_rows.
    - unfold M3, copy_back_rows. rewrite rows_map_rows_length, Hl2. cbn [nr map_rows].
      unfold M2. destruct flag; [cbn [nr process_rows map_rows]|]; lia.
    - intros i. replace (nc M3) with (nc M1) by (unfold M3; cbn [nc copy_back_rows map_rows]; now rewrite Hnc2).
      rewrite Hrow3. apply bounded_lxor; [now apply wf_row_bounded|].
      destruct (Hwsp i) as [z [_ <-]]. now apply bounded_vmul. }
  assert (Hnr3 : nr M3 = nr M1).
  { unfold M3. cbn [nr copy_back_rows map_rows]. unfold M2. destruct flag; [cbn [nr process_rows map_rows]|]; lia. }
  assert (Hnc3 : nc M3 = nc M1) by (unfold M3; cbn [nc copy_back_rows map_rows]; now rewrite Hnc2).
  assert (Hg3 : forall i j, get M3 i j = xorb (get M1 i j) (N.testbit (w i) (N.of_nat j))).
  { intros i j. unfold get. now rewrite Hrow3, N.lxor_spec. }
  assert (Hvag : forall x, bounded (r + kb) x -> vmul x M3 = vmul x M1).
  { intros x Hx. apply (vmul_agree x _ _ (r + kb) Hx). intros i Hi. now rewrite Hrow3, Hwlow, N.lxor_0_r. }
  assert (Heq13 : row_equiv M1 M3).
  { apply (row_equiv_add_vectors M1 M3 (fun _ => true)); auto.
    - now apply rows_len_wf.
    - discriminate.
    - intros i _. exists (w i). split; [apply Hrow3|]. destruct (Hwsp i) as [z [Hz <-]]. split.
      + now exists z.
      + exists z. now apply Hvag. }
  (* the block columns of the rows below the pivots *)
  assert (Hcleared : flag = true -> forall i u, r + kb <= i -> u < kb -> get M3 i (c + u) = false).
  { intros Hf i u Hi Hu. rewrite Hg3. unfold w. rewrite Hf. cbn [andb].
    destruct (Nat.leb_spec (r + kb) i); [|lia]. cbn [andb].
    destruct (Nat.ltb_spec i (nr A)) as [Hin|Hin].
    - unfold T. rewrite tables_char by (auto; lia).
      destruct (Nat.leb_spec c (c + u)); [|lia]. cbn [andb].
      destruct (Nat.ltb_spec (c + u) (nc Mt)) as [Hcu|Hcu]; cbn [andb].
      + rewrite (xsum_blk_id Mt r c kb (fun t => N.testbit (bits i) (N.of_nat t)) u Hblkt Hu).
        unfold bits. rewrite N.land_spec, testbit_ones_nat, testbit_shiftr_nat.
        destruct (Nat.ltb_spec u kb); [|lia]. rewrite andb_true_r.
        rewrite Houtt by lia. replace (u + c) with (c + u) by lia. apply xorb_nilpotent.
      + rewrite xorb_false_r. apply get_out_col; [assumption|lia].
    - rewrite N.bits_0, xorb_false_r. apply get_out_row; [assumption|lia]. }
  assert (Hwbit : forall i j, j < c -> N.testbit (w i) (N.of_nat j) = false).
  { intros i j Hj. unfold w. destruct (flag && _) eqn:Ef; [|apply N.bits_0].
    apply andb_true_iff in Ef as [Ef _]. unfold flag in Ef. apply andb_true_iff in Ef as [Ef _].
    apply Nat.ltb_lt in Ef. unfold T. rewrite tables_char by (auto; lia).
    destruct (Nat.leb_spec c j); [lia|reflexivity]. }
  split; [lia|]. split; [congruence|]. exists sw1.
  rewrite <- Epv. constructor.
  - constructor.
    + exact HM3.
    + now apply (row_equiv_trans A M1).
    + lia.
    + exact Hs1.
    + intros j Hj. specialize (Hlt1 j Hj). destruct (kb =? kk); lia.
    + rewrite Hlpv1. intros i Hi. rewrite Hrow3, Hwlow, N.lxor_0_r by assumption. now apply Hlead1.
    + rewrite Hlpv1. intros i j Hi Hj. destruct (Nat.lt_ge_cases j c) as [Hjc|Hjc].
      * rewrite Hg3, Hzero1, Hwbit by assumption. reflexivity.
      * destruct (Nat.eqb_spec kb kk) as [Ek|Ek].
        -- replace j with (c + (j - c)) by lia. apply Hcleared; [|assumption|lia].
           unfold flag. destruct (Nat.ltb_spec 0 kb); [|lia]. destruct (Nat.eqb_spec kb kk); [reflexivity|lia].
        -- assert (Hw0 : w i = 0%N).
           { unfold w, flag. destruct (Nat.eqb_spec kb kk); [lia|]. now rewrite andb_false_r. }
           rewrite Hg3, Hw0, N.bits_0, xorb_false_r.
           destruct (Nat.lt_ge_cases i (nr A)) as [Hin|Hin].
           ++ apply Hnf; lia.
           ++ apply get_out_row; [assumption|lia].
    + discriminate.
  - rewrite Hlpv1, Nat.add_0_r. rewrite Hswl1. lia.
  - rewrite HBlen1. symmetry. now apply rows_len_wf.
  - rewrite Hlpv1. apply (lrel_add (r + kb) M1 _ M3 w); auto.
  - exact Hrule1.
  - discriminate.
Qed.

(** * 9. the cursor update: mzd_find_pivot + row swap (brilliantrussian.c:808-823).  The row found is
    the FIRST row of the LEFT-MOST non-zero column of the remaining rows: its interchange obeys the
    pivot rule; the next block finds this row in its first scan ([pend]). *)
Lemma ninv_find_pivot_some A c c0 M piv sw rbar cbar : ninv A c M piv sw false -> c0 <= c ->
  find_pivot M (length piv) c0 = Some (rbar, cbar) ->
  ninv A cbar (row_swap M (length piv) rbar) piv (sw ++ [(length piv, rbar)]) true /\ c <= cbar < nc M.
Proof.
  intros [Hg Hswl HBlen Hrel Hrule _] Hc0 E. set (r := length piv) in *. set (B := apply_swaps sw A) in *.
  pose proof (gi_wf _ _ _ _ _ Hg) as HM. pose proof (wf_len M HM) as HlM.
  destruct (ginv_find_pivot_some false A c c0 M piv rbar cbar Hg Hc0 E) as (Hg2 & Hcb & Hget).
  destruct (find_pivot_spec M r c0 HM) as [_ HS].
  destruct (HS rbar cbar E) as (G1 & G2 & G3 & G4 & G5).
  destruct (gi_equiv _ _ _ _ _ Hg) as (HnrA & _).
  assert (Hzero : forall i j, r <= i -> j < cbar -> get M i j = false).
  { intros i j Hi Hj. destruct (Nat.lt_ge_cases j c); [now apply (gi_zero _ _ _ _ _ Hg)|apply G4; lia]. }
  split; [|assumption]. constructor.
  - exact Hg2.
  - rewrite app_length. cbn [length]. lia.
  - rewrite apply_swaps_app. cbn [fst snd]. fold B. now rewrite !rows_row_swap_length.
  - rewrite apply_swaps_app. cbn [fst snd]. fold B. apply lrel_swap; [lia|lia|assumption|assumption].
  - intros k Hk. rewrite app_length in Hk. cbn [length] in Hk.
    destruct (Nat.eq_dec k (length sw)) as [->|Hne].
    + unfold rule_at. rewrite app_nth2 by lia. rewrite Nat.sub_diag. cbn [nth fst snd].
      rewrite firstn_app, firstn_all, Nat.sub_diag. cbn [firstn]. rewrite app_nil_r. fold B.
      rewrite Hswl, Nat.add_0_r. fold r. split; [reflexivity|]. split; [lia|].
      exists cbar. split; [|split].
      * apply (not_dep_of_pivot cbar M B piv rbar);
          [apply (gi_sorted _ _ _ _ _ Hg)| |apply (gi_lead _ _ _ _ _ Hg)|exact Hrel| |exact G1].
        -- intros j Hj. pose proof (gi_lt _ _ _ _ _ Hg j Hj). lia.
        -- intros col Hcol. apply Hzero; [lia|assumption].
      * intros j' Hj'. apply (dep_of_zero r M B j' cbar Hrel). intros col Hcol.
        destruct (Nat.eq_dec col cbar) as [->|Hnc]; [apply G5; lia|apply Hzero; lia].
      * intros c' j' Hc' Hj'. apply (dep_of_zero r M B j' c' Hrel). intros col Hcol. apply Hzero; lia.
    + apply rule_at_app; [lia|]. apply Hrule. lia.
  - intros _. split; [cbn [nr row_swap set_row]; lia|exact Hget].
Qed.

Lemma ninv_final A M piv sw pend : ninv A (nc A) M piv sw pend ->
  wf M /\ row_equiv A M /\ is_ref M piv /\
  first_row_rule A sw /\ lower_rel (apply_swaps sw A) M.
Proof.
  intros [Hg Hswl HBlen Hrel Hrule Hpend].
  destruct (ginv_final false A M piv Hg) as (HM & Heq & Href).
  assert (pend = false) as ->.
  { destruct pend; [|reflexivity]. destruct (Hpend eq_refl) as [_ H].
    rewrite get_out_col in H; [discriminate|assumption|]. destruct Heq as (_ & <- & _). lia. }
  rewrite Nat.add_0_r in Hswl. splits; auto.
  - split; [assumption|]. intros j c Hj. rewrite Hswl in *.
    apply (dep_of_zero (length piv) M _ j c Hrel). intros col _. now apply (ref_get_zero M piv).
  - now apply (lrel_lower_rel (length piv)).
Qed.

Lemma ninv_init A : wf A -> ninv A 0 A [] [] false.
Proof.
  intros HA. constructor; try reflexivity.
  - now apply ginv_init.
  - apply lrel_init.
  - intros k Hk. cbn [length] in Hk. lia.
  - discriminate.
Qed.

(** * 10. the main loop, non-reduced mode, any switching oracle *)
Section MainNonFull.
  Variable ech : bool -> mat -> nat * mat.
  Variables k ktop : nat.
  Variable oracle : nat -> bool.
  Variable A : mat.
  Hypothesis Hk : 1 <= k.

  (** the result: a row echelon form of A; with the heuristic off, moreover obtained under the pivot rule *)
  Definition nf_ok (M : mat) (piv : list nat) : Prop :=
    wf M /\ row_equiv A M /\ is_ref M piv /\
    ((forall it, oracle it = false) ->
     exists sw, first_row_rule A sw /\ lower_rel (apply_swaps sw A) M).

  Hypothesis switch_ok : forall it c M piv, oracle it = true ->
    ginv false A c M piv -> c < nc M -> length piv < nr M ->
    exists M' piv', switch ech ktop false M (length piv) c = Some (length piv', M') /\
                    wf M' /\ row_equiv A M' /\ is_ref M' piv'.

  Lemma ninv_nf_ok M piv sw pend : ninv A (nc A) M piv sw pend -> nf_ok M piv.
  Proof.
    intros H. destruct (ninv_final A M piv sw pend H) as (H1 & H2 & H3 & H4 & H5).
    split; [assumption|]. split; [assumption|]. split; [assumption|]. intros _. now exists sw.
  Qed.

  Lemma m4ri_loop_nonfull fuel : forall it c M piv sw pend, ninv A c M piv sw pend ->
    c <= nc M -> nc M - c <= fuel ->
    exists M' piv', m4ri_loop ech k ktop oracle fuel it false M (length piv) c = Some (length piv', M') /\
                    nf_ok M' piv'.
  Proof.
    induction fuel as [|fuel IH]; intros it c M piv sw pend Hn Hc Hf.
    - assert (c = nc M) by lia. subst c. cbn [m4ri_loop]. rewrite Nat.leb_refl.
      exists M, piv. split; [reflexivity|]. apply (ninv_nf_ok M piv sw pend).
      destruct (gi_equiv _ _ _ _ _ (n_g _ _ _ _ _ _ Hn)) as (_ & Hnc & _). now rewrite Hnc.
    - cbn [m4ri_loop]. destruct (Nat.leb_spec (nc M) c) as [Hge|Hlt].
      + assert (c = nc M) by lia. subst c. exists M, piv. split; [reflexivity|].
        apply (ninv_nf_ok M piv sw pend).
        destruct (gi_equiv _ _ _ _ _ (n_g _ _ _ _ _ _ Hn)) as (_ & Hnc & _). now rewrite Hnc.
      + destruct (oracle it && (length piv <? nr M)) eqn:Eo.
        * apply andb_true_iff in Eo as [Eo1 Eo]. apply Nat.ltb_lt in Eo.
          destruct (switch_ok it c M piv Eo1 (n_g _ _ _ _ _ _ Hn) Hlt Eo) as (M' & piv' & E & H1 & H2 & H3).
          exists M', piv'. split; [assumption|]. split; [assumption|]. split; [assumption|].
          split; [assumption|]. intros H. rewrite H in Eo1. discriminate.
        * set (kk := Nat.min (6 * k) (nc M - c)).
          destruct (block_step k false M (length piv) c kk) as [M1 kbar] eqn:Eb.
          destruct (block_nonfull_spec A k piv sw pend c M kk Hn ltac:(lia) ltac:(lia) M1 kbar Eb)
            as (Hkb & Hnc1 & sw1 & Hn1).
          assert (Hlen1 : length (piv ++ seq c kbar) = length piv + kbar)
            by (rewrite app_length, seq_length; reflexivity).
          rewrite <- Hlen1.
          destruct (Nat.eqb_spec kbar kk) as [Ek|Ek].
          -- apply (IH _ _ _ _ sw1 false); [assumption|lia|lia].
          -- destruct (find_pivot M1 (length (piv ++ seq c kbar)) (c + kbar)) as [[rbar cbar]|] eqn:Ef.
             ++ destruct (ninv_find_pivot_some A _ (c + kbar) M1 _ sw1 rbar cbar Hn1 ltac:(lia) Ef) as (Hn2 & Hcb).
                apply (IH _ _ _ _ _ true Hn2); cbn [nc row_swap set_row]; lia.
             ++ exists M1, (piv ++ seq c kbar). split; [reflexivity|].
                apply (ninv_nf_ok M1 _ sw1 false). destruct Hn1 as [Hg1 Q1 Q2 Q3 Q4 Q5].
                constructor; auto; [|discriminate].
                apply (ginv_find_pivot_none false A _ (c + kbar) M1 _ Hg1); [lia|lia|assumption].
  Qed.
End MainNonFull.

(** * 11. the hand-over of the remaining window to PLUQ, non-reduced mode (brilliantrussian.c:686-710
    with full = 0: no top reduction).  Contract of mzd_echelonize_pluq(W, 0): number of pivots and a row
    echelon form row-equivalent to the window (EchelonPLUQNonFull.echelon_pluq_nonfull_ref). *)
Definition ech_nonfull_ok (ech : bool -> mat -> nat * mat) : Prop :=
  forall W, wf W -> exists q, fst (ech false W) = length q /\ wf (snd (ech false W)) /\
                              row_equiv W (snd (ech false W)) /\ is_ref (snd (ech false W)) q.

Section SwitchNonFull.
  Variable ech : bool -> mat -> nat * mat.
  Variable ktop : nat.
  Variable A : mat.
  Hypothesis ech_ok : ech_nonfull_ok ech.

  Lemma switch_nonfull_spec c M piv : ginv false A c M piv -> c < nc M -> length piv < nr M ->
    exists M' piv', switch ech ktop false M (length piv) c = Some (length piv', M') /\
                    wf M' /\ row_equiv A M' /\ is_ref M' piv'.
  Proof.
    intros [HM Heq Hlen Hs Hlt Hlead Hzero _] Hc Hr. set (r := length piv) in *.
    unfold switch. set (cw := radix * (c / radix)).
    assert (Hcw : cw <= c) by (unfold cw, radix; lia).
    set (W := msub M r cw (nr M - r) (nc M - cw)).
    pose proof (wf_len M HM) as HlM.
    assert (HW : wf W) by (apply wf_msub; lia).
    destruct (ech_ok W HW) as (q & Hrk & HW' & HeqW & HrefW').
    destruct (ech false W) as [r2 W'] eqn:Ee. cbn [fst snd] in Hrk, HW', HeqW, HrefW'. subst r2.
    cbn [andb].
    assert (HnrW' : nr W' = nr M - r) by (destruct HeqW as (E & _); rewrite <- E; reflexivity).
    assert (HncW' : nc W' = nc M - cw) by (destruct HeqW as (_ & E & _); rewrite <- E; reflexivity).
    set (M1 := mpaste M r cw W').
    assert (Hg1 : forall i j, get M1 i j =
              if (r <=? i) && (i <? nr M) && (cw <=? j) && (j <? nc M) then get W' (i - r) (j - cw) else get M i j).
    { intros i j. unfold M1. rewrite get_mpaste by (auto; lia). rewrite HnrW', HncW'.
      replace (r + (nr M - r)) with (nr M) by lia. replace (cw + (nc M - cw)) with (nc M) by lia. reflexivity. }
    assert (HM1 : wf M1) by (apply wf_mpaste; auto; lia).
    assert (Hnr1 : nr M1 = nr M) by reflexivity. assert (Hnc1 : nc M1 = nc M) by reflexivity.
    assert (Hl1 : length (rows M1) = nr M) by now rewrite (wf_len M1 HM1).
    assert (HgW : forall t j, get W t j = (t <? nr M - r) && (j <? nc M - cw) && get M (r + t) (cw + j)).
    { intros t j. unfold W. rewrite get_msub by lia. reflexivity. }
    assert (RW : forall t, t < nr M - r -> N.shiftl (row W t) (N.of_nat cw) = row M (r + t)).
    { intros t Ht. apply bits_ext_nat. intros j. rewrite testbit_shiftl_nat.
      change (N.testbit (row W t) (N.of_nat (j - cw))) with (get W t (j - cw)).
      change (N.testbit (row M (r + t)) (N.of_nat j)) with (get M (r + t) j). rewrite HgW.
      destruct (Nat.leb_spec cw j); cbn [andb].
      - destruct (Nat.ltb_spec t (nr M - r)); [|lia]. cbn [andb].
        replace (cw + (j - cw)) with j by lia.
        destruct (Nat.ltb_spec (j - cw) (nc M - cw)); cbn [andb]; [reflexivity|].
        symmetry. apply get_out_col; [assumption|lia].
      - symmetry. apply Hzero; lia. }
    assert (RW' : forall t, t < nr M - r -> N.shiftl (row W' t) (N.of_nat cw) = row M1 (r + t)).
    { intros t Ht. apply bits_ext_nat. intros j. rewrite testbit_shiftl_nat.
      change (N.testbit (row W' t) (N.of_nat (j - cw))) with (get W' t (j - cw)).
      change (N.testbit (row M1 (r + t)) (N.of_nat j)) with (get M1 (r + t) j). rewrite Hg1.
      replace (r + t - r) with t by lia.
      destruct (Nat.leb_spec r (r + t)); [|lia]. destruct (Nat.ltb_spec (r + t) (nr M)); [|lia].
      destruct (Nat.leb_spec cw j); cbn [andb].
      - destruct (Nat.ltb_spec j (nc M)); [reflexivity|].
        rewrite (get_out_col W') by (auto; lia). symmetry. apply get_out_col; [assumption|lia].
      - symmetry. apply Hzero; lia. }
    assert (Hsame : forall i, i < r -> row M1 i = row M i).
    { intros i Hi. apply (row_ext (nc M)); [now apply (wf_row_bounded M1)|now apply wf_row_bounded|].
      intros j _. change (get M1 i j = get M i j). rewrite Hg1. destruct (Nat.leb_spec r i); [lia|reflexivity]. }
    assert (HlW : length (rows W) = nr M - r) by now rewrite (wf_len W HW).
    assert (HlW' : length (rows W') = nr M - r) by now rewrite (wf_len W' HW').
    assert (Heq1 : row_equiv M M1).
    { destruct HeqW as (_ & _ & I1 & I2). split; [reflexivity|]. split; [reflexivity|]. split.
      - apply rs_incl_rows. intros i Hi. rewrite HlM in Hi. destruct (Nat.lt_ge_cases i r) as [Hir|Hir].
        + rewrite <- Hsame by assumption. apply in_rowspace_row.
        + replace i with (r + (i - r)) by lia. rewrite <- RW by lia.
          apply (in_rowspace_shift W' M1 r cw); [intros t Ht; apply RW'; lia|apply rs_incl_row, I1].
      - apply rs_incl_rows. intros i Hi. rewrite Hl1 in Hi. destruct (Nat.lt_ge_cases i r) as [Hir|Hir].
        + rewrite Hsame by assumption. apply in_rowspace_row.
        + replace i with (r + (i - r)) by lia. rewrite <- RW' by lia.
          apply (in_rowspace_shift W M r cw); [intros t Ht; apply RW; lia|apply rs_incl_row, I2]. }
    pose proof HrefW' as (Hsq & Hlq & Hleadq & Hzq).
    set (piv1 := piv ++ map (fun p => cw + p) q).
    assert (Hlen1 : length piv1 = r + length q) by (unfold piv1; rewrite app_length, map_length; reflexivity).
    assert (Hnth1 : forall i, r <= i -> i < r + length q -> nth i piv1 0 = cw + nth (i - r) q 0).
    { intros i Hi1 Hi2. unfold piv1. rewrite app_nth2 by (fold r; lia). fold r.
      rewrite (nth_indep _ 0 (cw + 0)) by (rewrite map_length; lia).
      now rewrite (map_nth (fun p => cw + p)). }
    assert (Hnth0 : forall i, i < r -> nth i piv1 0 = nth i piv 0).
    { intros i Hi. unfold piv1. now apply app_nth1. }
    assert (Hqge : forall t, t < length q -> c <= cw + nth t q 0).
    { intros t Ht. destruct (Nat.le_gt_cases c (cw + nth t q 0)) as [|Hgt]; [assumption|]. exfalso.
      pose proof (ref_get_pivot W' q t HrefW' Ht) as Hp.
      destruct HeqW as (_ & _ & _ & I2). destruct (rs_incl_row W' W t I2) as [x Hx].
      unfold get in Hp. rewrite <- Hx, testbit_vmul in Hp.
      rewrite xsum_zero in Hp; [discriminate|]. intros t' Ht'. rewrite HgW.
      rewrite (Hzero (r + t') (cw + nth t q 0)) by lia. now rewrite !andb_false_r. }
    exists M1, piv1. rewrite Hlen1. split; [reflexivity|]. split; [assumption|].
    split; [now apply (row_equiv_trans A M)|].
    split; [|split; [|split]].
    - apply sorted_app_lt; [assumption|now apply sorted_map_add|].
      intros a b Ha Hb. apply in_map_iff in Hb as [p [<- Hp]]. destruct (In_nth _ _ 0 Hp) as [t [Ht <-]].
      specialize (Hlt a Ha). specialize (Hqge t Ht). lia.
    - rewrite Hlen1, Hnr1. rewrite HnrW' in Hlq. lia.
    - rewrite Hlen1. intros i Hi. destruct (Nat.lt_ge_cases i r) as [Hir|Hir].
      + rewrite Hnth0, Hsame by assumption. now apply Hlead.
      + rewrite Hnth1 by lia. replace i with (r + (i - r)) at 1 by lia.
        rewrite HnrW' in Hlq. rewrite <- RW' by lia.
        specialize (Hleadq (i - r) ltac:(lia)). apply lead_Some in Hleadq as [H1 H2].
        apply lead_Some. split.
        * rewrite testbit_shiftl_nat. destruct (Nat.leb_spec cw (cw + nth (i - r) q 0)); [|lia].
          cbn [andb]. now replace (cw + nth (i - r) q 0 - cw) with (nth (i - r) q 0) by lia.
        * intros j' Hj'. rewrite testbit_shiftl_nat. destruct (Nat.leb_spec cw j'); [|reflexivity].
          cbn [andb]. apply H2. lia.
    - rewrite Hlen1. intros i Hi. destruct (Nat.lt_ge_cases i (nr M)) as [Hin|Hin].
      + replace i with (r + (i - r)) by lia. rewrite <- RW' by lia. rewrite Hzq by lia. apply N.shiftl_0_l.
      + apply Span.row_overflow. lia.
  Qed.
End SwitchNonFull.

(** * 12. MAIN THEOREMS, non-reduced mode *)
(** for every table parameter k >= 1, every sequence of switching decisions and every window
    echeloniser meeting its contract, _mzd_echelonize_m4ri(A, 0, ..) returns rank A and a row echelon
    form (strictly increasing pivot columns [piv], zero rows last) with the row space of A *)
Theorem m4ri_nonfull_spec ech k ktop oracle A : 1 <= k -> ech_nonfull_ok ech -> wf A ->
  exists M piv, m4ri_model ech k ktop oracle false A = Some (length piv, M) /\
                length piv = rank A /\ wf M /\ row_equiv A M /\ is_ref M piv.
Proof.
  intros Hk Hech HA. unfold m4ri_model.
  destruct (oracle 0 && (0 <? nc A) && (0 <? nr A)) eqn:Eo.
  - apply andb_true_iff in Eo as [Eo E2]. apply andb_true_iff in Eo as [_ E1].
    apply Nat.ltb_lt in E1, E2.
    destruct (switch_nonfull_spec ech ktop A Hech 0 A [] (ginv_init false A HA) E1 E2)
      as (M' & piv' & E & H1 & H2 & H3).
    exists M', piv'. cbn [length] in E. split; [assumption|]. split; [|now split].
    now apply (rank_canonical A M').
  - destruct (m4ri_loop_nonfull ech k ktop oracle A Hk
                ltac:(intros it c M piv _; apply (switch_nonfull_spec ech ktop A Hech))
                (nc A) 1 0 A [] [] false (ninv_init A HA) ltac:(lia) ltac:(lia))
      as (M' & piv' & E & H1 & H2 & H3 & _).
    exists M', piv'. cbn [length] in E. split; [assumption|]. split; [|now split].
    now apply (rank_canonical A M').
Qed.

(** with the heuristic off the result is bit for bit the output of naive Gauss *)
Theorem m4ri_nonfull_canonical ech k ktop oracle A : 1 <= k -> (forall it, oracle it = false) -> wf A ->
  m4ri_model ech k ktop oracle false A = Some (gauss_delayed false 0 A).
Proof.
  intros Hk Ho HA. unfold m4ri_model. rewrite Ho. cbn [andb].
  destruct (m4ri_loop_nonfull ech k ktop oracle A Hk
              ltac:(intros it c M piv Hit; rewrite Ho in Hit; discriminate)
              (nc A) 1 0 A [] [] false (ninv_init A HA) ltac:(lia) ltac:(lia))
    as (M' & piv' & E & HM' & Heq & Href & H4).
  cbn [length] in E. rewrite E. f_equal.
  destruct (H4 Ho) as (sw & Hrule & Hlow).
  rewrite (surjective_pairing (gauss_delayed false 0 A)). f_equal.
  - rewrite gauss_rank by assumption. now apply (rank_canonical A M').
  - destruct Heq as (Hnr & Hnc & _). apply (ref_canonical A M' sw piv'); auto.
Qed.

(** mzd_echelonize_m4ri(A, 0, k), k >= 1 *)
Theorem m4ri_run_nonfull_canonical k A : 1 <= k -> wf A ->
  m4ri_run k false A = Some (gauss_delayed false 0 A).
Proof. intros Hk HA. unfold m4ri_run. now apply m4ri_nonfull_canonical. Qed.

Corollary m4ri_run_nonfull_spec k A : 1 <= k -> wf A ->
  exists M piv, m4ri_run k false A = Some (length piv, M) /\
                length piv = rank A /\ wf M /\ row_equiv A M /\ is_ref M piv.
Proof.
  intros Hk HA. rewrite (m4ri_run_nonfull_canonical k A Hk HA).
  destruct (gauss_spec_ex false A HA) as (piv & Hr & HM & Heq & Href).
  exists (snd (gauss_delayed false 0 A)), piv. rewrite <- Hr, <- surjective_pairing.
  split; [reflexivity|]. split; [|now split]. now apply gauss_rank.
Qed.

(** * 13. the switch before the loop (brilliantrussian.c:685-693): the window is the whole matrix *)
Lemma mpaste_whole A W : wf A -> wf W -> nr W = nr A -> nc W = nc A -> mpaste A 0 0 W = W.
Proof.
  intros HA HW Hnr Hnc. apply mat_ext; auto.
  - apply wf_mpaste; auto. lia.
  - intros i j Hi Hj. rewrite get_mpaste by (auto; rewrite (wf_len A HA); lia).
    cbn [nr nc mpaste map_rows] in Hi, Hj. rewrite !Nat.sub_0_r. cbn [Nat.add].
    destruct (Nat.ltb_spec i (nr W)), (Nat.ltb_spec j (nc W)); try lia. reflexivity.
Qed.

Lemma msub_whole A : wf A -> msub A 0 0 (nr A - 0) (nc A - 0) = A.
Proof.
  intros HA. rewrite !Nat.sub_0_r. apply mat_ext; auto.
  - apply wf_msub. rewrite (wf_len A HA). lia.
  - intros i j Hi Hj. cbn [nr nc msub] in Hi, Hj. rewrite get_msub by (rewrite (wf_len A HA); lia).
    destruct (Nat.ltb_spec i (nr A)), (Nat.ltb_spec j (nc A)); try lia. reflexivity.
Qed.

(** the density test fires before the loop (positive dimensions): the result is what the window
    echeloniser returns on A itself *)
Theorem m4ri_nonfull_canonical_entry ech k ktop oracle A :
  (forall W, wf W -> ech false W = gauss_delayed false 0 W) ->
  oracle 0 = true -> wf A -> 0 < nr A -> 0 < nc A ->
  m4ri_model ech k ktop oracle false A = Some (gauss_delayed false 0 A).
Proof.
  intros Hech Ho HA Hr Hc. unfold m4ri_model. rewrite Ho.
  destruct (Nat.ltb_spec 0 (nc A)); [|lia]. destruct (Nat.ltb_spec 0 (nr A)); [|lia]. cbn [andb].
  unfold switch. replace (radix * (0 / radix)) with 0 by (unfold radix; reflexivity).
  rewrite (msub_whole A HA), (Hech A HA).
  destruct (gauss_spec_ex false A HA) as (q & _ & HW' & (Hnr & Hnc & _) & _).
  destruct (gauss_delayed false 0 A) as [r2 W'] eqn:Eg. cbn [snd] in *. cbn [andb Nat.add]. f_equal. f_equal.
  apply mpaste_whole; auto.
Qed.

(** evaluation: a switch in the middle of the loop (proved in general in section 16) *)
Example m4ri_nonfull_switch_examples :
  forallb (fun A => forallb (fun n => forallb (fun k =>
     res_eqb (m4ri_model (fun f W => gauss_delayed f 0 W) k 2 (fun it => it =? n) false A)
             (Some (gauss_delayed false 0 A))) [1; 2]) [1; 2; 3])
          m4ri_examples = true.
Proof. vm_compute. reflexivity. Qed.

(** non-vacuity of the hypotheses of the main theorems *)
Example ech_nonfull_ok_gauss : ech_nonfull_ok (fun f W => gauss_delayed f 0 W).
Proof. intros W HW. exact (gauss_spec_ex false W HW). Qed.

Example m4ri_nonfull_spec_example :
  let A := nth 6 m4ri_examples (mzero 0 0) in
  wf A /\ ech_nonfull_ok (fun f W => gauss_delayed f 0 W) /\
  m4ri_model (fun f W => gauss_delayed f 0 W) 2 1 (fun it => it =? 1) false A = Some (gauss_delayed false 0 A) /\
  m4ri_run 3 false A = Some (gauss_delayed false 0 A) /\ fst (gauss_delayed false 0 A) = 8.
Proof.
  cbv zeta. split; [apply wfb_spec; vm_compute; reflexivity|]. split; [exact ech_nonfull_ok_gauss|].
  vm_compute. repeat split.
Qed.


(** * 14. a switch in the middle of the loop: the interchanges of naive Gauss on the window continue
    the interchange sequence of the block algorithm *)
Record topst (M : mat) (piv : list nat) (r c cw : nat) : Prop := mk_topst {
  tp_wf : wf M;
  tp_r : r = length piv;
  tp_sort : StronglySorted lt piv;
  tp_plt : forall p, In p piv -> p < c;
  tp_lead : forall i, i < r -> lead (row M i) = Some (nth i piv 0);
  tp_zero : forall i col, r <= i -> col < c -> get M i col = false;
  tp_cw : cw <= c;
  tp_rn : r <= nr M;
  tp_cn : cw <= nc M
}.

Definition shiftsw (r : nat) (l : list (nat * nat)) : list (nat * nat) :=
  map (fun ab => (r + fst ab, r + snd ab)) l.

Lemma lrel_swap_ge s M B a b : s <= a -> s <= b -> a < length (rows M) -> b < length (rows M) ->
  length (rows B) = length (rows M) -> lrel s M B -> lrel s (row_swap M a b) (row_swap B a b).
Proof.
  intros Ha Hb Hal Hbl Hl H.
  assert (Hrow : forall i, exists i', row (row_swap M a b) i = row M i' /\
                                      row (row_swap B a b) i = row B i' /\ Nat.min i' s = Nat.min i s).
  { intros i. rewrite !row_row_swap by lia.
    destruct (Nat.eqb_spec i b) as [->|Hnb]; [exists a; repeat split; lia|].
    destruct (Nat.eqb_spec i a) as [->|Hna]; [exists b; repeat split; lia|].
    exists i. now repeat split. }
  assert (HagM : forall x, bounded s x -> vmul x (row_swap M a b) = vmul x M).
  { intros x Hx. apply (vmul_agree x _ _ s Hx). intros k Hk. rewrite row_row_swap by lia.
    destruct (Nat.eqb_spec k b); [lia|]. destruct (Nat.eqb_spec k a); [lia|reflexivity]. }
  assert (HagB : forall x, bounded s x -> vmul x (row_swap B a b) = vmul x B).
  { intros x Hx. apply (vmul_agree x _ _ s Hx). intros k Hk. rewrite row_row_swap by lia.
    destruct (Nat.eqb_spec k b); [lia|]. destruct (Nat.eqb_spec k a); [lia|reflexivity]. }
  intros i. destruct (Hrow i) as [i' [E1 [E2 Hmin]]]. destruct (H i') as [[x [Hx Ex]] [y [Hy Ey]]].
  rewrite Hmin in Hx, Hy. split.
  - exists x. split; [assumption|]. rewrite E1, E2, HagM; [assumption|].
    apply (bounded_mono (Nat.min i s)); [lia|assumption].
  - exists y. split; [assumption|]. rewrite E1, E2, HagB; [assumption|].
    apply (bounded_mono (Nat.min i s)); [lia|assumption].
Qed.

Lemma rule_at_app_l A sw l k : k < length sw -> rule_at A sw k -> rule_at A (sw ++ l) k.
Proof.
  intros Hk H. unfold rule_at in *. rewrite app_nth1 by assumption.
  rewrite firstn_app. replace (k - length sw) with 0 by lia. cbn [firstn]. now rewrite app_nil_r.
Qed.

Lemma apply_swaps_app_l l1 l2 A : apply_swaps (l1 ++ l2) A = apply_swaps l2 (apply_swaps l1 A).
Proof. unfold apply_swaps. apply fold_left_app. Qed.

Lemma shiftsw_app r l1 l2 : shiftsw r (l1 ++ l2) = shiftsw r l1 ++ shiftsw r l2.
Proof. unfold shiftsw. apply map_app. Qed.

(** a row with no coefficient below: dependence on no rows means vanishing *)
Lemma dep0_zero B j c : dep B 0 j c <-> forall col, col <= c -> get B j col = false.
Proof.
  split.
  - intros [x [Hx H]] col Hcol. unfold get. rewrite (H col Hcol), vmul_all_false; [apply N.bits_0|].
    intros k. apply Hx. lia.
  - intros H. exists 0%N. split; [apply bounded_0|]. intros col Hcol. rewrite vmul_0, N.bits_0. now apply H.
Qed.


(** ** [dep] on the trailing window vs. on the whole matrix *)
Section Window.
  Variables (M : mat) (piv : list nat) (r c cw : nat).
  Hypothesis Htop : topst M piv r c cw.
  Let HM : wf M := tp_wf _ _ _ _ _ Htop.
  Let Hr : r = length piv := tp_r _ _ _ _ _ Htop.
  Let Hsort : StronglySorted lt piv := tp_sort _ _ _ _ _ Htop.
  Let Hplt : forall p, In p piv -> p < c := tp_plt _ _ _ _ _ Htop.
  Let Hlead : forall i, i < r -> lead (row M i) = Some (nth i piv 0) := tp_lead _ _ _ _ _ Htop.
  Let Hzero : forall i col, r <= i -> col < c -> get M i col = false := tp_zero _ _ _ _ _ Htop.
  Let Hcw : cw <= c := tp_cw _ _ _ _ _ Htop.
  Let Hrn : r <= nr M := tp_rn _ _ _ _ _ Htop.
  Let Hcn : cw <= nc M := tp_cn _ _ _ _ _ Htop.
  Let W := msub M r cw (nr M - r) (nc M - cw).

  Local Lemma HlenM : length (rows M) = nr M.
  Proof. now apply wf_len. Qed.

  Local Lemma Hfit : r + (nr M - r) <= length (rows M).
  Proof. rewrite HlenM. lia. Qed.

  Local Lemma HlenW : length (rows W) = nr M - r.
  Proof. unfold W. apply len_msub. apply Hfit. Qed.

  Lemma get_window t col : get M (r + t) (cw + col) = get W t col.
  Proof.
    unfold W. rewrite get_msub by apply Hfit.
    destruct (Nat.ltb_spec t (nr M - r)) as [Ht|Ht]; cbn [andb].
    - destruct (Nat.ltb_spec col (nc M - cw)) as [Hc|Hc]; cbn [andb]; [reflexivity|].
      apply get_out_col; [assumption|lia].
    - apply get_out_row; [assumption|lia].
  Qed.

  Lemma row_window t col :
    N.testbit (row M (r + t)) (N.of_nat (cw + col)) = N.testbit (row W t) (N.of_nat col).
  Proof. exact (get_window t col). Qed.

  Lemma vmul_shift_hi x col :
    N.testbit (vmul (N.shiftl x (N.of_nat r)) M) (N.of_nat (cw + col))
    = N.testbit (vmul x W) (N.of_nat col).
  Proof.
    rewrite !testbit_vmul. rewrite HlenW, HlenM.
    replace (nr M) with (r + (nr M - r)) at 1 by lia.
    rewrite xsum_app. rewrite xsum_zero.
    - rewrite xorb_false_l. apply xsum_ext. intros k Hk.
      rewrite testbit_shiftl_nat. destruct (Nat.leb_spec r (r + k)); [|lia]. cbn [andb].
      replace (r + k - r) with k by lia. now rewrite get_window.
    - intros k Hk. rewrite testbit_shiftl_nat. destruct (Nat.leb_spec r k); [lia|]. reflexivity.
  Qed.

  Lemma vmul_shift_lo x col : col < cw ->
    N.testbit (vmul (N.shiftl x (N.of_nat r)) M) (N.of_nat col) = false.
  Proof.
    intros Hc. rewrite testbit_vmul. apply xsum_zero. intros k Hk.
    rewrite testbit_shiftl_nat. destruct (Nat.leb_spec r k); [|reflexivity]. cbn [andb].
    rewrite Hzero by lia. apply andb_false_r.
  Qed.

  Lemma dep_window_to_whole k j cc : dep W k j cc -> dep M (r + k) (r + j) (cw + cc).
  Proof.
    intros [x [Hx Hag]]. exists (N.shiftl x (N.of_nat r)). split.
    - rewrite (Nat.add_comm r k). now apply bounded_shiftl.
    - intros col Hcol. destruct (Nat.lt_ge_cases col cw) as [Hlo|Hhi].
      + rewrite vmul_shift_lo by assumption. apply (Hzero (r + j) col); lia.
      + replace col with (cw + (col - cw)) by lia.
        rewrite row_window, vmul_shift_hi. apply Hag. lia.
  Qed.

  (** a combination whose first used row among the r echelon rows is k0 has a one at pivot k0,
      whatever rows >= r it also uses ([echelon_prefix_bit] without the bound on u) *)
  Lemma echelon_prefix_bit_any u k0 : k0 < r ->
    N.testbit u (N.of_nat k0) = true -> (forall k, k < k0 -> N.testbit u (N.of_nat k) = false) ->
    N.testbit (vmul u M) (N.of_nat (nth k0 piv 0)) = true.
  Proof.
    intros Hk0 Hbit Hmin. rewrite testbit_vmul, HlenM.
    assert (Hk0' : k0 < nr M) by lia.
    rewrite (xsum_single _ _ k0 Hk0').
    - rewrite Hbit. unfold get. apply lead_bit. now apply Hlead.
    - intros k _ Hne. destruct (Nat.lt_ge_cases k k0) as [Hk|Hk]; [now rewrite Hmin|].
      destruct (Nat.lt_ge_cases k r) as [Hk'|Hk'].
      + unfold get. rewrite (lead_before (row M k) (nth k piv 0)); [apply andb_false_r|now apply Hlead|].
        apply sorted_nth_lt; [assumption|lia|lia].
      + rewrite Hzero; [apply andb_false_r|assumption|]. apply Hplt, nth_In. lia.
  Qed.

  Lemma dep_whole_to_window k j cc : k <= j -> dep M (r + k) (r + j) (cw + cc) -> dep W k j cc.
  Proof.
    intros _ [y [Hy Hag]].
    destruct (Nat.lt_ge_cases (cw + cc) c) as [Hlt|Hge].
    - exists 0%N. split; [apply bounded_0|]. intros col Hcol.
      rewrite vmul_0, N.bits_0. rewrite <- row_window. apply (Hzero (r + j) (cw + col)); lia.
    - assert (Hlow : forall t, t < r -> N.testbit y (N.of_nat t) = false).
      { destruct (least_witness (fun t => N.testbit y (N.of_nat t)) r) as [[k0 [Hk0 [Hb0 Hmin]]]|Hnone];
          [exfalso|exact Hnone].
        pose proof (echelon_prefix_bit_any y k0 Hk0 Hb0 Hmin) as Hbit.
        assert (Hp : nth k0 piv 0 < c) by (apply Hplt, nth_In; lia).
        rewrite <- Hag in Hbit by lia.
        pose proof (Hzero (r + j) (nth k0 piv 0) ltac:(lia) Hp) as Hz. unfold get in Hz.
        rewrite Hz in Hbit. discriminate. }
      set (x := N.shiftr y (N.of_nat r)).
      assert (Hx : bounded k x).
      { intros t Ht. unfold x. rewrite testbit_shiftr_nat. apply Hy. lia. }
      assert (Exy : vmul y M = vmul (N.shiftl x (N.of_nat r)) M).
      { apply vmul_ext. intros t _. rewrite testbit_shiftl_nat. unfold x.
        destruct (Nat.leb_spec r t) as [Ht|Ht]; cbn [andb].
        - rewrite testbit_shiftr_nat. f_equal. f_equal. lia.
        - now apply Hlow. }
      exists x. split; [assumption|]. intros col Hcol.
      rewrite <- row_window, <- vmul_shift_hi, <- Exy. apply Hag. lia.
  Qed.
End Window.

Lemma msub_row_swap M r cw a b : wf M -> r + a < nr M -> r + b < nr M ->
  msub (row_swap M (r + a) (r + b)) r cw (nr M - r) (nc M - cw)
  = row_swap (msub M r cw (nr M - r) (nc M - cw)) a b.
Proof.
  intros HM Ha Hb. pose proof (wf_len M HM) as Hl.
  assert (Hfit : r + (nr M - r) <= length (rows M)) by lia.
  assert (HW : wf (msub M r cw (nr M - r) (nc M - cw))) by now apply wf_msub.
  apply mat_ext.
  - apply wf_msub. rewrite rows_row_swap_length. exact Hfit.
  - now apply wf_row_swap.
  - rewrite nr_row_swap. reflexivity.
  - reflexivity.
  - intros i j Hi Hj. cbn [nr nc msub] in Hi, Hj.
    rewrite get_msub by (rewrite rows_row_swap_length; exact Hfit).
    rewrite (get_row_swap (msub M r cw (nr M - r) (nc M - cw))) by (try assumption; cbn [nr msub]; lia).
    rewrite get_row_swap by assumption.
    rewrite get_msub by exact Hfit.
    destruct (Nat.ltb_spec i (nr M - r)); [|lia]. destruct (Nat.ltb_spec j (nc M - cw)); [|lia].
    cbn [andb].
    destruct (Nat.eqb_spec i a) as [->|Hia].
    + rewrite Nat.eqb_refl. destruct (Nat.ltb_spec b (nr M - r)); [|lia]. reflexivity.
    + destruct (Nat.eqb_spec (r + i) (r + a)); [lia|].
      destruct (Nat.eqb_spec i b) as [->|Hib].
      * rewrite Nat.eqb_refl. destruct (Nat.ltb_spec a (nr M - r)); [|lia]. reflexivity.
      * destruct (Nat.eqb_spec (r + i) (r + b)); [lia|].
        destruct (Nat.ltb_spec i (nr M - r)); [|lia]. reflexivity.
Qed.


Lemma dep_lrel_iff s M B j c0 : lrel s M B -> (dep B s j c0 <-> dep M s j c0).
Proof.
  intros H. split.
  - intros [y [Hy Hag]]. destruct (H j) as [[x [Hx Ex]] _].
    assert (Hsp : spanlt B s (vmul y B)) by (exists y; now split).
    apply (lrel_span_BM s M B _ H) in Hsp as [z [Hz Ez]].
    exists (N.lxor x z). split.
    + apply bounded_lxor; [apply (bounded_mono (Nat.min j s)); [lia|assumption]|assumption].
    + intros col Hcol. rewrite Ex at 1. rewrite vmul_lxor, !N.lxor_spec, Hag, Ez by assumption.
      apply xorb_comm.
  - intros [z [Hz Hag]]. apply (dep_of_agree s M B j c0 z H Hz). intros col Hcol.
    unfold get. now apply Hag.
Qed.


  (** the window interchanges applied to the whole matrix *)
  Lemma shifted_swaps M B piv r c cw l : topst M piv r c cw -> lrel r M B ->
    length (rows B) = length (rows M) ->
    (forall ab, In ab l -> fst ab < nr M - r /\ snd ab < nr M - r) ->
    let Mk := apply_swaps (shiftsw r l) M in let Bk := apply_swaps (shiftsw r l) B in
    topst Mk piv r c cw /\ nr Mk = nr M /\ nc Mk = nc M /\
    msub Mk r cw (nr M - r) (nc M - cw) = apply_swaps l (msub M r cw (nr M - r) (nc M - cw)) /\
    lrel r Mk Bk /\ length (rows Bk) = length (rows Mk) /\ (forall i, i < r -> row Mk i = row M i).
  Proof.
    intros Ht Hrel Hl. induction l as [|ab l IH] using rev_ind; intros Hv; cbv zeta.
    - cbn [shiftsw map apply_swaps fold_left]. splits; auto.
    - rewrite shiftsw_app, !apply_swaps_app_l. cbn [shiftsw map apply_swaps fold_left fst snd].
      destruct IH as (Ht' & Hnr & Hnc & Hms & Hrel' & Hl' & Hsame).
      { intros x Hx. apply Hv. apply in_or_app. now left. }
      set (Mk := apply_swaps (shiftsw r l) M) in *. set (Bk := apply_swaps (shiftsw r l) B) in *.
      fold (shiftsw r l). fold (apply_swaps (shiftsw r l) M). fold (apply_swaps (shiftsw r l) B). fold Mk Bk.
      destruct (Hv ab ltac:(apply in_or_app; right; now left)) as [Ha Hb].
      destruct Ht' as [HM Hr Hs Hp Hld Hz Hcw Hrn Hcn].
      pose proof (wf_len Mk HM) as HlM.
      assert (Hrow : forall i, row (row_swap Mk (r + fst ab) (r + snd ab)) i =
                if i =? r + snd ab then row Mk (r + fst ab) else if i =? r + fst ab then row Mk (r + snd ab) else row Mk i).
      { intros i. apply row_row_swap; lia. }
      splits.
      + constructor; auto.
        * now apply wf_row_swap.
        * intros i Hi. rewrite Hrow. destruct (Nat.eqb_spec i (r + snd ab)); [lia|].
          destruct (Nat.eqb_spec i (r + fst ab)); [lia|]. now apply Hld.
        * intros i col Hi Hcol. unfold get. rewrite Hrow.
          destruct (i =? r + snd ab); [|destruct (i =? r + fst ab)]; apply Hz; lia.
      + exact Hnr.
      + exact Hnc.
      + rewrite <- Hnr, <- Hnc. rewrite msub_row_swap by (auto; lia). rewrite Hnr, Hnc, Hms. reflexivity.
      + apply lrel_swap_ge; auto; lia.
      + now rewrite !rows_row_swap_length.
      + intros i Hi. rewrite Hrow. destruct (Nat.eqb_spec i (r + snd ab)); [lia|].
        destruct (Nat.eqb_spec i (r + fst ab)); [lia|]. now apply Hsame.
  Qed.

  (** the first interchange of the window when mzd_find_pivot has already put the pivot row in place *)
  Lemma window_first_swap W swW c0 : wf W -> first_row_rule W swW ->
    get W 0 c0 = true -> (forall i col, col < c0 -> get W i col = false) ->
    exists rest, swW = (0, 0) :: rest.
  Proof.
    intros HW [Hr Hstop] Hg Hz. destruct swW as [|[a b] rest].
    - exfalso. specialize (Hstop 0 c0 (Nat.le_0_l _)). cbn [length apply_swaps fold_left] in Hstop.
      pose proof (proj1 (dep0_zero _ _ _) Hstop) as Hst. rewrite (Hst c0 (Nat.le_refl _)) in Hg. discriminate.
    - exists rest. f_equal. destruct (Hr 0 ltac:(cbn [length]; lia)) as (Ha & Hb & cc & Hn & Hfirst & Hleft).
      cbn [nth fst snd firstn apply_swaps fold_left] in Ha, Hb, Hn, Hfirst, Hleft. subst a. f_equal.
      destruct (Nat.eq_dec b 0) as [->|Hne]; [reflexivity|]. exfalso.
      pose proof (proj1 (dep0_zero _ _ _) (Hfirst 0 ltac:(lia))) as H0.
      assert (Hcc : cc < c0).
      { destruct (Nat.lt_ge_cases cc c0); [assumption|]. rewrite (H0 c0) in Hg by assumption. discriminate. }
      apply Hn. apply (proj2 (dep0_zero _ _ _)). intros col Hcol. apply Hz. lia.
  Qed.

  Lemma nth_shiftsw r l k : k < length l ->
    nth k (shiftsw r l) (0, 0) = (r + fst (nth k l (0, 0)), r + snd (nth k l (0, 0))).
  Proof.
    revert k. induction l as [|ab l IH]; intros k Hk; cbn [length] in Hk; [lia|].
    destruct k as [|k]; cbn [shiftsw map nth]; [reflexivity|]. apply IH. lia.
  Qed.

  Lemma firstn_shiftsw r l k : firstn k (shiftsw r l) = shiftsw r (firstn k l).
  Proof. unfold shiftsw. apply firstn_map. Qed.

  (** * the interchange sequence of the whole computation *)
  Lemma switch_rule A c M piv sw pend : ninv A c M piv sw pend -> c < nc M -> length piv < nr M ->
    let r := length piv in let cw := radix * (c / radix) in
    let W := msub M r cw (nr M - r) (nc M - cw) in
    exists sw', first_row_rule A sw' /\
                lower_rel (apply_swaps sw' A) (mpaste M r cw (snd (gauss_delayed false 0 W))).
  Proof.
    intros [Hg Hswl HBlen Hrel Hrule Hpend] Hc Hr r cw W. fold r in Hswl, Hrel, Hpend.
    set (B := apply_swaps sw A) in *.
    pose proof Hg as [HM Heq Hlen Hs Hlt Hlead Hzero _]. fold r in Hlen, Hlead, Hzero.
    assert (Hcw : cw <= c) by (unfold cw, radix; lia).
    pose proof (wf_len M HM) as HlM.
    assert (HW : wf W) by (apply wf_msub; lia).
    assert (Ht : topst M piv r c cw) by (constructor; auto; lia).
    destruct Heq as (HnrA & HncA & _).
    destruct (gauss_ref_rule W HW) as (swW & pivW & HruleW & HlowW & HrefW & HlenW).
    destruct (gauss_spec_ex false W HW) as (q & _ & HW' & HeqW & _).
    set (W' := snd (gauss_delayed false 0 W)) in *.
    assert (HgW : forall t j, get W t j = (t <? nr M - r) && (j <? nc M - cw) && get M (r + t) (cw + j)).
    { intros t j. unfold W. rewrite get_msub by lia. reflexivity. }
    (* the window sequence = pre ++ rest, pre = the interchange already recorded in sw *)
    set (p0 := if pend then 1 else 0).
    assert (Hpre : exists rest, swW = repeat (0, 0) p0 ++ rest).
    { unfold p0. destruct pend; [|now exists swW]. destruct (Hpend eq_refl) as [_ Hgp].
      destruct (window_first_swap W swW (c - cw) HW HruleW) as [rest ->].
      - rewrite HgW. destruct (Nat.ltb_spec 0 (nr M - r)); [|lia]. destruct (Nat.ltb_spec (c - cw) (nc M - cw)); [|lia].
        cbn [andb]. rewrite Nat.add_0_r. now replace (cw + (c - cw)) with c by lia.
      - intros i col Hcol. rewrite HgW. rewrite (Hzero (r + i) (cw + col)) by lia. apply andb_false_r.
      - now exists rest. }
    destruct Hpre as [rest Hsw].
    assert (Hpre_id : forall l, apply_swaps (repeat (0, 0) p0 ++ l) W = apply_swaps l W).
    { intros l. unfold p0. destruct pend; [|reflexivity]. cbn [repeat app apply_swaps fold_left fst snd].
      now rewrite row_swap_same. }
    assert (HlswW : length swW = p0 + length rest) by (rewrite Hsw, app_length, repeat_length; reflexivity).
    assert (Hp0 : length sw = r + p0) by (unfold p0; destruct pend; exact Hswl).
    (* validity of the window interchanges *)
    assert (HnthW : forall k, k < length swW ->
              fst (nth k swW (0, 0)) = k /\ k <= snd (nth k swW (0, 0)) < nr M - r).
    { intros k Hk. destruct HruleW as [HR _]. destruct (HR k Hk) as (H1 & H2 & _). split; [assumption|exact H2]. }
    assert (Hnthrest : forall k, k < length rest -> nth k rest (0, 0) = nth (p0 + k) swW (0, 0)).
    { intros k Hk. rewrite Hsw, app_nth2 by (rewrite repeat_length; lia). rewrite repeat_length. f_equal. lia. }
    assert (Hvalid : forall ab, In ab rest -> fst ab < nr M - r /\ snd ab < nr M - r).
    { intros ab Hin. destruct (In_nth _ _ (0, 0) Hin) as [k [Hk <-]]. rewrite Hnthrest by assumption.
      destruct (HnthW (p0 + k) ltac:(lia)) as [H1 H2]. lia. }
    assert (Hvalidf : forall k ab, In ab (firstn k rest) -> fst ab < nr M - r /\ snd ab < nr M - r).
    { intros k ab Hin. apply Hvalid. exact (In_firstn' _ _ _ Hin). }
    exists (sw ++ shiftsw r rest). split.
    - split.
      + (* every interchange obeys the rule *)
        intros i Hi. rewrite app_length in Hi. unfold shiftsw in Hi. rewrite map_length in Hi.
        destruct (Nat.lt_ge_cases i (length sw)) as [Hlo|Hhi]; [apply rule_at_app_l; auto|].
        set (k' := i - length sw). assert (Hk' : k' < length rest) by (unfold k'; lia).
        assert (Ei : i = length sw + k') by (unfold k'; lia).
        destruct (shifted_swaps M B piv r c cw (firstn k' rest) Ht Hrel HBlen (Hvalidf k'))
          as (Htk & Hnrk & Hnck & Hmsk & Hrelk & Hlk & Hsamek).
        set (Mk := apply_swaps (shiftsw r (firstn k' rest)) M) in *.
        set (Bk := apply_swaps (shiftsw r (firstn k' rest)) B) in *.
        destruct HruleW as [HR _]. destruct (HR (p0 + k') ltac:(lia)) as (Hf & Hjr & cW & HnW & HfirstW & HleftW).
        assert (Efirst : apply_swaps (firstn (p0 + k') swW) W = msub Mk r cw (nr M - r) (nc M - cw)).
        { rewrite Hsw, firstn_app, repeat_length, firstn_all2 by (rewrite repeat_length; lia).
          replace (p0 + k' - p0) with k' by lia. rewrite Hpre_id. now rewrite Hmsk. }
        rewrite Efirst in HnW, HfirstW, HleftW. rewrite <- Hnrk, <- Hnck in HnW, HfirstW, HleftW.
        set (jw := snd (nth (p0 + k') swW (0, 0))) in *.
        change (nr W) with (nr M - r) in Hjr.
        assert (Hreli : lrel (r + (p0 + k')) Mk Bk) by (apply (lrel_mono r); [lia|exact Hrelk]).
        unfold rule_at. rewrite app_nth2 by lia. fold k'. rewrite nth_shiftsw by assumption.
        rewrite Hnthrest by assumption. cbn [fst snd]. fold jw. rewrite Hf.
        rewrite firstn_app, firstn_all2 by lia. fold k'. rewrite firstn_shiftsw, apply_swaps_app_l. fold B. fold Bk.
        split; [lia|]. split; [lia|].
        exists (cw + cW). replace i with (r + (p0 + k')) by lia. split; [|split].
        * intros Hd. apply HnW. apply (dep_whole_to_window Mk piv r c cw Htk); [lia|].
          now apply (dep_lrel_iff _ Mk Bk).
        * intros j'' Hj''. apply (dep_lrel_iff _ Mk Bk _ _ Hreli).
          replace j'' with (r + (j'' - r)) by lia. apply (dep_window_to_whole Mk piv r c cw Htk).
          apply HfirstW. lia.
        * intros c'' j'' Hc'' Hj''. apply (dep_lrel_iff _ Mk Bk _ _ Hreli).
          destruct (Nat.lt_ge_cases c'' cw) as [Hlow|Hhigh].
          -- apply (dep_lrel_iff _ Mk Mk). { intros x. split; exists 0%N; (split; [apply bounded_0|]); now rewrite vmul_0, N.lxor_0_r. }
             exists 0%N. split; [apply bounded_0|]. intros col Hcol. rewrite vmul_0, N.bits_0.
             apply (tp_zero _ _ _ _ _ Htk); lia.
          -- replace c'' with (cw + (c'' - cw)) by lia. replace j'' with (r + (j'' - r)) by lia.
             apply (dep_window_to_whole Mk piv r c cw Htk). apply HleftW; lia.
      + (* nothing is left *)
        intros j col Hj. rewrite app_length in Hj. unfold shiftsw in Hj. rewrite map_length in Hj.
        rewrite app_length. unfold shiftsw at 2. rewrite map_length.
        destruct (shifted_swaps M B piv r c cw rest Ht Hrel HBlen Hvalid)
          as (Htk & Hnrk & Hnck & Hmsk & Hrelk & Hlk & Hsamek).
        set (Mk := apply_swaps (shiftsw r rest) M) in *. set (Bk := apply_swaps (shiftsw r rest) B) in *.
        rewrite apply_swaps_app_l. fold B. fold Bk.
        assert (Hreli : lrel (length sw + length rest) Mk Bk) by (apply (lrel_mono r); [lia|exact Hrelk]).
        apply (dep_lrel_iff _ Mk Bk _ _ Hreli).
        destruct HruleW as [_ HstopW].
        assert (Eend : apply_swaps swW W = msub Mk r cw (nr Mk - r) (nc Mk - cw)).
        { rewrite Hsw, Hpre_id, Hnrk, Hnck, Hmsk. reflexivity. }
        rewrite Eend, HlswW in HstopW.
        replace (length sw + length rest) with (r + (p0 + length rest)) by lia.
        destruct (Nat.lt_ge_cases col cw) as [Hlow|Hhigh].
        * exists 0%N. split; [apply bounded_0|]. intros col' Hcol'. rewrite vmul_0, N.bits_0.
          apply (tp_zero _ _ _ _ _ Htk); lia.
        * replace col with (cw + (col - cw)) by lia. replace j with (r + (j - r)) by lia.
          apply (dep_window_to_whole Mk piv r c cw Htk). apply HstopW. lia.
    - (* P A = L E *)
      destruct (shifted_swaps M B piv r c cw rest Ht Hrel HBlen Hvalid)
        as (Htk & Hnrk & Hnck & Hmsk & Hrelk & Hlk & Hsamek).
      set (Me := apply_swaps (shiftsw r rest) M) in *. set (Be := apply_swaps (shiftsw r rest) B) in *.
      rewrite apply_swaps_app_l. fold B. fold Be.
      assert (Eend : apply_swaps swW W = msub Me r cw (nr Me - r) (nc Me - cw)).
      { rewrite Hsw, Hpre_id, Hnrk, Hnck, Hmsk. reflexivity. }
      rewrite Eend in HlowW.
      set (M1 := mpaste M r cw W').
      assert (HnrW' : nr W' = nr M - r) by (destruct HeqW as (E & _); rewrite <- E; reflexivity).
      assert (HncW' : nc W' = nc M - cw) by (destruct HeqW as (_ & E & _); rewrite <- E; reflexivity).
      assert (Hg1 : forall i j, get M1 i j =
                if (r <=? i) && (i <? nr M) && (cw <=? j) && (j <? nc M) then get W' (i - r) (j - cw) else get M i j).
      { intros i j. unfold M1. rewrite get_mpaste by (auto; lia). rewrite HnrW', HncW'.
        replace (r + (nr M - r)) with (nr M) by lia. replace (cw + (nc M - cw)) with (nc M) by lia. reflexivity. }
      assert (HM1 : wf M1) by (apply wf_mpaste; auto; lia).
      assert (HzW' : forall t col, col < c - cw -> get W' t col = false).
      { intros t col Hcol. destruct HeqW as (_ & _ & _ & I2). destruct (rs_incl_row W' W t I2) as [x Hx].
        unfold get. rewrite <- Hx, testbit_vmul. apply xsum_zero. intros t' Ht'. rewrite HgW.
        rewrite (Hzero (r + t') (cw + col)) by lia. now rewrite !andb_false_r. }
      assert (Hsame1 : forall i, i < r -> row M1 i = row M i).
      { intros i Hi. apply (row_ext (nc M)); [now apply (wf_row_bounded M1)|now apply wf_row_bounded|].
        intros j _. change (get M1 i j = get M i j). rewrite Hg1. destruct (Nat.leb_spec r i); [lia|reflexivity]. }
      assert (Ht1 : topst M1 piv r c cw).
      { constructor; auto; try lia.
        - intros i Hi. rewrite Hsame1 by assumption. now apply Hlead.
        - intros i col Hi Hcol. rewrite Hg1.
          destruct ((r <=? i) && (i <? nr M) && (cw <=? col) && (col <? nc M)) eqn:Eb; [|now apply Hzero].
          apply andb_true_iff in Eb as [Eb _]. apply andb_true_iff in Eb as [_ Eb]. apply Nat.leb_le in Eb.
          apply HzW'. lia.
        - change (nc M1) with (nc M). lia. }
      assert (Ems1 : msub M1 r cw (nr M1 - r) (nc M1 - cw) = W').
      { change (nr M1) with (nr M). change (nc M1) with (nc M). apply mat_ext; auto.
        - apply wf_msub. rewrite (wf_len M1 HM1). change (nr M1) with (nr M). lia.
        - intros i j Hi Hj. cbn [nr nc msub] in Hi, Hj.
          rewrite get_msub by (rewrite (wf_len M1 HM1); change (nr M1) with (nr M); lia).
          destruct (Nat.ltb_spec i (nr M - r)); [|lia]. destruct (Nat.ltb_spec j (nc M - cw)); [|lia]. cbn [andb].
          rewrite Hg1. destruct (Nat.leb_spec r (r + i)); [|lia]. destruct (Nat.ltb_spec (r + i) (nr M)); [|lia].
          destruct (Nat.leb_spec cw (cw + j)); [|lia]. destruct (Nat.ltb_spec (cw + j) (nc M)); [|lia]. cbn [andb].
          f_equal; lia. }
      assert (Hag : forall x, bounded r x -> vmul x Me = vmul x M1).
      { intros x Hx. apply (vmul_agree x _ _ r Hx). intros k Hk. now rewrite Hsamek, Hsame1. }
      intros i. destruct (Hrelk i) as [[x [Hx Ex]] _].
      destruct (Nat.lt_ge_cases i r) as [Hi|Hi].
      + exists x. split; [apply (bounded_mono (Nat.min i r)); [lia|assumption]|].
        rewrite <- Hag by (apply (bounded_mono (Nat.min i r)); [lia|assumption]).
        now rewrite Hsame1, <- Hsamek by assumption.
      + replace (Nat.min i r) with r in Hx by lia.
        destruct (HlowW (i - r)) as [xw [Hxw Exw]].
        exists (N.lxor x (N.shiftl xw (N.of_nat r))). split.
        * apply bounded_lxor; [apply (bounded_mono r); [lia|assumption]|].
          replace i with (i - r + r) by lia. now apply bounded_shiftl.
        * rewrite vmul_lxor, <- Hag by assumption. apply bits_ext_nat. intros col.
          rewrite !N.lxor_spec.
          assert (EB : N.testbit (row Be i) (N.of_nat col) =
                       xorb (N.testbit (row Me i) (N.of_nat col)) (N.testbit (vmul x Me) (N.of_nat col))).
          { rewrite Ex, N.lxor_spec. destruct (N.testbit (row Be i) _), (N.testbit (vmul x Me) _); reflexivity. }
          rewrite EB.
          destruct (Nat.lt_ge_cases col cw) as [Hlow|Hhigh].
          -- rewrite (vmul_shift_lo M1 piv r c cw Ht1) by assumption.
             assert (Z1 : N.testbit (row M1 (r + (i - r))) (N.of_nat col) = false)
               by (apply (tp_zero _ _ _ _ _ Ht1); lia).
             assert (Z2 : N.testbit (row Me (r + (i - r))) (N.of_nat col) = false)
               by (apply (tp_zero _ _ _ _ _ Htk); lia).
             replace (r + (i - r)) with i in Z1, Z2 by lia. rewrite Z1, Z2. now destruct (N.testbit (vmul x Me) _).
          -- assert (Ec : exists col', col = cw + col') by (exists (col - cw); lia). destruct Ec as [col' ->].
             rewrite (vmul_shift_hi M1 piv r c cw Ht1), Ems1.
             pose proof (get_window M1 piv r c cw Ht1 (i - r) col') as G1. rewrite Ems1 in G1. unfold get in G1.
             pose proof (get_window Me piv r c cw Htk (i - r) col') as G2. unfold get in G2.
             replace (r + (i - r)) with i in G1, G2 by lia. rewrite G1, G2, Exw, N.lxor_spec.
             set (a := N.testbit (row (msub Me r cw (nr Me - r) (nc Me - cw)) (i - r)) (N.of_nat col')).
             set (b := N.testbit (vmul x Me) (N.of_nat (cw + col'))).
             set (d := N.testbit (vmul xw W') (N.of_nat col')).
             destruct a, b, d; reflexivity.
  Qed.

(** * 16. MAIN THEOREM, non-reduced mode, ANY switching oracle, window echeloniser returning the output
    of naive Gauss: the result is bit for bit the output of naive Gauss on A *)
Section MainNonFullStrong.
  Variable ech : bool -> mat -> nat * mat.
  Variables k ktop : nat.
  Variable oracle : nat -> bool.
  Variable A : mat.
  Hypothesis Hk : 1 <= k.
  Hypothesis ech_can : forall W, wf W -> ech false W = gauss_delayed false 0 W.

  Definition nf_strong (M : mat) (piv : list nat) : Prop :=
    wf M /\ row_equiv A M /\ is_ref M piv /\
    exists sw, first_row_rule A sw /\ lower_rel (apply_swaps sw A) M.

  Lemma ech_can_ok : ech_nonfull_ok ech.
  Proof. intros W HW. rewrite (ech_can W HW). exact (gauss_spec_ex false W HW). Qed.

  Lemma switch_nonfull_strong c M piv sw pend : ninv A c M piv sw pend -> c < nc M -> length piv < nr M ->
    exists M' piv', switch ech ktop false M (length piv) c = Some (length piv', M') /\ nf_strong M' piv'.
  Proof.
    intros Hn Hc Hr. pose proof (gi_wf _ _ _ _ _ (n_g _ _ _ _ _ _ Hn)) as HM.
    destruct (switch_nonfull_spec ech ktop A ech_can_ok c M piv (n_g _ _ _ _ _ _ Hn) Hc Hr)
      as (M' & piv' & E & H1 & H2 & H3).
    exists M', piv'. split; [assumption|]. split; [assumption|]. split; [assumption|]. split; [assumption|].
    destruct (switch_rule A c M piv sw pend Hn Hc Hr) as (sw' & Hrule & Hlow). exists sw'. split; [assumption|].
    unfold switch in E. rewrite ech_can in E by (apply wf_msub; rewrite (wf_len M HM); lia).
    destruct (gauss_delayed false 0 (msub M (length piv) (radix * (c / radix)) (nr M - length piv)
                                          (nc M - radix * (c / radix)))) as [r2 W'] eqn:Eg.
    cbn [andb snd] in E, Hlow. injection E as _ <-. exact Hlow.
  Qed.

  Lemma ninv_nf_strong M piv sw pend : ninv A (nc A) M piv sw pend -> nf_strong M piv.
  Proof.
    intros H. destruct (ninv_final A M piv sw pend H) as (H1 & H2 & H3 & H4 & H5).
    split; [assumption|]. split; [assumption|]. split; [assumption|]. now exists sw.
  Qed.

  Lemma m4ri_loop_nonfull_strong fuel : forall it c M piv sw pend, ninv A c M piv sw pend ->
    c <= nc M -> nc M - c <= fuel ->
    exists M' piv', m4ri_loop ech k ktop oracle fuel it false M (length piv) c = Some (length piv', M') /\
                    nf_strong M' piv'.
  Proof.
    induction fuel as [|fuel IH]; intros it c M piv sw pend Hn Hc Hf.
    - assert (c = nc M) by lia. subst c. cbn [m4ri_loop]. rewrite Nat.leb_refl.
      exists M, piv. split; [reflexivity|]. apply (ninv_nf_strong M piv sw pend).
      destruct (gi_equiv _ _ _ _ _ (n_g _ _ _ _ _ _ Hn)) as (_ & Hnc & _). now rewrite Hnc.
    - cbn [m4ri_loop]. destruct (Nat.leb_spec (nc M) c) as [Hge|Hlt].
      + assert (c = nc M) by lia. subst c. exists M, piv. split; [reflexivity|].
        apply (ninv_nf_strong M piv sw pend).
        destruct (gi_equiv _ _ _ _ _ (n_g _ _ _ _ _ _ Hn)) as (_ & Hnc & _). now rewrite Hnc.
      + destruct (oracle it && (length piv <? nr M)) eqn:Eo.
        * apply andb_true_iff in Eo as [_ Eo]. apply Nat.ltb_lt in Eo.
          now apply (switch_nonfull_strong c M piv sw pend).
        * set (kk := Nat.min (6 * k) (nc M - c)).
          destruct (block_step k false M (length piv) c kk) as [M1 kbar] eqn:Eb.
          destruct (block_nonfull_spec A k piv sw pend c M kk Hn ltac:(lia) ltac:(lia) M1 kbar Eb)
            as (Hkb & Hnc1 & sw1 & Hn1).
          assert (Hlen1 : length (piv ++ seq c kbar) = length piv + kbar)
            by (rewrite app_length, seq_length; reflexivity).
          rewrite <- Hlen1.
          destruct (Nat.eqb_spec kbar kk) as [Ek|Ek].
          -- apply (IH _ _ _ _ sw1 false); [assumption|lia|lia].
          -- destruct (find_pivot M1 (length (piv ++ seq c kbar)) (c + kbar)) as [[rbar cbar]|] eqn:Ef.
             ++ destruct (ninv_find_pivot_some A _ (c + kbar) M1 _ sw1 rbar cbar Hn1 ltac:(lia) Ef) as (Hn2 & Hcb).
                apply (IH _ _ _ _ _ true Hn2); cbn [nc row_swap set_row]; lia.
             ++ exists M1, (piv ++ seq c kbar). split; [reflexivity|].
                apply (ninv_nf_strong M1 _ sw1 false). destruct Hn1 as [Hg1 Q1 Q2 Q3 Q4 Q5].
                constructor; auto; [|discriminate].
                apply (ginv_find_pivot_none false A _ (c + kbar) M1 _ Hg1); [lia|lia|assumption].
  Qed.
End MainNonFullStrong.

Lemma nf_strong_result A M piv : wf A -> nf_strong A M piv -> (length piv, M) = gauss_delayed false 0 A.
Proof.
  intros HA (HM & Heq & Href & sw & Hrule & Hlow).
  rewrite (surjective_pairing (gauss_delayed false 0 A)). f_equal.
  - rewrite gauss_rank by assumption. now apply (rank_canonical A M).
  - destruct Heq as (Hnr & Hnc & _). apply (ref_canonical A M sw piv); auto.
Qed.

Theorem m4ri_nonfull_canonical_any ech k ktop oracle A : 1 <= k ->
  (forall W, wf W -> ech false W = gauss_delayed false 0 W) -> wf A ->
  m4ri_model ech k ktop oracle false A = Some (gauss_delayed false 0 A).
Proof.
  intros Hk Hech HA.
  destruct (oracle 0 && (0 <? nc A) && (0 <? nr A)) eqn:Eo.
  - apply andb_true_iff in Eo as [Eo E2]. apply andb_true_iff in Eo as [Eo E1].
    apply Nat.ltb_lt in E1, E2. now apply m4ri_nonfull_canonical_entry.
  - unfold m4ri_model. rewrite Eo.
    destruct (m4ri_loop_nonfull_strong ech k ktop oracle A Hk Hech (nc A) 1 0 A [] [] false (ninv_init A HA)
                ltac:(lia) ltac:(lia)) as (M' & piv' & E & Hs).
    cbn [length] in E. rewrite E. f_equal. now apply nf_strong_result.
Qed.

Print Assumptions m4ri_nonfull_spec.
Print Assumptions m4ri_nonfull_canonical.
Print Assumptions m4ri_nonfull_canonical_any.
