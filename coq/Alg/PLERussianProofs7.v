(* Alg/PLERussianProofs7.v — C03, Four-Russians base case, part 7: groundwork for [update_ok]
   (PLERussianProofs5.v), the per-table step of _mzd_process_rows_ple_N.

   A table is made from k consecutive rows u_0 .. u_{k-1} of U whose pivots sit in the consecutive
   columns q0 .. q0+k-1 (full rank block): u_b has a one in column q0 + b and zeros left of it.
   [pr_table_sound]: whatever selection s the index array E yields — any s < 2^k whose table row
   mul_row s urows has the bits of the processed row y on the table's own columns — adding the FIXED
   table row (mul_row s urows xor (s << q0), mzd_make_table_ple's mzd_xor_bits) to y is the sequential
   elimination of y by u_0, u_1, .., u_{k-1} with the multipliers left in place, i.e. exactly what
   _mzd_ple_naive does to a row below the pivot rows.
   [pr_table_exists]: such a selection exists (so E has an entry for every pattern that occurs). *)
From Coq Require Import List NArith Arith Lia Bool Sorted Btauto.
From M4 Require Import Base.Bits Lin.Mat Lin.MatAlg Lin.Ops
  Alg.PLE Alg.PLELemmas Alg.PLERussian Alg.PLERussianProofs2.
Import ListNotations.
Local Open Scope nat_scope.

(** the bits of v on the table's own columns [q0, q0 + k) *)
Definition own (q0 k : nat) (v : N) : N := N.land (N.shiftr v (N.of_nat q0)) (N.ones (N.of_nat k)).

Lemma testbit_own q0 k v b : N.testbit (own q0 k v) (N.of_nat b) = N.testbit v (N.of_nat (b + q0)) && (b <? k).
Proof. unfold own. now rewrite N.land_spec, testbit_shiftr_nat, testbit_ones_nat. Qed.

Lemma own_eq_bit q0 k v v' b : own q0 k v = own q0 k v' -> b < k ->
  N.testbit v (N.of_nat (q0 + b)) = N.testbit v' (N.of_nat (q0 + b)).
Proof.
  intros H Hb. pose proof (f_equal (fun x => N.testbit x (N.of_nat b)) H) as E. cbv beta in E.
  rewrite !testbit_own in E. destruct (Nat.ltb_spec b k); [|lia]. rewrite !andb_true_r in E.
  now rewrite (Nat.add_comm q0 b).
Qed.

Definition tri_rows (n q0 : nat) (urows : list N) : Prop :=
  forall b, b < length urows ->
    bounded n (nth b urows 0%N) /\
    N.testbit (nth b urows 0%N) (N.of_nat (q0 + b)) = true /\
    forall j, j < q0 + b -> N.testbit (nth b urows 0%N) (N.of_nat j) = false.

Lemma tri_rows_tail n q0 u rest : tri_rows n q0 (u :: rest) -> tri_rows n (S q0) rest.
Proof.
  intros H b Hb. specialize (H (S b) ltac:(cbn [length]; lia)). cbn [nth] in H.
  replace (S q0 + b) with (q0 + S b) by lia. exact H.
Qed.

Lemma mul_row_bit_zero a rs j : (forall b, b < length rs -> N.testbit (nth b rs 0%N) (N.of_nat j) = false) ->
  N.testbit (mul_row a rs) (N.of_nat j) = false.
Proof.
  intros H. rewrite testbit_mul_row. apply xsum_zero. intros k Hk. rewrite H by assumption. apply andb_false_r.
Qed.

Lemma testbit_mul_row_cons a u rest j :
  N.testbit (mul_row a (u :: rest)) (N.of_nat j) =
  xorb (N.odd a && N.testbit u (N.of_nat j)) (N.testbit (mul_row (N.div2 a) rest) (N.of_nat j)).
Proof.
  cbn [mul_row]. rewrite N.lxor_spec. f_equal. destruct (N.odd a); [reflexivity|apply N.bits_0].
Qed.

Lemma fold_red1_shift n u rest q0 m y :
  fold_left (fun x b => red1 n (nth b (u :: rest) 0%N) (q0 + b) x) (seq 1 m) y =
  fold_left (fun x b => red1 n (nth b rest 0%N) (S q0 + b) x) (seq 0 m) y.
Proof.
  rewrite <- seq_shift, fold_left_map'. apply Lin.Perm.fold_left_ext_in.
  intros a b _. cbn [nth]. f_equal. lia.
Qed.

Theorem pr_table_sound n : forall urows q0 y s,
  tri_rows n q0 urows -> q0 + length urows <= n -> bounded (length urows) s ->
  own q0 (length urows) (mul_row s urows) = own q0 (length urows) y ->
  N.lxor y (N.lxor (mul_row s urows) (N.shiftl s (N.of_nat q0))) =
  fold_left (fun x b => red1 n (nth b urows 0%N) (q0 + b) x) (seq 0 (length urows)) y.
Proof.
  induction urows as [|u rest IH]; intros q0 y s Ht Hn Hs Ho; cbn [length] in *.
  - cbn [seq fold_left mul_row]. assert (s = 0%N) as ->.
    { apply bits_ext_nat. intros j. rewrite N.bits_0. apply Hs. lia. }
    rewrite N.shiftl_0_l. change (N.lxor 0 0) with 0%N. apply N.lxor_0_r.
  - set (m := length rest) in *.
    destruct (Ht 0 ltac:(cbn [length]; lia)) as (Hub & Hu1 & Hu0). cbn [nth] in Hub, Hu1, Hu0.
    rewrite Nat.add_0_r in Hu1, Hu0.
    assert (Hrest0 : forall b, b < length rest -> N.testbit (nth b rest 0%N) (N.of_nat q0) = false).
    { intros b Hb. destruct (Ht (S b) ltac:(cbn [length]; lia)) as (_ & _ & Hz). cbn [nth] in Hz. apply Hz. lia. }
    (* the first multiplier is the bit of y in column q0 *)
    assert (Es0 : N.odd s = N.testbit y (N.of_nat q0)).
    { pose proof (own_eq_bit q0 (S m) _ _ 0 Ho ltac:(lia)) as E. rewrite Nat.add_0_r in E.
      rewrite testbit_mul_row_cons, Hu1, andb_true_r, (mul_row_bit_zero _ rest q0 Hrest0), xorb_false_r in E.
      exact E. }
    cbn [seq fold_left]. rewrite Nat.add_0_r. change (nth 0 (u :: rest) 0%N) with u.
    rewrite fold_red1_shift.
    set (y1 := red1 n u q0 y).
    rewrite <- (IH (S q0) y1 (N.div2 s)).
    + (* the algebra *)
      apply bits_ext_nat. intros j.
      rewrite !N.lxor_spec, testbit_mul_row_cons, !testbit_shiftl_nat.
      unfold y1. rewrite testbit_red1, <- Es0.
      set (mr := N.testbit (mul_row (N.div2 s) rest) (N.of_nat j)).
      destruct (Nat.lt_trichotomy j q0) as [C|[->|C]].
      * rewrite (Hu0 j C). destruct (Nat.leb_spec q0 j), (Nat.leb_spec (S q0) j); try lia. btauto.
      * rewrite Hu1. destruct (Nat.leb_spec q0 q0), (Nat.leb_spec (S q0) q0); try lia.
        rewrite Nat.sub_diag. change (N.of_nat 0) with 0%N. rewrite N.bit0_odd. btauto.
      * destruct (Nat.leb_spec q0 j), (Nat.leb_spec (S q0) j); try lia.
        rewrite testbit_div2_nat. replace (S (j - S q0)) with (j - q0) by lia.
        destruct (Nat.ltb_spec j n) as [D|D]; [btauto|]. rewrite (Hub j D). btauto.
    + now apply tri_rows_tail in Ht.
    + fold m. lia.
    + intros j Hj. rewrite testbit_div2_nat. apply Hs. fold m in Hj. lia.
    + (* the remaining pattern is that of the row after the first elimination *)
      apply bits_ext_nat. intros b. rewrite !testbit_own. fold m.
      destruct (Nat.ltb_spec b m) as [Hb|Hb]; [|now rewrite !andb_false_r]. rewrite !andb_true_r.
      pose proof (own_eq_bit q0 (S m) _ _ (S b) Ho ltac:(lia)) as E.
      rewrite testbit_mul_row_cons in E. replace (b + S q0) with (q0 + S b) by lia.
      unfold y1. rewrite testbit_red1, <- Es0.
      destruct (Nat.leb_spec (S q0) (q0 + S b)); [|lia]. destruct (Nat.ltb_spec (q0 + S b) n); [|lia].
      rewrite <- E. btauto.
Qed.

(** every pattern that occurs has a selection: E is written at every index that is read *)
Theorem pr_table_exists n : forall urows q0 y,
  tri_rows n q0 urows -> q0 + length urows <= n ->
  exists s, bounded (length urows) s /\
            own q0 (length urows) (mul_row s urows) = own q0 (length urows) y.
Proof.
  induction urows as [|u rest IH]; intros q0 y Ht Hn; cbn [length] in *.
  - exists 0%N. split; [apply bounded_0|]. apply bits_ext_nat. intros b. rewrite !testbit_own.
    destruct (Nat.ltb_spec b 0); [lia|]. now rewrite !andb_false_r.
  - set (m := length rest) in *.
    destruct (Ht 0 ltac:(cbn [length]; lia)) as (Hub & Hu1 & Hu0). cbn [nth] in Hub, Hu1, Hu0.
    rewrite Nat.add_0_r in Hu1, Hu0.
    assert (Hrest0 : forall b, b < length rest -> N.testbit (nth b rest 0%N) (N.of_nat q0) = false).
    { intros b Hb. destruct (Ht (S b) ltac:(cbn [length]; lia)) as (_ & _ & Hz). cbn [nth] in Hz. apply Hz. lia. }
    destruct (IH (S q0) (red1 n u q0 y) (tri_rows_tail _ _ _ _ Ht) ltac:(fold m; lia)) as (s' & Hs' & Ho').
    fold m in Hs', Ho'.
    set (s0 := N.testbit y (N.of_nat q0)).
    exists (N.b2n s0 + 2 * s')%N.
    assert (Eodd : N.odd (N.b2n s0 + 2 * s') = s0).
    { rewrite N.odd_add_mul_2. now destruct s0. }
    assert (Ediv : N.div2 (N.b2n s0 + 2 * s') = s').
    { rewrite N.div2_div, N.add_comm, N.mul_comm, N.div_add_l by lia. destruct s0; cbn; lia. }
    split.
    + intros j Hj. destruct j as [|j].
      * lia.
      * rewrite <- testbit_div2_nat, Ediv. apply Hs'. lia.
    + apply bits_ext_nat. intros b. rewrite !testbit_own.
      destruct (Nat.ltb_spec b (S m)) as [Hb|Hb]; [|now rewrite !andb_false_r]. rewrite !andb_true_r.
      rewrite testbit_mul_row_cons, Eodd, Ediv.
      destruct b as [|b].
      * cbn [Nat.add]. rewrite Hu1, andb_true_r, (mul_row_bit_zero _ rest q0 Hrest0). apply xorb_false_r.
      * pose proof (own_eq_bit (S q0) m _ _ b Ho' ltac:(lia)) as E.
        replace (S q0 + b) with (S b + q0) in E by lia. rewrite E, testbit_red1. fold s0.
        destruct (Nat.leb_spec (S q0) (S b + q0)); [|lia]. destruct (Nat.ltb_spec (S b + q0) n); [|lia].
        btauto.
Qed.

(** * the model's E look-up ([e_lookup]: search for the table row with the given pattern) *)
Lemma bounded_of_nat_pow k t : t < 2 ^ k -> bounded k (N.of_nat t).
Proof.
  intros H. apply bounded_lt. replace (2 ^ N.of_nat k)%N with (N.of_nat (2 ^ k)); [lia|].
  rewrite Nat2N.inj_pow. reflexivity.
Qed.

Lemma e_lookup_spec n c0 lb urows y :
  tri_rows n (c0 + lb) urows -> c0 + lb + length urows <= n ->
  let k := length urows in
  let s := e_lookup c0 lb k urows (own (c0 + lb) k y) in
  bounded k s /\ own (c0 + lb) k (mul_row s urows) = own (c0 + lb) k y.
Proof.
  intros Ht Hn. cbv zeta. unfold e_lookup.
  change (fun s => N.eqb (N.land (N.shiftr (mul_row s urows) (N.of_nat (c0 + lb))) (N.ones (N.of_nat (length urows))))
                         (own (c0 + lb) (length urows) y))
    with (fun s => N.eqb (own (c0 + lb) (length urows) (mul_row s urows)) (own (c0 + lb) (length urows) y)).
  destruct (find _ _) as [s|] eqn:E.
  - apply find_some in E as [Hin He]. apply N.eqb_eq in He. split; [|exact He].
    apply in_map_iff in Hin as [t [<- Ht2]]. apply in_seq in Ht2. apply bounded_of_nat_pow. lia.
  - exfalso. destruct (pr_table_exists n urows (c0 + lb) y Ht Hn) as (s0 & Hs0 & Ho).
    pose proof (find_none _ _ E s0) as Hf. cbv beta in Hf. rewrite Ho, N.eqb_refl in Hf.
    assert (Hin : In s0 (map N.of_nat (seq 0 (2 ^ length urows)))); [|specialize (Hf Hin); discriminate].
    apply in_map_iff. exists (N.to_nat s0). split; [apply N2Nat.id|]. apply in_seq.
    apply bounded_lt in Hs0. replace (2 ^ N.of_nat (length urows))%N with (N.of_nat (2 ^ length urows)) in Hs0
      by (rewrite Nat2N.inj_pow; reflexivity). lia.
Qed.

(** * _mzd_process_rows_ple_N on one row: the loop over the tables with the register [bits] *)
(** the sequential elimination by the rows of the tables, in order *)
Fixpoint seq_elim (n c0 : nat) (tbls : list (nat * nat * list (nat * N))) (y : N) : N :=
  match tbls with
  | [] => y
  | (lb, _, prs) :: t =>
    seq_elim n c0 t (fold_left (fun x b => red1 n (nth b (map snd prs) 0%N) (c0 + lb + b) x)
                               (seq 0 (length prs)) y)
  end.

(** consecutive tables from block column [lb] on, each made of rows with pivots in its own columns *)
Fixpoint tbls_ok (n c0 kk lb : nat) (tbls : list (nat * nat * list (nat * N))) : Prop :=
  match tbls with
  | [] => True
  | (lb', kj, prs) :: t =>
    lb' = lb /\ kj = length prs /\ lb + kj <= kk /\ tri_rows n (c0 + lb) (map snd prs) /\
    tbls_ok n c0 kk (lb + kj) t
  end.

Theorem pr_value_sound n c0 kk : c0 + kk <= n -> forall tbls lb bits acc x,
  tbls_ok n c0 kk lb tbls ->
  (forall b, lb <= b -> b < kk -> N.testbit bits (N.of_nat b) = N.testbit (N.lxor x acc) (N.of_nat (c0 + b))) ->
  N.lxor x (pr_value c0 tbls bits acc) = seq_elim n c0 tbls (N.lxor x acc).
Proof.
  intros Hn. induction tbls as [|[[lb' kj] prs] t IH]; intros lb bits acc x Hok Hb; cbn [pr_value seq_elim].
  - reflexivity.
  - destruct Hok as (-> & -> & Hk & Htri & Hok).
    set (urows := map snd prs) in *. set (y := N.lxor x acc) in *.
    assert (Hlen : length urows = length prs) by (unfold urows; apply map_length).
    assert (Epat : N.land (N.shiftr bits (N.of_nat lb)) (N.ones (N.of_nat (length prs))) =
                   own (c0 + lb) (length urows) y).
    { apply bits_ext_nat. intros b. rewrite testbit_own, N.land_spec, testbit_shiftr_nat, testbit_ones_nat, Hlen.
      destruct (Nat.ltb_spec b (length prs)) as [C|C]; [|now rewrite !andb_false_r].
      rewrite !andb_true_r. rewrite Hb by lia. f_equal. f_equal. lia. }
    rewrite Epat. rewrite <- Hlen.
    destruct (e_lookup_spec n c0 lb urows y Htri ltac:(lia)) as [Hs Ho].
    set (s := e_lookup c0 lb (length urows) urows (own (c0 + lb) (length urows) y)) in *.
    set (v := N.lxor (mul_row s urows) (N.shiftl s (N.of_nat (c0 + lb)))).
    pose proof (pr_table_sound n urows (c0 + lb) y s Htri ltac:(lia) Hs Ho) as Ev. fold v in Ev.
    rewrite (IH (lb + length prs) _ (N.lxor acc v) x).
    + f_equal. unfold y in Ev. rewrite <- N.lxor_assoc, Ev, Hlen. reflexivity.
    + exact Hok.
    + intros b H1 H2. rewrite N.lxor_spec, testbit_shiftr_nat, Hb by lia.
      rewrite <- N.lxor_assoc. fold y. rewrite (N.lxor_spec y v). f_equal. f_equal. f_equal. lia.
Qed.
