(* Alg/GaussProofs.v — specification proof of the executable model [gauss_delayed] (Alg/Gauss.v)
   of mzd_gauss_delayed (m4ri/mzd.c:209): it returns the number of pivots and leaves a row
   echelon form (reduced when [full]) that is row-equivalent to its input.  Consequences: the
   returned count is the mathematical rank, the reduced form is canonical (every correct RREF
   route returns exactly [rref A]), completing any row echelon form gives [rref A].
   Part of property C02.  Routes other than naive Gauss are tied to this through
   [rref_canonical] / [rank_canonical] by another component. *)
From Coq Require Import List NArith Arith Lia Bool Sorted.
From M4 Require Import Base.Bits Lin.Mat Lin.MatAlg Lin.Ops Lin.Spec Lin.Span Lin.Echelon Alg.Gauss.
Import ListNotations.
Local Open Scope nat_scope.

(** * pivot search *)
Lemma find_row_from_spec rs i start c :
  match find_row_from rs i start c with
  | Some j => i <= j < i + length rs /\ start <= j /\
              N.testbit (nth (j - i) rs 0%N) (N.of_nat c) = true /\
              (forall k, i <= k < j -> start <= k -> N.testbit (nth (k - i) rs 0%N) (N.of_nat c) = false)
  | None => forall k, k < length rs -> start <= i + k -> N.testbit (nth k rs 0%N) (N.of_nat c) = false
  end.
Proof.
  revert i; induction rs as [|r t IH]; intros i; cbn [find_row_from].
  - intros k Hk. cbn [length] in Hk. lia.
  - destruct ((start <=? i) && N.testbit r (N.of_nat c)) eqn:Hcond.
    + apply andb_true_iff in Hcond as [Hs Hb]. apply Nat.leb_le in Hs.
      split; [cbn [length]; lia|]. split; [assumption|]. split; [now rewrite Nat.sub_diag|].
      intros k Hk. lia.
    + assert (Hi : start <= i -> N.testbit r (N.of_nat c) = false).
      { intros Hs. apply andb_false_iff in Hcond as [Hc|Hc]; [|assumption].
        apply Nat.leb_gt in Hc. lia. }
      specialize (IH (S i)). destruct (find_row_from t (S i) start c) as [j|].
      * destruct IH as [H1 [H2 [H3 H4]]]. split; [cbn [length]; lia|]. split; [assumption|]. split.
        -- replace (j - i) with (S (j - S i)) by lia. exact H3.
        -- intros k Hk Hsk. destruct (Nat.eq_dec k i) as [->|Hne].
           ++ rewrite Nat.sub_diag. cbn [nth]. now apply Hi.
           ++ replace (k - i) with (S (k - S i)) by lia. cbn [nth]. apply H4; lia.
      * intros k Hk Hsk. cbn [length] in Hk. destruct k as [|k]; cbn [nth].
        -- apply Hi. lia.
        -- apply IH; lia.
Qed.

Lemma find_row_None M s c : find_row_from (rows M) 0 s c = None ->
  forall i, s <= i -> get M i c = false.
Proof.
  intros E i Hi. pose proof (find_row_from_spec (rows M) 0 s c) as H. rewrite E in H.
  unfold get. destruct (Nat.lt_ge_cases i (length (rows M))) as [Hlt|Hge].
  - apply H; [assumption|lia].
  - rewrite row_overflow by assumption. apply N.bits_0.
Qed.

Lemma find_row_Some M s c j : find_row_from (rows M) 0 s c = Some j ->
  s <= j < length (rows M) /\ get M j c = true /\ forall k, s <= k < j -> get M k c = false.
Proof.
  intros E. pose proof (find_row_from_spec (rows M) 0 s c) as H. rewrite E in H.
  destruct H as [H1 [H2 [H3 H4]]]. rewrite Nat.sub_0_r in H3. split; [lia|]. split; [exact H3|].
  intros k Hk. specialize (H4 k). rewrite Nat.sub_0_r in H4. apply H4; lia.
Qed.

(** * the elimination condition away from the pivot row *)
Lemma elim_cond_other full M p c i : i <> p -> (full = true \/ p < i) ->
  elim_cond full M p c i = get M i c.
Proof.
  intros Hne Hor. unfold elim_cond. destruct (Nat.ltb_spec i (length (rows M))) as [Hi|Hi]; cbn [andb].
  - destruct (Nat.eqb_spec i p); [contradiction|]. cbn [negb andb].
    replace (full || (p <? i)) with true; [reflexivity|]. symmetry.
    destruct Hor as [->|Hlt]; [reflexivity|]. apply orb_true_iff. right. now apply Nat.ltb_lt.
  - unfold get. rewrite row_overflow by assumption. now rewrite N.bits_0.
Qed.

(** * Loop invariant of the column loop.
    After the columns < c have been processed, with [piv] the pivot columns found so far
    (so that startrow = length piv):
    rows < startrow form an echelon system with pivots [piv] in columns < c, rows >= startrow
    vanish on the columns < c, with [full] every pivot column is zero outside its pivot row,
    and the matrix is well-formed and row-equivalent to the input. *)
Record ginv (full : bool) (A : mat) (c : nat) (M : mat) (piv : list nat) : Prop := mk_ginv {
  gi_wf : wf M;
  gi_equiv : row_equiv A M;
  gi_len : length piv <= nr M;
  gi_sorted : StronglySorted lt piv;
  gi_lt : forall j, In j piv -> j < c;
  gi_lead : forall i, i < length piv -> lead (row M i) = Some (nth i piv 0);
  gi_zero : forall i j, length piv <= i -> j < c -> get M i j = false;
  gi_full : full = true ->
            forall i i', i < length piv -> i' <> i -> get M i' (nth i piv 0) = false
}.

Lemma ginv_init full A : wf A -> ginv full A 0 A [].
Proof.
  intros HA. constructor; cbn [length]; try (intros; lia).
  - assumption.
  - apply row_equiv_refl.
  - constructor.
  - intros j [].
Qed.

(** no pivot in column c *)
Lemma ginv_skip full A c M piv : ginv full A c M piv ->
  (forall i, length piv <= i -> get M i c = false) -> ginv full A (S c) M piv.
Proof.
  intros [Hwf Heq Hlen Hs Hlt Hlead Hzero Hfull] Hc. constructor; try assumption.
  - intros j Hj. specialize (Hlt j Hj). lia.
  - intros i j Hi Hj. destruct (Nat.eq_dec j c) as [->|Hne]; [now apply Hc|apply Hzero; lia].
Qed.

(** bringing the pivot row into place *)
Lemma ginv_swap full A c M piv j : ginv full A c M piv ->
  length piv <= j < nr M -> get M j c = true ->
  ginv full A c (row_swap M (length piv) j) piv /\ get (row_swap M (length piv) j) (length piv) c = true.
Proof.
  intros [Hwf Heq Hlen Hs Hlt Hlead Hzero Hfull] Hj Hg.
  pose proof (wf_len M Hwf) as Hl.
  assert (Ha : length piv < length (rows M)) by lia.
  assert (Hb : j < length (rows M)) by lia.
  split; [constructor|]; try assumption.
  - now apply wf_row_swap.
  - apply (row_equiv_trans A M); [assumption|]. now apply row_equiv_row_swap.
  - intros i Hi. rewrite row_row_swap by assumption.
    destruct (Nat.eqb_spec i j); [lia|]. destruct (Nat.eqb_spec i (length piv)); [lia|]. now apply Hlead.
  - intros i j' Hi Hj'. unfold get. rewrite row_row_swap by assumption.
    destruct (i =? j); [|destruct (i =? length piv)]; apply Hzero; lia.
  - intros Hf i i' Hi Hne. unfold get. rewrite row_row_swap by assumption.
    destruct (Nat.eqb_spec i' j); [|destruct (Nat.eqb_spec i' (length piv))]; apply (Hfull Hf); lia.
  - unfold get. rewrite row_row_swap by assumption.
    destruct (Nat.eqb_spec (length piv) j) as [E|E]; [now rewrite E|].
    now rewrite Nat.eqb_refl.
Qed.

(** clearing column c with the pivot row in place *)
Lemma ginv_elim full A c M piv : ginv full A c M piv ->
  length piv < nr M -> get M (length piv) c = true ->
  ginv full A (S c) (eliminate full M (length piv) c) (piv ++ [c]).
Proof.
  intros [Hwf Heq Hlen Hs Hlt Hlead Hzero Hfull] Hlt' Hg.
  set (s := length piv) in *.
  assert (Hpz : forall j, j < c -> get M s j = false) by (intros j Hj; apply Hzero; [unfold s; lia|assumption]).
  assert (Hpr : N.land (row M s) (colmask c (nc M)) = row M s).
  { apply land_colmask_id; [now apply wf_row_bounded|exact Hpz]. }
  assert (Hrow : forall i, row (eliminate full M s c) i =
                           N.lxor (row M i) (if elim_cond full M s c i then row M s else 0%N)).
  { intros i. now rewrite row_eliminate, Hpr. }
  assert (Hget : forall i j, get (eliminate full M s c) i j =
                             xorb (get M i j) (elim_cond full M s c i && get M s j)).
  { intros i j. unfold get. rewrite Hrow, N.lxor_spec.
    destruct (elim_cond full M s c i); [reflexivity|now rewrite N.bits_0]. }
  assert (Hlen' : length (piv ++ [c]) = S s) by (rewrite app_length; cbn [length]; unfold s; lia).
  (* column c is cleared in every row the elimination reaches *)
  assert (Hclr : forall i, i <> s -> (full = true \/ s < i) -> get (eliminate full M s c) i c = false).
  { intros i Hne Hor. rewrite Hget, (elim_cond_other full M s c i Hne Hor), Hg, andb_true_r.
    apply xorb_nilpotent. }
  constructor.
  - now apply wf_eliminate.
  - apply (row_equiv_trans A M); [assumption|]. now apply row_equiv_eliminate.
  - rewrite Hlen'. cbn [nr eliminate map_rows]. lia.
  - now apply sorted_app_single.
  - intros j Hj. apply in_app_or in Hj as [Hj|[<-|[]]]; [specialize (Hlt j Hj)|]; lia.
  - rewrite Hlen'. intros i Hi. rewrite Hrow. destruct (Nat.eq_dec i s) as [->|Hne].
    + rewrite elim_cond_pivot, N.lxor_0_r. rewrite app_nth2 by (unfold s; lia).
      replace (s - length piv) with 0 by (unfold s; lia). cbn [nth].
      apply lead_Some. split; [exact Hg|exact Hpz].
    + assert (Hi' : i < s) by lia. rewrite app_nth1 by exact Hi'.
      apply lead_lxor_above; [now apply Hlead|]. intros j' Hj'.
      destruct (elim_cond full M s c i); [|apply N.bits_0].
      apply Hpz. assert (nth i piv 0 < c) by (apply Hlt, nth_In; exact Hi'). lia.
  - rewrite Hlen'. intros i j Hi Hj. destruct (Nat.eq_dec j c) as [->|Hne].
    + apply Hclr; lia.
    + rewrite Hget, Hzero, Hpz by (unfold s in *; lia). now rewrite andb_false_r.
  - rewrite Hlen'. intros Hf i i' Hi Hne. destruct (Nat.eq_dec i s) as [->|Hne'].
    + rewrite app_nth2 by (unfold s; lia).
      replace (s - length piv) with 0 by (unfold s; lia). cbn [nth].
      apply Hclr; [assumption|now left].
    + assert (Hi' : i < s) by lia. rewrite app_nth1 by exact Hi'.
      rewrite Hget, (Hfull Hf i i' Hi' Hne), Hpz; [now rewrite andb_false_r|].
      apply Hlt, nth_In. exact Hi'.
Qed.

(** one iteration of the column loop *)
Lemma ginv_step full A c M piv : ginv full A c M piv ->
  exists piv', snd (gauss_step full (M, length piv) c) = length piv' /\
               ginv full A (S c) (fst (gauss_step full (M, length piv) c)) piv'.
Proof.
  intros H. unfold gauss_step.
  destruct (find_row_from (rows M) 0 (length piv) c) as [j|] eqn:E; cbn [fst snd].
  - exists (piv ++ [c]). split; [rewrite app_length; cbn [length]; lia|].
    destruct (find_row_Some M (length piv) c j E) as [Hj [Hg _]].
    rewrite (wf_len M (gi_wf _ _ _ _ _ H)) in Hj.
    destruct (ginv_swap full A c M piv j H Hj Hg) as [H1 Hg1].
    apply ginv_elim; [assumption| |assumption]. cbn [nr row_swap set_row]. lia.
  - exists piv. split; [reflexivity|]. apply ginv_skip; [assumption|].
    now apply find_row_None.
Qed.

(** the whole loop *)
Lemma ginv_fold full A n : forall c M piv, ginv full A c M piv ->
  exists piv', snd (fold_left (gauss_step full) (seq c n) (M, length piv)) = length piv' /\
               ginv full A (c + n) (fst (fold_left (gauss_step full) (seq c n) (M, length piv))) piv'.
Proof.
  induction n as [|n IH]; intros c M piv H; cbn [seq fold_left].
  - exists piv. cbn [fst snd]. rewrite Nat.add_0_r. now split.
  - destruct (ginv_step full A c M piv H) as [piv1 [Hs1 Hg1]].
    destruct (gauss_step full (M, length piv) c) as [M1 s1]. cbn [fst snd] in Hs1, Hg1. subst s1.
    destruct (IH (S c) M1 piv1 Hg1) as [piv' [Hs' Hg']]. exists piv'.
    replace (c + S n) with (S c + n) by lia. now split.
Qed.

(** at the end of the loop the invariant is the specification *)
Lemma ginv_final full A M piv : ginv full A (nc A) M piv ->
  wf M /\ row_equiv A M /\ (if full then is_rref M piv else is_ref M piv).
Proof.
  intros [Hwf Heq Hlen Hs Hlt Hlead Hzero Hfull]. split; [assumption|]. split; [assumption|].
  assert (Href : is_ref M piv).
  { split; [assumption|]. split; [assumption|]. split; [assumption|].
    intros i Hi. apply (bounded_ext (nc M)); [now apply wf_row_bounded|apply bounded_0|].
    intros j Hj. rewrite N.bits_0. apply Hzero; [assumption|]. destruct Heq as [_ [Hnc _]]. lia. }
  destruct full; [|assumption]. split; [assumption|]. now apply Hfull.
Qed.

(** * Specification of [gauss_delayed] from column 0 *)
Lemma gauss_spec_ex full A : wf A ->
  exists piv, fst (gauss_delayed full 0 A) = length piv /\ wf (snd (gauss_delayed full 0 A)) /\
              row_equiv A (snd (gauss_delayed full 0 A)) /\
              (if full then is_rref (snd (gauss_delayed full 0 A)) piv
               else is_ref (snd (gauss_delayed full 0 A)) piv).
Proof.
  intros HA. unfold gauss_delayed. rewrite Nat.sub_0_r.
  destruct (ginv_fold full A (nc A) 0 A [] (ginv_init full A HA)) as [piv [Hs Hg]].
  cbn [length Nat.add] in Hs, Hg.
  destruct (fold_left (gauss_step full) (seq 0 (nc A)) (A, 0)) as [M sr]. cbn [fst snd] in *.
  exists piv. rewrite Nat.sub_0_r. split; [assumption|]. now apply (ginv_final full A).
Qed.

Theorem gauss_spec full A : wf A ->
  let '(r, M) := gauss_delayed full 0 A in
  exists piv, r = length piv /\ wf M /\ row_equiv A M /\
              (if full then is_rref M piv else is_ref M piv).
Proof.
  intros HA. pose proof (gauss_spec_ex full A HA) as H.
  destruct (gauss_delayed full 0 A) as [r M]. exact H.
Qed.

(** * Corollaries *)
Lemma rref_spec A : wf A ->
  exists piv, rank A = length piv /\ wf (rref A) /\ row_equiv A (rref A) /\ is_rref (rref A) piv.
Proof. intros HA. exact (gauss_spec_ex true A HA). Qed.

Lemma wf_rref A : wf A -> wf (rref A).
Proof. intros HA. now destruct (rref_spec A HA) as [piv [_ [H _]]]. Qed.

Lemma row_equiv_rref A : wf A -> row_equiv A (rref A).
Proof. intros HA. now destruct (rref_spec A HA) as [piv [_ [_ [H _]]]]. Qed.

(** the reduced form is a reduced echelon form whose pivots are the column rank profile *)
Theorem rref_is_rref A : wf A ->
  exists piv, is_rref (rref A) piv /\ length piv = rank A /\ is_crp A piv.
Proof.
  intros HA. destruct (rref_spec A HA) as [piv [Hr [Hwf [Heq Hrr]]]]. exists piv.
  split; [assumption|]. split; [now symmetry|]. now apply (crp_of_rref A (rref A)).
Qed.

(** the returned number of pivots is the rank *)
Theorem rank_correct A : wf A -> has_rank A (rank A).
Proof.
  intros HA. destruct (rref_is_rref A HA) as [piv [_ [Hl Hc]]]. exists piv. now split.
Qed.

(** any reduced row echelon form of A, however obtained, is exactly [rref A] *)
Theorem rref_canonical A R p : wf A -> wf R -> is_rref R p -> row_equiv A R ->
  R = rref A /\ length p = rank A.
Proof.
  intros HA HR Hrr Heq. destruct (rref_spec A HA) as [piv [Hr [Hwf [Heq' Hrr']]]].
  destruct (rref_unique R (rref A) p piv HR Hwf Hrr Hrr') as [E1 E2].
  - apply (row_equiv_trans R A); [now apply row_equiv_sym|assumption].
  - split; [assumption|]. now rewrite E2.
Qed.

(** any row echelon form of A, however obtained, has [rank A] pivots *)
Theorem rank_canonical A R p : wf A -> is_ref R p -> row_equiv A R -> length p = rank A.
Proof.
  intros HA Href Heq. destruct (rref_spec A HA) as [piv [Hr [Hwf [Heq' Hrr']]]].
  rewrite Hr. apply (ref_npivots_unique R (rref A)); [assumption|now apply rref_ref|].
  apply (row_equiv_trans R A); [now apply row_equiv_sym|assumption].
Qed.

(** in particular both modes of the naive routine return the same number *)
Corollary gauss_rank full A : wf A -> fst (gauss_delayed full 0 A) = rank A.
Proof.
  intros HA. destruct (gauss_spec_ex full A HA) as [piv [Hr [Hwf [Heq H]]]]. rewrite Hr.
  apply (rank_canonical A (snd (gauss_delayed full 0 A))); [assumption| |assumption].
  destruct full; [now apply rref_ref|assumption].
Qed.

(** completing a row echelon form: [rref M] is the reduced form on the same pivots spanning
    the same space *)
Theorem top_reduce M piv : wf M -> is_ref M piv ->
  wf (rref M) /\ row_equiv M (rref M) /\ is_rref (rref M) piv /\ rank M = length piv.
Proof.
  intros HM Href. destruct (rref_spec M HM) as [q [Hr [Hwf [Heq Hrr]]]].
  assert (E : piv = q) by (apply (ref_pivots_unique M (rref M)); [assumption|now apply rref_ref|assumption]).
  subst q. split; [assumption|]. split; [assumption|]. split; assumption.
Qed.

(** ... and it is the reduced form of the matrix the echelon form came from *)
Corollary top_reduce_rref A M piv : wf A -> wf M -> is_ref M piv -> row_equiv A M ->
  rref M = rref A /\ length piv = rank A.
Proof.
  intros HA HM Href Heq. destruct (top_reduce M piv HM Href) as [Hwf [Heq' [Hrr Hr]]].
  apply (rref_canonical A (rref M) piv); try assumption.
  now apply (row_equiv_trans A M).
Qed.

(** any correct top reduction of a row echelon form of A yields [rref A] *)
Corollary top_canonical A M R piv q : wf A -> wf M -> wf R ->
  is_ref M piv -> row_equiv A M -> is_rref R q -> row_equiv M R -> R = rref A /\ q = piv.
Proof.
  intros HA HM HR Href Heq Hrr Heq'. split.
  - apply (rref_canonical A R q); try assumption. now apply (row_equiv_trans A M).
  - symmetry. apply (ref_pivots_unique M R); [assumption|now apply rref_ref|assumption].
Qed.

(** the pivots of any row echelon form are the column rank profile *)
Theorem crp_of_ref A M piv : wf A -> wf M -> is_ref M piv -> row_equiv A M -> is_crp A piv.
Proof.
  intros HA HM Href Heq. destruct (top_reduce M piv HM Href) as [Hwf [Heq' [Hrr _]]].
  apply (crp_of_rref A (rref M)); try assumption. now apply (row_equiv_trans A M).
Qed.

Corollary rank_of_ref A M piv : wf A -> wf M -> is_ref M piv -> row_equiv A M ->
  has_rank A (length piv).
Proof. intros HA HM Href Heq. exists piv. split; [now apply (crp_of_ref A M)|reflexivity]. Qed.

(** [rref] is idempotent and a complete invariant of row equivalence *)
Corollary rref_idempotent A : wf A -> rref (rref A) = rref A.
Proof.
  intros HA. destruct (rref_spec A HA) as [piv [_ [Hwf [_ Hrr]]]]. symmetry.
  apply (rref_canonical (rref A) (rref A) piv); try assumption. apply row_equiv_refl.
Qed.

Corollary row_equiv_iff_rref A B : wf A -> wf B ->
  (row_equiv A B <-> nr A = nr B /\ nc A = nc B /\ rref A = rref B).
Proof.
  intros HA HB. split.
  - intros Heq. pose proof Heq as [Hnr [Hnc _]]. split; [assumption|]. split; [assumption|].
    destruct (rref_spec B HB) as [piv [_ [Hwf [Heq' Hrr]]]]. symmetry.
    apply (rref_canonical A (rref B) piv); try assumption. now apply (row_equiv_trans A B).
  - intros [_ [_ E]]. apply (row_equiv_trans A (rref A)); [now apply row_equiv_rref|].
    rewrite E. apply row_equiv_sym. now apply row_equiv_rref.
Qed.

Corollary rank_row_equiv A B : wf A -> wf B -> row_equiv A B -> rank A = rank B.
Proof.
  intros HA HB Heq. apply (has_rank_unique B); [|now apply rank_correct].
  apply (has_rank_row_equiv A B); [assumption..|now apply rank_correct].
Qed.

(** * [startcol > 0] (used by nobody important; only the cheap facts)
    Shape and well-formedness are preserved for every [startcol]; nothing happens when
    [startcol >= ncols].  For [0 < startcol < ncols] the first pivot row is row [startcol] and the
    row additions are masked to the columns >= the pivot column (mzd_row_add_offset) although the
    rows need not vanish before it, so the row space of the WHOLE matrix is in general not
    preserved ([gauss_startcol_changes_rowspace]): the specification of that mode speaks about the
    column window [startcol, ncols) only and is not needed for C02. *)
Lemma gauss_step_wf full M s c : wf M ->
  wf (fst (gauss_step full (M, s) c)) /\ nr (fst (gauss_step full (M, s) c)) = nr M /\
  nc (fst (gauss_step full (M, s) c)) = nc M.
Proof.
  intros HM. unfold gauss_step. destruct (find_row_from (rows M) 0 s c) as [j|]; cbn [fst].
  - split; [now apply wf_eliminate, wf_row_swap|]. split; reflexivity.
  - now split.
Qed.

Lemma gauss_fold_wf full cols : forall M s, wf M ->
  wf (fst (fold_left (gauss_step full) cols (M, s))) /\
  nr (fst (fold_left (gauss_step full) cols (M, s))) = nr M /\
  nc (fst (fold_left (gauss_step full) cols (M, s))) = nc M.
Proof.
  induction cols as [|c cols IH]; intros M s HM; cbn [fold_left]; [now split|].
  destruct (gauss_step_wf full M s c HM) as [H1 [H2 H3]].
  destruct (gauss_step full (M, s) c) as [M1 s1]. cbn [fst] in *.
  destruct (IH M1 s1 H1) as [H4 [H5 H6]]. split; [assumption|]. split; congruence.
Qed.

Lemma gauss_startcol_wf full startcol A : wf A ->
  wf (snd (gauss_delayed full startcol A)) /\
  nr (snd (gauss_delayed full startcol A)) = nr A /\ nc (snd (gauss_delayed full startcol A)) = nc A.
Proof.
  intros HA. unfold gauss_delayed.
  pose proof (gauss_fold_wf full (seq startcol (nc A - startcol)) A startcol HA) as H.
  destruct (fold_left (gauss_step full) (seq startcol (nc A - startcol)) (A, startcol)) as [M sr].
  exact H.
Qed.

Lemma gauss_startcol_ge full startcol A : nc A <= startcol -> gauss_delayed full startcol A = (0, A).
Proof.
  intros H. unfold gauss_delayed. replace (nc A - startcol) with 0 by lia. cbn [seq fold_left].
  now rewrite Nat.sub_diag.
Qed.

Lemma gauss_startcol_changes_rowspace :
  exists A, wf A /\ ~ row_equiv A (snd (gauss_delayed false 1 A)).
Proof.
  exists (mk 3 2 [0; 3; 2]%N).
  assert (HA : wf (mk 3 2 [0; 3; 2]%N)) by (apply wfb_spec; vm_compute; reflexivity).
  split; [assumption|]. intros Heq.
  apply rank_row_equiv in Heq; [vm_compute in Heq; discriminate|assumption|].
  apply wfb_spec. vm_compute. reflexivity.
Qed.
