(* Alg/PLELemmas.v — entry-level (get) characterisations of the elementary operations of Lin/Ops.v
   used by the PLE/PLUQ models, index maps of LAPACK swap sequences, the pivot search, and the
   reflection lemmas for the boolean checkers.  Everything here is generic (no PLE specifics). *)
From Coq Require Import List NArith Arith Lia Bool Sorted.
From M4 Require Import Base.Bits Lin.Mat Lin.MatAlg Lin.Ops Lin.Spec.
Import ListNotations.
Local Open Scope nat_scope.

(** destruct every boolean comparison on nat in the goal (innermost first) *)
Ltac no_cmp a :=
  lazymatch a with
  | context [Nat.eqb] => fail
  | context [Nat.ltb] => fail
  | context [Nat.leb] => fail
  | _ => idtac
  end.
Ltac bdestr1 :=
  match goal with
  | |- context [Nat.ltb ?a ?b] => no_cmp a; no_cmp b; destruct (Nat.ltb_spec a b)
  | |- context [Nat.leb ?a ?b] => no_cmp a; no_cmp b; destruct (Nat.leb_spec a b)
  | |- context [Nat.eqb ?a ?b] => no_cmp a; no_cmp b; destruct (Nat.eqb_spec a b)
  end.
Ltac bdestr := repeat (bdestr1; cbv iota).
Ltac bsolve := bdestr; cbn [andb orb negb xorb]; subst; try reflexivity; try lia; try congruence.

(** * lists *)
Lemma upd_length {A} i (x : A) l : length (upd i x l) = length l.
Proof. revert i; induction l as [|h t IH]; intros [|i]; cbn; auto. Qed.

Lemma nth_upd {A} i (x : A) l k d :
  nth k (upd i x l) d = if (k =? i) && (i <? length l) then x else nth k l d.
Proof.
  revert i k; induction l as [|h t IH]; intros i k.
  - cbn [upd length]. destruct i; bsolve.
  - destruct i as [|i], k as [|k]; cbn [upd nth length]; try rewrite IH; bsolve.
Qed.

Lemma nth_upd_same {A} i (x : A) l d : i < length l -> nth i (upd i x l) d = x.
Proof. intros H. rewrite nth_upd. bsolve. Qed.

Lemma nth_upd_other {A} i (x : A) l k d : k <> i -> nth k (upd i x l) d = nth k l d.
Proof. intros H. rewrite nth_upd. bsolve. Qed.

Lemma mapi_from_length {A B} (f : nat -> A -> B) s l : length (mapi_from f s l) = length l.
Proof. revert s; induction l as [|h t IH]; intros s; cbn; auto. Qed.

Lemma nth_mapi_from {A B} (f : nat -> A -> B) s l i d d' :
  i < length l -> nth i (mapi_from f s l) d' = f (s + i) (nth i l d).
Proof.
  revert s i; induction l as [|h t IH]; intros s i Hi; cbn in Hi; [lia|].
  destruct i as [|i]; cbn [mapi_from nth]; [now rewrite Nat.add_0_r|].
  rewrite IH by lia. f_equal. lia.
Qed.

Lemma firstn_map_nth (l : list nat) r : r <= length l ->
  firstn r l = map (fun t => nth t l 0) (seq 0 r).
Proof.
  intros Hr. apply (list_ext_nth 0).
  - rewrite firstn_length, map_length, seq_length. lia.
  - intros i Hi. rewrite firstn_length in Hi.
    rewrite nth_firstn_lt by lia.
    rewrite (nth_map_default _ _ _ 0) by (rewrite seq_length; lia).
    rewrite seq_nth by lia. reflexivity.
Qed.

(** * transpositions on indices *)
Definition swapn (a b j : nat) : nat := if j =? a then b else if j =? b then a else j.

Lemma swapn_invol a b j : swapn a b (swapn a b j) = j.
Proof. unfold swapn. bsolve. Qed.
Lemma swapn_same a j : swapn a a j = j.
Proof. unfold swapn. bsolve. Qed.
Lemma swapn_l a b : swapn a b a = b.
Proof. unfold swapn. bsolve. Qed.
Lemma swapn_r a b : swapn a b b = a.
Proof. unfold swapn. bsolve. Qed.
Lemma swapn_other a b j : j <> a -> j <> b -> swapn a b j = j.
Proof. unfold swapn. intros. bsolve. Qed.
Lemma swapn_lt a b j n : a < n -> b < n -> j < n -> swapn a b j < n.
Proof. unfold swapn. intros. bsolve. Qed.
Lemma swapn_ge a b j n : n <= a -> n <= b -> n <= j -> n <= swapn a b j.
Proof. unfold swapn. intros. bsolve. Qed.
Lemma swapn_inj a b j j' : swapn a b j = swapn a b j' -> j = j'.
Proof. intros H. rewrite <- (swapn_invol a b j), H. apply swapn_invol. Qed.

(** index map of a swap sequence: entry t of [ts] swaps t with [q t]; [X' = fold (swap t (q t)) ts X]
    satisfies [X'(j) = X(pi q ts j)] *)
Fixpoint pi (q : nat -> nat) (ts : list nat) (j : nat) : nat :=
  match ts with
  | [] => j
  | t :: ts' => swapn t (q t) (pi q ts' j)
  end.
(** its inverse *)
Fixpoint pi_inv (q : nat -> nat) (ts : list nat) (j : nat) : nat :=
  match ts with
  | [] => j
  | t :: ts' => pi_inv q ts' (swapn t (q t) j)
  end.

Lemma pi_app q l1 l2 j : pi q (l1 ++ l2) j = pi q l1 (pi q l2 j).
Proof. induction l1 as [|t l1 IH]; cbn [pi app]; [reflexivity|]. now rewrite IH. Qed.
Lemma pi_inv_app q l1 l2 j : pi_inv q (l1 ++ l2) j = pi_inv q l2 (pi_inv q l1 j).
Proof. revert j; induction l1 as [|t l1 IH]; intros j; cbn [pi_inv app]; [reflexivity|]. now rewrite IH. Qed.
Lemma pi_pi_inv q ts j : pi q ts (pi_inv q ts j) = j.
Proof.
  revert j; induction ts as [|t ts IH]; intros j; cbn [pi pi_inv]; [reflexivity|].
  rewrite IH. apply swapn_invol.
Qed.
Lemma pi_inv_pi q ts j : pi_inv q ts (pi q ts j) = j.
Proof.
  revert j; induction ts as [|t ts IH]; intros j; cbn [pi pi_inv]; [reflexivity|].
  rewrite swapn_invol. apply IH.
Qed.
Lemma pi_inj q ts j j' : pi q ts j = pi q ts j' -> j = j'.
Proof. intros H. rewrite <- (pi_inv_pi q ts j), H. apply pi_inv_pi. Qed.

Lemma pi_ext q q' ts j : (forall t, In t ts -> q t = q' t) -> pi q ts j = pi q' ts j.
Proof.
  induction ts as [|t ts IH]; intros H; cbn [pi]; [reflexivity|].
  rewrite IH by (intros; apply H; now right). rewrite (H t) by now left. reflexivity.
Qed.
Lemma pi_inv_ext q q' ts j : (forall t, In t ts -> q t = q' t) -> pi_inv q ts j = pi_inv q' ts j.
Proof.
  revert j; induction ts as [|t ts IH]; intros j H; cbn [pi_inv]; [reflexivity|].
  rewrite (H t) by now left. apply IH. intros; apply H; now right.
Qed.

Lemma pi_lt q ts n j : (forall t, In t ts -> t < n /\ q t < n) -> j < n -> pi q ts j < n.
Proof.
  induction ts as [|t ts IH]; intros H Hj; cbn [pi]; [assumption|].
  destruct (H t) as [Ht Hq]; [now left|]. apply swapn_lt; auto. apply IH; auto. intros; apply H; now right.
Qed.
Lemma pi_inv_lt q ts n j : (forall t, In t ts -> t < n /\ q t < n) -> j < n -> pi_inv q ts j < n.
Proof.
  revert j; induction ts as [|t ts IH]; intros j H Hj; cbn [pi_inv]; [assumption|].
  destruct (H t) as [Ht Hq]; [now left|]. apply IH; [intros; apply H; now right|]. apply swapn_lt; auto.
Qed.
(** an index no swap touches stays *)
Lemma pi_fix q ts j : (forall t, In t ts -> j <> t /\ j <> q t) -> pi q ts j = j.
Proof.
  induction ts as [|t ts IH]; intros H; cbn [pi]; [reflexivity|].
  rewrite IH by (intros; apply H; now right). destruct (H t); [now left|]. now apply swapn_other.
Qed.
Lemma pi_id q ts j : (forall t, In t ts -> q t = t) -> pi q ts j = j.
Proof.
  induction ts as [|t ts IH]; intros H; cbn [pi]; [reflexivity|].
  rewrite IH by (intros; apply H; now right). rewrite H by now left. apply swapn_same.
Qed.

(** with t <= q t and q strictly increasing on [0,k): position t receives column q t *)
Lemma pi_seq_pivot q k t : t < k ->
  (forall s, s < k -> s <= q s) -> (forall s s', s < s' -> s' < k -> q s < q s') ->
  pi q (seq 0 k) t = q t.
Proof.
  intros Ht Hge Hinc.
  replace (seq 0 k) with (seq 0 t ++ [t] ++ seq (S t) (k - S t)).
  2:{ change ([t] ++ seq (S t) (k - S t)) with (seq t (S (k - S t))).
      rewrite <- seq_app. f_equal. lia. }
  rewrite !pi_app.
  rewrite (pi_fix q (seq (S t) (k - S t)) t).
  2:{ intros s Hs. apply in_seq in Hs. pose proof (Hge s ltac:(lia)). lia. }
  cbn [pi]. rewrite swapn_l.
  apply pi_fix. intros s Hs. apply in_seq in Hs.
  pose proof (Hinc s t ltac:(lia) Ht). pose proof (Hge s ltac:(lia)). pose proof (Hge t Ht). lia.
Qed.

(** * set_row / row_swap *)
Lemma row_set_row M i r k :
  row (set_row M i r) k = if (k =? i) && (i <? length (rows M)) then r else row M k.
Proof. unfold row, set_row. cbn [rows]. apply nth_upd. Qed.

Lemma wf_set_row M i r : wf M -> bounded (nc M) r -> wf (set_row M i r).
Proof.
  intros HM Hr. pose proof (wf_len M HM) as Hl.
  apply wf_mk; [now rewrite upd_length|]. intros k Hk.
  change (nth k (upd i r (rows M)) 0%N) with (row (set_row M i r) k).
  rewrite row_set_row. destruct ((k =? i) && (i <? length (rows M))); [assumption|now apply wf_row_bounded].
Qed.

Lemma row_row_swap M a b k : a < length (rows M) -> b < length (rows M) ->
  row (row_swap M a b) k = row M (swapn a b k).
Proof.
  intros Ha Hb. unfold row_swap. rewrite !row_set_row. cbn [set_row rows]. rewrite upd_length.
  unfold swapn. bsolve.
Qed.

Lemma get_row_swap M a b i j : a < length (rows M) -> b < length (rows M) ->
  get (row_swap M a b) i j = get M (swapn a b i) j.
Proof. intros Ha Hb. unfold get. now rewrite row_row_swap. Qed.

Lemma wf_row_swap M a b : wf M -> wf (row_swap M a b).
Proof.
  intros HM. unfold row_swap. apply wf_set_row; [apply wf_set_row; auto|]; cbn [nc set_row];
  now apply wf_row_bounded.
Qed.

Lemma row_swap_same M a : wf M -> row_swap M a a = M.
Proof.
  intros HM. pose proof (wf_len M HM) as Hl.
  destruct M as [m n rs]. unfold row_swap, set_row, row. cbn [nr nc rows] in *. f_equal.
  apply (list_ext_nth 0%N); [now rewrite !upd_length|]. intros k Hk.
  rewrite !nth_upd, !upd_length. bsolve.
Qed.

Lemma nr_row_swap M a b : nr (row_swap M a b) = nr M. Proof. reflexivity. Qed.
Lemma nc_row_swap M a b : nc (row_swap M a b) = nc M. Proof. reflexivity. Qed.
Lemma len_row_swap M a b : length (rows (row_swap M a b)) = length (rows M).
Proof. unfold row_swap, set_row. cbn [rows]. now rewrite !upd_length. Qed.

(** * map_rows, column swaps *)
Lemma row_map_rows f M i :
  row (map_rows f M) i = if i <? length (rows M) then f i (row M i) else 0%N.
Proof.
  unfold row, map_rows. cbn [rows]. destruct (Nat.ltb_spec i (length (rows M))).
  - now rewrite (nth_mapi_from _ _ _ _ 0%N).
  - apply nth_overflow. now rewrite mapi_from_length.
Qed.

Lemma wf_map_rows f M : wf M -> (forall i r, bounded (nc M) r -> bounded (nc M) (f i r)) -> wf (map_rows f M).
Proof.
  intros HM Hf. pose proof (wf_len M HM) as Hl.
  apply wf_mk; [now rewrite mapi_from_length|]. intros i Hi.
  change (nth i (mapi_from f 0 (rows M)) 0%N) with (row (map_rows f M) i).
  rewrite row_map_rows. destruct (i <? length (rows M)); [|apply bounded_0].
  apply Hf. now apply wf_row_bounded.
Qed.

Lemma testbit_bit_swap r a b j :
  N.testbit (bit_swap r a b) (N.of_nat j) = N.testbit r (N.of_nat (swapn a b j)).
Proof.
  unfold bit_swap, swapn.
  destruct (Bool.eqb (N.testbit r (N.of_nat a)) (N.testbit r (N.of_nat b))) eqn:E.
  - apply Bool.eqb_prop in E. bdestr; subst; congruence.
  - apply Bool.eqb_false_iff in E.
    rewrite N.lxor_spec, N.lor_spec, !testbit_pow2_nat.
    destruct (N.testbit r (N.of_nat a)) eqn:Ea, (N.testbit r (N.of_nat b)) eqn:Eb; try congruence;
      bdestr; subst; rewrite ?Ea, ?Eb; cbn [orb xorb]; rewrite ?xorb_false_r; try reflexivity; try congruence.
Qed.

Lemma bounded_bit_swap n r a b : a < n -> b < n -> bounded n r -> bounded n (bit_swap r a b).
Proof.
  intros Ha Hb Hr j Hj. rewrite testbit_bit_swap. apply Hr. unfold swapn. bsolve.
Qed.

Lemma get_col_swap_in_rows M a b r0 r1 i j :
  get (col_swap_in_rows M a b r0 r1) i j =
  if (r0 <=? i) && (i <? r1) then get M i (swapn a b j) else get M i j.
Proof.
  unfold col_swap_in_rows. destruct (Nat.eqb_spec a b) as [->|Hne].
  - rewrite swapn_same. now destruct ((r0 <=? i) && (i <? r1)).
  - unfold get. rewrite row_map_rows.
    destruct (Nat.ltb_spec i (length (rows M))) as [Hi|Hi].
    + destruct ((r0 <=? i) && (i <? r1)); [apply testbit_bit_swap|reflexivity].
    + unfold row. rewrite nth_overflow by assumption. rewrite !N.bits_0. now destruct ((r0 <=? i) && (i <? r1)).
Qed.

Lemma wf_col_swap_in_rows M a b r0 r1 : wf M -> a < nc M -> b < nc M -> wf (col_swap_in_rows M a b r0 r1).
Proof.
  intros HM Ha Hb. unfold col_swap_in_rows. destruct (a =? b); [assumption|].
  apply wf_map_rows; [assumption|]. intros i r Hr.
  destruct ((r0 <=? i) && (i <? r1)); [now apply bounded_bit_swap|assumption].
Qed.

Lemma nr_col_swap_in_rows M a b r0 r1 : nr (col_swap_in_rows M a b r0 r1) = nr M.
Proof. unfold col_swap_in_rows. now destruct (a =? b). Qed.
Lemma nc_col_swap_in_rows M a b r0 r1 : nc (col_swap_in_rows M a b r0 r1) = nc M.
Proof. unfold col_swap_in_rows. now destruct (a =? b). Qed.

Lemma get_col_swap M a b i j : wf M -> get (col_swap M a b) i j = get M i (swapn a b j).
Proof.
  intros HM. unfold col_swap. rewrite get_col_swap_in_rows.
  destruct (Nat.ltb_spec i (nr M)); bsolve.
  rewrite !get_out_row by (auto; lia). reflexivity.
Qed.
Lemma wf_col_swap M a b : wf M -> a < nc M -> b < nc M -> wf (col_swap M a b).
Proof. apply wf_col_swap_in_rows. Qed.
Lemma nr_col_swap M a b : nr (col_swap M a b) = nr M. Proof. apply nr_col_swap_in_rows. Qed.
Lemma nc_col_swap M a b : nc (col_swap M a b) = nc M. Proof. apply nc_col_swap_in_rows. Qed.

(** * row_add_offset *)
Lemma testbit_colmask c0 c1 j : N.testbit (colmask c0 c1) (N.of_nat j) = (c0 <=? j) && (j <? c1).
Proof.
  unfold colmask. rewrite testbit_shiftl_nat, testbit_ones_nat. bsolve.
Qed.

Lemma get_row_add_offset M d s c0 i j : wf M -> d < nr M ->
  get (row_add_offset M d s c0) i j =
  if (i =? d) && (c0 <=? j) then xorb (get M d j) (get M s j) else get M i j.
Proof.
  intros HM Hd. pose proof (wf_len M HM) as Hl.
  unfold row_add_offset, get. rewrite row_set_row.
  destruct (Nat.eqb_spec i d) as [->|Hne]; cbn [andb]; [|reflexivity].
  destruct (Nat.ltb_spec d (length (rows M))); [|lia].
  rewrite N.lxor_spec, N.land_spec, testbit_colmask.
  destruct (Nat.leb_spec c0 j); cbn [andb]; [|now rewrite andb_false_r, xorb_false_r].
  destruct (Nat.ltb_spec j (nc M)); [now rewrite andb_true_r|].
  rewrite andb_false_r, xorb_false_r.
  change (N.testbit (row M s) (N.of_nat j)) with (get M s j).
  rewrite (get_out_col M s j) by assumption. now rewrite xorb_false_r.
Qed.

Lemma wf_row_add_offset M d s c0 : wf M -> wf (row_add_offset M d s c0).
Proof.
  intros HM. unfold row_add_offset. apply wf_set_row; [assumption|].
  apply bounded_lxor; [now apply wf_row_bounded|]. apply bounded_land_l. now apply wf_row_bounded.
Qed.
Lemma nr_row_add_offset M d s c0 : nr (row_add_offset M d s c0) = nr M. Proof. reflexivity. Qed.
Lemma nc_row_add_offset M d s c0 : nc (row_add_offset M d s c0) = nc M. Proof. reflexivity. Qed.
