(* Alg/PLELemmas.v — entry-level (get) characterisations of the elementary operations of Lin/Ops.v
   used by the PLE/PLUQ models, index maps of LAPACK swap sequences, the pivot search, and the
   reflection lemmas for the boolean checkers.  Everything here is generic (no PLE specifics). *)
From Coq Require Import List NArith Arith Lia Bool Sorted.
From M4 Require Import Base.Bits Lin.Mat Lin.MatAlg Lin.Ops Lin.Spec Alg.PLE.
Import ListNotations.
Local Open Scope nat_scope.

(** destruct every boolean comparison on nat in the goal (innermost first) *)
Ltac no_cmp a :=
  lazymatch a with
  | context [Nat.eqb] => fail
  | context [Nat.ltb] => fail
  | context [Nat.leb] => fail
  | _ => idtac
  end.
Ltac bdestr1 :=
  match goal with
  | |- context [Nat.ltb ?a ?b] => no_cmp a; no_cmp b; destruct (Nat.ltb_spec a b)
  | |- context [Nat.leb ?a ?b] => no_cmp a; no_cmp b; destruct (Nat.leb_spec a b)
  | |- context [Nat.eqb ?a ?b] => no_cmp a; no_cmp b; destruct (Nat.eqb_spec a b)
  end.
Ltac bdestr := repeat (bdestr1; cbv iota).
Ltac bsolve := bdestr; cbn [andb orb negb xorb]; subst; try reflexivity; try lia; try congruence.

(** * lists *)
Lemma upd_length {A} i (x : A) l : length (upd i x l) = length l.
Proof. revert i; induction l as [|h t IH]; intros [|i]; cbn; auto. Qed.

Lemma nth_upd {A} i (x : A) l k d :
  nth k (upd i x l) d = if (k =? i) && (i <? length l) then x else nth k l d.
Proof.
  revert i k; induction l as [|h t IH]; intros i k.
  - cbn [upd length]. destruct i; bsolve.
  - destruct i as [|i], k as [|k]; cbn [upd nth length]; try rewrite IH; bsolve.
Qed.

Lemma nth_upd_same {A} i (x : A) l d : i < length l -> nth i (upd i x l) d = x.
Proof. intros H. rewrite nth_upd. bsolve. Qed.

Lemma nth_upd_other {A} i (x : A) l k d : k <> i -> nth k (upd i x l) d = nth k l d.
Proof. intros H. rewrite nth_upd. bsolve. Qed.

Lemma mapi_from_length {A B} (f : nat -> A -> B) s l : length (mapi_from f s l) = length l.
Proof. revert s; induction l as [|h t IH]; intros s; cbn; auto. Qed.

Lemma nth_mapi_from {A B} (f : nat -> A -> B) s l i d d' :
  i < length l -> nth i (mapi_from f s l) d' = f (s + i) (nth i l d).
Proof.
  revert s i; induction l as [|h t IH]; intros s i Hi; cbn in Hi; [lia|].
  destruct i as [|i]; cbn [mapi_from nth]; [now rewrite Nat.add_0_r|].
  rewrite IH by lia. f_equal. lia.
Qed.

Lemma firstn_map_nth (l : list nat) r : r <= length l ->
  firstn r l = map (fun t => nth t l 0) (seq 0 r).
Proof.
  intros Hr. apply (list_ext_nth 0).
  - rewrite firstn_length, map_length, seq_length. lia.
  - intros i Hi. rewrite firstn_length in Hi.
    rewrite nth_firstn_lt by lia.
    rewrite (nth_map_default _ _ _ 0) by (rewrite seq_length; lia).
    rewrite seq_nth by lia. reflexivity.
Qed.

(** * transpositions on indices *)
Definition swapn (a b j : nat) : nat := if j =? a then b else if j =? b then a else j.

Lemma swapn_invol a b j : swapn a b (swapn a b j) = j.
Proof. unfold swapn. bsolve. Qed.
Lemma swapn_same a j : swapn a a j = j.
Proof. unfold swapn. bsolve. Qed.
Lemma swapn_l a b : swapn a b a = b.
Proof. unfold swapn. bsolve. Qed.
Lemma swapn_r a b : swapn a b b = a.
Proof. unfold swapn. bsolve. Qed.
Lemma swapn_other a b j : j <> a -> j <> b -> swapn a b j = j.
Proof. unfold swapn. intros. bsolve. Qed.
Lemma swapn_lt a b j n : a < n -> b < n -> j < n -> swapn a b j < n.
Proof. unfold swapn. intros. bsolve. Qed.
Lemma swapn_ge a b j n : n <= a -> n <= b -> n <= j -> n <= swapn a b j.
Proof. unfold swapn. intros. bsolve. Qed.
Lemma swapn_inj a b j j' : swapn a b j = swapn a b j' -> j = j'.
Proof. intros H. rewrite <- (swapn_invol a b j), H. apply swapn_invol. Qed.

(** index map of a swap sequence: entry t of [ts] swaps t with [q t]; [X' = fold (swap t (q t)) ts X]
    satisfies [X'(j) = X(pi q ts j)] *)
Fixpoint pi (q : nat -> nat) (ts : list nat) (j : nat) : nat :=
  match ts with
  | [] => j
  | t :: ts' => swapn t (q t) (pi q ts' j)
  end.
(** its inverse *)
Fixpoint pi_inv (q : nat -> nat) (ts : list nat) (j : nat) : nat :=
  match ts with
  | [] => j
  | t :: ts' => pi_inv q ts' (swapn t (q t) j)
  end.

Lemma pi_app q l1 l2 j : pi q (l1 ++ l2) j = pi q l1 (pi q l2 j).
Proof. induction l1 as [|t l1 IH]; cbn [pi app]; [reflexivity|]. now rewrite IH. Qed.
Lemma pi_inv_app q l1 l2 j : pi_inv q (l1 ++ l2) j = pi_inv q l2 (pi_inv q l1 j).
Proof. revert j; induction l1 as [|t l1 IH]; intros j; cbn [pi_inv app]; [reflexivity|]. now rewrite IH. Qed.
Lemma pi_pi_inv q ts j : pi q ts (pi_inv q ts j) = j.
Proof.
  revert j; induction ts as [|t ts IH]; intros j; cbn [pi pi_inv]; [reflexivity|].
  rewrite IH. apply swapn_invol.
Qed.
Lemma pi_inv_pi q ts j : pi_inv q ts (pi q ts j) = j.
Proof.
  revert j; induction ts as [|t ts IH]; intros j; cbn [pi pi_inv]; [reflexivity|].
  rewrite swapn_invol. apply IH.
Qed.
Lemma pi_inj q ts j j' : pi q ts j = pi q ts j' -> j = j'.
Proof. intros H. rewrite <- (pi_inv_pi q ts j), H. apply pi_inv_pi. Qed.

Lemma pi_ext q q' ts j : (forall t, In t ts -> q t = q' t) -> pi q ts j = pi q' ts j.
Proof.
  induction ts as [|t ts IH]; intros H; cbn [pi]; [reflexivity|].
  rewrite IH by (intros; apply H; now right). rewrite (H t) by now left. reflexivity.
Qed.
Lemma pi_inv_ext q q' ts j : (forall t, In t ts -> q t = q' t) -> pi_inv q ts j = pi_inv q' ts j.
Proof.
  revert j; induction ts as [|t ts IH]; intros j H; cbn [pi_inv]; [reflexivity|].
  rewrite (H t) by now left. apply IH. intros; apply H; now right.
Qed.

Lemma pi_lt q ts n j : (forall t, In t ts -> t < n /\ q t < n) -> j < n -> pi q ts j < n.
Proof.
  induction ts as [|t ts IH]; intros H Hj; cbn [pi]; [assumption|].
  destruct (H t) as [Ht Hq]; [now left|]. apply swapn_lt; auto. apply IH; auto. intros; apply H; now right.
Qed.
Lemma pi_inv_lt q ts n j : (forall t, In t ts -> t < n /\ q t < n) -> j < n -> pi_inv q ts j < n.
Proof.
  revert j; induction ts as [|t ts IH]; intros j H Hj; cbn [pi_inv]; [assumption|].
  destruct (H t) as [Ht Hq]; [now left|]. apply IH; [intros; apply H; now right|]. apply swapn_lt; auto.
Qed.
(** an index no swap touches stays *)
Lemma pi_fix q ts j : (forall t, In t ts -> j <> t /\ j <> q t) -> pi q ts j = j.
Proof.
  induction ts as [|t ts IH]; intros H; cbn [pi]; [reflexivity|].
  rewrite IH by (intros; apply H; now right). destruct (H t); [now left|]. now apply swapn_other.
Qed.
Lemma pi_id q ts j : (forall t, In t ts -> q t = t) -> pi q ts j = j.
Proof.
  induction ts as [|t ts IH]; intros H; cbn [pi]; [reflexivity|].
  rewrite IH by (intros; apply H; now right). rewrite H by now left. apply swapn_same.
Qed.

(** with t <= q t and q strictly increasing on [0,k): position t receives column q t *)
Lemma pi_seq_pivot q k t : t < k ->
  (forall s, s < k -> s <= q s) -> (forall s s', s < s' -> s' < k -> q s < q s') ->
  pi q (seq 0 k) t = q t.
Proof.
  intros Ht Hge Hinc.
  replace (seq 0 k) with (seq 0 t ++ [t] ++ seq (S t) (k - S t)).
  2:{ change ([t] ++ seq (S t) (k - S t)) with (seq t (S (k - S t))).
      rewrite <- seq_app. f_equal. lia. }
  rewrite !pi_app.
  rewrite (pi_fix q (seq (S t) (k - S t)) t).
  2:{ intros s Hs. apply in_seq in Hs. pose proof (Hge s ltac:(lia)). lia. }
  cbn [pi]. rewrite swapn_l.
  apply pi_fix. intros s Hs. apply in_seq in Hs.
  pose proof (Hinc s t ltac:(lia) Ht). pose proof (Hge s ltac:(lia)). pose proof (Hge t Ht). lia.
Qed.

(** * set_row / row_swap *)
Lemma row_set_row M i r k :
  row (set_row M i r) k = if (k =? i) && (i <? length (rows M)) then r else row M k.
Proof. unfold row, set_row. cbn [rows]. apply nth_upd. Qed.

Lemma wf_set_row M i r : wf M -> bounded (nc M) r -> wf (set_row M i r).
Proof.
  intros HM Hr. pose proof (wf_len M HM) as Hl.
  apply wf_mk; [now rewrite upd_length|]. intros k Hk.
  change (nth k (upd i r (rows M)) 0%N) with (row (set_row M i r) k).
  rewrite row_set_row. destruct ((k =? i) && (i <? length (rows M))); [assumption|now apply wf_row_bounded].
Qed.

Lemma row_row_swap M a b k : a < length (rows M) -> b < length (rows M) ->
  row (row_swap M a b) k = row M (swapn a b k).
Proof.
  intros Ha Hb. unfold row_swap. rewrite !row_set_row. cbn [set_row rows]. rewrite upd_length.
  unfold swapn. bsolve.
Qed.

Lemma get_row_swap M a b i j : a < length (rows M) -> b < length (rows M) ->
  get (row_swap M a b) i j = get M (swapn a b i) j.
Proof. intros Ha Hb. unfold get. now rewrite row_row_swap. Qed.

Lemma wf_row_swap M a b : wf M -> wf (row_swap M a b).
Proof.
  intros HM. unfold row_swap. apply wf_set_row; [apply wf_set_row; auto|]; cbn [nc set_row];
  now apply wf_row_bounded.
Qed.

Lemma row_swap_same M a : wf M -> row_swap M a a = M.
Proof.
  intros HM. pose proof (wf_len M HM) as Hl.
  destruct M as [m n rs]. unfold row_swap, set_row, row. cbn [nr nc rows] in *. f_equal.
  apply (list_ext_nth 0%N); [now rewrite !upd_length|]. intros k Hk.
  rewrite !nth_upd, !upd_length. bsolve.
Qed.

Lemma nr_row_swap M a b : nr (row_swap M a b) = nr M. Proof. reflexivity. Qed.
Lemma nc_row_swap M a b : nc (row_swap M a b) = nc M. Proof. reflexivity. Qed.
Lemma len_row_swap M a b : length (rows (row_swap M a b)) = length (rows M).
Proof. unfold row_swap, set_row. cbn [rows]. now rewrite !upd_length. Qed.

(** * map_rows, column swaps *)
Lemma row_map_rows f M i :
  row (map_rows f M) i = if i <? length (rows M) then f i (row M i) else 0%N.
Proof.
  unfold row, map_rows. cbn [rows]. destruct (Nat.ltb_spec i (length (rows M))).
  - now rewrite (nth_mapi_from _ _ _ _ 0%N).
  - apply nth_overflow. now rewrite mapi_from_length.
Qed.

Lemma wf_map_rows f M : wf M -> (forall i r, bounded (nc M) r -> bounded (nc M) (f i r)) -> wf (map_rows f M).
Proof.
  intros HM Hf. pose proof (wf_len M HM) as Hl.
  apply wf_mk; [now rewrite mapi_from_length|]. intros i Hi.
  change (nth i (mapi_from f 0 (rows M)) 0%N) with (row (map_rows f M) i).
  rewrite row_map_rows. destruct (i <? length (rows M)); [|apply bounded_0].
  apply Hf. now apply wf_row_bounded.
Qed.

Lemma testbit_bit_swap r a b j :
  N.testbit (bit_swap r a b) (N.of_nat j) = N.testbit r (N.of_nat (swapn a b j)).
Proof.
  unfold bit_swap, swapn.
  destruct (Bool.eqb (N.testbit r (N.of_nat a)) (N.testbit r (N.of_nat b))) eqn:E.
  - apply Bool.eqb_prop in E. bdestr; subst; congruence.
  - apply Bool.eqb_false_iff in E.
    rewrite N.lxor_spec, N.lor_spec, !testbit_pow2_nat.
    destruct (N.testbit r (N.of_nat a)) eqn:Ea, (N.testbit r (N.of_nat b)) eqn:Eb; try congruence;
      bdestr; subst; rewrite ?Ea, ?Eb; cbn [orb xorb]; rewrite ?xorb_false_r; try reflexivity; try congruence.
Qed.

Lemma bounded_bit_swap n r a b : a < n -> b < n -> bounded n r -> bounded n (bit_swap r a b).
Proof.
  intros Ha Hb Hr j Hj. rewrite testbit_bit_swap. apply Hr. unfold swapn. bsolve.
Qed.

Lemma get_col_swap_in_rows M a b r0 r1 i j :
  get (col_swap_in_rows M a b r0 r1) i j =
  if (r0 <=? i) && (i <? r1) then get M i (swapn a b j) else get M i j.
Proof.
  unfold col_swap_in_rows. destruct (Nat.eqb_spec a b) as [->|Hne].
  - rewrite swapn_same. now destruct ((r0 <=? i) && (i <? r1)).
  - unfold get. rewrite row_map_rows.
    destruct (Nat.ltb_spec i (length (rows M))) as [Hi|Hi].
    + destruct ((r0 <=? i) && (i <? r1)); [apply testbit_bit_swap|reflexivity].
    + unfold row. rewrite nth_overflow by assumption. rewrite !N.bits_0. now destruct ((r0 <=? i) && (i <? r1)).
Qed.

Lemma wf_col_swap_in_rows M a b r0 r1 : wf M -> a < nc M -> b < nc M -> wf (col_swap_in_rows M a b r0 r1).
Proof.
  intros HM Ha Hb. unfold col_swap_in_rows. destruct (a =? b); [assumption|].
  apply wf_map_rows; [assumption|]. intros i r Hr.
  destruct ((r0 <=? i) && (i <? r1)); [now apply bounded_bit_swap|assumption].
Qed.

Lemma nr_col_swap_in_rows M a b r0 r1 : nr (col_swap_in_rows M a b r0 r1) = nr M.
Proof. unfold col_swap_in_rows. now destruct (a =? b). Qed.
Lemma nc_col_swap_in_rows M a b r0 r1 : nc (col_swap_in_rows M a b r0 r1) = nc M.
Proof. unfold col_swap_in_rows. now destruct (a =? b). Qed.

Lemma get_col_swap M a b i j : wf M -> get (col_swap M a b) i j = get M i (swapn a b j).
Proof.
  intros HM. unfold col_swap. rewrite get_col_swap_in_rows.
  destruct (Nat.ltb_spec i (nr M)); bsolve.
  rewrite !get_out_row by (auto; lia). reflexivity.
Qed.
Lemma wf_col_swap M a b : wf M -> a < nc M -> b < nc M -> wf (col_swap M a b).
Proof. apply wf_col_swap_in_rows. Qed.
Lemma nr_col_swap M a b : nr (col_swap M a b) = nr M. Proof. apply nr_col_swap_in_rows. Qed.
Lemma nc_col_swap M a b : nc (col_swap M a b) = nc M. Proof. apply nc_col_swap_in_rows. Qed.

(** * row_add_offset *)
Lemma testbit_colmask c0 c1 j : N.testbit (colmask c0 c1) (N.of_nat j) = (c0 <=? j) && (j <? c1).
Proof.
  unfold colmask. rewrite testbit_shiftl_nat, testbit_ones_nat. bsolve.
Qed.

Lemma get_row_add_offset M d s c0 i j : wf M -> d < nr M ->
  get (row_add_offset M d s c0) i j =
  if (i =? d) && (c0 <=? j) then xorb (get M d j) (get M s j) else get M i j.
Proof.
  intros HM Hd. pose proof (wf_len M HM) as Hl.
  unfold row_add_offset, get. rewrite row_set_row.
  destruct (Nat.eqb_spec i d) as [->|Hne]; cbn [andb]; [|reflexivity].
  destruct (Nat.ltb_spec d (length (rows M))); [|lia].
  rewrite N.lxor_spec, N.land_spec, testbit_colmask.
  destruct (Nat.leb_spec c0 j); cbn [andb]; [|now rewrite andb_false_r, xorb_false_r].
  destruct (Nat.ltb_spec j (nc M)); [now rewrite andb_true_r|].
  rewrite andb_false_r, xorb_false_r.
  change (N.testbit (row M s) (N.of_nat j)) with (get M s j).
  rewrite (get_out_col M s j) by assumption. now rewrite xorb_false_r.
Qed.

Lemma wf_row_add_offset M d s c0 : wf M -> wf (row_add_offset M d s c0).
Proof.
  intros HM. unfold row_add_offset. apply wf_set_row; [assumption|].
  apply bounded_lxor; [now apply wf_row_bounded|]. apply bounded_land_l. now apply wf_row_bounded.
Qed.
Lemma nr_row_add_offset M d s c0 : nr (row_add_offset M d s c0) = nr M. Proof. reflexivity. Qed.
Lemma nc_row_add_offset M d s c0 : nc (row_add_offset M d s c0) = nc M. Proof. reflexivity. Qed.

Lemma swapn_comm a b j : swapn a b j = swapn b a j.
Proof. unfold swapn. bsolve. Qed.

(** * folds of swaps *)
Lemma fold_row_swaps p ts X :
  wf X -> (forall t, In t ts -> t < nr X /\ p t < nr X) ->
  let X' := fold_left (fun M t => row_swap M t (p t)) ts X in
  wf X' /\ nr X' = nr X /\ nc X' = nc X /\ forall i j, get X' i j = get X (pi p ts i) j.
Proof.
  cbv zeta. revert X; induction ts as [|t ts IH]; intros X HX Hin; cbn [fold_left pi].
  - (split; [|split; [|split]]); auto.
  - destruct (Hin t) as [Ht Hp]; [now left|].
    destruct (IH (row_swap X t (p t))) as (Hw & Hr & Hc & Hg).
    + now apply wf_row_swap.
    + intros s Hs. rewrite nr_row_swap. apply Hin. now right.
    + (split; [|split; [|split]]); auto. intros i j. rewrite Hg.
      apply get_row_swap; rewrite wf_len; auto.
Qed.

Lemma fold_col_swaps q ts X :
  wf X -> (forall t, In t ts -> t < nc X /\ q t < nc X) ->
  let X' := fold_left (fun M t => col_swap M t (q t)) ts X in
  wf X' /\ nr X' = nr X /\ nc X' = nc X /\ forall i j, get X' i j = get X i (pi q ts j).
Proof.
  cbv zeta. revert X; induction ts as [|t ts IH]; intros X HX Hin; cbn [fold_left pi].
  - (split; [|split; [|split]]); auto.
  - destruct (Hin t) as [Ht Hp]; [now left|].
    destruct (IH (col_swap X t (q t))) as (Hw & Hr & Hc & Hg).
    + now apply wf_col_swap.
    + intros s Hs. rewrite nc_col_swap. apply Hin. now right.
    + rewrite nr_col_swap in Hr. rewrite nc_col_swap in Hc.
      (split; [|split; [|split]]); auto. intros i j. rewrite Hg. now apply get_col_swap.
Qed.

(** a fold of steps each of which acts on row i as the column swap (t, q t) when [cond t] holds *)
Lemma get_fold_swaps (step : mat -> nat -> mat) q (cond : nat -> bool) (Inv : mat -> Prop) i ts X :
  (forall M t, Inv M -> Inv (step M t)) ->
  (forall M t j, Inv M -> get (step M t) i j = if cond t then get M i (swapn t (q t) j) else get M i j) ->
  Inv X ->
  forall j, get (fold_left step ts X) i j = get X i (pi q (filter cond ts) j).
Proof.
  intros Hinv Hstep. revert X; induction ts as [|t ts IH]; intros X HX j; cbn [fold_left filter pi]; [reflexivity|].
  rewrite IH by auto. rewrite Hstep by assumption.
  destruct (cond t); reflexivity.
Qed.

Lemma fold_inv {A B} (step : A -> B -> A) (Inv : A -> Prop) ts X :
  (forall M t, In t ts -> Inv M -> Inv (step M t)) -> Inv X -> Inv (fold_left step ts X).
Proof.
  revert X; induction ts as [|t ts IH]; intros X H HX; cbn [fold_left]; [assumption|].
  apply IH; [intros; apply H; auto; now right|]. apply H; [now left|assumption].
Qed.

Lemma fold_left_ext_in {A B} (f g : A -> B -> A) ts X :
  (forall t M, In t ts -> f M t = g M t) -> fold_left f ts X = fold_left g ts X.
Proof.
  revert X; induction ts as [|t ts IH]; intros X H; cbn [fold_left]; [reflexivity|].
  rewrite H by now left. apply IH. intros; apply H; now right.
Qed.

(** apply_p_left / apply_p_right_trans at entry level, for in-range swap sequences *)
Lemma pval_nth P i : i < length P -> pval P i = nth i P 0.
Proof. intros. unfold pval. now apply nth_indep. Qed.

Lemma get_apply_p_left A P : wf A -> length P = nr A -> lapack P (nr A) ->
  let X := apply_p_left A P in
  wf X /\ nr X = nr A /\ nc X = nc A /\
  forall i j, get X i j = get A (pi (fun t => nth t P 0) (seq 0 (nr A)) i) j.
Proof.
  cbv zeta. intros HA HP Hl. unfold apply_p_left. rewrite HP, Nat.min_id.
  rewrite (fold_left_ext_in (fun M i => row_swap M i (pval P i)) (fun M i => row_swap M i (nth i P 0))).
  - apply (fold_row_swaps (fun t => nth t P 0)); auto. intros t Ht. apply in_seq in Ht. specialize (Hl t). lia.
  - intros t M Ht. apply in_seq in Ht. rewrite pval_nth by lia. reflexivity.
Qed.

Lemma get_apply_p_right_trans A Q : wf A -> length Q = nc A -> lapack Q (nc A) ->
  let X := apply_p_right_trans A Q in
  wf X /\ nr X = nr A /\ nc X = nc A /\
  forall i j, get X i j = get A i (pi (fun t => nth t Q 0) (seq 0 (nc A)) j).
Proof.
  cbv zeta. intros HA HQ Hl. unfold apply_p_right_trans. rewrite HQ, Nat.min_id.
  rewrite (fold_left_ext_in (fun M i => col_swap M i (pval Q i)) (fun M i => col_swap M i (nth i Q 0))).
  - apply (fold_col_swaps (fun t => nth t Q 0)); auto. intros t Ht. apply in_seq in Ht. specialize (Hl t). lia.
  - intros t M Ht. apply in_seq in Ht. rewrite pval_nth by lia. reflexivity.
Qed.

(** * lowbit and the pivot search *)
Lemma ctz_pos_spec p :
  N.testbit (Npos p) (N.of_nat (ctz_pos p)) = true /\
  forall k, k < ctz_pos p -> N.testbit (Npos p) (N.of_nat k) = false.
Proof.
  induction p as [p IH|p IH|]; cbn [ctz_pos].
  - split; [reflexivity|intros; lia].
  - destruct IH as [IH1 IH2]. split.
    + rewrite Nat2N.inj_succ. change (N.pos p~0) with (N.double (N.pos p)).
      now rewrite N.double_bits_succ.
    + intros [|k] Hk; [reflexivity|].
      rewrite Nat2N.inj_succ. change (N.pos p~0) with (N.double (N.pos p)).
      rewrite N.double_bits_succ. apply IH2. lia.
  - split; [reflexivity|intros; lia].
Qed.

Lemma lowbit_none r : lowbit r = None -> r = 0%N.
Proof. destruct r; [reflexivity|discriminate]. Qed.

Lemma lowbit_some r l : lowbit r = Some l ->
  N.testbit r (N.of_nat l) = true /\ forall k, k < l -> N.testbit r (N.of_nat k) = false.
Proof.
  destruct r as [|p]; [discriminate|]. cbn [lowbit]. intros H. injection H as <-. apply ctz_pos_spec.
Qed.

Definition fp_inv (g : nat -> nat -> bool) (r0 c0 i : nat) (best : option (nat * nat)) : Prop :=
  match best with
  | None => forall i' j, r0 <= i' < i -> c0 <= j -> g i' j = false
  | Some (ib, jb) => r0 <= ib < i /\ c0 <= jb /\ g ib jb = true /\
       (forall i' j, r0 <= i' < i -> c0 <= j < jb -> g i' j = false) /\
       (forall i', r0 <= i' < ib -> g i' jb = false)
  end.

Lemma find_pivot_aux_inv g rs : forall i r0 c0 best,
  (forall k j, k < length rs -> g (i + k) j = N.testbit (nth k rs 0%N) (N.of_nat j)) ->
  fp_inv g r0 c0 i best -> fp_inv g r0 c0 (i + length rs) (find_pivot_aux rs i r0 c0 best).
Proof.
  induction rs as [|r t IH]; intros i r0 c0 best Hg Hinv; cbn [find_pivot_aux length].
  - now rewrite Nat.add_0_r.
  - replace (i + S (length t)) with (S i + length t) by lia. apply IH.
    + intros k j Hk. replace (S i + k) with (i + S k) by lia. rewrite Hg by (cbn; lia). reflexivity.
    + assert (Hrow : forall j, g i j = N.testbit r (N.of_nat j)).
      { intros j. specialize (Hg 0 j). rewrite Nat.add_0_r in Hg. apply Hg. cbn; lia. }
      destruct (Nat.ltb_spec i r0) as [Hlt|Hge].
      { (* row above the region *)
        destruct best as [[ib jb]|]; cbn [fp_inv] in *.
        - destruct Hinv as (H1 & H2 & H3 & H4 & H5). exfalso; lia.
        - intros i' j Hi' Hj. exfalso; lia. }
      destruct (lowbit (N.shiftr r (N.of_nat c0))) as [l|] eqn:El.
      * apply lowbit_some in El. destruct El as [El1 El2].
        rewrite testbit_shiftr_nat in El1.
        assert (Hz : forall j, c0 <= j < c0 + l -> g i j = false).
        { intros j Hj. rewrite Hrow. specialize (El2 (j - c0) ltac:(lia)).
          rewrite testbit_shiftr_nat in El2. now replace (j - c0 + c0) with j in El2 by lia. }
        rewrite (Nat.add_comm l c0) in El1.
        destruct best as [[ib jb]|]; cbn [fp_inv] in *.
        -- destruct Hinv as (H1 & H2 & H3 & H4 & H5).
           destruct (Nat.ltb_spec (c0 + l) jb) as [Hlt|Hge'].
           ++ cbn [fp_inv]. repeat split; try lia.
              ** now rewrite Hrow.
              ** intros i' j Hi' Hj. destruct (Nat.eq_dec i' i) as [->|Hne]; [apply Hz; lia|apply H4; lia].
              ** intros i' Hi'. apply H4; lia.
           ++ cbn [fp_inv]. repeat split; try lia; auto.
              intros i' j Hi' Hj. destruct (Nat.eq_dec i' i) as [->|Hne]; [apply Hz; lia|apply H4; lia].
        -- repeat split; try lia.
           ++ now rewrite Hrow.
           ++ intros i' j Hi' Hj. destruct (Nat.eq_dec i' i) as [->|Hne]; [apply Hz; lia|apply Hinv; lia].
           ++ intros i' Hi'. apply Hinv; lia.
      * apply lowbit_none in El.
        assert (Hz : forall j, c0 <= j -> g i j = false).
        { intros j Hj. rewrite Hrow. replace j with (j - c0 + c0) by lia.
          rewrite <- testbit_shiftr_nat, El. apply N.bits_0. }
        destruct best as [[ib jb]|]; cbn [fp_inv] in *.
        -- destruct Hinv as (H1 & H2 & H3 & H4 & H5). repeat split; try lia; auto.
           intros i' j Hi' Hj. destruct (Nat.eq_dec i' i) as [->|Hne]; [apply Hz; lia|apply H4; lia].
        -- intros i' j Hi' Hj. destruct (Nat.eq_dec i' i) as [->|Hne]; [apply Hz; lia|apply Hinv; lia].
Qed.

Lemma find_pivot_none A r0 c0 : wf A -> find_pivot A r0 c0 = None ->
  forall i j, r0 <= i -> c0 <= j -> get A i j = false.
Proof.
  intros HA H i j Hi Hj. pose proof (wf_len A HA) as Hl.
  destruct (Nat.lt_ge_cases i (nr A)) as [Hlt|Hge]; [|now apply get_out_row].
  pose proof (find_pivot_aux_inv (get A) (rows A) 0 r0 c0 None) as Hinv.
  unfold find_pivot in H. rewrite H in Hinv. cbn [fp_inv] in Hinv.
  apply Hinv; try lia; try (intros; reflexivity); intros; lia.
Qed.

Lemma find_pivot_some A r0 c0 ib jb : wf A -> find_pivot A r0 c0 = Some (ib, jb) ->
  r0 <= ib < nr A /\ c0 <= jb < nc A /\ get A ib jb = true /\
  (forall i j, r0 <= i -> c0 <= j < jb -> get A i j = false) /\
  (forall i, r0 <= i < ib -> get A i jb = false).
Proof.
  intros HA H. pose proof (wf_len A HA) as Hl.
  pose proof (find_pivot_aux_inv (get A) (rows A) 0 r0 c0 None) as Hinv.
  unfold find_pivot in H. rewrite H in Hinv. cbn [fp_inv] in Hinv.
  destruct Hinv as (H1 & H2 & H3 & H4 & H5); [intros; reflexivity|intros; lia|].
  destruct (get_in A ib jb HA H3) as [Hi Hj].
  repeat split; try lia; auto.
  intros i j Hi' Hj'. destruct (Nat.lt_ge_cases i (nr A)); [apply H4; lia|now apply get_out_row].
Qed.

(** * fill_id *)
Lemma fill_id_length r l : length (fill_id r l) = length l.
Proof. apply mapi_from_length. Qed.
Lemma nth_fill_id r l i : i < length l -> nth i (fill_id r l) 0 = if r <=? i then i else nth i l 0.
Proof. intros Hi. unfold fill_id. rewrite (nth_mapi_from _ _ _ _ 0) by assumption. reflexivity. Qed.

(** * the triangular factors at entry level *)
Lemma get_unit_lower_rect m r L i t :
  get (unit_lower_rect m r L) i t =
  (i <? m) && (if i <? r then (i =? t) || ((t <? i) && get L i t) else (t <? r) && get L i t).
Proof.
  unfold get at 1, row, unit_lower_rect. cbn [rows].
  destruct (Nat.ltb_spec i m) as [Hi|Hi]; cbn [andb].
  - rewrite (nth_map_default _ _ _ 0) by now rewrite seq_length. rewrite seq_nth by assumption. cbn [Nat.add].
    destruct (Nat.ltb_spec i r).
    + rewrite N.lor_spec, N.land_spec, testbit_pow2_nat, testbit_ones_nat. unfold get. now rewrite andb_comm.
    + rewrite N.land_spec, testbit_ones_nat. unfold get. apply andb_comm.
  - rewrite nth_overflow; [apply N.bits_0|]. now rewrite map_length, seq_length.
Qed.

Lemma wf_unit_lower_rect m r L : wf (unit_lower_rect m r L).
Proof.
  apply wf_mk; [now rewrite map_length, seq_length|]. intros i Hi.
  rewrite (nth_map_default _ _ _ 0) by now rewrite seq_length. rewrite seq_nth by assumption. cbn [Nat.add nc].
  destruct (Nat.ltb_spec i r).
  - apply bounded_lor; [now apply bounded_pow2|]. apply bounded_land_r. apply (bounded_mono i); [lia|apply bounded_ones].
  - apply bounded_land_r, bounded_ones.
Qed.

Lemma get_upper_rect r n U t j :
  get (upper_rect r n U) t j = (t <? r) && ((t <=? j) && (j <? n) && get U t j).
Proof.
  unfold get at 1, row, upper_rect. cbn [rows].
  destruct (Nat.ltb_spec t r) as [Ht|Ht]; cbn [andb].
  - rewrite (nth_map_default _ _ _ 0) by now rewrite seq_length. rewrite seq_nth by assumption. cbn [Nat.add].
    rewrite N.land_spec, N.ldiff_spec, !testbit_ones_nat. unfold get.
    destruct (N.testbit (row U t) (N.of_nat j)); bsolve.
  - rewrite nth_overflow; [apply N.bits_0|]. now rewrite map_length, seq_length.
Qed.

Lemma wf_upper_rect r n U : wf (upper_rect r n U).
Proof.
  apply wf_mk; [now rewrite map_length, seq_length|]. intros i Hi.
  rewrite (nth_map_default _ _ _ 0) by now rewrite seq_length. cbn [nc].
  apply bounded_land_r, bounded_ones.
Qed.

(** * reflection of the boolean observers *)
Lemma list_eqb_spec a b : list_eqb a b = true <-> a = b.
Proof.
  revert b; induction a as [|x a IH]; intros [|y b]; cbn [list_eqb]; try (split; [discriminate|congruence]).
  - split; reflexivity.
  - rewrite andb_true_iff, N.eqb_eq, IH. split; [intros [-> ->]; reflexivity|intros H; injection H; auto].
Qed.

Lemma mequal_spec A B : mequal A B = true <-> A = B.
Proof.
  unfold mequal. rewrite !andb_true_iff, !Nat.eqb_eq, list_eqb_spec.
  destruct A, B; cbn. split; [intros [[-> ->] ->]; reflexivity|intros H; injection H; auto].
Qed.

Lemma lapackb_spec P n : lapackb P n = true <-> lapack P n.
Proof.
  unfold lapackb, lapack. rewrite forallb_forall. split.
  - intros H i Hi. specialize (H i). rewrite in_seq, andb_true_iff, Nat.leb_le, Nat.ltb_lt in H. apply H. lia.
  - intros H i Hi. apply in_seq in Hi. rewrite andb_true_iff, Nat.leb_le, Nat.ltb_lt. apply H. lia.
Qed.

Fixpoint nat_list_eqb (a b : list nat) : bool :=
  match a, b with
  | [], [] => true
  | x :: a', y :: b' => (x =? y) && nat_list_eqb a' b'
  | _, _ => false
  end.
Lemma nat_list_eqb_spec a b : nat_list_eqb a b = true <-> a = b.
Proof.
  revert b; induction a as [|x a IH]; intros [|y b]; cbn [nat_list_eqb]; try (split; [discriminate|congruence]).
  - split; reflexivity.
  - rewrite andb_true_iff, Nat.eqb_eq, IH. split; [intros [-> ->]; reflexivity|intros H; injection H; auto].
Qed.

(** * strictly sorted lists are determined by their elements *)
Lemma sorted_ext (l1 l2 : list nat) :
  StronglySorted lt l1 -> StronglySorted lt l2 -> (forall x, In x l1 <-> In x l2) -> l1 = l2.
Proof.
  revert l2; induction l1 as [|x l1 IH]; intros [|y l2] H1 H2 H.
  - reflexivity.
  - exfalso. apply (proj2 (H y)). now left.
  - exfalso. apply (proj1 (H x)). now left.
  - apply StronglySorted_inv in H1 as [H1 F1]. apply StronglySorted_inv in H2 as [H2 F2].
    rewrite Forall_forall in F1, F2.
    assert (x = y) as ->.
    { destruct (proj1 (H x) ltac:(now left)) as [E|Hx]; [congruence|].
      destruct (proj2 (H y) ltac:(now left)) as [E|Hy]; [congruence|].
      specialize (F1 _ Hy). specialize (F2 _ Hx). lia. }
    f_equal. apply IH; auto. intros z. split; intros Hz.
    + destruct (proj1 (H z) ltac:(now right)) as [E|Hz']; [|assumption]. specialize (F1 _ Hz). lia.
    + destruct (proj2 (H z) ltac:(now right)) as [E|Hz']; [|assumption]. specialize (F2 _ Hz). lia.
Qed.

Lemma is_crp_unique A l1 l2 : is_crp A l1 -> is_crp A l2 -> l1 = l2.
Proof.
  intros (S1 & B1 & M1) (S2 & B2 & M2). apply sorted_ext; auto.
  intros x. split; intros Hx.
  - apply M2; [now apply B1|]. apply M1; [now apply B1|assumption].
  - apply M1; [now apply B2|]. apply M2; [now apply B2|assumption].
Qed.
