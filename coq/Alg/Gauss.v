(* Alg/Gauss.v — executable model of mzd_gauss_delayed (m4ri/mzd.c) on abstract matrices.
   Definitions only; the specification proofs are in Alg/GaussProofs.v. *)
From Coq Require Import List NArith Arith Bool.
From M4 Require Import Base.Bits Lin.Mat Lin.Ops.
Import ListNotations.
Local Open Scope nat_scope.

(** first row index >= start whose bit c is set *)
Fixpoint find_row_from (rs : list N) (i start c : nat) : option nat :=
  match rs with
  | [] => None
  | r :: t => if (start <=? i) && N.testbit r (N.of_nat c) then Some i
              else find_row_from t (S i) start c
  end.

(** eliminate column c with pivot row p: every row ii (ii <> p, and ii > p unless full) holding a one
    in column c gets the pivot row added on the columns >= c (mzd_row_add_offset) *)
Definition eliminate (full : bool) (M : mat) (p c : nat) : mat :=
  let pr := N.land (row M p) (colmask c (nc M)) in
  map_rows (fun ii r =>
    if negb (ii =? p) && (full || (p <? ii)) && N.testbit r (N.of_nat c)
    then N.lxor r pr else r) M.

(** one column step of the outer loop: state = (matrix, startrow) *)
Definition gauss_step (full : bool) (st : mat * nat) (c : nat) : mat * nat :=
  let '(M, startrow) := st in
  match find_row_from (rows M) 0 startrow c with
  | None => st
  | Some j => (eliminate full (row_swap M startrow j) startrow c, S startrow)
  end.

(** mzd_gauss_delayed(M, startcol, full): returns (number of pivots, matrix).
    As in the C code the first pivot row is row [startcol]. *)
Definition gauss_delayed (full : bool) (startcol : nat) (A : mat) : nat * mat :=
  let '(M, sr) := fold_left (gauss_step full) (seq startcol (nc A - startcol)) (A, startcol) in
  (sr - startcol, M).

Definition echelonize (full : bool) (A : mat) : nat * mat := gauss_delayed full 0 A.
Definition rref (A : mat) : mat := snd (echelonize true A).
Definition rank (A : mat) : nat := fst (echelonize true A).
