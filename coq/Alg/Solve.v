(* Alg/Solve.v — EXECUTABLE models (definitions only, no proofs) of m4ri/solve.c on abstract matrices
   (Lin/Mat.v: a row is an N, column j = bit j):

     pluq_solve_left   = mzd_pluq_solve_left  (solve.c:42)  wrapper, die conditions
     pluq_solve_core   = _mzd_pluq_solve_left (solve.c:55)
     solve_left_core   = _mzd_solve_left      (solve.c:124)
     solve_left        = mzd_solve_left       (solve.c:30)  wrapper, die conditions
     kernel_left       = mzd_kernel_left_pluq (solve.c:157)

   The code modelled is the CURRENT solve.c (after the fix "solve_left verdict ignores non-zero
   padding rows of B": the padding-row pre-check of _mzd_solve_left starts at row A->nrows and
   _mzd_pluq_solve_left tests the padding window Y3 before clearing it).  The boolean [pin] selects
   the PINNED code instead (pre-check window starting at A->nrows+1, no test of Y3): the same model,
   used only for [solve_verdict_pinned_refuted] (SolveProofs2.v) so that a regression is recognised.

   Windows: a window is read as a value ([win], = mzd_init_window) at the moment it is used and
   written back with [mpaste] — all windows of solve.c are disjoint row ranges of B, so reading at
   the time of use is exactly the aliasing semantics of the C code.

   Arguments of the generic section: the PLUQ routine (_mzd_pluq called on mzp_init permutations,
   i.e. P0 = Q0 = identity), the two left TRSM routines.  mzd_addmul(C, A, B, cutoff) is
   [addmul_spec cutoff C A B] = C + A*B (Alg/TRSM.v; property C01).  The C argument [cutoff] (Strassen
   cutoff) is only handed on to these routines.

   Return values: [None] = m4ri_die was called.  The int result is a Z (0 or -1).
   Proofs: Alg/SolveProofs.v (C06), Alg/SolveProofs2.v (C07, closed instances, pinned refutation). *)
From Coq Require Import List NArith ZArith Arith Bool.
From M4 Require Import Base.Bits Lin.Mat Lin.Ops Alg.Gauss Alg.PLE Alg.TRSM.
Import ListNotations.
Local Open Scope nat_scope.

(** mzd_init_window(M, lowr, lowc, highr, highc) read as a value (no clamping, as in C) *)
Definition win (M : mat) (lowr lowc highr highc : nat) : mat :=
  msub M lowr lowc (highr - lowr) (highc - lowc).

(** the column offsets visited by [for (j = 0; j < ncols; j += m4ri_radix)] *)
Definition chunks (ncols : nat) : list nat :=
  map (fun t => PLE.radix * t) (seq 0 ((ncols + PLE.radix - 1) / PLE.radix)).

(** solve.c:109-113: for i in [from, nrows): for j = 0, 64, .. < ncols:
      mzd_clear_bits(B, i, j, MIN(m4ri_radix, B->ncols - j)) *)
Definition clear_rows_from (B : mat) (from : nat) : mat :=
  fold_left (fun B i =>
               fold_left (fun B j => clear_bits B i j (Nat.min PLE.radix (nc B - j))) (chunks (nc B)) B)
            (seq from (nr B - from)) B.

(** solve.c:175-180: for i < r: for j = 0, 64, .. < RU->ncols:
      mzd_xor_bits(RU, i, j, w, mzd_read_bits(A, i, r + j, w)), w = MIN(m4ri_radix, RU->ncols - j);
    RU is the window of R at (0,0), so the coordinates in R are the same *)
Definition copy_right_block (A R : mat) (r : nat) : mat :=
  fold_left (fun R i =>
               fold_left (fun R j => let w := Nat.min PLE.radix (nc R - j) in
                                     xor_bits R i j w (read_bits A i (r + j) w)) (chunks (nc R)) R)
            (seq 0 r) R.

(** solve.c:184: for i < R->ncols: mzd_write_bit(R, r + i, i, 1) *)
Definition write_identity_below (R : mat) (r : nat) : mat :=
  fold_left (fun R i => write_bit R (r + i) i true) (seq 0 (nc R)) R.

Section Generic.
  (** _mzd_pluq(A, P, Q, cutoff) with P = mzp_init(nrows), Q = mzp_init(ncols) *)
  Variable pluq : mat -> ple_out.
  (** mzd_trsm_lower_left(L, B, cutoff), mzd_trsm_upper_left(U, B, cutoff): the new contents of B *)
  Variables trsm_ll trsm_ul : mat -> mat -> mat.
  Variable pin : bool.       (* true = the pinned (pre-fix) code *)
  Variable cutoff : nat.

  (** _mzd_pluq_solve_left (solve.c:55-122); [A] holds L and U, [B] is overwritten *)
  Definition pluq_solve_core (A : mat) (rank : nat) (P Q : list nat) (B : mat) (check : bool) : Z * mat :=
    (* :70  P B2 = B1 *)
    let B := apply_p_left B P in
    (* :75-77  L B3 = B2 on the upper part *)
    let LU := win A 0 0 rank rank in
    let Y1 := trsm_ll LU (win B 0 0 rank (nc B)) in
    let B := mpaste B 0 0 Y1 in
    let '(retval, B) :=
      if check then
        (* :82-83 *)
        let H := win A rank 0 (nr A) rank in
        (* :84-90  the padding rows *)
        let '(retval, B) :=
          if nr A <? nr B then
            let Y3 := win B (nr A) 0 (nr B) (nc B) in
            let retval := if pin then 0%Z else if is_zero Y3 then 0%Z else (-1)%Z in
            (retval, mpaste B (nr A) 0 (set_ui (nr Y3) (nc Y3) 0))
          else (0%Z, B) in
        (* :91  Y2 += H * Y1 *)
        let Y2 := addmul_spec cutoff (win B rank 0 (nr A) (nc B)) H Y1 in
        let B := mpaste B rank 0 Y2 in
        (* :95 *)
        let retval := if is_zero Y2 then retval else (-1)%Z in
        (retval, B)
      else (0%Z, B) in
    (* :100  U B4 = B3 *)
    let Y1 := trsm_ul LU Y1 in
    let B := mpaste B 0 0 Y1 in
    (* :104-114 *)
    let B := if check then B else clear_rows_from B rank in
    (* :116  Q B5 = B4 *)
    let B := apply_p_left_trans B Q in
    (retval, B).

  (** mzd_pluq_solve_left (solve.c:42-53) *)
  Definition pluq_solve_left (A : mat) (rank : nat) (P Q : list nat) (B : mat) (check : bool)
    : option (Z * mat) :=
    if nr B <? nc A then None
    else if negb (length P =? nr A) then None
    else if negb (length Q =? nc A) then None
    else Some (pluq_solve_core A rank P Q B check).

  (** _mzd_solve_left (solve.c:124-155) *)
  Definition solve_left_core (A B : mat) (check : bool) : option (Z * mat) :=
    if check && (nr A <? nr B) &&
       negb (is_zero (win B (nr A + (if pin then 1 else 0)) 0 (nr B) (nc B)))
    then Some ((-1)%Z, B)
    else
      let '((rank, A'), (P, Q)) := pluq A in
      pluq_solve_left A' rank P Q B check.

  (** mzd_solve_left (solve.c:30-40) *)
  Definition solve_left (A B : mat) (check : bool) : option (Z * mat) :=
    if nr B <? nc A then None
    else if negb (nr B =? Nat.max (nc A) (nr A)) then None
    else solve_left_core A B check.

  (** mzd_kernel_left_pluq (solve.c:157-194): [None] = NULL *)
  Definition kernel_left (A : mat) : option mat :=
    let '((r, A'), (P, Q)) := pluq A in
    if r =? nc A then None
    else
      let U := win A' 0 0 r r in
      let R := mzero (nc A) (nc A - r) in
      let R := copy_right_block A' R r in
      let RU := trsm_ul U (win R 0 0 r (nc R)) in
      let R := mpaste R 0 0 RU in
      let R := write_identity_below R r in
      Some (apply_p_left_trans R Q).
End Generic.

(** * closed entry points *)
(** mzp_init(n): the identity *)
Definition mzp_init (n : nat) : list nat := seq 0 n.

(** every PLUQ route of the library returns the same r, P, Q[0..r), L and U on the leading r columns
    (canonical pivots), and the solution X does not depend on anything else; the kernel matrix K
    does depend on the tail of Q, which the block recursion _mzd_ple (but not the naive and
    Four-Russians routines) may leave different from the identity (PLESpec.v).
      *_model : PLUQ = _mzd_pluq_naive                                  (closed theorems)
      *_cfg   : PLUQ = _mzd_pluq = pluq_rec with the build constant __M4RI_PLE_CUTOFF (in words)
    The unique solution of a unit triangular system is what every TRSM regime computes
    (TRSMProofs.v / TRSMRecProofs.v), so the simple substitution models are used. *)
Definition pluq_naive_id (A : mat) : ple_out := pluq_naive A (mzp_init (nr A)) (mzp_init (nc A)).
Definition pluq_rec_id (ple_cutoff : nat) (A : mat) : ple_out :=
  pluq_rec ple_naive ple_cutoff A (mzp_init (nr A)) (mzp_init (nc A)).

Definition solve_left_model (cutoff : nat) (check : bool) (A B : mat) : option (Z * mat) :=
  solve_left pluq_naive_id trsm_lower_left trsm_upper_left false cutoff A B check.
Definition solve_left_pinned (cutoff : nat) (check : bool) (A B : mat) : option (Z * mat) :=
  solve_left pluq_naive_id trsm_lower_left trsm_upper_left true cutoff A B check.
Definition pluq_solve_left_model (cutoff : nat) (check : bool) (A : mat) (rank : nat) (P Q : list nat) (B : mat)
  : option (Z * mat) :=
  pluq_solve_left trsm_lower_left trsm_upper_left false cutoff A rank P Q B check.
Definition pluq_solve_left_pinned (cutoff : nat) (check : bool) (A : mat) (rank : nat) (P Q : list nat) (B : mat)
  : option (Z * mat) :=
  pluq_solve_left trsm_lower_left trsm_upper_left true cutoff A rank P Q B check.

(** outer option: m4ri_die (never happens: mzd_pluq's length checks hold by construction);
    inner option: NULL *)
Definition kernel_left_model (cutoff : nat) (A : mat) : option (option mat) :=
  Some (kernel_left pluq_naive_id trsm_upper_left A).

Definition solve_left_cfg (ple_cutoff cutoff : nat) (check : bool) (A B : mat) : option (Z * mat) :=
  solve_left (pluq_rec_id ple_cutoff) trsm_lower_left trsm_upper_left false cutoff A B check.
Definition kernel_left_cfg (ple_cutoff cutoff : nat) (A : mat) : option (option mat) :=
  Some (kernel_left (pluq_rec_id ple_cutoff) trsm_upper_left A).
