(* Alg/M4RIProofs.v — proofs about the M4RI echelonisation models of Alg/M4RI.v. *)
From Coq Require Import List NArith Arith Lia Bool Sorted ZArith ZifyBool ZifyNat ZifyN.
From M4 Require Import Base.Bits Lin.Mat Lin.MatAlg Lin.Ops Lin.OpsProofs Lin.Spec Lin.Span Lin.Echelon
                       Lin.Observers Alg.Gauss Alg.GaussProofs Alg.Gray Alg.GrayProofs Alg.M4RI.
Import ListNotations.
Local Open Scope nat_scope.

(** * 0. helpers *)
Ltac splits := repeat match goal with |- _ /\ _ => split end.
Lemma fold_seq_inv {X} (P : nat -> X -> Prop) (f : X -> nat -> X) n : forall a x0,
  P a x0 -> (forall t x, a <= t < a + n -> P t x -> P (S t) (f x t)) ->
  P (a + n) (fold_left f (seq a n) x0).
Proof.
  induction n as [|n IH]; intros a x0 H0 Hs; cbn [seq fold_left].
  - now rewrite Nat.add_0_r.
  - replace (a + S n) with (S a + n) by lia. apply IH.
    + apply Hs; [lia|exact H0].
    + intros t x Ht. apply Hs. lia.
Qed.

Lemma row_equiv_dims A B : row_equiv A B -> nr A = nr B /\ nc A = nc B.
Proof. intros (H1 & H2 & _). now split. Qed.

Definition zero_below (M : mat) (r c : nat) : Prop :=
  forall i j, r <= i -> j < c -> get M i j = false.
Definition blk_id (M : mat) (r c l : nat) : Prop :=
  forall t u, t < l -> u < l -> get M (r + t) (c + u) = (t =? u).

(** * 1. clear_above *)
Lemma clear_above_spec M r s j : wf M -> s < nr M -> r <= s ->
  (forall j', j' < j -> get M s j' = false) ->
  let M' := clear_above M r s j in
  wf M' /\ nr M' = nr M /\ nc M' = nc M /\ row_equiv M M' /\
  forall i j', get M' i j' =
    xorb (get M i j') ((r <=? i) && (i <? s) && get M i j && (j <=? j') && get M s j').
Proof.
  intros HM Hs Hrs Hz. unfold clear_above.
  set (P := fun (t : nat) (X : mat) =>
    wf X /\ nr X = nr M /\ nc X = nc M /\ row_equiv M X /\
    forall i j', get X i j' =
      xorb (get M i j') ((r <=? i) && (i <? t) && get M i j && (j <=? j') && get M s j')).
  cut (P (r + (s - r)) (fold_left (fun M t => if get M t j then row_add_offset M t s j else M)
                                  (seq r (s - r)) M)).
  { replace (r + (s - r)) with s by lia. intros H; exact H. }
  apply (fold_seq_inv P).
  - unfold P. splits; auto; try apply row_equiv_refl.
    intros i j'. destruct (Nat.leb_spec r i), (Nat.ltb_spec i r); try lia; cbn [andb]; now rewrite xorb_false_r.
  - intros t X Ht (HX & Hnr & Hnc & Heq & Hg).
    assert (Hts : get X t j = get M t j).
    { rewrite Hg. destruct (Nat.ltb_spec t t); [lia|]. now rewrite andb_false_r, xorb_false_r. }
    assert (Hss : forall j', get X s j' = get M s j').
    { intros j'. rewrite Hg. destruct (Nat.ltb_spec s t); [lia|]. now rewrite andb_false_r, xorb_false_r. }
    rewrite Hts. destruct (get M t j) eqn:Etj.
    + unfold P. split; [now apply wf_row_add_offset|]. split; [exact Hnr|]. split; [exact Hnc|]. split.
      * apply (row_equiv_trans M X); [assumption|]. apply row_equiv_row_add_offset; [assumption|lia|].
        intros j' Hj'. rewrite Hss. now apply Hz.
      * intros i j'. rewrite get_row_add_offset by (auto; lia). rewrite Hss, Hg.
        destruct (Nat.eqb_spec i t) as [->|Hne].
        -- rewrite Etj. destruct (Nat.leb_spec r t), (Nat.ltb_spec t t), (Nat.ltb_spec t (S t)); try lia.
           cbn [andb]. now rewrite xorb_false_r.
        -- destruct (Nat.ltb_spec i t), (Nat.ltb_spec i (S t)); try lia; cbn [andb]; now rewrite xorb_false_r.
    + unfold P. splits; auto. intros i j'. rewrite Hg.
      destruct (Nat.eqb_spec i t) as [->|Hne].
      * rewrite Etj. now rewrite !andb_false_r.
      * destruct (Nat.ltb_spec i t), (Nat.ltb_spec i (S t)); try lia; reflexivity.
Qed.

(** * 2. the lazy clearing of row i by the l pivot rows of the block (reduced variant) *)
Lemma clear_tmp_spec M i r c l tmp : wf M -> i < nr M -> r + l <= i ->
  zero_below M r c -> blk_id M r c l ->
  (forall t, t < l -> N.testbit tmp (N.of_nat t) = get M i (c + t)) ->
  let M' := clear_tmp M i r c l tmp in
  wf M' /\ nr M' = nr M /\ nc M' = nc M /\ row_equiv M M' /\
  (forall i' j, i' <> i -> get M' i' j = get M i' j) /\
  (forall j, j < c -> get M' i j = false) /\
  (forall u, u < l -> get M' i (c + u) = false).
Proof.
  intros HM Hi Hri Hzb Hblk Htmp. unfold clear_tmp.
  set (P := fun (t : nat) (X : mat) =>
    wf X /\ nr X = nr M /\ nc X = nc M /\ row_equiv M X /\
    (forall i' j, i' <> i -> get X i' j = get M i' j) /\
    (forall j, j < c -> get X i j = false) /\
    (forall u, u < t -> get X i (c + u) = false) /\
    (forall u, t <= u -> u < l -> get X i (c + u) = get M i (c + u))).
  cut (P (0 + l) (fold_left (fun M t => if N.testbit tmp (N.of_nat t)
                                        then row_add_offset M i (r + t) (c + t) else M) (seq 0 l) M)).
  { cbn [Nat.add]. intros (H1 & H2 & H3 & H4 & H5 & H6 & H7 & _). now splits. }
  apply (fold_seq_inv P).
  - unfold P. splits; auto; try apply row_equiv_refl.
    + intros j Hj. apply Hzb; [lia|assumption].
    + intros u Hu. lia.
  - intros t X Ht (HX & Hnr & Hnc & Heq & Ho & Hz & Hdone & Htodo).
    rewrite Htmp by lia. destruct (get M i (c + t)) eqn:Et.
    + assert (Hsrc : forall j, get X (r + t) j = get M (r + t) j) by (intros j; apply Ho; lia).
      unfold P. splits.
      * now apply wf_row_add_offset.
      * exact Hnr.
      * exact Hnc.
      * apply (row_equiv_trans M X); [assumption|]. apply row_equiv_row_add_offset; [assumption|lia|].
        intros j' Hj'. rewrite Hsrc. destruct (Nat.lt_ge_cases j' c) as [Hc|Hc].
        -- apply Hzb; [lia|assumption].
        -- replace j' with (c + (j' - c)) by lia. rewrite Hblk by lia.
           destruct (Nat.eqb_spec t (j' - c)); [lia|reflexivity].
      * intros i' j Hne. rewrite get_row_add_offset by (auto; lia).
        destruct (Nat.eqb_spec i' i); [contradiction|]. cbn [andb]. rewrite xorb_false_r. now apply Ho.
      * intros j Hj. rewrite get_row_add_offset by (auto; lia). rewrite Hz by assumption.
        destruct (Nat.leb_spec (c + t) j); [lia|]. now rewrite andb_false_r.
      * intros u Hu. rewrite get_row_add_offset by (auto; lia). rewrite Nat.eqb_refl, Hsrc. cbn [andb].
        destruct (Nat.eq_dec u t) as [->|Hne].
        -- rewrite Htodo by lia. rewrite Et. rewrite Hblk by lia. rewrite Nat.eqb_refl.
           destruct (Nat.leb_spec (c + t) (c + t)); [reflexivity|lia].
        -- rewrite Hdone by lia. destruct (Nat.leb_spec (c + t) (c + u)); [lia|reflexivity].
      * intros u Hu1 Hu2. rewrite get_row_add_offset by (auto; lia). rewrite Nat.eqb_refl, Hsrc. cbn [andb].
        rewrite Htodo by lia. rewrite Hblk by lia. destruct (Nat.eqb_spec t u); [lia|].
        now rewrite andb_false_r, xorb_false_r.
    + unfold P. splits; auto.
      * intros u Hu. destruct (Nat.eq_dec u t) as [->|Hne]; [|apply Hdone; lia].
        rewrite Htodo by lia. exact Et.
      * intros u Hu1 Hu2. apply Htodo; lia.
Qed.

(** * 3. _mzd_gauss_submatrix_full: state after l pivots of the block at (r, c) have been found,
    relative to the matrix M0 at the start of the block *)
Record gs (M0 M : mat) (r c l : nat) : Prop := mk_gs {
  gs_wf : wf M;
  gs_nr : nr M = nr M0;
  gs_nc : nc M = nc M0;
  gs_eq : row_equiv M0 M;
  gs_top : forall i j, i < r -> get M i j = get M0 i j;
  gs_len : r + l <= nr M;
  gs_zb : zero_below M r c;
  gs_blk : blk_id M r c l
}.

Lemma gs_init M r c : wf M -> r <= nr M -> zero_below M r c -> gs M M r c 0.
Proof.
  intros HM Hr Hz. constructor; auto; try lia; try apply row_equiv_refl. intros t u Ht. lia.
Qed.

Lemma gsf_scan_spec M0 r c l n : forall M i, gs M0 M r c l -> r + l <= i -> i + n <= nr M ->
  (forall i' j, r + l <= i' < i -> j <= c + l -> get M i' j = false) ->
  forall M' found, gsf_scan n M r c l i = (M', found) ->
  if found then gs M0 M' r c (S l)
  else gs M0 M' r c l /\ forall i' j, r + l <= i' < i + n -> j <= c + l -> get M' i' j = false.
Proof.
  induction n as [|n IH]; intros M i G Hi Hn Hclr M' found E; cbn [gsf_scan] in E.
  - injection E as <- <-. split; [assumption|]. intros i' j Hi' Hj. apply Hclr; lia.
  - destruct G as [HM Hnr Hnc Heq Htop Hlen Hzb Hblk].
    assert (Htb : forall t, t < S l -> N.testbit (read_bits M i c (S l)) (N.of_nat t) = get M i (c + t)).
    { intros t Ht. rewrite testbit_read_bits. destruct (Nat.ltb_spec t (S l)); [reflexivity|lia]. }
    destruct (N.eqb_spec (read_bits M i c (S l)) 0) as [E0|E0].
    + (* nothing in the first l+1 block columns of row i *)
      assert (Hclr' : forall i' j, r + l <= i' < S i -> j <= c + l -> get M i' j = false).
      { intros i' j Hi' Hj. destruct (Nat.eq_dec i' i) as [->|Hne]; [|apply Hclr; lia].
        destruct (Nat.lt_ge_cases j c) as [Hc|Hc]; [apply Hzb; lia|].
        replace j with (c + (j - c)) by lia. rewrite <- Htb by lia. rewrite E0. apply N.bits_0. }
      pose proof (IH M (S i) ltac:(now constructor) ltac:(lia) ltac:(lia) Hclr' M' found E) as R.
      replace (S i + n) with (i + S n) in R by lia. exact R.
    + destruct (clear_tmp_spec M i r c l (read_bits M i c (S l)) HM ltac:(lia) Hi Hzb Hblk
                  ltac:(intros t Ht; apply Htb; lia))
        as (HM1 & Hnr1 & Hnc1 & Heq1 & Ho1 & Hz1 & Hb1).
      set (M1 := clear_tmp M i r c l (read_bits M i c (S l))) in *.
      assert (G1 : gs M0 M1 r c l).
      { constructor.
        - exact HM1.
        - congruence.
        - congruence.
        - now apply (row_equiv_trans M0 M).
        - intros i' j Hi'. rewrite Ho1 by lia. now apply Htop.
        - lia.
        - intros i' j Hi' Hj. destruct (Nat.eq_dec i' i) as [->|Hne]; [now apply Hz1|].
          rewrite Ho1 by assumption. now apply Hzb.
        - intros t u Ht Hu. rewrite Ho1 by lia. now apply Hblk. }
      destruct (get M1 i (c + l)) eqn:Epiv.
      * (* pivot found in row i *)
        injection E as <- <-.
        set (M2 := row_swap M1 i (r + l)).
        assert (Hi1 : i < nr M1) by lia. assert (Hs1 : r + l < nr M1) by lia.
        assert (HM2 : wf M2) by now apply wf_row_swap.
        assert (Hg2 : forall i' j, get M2 i' j =
                        get M1 (if i' =? i then r + l else if i' =? r + l then i else i') j).
        { intros i' j. unfold M2. now rewrite get_row_swap. }
        assert (Hpz : forall j', j' < c + l -> get M2 (r + l) j' = false).
        { intros j' Hj'. rewrite Hg2. rewrite Nat.eqb_refl.
          assert (Hx : get M1 i j' = false).
          { destruct (Nat.lt_ge_cases j' c) as [Hc|Hc]; [now apply Hz1|].
            replace j' with (c + (j' - c)) by lia. apply Hb1. lia. }
          destruct (Nat.eqb_spec (r + l) i) as [<-|_]; exact Hx. }
        destruct (clear_above_spec M2 r (r + l) (c + l) HM2 ltac:(cbn; lia) ltac:(lia) Hpz)
          as (HM3 & Hnr3 & Hnc3 & Heq3 & Hg3).
        set (M3 := clear_above M2 r (r + l) (c + l)) in *.
        assert (Heq2 : row_equiv M1 M2).
        { apply row_equiv_row_swap; rewrite (wf_len M1 HM1); lia. }
        assert (Hrow_s : forall j, get M2 (r + l) j = get M1 i j).
        { intros j. rewrite Hg2, Nat.eqb_refl. destruct (Nat.eqb_spec (r + l) i) as [<-|_]; reflexivity. }
        assert (Hrow_t : forall t j, t < l -> get M2 (r + t) j = get M1 (r + t) j).
        { intros t j Ht. rewrite Hg2. destruct (Nat.eqb_spec (r + t) i); [lia|].
          destruct (Nat.eqb_spec (r + t) (r + l)); [lia|reflexivity]. }
        constructor.
        -- exact HM3.
        -- rewrite Hnr3. cbn [nr M2 row_swap set_row]. congruence.
        -- rewrite Hnc3. cbn [nc M2 row_swap set_row]. congruence.
        -- apply (row_equiv_trans M0 M1); [apply (gs_eq _ _ _ _ _ G1)|].
           apply (row_equiv_trans M1 M2); assumption.
        -- intros i' j Hi'. rewrite Hg3. destruct (Nat.leb_spec r i'); [lia|]. cbn [andb].
           rewrite xorb_false_r, Hg2. destruct (Nat.eqb_spec i' i); [lia|].
           destruct (Nat.eqb_spec i' (r + l)); [lia|]. apply (gs_top _ _ _ _ _ G1). assumption.
        -- rewrite Hnr3. cbn [nr M2 row_swap set_row]. lia.
        -- intros i' j Hi' Hj. rewrite Hg3. destruct (Nat.leb_spec (c + l) j); [lia|].
           rewrite andb_false_r. cbn [andb]. rewrite xorb_false_r, Hg2.
           destruct (Nat.eqb_spec i' i); [|destruct (Nat.eqb_spec i' (r + l))];
             apply (gs_zb _ _ _ _ _ G1); lia.
        -- intros t u Ht Hu. rewrite Hg3.
           destruct (Nat.leb_spec r (r + t)); [|lia]. cbn [andb].
           destruct (Nat.eq_dec t l) as [->|Htl].
           ++ destruct (Nat.ltb_spec (r + l) (r + l)); [lia|]. cbn [andb]. rewrite xorb_false_r, Hrow_s.
              destruct (Nat.eq_dec u l) as [->|Hul].
              ** now rewrite Nat.eqb_refl.
              ** rewrite Hb1 by lia. destruct (Nat.eqb_spec l u); [lia|reflexivity].
           ++ assert (Ht' : t < l) by lia.
              destruct (Nat.ltb_spec (r + t) (r + l)); [|lia]. cbn [andb].
              rewrite !Hrow_t by assumption. rewrite Hrow_s.
              destruct (Nat.eq_dec u l) as [->|Hul].
              ** rewrite Epiv. destruct (Nat.leb_spec (c + l) (c + l)); [|lia].
                 rewrite !andb_true_r, xorb_nilpotent. destruct (Nat.eqb_spec t l); [lia|reflexivity].
              ** destruct (Nat.leb_spec (c + l) (c + u)); [lia|]. rewrite andb_false_r. cbn [andb].
                 rewrite xorb_false_r. apply (gs_blk _ _ _ _ _ G1); lia.
      * assert (Hclr' : forall i' j, r + l <= i' < S i -> j <= c + l -> get M1 i' j = false).
        { intros i' j Hi' Hj. destruct (Nat.eq_dec i' i) as [->|Hne].
          - destruct (Nat.lt_ge_cases j c) as [Hc|Hc]; [now apply Hz1|].
            destruct (Nat.eq_dec j (c + l)) as [->|Hjl]; [exact Epiv|].
            replace j with (c + (j - c)) by lia. apply Hb1. lia.
          - rewrite Ho1 by assumption. apply Hclr; lia. }
        pose proof (IH M1 (S i) G1 ltac:(lia) ltac:(lia) Hclr' M' found E) as R.
        replace (S i + n) with (i + S n) in R by lia. exact R.
Qed.

Lemma gsf_cols_spec M0 r c e n : forall M l, gs M0 M r c l -> e <= nr M0 ->
  forall M' kbar, gsf_cols n M r c e l = (M', kbar) ->
  gs M0 M' r c kbar /\ l <= kbar <= l + n /\
  (kbar < l + n -> forall i' j, r + kbar <= i' < e -> j <= c + kbar -> get M' i' j = false).
Proof.
  induction n as [|n IH]; intros M l G He M' kbar E; cbn [gsf_cols] in E.
  - injection E as <- <-. split; [assumption|]. split; [lia|]. intros H; lia.
  - destruct (gsf_scan (e - (r + l)) M r c l (r + l)) as [M1 found] eqn:Es.
    pose proof (gs_nr _ _ _ _ _ G) as Hnr. pose proof (gs_len _ _ _ _ _ G) as Hlen.
    pose proof (gsf_scan_spec M0 r c l (e - (r + l)) M (r + l) G ltac:(lia) ltac:(lia)
                  ltac:(intros i' j Hi'; lia) M1 found Es) as R.
    destruct found.
    + destruct (IH M1 (S l) R He M' kbar E) as (G' & Hk & Hz). split; [assumption|].
      split; [lia|]. intros Hlt. apply Hz. lia.
    + injection E as <- <-. destruct R as [G1 Hz]. split; [assumption|]. split; [lia|].
      intros _ i' j Hi' Hj. apply Hz; lia.
Qed.
