(* Alg/M4RIProofs.v — proofs about the M4RI echelonisation models of Alg/M4RI.v. *)
From Coq Require Import List NArith Arith Lia Bool Sorted ZArith ZifyBool ZifyNat ZifyN.
From M4 Require Import Base.Bits Lin.Mat Lin.MatAlg Lin.Ops Lin.OpsProofs Lin.Spec Lin.Span Lin.Echelon
                       Lin.Observers Alg.Gauss Alg.GaussProofs Alg.Gray Alg.GrayProofs Alg.M4RI.
Import ListNotations.
Local Open Scope nat_scope.

(** * 0. helpers *)
Ltac splits := repeat match goal with |- _ /\ _ => split end.
Lemma fold_seq_inv {X} (P : nat -> X -> Prop) (f : X -> nat -> X) n : forall a x0,
  P a x0 -> (forall t x, a <= t < a + n -> P t x -> P (S t) (f x t)) ->
  P (a + n) (fold_left f (seq a n) x0).
Proof.
  induction n as [|n IH]; intros a x0 H0 Hs; cbn [seq fold_left].
  - now rewrite Nat.add_0_r.
  - replace (a + S n) with (S a + n) by lia. apply IH.
    + apply Hs; [lia|exact H0].
    + intros t x Ht. apply Hs. lia.
Qed.

Lemma row_equiv_dims A B : row_equiv A B -> nr A = nr B /\ nc A = nc B.
Proof. intros (H1 & H2 & _). now split. Qed.

Definition zero_below (M : mat) (r c : nat) : Prop :=
  forall i j, r <= i -> j < c -> get M i j = false.
Definition blk_id (M : mat) (r c l : nat) : Prop :=
  forall t u, t < l -> u < l -> get M (r + t) (c + u) = (t =? u).

(** * 1. clear_above *)
Lemma clear_above_spec M r s j : wf M -> s < nr M -> r <= s ->
  (forall j', j' < j -> get M s j' = false) ->
  let M' := clear_above M r s j in
  wf M' /\ nr M' = nr M /\ nc M' = nc M /\ row_equiv M M' /\
  forall i j', get M' i j' =
    xorb (get M i j') ((r <=? i) && (i <? s) && get M i j && (j <=? j') && get M s j').
Proof.
  intros HM Hs Hrs Hz. unfold clear_above.
  set (P := fun (t : nat) (X : mat) =>
    wf X /\ nr X = nr M /\ nc X = nc M /\ row_equiv M X /\
    forall i j', get X i j' =
      xorb (get M i j') ((r <=? i) && (i <? t) && get M i j && (j <=? j') && get M s j')).
  cut (P (r + (s - r)) (fold_left (fun M t => if get M t j then row_add_offset M t s j else M)
                                  (seq r (s - r)) M)).
  { replace (r + (s - r)) with s by lia. intros H; exact H. }
  apply (fold_seq_inv P).
  - unfold P. splits; auto; try apply row_equiv_refl.
    intros i j'. destruct (Nat.leb_spec r i), (Nat.ltb_spec i r); try lia; cbn [andb]; now rewrite xorb_false_r.
  - intros t X Ht (HX & Hnr & Hnc & Heq & Hg).
    assert (Hts : get X t j = get M t j).
    { rewrite Hg. destruct (Nat.ltb_spec t t); [lia|]. now rewrite andb_false_r, xorb_false_r. }
    assert (Hss : forall j', get X s j' = get M s j').
    { intros j'. rewrite Hg. destruct (Nat.ltb_spec s t); [lia|]. now rewrite andb_false_r, xorb_false_r. }
    rewrite Hts. destruct (get M t j) eqn:Etj.
    + unfold P. split; [now apply wf_row_add_offset|]. split; [exact Hnr|]. split; [exact Hnc|]. split.
      * apply (row_equiv_trans M X); [assumption|]. apply row_equiv_row_add_offset; [assumption|lia|].
        intros j' Hj'. rewrite Hss. now apply Hz.
      * intros i j'. rewrite get_row_add_offset by (auto; lia). rewrite Hss, Hg.
        destruct (Nat.eqb_spec i t) as [->|Hne].
        -- rewrite Etj. destruct (Nat.leb_spec r t), (Nat.ltb_spec t t), (Nat.ltb_spec t (S t)); try lia.
           cbn [andb]. now rewrite xorb_false_r.
        -- destruct (Nat.ltb_spec i t), (Nat.ltb_spec i (S t)); try lia; cbn [andb]; now rewrite xorb_false_r.
    + unfold P. splits; auto. intros i j'. rewrite Hg.
      destruct (Nat.eqb_spec i t) as [->|Hne].
      * rewrite Etj. now rewrite !andb_false_r.
      * destruct (Nat.ltb_spec i t), (Nat.ltb_spec i (S t)); try lia; reflexivity.
Qed.

(** * 2. the lazy clearing of row i by the l pivot rows of the block (reduced variant) *)
Lemma clear_tmp_spec M i r c l tmp : wf M -> i < nr M -> r + l <= i ->
  zero_below M r c -> blk_id M r c l ->
  (forall t, t < l -> N.testbit tmp (N.of_nat t) = get M i (c + t)) ->
  let M' := clear_tmp M i r c l tmp in
  wf M' /\ nr M' = nr M /\ nc M' = nc M /\ row_equiv M M' /\
  (forall i' j, i' <> i -> get M' i' j = get M i' j) /\
  (forall j, j < c -> get M' i j = false) /\
  (forall u, u < l -> get M' i (c + u) = false).
Proof.
  intros HM Hi Hri Hzb Hblk Htmp. unfold clear_tmp.
  set (P := fun (t : nat) (X : mat) =>
    wf X /\ nr X = nr M /\ nc X = nc M /\ row_equiv M X /\
    (forall i' j, i' <> i -> get X i' j = get M i' j) /\
    (forall j, j < c -> get X i j = false) /\
    (forall u, u < t -> get X i (c + u) = false) /\
    (forall u, t <= u -> u < l -> get X i (c + u) = get M i (c + u))).
  cut (P (0 + l) (fold_left (fun M t => if N.testbit tmp (N.of_nat t)
                                        then row_add_offset M i (r + t) (c + t) else M) (seq 0 l) M)).
  { cbn [Nat.add]. intros (H1 & H2 & H3 & H4 & H5 & H6 & H7 & _). now splits. }
  apply (fold_seq_inv P).
  - unfold P. splits; auto; try apply row_equiv_refl.
    + intros j Hj. apply Hzb; [lia|assumption].
    + intros u Hu. lia.
  - intros t X Ht (HX & Hnr & Hnc & Heq & Ho & Hz & Hdone & Htodo).
    rewrite Htmp by lia. destruct (get M i (c + t)) eqn:Et.
    + assert (Hsrc : forall j, get X (r + t) j = get M (r + t) j) by (intros j; apply Ho; lia).
      unfold P. splits.
      * now apply wf_row_add_offset.
      * exact Hnr.
      * exact Hnc.
      * apply (row_equiv_trans M X); [assumption|]. apply row_equiv_row_add_offset; [assumption|lia|].
        intros j' Hj'. rewrite Hsrc. destruct (Nat.lt_ge_cases j' c) as [Hc|Hc].
        -- apply Hzb; [lia|assumption].
        -- replace j' with (c + (j' - c)) by lia. rewrite Hblk by lia.
           destruct (Nat.eqb_spec t (j' - c)); [lia|reflexivity].
      * intros i' j Hne. rewrite get_row_add_offset by (auto; lia).
        destruct (Nat.eqb_spec i' i); [contradiction|]. cbn [andb]. rewrite xorb_false_r. now apply Ho.
      * intros j Hj. rewrite get_row_add_offset by (auto; lia). rewrite Hz by assumption.
        destruct (Nat.leb_spec (c + t) j); [lia|]. now rewrite andb_false_r.
      * intros u Hu. rewrite get_row_add_offset by (auto; lia). rewrite Nat.eqb_refl, Hsrc. cbn [andb].
        destruct (Nat.eq_dec u t) as [->|Hne].
        -- rewrite Htodo by lia. rewrite Et. rewrite Hblk by lia. rewrite Nat.eqb_refl.
           destruct (Nat.leb_spec (c + t) (c + t)); [reflexivity|lia].
        -- rewrite Hdone by lia. destruct (Nat.leb_spec (c + t) (c + u)); [lia|reflexivity].
      * intros u Hu1 Hu2. rewrite get_row_add_offset by (auto; lia). rewrite Nat.eqb_refl, Hsrc. cbn [andb].
        rewrite Htodo by lia. rewrite Hblk by lia. destruct (Nat.eqb_spec t u); [lia|].
        now rewrite andb_false_r, xorb_false_r.
    + unfold P. splits; auto.
      * intros u Hu. destruct (Nat.eq_dec u t) as [->|Hne]; [|apply Hdone; lia].
        rewrite Htodo by lia. exact Et.
      * intros u Hu1 Hu2. apply Htodo; lia.
Qed.

(** * 3. _mzd_gauss_submatrix_full: state after l pivots of the block at (r, c) have been found,
    relative to the matrix M0 at the start of the block *)
Record gs (M0 M : mat) (r c l : nat) : Prop := mk_gs {
  gs_wf : wf M;
  gs_nr : nr M = nr M0;
  gs_nc : nc M = nc M0;
  gs_eq : row_equiv M0 M;
  gs_top : forall i j, i < r -> get M i j = get M0 i j;
  gs_len : r + l <= nr M;
  gs_zb : zero_below M r c;
  gs_blk : blk_id M r c l
}.

Lemma gs_init M r c : wf M -> r <= nr M -> zero_below M r c -> gs M M r c 0.
Proof.
  intros HM Hr Hz. constructor; auto; try lia; try apply row_equiv_refl. intros t u Ht. lia.
Qed.

Lemma gsf_scan_spec M0 r c l n : forall M i, gs M0 M r c l -> r + l <= i -> i + n <= nr M ->
  (forall i' j, r + l <= i' < i -> j <= c + l -> get M i' j = false) ->
  forall M' found, gsf_scan n M r c l i = (M', found) ->
  if found then gs M0 M' r c (S l)
  else gs M0 M' r c l /\ forall i' j, r + l <= i' < i + n -> j <= c + l -> get M' i' j = false.
Proof.
  induction n as [|n IH]; intros M i G Hi Hn Hclr M' found E; cbn [gsf_scan] in E.
  - injection E as <- <-. split; [assumption|]. intros i' j Hi' Hj. apply Hclr; lia.
  - destruct G as [HM Hnr Hnc Heq Htop Hlen Hzb Hblk].
    assert (Htb : forall t, t < S l -> N.testbit (read_bits M i c (S l)) (N.of_nat t) = get M i (c + t)).
    { intros t Ht. rewrite testbit_read_bits. destruct (Nat.ltb_spec t (S l)); [reflexivity|lia]. }
    destruct (N.eqb_spec (read_bits M i c (S l)) 0) as [E0|E0].
    + (* nothing in the first l+1 block columns of row i *)
      assert (Hclr' : forall i' j, r + l <= i' < S i -> j <= c + l -> get M i' j = false).
      { intros i' j Hi' Hj. destruct (Nat.eq_dec i' i) as [->|Hne]; [|apply Hclr; lia].
        destruct (Nat.lt_ge_cases j c) as [Hc|Hc]; [apply Hzb; lia|].
        replace j with (c + (j - c)) by lia. rewrite <- Htb by lia. rewrite E0. apply N.bits_0. }
      pose proof (IH M (S i) ltac:(now constructor) ltac:(lia) ltac:(lia) Hclr' M' found E) as R.
      replace (S i + n) with (i + S n) in R by lia. exact R.
    + destruct (clear_tmp_spec M i r c l (read_bits M i c (S l)) HM ltac:(lia) Hi Hzb Hblk
                  ltac:(intros t Ht; apply Htb; lia))
        as (HM1 & Hnr1 & Hnc1 & Heq1 & Ho1 & Hz1 & Hb1).
      set (M1 := clear_tmp M i r c l (read_bits M i c (S l))) in *.
      assert (G1 : gs M0 M1 r c l).
      { constructor.
        - exact HM1.
        - congruence.
        - congruence.
        - now apply (row_equiv_trans M0 M).
        - intros i' j Hi'. rewrite Ho1 by lia. now apply Htop.
        - lia.
        - intros i' j Hi' Hj. destruct (Nat.eq_dec i' i) as [->|Hne]; [now apply Hz1|].
          rewrite Ho1 by assumption. now apply Hzb.
        - intros t u Ht Hu. rewrite Ho1 by lia. now apply Hblk. }
      destruct (get M1 i (c + l)) eqn:Epiv.
      * (* pivot found in row i *)
        injection E as <- <-.
        set (M2 := row_swap M1 i (r + l)).
        assert (Hi1 : i < nr M1) by lia. assert (Hs1 : r + l < nr M1) by lia.
        assert (HM2 : wf M2) by now apply wf_row_swap.
        assert (Hg2 : forall i' j, get M2 i' j =
                        get M1 (if i' =? i then r + l else if i' =? r + l then i else i') j).
        { intros i' j. unfold M2. now rewrite get_row_swap. }
        assert (Hpz : forall j', j' < c + l -> get M2 (r + l) j' = false).
        { intros j' Hj'. rewrite Hg2. rewrite Nat.eqb_refl.
          assert (Hx : get M1 i j' = false).
          { destruct (Nat.lt_ge_cases j' c) as [Hc|Hc]; [now apply Hz1|].
            replace j' with (c + (j' - c)) by lia. apply Hb1. lia. }
          destruct (Nat.eqb_spec (r + l) i) as [<-|_]; exact Hx. }
        destruct (clear_above_spec M2 r (r + l) (c + l) HM2 ltac:(cbn; lia) ltac:(lia) Hpz)
          as (HM3 & Hnr3 & Hnc3 & Heq3 & Hg3).
        set (M3 := clear_above M2 r (r + l) (c + l)) in *.
        assert (Heq2 : row_equiv M1 M2).
        { apply row_equiv_row_swap; rewrite (wf_len M1 HM1); lia. }
        assert (Hrow_s : forall j, get M2 (r + l) j = get M1 i j).
        { intros j. rewrite Hg2, Nat.eqb_refl. destruct (Nat.eqb_spec (r + l) i) as [<-|_]; reflexivity. }
        assert (Hrow_t : forall t j, t < l -> get M2 (r + t) j = get M1 (r + t) j).
        { intros t j Ht. rewrite Hg2. destruct (Nat.eqb_spec (r + t) i); [lia|].
          destruct (Nat.eqb_spec (r + t) (r + l)); [lia|reflexivity]. }
        constructor.
        -- exact HM3.
        -- rewrite Hnr3. cbn [nr M2 row_swap set_row]. congruence.
        -- rewrite Hnc3. cbn [nc M2 row_swap set_row]. congruence.
        -- apply (row_equiv_trans M0 M1); [apply (gs_eq _ _ _ _ _ G1)|].
           apply (row_equiv_trans M1 M2); assumption.
        -- intros i' j Hi'. rewrite Hg3. destruct (Nat.leb_spec r i'); [lia|]. cbn [andb].
           rewrite xorb_false_r, Hg2. destruct (Nat.eqb_spec i' i); [lia|].
           destruct (Nat.eqb_spec i' (r + l)); [lia|]. apply (gs_top _ _ _ _ _ G1). assumption.
        -- rewrite Hnr3. cbn [nr M2 row_swap set_row]. lia.
        -- intros i' j Hi' Hj. rewrite Hg3. destruct (Nat.leb_spec (c + l) j); [lia|].
           rewrite andb_false_r. cbn [andb]. rewrite xorb_false_r, Hg2.
           destruct (Nat.eqb_spec i' i); [|destruct (Nat.eqb_spec i' (r + l))];
             apply (gs_zb _ _ _ _ _ G1); lia.
        -- intros t u Ht Hu. rewrite Hg3.
           destruct (Nat.leb_spec r (r + t)); [|lia]. cbn [andb].
           destruct (Nat.eq_dec t l) as [->|Htl].
           ++ destruct (Nat.ltb_spec (r + l) (r + l)); [lia|]. cbn [andb]. rewrite xorb_false_r, Hrow_s.
              destruct (Nat.eq_dec u l) as [->|Hul].
              ** now rewrite Nat.eqb_refl.
              ** rewrite Hb1 by lia. destruct (Nat.eqb_spec l u); [lia|reflexivity].
           ++ assert (Ht' : t < l) by lia.
              destruct (Nat.ltb_spec (r + t) (r + l)); [|lia]. cbn [andb].
              rewrite !Hrow_t by assumption. rewrite Hrow_s.
              destruct (Nat.eq_dec u l) as [->|Hul].
              ** rewrite Epiv. destruct (Nat.leb_spec (c + l) (c + l)); [|lia].
                 rewrite !andb_true_r, xorb_nilpotent. destruct (Nat.eqb_spec t l); [lia|reflexivity].
              ** destruct (Nat.leb_spec (c + l) (c + u)); [lia|]. rewrite andb_false_r. cbn [andb].
                 rewrite xorb_false_r. apply (gs_blk _ _ _ _ _ G1); lia.
      * assert (Hclr' : forall i' j, r + l <= i' < S i -> j <= c + l -> get M1 i' j = false).
        { intros i' j Hi' Hj. destruct (Nat.eq_dec i' i) as [->|Hne].
          - destruct (Nat.lt_ge_cases j c) as [Hc|Hc]; [now apply Hz1|].
            destruct (Nat.eq_dec j (c + l)) as [->|Hjl]; [exact Epiv|].
            replace j with (c + (j - c)) by lia. apply Hb1. lia.
          - rewrite Ho1 by assumption. apply Hclr; lia. }
        pose proof (IH M1 (S i) G1 ltac:(lia) ltac:(lia) Hclr' M' found E) as R.
        replace (S i + n) with (i + S n) in R by lia. exact R.
Qed.

Lemma gsf_cols_spec M0 r c e n : forall M l, gs M0 M r c l -> e <= nr M0 ->
  forall M' kbar, gsf_cols n M r c e l = (M', kbar) ->
  gs M0 M' r c kbar /\ l <= kbar <= l + n /\
  (kbar < l + n -> forall i' j, r + kbar <= i' < e -> j <= c + kbar -> get M' i' j = false).
Proof.
  induction n as [|n IH]; intros M l G He M' kbar E; cbn [gsf_cols] in E.
  - injection E as <- <-. split; [assumption|]. split; [lia|]. intros H; lia.
  - destruct (gsf_scan (e - (r + l)) M r c l (r + l)) as [M1 found] eqn:Es.
    pose proof (gs_nr _ _ _ _ _ G) as Hnr. pose proof (gs_len _ _ _ _ _ G) as Hlen.
    pose proof (gsf_scan_spec M0 r c l (e - (r + l)) M (r + l) G ltac:(lia) ltac:(lia)
                  ltac:(intros i' j Hi'; lia) M1 found Es) as R.
    destruct found.
    + destruct (IH M1 (S l) R He M' kbar E) as (G' & Hk & Hz). split; [assumption|].
      split; [lia|]. intros Hlt. apply Hz. lia.
    + injection E as <- <-. destruct R as [G1 Hz]. split; [assumption|]. split; [lia|].
      intros _ i' j Hi' Hj. apply Hz; lia.
Qed.

(** * 4. tables: the split over 1..6 tables adds up to the single combination of the block rows *)
Ltac Zify.zify_post_hook ::= Z.div_mod_to_equations.

Lemma split_sizes_sum n kbar : 1 <= n <= 6 -> list_sum (split_sizes n kbar) = kbar.
Proof.
  intros Hn. unfold split_sizes.
  assert (n = 1 \/ n = 2 \/ n = 3 \/ n = 4 \/ n = 5 \/ n = 6) as [->|[->|[->|[->|[->| ->]]]]] by lia;
    cbn [seq map list_sum Nat.sub Nat.add];
    repeat match goal with
    | |- context [Nat.ltb ?a ?b] => destruct (Nat.ltb_spec a b); try lia
    | |- context [Nat.leb ?a ?b] => destruct (Nat.leb_spec a b); try lia
    end; cbn [andb list_sum fold_right]; lia.
Qed.

Lemma ntables_range k kbar : 0 < kbar -> 1 <= ntables k kbar <= 6.
Proof.
  intros H. unfold ntables.
  repeat match goal with |- context [Nat.ltb ?a ?b] => destruct (Nat.ltb_spec a b) end; lia.
Qed.

Lemma testbit_tbl_sum M c sizes : forall r bits j, wf M -> r + list_sum sizes <= nr M ->
  N.testbit (tbl_sum M r c sizes bits) (N.of_nat j) =
  (c <=? j) && (j <? nc M) &&
  xsum (list_sum sizes) (fun t => N.testbit bits (N.of_nat t) && get M (r + t) j).
Proof.
  induction sizes as [|ka rest IH]; intros r bits j HM Hr; cbn [tbl_sum].
  - cbn [list_sum fold_right xsum]. rewrite N.bits_0. now rewrite andb_false_r.
  - change (list_sum (ka :: rest)) with (ka + list_sum rest) in *.
    rewrite N.lxor_spec, IH by (auto; lia). unfold tbl_entry, mt_mask.
    rewrite N.land_spec, OpsProofs.testbit_colmask, testbit_mul_row.
    rewrite block_rows_length by (rewrite (wf_len M HM); lia).
    rewrite xsum_app.
    set (b := (c <=? j) && (j <? nc M)).
    replace (xsum ka (fun k => N.testbit (N.land bits (N.ones (N.of_nat ka))) (N.of_nat k) &&
                               N.testbit (nth k (block_rows M r ka) 0%N) (N.of_nat j)))
      with (xsum ka (fun t => N.testbit bits (N.of_nat t) && get M (r + t) j)).
    2:{ apply xsum_ext. intros t Ht. rewrite N.land_spec, testbit_ones_nat, nth_block_rows by assumption.
        destruct (Nat.ltb_spec t ka); [|lia]. now rewrite andb_true_r. }
    replace (xsum (list_sum rest) (fun t => N.testbit (N.shiftr bits (N.of_nat ka)) (N.of_nat t) &&
                                            get M (r + ka + t) j))
      with (xsum (list_sum rest) (fun k => N.testbit bits (N.of_nat (ka + k)) && get M (r + (ka + k)) j)).
    2:{ apply xsum_ext. intros t Ht. rewrite testbit_shiftr_nat.
        now replace (t + ka) with (ka + t) by lia; replace (r + ka + t) with (r + (ka + t)) by lia. }
    destruct b; [now rewrite !andb_true_l, andb_true_r|now rewrite andb_false_r].
Qed.

(** the "splitting lemma": whatever the split, the value added is the entry of ONE table over the
    whole block of [list_sum sizes] rows *)
Theorem tbl_sum_split M r c sizes bits : wf M -> r + list_sum sizes <= nr M ->
  tbl_sum M r c sizes bits =
  tbl_entry M r c (list_sum sizes) (N.land bits (N.ones (N.of_nat (list_sum sizes)))).
Proof.
  intros HM Hr. apply bits_ext_nat. intros j. rewrite testbit_tbl_sum by assumption.
  pose proof (testbit_tbl_sum M c [list_sum sizes] r bits j HM) as H1.
  change (list_sum [list_sum sizes]) with (list_sum sizes + 0) in H1. cbn [tbl_sum] in H1.
  rewrite Nat.add_0_r, N.lxor_0_r in H1. now rewrite H1 by lia.
Qed.

(** bridge to the faithful table model Gray.make_table: the entry found through L in a freshly
    made table has the modelled value on the columns [c, ncols), for every stale previous content *)
Theorem tbl_entry_is_table_lookup k M r c T0 L0 x :
  r + k <= nr M -> 2 ^ k <= length T0 -> 2 ^ k <= length L0 ->
  N.land (nth 0 T0 0%N) (mt_mask M c) = 0%N -> (x < 2 ^ N.of_nat k)%N ->
  N.land (tlookup (make_table M r c k T0 L0) x) (mt_mask M c) = tbl_entry M r c k x.
Proof. intros. unfold tbl_entry. now apply gray_lookup_masked_lib. Qed.

Lemma tables_char k M r c kbar bits j : wf M -> 0 < kbar -> r + kbar <= nr M ->
  N.testbit (tables k M r c kbar bits) (N.of_nat j) =
  (c <=? j) && (j <? nc M) && xsum kbar (fun t => N.testbit bits (N.of_nat t) && get M (r + t) j).
Proof.
  intros HM Hk Hr. unfold tables.
  pose proof (split_sizes_sum (ntables k kbar) kbar (ntables_range k kbar Hk)) as Hs.
  rewrite testbit_tbl_sum by (auto; lia). now rewrite Hs.
Qed.

Lemma tables_bounded k M r c kbar bits : wf M -> 0 < kbar -> r + kbar <= nr M ->
  bounded (nc M) (tables k M r c kbar bits).
Proof.
  intros HM Hk Hr j Hj. rewrite tables_char by assumption.
  destruct (Nat.ltb_spec j (nc M)); [lia|]. now rewrite andb_false_r.
Qed.

(** the value added by a table is a combination of the block rows (of any matrix sharing them) *)
Lemma tbl_sum_in_rowspace M0 Mx r c kbar : wf M0 -> zero_below M0 r c ->
  (forall i, r <= i < r + kbar -> row Mx i = row M0 i) ->
  forall sizes r' bits, r <= r' -> r' + list_sum sizes <= r + kbar ->
  in_rowspace (tbl_sum M0 r' c sizes bits) Mx.
Proof.
  intros HM Hzb Hsame. induction sizes as [|ka rest IH]; intros r' bits Hr Hs; cbn [tbl_sum].
  - apply in_rowspace_0.
  - change (list_sum (ka :: rest)) with (ka + list_sum rest) in Hs.
    apply in_rowspace_lxor; [|apply IH; lia].
    unfold tbl_entry, mt_mask.
    set (x := N.land bits (N.ones (N.of_nat ka))).
    assert (Hin : forall v, In v (block_rows M0 r' ka) -> exists b, b < ka /\ v = row M0 (r' + b)).
    { intros v Hv. destruct (In_nth _ _ 0%N Hv) as [b [Hb <-]].
      assert (Hb' : b < ka). { unfold block_rows in Hb. rewrite firstn_length in Hb. lia. }
      exists b. split; [assumption|]. now apply nth_block_rows. }
    rewrite land_colmask_id.
    + apply in_rowspace_mul_row. intros v Hv. destruct (Hin v Hv) as [b [Hb ->]].
      rewrite <- Hsame by lia. apply in_rowspace_row.
    + apply bounded_mul_row. now apply block_rows_bounded.
    + apply (mul_row_closed (fun v => forall j, j < c -> N.testbit v (N.of_nat j) = false)).
      * intros j _. apply N.bits_0.
      * intros a b Ha Hb j Hj. now rewrite N.lxor_spec, Ha, Hb.
      * intros v Hv j Hj. destruct (Hin v Hv) as [b [Hb ->]]. apply Hzb; [lia|assumption].
Qed.

Lemma row_equiv_add_vectors M M' (b : nat -> bool) :
  length (rows M') = length (rows M) -> nr M = nr M' -> nc M = nc M' ->
  (forall i, b i = false -> row M' i = row M i) ->
  (forall i, b i = true -> exists v, row M' i = N.lxor (row M i) v /\ in_rowspace v M /\ in_rowspace v M') ->
  row_equiv M M'.
Proof.
  intros Hl Hnr Hnc Hf Ht. split; [assumption|]. split; [assumption|]. split.
  - apply rs_incl_rows. intros i _. destruct (b i) eqn:E.
    + destruct (Ht i E) as (v & Ev & _ & Hv). replace (row M i) with (N.lxor (row M' i) v).
      * apply in_rowspace_lxor; [apply in_rowspace_row|assumption].
      * rewrite Ev. apply lxor_cancel_r.
    + rewrite <- (Hf i E). apply in_rowspace_row.
  - apply rs_incl_rows. intros i _. destruct (b i) eqn:E.
    + destruct (Ht i E) as (v & -> & Hv & _). apply in_rowspace_lxor; [apply in_rowspace_row|assumption].
    + rewrite (Hf i E). apply in_rowspace_row.
Qed.

(** mzd_process_rowsN with the tables made from M0, whose block rows r..r+kbar-1 (zero before
    column c) are also the rows of the processed matrix M; the processed range avoids the block *)
Lemma process_rows_spec k M0 M r c kbar lo hi : wf M0 -> wf M -> nr M = nr M0 -> nc M = nc M0 ->
  0 < kbar -> r + kbar <= nr M0 -> zero_below M0 r c ->
  (forall i j, r <= i < r + kbar -> get M i j = get M0 i j) ->
  (hi <= r \/ r + kbar <= lo) ->
  let M' := process_rows M (tables k M0 r c kbar) lo hi c kbar in
  wf M' /\ nr M' = nr M /\ nc M' = nc M /\ row_equiv M M' /\
  forall i j, get M' i j =
    xorb (get M i j) ((lo <=? i) && (i <? hi) && xsum kbar (fun t => get M i (c + t) && get M0 (r + t) j)).
Proof.
  intros HM0 HM Hnr Hnc Hk Hr Hzb Hsame Hdisj M'.
  assert (Hrow : forall i, row M' i =
            if (i <? length (rows M)) && ((lo <=? i) && (i <? hi))
            then N.lxor (row M i) (tables k M0 r c kbar
                                     (N.land (N.shiftr (row M i) (N.of_nat c)) (N.ones (N.of_nat kbar))))
            else row M i).
  { intros i. unfold M', process_rows. rewrite row_map_rows.
    destruct (Nat.ltb_spec i (length (rows M))); cbn [andb]; [reflexivity|].
    now rewrite Span.row_overflow. }
  assert (Hsame_row : forall i, r <= i < r + kbar -> row M i = row M0 i).
  { intros i Hi. apply (row_ext (nc M)); [now apply wf_row_bounded|rewrite Hnc; now apply wf_row_bounded|].
    intros j _. now apply Hsame. }
  assert (HM' : wf M').
  { unfold M', process_rows. apply wf_map_rows; [assumption|]. intros i x Hx. cbn [nc].
    destruct ((lo <=? i) && (i <? hi)); [|assumption]. apply bounded_lxor; [assumption|].
    rewrite Hnc. apply tables_bounded; auto. }
  split; [exact HM'|]. split; [reflexivity|]. split; [reflexivity|]. split.
  - apply (row_equiv_add_vectors M M' (fun i => (i <? length (rows M)) && ((lo <=? i) && (i <? hi)))).
    + unfold M', process_rows. apply rows_map_rows_length.
    + reflexivity.
    + reflexivity.
    + intros i E. rewrite Hrow. cbv beta in E. now rewrite E.
    + intros i E. cbv beta in E. eexists. split; [rewrite Hrow, E; reflexivity|].
      unfold tables. split.
      * apply (tbl_sum_in_rowspace M0 M r c kbar HM0 Hzb Hsame_row); [lia|].
        rewrite split_sizes_sum by now apply ntables_range. lia.
      * assert (Hsame' : forall i', r <= i' < r + kbar -> row M' i' = row M0 i').
        { intros i' Hi'. rewrite Hrow.
          destruct (Nat.leb_spec lo i'), (Nat.ltb_spec i' hi); cbn [andb]; try (rewrite andb_false_r);
            try now apply Hsame_row. lia. }
        apply (tbl_sum_in_rowspace M0 M' r c kbar HM0 Hzb Hsame'); [lia|].
        rewrite split_sizes_sum by now apply ntables_range. lia.
  - intros i j. unfold get at 1. rewrite Hrow.
    destruct (Nat.ltb_spec i (length (rows M))) as [Hi|Hi]; cbn [andb].
    + destruct ((lo <=? i) && (i <? hi)); cbn [andb]; [|now rewrite xorb_false_r].
      rewrite N.lxor_spec. fold (get M i j). f_equal. rewrite tables_char by auto.
      destruct (Nat.ltb_spec j (nc M0)) as [Hj|Hj].
      * destruct (Nat.leb_spec c j) as [Hc|Hc]; cbn [andb].
        -- apply xsum_ext. intros t Ht. rewrite N.land_spec, testbit_ones_nat, testbit_shiftr_nat.
           destruct (Nat.ltb_spec t kbar); [|lia]. rewrite andb_true_r. unfold get.
           now replace (t + c) with (c + t) by lia.
        -- symmetry. apply xsum_zero. intros t Ht. rewrite Hzb by lia. apply andb_false_r.
      * rewrite andb_false_r. cbn [andb]. symmetry. apply xsum_zero. intros t Ht.
        rewrite (get_out_col M0) by assumption. apply andb_false_r.
    + rewrite (Span.row_overflow M i Hi), N.bits_0. unfold get. rewrite (Span.row_overflow M i Hi), N.bits_0.
      symmetry. rewrite xorb_false_l. replace (xsum kbar _) with false; [now rewrite andb_false_r|].
      symmetry. apply xsum_zero. intros t Ht. now rewrite N.bits_0.
Qed.

(** * 5. one block iteration re-establishes the loop invariant [ginv] of Alg/GaussProofs.v
    (rows < r = length piv in (reduced) echelon form with pivots < c, rows >= r zero before c,
    row space of A) at the new cursor *)
Lemma sorted_app_seq piv c k : StronglySorted lt piv -> (forall j, In j piv -> j < c) ->
  StronglySorted lt (piv ++ seq c k) /\ forall j, In j (piv ++ seq c k) -> j < c + k.
Proof.
  intros Hs Hlt. induction k as [|k [IH1 IH2]].
  - cbn [seq]. rewrite app_nil_r, Nat.add_0_r. now split.
  - rewrite seq_S, app_assoc. split.
    + now apply sorted_app_single.
    + intros j Hj. apply in_app_or in Hj as [Hj|[<-|[]]]; [specialize (IH2 j Hj)|]; lia.
Qed.

Lemma nth_app_seq piv c k i : i < length piv + k ->
  nth i (piv ++ seq c k) 0 = if i <? length piv then nth i piv 0 else c + (i - length piv).
Proof.
  intros Hi. destruct (Nat.ltb_spec i (length piv)).
  - now apply app_nth1.
  - rewrite app_nth2 by assumption. apply seq_nth. lia.
Qed.

Lemma ginv_after_block full A c M piv M3 kbar c' : ginv full A c M piv ->
  wf M3 -> nr M3 = nr M -> nc M3 = nc M -> row_equiv M M3 -> length piv + kbar <= nr M ->
  (forall i j, i < length piv -> j < c -> get M3 i j = get M i j) ->
  zero_below M3 (length piv) c ->
  (forall t, t < kbar -> get M3 (length piv + t) (c + t) = true) ->
  (forall t u, u < t -> t < kbar -> get M3 (length piv + t) (c + u) = false) ->
  (full = true -> forall t u, t < u -> u < kbar -> get M3 (length piv + t) (c + u) = false) ->
  (full = true -> forall i u, i < length piv -> u < kbar -> get M3 i (c + u) = false) ->
  c + kbar <= c' ->
  (forall i j, length piv + kbar <= i -> c <= j < c' -> get M3 i j = false) ->
  ginv full A c' M3 (piv ++ seq c kbar).
Proof.
  intros [Hwf Heq Hlen Hs Hlt Hlead Hzero Hfull] HM3 Hnr Hnc Heq3 Hrk Hold Hzb Hdiag Hlow Hup Habove Hc' Hbelow.
  set (r := length piv) in *.
  destruct (sorted_app_seq piv c kbar Hs Hlt) as [Hs' Hlt'].
  assert (Hlen' : length (piv ++ seq c kbar) = r + kbar) by (rewrite app_length, seq_length; reflexivity).
  constructor.
  - exact HM3.
  - now apply (row_equiv_trans A M).
  - rewrite Hlen'. lia.
  - exact Hs'.
  - intros j Hj. specialize (Hlt' j Hj). lia.
  - rewrite Hlen'. intros i Hi. rewrite nth_app_seq by (fold r; lia). fold r.
    destruct (Nat.ltb_spec i r) as [Hir|Hir].
    + pose proof (Hlead i Hir) as Hl. apply lead_Some in Hl as [Hl1 Hl2].
      assert (Hp : nth i piv 0 < c) by (apply Hlt, nth_In; exact Hir).
      apply lead_Some. split.
      * change (get M3 i (nth i piv 0) = true). rewrite Hold by assumption. exact Hl1.
      * intros j' Hj'. change (get M3 i j' = false). rewrite Hold by (auto; lia). now apply Hl2.
    + replace i with (r + (i - r)) at 1 by lia. apply lead_Some. split.
      * apply Hdiag. lia.
      * intros j' Hj'. change (get M3 (r + (i - r)) j' = false).
        destruct (Nat.lt_ge_cases j' c) as [Hjc|Hjc]; [apply Hzb; lia|].
        replace j' with (c + (j' - c)) by lia. apply Hlow; lia.
  - rewrite Hlen'. intros i j Hi Hj. destruct (Nat.lt_ge_cases j c) as [Hjc|Hjc].
    + apply Hzb; [lia|assumption].
    + apply Hbelow; lia.
  - rewrite Hlen'. intros Hf i i' Hi Hne. rewrite nth_app_seq by (fold r; lia). fold r.
    destruct (Nat.ltb_spec i r) as [Hir|Hir].
    + assert (Hp : nth i piv 0 < c) by (apply Hlt, nth_In; exact Hir).
      destruct (Nat.lt_ge_cases i' r) as [Hi'|Hi'].
      * rewrite Hold by assumption. now apply (Hfull Hf).
      * now apply Hzb.
    + destruct (Nat.lt_ge_cases i' r) as [Hi'|Hi'].
      * apply (Habove Hf); [assumption|lia].
      * destruct (Nat.lt_ge_cases i' (r + kbar)) as [Hi2|Hi2].
        -- replace i' with (r + (i' - r)) by lia.
           destruct (Nat.lt_ge_cases (i' - r) (i - r)) as [Hlt2|Hge2].
           ++ apply (Hup Hf); lia.
           ++ apply Hlow; lia.
        -- apply Hbelow; lia.
Qed.

Lemma gs_top_row M0 M r c l i : wf M0 -> gs M0 M r c l -> i < r -> row M i = row M0 i.
Proof.
  intros HM0 G Hi. apply (row_ext (nc M)).
  - apply wf_row_bounded, (gs_wf _ _ _ _ _ G).
  - rewrite (gs_nc _ _ _ _ _ G). now apply wf_row_bounded.
  - intros j _. now apply (gs_top _ _ _ _ _ G).
Qed.

Lemma xsum_blk_id M r c l (f : nat -> bool) u : blk_id M r c l -> u < l ->
  xsum l (fun t => f t && get M (r + t) (c + u)) = f u.
Proof.
  intros Hb Hu. rewrite (xsum_single _ _ u Hu).
  - rewrite Hb by assumption. rewrite Nat.eqb_refl. apply andb_true_r.
  - intros t Ht Hne. rewrite Hb by assumption. destruct (Nat.eqb_spec t u); [contradiction|apply andb_false_r].
Qed.

Theorem block_full_spec A k piv c M kk : ginv true A c M piv -> 1 <= kk -> c + kk <= nc M ->
  forall M3 kbar, block_step k true M (length piv) c kk = (M3, kbar) ->
  kbar <= kk /\
  ginv true A (if kbar =? kk then c + kbar else S (c + kbar)) M3 (piv ++ seq c kbar).
Proof.
  intros Hg Hkk Hc M3 kbar E. set (r := length piv) in *.
  pose proof (gi_wf _ _ _ _ _ Hg) as HM. pose proof (gi_len _ _ _ _ _ Hg) as Hlen. fold r in Hlen.
  assert (Hzb : zero_below M r c) by (intros i j Hi Hj; now apply (gi_zero _ _ _ _ _ Hg)).
  unfold block_step in E. unfold gauss_submatrix_full in E.
  destruct (gsf_cols kk M r c (nr M) 0) as [M1 kb] eqn:Eg.
  destruct (gsf_cols_spec M r c (nr M) kk M 0 (gs_init M r c HM Hlen Hzb) (Nat.le_refl _) M1 kb Eg)
    as (G1 & Hkb & Hnf). cbn [Nat.add] in Hkb, Hnf.
  pose proof (gs_wf _ _ _ _ _ G1) as HM1. pose proof (gs_nr _ _ _ _ _ G1) as Hnr1.
  pose proof (gs_nc _ _ _ _ _ G1) as Hnc1. pose proof (gs_len _ _ _ _ _ G1) as Hlen1.
  pose proof (gs_zb _ _ _ _ _ G1) as Hzb1. pose proof (gs_blk _ _ _ _ _ G1) as Hblk1.
  (* rows at and below r + kb vanish on the block columns when the block was cut short *)
  assert (Hshort : kb < kk -> forall i j, r + kb <= i -> c <= j < S (c + kb) -> get M1 i j = false).
  { intros Hlt i j Hi Hj. destruct (Nat.lt_ge_cases i (nr M)) as [Hin|Hin].
    - apply Hnf; lia.
    - apply get_out_row; [assumption|lia]. }
  destruct (Nat.ltb_spec 0 kb) as [Hpos|Hzero].
  - (* tables *)
    set (T := tables k M1 r c kb) in *.
    set (M2 := if kb =? kk then process_rows M1 T (r + kb) (nr M) c kb else M1) in *.
    injection E as <- <-. split; [lia|].
    assert (H2 : wf M2 /\ nr M2 = nr M1 /\ nc M2 = nc M1 /\ row_equiv M1 M2 /\
                 (forall i j, i < r + kb -> get M2 i j = get M1 i j) /\
                 (forall i j, r + kb <= i -> get M2 i j =
                    if kb =? kk then xorb (get M1 i j) (xsum kb (fun t => get M1 i (c + t) && get M1 (r + t) j))
                    else get M1 i j)).
    { unfold M2. destruct (Nat.eqb_spec kb kk) as [Ek|Ek].
      - destruct (process_rows_spec k M1 M1 r c kb (r + kb) (nr M) HM1 HM1 eq_refl eq_refl Hpos
                    ltac:(lia) Hzb1 ltac:(reflexivity) ltac:(right; lia)) as (W1 & W2 & W3 & W4 & W5).
        fold T in W1, W2, W3, W4, W5. splits; auto.
        + intros i j Hi. rewrite W5. destruct (Nat.leb_spec (r + kb) i); [lia|]. cbn [andb]. apply xorb_false_r.
        + intros i j Hi. rewrite W5. destruct (Nat.leb_spec (r + kb) i); [|lia].
          destruct (Nat.ltb_spec i (nr M)); cbn [andb]; [reflexivity|].
          rewrite (get_out_row M1 i j) by (auto; lia). rewrite !xorb_false_l. symmetry. apply xsum_zero.
          intros t Ht. rewrite (get_out_row M1 i) by (auto; lia). reflexivity.
      - splits; auto. apply row_equiv_refl. }
    destruct H2 as (HM2 & Hnr2 & Hnc2 & Heq2 & Hkeep2 & Hbel2).
    destruct (process_rows_spec k M1 M2 r c kb 0 r HM1 HM2 Hnr2 Hnc2 Hpos ltac:(lia) Hzb1
                ltac:(intros i j Hi; apply Hkeep2; lia) ltac:(left; lia)) as (HM3 & Hnr3 & Hnc3 & Heq3 & Hg3).
    fold T in HM3, Hnr3, Hnc3, Heq3, Hg3.
    set (M3 := process_rows M2 T 0 r c kb) in *.
    assert (Hlow3 : forall i j, r <= i -> get M3 i j = get M2 i j).
    { intros i j Hi. rewrite Hg3. destruct (Nat.ltb_spec i r); [lia|]. rewrite andb_false_r. apply xorb_false_r. }
    apply (ginv_after_block true A c M piv M3 kb); fold r; auto; try lia; try congruence.
    + apply (row_equiv_trans M M1); [apply (gs_eq _ _ _ _ _ G1)|].
      apply (row_equiv_trans M1 M2); assumption.
    + intros i j Hi Hj. rewrite Hg3. replace (xsum kb _) with false.
      * rewrite andb_false_r, xorb_false_r, Hkeep2 by lia. now apply (gs_top _ _ _ _ _ G1).
      * symmetry. apply xsum_zero. intros t Ht. rewrite (Hzb1 (r + t) j) by lia. apply andb_false_r.
    + intros i j Hi Hj. rewrite Hlow3 by assumption.
      destruct (Nat.lt_ge_cases i (r + kb)) as [Hi2|Hi2].
      * rewrite Hkeep2 by assumption. now apply Hzb1.
      * rewrite Hbel2 by assumption. destruct (kb =? kk); [|now apply Hzb1].
        rewrite (Hzb1 i j) by (auto; lia). rewrite xorb_false_l. apply xsum_zero. intros t Ht.
        rewrite (Hzb1 (r + t) j) by lia. apply andb_false_r.
    + intros t Ht. rewrite Hlow3, Hkeep2 by lia. rewrite Hblk1 by assumption. apply Nat.eqb_refl.
    + intros t u Hu Ht. rewrite Hlow3, Hkeep2 by lia. rewrite Hblk1 by lia.
      destruct (Nat.eqb_spec t u); [lia|reflexivity].
    + intros _ t u Hu Ht. rewrite Hlow3, Hkeep2 by lia. rewrite Hblk1 by lia.
      destruct (Nat.eqb_spec t u); [lia|reflexivity].
    + intros _ i u Hi Hu. rewrite Hg3. destruct (Nat.ltb_spec i r); [|lia]. cbn [andb].
      rewrite (xsum_blk_id M1 r c kb (fun t => get M2 i (c + t)) u Hblk1 Hu). apply xorb_nilpotent.
    + destruct (kb =? kk); lia.
    + intros i j Hi Hj. rewrite Hlow3 by lia. rewrite Hbel2 by assumption.
      destruct (Nat.eqb_spec kb kk) as [Ek|Ek].
      * replace j with (c + (j - c)) by lia.
        rewrite (xsum_blk_id M1 r c kb (fun t => get M1 i (c + t)) (j - c) Hblk1 ltac:(lia)).
        apply xorb_nilpotent.
      * apply Hshort; lia.
  - (* kbar = 0: column c has no pivot *)
    assert (kb = 0) by lia. subst kb. injection E as <- <-. split; [lia|].
    destruct (Nat.eqb_spec 0 kk); [lia|]. rewrite Nat.add_0_r in *.
    apply (ginv_after_block true A c M piv M1 0); fold r; auto; try lia; try congruence.
    + apply (gs_eq _ _ _ _ _ G1).
    + intros i j Hi Hj. now apply (gs_top _ _ _ _ _ G1).
    + intros i j Hi Hj. apply Hshort; lia.
Qed.

(** * 6. the cursor update: mzd_find_pivot + row swap (brilliantrussian.c:808-823) *)
Lemma ginv_advance full A c c' M piv : ginv full A c M piv -> c <= c' ->
  (forall i j, length piv <= i -> c <= j < c' -> get M i j = false) -> ginv full A c' M piv.
Proof.
  intros [Hwf Heq Hlen Hs Hlt Hlead Hzero Hfull] Hc Hz. constructor; auto.
  - intros j Hj. specialize (Hlt j Hj). lia.
  - intros i j Hi Hj. destruct (Nat.lt_ge_cases j c); [now apply Hzero|apply Hz; lia].
Qed.

Lemma ginv_find_pivot_some full A c c0 M piv rbar cbar : ginv full A c M piv -> c0 <= c ->
  find_pivot M (length piv) c0 = Some (rbar, cbar) ->
  ginv full A cbar (row_swap M (length piv) rbar) piv /\ c <= cbar < nc M /\
  get (row_swap M (length piv) rbar) (length piv) cbar = true.
Proof.
  intros Hg Hc0 E. pose proof (gi_wf _ _ _ _ _ Hg) as HM.
  destruct (find_pivot_spec M (length piv) c0 HM) as [_ HS].
  destruct (HS rbar cbar E) as (G1 & G2 & G3 & G4 & G5).
  assert (Hcc : c <= cbar).
  { destruct (Nat.le_gt_cases c cbar); [assumption|].
    rewrite (gi_zero _ _ _ _ _ Hg) in G1 by lia. discriminate. }
  assert (Hg' : ginv full A cbar M piv).
  { apply (ginv_advance full A c); auto. intros i j Hi Hj. apply G4; lia. }
  destruct (ginv_swap full A cbar M piv rbar Hg' ltac:(lia) G1) as [H1 H2].
  split; [assumption|]. split; [lia|assumption].
Qed.

Lemma ginv_find_pivot_none full A c c0 M piv : ginv full A c M piv -> c0 <= c -> c <= nc M ->
  find_pivot M (length piv) c0 = None -> ginv full A (nc A) M piv.
Proof.
  intros Hg Hc0 Hc E. pose proof (gi_wf _ _ _ _ _ Hg) as HM.
  destruct (find_pivot_spec M (length piv) c0 HM) as [[HN _] _].
  destruct (gi_equiv _ _ _ _ _ Hg) as (_ & Hnc & _). rewrite Hnc.
  apply (ginv_advance full A c); auto. intros i j Hi Hj. apply (HN E); lia.
Qed.

Lemma gauss_true_pair A : gauss_delayed true 0 A = (rank A, rref A).
Proof. unfold rank, rref, echelonize. apply surjective_pairing. Qed.

Lemma ginv_result_full A M piv : wf A -> ginv true A (nc A) M piv ->
  (length piv, M) = gauss_delayed true 0 A.
Proof.
  intros HA Hg. destruct (ginv_final true A M piv Hg) as (HM & Heq & Hrr).
  destruct (rref_canonical A M piv HA HM Hrr Heq) as [-> ->]. symmetry. apply gauss_true_pair.
Qed.

(** * 7. the main loop, reduced mode, any switching oracle *)
Definition full_ok (A M : mat) (piv : list nat) : Prop := wf M /\ row_equiv A M /\ is_rref M piv.

Lemma ginv_full_ok A M piv : ginv true A (nc A) M piv -> full_ok A M piv.
Proof. intros Hg. exact (ginv_final true A M piv Hg). Qed.

Lemma full_ok_result A M piv : wf A -> full_ok A M piv -> (length piv, M) = gauss_delayed true 0 A.
Proof.
  intros HA (HM & Heq & Hrr).
  destruct (rref_canonical A M piv HA HM Hrr Heq) as [-> ->]. symmetry. apply gauss_true_pair.
Qed.

Section MainFull.
  Variable ech : bool -> mat -> nat * mat.
  Variables k ktop : nat.
  Variable oracle : nat -> bool.
  Variable A : mat.
  Hypothesis Hk : 1 <= k.
  (** what the hand-over to PLUQ (+ top reduction) achieves; discharged in section 9 *)
  Hypothesis switch_ok : forall it c M piv, oracle it = true ->
    ginv true A c M piv -> c < nc M -> length piv < nr M ->
    exists M' piv', switch ech ktop true M (length piv) c = Some (length piv', M') /\ full_ok A M' piv'.

  Lemma m4ri_loop_full fuel : forall it c M piv, ginv true A c M piv -> c <= nc M -> nc M - c <= fuel ->
    exists M' piv', m4ri_loop ech k ktop oracle fuel it true M (length piv) c = Some (length piv', M') /\
                    full_ok A M' piv'.
  Proof.
    induction fuel as [|fuel IH]; intros it c M piv Hg Hc Hf.
    - assert (c = nc M) by lia. subst c. cbn [m4ri_loop]. rewrite Nat.leb_refl.
      exists M, piv. split; [reflexivity|]. apply ginv_full_ok.
      destruct (gi_equiv _ _ _ _ _ Hg) as (_ & Hnc & _). now rewrite Hnc.
    - cbn [m4ri_loop]. destruct (Nat.leb_spec (nc M) c) as [Hge|Hlt].
      + assert (c = nc M) by lia. subst c. exists M, piv. split; [reflexivity|]. apply ginv_full_ok.
        destruct (gi_equiv _ _ _ _ _ Hg) as (_ & Hnc & _). now rewrite Hnc.
      + destruct (oracle it && (length piv <? nr M)) eqn:Eo.
        * apply andb_true_iff in Eo as [Eo1 Eo]. apply Nat.ltb_lt in Eo. now apply (switch_ok it).
        * set (kk := Nat.min (6 * k) (nc M - c)).
          destruct (block_step k true M (length piv) c kk) as [M1 kbar] eqn:Eb.
          destruct (block_full_spec A k piv c M kk Hg ltac:(lia) ltac:(lia) M1 kbar Eb) as [Hkb Hg1].
          assert (Hlen1 : length (piv ++ seq c kbar) = length piv + kbar)
            by (rewrite app_length, seq_length; reflexivity).
          assert (Hnc1 : nc M1 = nc M).
          { destruct (gi_equiv _ _ _ _ _ Hg1) as (_ & E1 & _).
            destruct (gi_equiv _ _ _ _ _ Hg) as (_ & E2 & _). congruence. }
          rewrite <- Hlen1.
          destruct (Nat.eqb_spec kbar kk) as [Ek|Ek].
          -- apply IH; [assumption|lia|lia].
          -- destruct (find_pivot M1 (length (piv ++ seq c kbar)) (c + kbar)) as [[rbar cbar]|] eqn:Ef.
             ++ destruct (ginv_find_pivot_some true A _ (c + kbar) M1 _ rbar cbar Hg1 ltac:(lia) Ef)
                  as (Hg2 & Hcb & _).
                apply IH; [assumption|cbn [nc row_swap set_row]; lia|cbn [nc row_swap set_row]; lia].
             ++ exists M1, (piv ++ seq c kbar). split; [reflexivity|]. apply ginv_full_ok.
                apply (ginv_find_pivot_none true A _ (c + kbar) M1 _ Hg1); [lia|lia|assumption].
  Qed.
End MainFull.

(** mzd_echelonize_m4ri(A, 1, k): heuristic off *)
Theorem m4ri_run_full_spec k A : 1 <= k -> wf A -> m4ri_run k true A = Some (gauss_delayed true 0 A).
Proof.
  intros Hk HA. unfold m4ri_run, m4ri_model. cbn [andb].
  destruct (m4ri_loop_full (fun _ W => (0, W)) k k (fun _ => false) A Hk
              ltac:(intros it c M piv Ho; discriminate) (nc A) 1 0 A [] (ginv_init true A HA)
              ltac:(lia) ltac:(lia)) as (M' & piv' & E & Hg).
  cbn [length] in E. rewrite E. f_equal. now apply full_ok_result.
Qed.

(** * 8. _mzd_top_echelonize_m4ri on a matrix whose rows >= r are in row echelon form *)
Lemma gsf_scan_zero n : forall M r c l i,
  (forall i', i <= i' < i + n -> read_bits M i' c (S l) = 0%N) -> gsf_scan n M r c l i = (M, false).
Proof.
  induction n as [|n IH]; intros M r c l i H; cbn [gsf_scan]; [reflexivity|].
  rewrite (H i) by lia. cbn [N.eqb]. apply IH. intros i' Hi'. apply H. lia.
Qed.

Lemma fold_left_noop {X} (f : X -> nat -> X) l x : (forall y t, In t l -> f y t = y) -> fold_left f l x = x.
Proof.
  revert x. induction l as [|t l IH]; intros x H; cbn [fold_left]; [reflexivity|].
  rewrite H by now left. apply IH. intros y t' Ht'. apply H. now right.
Qed.

Lemma clear_tmp_noop M i r c l tmp : (forall t, t < l -> N.testbit tmp (N.of_nat t) = false) ->
  clear_tmp M i r c l tmp = M.
Proof.
  intros H. unfold clear_tmp. apply fold_left_noop. intros y t Ht. apply in_seq in Ht. now rewrite H by lia.
Qed.

Lemma read_bits_zero M i c n : (forall u, u < n -> get M i (c + u) = false) -> read_bits M i c n = 0%N.
Proof.
  intros H. apply bits_ext_nat. intros t. rewrite testbit_read_bits, N.bits_0.
  destruct (Nat.ltb_spec t n); [now rewrite H|reflexivity].
Qed.

Lemma gsf_scan_top M r c l n : wf M -> r + l + n <= nr M ->
  (forall i u, r + l <= i -> u < l -> get M i (c + u) = false) ->
  (forall i, r + l < i -> get M i (c + l) = false) ->
  gsf_scan n M r c l (r + l) =
  if (0 <? n) && get M (r + l) (c + l) then (clear_above M r (r + l) (c + l), true) else (M, false).
Proof.
  intros HM Hn Hz Hcol. destruct n as [|n]; [reflexivity|].
  destruct (Nat.ltb_spec 0 (S n)); [|lia]. cbn [andb gsf_scan].
  destruct (get M (r + l) (c + l)) eqn:Ep.
  - assert (Hb : N.testbit (read_bits M (r + l) c (S l)) (N.of_nat l) = true).
    { rewrite testbit_read_bits. destruct (Nat.ltb_spec l (S l)); [exact Ep|lia]. }
    destruct (N.eqb_spec (read_bits M (r + l) c (S l)) 0) as [E0|E0].
    { rewrite E0, N.bits_0 in Hb. discriminate. }
    rewrite clear_tmp_noop.
    + rewrite Ep. now rewrite row_swap_same.
    + intros t Ht. rewrite testbit_read_bits. rewrite Hz by lia. apply andb_false_r.
  - assert (E0 : read_bits M (r + l) c (S l) = 0%N).
    { apply read_bits_zero. intros u Hu. destruct (Nat.eq_dec u l) as [->|Hne]; [exact Ep|apply Hz; lia]. }
    rewrite E0. cbn [N.eqb]. apply gsf_scan_zero. intros i' Hi'. apply read_bits_zero.
    intros u Hu. destruct (Nat.eq_dec u l) as [->|Hne]; [apply Hcol; lia|apply Hz; lia].
Qed.

(** clearing above a pivot of a row echelon form keeps it a row echelon form on the same pivots *)
Lemma clear_above_ref M piv r s : wf M -> is_ref M piv -> r <= s -> s < length piv ->
  let j := nth s piv 0 in let M' := clear_above M r s j in
  wf M' /\ nr M' = nr M /\ nc M' = nc M /\ row_equiv M M' /\ is_ref M' piv /\
  forall i j', get M' i j' =
    xorb (get M i j') ((r <=? i) && (i <? s) && get M i j && (j <=? j') && get M s j').
Proof.
  intros HM Href Hrs Hs j M'.
  pose proof Href as (Hsort & Hlen & Hlead & Hzero).
  assert (Hpz : forall j', j' < j -> get M s j' = false) by (intros j' Hj'; now apply (ref_get_before M piv)).
  destruct (clear_above_spec M r s j HM ltac:(lia) Hrs Hpz) as (HM' & Hnr & Hnc & Heq & Hg).
  fold M' in HM', Hnr, Hnc, Heq, Hg. splits; auto.
  split; [assumption|]. split; [lia|]. split.
  - intros i Hi. specialize (Hlead i Hi). apply lead_Some in Hlead as [H1 H2]. apply lead_Some.
    destruct (Nat.lt_ge_cases i s) as [His|His].
    + assert (Hp : nth i piv 0 < j) by (apply sorted_nth_lt; assumption).
      split.
      * change (get M' i (nth i piv 0) = true). rewrite Hg.
        destruct (Nat.leb_spec j (nth i piv 0)); [lia|]. now rewrite andb_false_r, andb_false_l, xorb_false_r.
      * intros j' Hj'. change (get M' i j' = false). rewrite Hg.
        destruct (Nat.leb_spec j j'); [lia|]. rewrite andb_false_r, andb_false_l, xorb_false_r. now apply H2.
    + split.
      * change (get M' i (nth i piv 0) = true). rewrite Hg. destruct (Nat.ltb_spec i s); [lia|].
        now rewrite andb_false_r, !andb_false_l, xorb_false_r.
      * intros j' Hj'. change (get M' i j' = false). rewrite Hg. destruct (Nat.ltb_spec i s); [lia|].
        rewrite andb_false_r, !andb_false_l, xorb_false_r. now apply H2.
  - intros i Hi. apply (row_ext (nc M')); [now apply wf_row_bounded|apply bounded_0|].
    intros j' _. change (get M' i j' = N.testbit 0 (N.of_nat j')). rewrite Hg, N.bits_0.
    destruct (Nat.ltb_spec i s); [lia|]. rewrite andb_false_r, !andb_false_l, xorb_false_r.
    now apply (ref_get_zero M piv).
Qed.

Section TopBlock.
  Variables (M0 : mat) (piv : list nat) (r c mr kk : nat).
  Hypothesis HM0 : wf M0.
  Hypothesis Href0 : is_ref M0 piv.
  Hypothesis Hge : forall i, r <= i < length piv -> c <= nth i piv 0.
  Hypothesis Hpre : forall i i', r <= i < length piv -> mr <= i' < i -> get M0 i' (nth i piv 0) = false.

  (** state of _mzd_gauss_submatrix_full inside the top reduction after l pivots of the block *)
  Record ts (M : mat) (l : nat) : Prop := mk_ts {
    ts_wf : wf M;
    ts_nr : nr M = nr M0;
    ts_nc : nc M = nc M0;
    ts_eq : row_equiv M0 M;
    ts_ref : is_ref M piv;
    ts_frame : forall i j, i < r \/ r + l <= i -> get M i j = get M0 i j;
    ts_len : r + l <= length piv;
    ts_piv : forall t, t < l -> nth (r + t) piv 0 = c + t;
    ts_bu : forall t u, t < u -> u < l -> get M (r + t) (c + u) = false;
    ts_pre : forall i i', r + l <= i < length piv -> mr <= i' -> r <= i' < r + l ->
             get M i' (nth i piv 0) = false
  }.

  Lemma ts_lb M l : ts M l -> r + l < length piv -> c + l <= nth (r + l) piv 0.
  Proof.
    intros T Hl. destruct l as [|l].
    - rewrite Nat.add_0_r in *. apply Hge. pose proof (ts_len _ _ T). lia.
    - pose proof (ts_piv _ _ T l ltac:(lia)) as Hp.
      pose proof (sorted_nth_lt piv (r + l) (r + S l) (ref_sorted _ _ Href0) ltac:(lia) Hl). lia.
  Qed.

  Lemma gsf_cols_top n : forall M l, ts M l -> l + n = kk ->
    forall M' kbar, gsf_cols n M r c (Nat.min (nr M0) (r + kk)) l = (M', kbar) ->
    ts M' kbar /\ l <= kbar <= l + n /\
    (kbar < l + n -> ~ (r + kbar < length piv /\ nth (r + kbar) piv 0 = c + kbar)).
  Proof.
    induction n as [|n IH]; intros M l T Hn M' kbar E; cbn [gsf_cols] in E.
    - injection E as <- <-. split; [assumption|]. split; lia.
    - pose proof T as [HM Hnr Hnc Heq Href Hframe Hlen Hpiv Hbu Hpr].
      pose proof (ref_sorted _ _ Href0) as Hsort.
      assert (Hlenp : length piv <= nr M) by apply Href.
      assert (Hz : forall i u, r + l <= i -> u < l -> get M i (c + u) = false).
      { intros i u Hi Hu. destruct (Nat.lt_ge_cases i (length piv)) as [Hip|Hip].
        - apply (ref_get_before M piv); auto.
          pose proof (ts_lb M l T ltac:(lia)).
          pose proof (sorted_nth_le piv (r + l) i Hsort Hi Hip). lia.
        - now apply (ref_get_zero M piv). }
      assert (Hcol : forall i, r + l < i -> get M i (c + l) = false).
      { intros i Hi. destruct (Nat.lt_ge_cases i (length piv)) as [Hip|Hip].
        - apply (ref_get_before M piv); auto.
          pose proof (ts_lb M l T ltac:(lia)).
          pose proof (sorted_nth_lt piv (r + l) i Hsort Hi Hip). lia.
        - now apply (ref_get_zero M piv). }
      rewrite (gsf_scan_top M r c l (Nat.min (nr M0) (r + kk) - (r + l)) HM ltac:(lia) Hz Hcol) in E.
      destruct (get M (r + l) (c + l)) eqn:Ep.
      + assert (Hlp : r + l < length piv).
        { destruct (Nat.lt_ge_cases (r + l) (length piv)); [assumption|].
          rewrite (ref_get_zero M piv) in Ep by assumption. discriminate. }
        assert (Hpl : nth (r + l) piv 0 = c + l).
        { pose proof (ts_lb M l T Hlp). destruct (Nat.eq_dec (nth (r + l) piv 0) (c + l)); [assumption|].
          rewrite (ref_get_before M piv) in Ep by (auto; lia). discriminate. }
        destruct (Nat.ltb_spec 0 (Nat.min (nr M0) (r + kk) - (r + l))); [|lia]. cbn [andb] in E.
        destruct (clear_above_ref M piv r (r + l) HM Href ltac:(lia) Hlp) as (HM1 & Hnr1 & Hnc1 & Heq1 & Href1 & Hg1).
        rewrite Hpl in HM1, Hnr1, Hnc1, Heq1, Href1, Hg1.
        set (M1 := clear_above M r (r + l) (c + l)) in *.
        assert (T1 : ts M1 (S l)).
        { constructor; try congruence.
          - now apply (row_equiv_trans M0 M).
          - intros i j Hi. rewrite Hg1.
            destruct (Nat.leb_spec r i), (Nat.ltb_spec i (r + l)); cbn [andb]; try lia;
              rewrite xorb_false_r; apply Hframe; lia.
          - lia.
          - intros t Ht. destruct (Nat.eq_dec t l) as [->|Hne]; [assumption|apply Hpiv; lia].
          - intros t u Htu Hu. rewrite Hg1.
            destruct (Nat.leb_spec r (r + t)); [|lia]. destruct (Nat.ltb_spec (r + t) (r + l)); [|lia].
            cbn [andb]. destruct (Nat.eq_dec u l) as [->|Hne].
            + rewrite Ep. destruct (Nat.leb_spec (c + l) (c + l)); [|lia].
              rewrite !andb_true_r. apply xorb_nilpotent.
            + destruct (Nat.leb_spec (c + l) (c + u)); [lia|].
              rewrite andb_false_r, andb_false_l, xorb_false_r. apply Hbu; lia.
          - intros i i' Hi Hmr Hi'. rewrite Hg1.
            assert (Hs0 : get M (r + l) (nth i piv 0) = false).
            { rewrite Hframe by lia. apply Hpre; lia. }
            rewrite Hs0, andb_false_r, xorb_false_r.
            destruct (Nat.eq_dec i' (r + l)) as [->|Hne]; [assumption|]. apply Hpr; lia. }
        destruct (IH M1 (S l) T1 ltac:(lia) M' kbar E) as (T' & Hk & Hstop).
        split; [assumption|]. split; [lia|]. intros Hlt. apply Hstop. lia.
      + rewrite andb_false_r in E. injection E as <- <-. split; [assumption|]. split; [lia|].
        intros _ [H1 H2]. rewrite <- H2 in Ep. rewrite (ref_get_pivot M piv) in Ep by assumption. discriminate.
  Qed.
End TopBlock.

(** invariant of the loop of _mzd_top_echelonize_m4ri(A, k, r, c, max_r = mr): the matrix is a row
    echelon form on the pivots [piv]; the pivot columns of the rows < r are clear above; the pivot
    columns of the rows >= r are already clear in the rows >= mr above them (vacuous for
    mzd_top_echelonize_m4ri, where mr = nrows; in the hybrid the rows >= mr come reduced from PLUQ) *)
Record tinv (A M : mat) (piv : list nat) (r c mr : nat) : Prop := mk_tinv {
  ti_wf : wf M;
  ti_eq : row_equiv A M;
  ti_ref : is_ref M piv;
  ti_r : r <= length piv;
  ti_lt : forall i, i < r -> nth i piv 0 < c;
  ti_ge : forall i, r <= i < length piv -> c <= nth i piv 0;
  ti_clr : forall i i', i < r -> i' < i -> get M i' (nth i piv 0) = false;
  ti_pre : forall i i', r <= i < length piv -> mr <= i' < i -> get M i' (nth i piv 0) = false
}.

Lemma top_step A k M piv r c mr kk M1 kbar : tinv A M piv r c mr -> 1 <= kk -> c + kk <= nc M ->
  gauss_submatrix_full M r c (Nat.min (nr M) (r + kk)) kk = (M1, kbar) ->
  let M2 := if 0 <? kbar then process_rows M1 (tables k M1 r c kbar) 0 (Nat.min r mr) c kbar else M1 in
  kbar <= kk /\ nc M2 = nc M /\
  tinv A M2 piv (r + kbar) (if kbar =? kk then c + kbar else S (c + kbar)) mr.
Proof.
  intros [HM Heq Href Hr Hlt Hge Hclr Hpre] Hkk Hc E M2.
  pose proof (ref_sorted _ _ Href) as Hsort.
  assert (T0 : ts M piv r c mr M 0).
  { constructor; auto; try lia; try apply row_equiv_refl; intros; lia. }
  unfold gauss_submatrix_full in E.
  destruct (gsf_cols_top M piv r c mr kk Href Hge Hpre kk M 0 T0 eq_refl M1 kbar E) as (T1 & Hkb & Hstop).
  cbn [Nat.add] in Hkb, Hstop.
  pose proof T1 as [HM1 Hnr1 Hnc1 Heq1 Href1 Hframe1 Hlen1 Hpiv1 Hbu1 Hpr1].
  assert (Hlenp : length piv <= nr M1) by apply Href1.
  assert (Hzb1 : zero_below M1 r c).
  { intros i j Hi Hj. destruct (Nat.lt_ge_cases i (length piv)) as [Hip|Hip].
    - apply (ref_get_before M1 piv); auto. specialize (Hge i ltac:(lia)). lia.
    - now apply (ref_get_zero M1 piv). }
  assert (Hblk1 : blk_id M1 r c kbar).
  { intros t u Ht Hu. destruct (Nat.eqb_spec t u) as [->|Hne].
    - rewrite <- (Hpiv1 u Hu). apply (ref_get_pivot M1 piv); auto. lia.
    - destruct (Nat.lt_ge_cases t u); [apply Hbu1; lia|].
      apply (ref_get_before M1 piv); auto; [lia|]. rewrite Hpiv1 by assumption. lia. }
  assert (H2 : wf M2 /\ nr M2 = nr M1 /\ nc M2 = nc M1 /\ row_equiv M1 M2 /\
               forall i j, get M2 i j = xorb (get M1 i j)
                 ((i <? Nat.min r mr) && xsum kbar (fun t => get M1 i (c + t) && get M1 (r + t) j))).
  { unfold M2. destruct (Nat.ltb_spec 0 kbar) as [Hpos|Hz].
    - destruct (process_rows_spec k M1 M1 r c kbar 0 (Nat.min r mr) HM1 HM1 eq_refl eq_refl Hpos
                  ltac:(lia) Hzb1 ltac:(reflexivity) ltac:(left; lia)) as (W1 & W2 & W3 & W4 & W5).
      splits; auto.
    - assert (kbar = 0) by lia. subst kbar. splits; auto; [apply row_equiv_refl|].
      intros i j. cbn [xsum]. now rewrite andb_false_r, xorb_false_r. }
  destruct H2 as (HM2 & Hnr2 & Hnc2 & Heq2 & Hg2).
  assert (Hlow : forall i j, Nat.min r mr <= i \/ j < c -> get M2 i j = get M1 i j).
  { intros i j [Hi|Hj]; rewrite Hg2.
    - destruct (Nat.ltb_spec i (Nat.min r mr)); [lia|]. apply xorb_false_r.
    - replace (xsum kbar _) with false; [now rewrite andb_false_r, xorb_false_r|].
      symmetry. apply xsum_zero. intros t Ht. rewrite (Hzb1 (r + t) j) by lia. apply andb_false_r. }
  split; [lia|]. split; [congruence|].
  constructor.
  - exact HM2.
  - apply (row_equiv_trans A M); [assumption|]. apply (row_equiv_trans M M1); assumption.
  - (* still a row echelon form on the same pivots *)
    split; [assumption|]. split; [lia|]. split.
    + intros i Hi. pose proof (ref_lead M1 piv i Href1 Hi) as Hl. apply lead_Some in Hl as [H1 H2].
      apply lead_Some. destruct (Nat.lt_ge_cases i r) as [Hir|Hir].
      * specialize (Hlt i Hir). split.
        -- change (get M2 i (nth i piv 0) = true). rewrite Hlow by (right; lia). exact H1.
        -- intros j' Hj'. change (get M2 i j' = false). rewrite Hlow by (right; lia). now apply H2.
      * split.
        -- change (get M2 i (nth i piv 0) = true). rewrite Hlow by (left; lia). exact H1.
        -- intros j' Hj'. change (get M2 i j' = false). rewrite Hlow by (left; lia). now apply H2.
    + intros i Hi. apply (row_ext (nc M2)); [now apply wf_row_bounded|apply bounded_0|].
      intros j _. change (get M2 i j = N.testbit 0 (N.of_nat j)). rewrite Hlow by (left; lia).
      rewrite N.bits_0. now apply (ref_get_zero M1 piv).
  - lia.
  - intros i Hi. destruct (Nat.lt_ge_cases i r) as [Hir|Hir].
    + specialize (Hlt i Hir). destruct (kbar =? kk); lia.
    + replace i with (r + (i - r)) by lia. rewrite Hpiv1 by lia. destruct (kbar =? kk); lia.
  - intros i Hi.
    pose proof (ts_lb M piv r c mr kk Href Hge Hpre M1 kbar T1 ltac:(lia)) as Hlb.
    pose proof (sorted_nth_le piv (r + kbar) i Hsort ltac:(lia) ltac:(lia)) as Hle.
    destruct (Nat.eqb_spec kbar kk) as [Ek|Ek]; [lia|].
    assert (nth (r + kbar) piv 0 <> c + kbar) by (intros Heq'; apply Hstop; [lia|split; [lia|assumption]]).
    lia.
  - intros i i' Hi Hi'. destruct (Nat.lt_ge_cases i r) as [Hir|Hir].
    + specialize (Hlt i Hir). rewrite Hlow by (right; lia). rewrite Hframe1 by (left; lia). now apply Hclr.
    + assert (Ht : i - r < kbar) by lia.
      replace i with (r + (i - r)) by lia. rewrite Hpiv1 by assumption.
      destruct (Nat.lt_ge_cases i' (Nat.min r mr)) as [Hlo|Hlo].
      * rewrite Hg2. destruct (Nat.ltb_spec i' (Nat.min r mr)); [|lia]. cbn [andb].
        rewrite (xsum_blk_id M1 r c kbar (fun t => get M1 i' (c + t)) (i - r) Hblk1 Ht). apply xorb_nilpotent.
      * rewrite Hlow by (left; lia). destruct (Nat.lt_ge_cases i' r) as [Hi'r|Hi'r].
        -- rewrite Hframe1 by (left; lia). rewrite <- (Hpiv1 (i - r) Ht).
           replace (r + (i - r)) with i by lia. apply Hpre; lia.
        -- replace i' with (r + (i' - r)) by lia. apply Hbu1; lia.
  - intros i i' Hi Hi'. rewrite Hlow by (left; lia).
    destruct (Nat.lt_ge_cases i' r) as [Hi'r|Hi'r].
    + rewrite Hframe1 by (left; lia). apply Hpre; lia.
    + destruct (Nat.lt_ge_cases i' (r + kbar)) as [Hb|Hb].
      * apply Hpr1; lia.
      * rewrite Hframe1 by (right; lia). apply Hpre; lia.
Qed.

Lemma tinv_final A M piv r mr : tinv A M piv r (nc M) mr ->
  r = length piv /\ wf M /\ row_equiv A M /\ is_rref M piv.
Proof.
  intros [HM Heq Href Hr Hlt Hge Hclr Hpre].
  assert (Er : r = length piv).
  { destruct (Nat.eq_dec r (length piv)); [assumption|]. exfalso.
    specialize (Hge r ltac:(lia)).
    pose proof (ref_piv_lt_nc M piv (nth r piv 0) HM Href ltac:(apply nth_In; lia)). lia. }
  subst r. splits; auto. split; [assumption|]. intros i i' Hi Hne.
  destruct (Nat.lt_ge_cases i' i) as [H1|H1]; [now apply Hclr|].
  destruct (Nat.lt_ge_cases i' (length piv)) as [H2|H2].
  - apply (ref_get_before M piv); auto. apply sorted_nth_lt; [apply Href|lia|assumption].
  - now apply (ref_get_zero M piv).
Qed.

Lemma top_loop_spec A k piv mr : 1 <= k -> forall fuel M r c, tinv A M piv r c mr ->
  c <= nc M -> nc M - c <= fuel ->
  exists M', top_loop fuel k M r c mr = Some (length piv, M') /\
             wf M' /\ row_equiv A M' /\ is_rref M' piv.
Proof.
  intros Hk. induction fuel as [|fuel IH]; intros M r c T Hc Hf.
  - assert (c = nc M) by lia. subst c. cbn [top_loop]. rewrite Nat.leb_refl.
    destruct (tinv_final A M piv r mr T) as (-> & H). exists M. now split.
  - cbn [top_loop]. destruct (Nat.leb_spec (nc M) c) as [Hge|Hlt].
    + assert (c = nc M) by lia. subst c. destruct (tinv_final A M piv r mr T) as (-> & H). exists M. now split.
    + set (kk := Nat.min (6 * k) (nc M - c)).
      destruct (gauss_submatrix_full M r c (Nat.min (nr M) (r + kk)) kk) as [M1 kbar] eqn:E.
      destruct (top_step A k M piv r c mr kk M1 kbar T ltac:(lia) ltac:(lia) E) as (Hkb & Hnc2 & T2).
      apply IH; [exact T2| |].
      * rewrite Hnc2. destruct (Nat.eqb_spec kbar kk); lia.
      * rewrite Hnc2. destruct (Nat.eqb_spec kbar kk); lia.
Qed.

(** mzd_top_echelonize_m4ri completes a row echelon form to THE reduced row echelon form *)
Theorem top_echelonize_spec k M piv : 1 <= k -> is_ref M piv -> wf M -> top_model k M = Some (rref M).
Proof.
  intros Hk Href HM.
  assert (T : tinv M M piv 0 0 (nr M)).
  { constructor; auto; try lia; try apply row_equiv_refl.
    intros i i' Hi Hi'. pose proof Href as (_ & Hlen & _). lia. }
  destruct (top_loop_spec M k piv (nr M) Hk (nc M) M 0 0 T ltac:(lia) ltac:(lia)) as (M' & E & HM' & Heq & Hrr).
  unfold top_model. rewrite E. cbn [option_map snd]. f_equal.
  now destruct (rref_canonical M M' piv HM HM' Hrr Heq).
Qed.

(** * 9. the hand-over of the remaining window to PLUQ, reduced mode (brilliantrussian.c:686-710) *)
Lemma sorted_app_lt l1 l2 : StronglySorted lt l1 -> StronglySorted lt l2 ->
  (forall a b, In a l1 -> In b l2 -> a < b) -> StronglySorted lt (l1 ++ l2).
Proof.
  intros H1 H2 H. induction H1 as [|a l1 Hs IH Hf]; cbn [app]; [assumption|].
  constructor.
  - apply IH. intros x y Hx Hy. apply H; [now right|assumption].
  - apply Forall_app. split; [assumption|]. apply Forall_forall. intros y Hy. apply H; [now left|assumption].
Qed.

Lemma sorted_map_add cw q : StronglySorted lt q -> StronglySorted lt (map (fun p => cw + p) q).
Proof.
  induction 1 as [|a l Hs IH Hf]; cbn [map]; constructor; [assumption|].
  apply Forall_forall. intros y Hy. apply in_map_iff in Hy as [x [<- Hx]].
  rewrite Forall_forall in Hf. specialize (Hf x Hx). lia.
Qed.

Lemma in_rowspace_shift W' M' r cw v :
  (forall t, t < length (rows W') -> N.shiftl (row W' t) (N.of_nat cw) = row M' (r + t)) ->
  in_rowspace v W' -> in_rowspace (N.shiftl v (N.of_nat cw)) M'.
Proof.
  intros H [x <-]. unfold vmul.
  apply (mul_row_closed (fun v => in_rowspace (N.shiftl v (N.of_nat cw)) M')).
  - rewrite N.shiftl_0_l. apply in_rowspace_0.
  - intros a b Ha Hb. rewrite N.shiftl_lxor. now apply in_rowspace_lxor.
  - intros v Hv. destruct (In_nth _ _ 0%N Hv) as [t [Ht <-]]. change (nth t (rows W') 0%N) with (row W' t).
    rewrite H by assumption. apply in_rowspace_row.
Qed.

Section Switch.
  Variable ech : bool -> mat -> nat * mat.
  Variable ktop : nat.
  Variable A : mat.
  Hypothesis Hktop : 1 <= ktop.
  (** the contract of mzd_echelonize_pluq(W, 1): rank and THE reduced row echelon form of the window
      (EchelonPLUQProofs.echelon_pluq_full_spec) *)
  Hypothesis ech_ok : forall W, wf W -> ech true W = gauss_delayed true 0 W.

  Lemma switch_full_spec c M piv : ginv true A c M piv -> c < nc M -> length piv < nr M ->
    exists M' piv', switch ech ktop true M (length piv) c = Some (length piv', M') /\ full_ok A M' piv'.
  Proof.
    intros [HM Heq Hlen Hs Hlt Hlead Hzero Hfull] Hc Hr. set (r := length piv) in *.
    unfold switch. set (cw := radix * (c / radix)).
    assert (Hcw : cw <= c) by (unfold cw, radix; lia).
    set (W := msub M r cw (nr M - r) (nc M - cw)).
    pose proof (wf_len M HM) as HlM.
    assert (HW : wf W) by (apply wf_msub; lia).
    rewrite (ech_ok W HW), gauss_true_pair.
    destruct (rref_spec W HW) as (q & Hrk & HW' & HeqW & Hrr).
    set (W' := rref W) in *. rewrite Hrk.
    assert (HnrW' : nr W' = nr M - r) by (destruct HeqW as (E & _); rewrite <- E; reflexivity).
    assert (HncW' : nc W' = nc M - cw) by (destruct HeqW as (_ & E & _); rewrite <- E; reflexivity).
    set (M1 := mpaste M r cw W').
    assert (Hg1 : forall i j, get M1 i j =
              if (r <=? i) && (i <? nr M) && (cw <=? j) && (j <? nc M) then get W' (i - r) (j - cw) else get M i j).
    { intros i j. unfold M1. rewrite get_mpaste by (auto; lia). rewrite HnrW', HncW'.
      replace (r + (nr M - r)) with (nr M) by lia. replace (cw + (nc M - cw)) with (nc M) by lia. reflexivity. }
    assert (HM1 : wf M1) by (apply wf_mpaste; auto; lia).
    assert (Hnr1 : nr M1 = nr M) by reflexivity. assert (Hnc1 : nc M1 = nc M) by reflexivity.
    assert (Hl1 : length (rows M1) = nr M) by now rewrite (wf_len M1 HM1).
    (* rows of the window, embedded *)
    assert (HgW : forall t j, get W t j = (t <? nr M - r) && (j <? nc M - cw) && get M (r + t) (cw + j)).
    { intros t j. unfold W. rewrite get_msub by lia. reflexivity. }
    assert (RW : forall t, t < nr M - r -> N.shiftl (row W t) (N.of_nat cw) = row M (r + t)).
    { intros t Ht. apply bits_ext_nat. intros j. rewrite testbit_shiftl_nat.
      change (N.testbit (row W t) (N.of_nat (j - cw))) with (get W t (j - cw)).
      change (N.testbit (row M (r + t)) (N.of_nat j)) with (get M (r + t) j). rewrite HgW.
      destruct (Nat.leb_spec cw j); cbn [andb].
      - destruct (Nat.ltb_spec t (nr M - r)); [|lia]. cbn [andb].
        replace (cw + (j - cw)) with j by lia.
        destruct (Nat.ltb_spec (j - cw) (nc M - cw)); cbn [andb]; [reflexivity|].
        symmetry. apply get_out_col; [assumption|lia].
      - symmetry. apply Hzero; lia. }
    assert (RW' : forall t, t < nr M - r -> N.shiftl (row W' t) (N.of_nat cw) = row M1 (r + t)).
    { intros t Ht. apply bits_ext_nat. intros j. rewrite testbit_shiftl_nat.
      change (N.testbit (row W' t) (N.of_nat (j - cw))) with (get W' t (j - cw)).
      change (N.testbit (row M1 (r + t)) (N.of_nat j)) with (get M1 (r + t) j). rewrite Hg1.
      replace (r + t - r) with t by lia.
      destruct (Nat.leb_spec r (r + t)); [|lia]. destruct (Nat.ltb_spec (r + t) (nr M)); [|lia].
      destruct (Nat.leb_spec cw j); cbn [andb].
      - destruct (Nat.ltb_spec j (nc M)); [reflexivity|].
        rewrite (get_out_col W') by (auto; lia). symmetry. apply get_out_col; [assumption|lia].
      - symmetry. apply Hzero; lia. }
    assert (Hsame : forall i, i < r -> row M1 i = row M i).
    { intros i Hi. apply (row_ext (nc M)); [now apply (wf_row_bounded M1)|now apply wf_row_bounded|].
      intros j _. change (get M1 i j = get M i j). rewrite Hg1. destruct (Nat.leb_spec r i); [lia|reflexivity]. }
    assert (HlW : length (rows W) = nr M - r) by now rewrite (wf_len W HW).
    assert (HlW' : length (rows W') = nr M - r) by now rewrite (wf_len W' HW').
    assert (Heq1 : row_equiv M M1).
    { destruct HeqW as (_ & _ & I1 & I2). split; [reflexivity|]. split; [reflexivity|]. split.
      - apply rs_incl_rows. intros i Hi. rewrite HlM in Hi. destruct (Nat.lt_ge_cases i r) as [Hir|Hir].
        + rewrite <- Hsame by assumption. apply in_rowspace_row.
        + replace i with (r + (i - r)) by lia. rewrite <- RW by lia.
          apply (in_rowspace_shift W' M1 r cw); [intros t Ht; apply RW'; lia|apply rs_incl_row, I1].
      - apply rs_incl_rows. intros i Hi. rewrite Hl1 in Hi. destruct (Nat.lt_ge_cases i r) as [Hir|Hir].
        + rewrite Hsame by assumption. apply in_rowspace_row.
        + replace i with (r + (i - r)) by lia. rewrite <- RW' by lia.
          apply (in_rowspace_shift W M r cw); [intros t Ht; apply RW; lia|apply rs_incl_row, I2]. }
    (* the pasted matrix is a row echelon form *)
    pose proof Hrr as [HrefW' HclrW'].
    pose proof HrefW' as (Hsq & Hlq & Hleadq & Hzq).
    set (piv1 := piv ++ map (fun p => cw + p) q).
    assert (Hlen1 : length piv1 = r + length q) by (unfold piv1; rewrite app_length, map_length; reflexivity).
    assert (Hnth1 : forall i, r <= i -> i < r + length q -> nth i piv1 0 = cw + nth (i - r) q 0).
    { intros i Hi1 Hi2. unfold piv1. rewrite app_nth2 by (fold r; lia). fold r.
      rewrite (nth_indep _ 0 (cw + 0)) by (rewrite map_length; lia).
      now rewrite (map_nth (fun p => cw + p)). }
    assert (Hnth0 : forall i, i < r -> nth i piv1 0 = nth i piv 0).
    { intros i Hi. unfold piv1. now apply app_nth1. }
    (* the window vanishes before column c - cw, hence so do its pivots *)
    assert (Hqge : forall t, t < length q -> c <= cw + nth t q 0).
    { intros t Ht. destruct (Nat.le_gt_cases c (cw + nth t q 0)) as [|Hgt]; [assumption|]. exfalso.
      pose proof (ref_get_pivot W' q t HrefW' Ht) as Hp.
      destruct HeqW as (_ & _ & _ & I2). destruct (rs_incl_row W' W t I2) as [x Hx].
      unfold get in Hp. rewrite <- Hx, testbit_vmul in Hp.
      rewrite xsum_zero in Hp; [discriminate|]. intros t' Ht'. rewrite HgW.
      rewrite (Hzero (r + t') (cw + nth t q 0)) by lia. now rewrite !andb_false_r. }
    assert (Href1 : is_ref M1 piv1).
    { split; [|split; [|split]].
      - apply sorted_app_lt; [assumption|now apply sorted_map_add|].
        intros a b Ha Hb. apply in_map_iff in Hb as [p [<- Hp]]. destruct (In_nth _ _ 0 Hp) as [t [Ht <-]].
        specialize (Hlt a Ha). specialize (Hqge t Ht). lia.
      - rewrite Hlen1, Hnr1. rewrite HnrW' in Hlq. lia.
      - rewrite Hlen1. intros i Hi. destruct (Nat.lt_ge_cases i r) as [Hir|Hir].
        + rewrite Hnth0, Hsame by assumption. now apply Hlead.
        + rewrite Hnth1 by lia. replace i with (r + (i - r)) at 1 by lia.
          rewrite HnrW' in Hlq. rewrite <- RW' by lia.
          specialize (Hleadq (i - r) ltac:(lia)). apply lead_Some in Hleadq as [H1 H2].
          apply lead_Some. split.
          * rewrite testbit_shiftl_nat. destruct (Nat.leb_spec cw (cw + nth (i - r) q 0)); [|lia].
            cbn [andb]. now replace (cw + nth (i - r) q 0 - cw) with (nth (i - r) q 0) by lia.
          * intros j' Hj'. rewrite testbit_shiftl_nat. destruct (Nat.leb_spec cw j'); [|reflexivity].
            cbn [andb]. apply H2. lia.
      - rewrite Hlen1. intros i Hi. destruct (Nat.lt_ge_cases i (nr M)) as [Hin|Hin].
        + replace i with (r + (i - r)) by lia. rewrite <- RW' by lia. rewrite Hzq by lia. apply N.shiftl_0_l.
        + apply Span.row_overflow. lia. }
    assert (T1 : tinv A M1 piv1 r c r).
    { constructor.
      - exact HM1.
      - now apply (row_equiv_trans A M).
      - exact Href1.
      - lia.
      - intros i Hi. rewrite Hnth0 by assumption. apply Hlt, nth_In. exact Hi.
      - rewrite Hlen1. intros i Hi. rewrite Hnth1 by lia. apply Hqge. lia.
      - intros i i' Hi Hi'. rewrite Hnth0 by assumption. unfold get. rewrite Hsame by lia.
        apply (Hfull eq_refl); lia.
      - rewrite Hlen1. intros i i' Hi Hi'. rewrite Hnth1 by lia. rewrite Hg1.
        rewrite HnrW' in Hlq.
        destruct (Nat.leb_spec r i'); [|lia]. destruct (Nat.ltb_spec i' (nr M)); [|lia].
        destruct (Nat.leb_spec cw (cw + nth (i - r) q 0)); [|lia].
        assert (Hpq : nth (i - r) q 0 < nc W').
        { apply (ref_piv_lt_nc W' q); auto. apply nth_In. lia. }
        destruct (Nat.ltb_spec (cw + nth (i - r) q 0) (nc M)); [|lia]. cbn [andb].
        replace (cw + nth (i - r) q 0 - cw) with (nth (i - r) q 0) by lia.
        apply HclrW'; lia. }
    destruct (Nat.ltb_spec 0 r) as [Hrpos|Hr0]; cbn [andb].
    - destruct (top_loop_spec A ktop piv1 r Hktop (nc M) M1 r c T1 ltac:(lia) ltac:(lia))
        as (M2 & E & HM2 & Heq2 & Hrr2).
      rewrite E. exists M2, piv1. rewrite Hlen1. split; [reflexivity|]. now split.
    - exists M1, piv1. rewrite Hlen1. split; [reflexivity|].
      split; [assumption|]. split; [now apply (row_equiv_trans A M)|].
      split; [assumption|]. intros i i' Hi Hne.
      destruct (Nat.lt_ge_cases i' i) as [H1|H1].
      + apply (ti_pre _ _ _ _ _ _ T1); lia.
      + destruct (Nat.lt_ge_cases i' (length piv1)) as [H2|H2].
        * apply (ref_get_before M1 piv1); auto. apply sorted_nth_lt; [apply Href1|lia|assumption].
        * now apply (ref_get_zero M1 piv1).
  Qed.
End Switch.

(** * 10. MAIN THEOREM, reduced mode: for every table parameter k >= 1, every sequence of switching
    decisions and every window echeloniser meeting its contract, _mzd_echelonize_m4ri(A, 1, ..)
    returns exactly what the naive Gauss-Jordan model returns: (rank A, rref A) *)
Theorem m4ri_full_spec ech k ktop oracle A : 1 <= k -> 1 <= ktop ->
  (forall W, wf W -> ech true W = gauss_delayed true 0 W) -> wf A ->
  m4ri_model ech k ktop oracle true A = Some (gauss_delayed true 0 A).
Proof.
  intros Hk Hkt Hech HA. unfold m4ri_model.
  destruct (oracle 0 && (0 <? nc A) && (0 <? nr A)) eqn:Eo.
  - apply andb_true_iff in Eo as [Eo E2]. apply andb_true_iff in Eo as [_ E1].
    apply Nat.ltb_lt in E1, E2.
    destruct (switch_full_spec ech ktop A Hkt Hech 0 A [] (ginv_init true A HA) E1 E2) as (M' & piv' & E & Hok).
    cbn [length] in E. rewrite E. f_equal. now apply full_ok_result.
  - destruct (m4ri_loop_full ech k ktop oracle A Hk
                ltac:(intros it c M piv _; apply (switch_full_spec ech ktop A Hkt Hech))
                (nc A) 1 0 A [] (ginv_init true A HA) ltac:(lia) ltac:(lia)) as (M' & piv' & E & Hok).
    cbn [length] in E. rewrite E. f_equal. now apply full_ok_result.
Qed.

(** rank and reduced form separately *)
Corollary m4ri_rref_spec ech k ktop oracle A : 1 <= k -> 1 <= ktop ->
  (forall W, wf W -> ech true W = gauss_delayed true 0 W) -> wf A ->
  m4ri_model ech k ktop oracle true A = Some (rank A, rref A).
Proof. intros. rewrite <- gauss_true_pair. now apply m4ri_full_spec. Qed.

(** * 11. Evaluation of the models against the naive model (a dozen structured inputs: rank 0, full
    rank, pivot gaps, pivots on both sides of the 64-column border, dependent rows), k in {1,2,3,5},
    BOTH modes, the top reduction, and switching oracles with the ideal window echeloniser *)
Definition m4ri_examples : list mat := [
  (mk 1 1 [0x1]%N);
  (mk 3 5 [0xe; 0x8; 0xe]%N);
  (mk 5 3 [0x0; 0x1; 0x1; 0x4; 0x0]%N);
  (mk 6 6 [0x0; 0x0; 0x0; 0x0; 0x0; 0x0]%N);
  (mk 8 8 [0x54; 0x1b; 0xd8; 0xa; 0x90; 0xc0; 0xae; 0x5b]%N);
  (mk 10 20 [0x4800; 0x24808; 0x84150; 0x84800; 0x0; 0x24808; 0x35aac; 0x15aa4; 0x24808; 0x353fc]%N);
  (mk 9 70 [0x3a916183a1584a4421; 0x33e77b58bf449634cb; 0x1a3069d3f4501ec639; 0x1f944181e2545a4631; 0x17c67308ea4cc2b6d3; 0x17172d7139041e808d; 0x2d3368d15d104682b8; 0x21547e7b9044cc344e; 0x21a108505508548218]%N);
  (mk 12 66 [0x59fe7f211bdfcc80; 0x2df55feae0a253020; 0x242a4e70aa6fe41c0; 0x2ca3b7e5ae01603c0; 0x3e41f54244833c9a0; 0x1e33a80970f96dd00; 0x361f100e856ff4540; 0x67026572cf772ba0; 0xdef21cfa3fc69200; 0x2cb2317cc8ec9bfe0; 0xe3e564cbf5506e80; 0x30b82a806c1aca000]%N);
  (mk 7 130 [0x100100049000450410000000000000000; 0x100000000000000000000000000000000; 0x24030242a220460530000000000000000; 0x100000000000000000000000000000000; 0x100049000450410000000000000000; 0x100000000000000000000000000000000; 0x0]%N);
  (mk 16 16 [0x0; 0xe674; 0xa606; 0xb7e0; 0xb906; 0xb906; 0xa606; 0x31e6; 0xddd8; 0xa606; 0xe892; 0xddd8; 0xe2d8; 0x354a; 0xd792; 0x5f72]%N);
  (mk 4 70 [0x0; 0x200000000000000000; 0x17e66725c313e16118; 0x200000000000000000]%N);
  (mk 20 24 [0x55f80c; 0xd74715; 0x60fd4c; 0x55b410; 0x724d10; 0x22f05c; 0xfc1c; 0x91b410; 0xb50c0c; 0xe5b400; 0x304b55; 0xe1fd5c; 0x24f349; 0x83bd10; 0x740b45; 0x434645; 0xc5f000; 0x104a15; 0x36f840; 0x92fe59]%N)].

Definition res_eqb (a b : option (nat * mat)) : bool :=
  match a, b with Some (r, M), Some (r', M') => (r =? r') && mequal M M' | _, _ => false end.

Example m4ri_examples_wf : forallb wfb m4ri_examples = true.
Proof. vm_compute. reflexivity. Qed.

Example m4ri_examples_full :
  forallb (fun A => forallb (fun k => res_eqb (m4ri_run k true A) (Some (gauss_delayed true 0 A))) [1; 2; 3; 5])
          m4ri_examples = true.
Proof. vm_compute. reflexivity. Qed.

Example top_examples :
  forallb (fun A => forallb (fun k => match top_run k (snd (gauss_delayed false 0 A)) with
                                       | Some R => mequal R (rref A) | None => false end) [1; 2; 3; 5])
          m4ri_examples = true.
Proof. vm_compute. reflexivity. Qed.

Example m4ri_examples_oracle :
  forallb (fun A => forallb (fun n => forallb (fun full =>
     res_eqb (m4ri_model (fun f W => gauss_delayed f 0 W) 1 2 (fun it => it =? n) full A)
             (Some (gauss_delayed full 0 A))) [true; false]) [0; 1; 2; 4])
          m4ri_examples = true.
Proof. vm_compute. reflexivity. Qed.

(** ** non-reduced mode: PARTIAL.
    FULL STATEMENT (open; confirmed by the evaluation below and by the correspondence runs, not proved):
      forall k, 1 <= k -> forall A, wf A -> m4ri_run k false A = Some (gauss_delayed false 0 A)
    and, for an arbitrary oracle and any window echeloniser returning a row echelon form of its
    argument: the result is (rank A, E) with E a row echelon form row equivalent to A.
    Proof route (not carried out): the non-reduced block (gs_cols / gauss_submatrix_top / tables /
    copy_back_rows) simulates [gauss_step false] pivot by pivot — the lazily cleared rows of
    _mzd_gauss_submatrix coincide with the eagerly eliminated rows of the naive model once the l
    pivot rows of the block are applied ("first row of the left-most column" is literally the scan
    order of gs_scan and of mzd_find_pivot), or alternatively GaussRef.ref_canonical.
    What is proved about the non-reduced route: nothing beyond the finite instances below; what is
    proved for the reduced route is complete ([m4ri_full_spec]). *)
Example m4ri_nonfull_partial :
  forallb (fun A => forallb (fun k => res_eqb (m4ri_run k false A) (Some (gauss_delayed false 0 A))) [1; 2; 3; 5])
          m4ri_examples = true.
Proof. vm_compute. reflexivity. Qed.

(** non-vacuity of the hypotheses of the main theorems *)
Example m4ri_full_spec_example :
  let A := nth 6 m4ri_examples (mzero 0 0) in
  wf A /\ m4ri_model (fun f W => gauss_delayed f 0 W) 2 1 (fun it => it =? 1) true A = Some (rank A, rref A).
Proof. split; [apply wfb_spec; vm_compute; reflexivity|vm_compute; reflexivity]. Qed.

Example top_echelonize_spec_example :
  let M := snd (gauss_delayed false 0 (nth 5 m4ri_examples (mzero 0 0))) in
  wf M /\ (exists piv, is_ref M piv) /\ top_model 2 M = Some (rref M).
Proof.
  cbv zeta. set (A := nth 5 m4ri_examples (mzero 0 0)).
  assert (HA : wf A) by (apply wfb_spec; vm_compute; reflexivity).
  destruct (gauss_spec_ex false A HA) as (piv & _ & HM & _ & Href).
  split; [assumption|]. split; [now exists piv|]. apply (top_echelonize_spec 2 _ piv); [lia|assumption|assumption].
Qed.
