(* Alg/PLERussianClosed.v — C03, Four-Russians base case: the theorems about the whole routine
   _mzd_ple_russian / _mzd_pluq_russian (m4ri/ple_russian.c:381-629) WITHOUT the hypothesis [update_ok k]
   that PLERussianProofs6.v carries (ple_russian_naive_partial, ple_russian_spec_partial, ..).

   How the hypothesis is discharged.  [update_ok k] (PLERussianProofs5.v) quantifies over every
   (pv, pivots, W1, ..) satisfying [SubPost]; [SubPost] does not record that the pivot entries of the
   naive state are ones, which the tables of mzd_make_table_ple need (index array E).  Parts 8-11 therefore
   prove the statement with that one additional fact,
       update_ok_ones k : .. SubPost .. -> ones M r c pivots pv -> <conclusion of update_ok k>   (every k),
   and supply the fact where [update_ok] is used, i.e. in one pass of the while loop:
       sub_spec_ones (part 8) : ple_sub yields SubPost /\ ones,
       block_ok_all  (part 11): forall k, block_ok k.
   The whole-routine theorems then follow from [block_ok] exactly as in part 1 / part 6.
   No bound on k other than 1 <= k (the C code asserts 7k <= 64 because mzd_read_bits reads at most 64
   bits; the model has no such limit, and the proofs need none).                                    *)
From Coq Require Import List NArith Arith Lia Bool Sorted.
From M4 Require Import Base.Bits Lin.Mat Lin.MatAlg Lin.Ops Lin.Spec Lin.Perm Lin.Observers
  Alg.PLE Alg.PLELemmas Alg.PLESpec Alg.PLEProofs Alg.PLEProofs2 Alg.PLEProofs3 Alg.PLEProofs4 Alg.PLEProofs10
  Alg.PLERussian Alg.PLERussianProofs Alg.PLERussianProofs2 Alg.PLERussianProofs3 Alg.PLERussianProofs4
  Alg.PLERussianProofs5 Alg.PLERussianProofs6 Alg.PLERussianProofs8 Alg.PLERussianProofs11.
Import ListNotations.
Local Open Scope nat_scope.

(** one pass of the while loop (steps 1-6) reaches the state of the naive algorithm, every k *)
Theorem russian_block_ok : forall k, block_ok k.
Proof. exact block_ok_all. Qed.

(** steps 2, 4-6, given what _mzd_ple_submatrix establishes ([SubPost] and [ones]), every k *)
Theorem russian_update_ok : forall k M P0 Q0 r c kk c' W1 done_row P1 Q1 pivots pv cur,
  wf M -> r < nr M -> 1 <= kk -> c + kk <= nc M ->
  let w := win_cols (nc M) c kk in
  SubPost M P0 Q0 r c kk w c' W1 done_row P1 Q1 pivots pv cur -> ones M r c pivots pv ->
  let M2 := ple_a10 (mpaste M 0 0 W1) P1 r c w pivots in
  let Mf := russian_update k M2 r c kk w done_row pivots in
  nr Mf = nr M /\ nc Mf = nc M /\ length (rows Mf) = nr M /\
  forall i, i < nr M -> row Mf i = row (nsteps M r pv) i.
Proof. exact update_ok_ones. Qed.

(** * the whole routine: bit-identical with the naive routine started from identity permutations *)
Theorem ple_russian_naive k A P0 Q0 : 1 <= k ->
  wf A -> length P0 = nr A -> length Q0 = nc A ->
  ple_russian k A P0 Q0 = ple_naive A (fill_id 0 P0) (fill_id 0 Q0).
Proof. intros Hk. apply ple_russian_naive_of_block; [assumption|apply block_ok_all]. Qed.

Theorem ple_russian_spec k A P0 Q0 : 1 <= k ->
  wf A -> length P0 = nr A -> length Q0 = nc A -> ple_spec A (ple_russian k A P0 Q0).
Proof. intros Hk. apply ple_russian_spec_of_block; [assumption|apply block_ok_all]. Qed.

Theorem base_ok_russian k : 1 <= k -> base_ok (ple_russian k).
Proof. intros Hk A P0 Q0. now apply ple_russian_spec. Qed.

(** _mzd_pluq_russian *)
Theorem pluq_russian_spec k A P0 Q0 : 1 <= k ->
  wf A -> length P0 = nr A -> length Q0 = nc A -> pluq_spec A (pluq_russian k A P0 Q0).
Proof.
  intros Hk HA HP HQ. pose proof (ple_russian_spec k A P0 Q0 Hk HA HP HQ) as H.
  unfold pluq_russian. destruct (ple_russian k A P0 Q0) as [[r A'] [P Q]].
  rewrite <- (pluq_of_ple_matrix A r A' P Q (ple_spec_struct _ _ _ _ _ H)).
  now apply pluq_of_ple_spec.
Qed.

(** mzd_ple / mzd_pluq with the library's own base case *)
Theorem mzd_ple_closed k cutoff A P0 Q0 : 1 <= k ->
  wf A -> length P0 = nr A -> length Q0 = nc A ->
  ple_spec A (ple_rec (ple_russian k) cutoff A P0 Q0).
Proof. intros Hk. apply ple_rec_spec. now apply base_ok_russian. Qed.

Theorem mzd_pluq_closed k cutoff A P0 Q0 : 1 <= k ->
  wf A -> length P0 = nr A -> length Q0 = nc A ->
  pluq_spec A (pluq_rec (ple_russian k) cutoff A P0 Q0).
Proof. intros Hk. apply pluq_rec_spec. now apply base_ok_russian. Qed.

(** the entry points of the correspondence driver *)
Corollary ple_russian_run_naive k A : 1 <= k -> wf A ->
  ple_russian_run k A = ple_naive A (seq 0 (nr A)) (seq 0 (nc A)).
Proof.
  intros Hk HA. unfold ple_russian_run.
  rewrite ple_russian_naive by (auto; now rewrite seq_length).
  assert (E : forall n, fill_id 0 (seq 0 n) = seq 0 n).
  { intros n. apply (list_ext_nth 0); [now rewrite fill_id_length|]. intros i Hi.
    rewrite fill_id_length in Hi. rewrite nth_fill_id by assumption.
    rewrite seq_length in Hi. now rewrite seq_nth by assumption. }
  now rewrite !E.
Qed.

Print Assumptions russian_block_ok.
Print Assumptions ple_russian_naive.
Print Assumptions ple_russian_spec.
Print Assumptions pluq_russian_spec.
Print Assumptions mzd_ple_closed.
Print Assumptions mzd_pluq_closed.

(** * the hypotheses are satisfiable; the conclusions on the examples of part 6 *)
Example closed_hyps : exists (k : nat) (A : mat) (P0 Q0 : list nat),
  1 <= k /\ wf A /\ length P0 = nr A /\ length Q0 = nc A /\ nr A = 2.
Proof. exists 2, (mk 2 3 [5%N; 5%N]), [9; 9], [7; 7; 7]. split; [lia|]. split; [now apply wfb_spec|repeat split]. Qed.

(** [SubPost] and [ones] are satisfiable together: they hold of what ple_sub returns *)
Example ones_hyps : exists M P0 Q0 r c kk c' W1 done_row P1 Q1 pivots pv cur,
  wf M /\ r < nr M /\ 1 <= kk /\ c + kk <= nc M /\ 0 < length pivots /\
  SubPost M P0 Q0 r c kk (win_cols (nc M) c kk) c' W1 done_row P1 Q1 pivots pv cur /\ ones M r c pivots pv.
Proof.
  set (M := mk 2 3 [6%N; 5%N]).
  assert (HM : wf M) by now apply wfb_spec.
  pose proof (win_cols_bounds (nc M) 0 2 ltac:(cbn; lia)) as [Hw1 Hw2].
  destruct (window_facts M (win_cols (nc M) 0 2) HM) as (HW0 & HrW0 & HcW0 & HrowW0).
  pose proof (sub_spec_ones M [0; 1] [0; 1; 2] 0 0 2 (win_cols (nc M) 0 2) 0 HM ltac:(cbn; lia) Hw1 ltac:(lia) Hw2
                eq_refl eq_refl (le_n 0) ltac:(intros i j _ H1 H2; lia) _ HW0 HrW0 HcW0 HrowW0) as HS.
  destruct (ple_sub (window M 0 0 (nr M) (win_cols (nc M) 0 2)) 0 0 2 [0; 1] [0; 1; 2])
    as [[[W1 done_row] [P1 Q1]] pivots] eqn:E.
  destruct HS as (pv & cur & HS & Ho).
  exists M, [0; 1], [0; 1; 2], 0, 0, 2, 0, W1, done_row, P1, Q1, pivots, pv, cur.
  splits; auto; try (cbn; lia).
  vm_compute in E. injection E as _ _ _ _ <-. cbn. lia.
Qed.

Example closed_examples : forall e, In e russian_examples ->
  ple_russian_run (fst e) (snd e) = ple_naive (snd e) (seq 0 (nr (snd e))) (seq 0 (nc (snd e))).
Proof.
  intros [k A] He. pose proof russian_examples_ok as H. rewrite forallb_forall in H.
  specialize (H (k, A) He). unfold russian_example_ok in H.
  apply andb_true_iff in H as [H _]. apply andb_true_iff in H as [H _].
  apply andb_true_iff in H as [H1 _]. apply wfb_spec in H1. cbn [fst snd].
  apply ple_russian_run_naive; [|assumption].
  (* every example has k >= 1 *)
  revert He. clear. unfold russian_examples. cbn [In]. intros He.
  repeat (destruct He as [He|He]; [injection He as <- _; lia|]). destruct He.
Qed.
