(* Alg/PLERussianProofs9.v — C03, Four-Russians base case, part 9: _mzd_ple_a10 (ple_russian.c:326-347).

   Right of the window (columns >= w = 64*splitblock) _mzd_ple_submatrix has done nothing.  _mzd_ple_a10
   (1) repeats the row swaps P[r], .., P[r+knar-1] there (_mzd_row_swap from word splitblock on) and
   (2) for i = 1 .. knar-1 adds the pivot rows j < i to row r + i when the multiplier — the entry of
   row r+i in the pivot column c + pivots[j], which lies INSIDE the window and is final — is set.
   Against the closed form of the naive algorithm ([nsteps_closed], here restricted to the columns
   >= w: [closed_hi]) this yields the pivot rows of the naive state:

     a10_spec :  lo w (row Y i) = lo w (row X i)                           (the window is not touched)
                 hi w (row Y i) = hi w (row (nsteps M r pv) i)   for r <= i < r + knar
                 hi w (row Y i) = hi w (row (sw M r pv) i)       otherwise (only swapped)          *)
From Coq Require Import List NArith Arith Lia Bool Sorted.
From M4 Require Import Base.Bits Lin.Mat Lin.MatAlg Lin.Ops Lin.OpsProofs Lin.Spec Lin.Perm Lin.Observers Lin.Echelon
  Alg.PLE Alg.PLELemmas Alg.PLESpec Alg.PLEProofs Alg.PLEProofs2 Alg.PLEProofs3 Alg.PLEProofs4
  Alg.PLERussian Alg.PLERussianProofs Alg.PLERussianProofs2.
Import ListNotations.
Local Open Scope nat_scope.

Ltac tb := repeat first [rewrite testbit_lo | rewrite testbit_hi | rewrite N.lor_spec | rewrite N.lxor_spec
                        | rewrite N.land_spec | rewrite N.ldiff_spec | rewrite testbit_ones_nat
                        | rewrite OpsProofs.testbit_colmask | rewrite N.bits_0].

(** * lo / hi algebra *)
Lemma lo_lohi w x y : lo w (N.lor (lo w x) (hi w y)) = lo w x.
Proof.
  apply bits_ext_nat. intros j. tb.
  destruct (N.testbit x (N.of_nat j)), (N.testbit y (N.of_nat j)), (j <? w); reflexivity.
Qed.
Lemma hi_lohi w x y : hi w (N.lor (lo w x) (hi w y)) = hi w y.
Proof.
  apply bits_ext_nat. intros j. tb.
  destruct (N.testbit x (N.of_nat j)), (N.testbit y (N.of_nat j)), (j <? w); reflexivity.
Qed.
Lemma hi_0 w : hi w 0 = 0%N.
Proof. apply bits_ext_nat. intros j. now tb. Qed.
Lemma lo_0 w : lo w 0 = 0%N.
Proof. apply bits_ext_nat. intros j. now tb. Qed.

Lemma hi_land_colmask w n u q : q < w -> bounded n u -> hi w (N.land u (colmask (S q) n)) = hi w u.
Proof.
  intros Hq Hu. apply bits_ext_nat. intros j. tb.
  destruct (Nat.ltb_spec j w); cbn [negb]; [now rewrite !andb_false_r|].
  destruct (Nat.leb_spec (S q) j); [|lia]. destruct (Nat.ltb_spec j n); cbn [andb]; [now rewrite andb_true_r|].
  now rewrite (Hu j) by assumption.
Qed.

Lemma land_colmask_hi w n u : bounded n u -> N.land u (colmask w n) = hi w u.
Proof.
  intros Hu. apply bits_ext_nat. intros j. tb.
  destruct (Nat.leb_spec w j), (Nat.ltb_spec j w); try lia; cbn [negb andb]; rewrite ?andb_false_r; try reflexivity.
  destruct (Nat.ltb_spec j n); [reflexivity|]. now rewrite (Hu j) by assumption.
Qed.

Lemma lo_hi_0 w x : lo w (hi w x) = 0%N.
Proof. apply bits_ext_nat. intros j. tb. destruct (N.testbit x (N.of_nat j)), (j <? w); reflexivity. Qed.
Lemma hi_hi w x : hi w (hi w x) = hi w x.
Proof. apply bits_ext_nat. intros j. tb. destruct (N.testbit x (N.of_nat j)), (j <? w); reflexivity. Qed.

Lemma hi_nsum w n f : hi w (nsum n f) = nsum n (fun l => hi w (f l)).
Proof. induction n as [|n IH]; cbn [nsum]; [apply hi_0|]. now rewrite hi_lxor, IH. Qed.

Lemma testbit_lo_eq w x y j : lo w x = lo w y -> j < w -> N.testbit x (N.of_nat j) = N.testbit y (N.of_nat j).
Proof.
  intros H Hj. pose proof (f_equal (fun z => N.testbit z (N.of_nat j)) H) as E. cbv beta in E.
  rewrite !testbit_lo in E. destruct (Nat.ltb_spec j w); [|lia]. now rewrite !andb_true_r in E.
Qed.

(** * the swapped input *)
Lemma sw_facts pv : forall M r, wf M -> wf (sw M r pv) /\ nr (sw M r pv) = nr M /\ nc (sw M r pv) = nc M.
Proof.
  induction pv as [|[i j] t IH]; intros M r HM; cbn [sw]; [splits; auto|].
  destruct (IH (row_swap M r i) (S r) (wf_row_swap M r i HM)) as (H1 & H2 & H3). splits; auto.
Qed.

Lemma sw_above pv : forall M r l, wf M ->
  (forall t, t < length pv -> r + t <= fst (nth t pv (0, 0)) < nr M) -> l < r -> row (sw M r pv) l = row M l.
Proof.
  induction pv as [|[i j] t IH]; intros M r l HM H Hl; cbn [sw]; [reflexivity|].
  pose proof (H 0 ltac:(cbn [length]; lia)) as H0. cbn [nth fst] in H0.
  pose proof (wf_len M HM) as Hlen.
  rewrite IH; auto.
  - rewrite row_row_swap by lia. now rewrite swapn_other by lia.
  - now apply wf_row_swap.
  - intros t0 Ht. specialize (H (S t0) ltac:(cbn [length]; lia)). cbn [nth] in H.
    change (nr (row_swap M r i)) with (nr M). lia.
Qed.

(** a row below the pivot rows that no swap addresses *)
Lemma sw_untouched pv : forall M r i, wf M ->
  (forall t, t < length pv -> r + t <= fst (nth t pv (0, 0)) < nr M) ->
  (forall t, t < length pv -> fst (nth t pv (0, 0)) < i) -> r + length pv <= i ->
  row (sw M r pv) i = row M i.
Proof.
  induction pv as [|[i0 j0] t IH]; intros M r i HM H Hlt Hi; cbn [sw]; [reflexivity|].
  pose proof (H 0 ltac:(cbn [length]; lia)) as H0. cbn [nth fst] in H0.
  pose proof (Hlt 0 ltac:(cbn [length]; lia)) as H1. cbn [nth fst] in H1.
  pose proof (wf_len M HM) as Hlen. cbn [length] in Hi.
  rewrite IH; auto; try lia.
  - rewrite row_row_swap by lia. now rewrite swapn_other by lia.
  - now apply wf_row_swap.
  - intros t0 Ht. specialize (H (S t0) ltac:(cbn [length]; lia)). cbn [nth] in H.
    change (nr (row_swap M r i0)) with (nr M). lia.
  - intros t0 Ht. apply (Hlt (S t0)). cbn [length]. lia.
Qed.

(** * the closed form of the naive algorithm right of the window *)
Definition hterm (w : nat) (X : mat) (r : nat) (pv : list (nat * nat)) (x : N) (l' : nat) : N :=
  if N.testbit x (N.of_nat (snd (nth l' pv (0, 0)))) then hi w (row X (r + l')) else 0%N.

Lemma closed_hi M r w pv : wf M -> pv_ok M r pv ->
  (forall l, l < length pv -> snd (nth l pv (0, 0)) < w) -> forall l, r <= l ->
  hi w (row (nsteps M r pv) l) =
  N.lxor (hi w (row (sw M r pv) l))
         (nsum (Nat.min (length pv) (l - r)) (hterm w (nsteps M r pv) r pv (row (nsteps M r pv) l))).
Proof.
  intros HM Hok Hj l Hl.
  pose proof (nsteps_closed M r HM pv Hok l Hl) as E. cbv zeta in E.
  destruct (nsteps_facts pv M r HM (proj1 Hok)) as (HwN & HrN & HcN).
  set (X := nsteps M r pv) in *. set (y := row X l) in *.
  apply (f_equal (hi w)) in E. rewrite hi_lxor, hi_nsum in E. rewrite E. f_equal.
  apply nsum_ext. intros l' Hl'. unfold mterm, hterm.
  destruct (N.testbit y _); [|apply hi_0].
  apply hi_land_colmask; [apply Hj; lia|]. rewrite <- HcN. now apply wf_row_bounded.
Qed.

(** * _mzd_row_swap from a word on *)
Lemma row_swap_from_facts M a b w : wf M -> a < nr M -> b < nr M ->
  let X := row_swap_from M a b w in
  wf X /\ nr X = nr M /\ nc X = nc M /\
  forall i, lo w (row X i) = lo w (row M i) /\ hi w (row X i) = hi w (row M (swapn a b i)).
Proof.
  intros HM Ha Hb. cbv zeta. unfold row_swap_from. pose proof (wf_len M HM) as Hlen.
  change (N.land (row M a) (N.ones (N.of_nat w))) with (lo w (row M a)).
  change (N.land (row M b) (N.ones (N.of_nat w))) with (lo w (row M b)).
  change (N.ldiff (row M a) (N.ones (N.of_nat w))) with (hi w (row M a)).
  change (N.ldiff (row M b) (N.ones (N.of_nat w))) with (hi w (row M b)).
  assert (Hbd : forall x y, bounded (nc M) x -> bounded (nc M) y -> bounded (nc M) (N.lor (lo w x) (hi w y))).
  { intros x y Hx Hy. apply bounded_lor; [now apply bounded_land_l|now apply bounded_ldiff]. }
  splits.
  - apply wf_set_row; [apply wf_set_row; [assumption|]|]; cbn [nc set_row]; apply Hbd; now apply wf_row_bounded.
  - reflexivity.
  - reflexivity.
  - intros i. rewrite !row_set_row, len_set_row. unfold swapn.
    destruct (Nat.eqb_spec i b) as [->|Hib].
    + destruct (Nat.ltb_spec b (length (rows M))); [|lia]. cbn [andb].
      destruct (Nat.eqb_spec b a) as [->|Hba]; [now rewrite lo_lohi, hi_lohi|].
      now rewrite lo_lohi, hi_lohi.
    + cbn [andb]. destruct (Nat.eqb_spec i a) as [->|Hia].
      * destruct (Nat.ltb_spec a (length (rows M))); [|lia]. cbn [andb]. now rewrite lo_lohi, hi_lohi.
      * cbn [andb]. split; reflexivity.
Qed.

(** phase 1: the swaps P[r], .., P[r + knar - 1] on the columns >= w *)
Lemma a10_swaps w M X r P : wf M -> wf X -> nr X = nr M -> nc X = nc M ->
  (forall i, hi w (row X i) = hi w (row M i)) -> forall pv,
  (forall l, l < length pv -> r + l <= fst (nth l pv (0, 0)) < nr M) ->
  (forall l, l < length pv -> nth (r + l) P 0 = fst (nth l pv (0, 0))) ->
  let Y := fold_left (fun M i => row_swap_from M i (nth i P 0) w) (seq r (length pv)) X in
  wf Y /\ nr Y = nr M /\ nc Y = nc M /\
  forall i, lo w (row Y i) = lo w (row X i) /\ hi w (row Y i) = hi w (row (sw M r pv) i).
Proof.
  intros HM HX HrX HcX Hhi pv. induction pv as [|[i0 j0] pv IH] using rev_ind; intros Hi HP; cbv zeta.
  - cbn [length seq fold_left sw]. splits; auto.
  - rewrite app_length. cbn [length]. rewrite Nat.add_1_r, seq_S, fold_left_app. cbn [fold_left].
    rewrite app_length in Hi, HP. cbn [length] in Hi, HP.
    destruct IH as (HwY & HrY & HcY & HrowY).
    { intros l Hl. specialize (Hi l ltac:(lia)). now rewrite app_nth1 in Hi by assumption. }
    { intros l Hl. specialize (HP l ltac:(lia)). now rewrite app_nth1 in HP by assumption. }
    set (Y := fold_left _ (seq r (length pv)) X) in *.
    pose proof (Hi (length pv) ltac:(lia)) as Hi0. pose proof (HP (length pv) ltac:(lia)) as HP0.
    rewrite app_nth2, Nat.sub_diag in Hi0, HP0 by lia. cbn [nth fst] in Hi0, HP0.
    rewrite HP0.
    destruct (row_swap_from_facts Y (r + length pv) i0 w HwY ltac:(lia) ltac:(lia)) as (H1 & H2 & H3 & H4).
    splits; auto; try congruence.
    intros i. destruct (H4 i) as [H5 H6]. rewrite H5, H6, sw_snoc.
    pose proof (sw_len pv M r) as Hl. rewrite (wf_len M HM) in Hl.
    rewrite row_row_swap by lia.
    split; apply HrowY.
Qed.

(** * phase 2: the triangular additions *)
Section A10.
  Variables (M : mat) (r c w : nat) (pivots : list nat) (pv : list (nat * nat)).
  Hypothesis HM : wf M.
  Hypothesis Hok : pv_ok M r pv.
  Hypothesis Hlen : length pv = length pivots.
  Hypothesis Hpvj : forall l, l < length pivots -> snd (nth l pv (0, 0)) = c + nth l pivots 0.
  Hypothesis Hsort : StronglySorted lt pivots.
  Hypothesis Hpw : forall l, l < length pivots -> c + nth l pivots 0 < w.
  Hypothesis Hwn : w <= nc M.

  Notation NN := (nsteps M r pv).
  Notation SS := (sw M r pv).

  Lemma a10_inner Z t tmp : wf Z -> nr Z = nr M -> nc Z = nc M -> t < length pivots ->
    (forall l, l < t -> hi w (row Z (r + l)) = hi w (row NN (r + l))) ->
    forall s, s <= t ->
    let Z' := fold_left (fun M j => if N.testbit tmp (N.of_nat (nth j pivots 0))
                                    then row_add_offset M (r + t) (r + j) w else M) (seq 0 s) Z in
    wf Z' /\ nr Z' = nr M /\ nc Z' = nc M /\ (forall i, i <> r + t -> row Z' i = row Z i) /\
    lo w (row Z' (r + t)) = lo w (row Z (r + t)) /\
    hi w (row Z' (r + t)) =
    N.lxor (hi w (row Z (r + t)))
           (nsum s (fun l' => if N.testbit tmp (N.of_nat (nth l' pivots 0)) then hi w (row NN (r + l')) else 0%N)).
  Proof.
    intros HZ HrZ HcZ Ht Hfin. induction s as [|s IH]; intros Hs; cbv zeta.
    - cbn [seq fold_left nsum]. rewrite N.lxor_0_r. splits; auto.
    - rewrite seq_S, fold_left_app. cbn [fold_left Nat.add nsum].
      destruct IH as (HwZ' & HrZ' & HcZ' & Hoth & Hlo & Hhi); [lia|].
      set (Z' := fold_left _ (seq 0 s) Z) in *.
      destruct (N.testbit tmp (N.of_nat (nth s pivots 0))).
      + pose proof (proj1 Hok t ltac:(lia)) as Hrt.
        pose proof (wf_len Z' HwZ') as HlenZ'.
        assert (Erow : forall i, row (row_add_offset Z' (r + t) (r + s) w) i =
                  if i =? r + t then N.lxor (row Z' (r + t)) (hi w (row NN (r + s))) else row Z' i).
        { intros i. unfold row_add_offset. rewrite row_set_row.
          destruct (Nat.eqb_spec i (r + t)) as [->|Hne]; [|reflexivity].
          destruct (Nat.ltb_spec (r + t) (length (rows Z'))); [|lia]. cbn [andb]. f_equal.
          rewrite land_colmask_hi by now apply wf_row_bounded.
          rewrite Hoth by lia. apply Hfin. lia. }
        splits.
        * now apply wf_row_add_offset.
        * exact HrZ'.
        * exact HcZ'.
        * intros i Hi. rewrite Erow. destruct (Nat.eqb_spec i (r + t)); [lia|]. now apply Hoth.
        * rewrite Erow, Nat.eqb_refl, lo_lxor, lo_hi_0, N.lxor_0_r. exact Hlo.
        * rewrite Erow, Nat.eqb_refl, hi_lxor, hi_hi, Hhi. now rewrite N.lxor_assoc.
      + rewrite N.lxor_0_r. splits; auto.
  Qed.

  Lemma a10_outer Y : wf Y -> nr Y = nr M -> nc Y = nc M ->
    (forall i, hi w (row Y i) = hi w (row SS i)) ->
    (forall l, l < length pivots -> lo w (row Y (r + l)) = lo w (row NN (r + l))) ->
    forall t, 1 <= t -> t <= length pivots ->
    let Z := fold_left (fun M i =>
                 let tmp := read_bits M (r + i) c (nth i pivots 0) in
                 fold_left (fun M j => if N.testbit tmp (N.of_nat (nth j pivots 0))
                                       then row_add_offset M (r + i) (r + j) w else M) (seq 0 i) M)
               (seq 1 (t - 1)) Y in
    wf Z /\ nr Z = nr M /\ nc Z = nc M /\ (forall i, lo w (row Z i) = lo w (row Y i)) /\
    (forall l, l < t -> hi w (row Z (r + l)) = hi w (row NN (r + l))) /\
    (forall i, ~ (r <= i < r + t) -> row Z i = row Y i).
  Proof.
    intros HY HrY HcY HhiY HloY t Ht1. induction t as [|t IH]; [lia|]. intros Ht. cbv zeta.
    destruct (Nat.eq_dec t 0) as [->|Hne].
    - cbn [Nat.sub seq fold_left]. splits; auto. intros l Hl. replace l with 0 by lia. rewrite Nat.add_0_r.
      rewrite HhiY. rewrite (closed_hi M r w pv HM Hok) by (try lia; intros l0 Hl0; rewrite Hpvj by lia; apply Hpw; lia).
      rewrite Nat.sub_diag, Nat.min_0_r. cbn [nsum]. now rewrite N.lxor_0_r.
    - destruct IH as (HwZ & HrZ & HcZ & HloZ & HhiZ & HothZ); [lia|lia|].
      replace (S t - 1) with (S (t - 1)) by lia. rewrite seq_S, fold_left_app. cbn [fold_left].
      replace (1 + (t - 1)) with t by lia.
      set (Z := fold_left _ (seq 1 (t - 1)) Y) in *.
      set (tmp := read_bits Z (r + t) c (nth t pivots 0)).
      destruct (a10_inner Z t tmp HwZ HrZ HcZ ltac:(lia) HhiZ t (le_n t)) as (Hw' & Hr' & Hc' & Hoth' & Hlo' & Hhi').
      set (Z' := fold_left _ (seq 0 t) Z) in *.
      splits; auto.
      + intros i. destruct (Nat.eq_dec i (r + t)) as [->|Hi]; [now rewrite Hlo'|]. rewrite Hoth' by assumption. apply HloZ.
      + intros l Hl. destruct (Nat.eq_dec l t) as [->|Hlt].
        * rewrite Hhi'. rewrite HothZ by lia. rewrite HhiY.
          rewrite (closed_hi M r w pv HM Hok) by (try lia; intros l0 Hl0; rewrite Hpvj by lia; apply Hpw; lia).
          replace (Nat.min (length pv) (r + t - r)) with t by lia.
          f_equal. apply nsum_ext. intros l' Hl'. unfold hterm.
          replace (N.testbit tmp (N.of_nat (nth l' pivots 0)))
            with (N.testbit (row NN (r + t)) (N.of_nat (snd (nth l' pv (0, 0))))); [reflexivity|].
          unfold tmp. rewrite PLERussianProofs2.testbit_read_bits.
          pose proof (sorted_nth_lt pivots l' t Hsort Hl' ltac:(lia)) as Hlt.
          destruct (Nat.ltb_spec (nth l' pivots 0) (nth t pivots 0)); [|lia]. rewrite andb_true_r.
          rewrite Hpvj by lia. symmetry. apply (testbit_lo_eq w); [|apply Hpw; lia].
          rewrite HloZ. apply HloY. lia.
        * rewrite Hoth' by lia. apply HhiZ. lia.
      + intros i Hi. rewrite Hoth' by lia. apply HothZ. lia.
  Qed.

  (** _mzd_ple_a10 *)
  Theorem a10_spec X P : wf X -> nr X = nr M -> nc X = nc M ->
    (forall i, hi w (row X i) = hi w (row M i)) ->
    (forall l, l < length pivots -> lo w (row X (r + l)) = lo w (row NN (r + l))) ->
    (forall l, l < length pivots -> nth (r + l) P 0 = fst (nth l pv (0, 0))) ->
    let Y := ple_a10 X P r c w pivots in
    wf Y /\ nr Y = nr M /\ nc Y = nc M /\
    forall i, lo w (row Y i) = lo w (row X i) /\
              hi w (row Y i) = hi w (row (if (r <=? i) && (i <? r + length pivots) then NN else SS) i).
  Proof.
    intros HX HrX HcX HhiX HloX HP. cbv zeta. unfold ple_a10.
    destruct (nsteps_facts pv M r HM (proj1 Hok)) as (HwN & HrN & HcN).
    destruct (sw_facts pv M r HM) as (HwS & HrS & HcS).
    destruct (Nat.eqb_spec w (nc X)) as [E|E].
    - splits; auto. intros i. split; [reflexivity|].
      rewrite !hi_bounded; [reflexivity| |].
      + destruct (_ && _); rewrite E, HcX; [rewrite <- HcN|rewrite <- HcS]; now apply wf_row_bounded.
      + rewrite E. now apply wf_row_bounded.
    - rewrite <- Hlen.
      destruct (a10_swaps w M X r P HM HX HrX HcX HhiX pv (proj1 Hok)) as (HwY & HrY & HcY & HrowY).
      { intros l Hl. apply HP. lia. }
      set (Y := fold_left _ (seq r (length pv)) X) in *.
      rewrite Hlen.
      destruct (Nat.eq_dec (length pivots) 0) as [E0|E0].
      + rewrite E0. cbn [Nat.sub seq fold_left]. splits; auto. intros i. destruct (HrowY i) as [H1 H2].
        split; [exact H1|]. destruct (Nat.leb_spec r i), (Nat.ltb_spec i (r + 0)); try lia; exact H2.
      + destruct (a10_outer Y HwY HrY HcY (fun i => proj2 (HrowY i))) with (t := length pivots)
          as (HwZ & HrZ & HcZ & HloZ & HhiZ & HothZ); try lia.
        { intros l Hl. rewrite (proj1 (HrowY (r + l))). now apply HloX. }
        splits; auto. intros i. split.
        * rewrite HloZ. apply HrowY.
        * destruct (Nat.leb_spec r i) as [C1|C1]; cbn [andb].
          -- destruct (Nat.ltb_spec i (r + length pivots)) as [C2|C2].
             ++ replace i with (r + (i - r)) by lia. apply HhiZ. lia.
             ++ rewrite HothZ by lia. apply HrowY.
          -- rewrite HothZ by lia. apply HrowY.
  Qed.
End A10.
