(* Alg/Strassen.v — Strassen-Winograd multiplication of m4ri/strassen.c and the 4-section front end
   of m4ri/mp.c: data types of the schedules extracted by translator T2 (tools/sched_extract.py ->
   Alg/StrassenGen.v), the symbolic schedule checker [check_sched] / [check_mp], and the executable
   models.  DEFINITIONS ONLY; proofs are in Alg/StrassenProofs.v.

   What is interpreted from the generated data (so that the model *is* the C text):
     - every integer expression (dimension reads, closer(), width, the mult-doubling loop, the split
       points mmm/kkk/nnn, window coordinates, strip guards) is an [aexp]/[bexp] evaluated by
       [aeval]/[beval];
     - the window table, the temporaries and the block instruction list between set-up and clean-up
       ([run_body]); the "deal with rest" strips ([run_strips]); for mp.c the section task lists.
   What is native Gallina and only *compared* with the generated description by [check_sched]:
     - the shape of the base case (copy-in/copy-out of windowed operands, strassen.c:51-67, 215-229,
       378-394, 537-551; mp.c:47-57, 166-176).
   Integers are mathematical (nat); C [int] overflow of [3*a] / [4*cutoff] in closer() is excluded by
   the guard [ub_guard] of the public wrappers (dimensions only decrease in the recursion). *)
From Coq Require Import List NArith Arith Bool String ZArith.
From M4 Require Import Base.Bits Lin.Mat Lin.Ops Word.WMat.
Import ListNotations.
Local Open Scope nat_scope.

(* ------------------------------------------------------------------------------------------ *)
(** * Integer expressions of the C routines *)
Inductive var :=
  | Vm | Vk | Vn | Vmmm | Vkkk | Vnnn | Vmult | Vwidth | Vcutoff
  | Vca                                   (* formal parameter [a] of closer() *)
  | Va | Vb | Vc | Vanr | Vanc | Vbnr | Vbnc.   (* mp.c *)
Scheme Equality for var.

Inductive parent := PA | PB | PC.
Inductive field := Fnrows | Fncols.

Inductive aexp :=
  | ANum (n : nat) | AVar (v : var) | AFld (p : parent) (f : field)
  | AAdd (a b : aexp) | ASub (a b : aexp) | AMul (a b : aexp) | ADiv (a b : aexp) | AMod (a b : aexp)
  | AShr (a : aexp) (n : nat) | AMin (a b : aexp).
Inductive bexp := BLt (a b : aexp) | BEq (a b : aexp) | BOr (x y : bexp).

Definition env := var -> nat.
Definition eupd (E : env) (v : var) (x : nat) : env := fun w => if var_beq w v then x else E w.
Definition fenv := parent -> field -> nat.
Definition psel {T} (p : parent) (a b c : T) : T := match p with PA => a | PB => b | PC => c end.
Definition fenv_of (A B C : mat) : fenv :=
  fun p f => let M := psel p A B C in match f with Fnrows => nr M | Fncols => nc M end.

Fixpoint aeval (E : env) (F : fenv) (a : aexp) : nat :=
  match a with
  | ANum n => n | AVar v => E v | AFld p f => F p f
  | AAdd a b => aeval E F a + aeval E F b
  | ASub a b => aeval E F a - aeval E F b
  | AMul a b => aeval E F a * aeval E F b
  | ADiv a b => aeval E F a / aeval E F b
  | AMod a b => aeval E F a mod aeval E F b
  | AShr a n => aeval E F a / 2 ^ n
  | AMin a b => Nat.min (aeval E F a) (aeval E F b)
  end.
Fixpoint beval (E : env) (F : fenv) (b : bexp) : bool :=
  match b with
  | BLt a b => aeval E F a <? aeval E F b
  | BEq a b => aeval E F a =? aeval E F b
  | BOr x y => beval E F x || beval E F y
  end.
Fixpoint assigns (E : env) (F : fenv) (l : list (var * aexp)) : env :=
  match l with [] => E | (v, a) :: t => assigns (eupd E v (aeval E F a)) F t end.

(** [while (cond) { assignments }] with fuel *)
Fixpoint loop_run (fuel : nat) (E : env) (F : fenv) (cond : bexp) (body : list (var * aexp)) : option env :=
  match fuel with
  | 0 => None
  | S f => if beval E F cond then loop_run f (assigns E F body) F cond body else Some E
  end.

(* ------------------------------------------------------------------------------------------ *)
(** * Windows, instructions, strips *)
(** mzd_init_window(parent, lowr, lowc, highr, highc) *)
Record winexp := mkwin { w_par : parent; w_r0 : aexp; w_c0 : aexp; w_r1 : aexp; w_c1 : aexp }.

Inductive instr :=
  | Add (d x y : string)        (* _mzd_add(d, x, y) *)
  | Mul (d x y : string)        (* _mzd_mul_even(d, x, y, cutoff) *)
  | AddMul (d x y : string)     (* _mzd_addmul_even(d, x, y, cutoff) *)
  | Sqr (d x : string)          (* _mzd_sqr_even(d, x, cutoff) *)
  | AddSqr (d x : string)       (* _mzd_addsqr_even(d, x, cutoff) *)
  | MulNew (d x y : string)     (* d = mzd_mul(NULL, x, y, cutoff) *)
  | Free (t : string).          (* mzd_free(t) *)

Inductive opd := OWin (w : winexp) | OPar (p : parent).
(** the product routine of a strip *)
Inductive sop :=
  | SClear      (* _mzd_mul_m4rm(d, x, y, 0, TRUE) *)
  | SMulW       (* mzd_mul_m4rm(d, x, y, 0) *)
  | SAddW.      (* mzd_addmul_m4rm(d, x, y, 0) *)
(** one remainder product: [st_pre] are the integer assignments executed before the guard *)
Record strip := mkstrip {
  st_pre : list (var * aexp); st_guard : bexp;
  st_dst : winexp; st_x : opd; st_y : opd;
  st_op : sop
}.

(** description of the base case as T2 sees it *)
Inductive bstmt :=
  | BCopyNew (x : string) (src : string)          (* x = mzd_copy(NULL, src) *)
  | BInit (x : string) (r c : aexp)               (* x = mzd_init(r, c) *)
  | BM4rm (d a b : string) (clear : bool)         (* _mzd_mul_m4rm(d, a, b, 0, clear) *)
  | BAddM4rm (d a b : string)                     (* mzd_addmul_m4rm(d, a, b, 0) *)
  | BCopyTo (d src : string)                      (* mzd_copy(d, src) *)
  | BAddTo (d x y : string)                       (* mzd_add(d, x, y) *)
  | BFree (x : string).
Record base_desc := mkbase { bd_test : list string; bd_win : list bstmt; bd_plain : list bstmt }.

Inductive kind := Kmul | Ksqr | Kaddmul | Kaddsqr.
Definition k_sqr k := match k with Ksqr | Kaddsqr => true | _ => false end.
Definition k_acc k := match k with Kaddmul | Kaddsqr => true | _ => false end.

Record sched := mksched {
  s_kind : kind;
  s_early : list (parent * field);          (* return C at once if one of these fields is 0 *)
  s_dims : list (var * aexp);               (* m, k, n *)
  s_closer : bexp;                          (* body of closer(a, cutoff) over Vca, Vcutoff *)
  s_closer_args : list aexp;                (* base case iff closer(arg, cutoff) for some arg *)
  s_base : base_desc;
  s_pre : list (var * aexp);                (* mult, width *)
  s_loop : bexp * list (var * aexp);        (* while (width > cutoff) { width /= 2; mult *= 2; } *)
  s_splits : list (var * aexp);             (* mmm, kkk, nnn *)
  s_wins : list (string * winexp);
  s_tmps : list (string * (aexp * aexp));   (* mzd_init(r, c) *)
  s_body : list instr;
  s_strips : list strip
}.

Record mpsched := mkmp {
  mp_acc : bool;                            (* _mzd_addmul_mp4 (true) / _mzd_mul_mp4 (false) *)
  mp_dims : list (var * aexp);
  mp_closer : bexp;
  mp_closer_args : list aexp;
  mp_base : base_desc;
  mp_splits : list (var * aexp);            (* mult; a,b,c adjustment; anr, anc, bnr, bnc *)
  mp_wins : list (string * winexp);
  mp_sections : list (list instr);          (* the tasks of the four omp sections *)
  mp_strips : list strip
}.

(* ------------------------------------------------------------------------------------------ *)
(** * Concrete execution of a schedule *)
Fixpoint assoc {T} (l : list (string * T)) (x : string) : option T :=
  match l with [] => None | (y, v) :: t => if String.eqb x y then Some v else assoc t x end.
Definition tdel {T} (l : list (string * T)) (x : string) : list (string * T) :=
  filter (fun p => negb (String.eqb x (fst p))) l.
Definition tset {T} (l : list (string * T)) (x : string) (v : T) : list (string * T) := (x, v) :: tdel l x.

Record state := mkst { sC : mat; sT : list (string * mat) }.

Definition same_dims (X Y : mat) : bool := (nr X =? nr Y) && (nc X =? nc Y).
Definition mul_dims (D X Y : mat) : bool := (nc X =? nr Y) && (nr D =? nr X) && (nc D =? nc Y).

(** rows/columns of mzd_init_window: nrows = MIN(highr - lowr, M->nrows - lowr), ncols = highc - lowc
    (mzd.c:160-178) *)
Definition wcoords (E : env) (F : fenv) (w : winexp) : nat * nat * nat * nat :=
  let r0 := aeval E F (w_r0 w) in let c0 := aeval E F (w_c0 w) in
  (r0, c0, Nat.min (aeval E F (w_r1 w) - r0) (F (w_par w) Fnrows - r0), aeval E F (w_c1 w) - c0).
Definition wread (E : env) (F : fenv) (A B C : mat) (w : winexp) : mat :=
  let '(r0, c0, r, c) := wcoords E F w in msub (psel (w_par w) A B C) r0 c0 r c.

(** mzd_copy (mzd.c:1364): with N == NULL a fresh matrix; a source with rows but no columns makes
    [wide = -1] and the row loop write word -1 *)
Definition copy_new (X : mat) : res mat :=
  if (0 <? nr X) && (nc X =? 0) then Err OOB else Ok X.
Definition copy_to (D X : mat) : res mat :=
  if (nr D <? nr X) || (nc D <? nc X) then Err Die
  else if (0 <? nr X) && (nc X =? 0) then Err OOB else Ok (mcopy_into D X).
(** mzd_add (mzd.c:1458) with ret == left *)
Definition add_to (D X : mat) : res mat :=
  if same_dims D X then Ok (madd D X) else Err Die.

Section Model.
  (** _mzd_mul_m4rm(C, A, B, 0, clear) *)
  Variable base : mat -> mat -> mat -> bool -> res mat.
  (** __M4RI_STRASSEN_MUL_CUTOFF (strassen.h:134) *)
  Variable dflt : nat.

  (** mzd_addmul_m4rm (brilliantrussian.c:1014) *)
  Definition addmul_m4rm (C A B : mat) : res mat :=
    if (nc C =? 0) || (nr C =? 0) then Ok C
    else if negb (nc A =? nr B) then Err Die
    else if negb ((nr C =? nr A) && (nc C =? nc B)) then Err Die
    else base C A B false.

  (** mzd_mul_m4rm (brilliantrussian.c:1000) *)
  Definition mul_m4rm (C A B : mat) : res mat :=
    if negb (nc A =? nr B) then Err Die
    else if negb ((nr C =? nr A) && (nc C =? nc B)) then Err Die
    else base C A B true.

  (** cutoff normalisation of the public wrappers (strassen.c:351-354, 681-684; mp.c:283-286) *)
  Definition norm_cutoff (c : nat) : nat :=
    let c1 := if c =? 0 then dflt else c in
    let c2 := c1 / 64 * 64 in
    if c2 <? 64 then 64 else c2.

  (** base cases: strassen.c:51-67 (mul), 215-229 (sqr), 378-394 (addmul), 537-551 (addsqr) *)
  Definition base_case (k : kind) (win : bool) (C A B : mat) : res mat :=
    match k with
    | Kmul =>
      if win then Ab <- copy_new A ;; Bb <- copy_new B ;;
                  r <- base (mzero (nr A) (nc B)) Ab Bb false ;; copy_to C r
      else base C A B true
    | Ksqr =>
      if win then Ab <- copy_new A ;;
                  r <- base (mzero (nr A) (nr A)) Ab Ab false ;; copy_to C r
      else base C A A true
    | Kaddmul =>
      if win then Ab <- copy_new A ;; Bb <- copy_new B ;; Cb <- copy_new C ;;
                  r <- addmul_m4rm Cb Ab Bb ;; copy_to C r
      else addmul_m4rm C A B
    | Kaddsqr =>
      if win then Cb <- copy_new C ;; Ab <- copy_new A ;;
                  r <- addmul_m4rm Cb Ab Ab ;; copy_to C r
      else addmul_m4rm C A A
    end.
  (** the same, as the list of statements T2 must find *)
  Local Open Scope string_scope.
  Definition canon_base (k : kind) : base_desc :=
    match k with
    | Kmul => mkbase ["A"; "B"; "C"]
        [BCopyNew "Abar" "A"; BCopyNew "Bbar" "B"; BInit "Cbar" (AVar Vm) (AVar Vn);
         BM4rm "Cbar" "Abar" "Bbar" false; BCopyTo "C" "Cbar"; BFree "Cbar"; BFree "Bbar"; BFree "Abar"]
        [BM4rm "C" "A" "B" true]
    | Ksqr => mkbase ["A"; "C"]
        [BCopyNew "Abar" "A"; BInit "Cbar" (AVar Vm) (AVar Vm);
         BM4rm "Cbar" "Abar" "Abar" false; BCopyTo "C" "Cbar"; BFree "Cbar"; BFree "Abar"]
        [BM4rm "C" "A" "A" true]
    | Kaddmul => mkbase ["A"; "B"; "C"]
        [BCopyNew "Abar" "A"; BCopyNew "Bbar" "B"; BCopyNew "Cbar" "C";
         BAddM4rm "Cbar" "Abar" "Bbar"; BCopyTo "C" "Cbar"; BFree "Cbar"; BFree "Bbar"; BFree "Abar"]
        [BAddM4rm "C" "A" "B"]
    | Kaddsqr => mkbase ["A"; "C"]
        [BCopyNew "Cbar" "C"; BCopyNew "Abar" "A";
         BAddM4rm "Cbar" "Abar" "Abar"; BCopyTo "C" "Cbar"; BFree "Cbar"; BFree "Abar"]
        [BAddM4rm "C" "A" "A"]
    end.
  Local Close Scope string_scope.

  Section Body.
    (** the recursive multiplier: kind, "some operand is a window", cutoff, C, A, B *)
    Variable rec : kind -> bool -> nat -> mat -> mat -> mat -> res mat.
    Variable cutoff : nat.
    Variables (E : env) (F : fenv) (A B : mat).
    Variable wins : list (string * winexp).

    (** value of an operand and whether it is a window (mzd_is_windowed) *)
    Definition rd (x : string) (st : state) : res (mat * bool) :=
      match assoc wins x with
      | Some w => Ok (wread E F A B (sC st) w, true)
      | None => match assoc (sT st) x with Some v => Ok (v, false) | None => Err UB end
      end.
    Definition wr (x : string) (v : mat) (st : state) : res state :=
      match assoc wins x with
      | Some w =>
        match w_par w with
        | PC => let '(r0, c0, _, _) := wcoords E F w in Ok (mkst (mpaste (sC st) r0 c0 v) (sT st))
        | _ => Err UB
        end
      | None => match assoc (sT st) x with
                | Some _ => Ok (mkst (sC st) (tset (sT st) x v))
                | None => Err UB end
      end.

    Definition binop (k : kind) (d x y : string) (st : state) : res state :=
      if String.eqb d x || String.eqb d y then Err UB else
      pd <- rd d st ;; px <- rd x st ;; py <- rd y st ;;
      let '(vd, fd) := pd in let '(vx, fx) := px in let '(vy, fy) := py in
      if mul_dims vd vx vy then
        r <- rec k (fd || fx || fy) cutoff vd vx vy ;; wr d r st
      else Err UB.
    Definition unop (k : kind) (d x : string) (st : state) : res state :=
      if String.eqb d x then Err UB else
      pd <- rd d st ;; px <- rd x st ;;
      let '(vd, fd) := pd in let '(vx, fx) := px in
      if mul_dims vd vx vx then
        r <- rec k (fd || fx) cutoff vd vx vx ;; wr d r st
      else Err UB.

    Definition step (i : instr) (st : state) : res state :=
      match i with
      | Add d x y =>
        pd <- rd d st ;; px <- rd x st ;; py <- rd y st ;;
        if same_dims (fst pd) (fst px) && same_dims (fst pd) (fst py)
        then wr d (madd (fst px) (fst py)) st else Err UB
      | Mul d x y => binop Kmul d x y st
      | AddMul d x y => binop Kaddmul d x y st
      | Sqr d x => unop Ksqr d x st
      | AddSqr d x => unop Kaddsqr d x st
      | MulNew d x y =>
        (* mzd_mul(NULL, x, y, cutoff): strassen.c:345-365; x and y are distinct objects, so never
           the squaring route *)
        match assoc wins d with Some _ => Err UB | None =>
          px <- rd x st ;; py <- rd y st ;;
          let '(vx, fx) := px in let '(vy, fy) := py in
          if negb (nc vx =? nr vy) then Err Die else
          r <- rec Kmul (fx || fy) (norm_cutoff cutoff) (mzero (nr vx) (nc vy)) vx vy ;;
          Ok (mkst (sC st) (tset (sT st) d r))
        end
      | Free t =>
        match assoc (sT st) t with
        | Some _ => Ok (mkst (sC st) (tdel (sT st) t))
        | None => Err UB
        end
      end.

    Fixpoint run_body (l : list instr) (st : state) : res state :=
      match l with [] => Ok st | i :: t => st' <- step i st ;; run_body t st' end.
  End Body.

  (** "deal with rest" *)
  Definition oread (E : env) (F : fenv) (A B C : mat) (o : opd) : mat :=
    match o with OWin w => wread E F A B C w | OPar p => psel p A B C end.
  Definition strip_op (E : env) (F : fenv) (A B : mat) (s : strip) (C : mat) : res mat :=
    match w_par (st_dst s) with
    | PC =>
      let '(r0, c0, r, c) := wcoords E F (st_dst s) in
      let vd := msub C r0 c0 r c in
      let vx := oread E F A B C (st_x s) in
      let vy := oread E F A B C (st_y s) in
      v <- match st_op s with
           | SClear => base vd vx vy true
           | SMulW => mul_m4rm vd vx vy
           | SAddW => addmul_m4rm vd vx vy
           end ;;
      Ok (mpaste C r0 c0 v)
    | _ => Err UB
    end.
  Fixpoint run_strips (E : env) (F : fenv) (A B : mat) (l : list strip) (C : mat) : res mat :=
    match l with
    | [] => Ok C
    | s :: t =>
      let E' := assigns E F (st_pre s) in
      if beval E' F (st_guard s)
      then C' <- strip_op E' F A B s C ;; run_strips E' F A B t C'
      else run_strips E' F A B t C
    end.

  Definition is_base (E : env) (F : fenv) (closer : bexp) (args : list aexp) : bool :=
    existsb (fun a => beval (eupd E Vca (aeval E F a)) F closer) args.

  (** the table of generated schedules *)
  Variable T : kind -> sched.

  (** _mzd_mul_even / _mzd_sqr_even / _mzd_addmul_even / _mzd_addsqr_even.  For the squaring kinds
      the caller passes [B := A].  [win] = mzd_is_windowed of some operand. *)
  Fixpoint strassen (fuel : nat) (k : kind) (win : bool) (cutoff : nat) (C A B : mat) : res mat :=
    match fuel with
    | 0 => Err Fuel
    | S f =>
      let s := T k in
      let F := fenv_of A B C in
      if existsb (fun pf => F (fst pf) (snd pf) =? 0) (s_early s) then Ok C else
      let E0 := assigns (eupd (fun _ => 0) Vcutoff cutoff) F (s_dims s) in
      if is_base E0 F (s_closer s) (s_closer_args s) then base_case k win C A B else
      let E1 := assigns E0 F (s_pre s) in
      match loop_run (S (S (Nat.log2 (E1 Vwidth)))) E1 F (fst (s_loop s)) (snd (s_loop s)) with
      | None => Err Fuel
      | Some E2 =>
        let E3 := assigns E2 F (s_splits s) in
        let st0 := mkst C (map (fun p => (fst p, mzero (aeval E3 F (fst (snd p))) (aeval E3 F (snd (snd p)))))
                               (s_tmps s)) in
        st1 <- run_body (strassen f) cutoff E3 F A B (s_wins s) (s_body s) st0 ;;
        run_strips E3 F A B (s_strips s) (sC st1)
      end
    end.

  Definition fuel_for (A B : mat) : nat := S (Nat.log2 (nr A + nc A + nc B)).

  (** C [int] overflow in closer(): 3*a and 4*cutoff must stay below 2^31 *)
  Definition ub_guard (cutoff : nat) (A B : mat) : bool :=
    ((2 ^ 31 <=? 4 * Z.of_nat cutoff) ||
     (2 ^ 31 <=? 3 * Z.of_nat (Nat.max (nr A) (Nat.max (nc A) (nc B)))))%Z.

  (** common head of mzd_mul / mzd_addmul / mzd_mul_mp / mzd_addmul_mp: checks, normalisation,
      allocation of C when NULL *)
  Definition wrapper_head (cutoff : Z) (Copt : option mat) (A B : mat) : res (nat * mat) :=
    if negb (nc A =? nr B) then Err Die else
    if (cutoff <? 0)%Z then Err Die else
    let c := norm_cutoff (Z.to_nat cutoff) in
    C <- match Copt with
         | None => Ok (mzero (nr A) (nc B))
         | Some C => if (nr C =? nr A) && (nc C =? nc B) then Ok C else Err Die
         end ;;
    if ub_guard c A B then Err UB else Ok (c, C).

  (** mzd_mul (strassen.c:345-365); [same] = (A == B) as pointers, then [B] is ignored *)
  Definition mzd_mul_model (cutoff : Z) (same win : bool) (Copt : option mat) (A B : mat) : res mat :=
    let B := if same then A else B in
    h <- wrapper_head cutoff Copt A B ;;
    let '(c, C) := h in
    strassen (fuel_for A B) (if same then Ksqr else Kmul) win c C A B.

  (** _mzd_addmul (strassen.c:667-673) *)
  Definition _mzd_addmul_model (cutoff : nat) (same win : bool) (C A B : mat) : res mat :=
    let B := if same then A else B in
    strassen (fuel_for A B) (if same then Kaddsqr else Kaddmul) win cutoff C A B.

  (** mzd_addmul (strassen.c:675-700) *)
  Definition mzd_addmul_model (cutoff : Z) (same win : bool) (Copt : option mat) (A B : mat) : res mat :=
    let B := if same then A else B in
    h <- wrapper_head cutoff Copt A B ;;
    let '(c, C) := h in
    if (nr A =? 0) || (nc A =? 0) || (nc B =? 0) then Ok C
    else _mzd_addmul_model c same win C A B.

  (* ---------------------------------------------------------------------------------------- *)
  (** * mp.c *)
  Variable MP : bool -> mpsched.

  (** base case of _mzd_mul_mp4 / _mzd_addmul_mp4 (mp.c:166-176 / 47-57) *)
  Definition mp_base_case (acc : bool) (C A B : mat) : res mat :=
    r <- base (mzero (nr C) (nc C)) A B false ;;
    if acc then add_to C r else copy_to C r.
  Local Open Scope string_scope.
  Definition canon_mp_base (acc : bool) : base_desc :=
    mkbase []
      [BInit "Cbar" (AFld PC Fnrows) (AFld PC Fncols); BM4rm "Cbar" "A" "B" false;
       (if acc then BAddTo "C" "C" "Cbar" else BCopyTo "C" "Cbar"); BFree "Cbar"]
      [].
  Local Close Scope string_scope.

  (** _mzd_mul_mp4 / _mzd_addmul_mp4 with the eight section tasks executed in the order [order]
      (one interleaving of the four sections) *)
  Definition mp4 (order : list instr) (acc : bool) (cutoff : nat) (C A B : mat) : res mat :=
    let s := MP acc in
    let F := fenv_of A B C in
    let E0 := assigns (eupd (fun _ => 0) Vcutoff cutoff) F (mp_dims s) in
    if is_base E0 F (mp_closer s) (mp_closer_args s) then mp_base_case acc C A B else
    let E1 := assigns E0 F (mp_splits s) in
    st1 <- run_body (strassen (fuel_for A B)) cutoff E1 F A B (mp_wins s) order (mkst C []) ;;
    run_strips E1 F A B (mp_strips s) (sC st1).

  (** mzd_mul_mp (mp.c:277-297), mzd_addmul_mp (mp.c:299-324) *)
  Definition mzd_mul_mp_model (order : list instr) (cutoff : Z) (Copt : option mat) (A B : mat) : res mat :=
    h <- wrapper_head cutoff Copt A B ;;
    let '(c, C) := h in mp4 order false c C A B.
  Definition mzd_addmul_mp_model (order : list instr) (cutoff : Z) (Copt : option mat) (A B : mat) : res mat :=
    h <- wrapper_head cutoff Copt A B ;;
    let '(c, C) := h in
    if (nr A =? 0) || (nc A =? 0) || (nc B =? 0) then Ok C
    else mp4 order true c C A B.
End Model.

(** every merge of the task lists that keeps each list's own order *)
Inductive interleaving {T} : list (list T) -> list T -> Prop :=
  | il_nil ls : Forall (fun l => l = []) ls -> interleaving ls []
  | il_cons ls1 x l ls2 r :
      interleaving (app ls1 (l :: ls2)) r -> interleaving (app ls1 ((x :: l) :: ls2)) (x :: r).

(* ------------------------------------------------------------------------------------------ *)
(** * Symbolic execution over formal 2x2 blocks *)
(** A symbolic value: formal dimensions (split variables) and a polynomial over GF(2):
    [v_lin] bit t       : the input block X_t   (t = 2i+j for A_(i+1)(j+1), 4+2i+j for B_(i+1)(j+1));
    [v_bil] bit 8t+u    : the product X_t * X_u;
    [v_c0]  bit q       : the initial content of C quadrant q = 2i+j. *)
Record sval := mksv { v_r : var; v_c : var; v_lin : N; v_bil : N; v_c0 : N }.
Record sstate := mkss { qC : list sval; qT : list (string * sval) }.

Fixpoint nfun (n : nat) (f : nat -> bool) : N :=
  match n with 0 => 0%N | S n' => let r := nfun n' f in if f n' then N.setbit r (N.of_nat n') else r end.
Definition tb (x : N) (i : nat) : bool := N.testbit x (N.of_nat i).
Definition prodbits (a b : N) : N := nfun 64 (fun s => tb a (s / 8) && tb b (s mod 8)).

(** formal dimensions of the quadrants of each parent *)
Definition pdims (k : kind) (p : parent) : option (var * var) :=
  if k_sqr k then match p with PA | PC => Some (Vmmm, Vmmm) | PB => None end
  else match p with PA => Some (Vmmm, Vkkk) | PB => Some (Vkkk, Vnnn) | PC => Some (Vmmm, Vnnn) end.

(** (low, high) must be (0, d) or (d, 2*d) *)
Definition range_idx (lo hi : aexp) : option (nat * var) :=
  match lo, hi with
  | ANum 0, AVar d => Some (0, d)
  | AVar d, AMul (ANum 2) (AVar d') => if var_beq d d' then Some (1, d) else None
  | _, _ => None
  end.
(** a window of the body resolves to quadrant (i,j) of its parent *)
Definition resolve (k : kind) (w : winexp) : option (parent * nat * nat) :=
  match range_idx (w_r0 w) (w_r1 w), range_idx (w_c0 w) (w_c1 w), pdims k (w_par w) with
  | Some (i, dr), Some (j, dc), Some (pr, pc) =>
    if var_beq dr pr && var_beq dc pc then Some (w_par w, i, j) else None
  | _, _, _ => None
  end.

Definition loc_beq (a b : parent * nat * nat) : bool :=
  let '(p, i, j) := a in let '(q, i', j') := b in
  (match p, q with PA, PA | PB, PB | PC, PC => true | _, _ => false end) && (i =? i') && (j =? j').

(** the split variables a routine of kind [k] has *)
Definition dim_ok (k : kind) (v : var) : bool :=
  match v with Vmmm => true | Vkkk | Vnnn => negb (k_sqr k) | _ => false end.

Definition split_var (a : aexp) : option var :=
  match a with AVar Vmmm => Some Vmmm | AVar Vkkk => Some Vkkk | AVar Vnnn => Some Vnnn | _ => None end.

Definition sv0 : sval := mksv Vmmm Vmmm 0 0 0.

Section Sym.
  Variable k : kind.
  Variable wins : list (string * winexp).

  Definition srd (x : string) (ss : sstate) : option sval :=
    match assoc wins x with
    | Some w =>
      match resolve k w, pdims k (w_par w) with
      | Some (PA, i, j), Some (dr, dc) => Some (mksv dr dc (2 ^ N.of_nat (2 * i + j)) 0 0)
      | Some (PB, i, j), Some (dr, dc) => Some (mksv dr dc (2 ^ N.of_nat (4 + 2 * i + j)) 0 0)
      | Some (PC, i, j), Some _ => Some (nth (2 * i + j) (qC ss) sv0)
      | _, _ => None
      end
    | None => assoc (qT ss) x
    end.
  Definition swr (x : string) (v : sval) (ss : sstate) : option sstate :=
    match assoc wins x with
    | Some w =>
      match resolve k w with
      | Some (PC, i, j) => Some (mkss (upd (2 * i + j) v (qC ss)) (qT ss))
      | _ => None
      end
    | None => match assoc (qT ss) x with
              | Some _ => Some (mkss (qC ss) (tset (qT ss) x v))
              | None => None end
    end.

  Definition sv_same (a b : sval) : bool := var_beq (v_r a) (v_r b) && var_beq (v_c a) (v_c b).
  Definition sv_lin (a : sval) : bool := N.eqb (v_bil a) 0 && N.eqb (v_c0 a) 0 && (v_lin a <? 256)%N.
  Definition sv_xor (a b : sval) : sval :=
    mksv (v_r a) (v_c a) (N.lxor (v_lin a) (v_lin b)) (N.lxor (v_bil a) (v_bil b)) (N.lxor (v_c0 a) (v_c0 b)).
  Definition sv_prod (a b : sval) : sval := mksv (v_r a) (v_c b) 0 (prodbits (v_lin a) (v_lin b)) 0.

  (** product d (+)= x*y: the destination must not alias a factor, the factors must be linear forms
      of compatible formal dimensions *)
  Definition sbin (acc : bool) (d x y : string) (ss : sstate) : option sstate :=
    if String.eqb d x || String.eqb d y then None else
    match srd d ss, srd x ss, srd y ss with
    | Some vd, Some vx, Some vy =>
      if sv_lin vx && sv_lin vy && var_beq (v_c vx) (v_r vy)
         && var_beq (v_r vd) (v_r vx) && var_beq (v_c vd) (v_c vy)
      then swr d (if acc then sv_xor vd (sv_prod vx vy) else sv_prod vx vy) ss
      else None
    | _, _, _ => None
    end.

  Definition sstep (i : instr) (ss : sstate) : option sstate :=
    match i with
    | Add d x y =>
      match srd d ss, srd x ss, srd y ss with
      | Some vd, Some vx, Some vy =>
        if sv_same vd vx && sv_same vd vy then swr d (sv_xor vx vy) ss else None
      | _, _, _ => None
      end
    | Mul d x y => sbin false d x y ss
    | AddMul d x y => sbin true d x y ss
    | Sqr d x => sbin false d x x ss
    | AddSqr d x => sbin true d x x ss
    | MulNew d x y =>
      match assoc wins d, assoc (qT ss) d, srd x ss, srd y ss with
      | None, None, Some vx, Some vy =>
        if sv_lin vx && sv_lin vy && var_beq (v_c vx) (v_r vy)
        then Some (mkss (qC ss) (tset (qT ss) d (sv_prod vx vy))) else None
      | _, _, _, _ => None
      end
    | Free t =>
      match assoc (qT ss) t with Some _ => Some (mkss (qC ss) (tdel (qT ss) t)) | None => None end
    end.
  Fixpoint srun (l : list instr) (ss : sstate) : option sstate :=
    match l with [] => Some ss | i :: t => match sstep i ss with Some ss' => srun t ss' | None => None end end.
End Sym.

(** index of the right factor block B_(l+1)(j+1): the squaring routes multiply A by itself *)
Definition bidx (k : kind) (l j : nat) : nat := if k_sqr k then 2 * l + j else 4 + 2 * l + j.
(** expected content of C quadrant q = 2i+j after the block phase *)
Definition expected (k : kind) (q : nat) : sval :=
  let i := q / 2 in let j := q mod 2 in
  mksv Vmmm (if k_sqr k then Vmmm else Vnnn) 0
       (N.lor (2 ^ N.of_nat (8 * (2 * i + 0) + bidx k 0 j)) (2 ^ N.of_nat (8 * (2 * i + 1) + bidx k 1 j)))
       (if k_acc k then 2 ^ N.of_nat q else 0).
Definition sval_beq (a b : sval) : bool :=
  var_beq (v_r a) (v_r b) && var_beq (v_c a) (v_c b) &&
  N.eqb (v_lin a) (v_lin b) && N.eqb (v_bil a) (v_bil b) && N.eqb (v_c0 a) (v_c0 b).

Definition init_sstate (k : kind) (tmps : list (string * (aexp * aexp))) : option sstate :=
  let cq q := mksv Vmmm (if k_sqr k then Vmmm else Vnnn) 0 0 (2 ^ N.of_nat q) in
  let tm := map (fun p => match split_var (fst (snd p)), split_var (snd (snd p)) with
                          | Some r, Some c =>
                            if dim_ok k r && dim_ok k c then Some (fst p, mksv r c 0 0 0) else None
                          | _, _ => None end) tmps in
  if forallb (fun o => match o with Some _ => true | None => false end) tm
  then Some (mkss (map cq (seq 0 4))
                  (flat_map (fun o => match o with Some x => [x] | None => [] end) tm))
  else None.

Fixpoint nodupb {T} (eqb : T -> T -> bool) (l : list T) : bool :=
  match l with [] => true | x :: t => negb (existsb (eqb x) t) && nodupb eqb t end.

(** window table: every window is a quadrant, names unique and distinct from the temporaries, no two
    names for one quadrant (so that name equality decides aliasing) *)
Definition check_wins (k : kind) (wins : list (string * winexp)) (tmps : list string) : bool :=
  forallb (fun p => match resolve k (snd p) with Some _ => true | None => false end) wins &&
  nodupb String.eqb (app (map fst wins) tmps) &&
  nodupb (fun a b => match a, b with Some x, Some y => loc_beq x y | _, _ => true end)
         (map (fun p => resolve k (snd p)) wins).

(** the block phase of a schedule computes the 2x2 block product *)
Definition check_body (k : kind) (wins : list (string * winexp)) (tmps : list (string * (aexp * aexp)))
    (body : list instr) : bool :=
  check_wins k wins (map fst tmps) &&
  match init_sstate k tmps with
  | Some ss0 =>
    match srun k wins body ss0 with
    | Some ss => forallb (fun q => sval_beq (nth q (qC ss) sv0) (expected k q)) (seq 0 4)
    | None => false
    end
  | None => false
  end.

(* ------------------------------------------------------------------------------------------ *)
(** * Canonical forms of the integer parts (compared literally with what T2 extracted) *)
Definition canon_closer : bexp :=
  BOr (BLt (AMul (ANum 3) (AVar Vca)) (AMul (ANum 4) (AVar Vcutoff)))
      (BLt (AVar Vca) (AMul (ANum 2) (ANum 64))).
Definition canon_split (d : var) (x : var) : var * aexp :=
  (d, AMul (AShr (ADiv (ASub (AVar x) (AMod (AVar x) (AVar Vmult))) (ANum 64)) 1) (ANum 64)).
Definition canon_loop : bexp * list (var * aexp) :=
  (BLt (AVar Vcutoff) (AVar Vwidth),
   [(Vwidth, ADiv (AVar Vwidth) (ANum 2)); (Vmult, AMul (AVar Vmult) (ANum 2))]).

Definition W (p : parent) (r0 c0 r1 c1 : aexp) : opd := OWin (mkwin p r0 c0 r1 c1).
Definition dbl (v : var) : list (var * aexp) := [(v, AMul (AVar v) (ANum 2))].
Definition gt (a b : var) : bexp := BLt (AVar b) (AVar a).

Definition canon_strips (k : kind) : list strip :=
  let acc := if k_acc k then SAddW else SClear in
  if k_sqr k then
    let g := gt Vm Vmmm in
    [ mkstrip (dbl Vmmm) g (mkwin PC (ANum 0) (AVar Vmmm) (AVar Vm) (AVar Vm))
        (OPar PA) (W PA (ANum 0) (AVar Vmmm) (AVar Vm) (AVar Vm)) acc;
      mkstrip [] g (mkwin PC (AVar Vmmm) (ANum 0) (AVar Vm) (AVar Vmmm))
        (W PA (AVar Vmmm) (ANum 0) (AVar Vm) (AVar Vm)) (W PA (ANum 0) (ANum 0) (AVar Vm) (AVar Vmmm)) acc;
      mkstrip [] g (mkwin PC (ANum 0) (ANum 0) (AVar Vmmm) (AVar Vmmm))
        (W PA (ANum 0) (AVar Vmmm) (AVar Vmmm) (AVar Vm)) (W PA (AVar Vmmm) (ANum 0) (AVar Vm) (AVar Vmmm)) SAddW ]
  else
    [ mkstrip (dbl Vnnn) (gt Vn Vnnn) (mkwin PC (ANum 0) (AVar Vnnn) (AVar Vm) (AVar Vn))
        (OPar PA) (W PB (ANum 0) (AVar Vnnn) (AVar Vk) (AVar Vn)) acc;
      mkstrip (dbl Vmmm) (gt Vm Vmmm) (mkwin PC (AVar Vmmm) (ANum 0) (AVar Vm) (AVar Vnnn))
        (W PA (AVar Vmmm) (ANum 0) (AVar Vm) (AVar Vk)) (W PB (ANum 0) (ANum 0) (AVar Vk) (AVar Vnnn)) acc;
      mkstrip (dbl Vkkk) (gt Vk Vkkk) (mkwin PC (ANum 0) (ANum 0) (AVar Vmmm) (AVar Vnnn))
        (W PA (ANum 0) (AVar Vkkk) (AVar Vmmm) (AVar Vk)) (W PB (AVar Vkkk) (ANum 0) (AVar Vk) (AVar Vnnn)) SAddW ].

Definition canon_dims (k : kind) : list (var * aexp) :=
  if k_sqr k then [(Vm, AFld PA Fnrows)]
  else [(Vm, AFld PA Fnrows); (Vk, AFld PA Fncols); (Vn, AFld PB Fncols)].
Definition canon_args (k : kind) : list aexp :=
  if k_sqr k then [AVar Vm] else [AVar Vm; AVar Vk; AVar Vn].
Definition canon_pre (k : kind) : list (var * aexp) :=
  [(Vmult, ANum 64);
   (Vwidth, if k_sqr k then ADiv (AVar Vm) (ANum 2)
            else ADiv (AMin (AMin (AVar Vm) (AVar Vn)) (AVar Vk)) (ANum 2))].
Definition canon_splits (k : kind) : list (var * aexp) :=
  if k_sqr k then [canon_split Vmmm Vm]
  else [canon_split Vmmm Vm; canon_split Vkkk Vk; canon_split Vnnn Vn].
Definition canon_early (k : kind) : list (parent * field) :=
  match k with
  | Kmul | Kaddmul => [(PC, Fnrows); (PC, Fncols)]
  | Ksqr => []
  | Kaddsqr => [(PC, Fnrows)]
  end.

(** decidable equality of the descriptions *)
Definition aexp_eq_dec : forall a b : aexp, {a = b} + {a <> b}.
Proof. repeat decide equality. Defined.
Definition bexp_eq_dec : forall a b : bexp, {a = b} + {a <> b}.
Proof. decide equality; apply aexp_eq_dec. Defined.
Definition winexp_eq_dec : forall a b : winexp, {a = b} + {a <> b}.
Proof. decide equality; try apply aexp_eq_dec. decide equality. Defined.
Definition opd_eq_dec : forall a b : opd, {a = b} + {a <> b}.
Proof. decide equality; [apply winexp_eq_dec | decide equality]. Defined.
Definition assign_eq_dec : forall a b : var * aexp, {a = b} + {a <> b}.
Proof. decide equality; [apply aexp_eq_dec | apply var_eq_dec]. Defined.
Definition strip_eq_dec : forall a b : strip, {a = b} + {a <> b}.
Proof.
  decide equality; try apply opd_eq_dec; try apply winexp_eq_dec;
    try apply bexp_eq_dec; [decide equality | apply (list_eq_dec assign_eq_dec)].
Defined.
Definition bstmt_eq_dec : forall a b : bstmt, {a = b} + {a <> b}.
Proof. decide equality; try apply string_dec; try apply aexp_eq_dec; try apply bool_dec. Defined.
Definition base_eq_dec : forall a b : base_desc, {a = b} + {a <> b}.
Proof. decide equality; try apply (list_eq_dec bstmt_eq_dec); apply (list_eq_dec string_dec). Defined.
Definition pf_eq_dec : forall a b : parent * field, {a = b} + {a <> b}.
Proof. repeat decide equality. Defined.

Definition deq {T} (dec : forall a b : T, {a = b} + {a <> b}) (a b : T) : bool :=
  if dec a b then true else false.

(** the integer skeleton of a routine is the one the proofs are about *)
Definition check_skel (s : sched) : bool :=
  let k := s_kind s in
  deq (list_eq_dec pf_eq_dec) (s_early s) (canon_early k) &&
  deq (list_eq_dec assign_eq_dec) (s_dims s) (canon_dims k) &&
  deq bexp_eq_dec (s_closer s) canon_closer &&
  deq (list_eq_dec aexp_eq_dec) (s_closer_args s) (canon_args k) &&
  deq base_eq_dec (s_base s) (canon_base k) &&
  deq (list_eq_dec assign_eq_dec) (s_pre s) (canon_pre k) &&
  deq bexp_eq_dec (fst (s_loop s)) (fst canon_loop) &&
  deq (list_eq_dec assign_eq_dec) (snd (s_loop s)) (snd canon_loop) &&
  deq (list_eq_dec assign_eq_dec) (s_splits s) (canon_splits k) &&
  deq (list_eq_dec strip_eq_dec) (s_strips s) (canon_strips k).

Definition check_sched (s : sched) : bool :=
  check_skel s && check_body (s_kind s) (s_wins s) (s_tmps s) (s_body s).

(* ------------------------------------------------------------------------------------------ *)
(** * mp.c: canonical skeleton and checker *)
Definition canon_mp_dims : list (var * aexp) :=
  [(Va, AFld PA Fnrows); (Vb, AFld PA Fncols); (Vc, AFld PB Fncols)].
Definition canon_mp_args : list aexp := [AFld PA Fnrows; AFld PA Fncols; AFld PB Fncols].
Definition mp_half (x : var) : aexp := AMul (AShr (ADiv (AVar x) (ANum 64)) 1) (ANum 64).
Definition canon_mp_splits : list (var * aexp) :=
  [(Vmult, AMul (ANum 2) (ANum 64));
   (Va, ASub (AVar Va) (AMod (AVar Va) (AVar Vmult)));
   (Vb, ASub (AVar Vb) (AMod (AVar Vb) (AVar Vmult)));
   (Vc, ASub (AVar Vc) (AMod (AVar Vc) (AVar Vmult)));
   (Vanr, mp_half Va); (Vanc, mp_half Vb); (Vbnr, AVar Vanc); (Vbnc, mp_half Vc)].
Definition two (v : var) : aexp := AMul (ANum 2) (AVar v).
Definition canon_mp_wins : list (parent * nat * nat * winexp) :=
  let q p i j dr dc :=
    (p, i, j, mkwin p (if i =? 0 then ANum 0 else AVar dr) (if j =? 0 then ANum 0 else AVar dc)
                     (if i =? 0 then AVar dr else two dr) (if j =? 0 then AVar dc else two dc)) in
  flat_map (fun ij => [q PA (fst ij) (snd ij) Vanr Vanc; q PB (fst ij) (snd ij) Vbnr Vbnc;
                       q PC (fst ij) (snd ij) Vanr Vbnc]) [(0,0); (0,1); (1,0); (1,1)].
Definition canon_mp_strips (acc : bool) : list strip :=
  let op := if acc then SAddW else SMulW in
  [ mkstrip [] (BLt (two Vbnc) (AFld PB Fncols))
      (mkwin PC (ANum 0) (two Vbnc) (AFld PA Fnrows) (AFld PC Fncols))
      (OPar PA) (W PB (ANum 0) (two Vbnc) (AFld PA Fncols) (AFld PB Fncols)) op;
    mkstrip [] (BLt (two Vanr) (AFld PA Fnrows))
      (mkwin PC (two Vanr) (ANum 0) (AFld PC Fnrows) (two Vbnc))
      (W PA (two Vanr) (ANum 0) (AFld PA Fnrows) (AFld PA Fncols))
      (W PB (ANum 0) (ANum 0) (AFld PB Fnrows) (two Vbnc)) op;
    mkstrip [] (BLt (two Vanc) (AFld PA Fncols))
      (mkwin PC (ANum 0) (ANum 0) (two Vanr) (two Vbnc))
      (W PA (ANum 0) (two Vanc) (two Vanr) (AFld PA Fncols))
      (W PB (two Vbnr) (ANum 0) (AFld PB Fnrows) (two Vbnc)) SAddW ].

(** a window of mp.c resolves to (parent, i, j) by literal comparison with the canonical table *)
Definition mp_resolve (w : winexp) : option (parent * nat * nat) :=
  match find (fun e => deq winexp_eq_dec (snd e) w) canon_mp_wins with
  | Some (p, i, j, _) => Some (p, i, j)
  | None => None
  end.

(** section tasks: every section writes one C quadrant (i,j), distinct sections distinct quadrants;
    the section computes C_ij (+)= A_i0*B_0j + A_i1*B_1j, first product overwriting iff not [acc] *)
Definition mp_task_ok (acc : bool) (wins : list (string * winexp)) (sec : list instr) : option (nat * nat) :=
  let res x := match assoc wins x with Some w => mp_resolve w | None => None end in
  match sec with
  | [i1; i2] =>
    let parts i := match i with
                   | Mul d x y => Some (false, d, x, y) | AddMul d x y => Some (true, d, x, y)
                   | _ => None end in
    match parts i1, parts i2 with
    | Some (a1, d1, x1, y1), Some (a2, d2, x2, y2) =>
      match res d1, res x1, res y1, res d2, res x2, res y2 with
      | Some (PC, i, j), Some (PA, i1', l1), Some (PB, l1', j1),
        Some (PC, i', j'), Some (PA, i2', l2), Some (PB, l2', j2) =>
        if Bool.eqb a1 acc && a2 && (i =? i') && (j =? j') && (i1' =? i) && (i2' =? i)
           && (j1 =? j) && (j2 =? j) && (l1 =? l1') && (l2 =? l2') && (l1 + l2 =? 1)
        then Some (i, j) else None
      | _, _, _, _, _, _ => None
      end
    | _, _ => None
    end
  | _ => None
  end.

Definition check_mp (s : mpsched) : bool :=
  let acc := mp_acc s in
  deq (list_eq_dec assign_eq_dec) (mp_dims s) canon_mp_dims &&
  deq bexp_eq_dec (mp_closer s) canon_closer &&
  deq (list_eq_dec aexp_eq_dec) (mp_closer_args s) canon_mp_args &&
  deq base_eq_dec (mp_base s) (canon_mp_base acc) &&
  deq (list_eq_dec assign_eq_dec) (mp_splits s) canon_mp_splits &&
  deq (list_eq_dec strip_eq_dec) (mp_strips s) (canon_mp_strips acc) &&
  forallb (fun p => match mp_resolve (snd p) with Some _ => true | None => false end) (mp_wins s) &&
  nodupb String.eqb (map fst (mp_wins s)) &&
  let qs := map (mp_task_ok acc (mp_wins s)) (mp_sections s) in
  forallb (fun o => match o with Some _ => true | None => false end) qs &&
  nodupb (fun a b => match a, b with Some (i, j), Some (i', j') => (i =? i') && (j =? j') | _, _ => true end) qs &&
  (List.length qs =? 4).
