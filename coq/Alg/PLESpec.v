(* Alg/PLESpec.v — SPECIFICATION of the PLE / PLUQ factorisations (property C03) and the executable
   checkers.  Definitions and short projection lemmas only; the reflection proofs
   ([pluq_ok_spec], [ple_ok_spec]) and the correctness proofs of the models of Alg/PLE.v are in
   Alg/PLEProofs*.v.

   The specification is phrased exactly as /repo/tests/test_pluq.c (check_pluq) and
   /repo/tests/test_ple.c (check_ple) read a result ((r, A'), (P, Q)):

     test_pluq.c:19-28   L (m x m there, m x r here: the columns >= r of the test's L are zero and meet
                         the zero rows >= r of its U) := strict lower triangle of the first r rows of A',
                         all of the first r columns of the rows >= r, unit diagonal;
                         U := the part of the first r rows of A' strictly right of the diagonal,
                         unit diagonal *written by the test* (the stored diagonal is not read);
     test_pluq.c:35-39   mzd_apply_p_left(Acopy, P); mzd_apply_p_right_trans(Acopy, Q);
                         Acopy += L*U; must be zero, i.e.
                            apply_p_right_trans (apply_p_left A P) Q = L * U          ("P A Q^T = L U")
     test_pluq.c:30-33   equivalently  apply_p_right (apply_p_left_trans (L*U) P) Q = A
                         ("A = P^T L U Q", lemma [plu_recon_inv] below);
     test_ple.c:18       the same reading after mzd_apply_p_right_trans_tri(A', Q) on the whole of A'.

   On top of what the tests check, the specification demands (properties.jsonl, C03): the shape facts
   on P, Q (LAPACK style), [firstn r Q] strictly increasing and equal to the column rank profile of A
   (hence r = rank A), and zero storage outside the L and U/E regions; also P[i] = i beyond r.

   NOT part of the specification: "Q[j] = j for j >= r" (DESIGN.md listed it).  It holds for the
   naive (and Four-Russians) routines but is REFUTED for the block recursion _mzd_ple (ple.c:146-148
   copy Q[n1..n1+r2) down to Q[r1..r1+r2) and leave the source entries in place), in the model
   ([ple_rec_Q_tail_refuted] in PLEProofs3.v) and in the library (200 x 130 input with ones at (0,0),
   (1,70), (199,0), L3 = 4096: r = 2, Q[64] = 70).  The tail of Q is then an arbitrary LAPACK swap
   sequence on the non-pivot columns, applied consistently by every reader of the result.  It is
   available separately as [plu_Q_tail_id]. *)
From Coq Require Import List NArith Arith Bool Sorted.
From M4 Require Import Base.Bits Lin.Mat Lin.Ops Lin.Spec Lin.Perm Alg.Gauss Alg.PLE Alg.PLELemmas.
Import ListNotations.
Local Open Scope nat_scope.

(** r x n upper trapezoidal factor with UNIT diagonal: row i < r = bit i, plus the stored bits of
    row i strictly right of column i (test_pluq.c:21,27 / test_ple.c:22,28) *)
Definition unit_upper_rect (r n : nat) (U : mat) : mat :=
  mk r n (map (fun i => N.land (N.lor (2 ^ N.of_nat i) (N.ldiff (row U i) (N.ones (N.of_nat (S i)))))
                               (N.ones (N.of_nat n))) (seq 0 r)).

(** the two factors read from the stored matrix [S] (S = A' for PLUQ, S = tri(A', Q) for PLE) *)
Definition plu_L (A : mat) (r : nat) (S : mat) : mat := unit_lower_rect (nr A) r S.
Definition plu_U (A : mat) (r : nat) (S : mat) : mat := unit_upper_rect r (nc A) S.

(** * the clauses common to PLE and PLUQ *)
Definition plu_struct (A : mat) (r : nat) (A' : mat) (P Q : list nat) : Prop :=
  wf A' /\ nr A' = nr A /\ nc A' = nc A /\
  r <= nr A /\ r <= nc A /\
  length P = nr A /\ length Q = nc A /\
  lapack P (nr A) /\ lapack Q (nc A) /\
  (forall i, r <= i -> i < nr A -> nth i P 0 = i) /\
  StronglySorted lt (firstn r Q) /\
  is_crp A (firstn r Q) /\
  (forall i j, r <= i -> r <= j -> get A' i j = false).

(** the extra property of the naive routines: Q is the identity beyond r *)
Definition plu_Q_tail_id (r : nat) (Q : list nat) (n : nat) : Prop :=
  forall j, r <= j -> j < n -> nth j Q 0 = j.
Definition plu_Q_tail_idb (r : nat) (Q : list nat) (n : nat) : bool :=
  forallb (fun j => nth j Q 0 =? j) (seq r (n - r)).

(** the reconstruction, with the factors read from [S]:  P A Q^T = L U *)
Definition plu_recon (A : mat) (r : nat) (S : mat) (P Q : list nat) : Prop :=
  apply_p_right_trans (apply_p_left A P) Q = mmul (plu_L A r S) (plu_U A r S).

(** * PLUQ (mzd_pluq, _mzd_pluq_naive): the factors are read from A' as stored *)
Definition pluq_spec (A : mat) (out : ple_out) : Prop :=
  let '((r, A'), (P, Q)) := out in
  plu_struct A r A' P Q /\ plu_recon A r A' P Q.

(** * PLE (mzd_ple, _mzd_ple_naive, _mzd_ple_russian): L is stored compressed in the first r
    columns; the echelon factor is read after mzd_apply_p_right_trans_tri(A', Q) (test_ple.c:18) *)
Definition ple_spec (A : mat) (out : ple_out) : Prop :=
  let '((r, A'), (P, Q)) := out in
  plu_struct A r A' P Q /\ plu_recon A r (apply_p_right_trans_tri A' Q) P Q.

(** * executable checkers *)
(** the column rank profile, computed independently of any PLE code: the leading columns of the
    first [rank A] rows of the reduced row echelon form of Alg/Gauss.v *)
Definition crp_of (A : mat) : list nat :=
  let R := rref A in
  map (fun i => match lowbit (row R i) with Some j => j | None => 0 end) (seq 0 (rank A)).

Definition plu_struct_ok (A : mat) (r : nat) (A' : mat) (P Q : list nat) : bool :=
  wfb A' && (nr A' =? nr A) && (nc A' =? nc A) &&
  (r <=? nr A) && (r <=? nc A) &&
  (length P =? nr A) && (length Q =? nc A) &&
  lapackb P (nr A) && lapackb Q (nc A) &&
  forallb (fun i => nth i P 0 =? i) (seq r (nr A - r)) &&
  nat_list_eqb (firstn r Q) (crp_of A) &&
  forallb (fun i => N.eqb (N.shiftr (row A' i) (N.of_nat r)) 0) (seq r (nr A - r)).

Definition plu_recon_ok (A : mat) (r : nat) (S : mat) (P Q : list nat) : bool :=
  mequal (apply_p_right_trans (apply_p_left A P) Q) (mmul (plu_L A r S) (plu_U A r S)).

Definition pluq_ok (A : mat) (out : ple_out) : bool :=
  let '((r, A'), (P, Q)) := out in
  plu_struct_ok A r A' P Q && plu_recon_ok A r A' P Q.

Definition ple_ok (A : mat) (out : ple_out) : bool :=
  let '((r, A'), (P, Q)) := out in
  plu_struct_ok A r A' P Q && plu_recon_ok A r (apply_p_right_trans_tri A' Q) P Q.

(** * projections (for the clients: solve, kernel, echelon form via PLUQ, inversion) *)
Section Proj.
  Variables (A : mat) (r : nat) (A' : mat) (P Q : list nat).
  Hypothesis H : plu_struct A r A' P Q.

  Lemma plu_wf : wf A'.                      Proof. apply H. Qed.
  Lemma plu_nr : nr A' = nr A.               Proof. apply H. Qed.
  Lemma plu_nc : nc A' = nc A.               Proof. apply H. Qed.
  Lemma plu_r_le_nr : r <= nr A.             Proof. apply H. Qed.
  Lemma plu_r_le_nc : r <= nc A.             Proof. apply H. Qed.
  Lemma plu_len_P : length P = nr A.         Proof. apply H. Qed.
  Lemma plu_len_Q : length Q = nc A.         Proof. apply H. Qed.
  Lemma plu_lapack_P : lapack P (nr A).      Proof. apply H. Qed.
  Lemma plu_lapack_Q : lapack Q (nc A).      Proof. apply H. Qed.
  Lemma plu_P_id i : r <= i -> i < nr A -> nth i P 0 = i.  Proof. apply H. Qed.
  Lemma plu_sorted : StronglySorted lt (firstn r Q).       Proof. apply H. Qed.
  Lemma plu_crp : is_crp A (firstn r Q).                   Proof. apply H. Qed.
  Lemma plu_zero i j : r <= i -> r <= j -> get A' i j = false.  Proof. apply H. Qed.

  (** the revealed rank *)
  Lemma plu_rank : has_rank A r.
  Proof.
    exists (firstn r Q). split; [apply plu_crp|].
    rewrite firstn_length, plu_len_Q. apply Nat.min_l, plu_r_le_nc.
  Qed.
End Proj.

Lemma pluq_spec_struct A r A' P Q : pluq_spec A ((r, A'), (P, Q)) -> plu_struct A r A' P Q.
Proof. now intros [H _]. Qed.
Lemma pluq_spec_recon A r A' P Q : pluq_spec A ((r, A'), (P, Q)) -> plu_recon A r A' P Q.
Proof. now intros [_ H]. Qed.
Lemma ple_spec_struct A r A' P Q : ple_spec A ((r, A'), (P, Q)) -> plu_struct A r A' P Q.
Proof. now intros [H _]. Qed.
Lemma ple_spec_recon A r A' P Q :
  ple_spec A ((r, A'), (P, Q)) -> plu_recon A r (apply_p_right_trans_tri A' Q) P Q.
Proof. now intros [_ H]. Qed.

(** the reconstruction the other way round (test_pluq.c:30-33):  A = P^T (L U) Q *)
Lemma plu_recon_inv A r S P Q : wf A -> lapack P (nr A) -> lapack Q (nc A) ->
  plu_recon A r S P Q ->
  apply_p_left_trans (apply_p_right (mmul (plu_L A r S) (plu_U A r S)) Q) P = A.
Proof.
  intros HA HP HQ E. unfold plu_recon in E. rewrite <- E.
  assert (HA1 : wf (apply_p_left A P)) by now apply wf_apply_p_left.
  assert (Hc : nc (apply_p_left A P) = nc A) by apply nc_rswaps.
  rewrite right_undoes_trans by (rewrite ?Hc; assumption).
  now apply trans_undoes_left.
Qed.
