(* Alg/EchelonPLUQProofs.v — proofs about the PLUQ-based echelon forms of Alg/EchelonPLUQ.v. *)
From Coq Require Import List NArith Arith Lia Bool Sorted ZArith ZifyBool ZifyNat ZifyN.
From M4 Require Import Base.Bits Lin.Mat Lin.MatAlg Lin.Ops Lin.OpsProofs Lin.Spec Lin.Span Lin.Echelon
                       Lin.Perm Lin.Tri Lin.Observers Alg.Gauss Alg.GaussProofs Alg.PLE Alg.PLELemmas
                       Alg.PLESpec Alg.TRSM Alg.TRSMProofs Alg.Gray Alg.M4RI Alg.M4RIProofs Alg.EchelonPLUQ.
Import ListNotations.
Local Open Scope nat_scope.

(** * 1. An echelon form is recognised from the column rank profile
    If R is row equivalent to A, has ones at (t, crp_t), zeros below them and only zero rows after
    the first |crp| rows, then R is a row echelon form on the pivots crp(A) — the entries left of
    the pivots vanish because every non-profile column depends on the columns before it. *)
Lemma crp_nonpivot_dep A piv j : wf A -> is_crp A piv -> j < nc A -> ~ In j piv -> col_dependent A j.
Proof.
  intros HA Hcrp Hj Hnin. destruct (rref_is_rref A HA) as (p & Hrr & _ & Hcrp').
  rewrite (is_crp_unique A p piv Hcrp' Hcrp) in Hrr.
  pose proof (wf_rref A HA) as HR. pose proof (row_equiv_rref A HA) as Heq.
  apply (col_dependent_row_equiv A (rref A) j HA HR Heq).
  apply (rref_col_dependent (rref A) piv); auto. destruct Heq as (_ & <- & _). exact Hj.
Qed.

Lemma col_zero_below R piv : wf R -> is_crp R piv ->
  (forall t i, t < length piv -> t < i -> get R i (nth t piv 0) = false) ->
  forall j, j < nc R -> forall i, (forall t, t < length piv -> nth t piv 0 <= j -> t < i) ->
  get R i j = false.
Proof.
  intros HR Hcrp Hbelow j. induction j as [j IH] using lt_wf_ind. intros Hj i Hi.
  destruct (in_dec Nat.eq_dec j piv) as [Hin|Hnin].
  - destruct (In_nth _ _ 0 Hin) as [t [Ht <-]]. apply Hbelow; [assumption|]. apply Hi; [assumption|lia].
  - pose proof (crp_nonpivot_dep R piv j HR Hcrp Hj Hnin) as Hdep.
    apply (col_dependent_iff R j HR) in Hdep as [x [Hx Hdep]]. specialize (Hdep i).
    unfold cdep in Hdep. apply Bool.xorb_eq in Hdep. change (N.testbit (row R i) (N.of_nat j)) with (get R i j) in Hdep.
    rewrite <- Hdep. unfold dotn. apply xsum_zero. intros k Hk.
    destruct (Nat.lt_ge_cases k j) as [Hkj|Hkj].
    + change (N.testbit (row R i) (N.of_nat k)) with (get R i k).
      rewrite (IH k Hkj Hk i); [apply andb_false_r|]. intros t Ht Hle. apply Hi; [assumption|lia].
    + now rewrite Hx.
Qed.

Theorem ref_of_crp A R piv : wf A -> wf R -> row_equiv A R -> is_crp A piv ->
  (forall t, t < length piv -> get R t (nth t piv 0) = true) ->
  (forall t i, t < length piv -> t < i -> get R i (nth t piv 0) = false) ->
  (forall i, length piv <= i -> row R i = 0%N) ->
  is_ref R piv.
Proof.
  intros HA HR Heq Hcrp Hdiag Hbelow Hzero.
  pose proof (is_crp_row_equiv A R piv HA HR Heq Hcrp) as HcrpR.
  pose proof HcrpR as (Hsort & Hlt & _).
  split; [assumption|]. split; [|split; [|assumption]].
  - destruct (Nat.le_gt_cases (length piv) (nr R)) as [|Hgt]; [assumption|]. exfalso.
    pose proof (Hdiag (nr R) Hgt) as H. rewrite get_out_row in H by auto. discriminate.
  - intros i Hi. apply lead_Some. split; [apply Hdiag; assumption|].
    intros j Hj. change (get R i j = false).
    assert (Hp : nth i piv 0 < nc R) by (apply Hlt, nth_In; assumption).
    apply (col_zero_below R piv HR HcrpR Hbelow j ltac:(lia)).
    intros t Ht Hle. destruct (Nat.lt_ge_cases t i) as [|Hge]; [assumption|].
    pose proof (sorted_nth_le piv i t Hsort Hge Ht). lia.
Qed.

Theorem rref_of_crp A R piv : wf A -> wf R -> row_equiv A R -> is_crp A piv ->
  (forall t i, t < length piv -> get R i (nth t piv 0) = (i =? t)) ->
  (forall i, length piv <= i -> row R i = 0%N) ->
  is_rref R piv.
Proof.
  intros HA HR Heq Hcrp Hcol Hzero. split.
  - apply (ref_of_crp A R piv); auto.
    + intros t Ht. rewrite Hcol by assumption. apply Nat.eqb_refl.
    + intros t i Ht Hti. rewrite Hcol by assumption. destruct (Nat.eqb_spec i t); [lia|reflexivity].
  - intros i i' Hi Hne. rewrite Hcol by assumption. destruct (Nat.eqb_spec i' i); [contradiction|reflexivity].
Qed.

(** * 2. where the LAPACK-style column permutation Q puts the first r columns *)
Lemma fold_bit_swap_untouched Q l x p : (forall i, In i l -> i <> p /\ pval Q i <> p) ->
  N.testbit (fold_left (fun r i => bit_swap r i (pval Q i)) l x) (N.of_nat p) = N.testbit x (N.of_nat p).
Proof.
  revert x. induction l as [|i l IH]; intros x H; cbn [fold_left]; [reflexivity|].
  rewrite IH by (intros i' Hi'; apply H; now right).
  rewrite OpsProofs.testbit_bit_swap. destruct (H i ltac:(now left)) as [H1 H2]. unfold OpsProofs.transp.
  destruct (Nat.eqb_spec p i); [congruence|]. destruct (Nat.eqb_spec p (pval Q i)); [congruence|reflexivity].
Qed.

Lemma perm_col_track T Q r t i : wf T -> lapack Q (nc T) -> length Q = nc T ->
  StronglySorted lt (firstn r Q) -> t < r -> r <= nc T ->
  get (apply_p_right T Q) i (nth t Q 0) = get T i t.
Proof.
  intros HT HQ HlQ Hsort Ht Hr.
  set (R1 := apply_p_right T Q).
  assert (HR1 : wf R1) by now apply wf_apply_p_right.
  assert (Hnc1 : nc R1 = nc T) by apply nc_cswaps. assert (Hnr1 : nr R1 = nr T) by apply nr_cswaps.
  replace (get T i t) with (get (apply_p_right_trans R1 Q) i t)
    by (unfold R1; now rewrite trans_undoes_right).
  destruct (Nat.lt_ge_cases i (nr T)) as [Hi|Hi].
  2:{ rewrite (get_out_row R1) by (auto; lia). symmetry. apply get_out_row.
      - apply wf_apply_p_right_trans; [assumption|now rewrite Hnc1].
      - unfold apply_p_right_trans. fold (cswaps Q (seq 0 (Nat.min (length Q) (nc R1))) R1).
        rewrite nr_cswaps. lia. }
  unfold apply_p_right_trans. rewrite HlQ, Hnc1, Nat.min_id.
  unfold get. fold (cswaps Q (seq 0 (nc T)) R1). rewrite row_cswaps by lia.
  assert (HQi : forall i', i' < nc T -> pval Q i' = nth i' Q 0 /\ i' <= nth i' Q 0 < nc T).
  { intros i' Hi'. rewrite pval_in by lia. split; [reflexivity|]. apply HQ. lia. }
  assert (Hnthf : forall i', i' < r -> nth i' (firstn r Q) 0 = nth i' Q 0) by (intros; now apply nth_firstn_lt).
  assert (Hlf : length (firstn r Q) = r) by (rewrite firstn_length; lia).
  replace (nc T) with (t + S (nc T - S t)) at 1 by lia.
  rewrite seq_app, fold_left_app. cbn [seq fold_left Nat.add].
  rewrite fold_bit_swap_untouched.
  - rewrite OpsProofs.testbit_bit_swap. unfold OpsProofs.transp. rewrite Nat.eqb_refl.
    destruct (HQi t ltac:(lia)) as [-> _].
    rewrite fold_bit_swap_untouched; [reflexivity|].
    intros i' Hi'. apply in_seq in Hi'. destruct (HQi i' ltac:(lia)) as [-> Hb].
    destruct (HQi t ltac:(lia)) as [_ Hbt]. split; [lia|].
    pose proof (sorted_nth_lt (firstn r Q) i' t Hsort ltac:(lia) ltac:(lia)) as Hlt.
    rewrite !Hnthf in Hlt by lia. lia.
  - intros i' Hi'. apply in_seq in Hi'. destruct (HQi i' ltac:(lia)) as [-> Hb]. lia.
Qed.

(** * 3. from the factorisation to the reduced row echelon form (matrix algebra) *)
From M4 Require Import Alg.PLEProofs.

Lemma row_equiv_apply_p_left A P : wf A -> lapack P (nr A) -> row_equiv A (apply_p_left A P).
Proof.
  intros HA HP. unfold apply_p_left.
  apply (fold_left_ind (fun M => wf M /\ nr M = nr A /\ row_equiv A M)).
  - intros M i Hi (HM & Hnr & Heq). apply in_seq in Hi.
    pose proof (lapack_pval P (nr A) i HP ltac:(lia)) as Hp.
    split; [now apply wf_row_swap|]. split; [exact Hnr|].
    apply (row_equiv_trans A M); [assumption|]. apply row_equiv_row_swap; rewrite (wf_len M HM); lia.
  - split; [assumption|]. split; [reflexivity|apply row_equiv_refl].
Qed.

Lemma firstn_seq0 r m : r <= m -> firstn r (seq 0 m) = seq 0 r.
Proof.
  intros H. replace m with (r + (m - r)) by lia. rewrite seq_app.
  rewrite firstn_app, seq_length, Nat.sub_diag. cbn [firstn]. rewrite app_nil_r.
  rewrite <- (seq_length r 0) at 1. apply firstn_all.
Qed.

Lemma top_rows_mmul_unit_lower m r S Z : r <= m ->
  top_rows r (mmul (unit_lower_rect m r S) Z) = mmul (unit_lower r S) Z.
Proof.
  intros Hr. unfold top_rows, mmul, unit_lower_rect, unit_lower. cbn [nr nc rows]. f_equal.
  rewrite firstn_map, firstn_map, firstn_seq0 by assumption. rewrite !map_map.
  apply map_ext_in. intros i Hi. apply in_seq in Hi. destruct (Nat.ltb_spec i r); [reflexivity|lia].
Qed.

Lemma rs_incl_top_rows r Y : rs_incl (top_rows r Y) Y.
Proof.
  apply rs_incl_rows. intros i Hi. unfold row, top_rows in *. cbn [rows] in *.
  rewrite firstn_length in Hi. rewrite nth_firstn_lt by lia. apply in_rowspace_row.
Qed.

Theorem echelon_from_factor A r A' P Q T3 R : wf A ->
  plu_struct A r A' P Q -> plu_recon A r A' P Q ->
  wf T3 -> nr T3 = r -> nc T3 = nc A ->
  mmul (unit_upper r (msub A' 0 0 r r)) T3 = plu_U A r A' ->
  (forall i j, i < r -> j < r -> get T3 i j = (i =? j)) ->
  wf R -> nr R = nr A -> nc R = nc A ->
  (forall i, i < r -> row R i = row (apply_p_right T3 Q) i) ->
  (forall i, r <= i -> row R i = 0%N) ->
  R = rref A /\ r = rank A.
Proof.
  intros HA Hst Hrec HT3 HnrT HncT HUT Hid HR HnrR HncR Htop Hbot.
  pose proof (plu_lapack_Q _ _ _ _ _ Hst) as HQ. pose proof (plu_lapack_P _ _ _ _ _ Hst) as HP.
  pose proof (plu_len_Q _ _ _ _ _ Hst) as HlQ. pose proof (plu_r_le_nc _ _ _ _ _ Hst) as Hrc.
  pose proof (plu_r_le_nr _ _ _ _ _ Hst) as Hrr. pose proof (plu_sorted _ _ _ _ _ Hst) as Hsort.
  pose proof (plu_crp _ _ _ _ _ Hst) as Hcrp.
  set (UU := unit_upper r (msub A' 0 0 r r)) in *. set (Uf := plu_U A r A') in *. set (L := plu_L A r A').
  set (R1 := apply_p_right T3 Q) in *.
  assert (HR1 : wf R1) by (apply wf_apply_p_right; [assumption|now rewrite HncT]).
  assert (HnrR1 : nr R1 = r) by (unfold R1; rewrite <- HnrT; apply nr_cswaps).
  assert (HncR1 : nc R1 = nc A) by (unfold R1; rewrite <- HncT; apply nc_cswaps).
  assert (HUU : wf UU) by apply wf_unit_upper. assert (HUf : wf Uf) by apply wf_plu_U.
  assert (HL : wf L) by apply wf_plu_L.
  set (PA := apply_p_left A P).
  assert (HPA : wf PA) by now apply wf_apply_p_left.
  assert (HncPA : nc PA = nc A) by apply nc_rswaps.
  (* PA = L * (UU * R1) *)
  assert (EPA : PA = mmul L (mmul UU R1)).
  { rewrite <- (right_undoes_trans PA Q HPA ltac:(now rewrite HncPA)). fold PA in Hrec. unfold plu_recon in Hrec.
    fold PA L Uf in Hrec. rewrite Hrec.
    rewrite apply_right_is_mul by (try apply wf_mmul; auto; cbn [nc mmul]; unfold Uf, plu_U, unit_upper_rect; cbn [nc]; assumption).
    unfold R1. rewrite apply_right_is_mul by (auto; now rewrite HncT).
    rewrite <- HUT. rewrite !mmul_assoc. cbn [nc mmul]. now rewrite HncT. }
  (* row spaces *)
  assert (I1 : rs_incl A R1).
  { apply (rs_incl_trans A PA); [apply (row_equiv_apply_p_left A P HA HP)|].
    rewrite EPA. apply (rs_incl_trans _ (mmul UU R1)); apply rs_incl_mmul. }
  assert (I2 : rs_incl R1 A).
  { apply (rs_incl_trans R1 PA); [|apply (row_equiv_apply_p_left A P HA HP)].
    apply (rs_incl_trans R1 (mmul UU R1)).
    { apply rs_incl_mmul_inv; [assumption|apply unit_upper_invertible|]. cbn [nc UU unit_upper]. now rewrite HnrR1. }
    apply (rs_incl_trans _ (mmul (unit_lower r A') (mmul UU R1))).
    { apply rs_incl_mmul_inv; [apply wf_mmul; assumption|apply unit_lower_invertible|reflexivity]. }
    rewrite <- top_rows_mmul_unit_lower with (m := nr A) by assumption.
    rewrite EPA. apply rs_incl_top_rows. }
  assert (I3 : rs_incl R R1).
  { apply rs_incl_rows. intros i _. destruct (Nat.lt_ge_cases i r).
    - rewrite Htop by assumption. apply in_rowspace_row.
    - rewrite Hbot by assumption. apply in_rowspace_0. }
  assert (I4 : rs_incl R1 R).
  { apply rs_incl_rows. intros i Hi. rewrite (wf_len R1 HR1), HnrR1 in Hi. rewrite <- Htop by assumption.
    apply in_rowspace_row. }
  assert (Heq : row_equiv A R).
  { split; [now symmetry|]. split; [now symmetry|]. split.
    - now apply (rs_incl_trans A R1).
    - now apply (rs_incl_trans R R1). }
  set (piv := firstn r Q) in *.
  assert (Hlp : length piv = r) by (unfold piv; rewrite firstn_length; lia).
  assert (Hrr' : is_rref R piv).
  { apply (rref_of_crp A R piv); auto.
    - rewrite Hlp. intros t i Ht. unfold piv. rewrite nth_firstn_lt by assumption.
      destruct (Nat.lt_ge_cases i r) as [Hi|Hi].
      + unfold get. rewrite Htop by assumption. fold (get R1 i (nth t Q 0)). unfold R1.
        rewrite (perm_col_track T3 Q r t i) by (auto; try rewrite HncT; auto). now apply Hid.
      + unfold get. rewrite Hbot, N.bits_0 by assumption. destruct (Nat.eqb_spec i t); [lia|reflexivity].
    - rewrite Hlp. exact Hbot. }
  destruct (rref_canonical A R piv HA HR Hrr' Heq) as [E1 E2]. split; [assumption|]. now rewrite <- E2.
Qed.

(** * 4. the TRSM step of mzd_echelonize_pluq with its three alignment cases *)
Section PLUQ.
  Variable trsm : mat -> mat -> mat.
  (** contract of mzd_trsm_upper_left (TRSMProofs.trsm_upper_left_spec is an instance; by
      TRSMProofs.trsm_unique_upper_left every implementation meeting it computes the same X) *)
  Hypothesis trsm_ok : forall U B, wf B ->
    wf (trsm U B) /\ nr (trsm U B) = nr B /\ nc (trsm U B) = nc B /\
    mmul (unit_upper (nr B) U) (trsm U B) = B.

  Section Block.
    Variables (A' : mat) (r : nat).
    Hypothesis HA' : wf A'.
    Hypothesis Hr : r <= nr A'.
    Let U := msub A' 0 0 r r.
    Let UU := unit_upper r U.
    Definition col_solved (F : mat) (j : nat) : Prop :=
      forall i, i < r -> xsum r (fun t => get UU i t && get F t j) = get A' i j.

    Lemma trsm_block c0 w : let X := trsm U (msub A' 0 c0 r w) in
      wf X /\ nr X = r /\ nc X = w /\
      forall i j', i < r -> j' < w -> xsum r (fun t => get UU i t && get X t j') = get A' i (c0 + j').
    Proof.
      intros X. pose proof (wf_len A' HA') as Hl.
      assert (HB : wf (msub A' 0 c0 r w)) by (apply wf_msub; lia).
      destruct (trsm_ok U (msub A' 0 c0 r w) HB) as (HX & Hnr & Hnc & E). fold X in HX, Hnr, Hnc, E.
      cbn [nr nc msub] in Hnr, Hnc, E. splits; auto. intros i j' Hi Hj'.
      pose proof (f_equal (fun M => get M i j') E) as E'. cbv beta in E'.
      rewrite get_mmul, Hnr in E' by assumption. fold UU in E'. rewrite E'.
      rewrite get_msub by lia. destruct (Nat.ltb_spec i r), (Nat.ltb_spec j' w); try lia. reflexivity.
    Qed.

    Lemma paste_block G c0 w : wf G -> nr G = nr A' -> nc G = nc A' -> c0 + w <= nc A' ->
      let F := mpaste G 0 c0 (trsm U (msub A' 0 c0 r w)) in
      wf F /\ nr F = nr A' /\ nc F = nc A' /\
      (forall j, c0 <= j < c0 + w -> col_solved F j) /\
      (forall t j, ~ (c0 <= j < c0 + w) -> get F t j = get G t j).
    Proof.
      intros HG Hnr Hnc Hcw F. destruct (trsm_block c0 w) as (HX & HnrX & HncX & HE).
      set (X := trsm U (msub A' 0 c0 r w)) in *.
      assert (Hlen : 0 + nr X <= length (rows G)) by (rewrite (wf_len G HG); lia).
      splits.
      - apply wf_mpaste; auto. lia.
      - exact Hnr.
      - exact Hnc.
      - intros j Hj i Hi. transitivity (xsum r (fun t => get UU i t && get X t (j - c0))).
        2:{ rewrite (HE i (j - c0)) by lia. f_equal. lia. }
        apply xsum_ext. intros t Ht. f_equal. unfold F. rewrite get_mpaste by assumption.
        rewrite HnrX, HncX, Nat.sub_0_r.
        destruct (Nat.leb_spec 0 t), (Nat.ltb_spec t (0 + r)), (Nat.leb_spec c0 j), (Nat.ltb_spec j (c0 + w));
          try lia. reflexivity.
      - intros t j Hj. unfold F. rewrite get_mpaste by assumption. rewrite HncX.
        destruct (Nat.leb_spec c0 j), (Nat.ltb_spec j (c0 + w)); try lia; now rewrite ?andb_false_r.
    Qed.

    Lemma col_solved_ext F G j : (forall t, get F t j = get G t j) -> col_solved G j -> col_solved F j.
    Proof.
      intros H HG i Hi. rewrite <- (HG i Hi). apply xsum_ext. intros t _. now rewrite H.
    Qed.

    Lemma trsm_part_spec : r <= nc A' ->
      let F := trsm_part trsm A' r in
      wf F /\ nr F = nr A' /\ nc F = nc A' /\ forall j, r <= j < nc A' -> col_solved F j.
    Proof.
      intros Hrc F. unfold F, trsm_part. fold U.
      set (rr := EchelonPLUQ.radix * (r / EchelonPLUQ.radix)).
      assert (Hrr : rr <= r) by (unfold rr, EchelonPLUQ.radix; lia).
      destruct (Nat.eqb_spec rr r) as [E1|E1]; destruct (Nat.eqb_spec r (nc A')) as [E2|E2]; cbn [negb andb].
      - splits; auto. intros j Hj. lia.
      - destruct (paste_block A' r (nc A' - r) HA' eq_refl eq_refl ltac:(lia)) as (W1 & W2 & W3 & W4 & _).
        splits; auto. intros j Hj. apply W4. lia.
      - splits; auto. intros j Hj. lia.
      - destruct (Nat.ltb_spec (rr + EchelonPLUQ.radix) (nc A')) as [E3|E3].
        + destruct (paste_block A' (rr + EchelonPLUQ.radix) (nc A' - (rr + EchelonPLUQ.radix))
                      HA' eq_refl eq_refl ltac:(lia)) as (V1 & V2 & V3 & V4 & V5).
          set (A1 := mpaste A' 0 (rr + EchelonPLUQ.radix) _) in *.
          destruct (paste_block A1 rr EchelonPLUQ.radix V1 V2 V3 ltac:(lia)) as (W1 & W2 & W3 & W4 & W5).
          splits; auto. intros j Hj.
          destruct (Nat.lt_ge_cases j (rr + EchelonPLUQ.radix)) as [Hlo|Hhi].
          * apply W4. lia.
          * apply (col_solved_ext _ A1); [intros t; apply W5; lia|]. apply V4. lia.
        + destruct (paste_block A' rr (nc A' - rr) HA' eq_refl eq_refl ltac:(lia)) as (W1 & W2 & W3 & W4 & _).
          splits; auto. intros j Hj. apply W4. lia.
    Qed.
  End Block.
End PLUQ.

(** * 5. mzd_echelonize_pluq(A, 1) returns (rank A, rref A) *)
Lemma row_top_rows r M i : row (top_rows r M) i = if i <? r then row M i else 0%N.
Proof.
  unfold row, top_rows. cbn [rows]. destruct (Nat.ltb_spec i r).
  - now apply nth_firstn_lt.
  - apply nth_overflow. rewrite firstn_length. lia.
Qed.

Lemma wf_top_rows r M : wf M -> r <= nr M -> wf (top_rows r M).
Proof.
  intros HM Hr. apply wf_of_rows.
  - unfold top_rows. cbn [rows nr]. rewrite firstn_length, (wf_len M HM). lia.
  - intros i. rewrite row_top_rows. cbn [nc top_rows]. destruct (i <? r); [now apply wf_row_bounded|apply bounded_0].
Qed.

Theorem echelon_pluq_full_spec pluq ple trsm A :
  (forall U B, wf B -> wf (trsm U B) /\ nr (trsm U B) = nr B /\ nc (trsm U B) = nc B /\
                        mmul (unit_upper (nr B) U) (trsm U B) = B) ->
  wf A -> pluq_spec A (pluq A) ->
  echelon_pluq pluq ple trsm true A = gauss_delayed true 0 A.
Proof.
  intros Htrsm HA Hspec. unfold echelon_pluq, echelon_pluq_full.
  destruct (pluq A) as [[r A'] [P Q]]. destruct Hspec as [Hst Hrec].
  pose proof (plu_wf _ _ _ _ _ Hst) as HA'. pose proof (plu_nr _ _ _ _ _ Hst) as HnrA'.
  pose proof (plu_nc _ _ _ _ _ Hst) as HncA'. pose proof (plu_r_le_nr _ _ _ _ _ Hst) as Hrr.
  pose proof (plu_r_le_nc _ _ _ _ _ Hst) as Hrc. pose proof (plu_lapack_Q _ _ _ _ _ Hst) as HQ.
  destruct (trsm_part_spec trsm Htrsm A' r HA' ltac:(lia) ltac:(lia)) as (HF & HnrF & HncF & Hsol).
  set (F := trsm_part trsm A' r) in *.
  set (A3 := mpaste F 0 0 (mid r)).
  assert (HlF : 0 + nr (mid r) <= length (rows F)) by (rewrite (wf_len F HF); cbn [nr mid]; lia).
  assert (HA3 : wf A3) by (apply wf_mpaste; [assumption|apply wf_mid|cbn [nc mid]; lia]).
  assert (Hg3 : forall i j, get A3 i j = if (i <? r) && (j <? r) then (i =? j) else get F i j).
  { intros i j. unfold A3. rewrite get_mpaste by (auto using wf_mid). cbn [nr nc mid Nat.add].
    rewrite !Nat.sub_0_r, get_mid.
    destruct (Nat.ltb_spec i r), (Nat.ltb_spec j r); cbn [andb]; reflexivity. }
  set (T3 := top_rows r A3).
  assert (HnrA3 : nr A3 = nr A) by (cbn [nr A3 mpaste map_rows]; congruence).
  assert (HncA3 : nc A3 = nc A) by (cbn [nc A3 mpaste map_rows]; congruence).
  assert (HT3 : wf T3) by (apply wf_top_rows; [assumption|lia]).
  assert (HgT : forall i j, get T3 i j = (i <? r) && get A3 i j).
  { intros i j. unfold get, T3. rewrite row_top_rows. destruct (i <? r); [reflexivity|apply N.bits_0]. }
  set (R1 := apply_p_right T3 Q).
  assert (HR1 : wf R1) by (apply wf_apply_p_right; [assumption|]; cbn [nc T3 top_rows]; now rewrite HncA3).
  assert (HnrR1 : nr R1 = r) by apply nr_cswaps.
  assert (HncR1 : nc R1 = nc A) by (transitivity (nc T3); [apply nc_cswaps|exact HncA3]).
  set (A4 := if 0 <? r then mk (nr A3) (nc A3) (rows R1 ++ skipn r (rows A3)) else A3).
  set (R := clear_rows_from A4 r).
  assert (HlA4 : length (rows A4) = nr A).
  { unfold A4. destruct (0 <? r); [|now rewrite (wf_len A3 HA3)]. cbn [rows].
    rewrite app_length, skipn_length, (wf_len A3 HA3), (wf_len R1 HR1). lia. }
  assert (HrowA4 : forall i, i < r -> row A4 i = row R1 i).
  { intros i Hi. unfold A4. destruct (Nat.ltb_spec 0 r); [|lia]. unfold row. cbn [rows].
    apply app_nth1. rewrite (wf_len R1 HR1). lia. }
  assert (HnrA4 : nr A4 = nr A) by (unfold A4; destruct (0 <? r); assumption).
  assert (HncA4 : nc A4 = nc A) by (unfold A4; destruct (0 <? r); assumption).
  assert (Hrow : forall i, row R i = if i <? r then row R1 i else 0%N).
  { intros i. unfold R, clear_rows_from. rewrite HnrA4. destruct (Nat.eqb_spec r (nr A)) as [E|E].
    - destruct (Nat.ltb_spec i r); [now apply HrowA4|]. apply Span.row_overflow. lia.
    - rewrite row_map_rows. destruct (Nat.ltb_spec i (length (rows A4))) as [Hi|Hi].
      + destruct (Nat.leb_spec r i), (Nat.ltb_spec i r); try lia; try reflexivity. now apply HrowA4.
      + destruct (Nat.ltb_spec i r); [lia|reflexivity]. }
  assert (HR : wf R).
  { apply wf_of_rows.
    - unfold R, clear_rows_from. destruct (r =? nr A4); [|rewrite rows_map_rows_length; cbn [nr map_rows]];
        congruence.
    - intros i. rewrite Hrow. replace (nc R) with (nc A).
      + destruct (i <? r); [rewrite <- HncR1; now apply wf_row_bounded|apply bounded_0].
      + unfold R, clear_rows_from. destruct (r =? nr A4); [|cbn [nc map_rows]]; congruence. }
  assert (HnrR : nr R = nr A).
  { unfold R, clear_rows_from. destruct (r =? nr A4); [|cbn [nr map_rows]]; congruence. }
  assert (HncR : nc R = nc A).
  { unfold R, clear_rows_from. destruct (r =? nr A4); [|cbn [nc map_rows]]; congruence. }
  destruct (echelon_from_factor A r A' P Q T3 R HA Hst Hrec HT3 eq_refl HncA3) as [E1 E2]; auto.
  - (* U11 * T3 = U *)
    apply mat_ext.
    + apply wf_mmul; [apply wf_unit_upper|assumption].
    + apply wf_plu_U.
    + reflexivity.
    + cbn [nc mmul T3 top_rows plu_U unit_upper_rect]. exact HncA3.
    + intros i j Hi Hj. cbn [nr mmul unit_upper] in Hi. cbn [nc mmul T3 top_rows] in Hj.
      rewrite get_mmul by assumption. cbn [nr T3 top_rows].
      unfold plu_U. rewrite get_unit_upper_rect.
      destruct (Nat.ltb_spec i r); [|lia]. rewrite HncA3 in Hj. destruct (Nat.ltb_spec j (nc A)); [|lia].
      cbn [andb]. destruct (Nat.lt_ge_cases j r) as [Hjr|Hjr].
      * rewrite (xsum_single _ _ j Hjr).
        -- rewrite HgT, Hg3. destruct (Nat.ltb_spec j r); [|lia]. cbn [andb]. rewrite Nat.eqb_refl, andb_true_r.
           rewrite get_unit_upper. destruct (Nat.ltb_spec i r); [|lia]. cbn [andb].
           rewrite get_msub by (rewrite (wf_len A' HA'); lia). cbn [Nat.add].
           destruct (Nat.ltb_spec i r), (Nat.ltb_spec j r); try lia. cbn [andb]. now rewrite andb_true_r.
        -- intros t Ht Hne. rewrite HgT, Hg3. destruct (Nat.ltb_spec t r), (Nat.ltb_spec j r); try lia.
           cbn [andb]. destruct (Nat.eqb_spec t j); [contradiction|apply andb_false_r].
      * transitivity (get A' i j).
        -- rewrite <- (Hsol j ltac:(lia) i ltac:(lia)). apply xsum_ext. intros t Ht. f_equal.
           rewrite HgT, Hg3. destruct (Nat.ltb_spec t r), (Nat.ltb_spec j r); try lia. reflexivity.
        -- destruct (Nat.eqb_spec i j); [lia|]. destruct (Nat.ltb_spec i j); [|lia]. reflexivity.
  - intros i j Hi Hj. rewrite HgT, Hg3. destruct (Nat.ltb_spec i r), (Nat.ltb_spec j r); try lia. reflexivity.
  - intros i Hi. rewrite Hrow. destruct (Nat.ltb_spec i r); [reflexivity|lia].
  - intros i Hi. rewrite Hrow. destruct (Nat.ltb_spec i r); [lia|reflexivity].
  - rewrite gauss_true_pair. fold F A3 T3 R1 A4 R. now rewrite E1, E2.
Qed.

(** * 6. the hybrid mzd_echelonize(A, 1) and the agreement of all routes *)
Theorem mzd_echelonize_full_spec pluq ple trsm k ktop oracle A :
  (forall U B, wf B -> wf (trsm U B) /\ nr (trsm U B) = nr B /\ nc (trsm U B) = nc B /\
                        mmul (unit_upper (nr B) U) (trsm U B) = B) ->
  (forall W, wf W -> pluq_spec W (pluq W)) ->
  1 <= k -> 1 <= ktop -> wf A ->
  mzd_echelonize_model pluq ple trsm k ktop oracle true A = Some (gauss_delayed true 0 A).
Proof.
  intros Htrsm Hpluq Hk Hkt HA. unfold mzd_echelonize_model. apply m4ri_full_spec; auto.
  intros W HW. apply echelon_pluq_full_spec; auto.
Qed.

(** every route returns the same (rank, matrix) in reduced mode: naive Gauss-Jordan
    ([gauss_delayed true 0] = mzd_echelonize_naive / mzd_gauss_delayed(A,0,1), by definition the
    reference), M4RI with any k >= 1, PLUQ-based, the hybrid with any sequence of switching
    decisions, and the top reduction of any row echelon form of A *)
Theorem routes_agree pluq ple trsm k ktop oracle A :
  (forall U B, wf B -> wf (trsm U B) /\ nr (trsm U B) = nr B /\ nc (trsm U B) = nc B /\
                        mmul (unit_upper (nr B) U) (trsm U B) = B) ->
  (forall W, wf W -> pluq_spec W (pluq W)) ->
  1 <= k -> 1 <= ktop -> wf A ->
  let ref := (rank A, rref A) in
  gauss_delayed true 0 A = ref /\
  m4ri_run k true A = Some ref /\
  echelon_pluq pluq ple trsm true A = ref /\
  mzd_echelonize_model pluq ple trsm k ktop oracle true A = Some ref /\
  (forall M piv, wf M -> is_ref M piv -> row_equiv A M -> top_run k M = Some (rref A)).
Proof.
  intros Htrsm Hpluq Hk Hkt HA ref. unfold ref. rewrite <- gauss_true_pair. splits.
  - reflexivity.
  - now apply m4ri_run_full_spec.
  - apply echelon_pluq_full_spec; auto.
  - apply mzd_echelonize_full_spec; auto.
  - intros M piv HM Href Heq. unfold top_run. rewrite (top_echelonize_spec k M piv Hk Href HM). f_equal.
    now destruct (top_reduce_rref A M piv HA HM Href Heq).
Qed.

(** the runnable instance: naive PLUQ of Alg/PLE.v + substitution TRSM of Alg/TRSM.v *)
From M4 Require Import Alg.PLEProofs3.
Theorem echelon_pluq_run_full_spec A : wf A -> echelon_pluq_run true A = gauss_delayed true 0 A.
Proof.
  intros HA. unfold echelon_pluq_run. apply echelon_pluq_full_spec; auto.
  - intros U B HB. exact (trsm_upper_left_spec U B HB).
  - apply pluq_naive_spec; [assumption|apply seq_length..].
Qed.

Theorem hybrid_run_full_spec k ktop oracle A : 1 <= k -> 1 <= ktop -> wf A ->
  hybrid_run k ktop oracle true A = Some (gauss_delayed true 0 A).
Proof.
  intros Hk Hkt HA. unfold hybrid_run. apply m4ri_full_spec; auto.
  intros W HW. now apply echelon_pluq_run_full_spec.
Qed.

(** * 7. non-reduced mode (echelonform.c:108-117): NOT proved here.
    Full statement (open):
      ple_spec A (ple A) -> wf A ->
      let '(r, E) := echelon_pluq pluq ple trsm false A in
      exists piv, r = length piv /\ r = rank A /\ wf E /\ row_equiv A E /\ is_ref E piv.
    ([ref_of_crp] above is the tool: E = apply_p_right (plu_U ..) Q on the first r rows.)
    Exact equality with [gauss_delayed false 0 A] does NOT follow from [ple_spec]: the
    specification leaves the choice of the row permutation P free, and the non-reduced echelon form
    depends on it.  It holds for the naive PLE model (first row of the left-most column), checked
    below by evaluation. *)
Example echelon_pluq_nonfull_partial :
  let A := mk 5 70 [0x2000000000000000F1; 0x3; 0x100000000000000005; 0x2000000000000000F2; 0x0]%N in
  echelon_pluq_run false A = gauss_delayed false 0 A /\ echelon_pluq_run true A = gauss_delayed true 0 A.
Proof. vm_compute. split; reflexivity. Qed.
